(* CborProofs.v — the DAG-CBOR layer: decode (encode n ++ rest) = (canon n, rest) for every well-formed
   node (any nesting), the decoder never runs out of fuel, and it always makes progress. *)
From Coq Require Import List NArith ZArith Bool Lia ZifyBool ZifyNat ZifyN Permutation.
From GS Require Import Base Varint VarintProofs Cbor.
Import ListNotations.
Open Scope N_scope.
Ltac Zify.zify_post_hook ::= Z.div_mod_to_equations.

(* ---------- unfolding equations (the mutual fixpoint is never unfolded by cbn/simpl below) ---------- *)
Lemma dec_S f depth budget bs :
  dec (S f) depth budget bs =
  match dec_tag bs with
  | None => DErr
  | Some (tg, b, r) =>
      if b / 32 =? 4 then
        match dec_arg (b mod 32) r with
        | None => DErr
        | Some (n, r1) =>
            if MaxInt <? n then DErr else if MaxDepth <=? depth then DErr else if budget <? n then DErr
            else match dec_list f (depth + 1) (budget - n) n r1 with
                 | DOk (l, bu, r2) => DOk (NList l, bu, r2)
                 | DErr => DErr
                 | DFuel => DFuel
                 end
        end
      else if b / 32 =? 5 then
        match dec_arg (b mod 32) r with
        | None => DErr
        | Some (n, r1) =>
            if MaxInt <? n then DErr else if MaxDepth <=? depth then DErr else if budget <? n then DErr
            else match dec_map f (depth + 1) (budget - n) n [] r1 with
                 | DOk (kvs, bu, r2) => DOk (NMap kvs, bu, r2)
                 | DErr => DErr
                 | DFuel => DFuel
                 end
        end
      else match dec_scalar tg b r budget with
           | Some x => DOk x
           | None => DErr
           end
  end.
Proof. reflexivity. Qed.

Lemma dec_list_S f depth budget count bs :
  dec_list (S f) depth budget count bs =
  if count =? 0 then DOk ([], budget, bs)
  else if budget <? listEntryCost then DErr
  else match dec f depth (budget - listEntryCost) bs with
       | DOk (v, bu, r) =>
           match dec_list f depth bu (count - 1) r with
           | DOk (l, bu2, r2) => DOk (v :: l, bu2, r2)
           | DErr => DErr
           | DFuel => DFuel
           end
       | DErr => DErr
       | DFuel => DFuel
       end.
Proof. reflexivity. Qed.

Lemma dec_map_S f depth budget count seen bs :
  dec_map (S f) depth budget count seen bs =
  if count =? 0 then DOk ([], budget, bs)
  else match dec_key bs with
       | None => DErr
       | Some (k, r) =>
           if budget <? blen k + mapEntryCost then DErr
           else if existsb (bytes_eqb k) seen then DErr
           else match dec f depth (budget - (blen k + mapEntryCost)) r with
                | DOk (v, bu, r1) =>
                    match dec_map f depth bu (count - 1) (k :: seen) r1 with
                    | DOk (kvs, bu2, r2) => DOk ((k, v) :: kvs, bu2, r2)
                    | DErr => DErr
                    | DFuel => DFuel
                    end
                | DErr => DErr
                | DFuel => DFuel
                end
       end.
Proof. reflexivity. Qed.

Lemma dec_0 depth budget bs : dec 0 depth budget bs = DFuel. Proof. reflexivity. Qed.
Lemma dec_list_0 depth budget c bs : dec_list 0 depth budget c bs = DFuel. Proof. reflexivity. Qed.
Lemma dec_map_0 depth budget c s bs : dec_map 0 depth budget c s bs = DFuel. Proof. reflexivity. Qed.
Global Opaque dec dec_list dec_map.

(* ---------- heads ---------- *)
Lemma take_k_app k (a rest : bytes) : length a = k -> take_k k (a ++ rest) = Some (a, rest).
Proof.
  intros <-. unfold take_k. rewrite app_length.
  destruct (Nat.ltb_spec (length a + length rest) (length a)); [lia|].
  rewrite firstn_app, Nat.sub_diag, firstn_all. simpl. rewrite app_nil_r.
  rewrite skipn_app, Nat.sub_diag, skipn_all. reflexivity.
Qed.

Lemma take_k_split k bs a r : take_k k bs = Some (a, r) -> bs = a ++ r /\ length a = k.
Proof.
  unfold take_k. destruct (Nat.ltb_spec (length bs) k); [discriminate|].
  intro E; inversion E; subst. split; [symmetry; apply firstn_skipn|]. rewrite firstn_length. lia.
Qed.

Lemma dec_arg_small info r : info < 24 -> dec_arg info r = Some (info, r).
Proof. intro H. unfold dec_arg. now replace (info <? 24) with true by (symmetry; now apply N.ltb_lt). Qed.
Lemma dec_arg_24 r : dec_arg 24 r =
  match take_k 1 r with Some (v, r') => if be_dec v <? 24 then None else Some (be_dec v, r') | None => None end.
Proof. reflexivity. Qed.
Lemma dec_arg_25 r : dec_arg 25 r =
  match take_k 2 r with Some (v, r') => if be_dec v <? 256 then None else Some (be_dec v, r') | None => None end.
Proof. reflexivity. Qed.
Lemma dec_arg_26 r : dec_arg 26 r =
  match take_k 4 r with Some (v, r') => if be_dec v <? 65536 then None else Some (be_dec v, r') | None => None end.
Proof. reflexivity. Qed.
Lemma dec_arg_27 r : dec_arg 27 r =
  match take_k 8 r with Some (v, r') => if be_dec v <? 4294967296 then None else Some (be_dec v, r') | None => None end.
Proof. reflexivity. Qed.

Lemma head_roundtrip mj arg rest :
  mj < 8 -> arg < 18446744073709551616 ->
  exists b tl, enc_head mj arg ++ rest = b :: tl /\ b / 32 = mj /\ dec_arg (b mod 32) tl = Some (arg, rest).
Proof.
  intros Hmj Harg. unfold enc_head.
  destruct (N.ltb_spec arg 24) as [H1|H1].
  { exists (mj * 32 + arg), rest. split; [reflexivity|]. split; [lia|].
    replace ((mj * 32 + arg) mod 32) with arg by lia. now apply dec_arg_small. }
  destruct (N.ltb_spec arg 256) as [H2|H2].
  { exists (mj * 32 + 24), (arg :: rest). split; [reflexivity|]. split; [lia|].
    replace ((mj * 32 + 24) mod 32) with 24 by lia. rewrite dec_arg_24.
    change (arg :: rest) with ([arg] ++ rest). rewrite take_k_app by reflexivity.
    change (be_dec [arg]) with (0 * 256 + arg). replace (0 * 256 + arg) with arg by lia.
    now replace (arg <? 24) with false by (symmetry; now apply N.ltb_ge). }
  destruct (N.ltb_spec arg 65536) as [H3|H3].
  { exists (mj * 32 + 25), (be 2 arg ++ rest). split; [reflexivity|]. split; [lia|].
    replace ((mj * 32 + 25) mod 32) with 25 by lia. rewrite dec_arg_25.
    rewrite take_k_app by apply be_length. rewrite be_dec_be_small by (simpl; lia).
    now replace (arg <? 256) with false by (symmetry; now apply N.ltb_ge). }
  destruct (N.ltb_spec arg 4294967296) as [H4|H4].
  { exists (mj * 32 + 26), (be 4 arg ++ rest). split; [reflexivity|]. split; [lia|].
    replace ((mj * 32 + 26) mod 32) with 26 by lia. rewrite dec_arg_26.
    rewrite take_k_app by apply be_length. rewrite be_dec_be_small by (simpl; lia).
    now replace (arg <? 65536) with false by (symmetry; now apply N.ltb_ge). }
  exists (mj * 32 + 27), (be 8 arg ++ rest). split; [reflexivity|]. split; [lia|].
  replace ((mj * 32 + 27) mod 32) with 27 by lia. rewrite dec_arg_27.
  rewrite take_k_app by apply be_length. rewrite be_dec_be_small by (simpl; lia).
  now replace (arg <? 4294967296) with false by (symmetry; now apply N.ltb_ge).
Qed.

Lemma enc_head_nonempty mj arg : (1 <= length (enc_head mj arg))%nat.
Proof.
  unfold enc_head. destruct (arg <? 24); [simpl; lia|]. destruct (arg <? 256); [simpl; lia|].
  destruct (arg <? 65536); [simpl; lia|]. destruct (arg <? 4294967296); simpl; lia.
Qed.

Lemma dec_tag_plain b r : b / 32 <> 6 -> dec_tag (b :: r) = Some (None, b, r).
Proof. intro H. unfold dec_tag. now replace (b / 32 =? 6) with false by (symmetry; now apply N.eqb_neq). Qed.

(* ---------- sorting ---------- *)
Section SortFacts.
  Context {V : Type}.
  Lemma kv_insert_perm (x : bytes * V) l : Permutation (kv_insert x l) (x :: l).
  Proof.
    induction l as [|y l IH]; simpl; [reflexivity|].
    destruct (key_ltb (fst y) (fst x)); [|reflexivity].
    rewrite IH. apply perm_swap.
  Qed.
  Lemma kv_sort_perm (l : list (bytes * V)) : Permutation (kv_sort l) l.
  Proof. induction l as [|x l IH]; simpl; [reflexivity|]. rewrite kv_insert_perm. now constructor. Qed.
  Lemma kv_sort_length (l : list (bytes * V)) : length (kv_sort l) = length l.
  Proof. apply Permutation_length, kv_sort_perm. Qed.
  Lemma kv_sort_blen (l : list (bytes * V)) : blen (kv_sort l) = blen l.
  Proof. unfold blen. now rewrite kv_sort_length. Qed.
  Lemma kv_sort_nodup (l : list (bytes * V)) : NoDup (map fst l) -> NoDup (map fst (kv_sort l)).
  Proof. intro H. eapply Permutation_NoDup; [|exact H]. apply Permutation_map. symmetry. apply kv_sort_perm. Qed.
  Lemma kv_sort_forall (P : bytes * V -> Prop) l : Forall P l -> Forall P (kv_sort l).
  Proof. intro H. eapply Permutation_Forall; [|exact H]. symmetry. apply kv_sort_perm. Qed.
End SortFacts.

Lemma kv_insert_map {V W} (f : V -> W) (x : bytes * V) l :
  kv_insert (match x with (k, v) => (k, f v) end) (map (fun kv => match kv with (k, v) => (k, f v) end) l)
  = map (fun kv => match kv with (k, v) => (k, f v) end) (kv_insert x l).
Proof.
  induction l as [|y l IH]; [reflexivity|].
  destruct x as [kx vx], y as [ky vy]. cbn [map kv_insert fst].
  destruct (key_ltb ky kx); cbn [map]; [|reflexivity].
  f_equal. exact IH.
Qed.
Lemma kv_sort_map {V W} (f : V -> W) (l : list (bytes * V)) :
  kv_sort (map (fun kv => match kv with (k, v) => (k, f v) end) l)
  = map (fun kv => match kv with (k, v) => (k, f v) end) (kv_sort l).
Proof.
  induction l as [|x l IH]; [reflexivity|]. cbn [map kv_sort]. rewrite IH. apply kv_insert_map.
Qed.

(* ---------- well-formed nodes ---------- *)
Fixpoint wf_node (n : node) : Prop :=
  match n with
  | NNull | NBool _ => True
  | NInt z => (-9223372036854775808 <= z < 18446744073709551616)%Z
  | NFloat b => b < 18446744073709551616 /\ f64_finite b = true
  | NStr s => blen s <= MaxChunk
  | NBytes s => blen s <= MaxChunk
  | NLink c => blen c + 1 <= MaxChunk /\ cid_cast_ok c = true
  | NList l => blen l <= MaxInt /\ fold_right (fun v acc => wf_node v /\ acc) True l
  | NMap kvs => blen kvs <= MaxInt /\ NoDup (map fst kvs) /\
                fold_right (fun (kv : bytes * node) acc => match kv with (k, v) => (blen k <= MaxChunk /\ wf_node v) /\ acc end) True kvs
  end.

Lemma wf_list_forall l : fold_right (fun v acc => wf_node v /\ acc) True l <-> Forall wf_node l.
Proof. induction l; simpl; split; intro H; auto; [constructor; tauto | inversion H; tauto]. Qed.
Lemma wf_map_forall kvs :
  fold_right (fun (kv : bytes * node) acc => match kv with (k, v) => (blen k <= MaxChunk /\ wf_node v) /\ acc end) True kvs
  <-> Forall (fun kv => blen (fst kv) <= MaxChunk /\ wf_node (snd kv)) kvs.
Proof.
  induction kvs as [|[k v] l IH]; simpl; split; intro H; auto.
  - constructor; [simpl; tauto | apply IH; tauto].
  - inversion H; subst. simpl in *. split; [tauto | apply IH; assumption].
Qed.

Section NodeInd.
  Variable P : node -> Prop.
  Hypothesis Hnull : P NNull.
  Hypothesis Hbool : forall b, P (NBool b).
  Hypothesis Hint : forall z, P (NInt z).
  Hypothesis Hfloat : forall b, P (NFloat b).
  Hypothesis Hstr : forall s, P (NStr s).
  Hypothesis Hbytes : forall s, P (NBytes s).
  Hypothesis Hlink : forall c, P (NLink c).
  Hypothesis Hlist : forall l, Forall P l -> P (NList l).
  Hypothesis Hmap : forall kvs, Forall (fun kv => P (snd kv)) kvs -> P (NMap kvs).
  Fixpoint node_ind' (n : node) : P n :=
    match n with
    | NNull => Hnull
    | NBool b => Hbool b
    | NInt z => Hint z
    | NFloat b => Hfloat b
    | NStr s => Hstr s
    | NBytes s => Hbytes s
    | NLink c => Hlink c
    | NList l => Hlist l ((fix go (l : list node) : Forall P l :=
                             match l with
                             | [] => Forall_nil _
                             | x :: r => Forall_cons x (node_ind' x) (go r)
                             end) l)
    | NMap kvs => Hmap kvs ((fix go (l : list (bytes * node)) : Forall (fun kv => P (snd kv)) l :=
                               match l with
                               | [] => Forall_nil _
                               | kv :: r => Forall_cons kv (match kv as kv0 return P (snd kv0) with (k, v) => node_ind' v end) (go r)
                               end) kvs)
    end.
End NodeInd.

Lemma encode_nonempty n : (1 <= length (encode n))%nat.
Proof.
  destruct n; cbn [encode]; try (simpl; lia).
  - destruct b; simpl; lia.
  - destruct (0 <=? z)%Z; apply enc_head_nonempty.
  - unfold enc_str. rewrite app_length. pose proof (enc_head_nonempty 3 (blen s)). lia.
  - rewrite app_length. pose proof (enc_head_nonempty 2 (blen s)). lia.
  - rewrite app_length. pose proof (enc_head_nonempty 4 (blen l)). lia.
  - rewrite app_length. pose proof (enc_head_nonempty 5 (blen kvs)). lia.
Qed.

(* ---------- scalars ---------- *)
Lemma dec_scalar_mj0 tg b r bu : b / 32 = 0 ->
  dec_scalar tg b r bu =
  match dec_arg (b mod 32) r with
  | Some (v, r1) => if bu <? 1 then None else Some (NInt (Z.of_N v), bu - 1, r1)
  | None => None end.
Proof. intro H. unfold dec_scalar. rewrite H. reflexivity. Qed.
Lemma dec_scalar_mj1 tg b r bu : b / 32 = 1 ->
  dec_scalar tg b r bu =
  match dec_arg (b mod 32) r with
  | Some (v, r1) =>
      if v =? 18446744073709551615 then (if bu <? 1 then None else Some (NInt 0, bu - 1, r1))
      else if MaxInt <? v then None else if bu <? 1 then None
      else Some (NInt (- Z.of_N v - 1), bu - 1, r1)
  | None => None end.
Proof. intro H. unfold dec_scalar. rewrite H. reflexivity. Qed.
Lemma dec_scalar_mj2 tg b r bu : b / 32 = 2 ->
  dec_scalar tg b r bu =
  match dec_chunk (b mod 32) r with
  | Some (s, r1) =>
      if bu <? blen s then None else
      match tg with
      | None => Some (NBytes s, bu - blen s, r1)
      | Some t =>
          if t =? 42 then
            match s with
            | 0 :: c => if cid_cast_ok c then Some (NLink c, bu - blen s, r1) else None
            | _ => None
            end
          else None
      end
  | None => None end.
Proof. intro H. unfold dec_scalar. rewrite H. reflexivity. Qed.
Lemma dec_scalar_mj3 tg b r bu : b / 32 = 3 ->
  dec_scalar tg b r bu =
  match dec_chunk (b mod 32) r with
  | Some (s, r1) => if bu <? blen s then None else Some (NStr s, bu - blen s, r1)
  | None => None end.
Proof. intro H. unfold dec_scalar. rewrite H. reflexivity. Qed.

Lemma dec_chunk_rt mj (s rest : bytes) :
  mj < 8 -> blen s <= MaxChunk ->
  exists b tl, enc_head mj (blen s) ++ s ++ rest = b :: tl /\ b / 32 = mj /\ dec_chunk (b mod 32) tl = Some (s, rest).
Proof.
  intros Hmj Hs. unfold MaxChunk in Hs.
  destruct (head_roundtrip mj (blen s) (s ++ rest) Hmj ltac:(lia)) as (b & tl & E & Hb & Hd).
  exists b, tl. split; [exact E|]. split; [exact Hb|].
  unfold dec_chunk. rewrite Hd.
  replace (MaxInt <? blen s) with false by (symmetry; apply N.ltb_ge; unfold MaxInt; lia).
  replace (MaxChunk <? blen s) with false by (symmetry; apply N.ltb_ge; unfold MaxChunk; lia).
  apply take_n_app.
Qed.

(* ---------- the induction ---------- *)
Definition sumc (l : list node) : N := fold_right (fun v acc => listEntryCost + cost v + acc) 0 l.
Definition sumk (l : list (bytes * node)) : N :=
  fold_right (fun kv acc => match kv with (k, v) => blen k + mapEntryCost + cost v + acc end) 0 l.
Definition maxd (l : list node) : N := fold_right (fun v acc => N.max (ndepth v) acc) 0 l.
Definition maxdk (l : list (bytes * node)) : N :=
  fold_right (fun kv acc => match kv with (_, v) => N.max (ndepth v) acc end) 0 l.

Lemma sumk_perm l l' : Permutation l l' -> sumk l = sumk l'.
Proof.
  induction 1 as [|[k v] l l' _ IH|[k v] [k' v'] l|l1 l2 l3 _ IH1 _ IH2]; simpl; try lia; try congruence.
Qed.
Lemma maxd_in v l : In v l -> ndepth v <= maxd l.
Proof. induction l as [|x l IH]; simpl; [tauto|]. intros [->|H]; [lia|]. specialize (IH H). lia. Qed.
Lemma maxdk_in kv l : In kv l -> ndepth (snd kv) <= maxdk l.
Proof.
  induction l as [|[k x] l IH]; simpl; [tauto|]. intros [<-|H]; [simpl; lia|]. specialize (IH H). lia.
Qed.

Definition rt_stmt (n : node) : Prop :=
  wf_node n -> forall fuel depth budget rest,
  (2 * length (encode n) <= fuel)%nat -> depth + ndepth n <= MaxDepth -> cost n <= budget ->
  dec fuel depth budget (encode n ++ rest) = DOk (canon n, budget - cost n, rest).

Lemma dec_list_rt l : Forall rt_stmt l -> Forall wf_node l ->
  forall fuel depth budget rest,
  (2 * length (concat (map encode l)) + 1 <= fuel)%nat ->
  Forall (fun v => depth + ndepth v <= MaxDepth) l -> sumc l <= budget ->
  dec_list fuel depth budget (blen l) (concat (map encode l) ++ rest)
  = DOk (map canon l, budget - sumc l, rest).
Proof.
  induction l as [|v l IH]; intros HP Hwf fuel depth budget rest Hf Hd Hb.
  - destruct fuel as [|f]; [simpl in Hf; lia|]. rewrite dec_list_S. simpl. f_equal. f_equal. f_equal. lia.
  - inversion HP as [|? ? Pv Pl]; subst. inversion Hwf as [|? ? Wv Wl]; subst. inversion Hd as [|? ? Dv Dl]; subst.
    cbn [map concat] in *. rewrite app_length in Hf. pose proof (encode_nonempty v) as Hne.
    destruct fuel as [|f]; [lia|]. rewrite dec_list_S.
    cbn [sumc fold_right] in Hb. fold (sumc l) in Hb. unfold listEntryCost in *.
    replace (blen (v :: l) =? 0) with false by (symmetry; apply N.eqb_neq; rewrite blen_cons; lia).
    replace (budget <? 4) with false by (symmetry; apply N.ltb_ge; lia).
    rewrite <- app_assoc. rewrite (Pv Wv) by lia.
    replace (blen (v :: l) - 1) with (blen l) by (rewrite blen_cons; lia).
    rewrite IH; try assumption; try lia.
    cbn [sumc fold_right]. fold (sumc l). unfold listEntryCost. f_equal. f_equal. f_equal. lia.
Qed.

Definition enc_kv (kv : bytes * node) : bytes := enc_str (fst kv) ++ encode (snd kv).

Lemma dec_key_rt (k rest : bytes) : blen k <= MaxChunk -> dec_key (enc_str k ++ rest) = Some (k, rest).
Proof.
  intro Hk. unfold enc_str. rewrite <- app_assoc.
  destruct (dec_chunk_rt 3 k rest ltac:(lia) Hk) as (b & tl & E & Hb & Hd).
  rewrite E. unfold dec_key. rewrite dec_tag_plain by lia.
  now replace (b / 32 =? 3) with true by (symmetry; apply N.eqb_eq; exact Hb).
Qed.

Lemma dec_map_rt l : Forall (fun kv => rt_stmt (snd kv)) l ->
  Forall (fun kv => blen (fst kv) <= MaxChunk /\ wf_node (snd kv)) l ->
  NoDup (map fst l) ->
  forall fuel depth budget seen rest,
  (2 * length (concat (map enc_kv l)) + 1 <= fuel)%nat ->
  Forall (fun kv => depth + ndepth (snd kv) <= MaxDepth) l -> sumk l <= budget ->
  (forall k, In k (map fst l) -> ~ In k seen) ->
  dec_map fuel depth budget (blen l) seen (concat (map enc_kv l) ++ rest)
  = DOk (map (fun kv => match kv with (k, v) => (k, canon v) end) l, budget - sumk l, rest).
Proof.
  induction l as [|[k v] l IH]; intros HP Hwf Hnd fuel depth budget seen rest Hf Hd Hb Hseen.
  - destruct fuel as [|f]; [simpl in Hf; lia|]. rewrite dec_map_S. simpl. f_equal. f_equal. f_equal. lia.
  - inversion HP as [|? ? Pv Pl]; subst. inversion Hwf as [|? ? [Wk Wv] Wl]; subst.
    inversion Hd as [|? ? Dv Dl]; subst. inversion Hnd as [|? ? Nk Nl]; subst. cbn [fst snd] in *.
    cbn [map concat] in *. unfold enc_kv at 1 in Hf. cbn [fst snd] in Hf.
    rewrite !app_length in Hf. pose proof (encode_nonempty v) as Hne.
    destruct fuel as [|f]; [lia|]. rewrite dec_map_S.
    cbn [sumk fold_right] in Hb. fold (sumk l) in Hb. unfold mapEntryCost in *.
    replace (blen ((k, v) :: l) =? 0) with false by (symmetry; apply N.eqb_neq; rewrite blen_cons; lia).
    unfold enc_kv at 1. cbn [fst snd]. rewrite <- !app_assoc.
    rewrite dec_key_rt by exact Wk.
    replace (budget <? blen k + 8) with false by (symmetry; apply N.ltb_ge; lia).
    assert (Hex : existsb (bytes_eqb k) seen = false).
    { destruct (existsb (bytes_eqb k) seen) eqn:E; [|reflexivity].
      apply existsb_exists in E as (q & Hq & Eq). apply bytes_eqb_eq in Eq. subst q.
      exfalso. apply (Hseen k); [now left | exact Hq]. }
    rewrite Hex. rewrite (Pv Wv) by lia.
    replace (blen ((k, v) :: l) - 1) with (blen l) by (rewrite blen_cons; lia).
    rewrite IH; try assumption; try lia.
    + cbn [sumk fold_right]. fold (sumk l). unfold mapEntryCost. f_equal. f_equal. f_equal. lia.
    + intros q Hq [<-|Hin]; [contradiction|]. apply (Hseen q); [now right | exact Hin].
Qed.

Lemma encode_map_eq kvs :
  encode (NMap kvs) = enc_head 5 (blen kvs) ++ concat (map enc_kv (kv_sort kvs)).
Proof.
  cbn [encode]. f_equal. rewrite kv_sort_map, map_map. f_equal.
  apply map_ext. intros [k v]. reflexivity.
Qed.
Lemma canon_map_eq kvs :
  canon (NMap kvs) = NMap (map (fun kv => match kv with (k, v) => (k, canon v) end) (kv_sort kvs)).
Proof. cbn [canon]. now rewrite kv_sort_map. Qed.

Lemma dec_rt : forall n, rt_stmt n.
Proof.
  induction n using node_ind'; unfold rt_stmt; intros Hwf fuel depth budget rest Hf Hd Hb;
    (destruct fuel as [|f]; [pose proof (encode_nonempty ltac:(eassumption || exact NNull)); try (simpl in Hf; lia)|]).
  all: try (exfalso; match goal with H : (2 * length (encode ?n) <= 0)%nat |- _ => pose proof (encode_nonempty n); lia end).
  - (* null *) rewrite dec_S. cbn [encode app]. rewrite dec_tag_plain by (now compute).
    cbn. do 3 f_equal. simpl. lia.
  - (* bool *) rewrite dec_S. destruct b; cbn [encode app]; rewrite dec_tag_plain by (now compute);
      cbn [cost] in *; change (245 / 32 =? 4) with false; change (244 / 32 =? 4) with false;
      change (245 / 32 =? 5) with false; change (244 / 32 =? 5) with false; cbv beta iota.
    + change (dec_scalar None 245 rest budget) with (if budget <? 1 then None else Some (NBool true, budget - 1, rest)).
      now replace (budget <? 1) with false by (symmetry; apply N.ltb_ge; lia).
    + change (dec_scalar None 244 rest budget) with (if budget <? 1 then None else Some (NBool false, budget - 1, rest)).
      now replace (budget <? 1) with false by (symmetry; apply N.ltb_ge; lia).
  - (* int *) rewrite dec_S. cbn [encode cost canon wf_node] in *.
    destruct (Z.leb_spec 0 z) as [Hz|Hz].
    + destruct (head_roundtrip 0 (Z.to_N z) rest ltac:(lia) ltac:(lia)) as (b & tl & E & Hb0 & Hdec).
      rewrite E, dec_tag_plain by lia. rewrite Hb0. cbv beta iota. change (0 =? 4) with false. change (0 =? 5) with false.
      cbv iota. rewrite dec_scalar_mj0 by exact Hb0. rewrite Hdec.
      replace (budget <? 1) with false by (symmetry; apply N.ltb_ge; lia).
      now rewrite Z2N.id by lia.
    + destruct (head_roundtrip 1 (Z.to_N (-1 - z)) rest ltac:(lia) ltac:(lia)) as (b & tl & E & Hb0 & Hdec).
      rewrite E, dec_tag_plain by lia. rewrite Hb0. change (1 =? 4) with false. change (1 =? 5) with false.
      cbv iota. rewrite dec_scalar_mj1 by exact Hb0. rewrite Hdec.
      replace (Z.to_N (-1 - z) =? 18446744073709551615) with false by (symmetry; apply N.eqb_neq; lia).
      replace (MaxInt <? Z.to_N (-1 - z)) with false by (symmetry; apply N.ltb_ge; unfold MaxInt; lia).
      replace (budget <? 1) with false by (symmetry; apply N.ltb_ge; lia).
      do 3 f_equal. f_equal. lia.
  - (* float *) rewrite dec_S. cbn [encode app cost canon wf_node] in *. destruct Hwf as [Hb64 Hfin].
    rewrite dec_tag_plain by (now compute).
    change (251 / 32 =? 4) with false. change (251 / 32 =? 5) with false. cbv iota.
    change (dec_scalar None 251 (be 8 b ++ rest) budget) with
      (match take_k 8 (be 8 b ++ rest) with
       | Some (v, r1) => if f64_finite (be_dec v) then (if budget <? 1 then None else Some (NFloat (be_dec v), budget - 1, r1)) else None
       | None => None end).
    rewrite take_k_app by apply be_length. rewrite be_dec_be_small by (simpl; lia). rewrite Hfin.
    now replace (budget <? 1) with false by (symmetry; apply N.ltb_ge; lia).
  - (* string *) rewrite dec_S. cbn [encode cost canon wf_node] in *. unfold enc_str. rewrite <- app_assoc.
    destruct (dec_chunk_rt 3 s rest ltac:(lia) Hwf) as (b & tl & E & Hb0 & Hdec).
    rewrite E, dec_tag_plain by lia. rewrite Hb0. change (3 =? 4) with false. change (3 =? 5) with false. cbv iota.
    rewrite dec_scalar_mj3 by exact Hb0. rewrite Hdec.
    now replace (budget <? blen s) with false by (symmetry; apply N.ltb_ge; lia).
  - (* bytes *) rewrite dec_S. cbn [encode cost canon wf_node] in *. rewrite <- app_assoc.
    destruct (dec_chunk_rt 2 s rest ltac:(lia) Hwf) as (b & tl & E & Hb0 & Hdec).
    rewrite E, dec_tag_plain by lia. rewrite Hb0. change (2 =? 4) with false. change (2 =? 5) with false. cbv iota.
    rewrite dec_scalar_mj2 by exact Hb0. rewrite Hdec.
    now replace (budget <? blen s) with false by (symmetry; apply N.ltb_ge; lia).
  - (* link *) rewrite dec_S. cbn [encode cost canon wf_node] in *. destruct Hwf as [Hlen Hcid].
    rewrite <- !app_assoc. cbn [app].
    assert (Hc : blen (0 :: c) <= MaxChunk) by (rewrite blen_cons; exact Hlen).
    replace (blen c + 1) with (blen (0 :: c)) by (now rewrite blen_cons).
    change (0 :: c ++ rest) with ((0 :: c) ++ rest).
    destruct (dec_chunk_rt 2 (0 :: c) rest ltac:(lia) Hc) as (b & tl & E & Hb0 & Hdec).
    rewrite E.
    assert (Htag : dec_tag (216 :: 42 :: b :: tl) = Some (Some 42, b, tl)).
    { unfold dec_tag. change (216 / 32 =? 6) with true. change (216 mod 32) with 24. rewrite dec_arg_24.
      change (42 :: b :: tl) with ([42] ++ b :: tl). rewrite take_k_app by reflexivity.
      change (be_dec [42]) with 42. change (42 <? 24) with false. change (MaxInt <? 42) with false. cbv iota.
      now replace (b / 32 =? 6) with false by (symmetry; apply N.eqb_neq; lia). }
    rewrite Htag. rewrite Hb0. change (2 =? 4) with false. change (2 =? 5) with false. cbv iota.
    rewrite dec_scalar_mj2 by exact Hb0. rewrite Hdec.
    replace (budget <? blen (0 :: c)) with false by (symmetry; apply N.ltb_ge; rewrite blen_cons; lia).
    change (42 =? 42) with true. cbv iota. rewrite Hcid. rewrite blen_cons. reflexivity.
  - (* list *) rewrite dec_S. cbn [wf_node] in Hwf. destruct Hwf as [Hlen Hwf]. apply wf_list_forall in Hwf.
    cbn [encode] in *. rewrite app_length in Hf. rewrite <- app_assoc.
    destruct (head_roundtrip 4 (blen l) (concat (map encode l) ++ rest) ltac:(lia) ltac:(unfold MaxInt in Hlen; lia))
      as (b & tl & E & Hb0 & Hdec).
    pose proof (enc_head_nonempty 4 (blen l)) as Hh.
    rewrite E, dec_tag_plain by lia. rewrite Hb0. change (4 =? 4) with true. cbv iota. rewrite Hdec.
    cbn [cost ndepth] in Hb, Hd. fold (sumc l) in Hb. fold (maxd l) in Hd.
    replace (MaxInt <? blen l) with false by (symmetry; apply N.ltb_ge; exact Hlen).
    replace (MaxDepth <=? depth) with false by (symmetry; apply N.leb_gt; lia).
    replace (budget <? blen l) with false by (symmetry; apply N.ltb_ge; lia).
    rewrite dec_list_rt; try assumption; try lia.
    + cbn [canon cost]. fold (sumc l). do 3 f_equal. lia.
    + apply Forall_forall. intros v Hv. pose proof (maxd_in v l Hv). lia.
  - (* map *) rewrite dec_S. cbn [wf_node] in Hwf. destruct Hwf as (Hlen & Hnd & Hwf). apply wf_map_forall in Hwf.
    rewrite encode_map_eq in *. rewrite canon_map_eq. rewrite app_length in Hf. rewrite <- app_assoc.
    destruct (head_roundtrip 5 (blen kvs) (concat (map enc_kv (kv_sort kvs)) ++ rest) ltac:(lia) ltac:(unfold MaxInt in Hlen; lia))
      as (b & tl & E & Hb0 & Hdec).
    pose proof (enc_head_nonempty 5 (blen kvs)) as Hh.
    rewrite E, dec_tag_plain by lia. rewrite Hb0. change (5 =? 4) with false. change (5 =? 5) with true. cbv iota. rewrite Hdec.
    cbn [cost ndepth] in Hb, Hd. fold (sumk kvs) in Hb. fold (maxdk kvs) in Hd.
    replace (MaxInt <? blen kvs) with false by (symmetry; apply N.ltb_ge; exact Hlen).
    replace (MaxDepth <=? depth) with false by (symmetry; apply N.leb_gt; lia).
    replace (budget <? blen kvs) with false by (symmetry; apply N.ltb_ge; lia).
    rewrite <- (kv_sort_blen kvs). rewrite (sumk_perm kvs (kv_sort kvs)) in * by (symmetry; apply kv_sort_perm).
    rewrite dec_map_rt; try (now apply kv_sort_forall); try (now apply kv_sort_nodup); try (rewrite ?kv_sort_blen; lia).
    + cbn [cost]. fold (sumk kvs). rewrite (sumk_perm kvs (kv_sort kvs)) by (symmetry; apply kv_sort_perm).
      rewrite kv_sort_blen. do 3 f_equal. lia.
    + apply kv_sort_forall. apply Forall_forall. intros kv Hkv. pose proof (maxdk_in kv kvs Hkv). unfold bytes in *. lia.
    + intros k _ [].
Qed.

(* ---------- the round-trip theorem of the CBOR layer ---------- *)
Theorem cbor_roundtrip n rest :
  wf_node n -> ndepth n <= MaxDepth -> cost n <= Budget0 ->
  decode (encode n ++ rest) = DOk (canon n, Budget0 - cost n, rest).
Proof.
  intros Hwf Hd Hc. unfold decode. apply dec_rt; try assumption; try lia.
  rewrite app_length. lia.
Qed.

Corollary cbor_block_roundtrip n :
  wf_node n -> ndepth n <= MaxDepth -> cost n <= Budget0 -> decode_block (encode n) = DOk (canon n).
Proof.
  intros Hwf Hd Hc. unfold decode_block. rewrite <- (app_nil_r (encode n)).
  now rewrite cbor_roundtrip.
Qed.

(* ---------- progress and fuel: for EVERY input ---------- *)
Lemma take_k_len k bs a r : take_k k bs = Some (a, r) -> (length r <= length bs)%nat.
Proof. intro H. apply take_k_split in H as [-> _]. rewrite app_length. lia. Qed.
Lemma take_n_len n bs a r : take_n n bs = Some (a, r) -> (length r <= length bs)%nat.
Proof. intro H. apply take_n_length in H as [-> _]. rewrite app_length. lia. Qed.

Lemma dec_arg_len info r v r' : dec_arg info r = Some (v, r') -> (length r' <= length r)%nat.
Proof.
  unfold dec_arg. destruct (info <? 24); [intro E; inversion E; subst; lia|].
  destruct (info =? 24).
  { destruct (take_k 1 r) as [[a q]|] eqn:T; [|discriminate]. destruct (be_dec a <? 24); [discriminate|].
    intro E; inversion E; subst. eapply take_k_len; eauto. }
  destruct (info =? 25).
  { destruct (take_k 2 r) as [[a q]|] eqn:T; [|discriminate]. destruct (be_dec a <? 256); [discriminate|].
    intro E; inversion E; subst. eapply take_k_len; eauto. }
  destruct (info =? 26).
  { destruct (take_k 4 r) as [[a q]|] eqn:T; [|discriminate]. destruct (be_dec a <? 65536); [discriminate|].
    intro E; inversion E; subst. eapply take_k_len; eauto. }
  destruct (info =? 27); [|discriminate].
  destruct (take_k 8 r) as [[a q]|] eqn:T; [|discriminate]. destruct (be_dec a <? 4294967296); [discriminate|].
  intro E; inversion E; subst. eapply take_k_len; eauto.
Qed.

Lemma dec_tag_len bs tg b r : dec_tag bs = Some (tg, b, r) -> (length r < length bs)%nat.
Proof.
  unfold dec_tag. destruct bs as [|b0 r0]; [discriminate|].
  destruct (b0 / 32 =? 6).
  - destruct (dec_arg (b0 mod 32) r0) as [[t r1]|] eqn:A; [|discriminate].
    apply dec_arg_len in A. destruct (MaxInt <? t); [discriminate|].
    destruct r1 as [|b2 r2]; [discriminate|]. destruct (b2 / 32 =? 6); [discriminate|].
    intro E; inversion E; subst. simpl in *. lia.
  - intro E; inversion E; subst. simpl. lia.
Qed.

Lemma dec_chunk_len info r s r1 : dec_chunk info r = Some (s, r1) -> (length r1 <= length r)%nat.
Proof.
  unfold dec_chunk. destruct (dec_arg info r) as [[n q]|] eqn:A; [|discriminate]. apply dec_arg_len in A.
  destruct (MaxInt <? n); [discriminate|]. destruct (MaxChunk <? n); [discriminate|].
  intro T. apply take_n_len in T. lia.
Qed.

Lemma dec_scalar_len tg b r bu n bu' r1 : dec_scalar tg b r bu = Some (n, bu', r1) -> (length r1 <= length r)%nat.
Proof.
  unfold dec_scalar.
  destruct (b / 32 =? 0).
  { destruct (dec_arg (b mod 32) r) as [[v q]|] eqn:A; [|discriminate]. apply dec_arg_len in A.
    destruct (bu <? 1); [discriminate|]. intro E; inversion E; subst; lia. }
  destruct (b / 32 =? 1).
  { destruct (dec_arg (b mod 32) r) as [[v q]|] eqn:A; [|discriminate]. apply dec_arg_len in A.
    destruct (v =? 18446744073709551615).
    - destruct (bu <? 1); [discriminate|]. intro E; inversion E; subst; lia.
    - destruct (MaxInt <? v); [discriminate|]. destruct (bu <? 1); [discriminate|]. intro E; inversion E; subst; lia. }
  destruct (b / 32 =? 2).
  { destruct (dec_chunk (b mod 32) r) as [[s q]|] eqn:A; [|discriminate]. apply dec_chunk_len in A.
    destruct (bu <? blen s); [discriminate|].
    destruct tg as [t|].
    - destruct (t =? 42); [|discriminate]. destruct s as [|s0 c]; [discriminate|].
      destruct s0; [|discriminate]. destruct (cid_cast_ok c); [|discriminate]. intro E; inversion E; subst; lia.
    - intro E; inversion E; subst; lia. }
  destruct (b / 32 =? 3).
  { destruct (dec_chunk (b mod 32) r) as [[s q]|] eqn:A; [|discriminate]. apply dec_chunk_len in A.
    destruct (bu <? blen s); [discriminate|]. intro E; inversion E; subst; lia. }
  destruct (b / 32 =? 7); [|discriminate].
  destruct ((b =? 246) || (b =? 247)); [intro E; inversion E; subst; lia|].
  destruct (b =? 244); [destruct (bu <? 1); [discriminate|]; intro E; inversion E; subst; lia|].
  destruct (b =? 245); [destruct (bu <? 1); [discriminate|]; intro E; inversion E; subst; lia|].
  destruct (b =? 251).
  { destruct (take_k 8 r) as [[v q]|] eqn:T; [|discriminate]. apply take_k_len in T.
    destruct (f64_finite (be_dec v)); [|discriminate]. destruct (bu <? 1); [discriminate|].
    intro E; inversion E; subst; lia. }
  destruct (b =? 250).
  { destruct (take_k 4 r) as [[v q]|] eqn:T; [|discriminate]. apply take_k_len in T.
    destruct (f32_to_f64 (be_dec v)); [|discriminate]. destruct (bu <? 1); [discriminate|].
    intro E; inversion E; subst; lia. }
  destruct (b =? 249); [|discriminate].
  destruct (take_k 2 r) as [[v q]|] eqn:T; [|discriminate]. apply take_k_len in T.
  destruct (f16_to_f32 (be_dec v)); [|discriminate]. destruct (f32_to_f64 n0); [|discriminate].
  destruct (bu <? 1); [discriminate|]. intro E; inversion E; subst; lia.
Qed.

Lemma dec_key_len bs k r : dec_key bs = Some (k, r) -> (length r < length bs)%nat.
Proof.
  unfold dec_key. destruct (dec_tag bs) as [[[tg b] q]|] eqn:T; [|discriminate]. apply dec_tag_len in T.
  destruct (b / 32 =? 3); [|discriminate]. intro C. apply dec_chunk_len in C. lia.
Qed.

Lemma dec_progress : forall f,
  (forall d bu bs v bu' r, dec f d bu bs = DOk (v, bu', r) -> (length r < length bs)%nat) /\
  (forall d bu c bs l bu' r, dec_list f d bu c bs = DOk (l, bu', r) -> (length r <= length bs)%nat) /\
  (forall d bu c seen bs l bu' r, dec_map f d bu c seen bs = DOk (l, bu', r) -> (length r <= length bs)%nat).
Proof.
  induction f as [|f (IH1 & IH2 & IH3)].
  - repeat split; intros; [rewrite dec_0 in H | rewrite dec_list_0 in H | rewrite dec_map_0 in H]; discriminate.
  - repeat split.
    + intros d bu bs v bu' r. rewrite dec_S.
      destruct (dec_tag bs) as [[[tg b] q]|] eqn:T; [|discriminate]. apply dec_tag_len in T.
      destruct (b / 32 =? 4).
      { destruct (dec_arg (b mod 32) q) as [[n q1]|] eqn:A; [|discriminate]. apply dec_arg_len in A.
        destruct (MaxInt <? n); [discriminate|]. destruct (MaxDepth <=? d); [discriminate|]. destruct (bu <? n); [discriminate|].
        destruct (dec_list f (d + 1) (bu - n) n q1) as [[[l b2] r2]| |] eqn:L; try discriminate.
        apply IH2 in L. intro E; inversion E; subst. lia. }
      destruct (b / 32 =? 5).
      { destruct (dec_arg (b mod 32) q) as [[n q1]|] eqn:A; [|discriminate]. apply dec_arg_len in A.
        destruct (MaxInt <? n); [discriminate|]. destruct (MaxDepth <=? d); [discriminate|]. destruct (bu <? n); [discriminate|].
        destruct (dec_map f (d + 1) (bu - n) n [] q1) as [[[l b2] r2]| |] eqn:L; try discriminate.
        apply IH3 in L. intro E; inversion E; subst. lia. }
      destruct (dec_scalar tg b q bu) as [[[n b2] r2]|] eqn:S; [|discriminate].
      apply dec_scalar_len in S. intro E; inversion E; subst. lia.
    + intros d bu c bs l bu' r. rewrite dec_list_S.
      destruct (c =? 0); [intro E; inversion E; subst; lia|].
      destruct (bu <? listEntryCost); [discriminate|].
      destruct (dec f d (bu - listEntryCost) bs) as [[[v b2] r2]| |] eqn:D; try discriminate. apply IH1 in D.
      destruct (dec_list f d b2 (c - 1) r2) as [[[l2 b3] r3]| |] eqn:L; try discriminate. apply IH2 in L.
      intro E; inversion E; subst. lia.
    + intros d bu c seen bs l bu' r. rewrite dec_map_S.
      destruct (c =? 0); [intro E; inversion E; subst; lia|].
      destruct (dec_key bs) as [[k q]|] eqn:K; [|discriminate]. apply dec_key_len in K.
      destruct (bu <? blen k + mapEntryCost); [discriminate|]. destruct (existsb (bytes_eqb k) seen); [discriminate|].
      destruct (dec f d (bu - (blen k + mapEntryCost)) q) as [[[v b2] r2]| |] eqn:D; try discriminate. apply IH1 in D.
      destruct (dec_map f d b2 (c - 1) (k :: seen) r2) as [[[l2 b3] r3]| |] eqn:L; try discriminate. apply IH3 in L.
      intro E; inversion E; subst. lia.
Qed.

Lemma dec_fuel_enough : forall f,
  (forall d bu bs, (2 * length bs + 1 <= f)%nat -> dec f d bu bs <> DFuel) /\
  (forall d bu c bs, (2 * length bs + 2 <= f)%nat -> dec_list f d bu c bs <> DFuel) /\
  (forall d bu c seen bs, (2 * length bs + 2 <= f)%nat -> dec_map f d bu c seen bs <> DFuel).
Proof.
  induction f as [|f (IH1 & IH2 & IH3)]; [repeat split; intros; lia|].
  repeat split.
  - intros d bu bs Hf. rewrite dec_S.
    destruct (dec_tag bs) as [[[tg b] q]|] eqn:T; [|discriminate]. apply dec_tag_len in T.
    destruct (b / 32 =? 4).
    { destruct (dec_arg (b mod 32) q) as [[n q1]|] eqn:A; [|discriminate]. apply dec_arg_len in A.
      destruct (MaxInt <? n); [discriminate|]. destruct (MaxDepth <=? d); [discriminate|]. destruct (bu <? n); [discriminate|].
      destruct (dec_list f (d + 1) (bu - n) n q1) as [[[l b2] r2]| |] eqn:L; try discriminate.
      exfalso. eapply IH2; [|exact L]. lia. }
    destruct (b / 32 =? 5).
    { destruct (dec_arg (b mod 32) q) as [[n q1]|] eqn:A; [|discriminate]. apply dec_arg_len in A.
      destruct (MaxInt <? n); [discriminate|]. destruct (MaxDepth <=? d); [discriminate|]. destruct (bu <? n); [discriminate|].
      destruct (dec_map f (d + 1) (bu - n) n [] q1) as [[[l b2] r2]| |] eqn:L; try discriminate.
      exfalso. eapply IH3; [|exact L]. lia. }
    destruct (dec_scalar tg b q bu) as [[[n b2] r2]|]; discriminate.
  - intros d bu c bs Hf. rewrite dec_list_S.
    destruct (c =? 0); [discriminate|]. destruct (bu <? listEntryCost); [discriminate|].
    destruct (dec f d (bu - listEntryCost) bs) as [[[v b2] r2]| |] eqn:D; try discriminate.
    + apply (proj1 (dec_progress f)) in D.
      destruct (dec_list f d b2 (c - 1) r2) as [[[l2 b3] r3]| |] eqn:L; try discriminate.
      exfalso. eapply IH2; [|exact L]. lia.
    + exfalso. eapply IH1; [|exact D]. lia.
  - intros d bu c seen bs Hf. rewrite dec_map_S.
    destruct (c =? 0); [discriminate|].
    destruct (dec_key bs) as [[k q]|] eqn:K; [|discriminate]. apply dec_key_len in K.
    destruct (bu <? blen k + mapEntryCost); [discriminate|]. destruct (existsb (bytes_eqb k) seen); [discriminate|].
    destruct (dec f d (bu - (blen k + mapEntryCost)) q) as [[[v b2] r2]| |] eqn:D; try discriminate.
    + apply (proj1 (dec_progress f)) in D.
      destruct (dec_map f d b2 (c - 1) (k :: seen) r2) as [[[l2 b3] r3]| |] eqn:L; try discriminate.
      exfalso. eapply IH3; [|exact L]. lia.
    + exfalso. eapply IH1; [|exact D]. lia.
Qed.

(* the decoder is total: it never reports running out of fuel, whatever the bytes *)
Theorem decode_total bs : decode bs <> DFuel.
Proof. unfold decode. apply (proj1 (dec_fuel_enough _)). lia. Qed.
Theorem decode_block_total bs : decode_block bs <> DFuel.
Proof.
  unfold decode_block. pose proof (decode_total bs).
  destruct (decode bs) as [[[n b] [|x r]]| |]; congruence.
Qed.
