(* C02Contig.v — a syntactic condition on the plan's link paths that implies [trie_ordered] (the guard of
   C02_holds_guarded): the paths are CONTIGUOUS — whenever two links share a path prefix, every link visited
   between them shares it too (children of one inline node are visited contiguously; go-ipld-prime's
   depth-first traversal) — and no later path is a prefix of an earlier one (follows from wf_plan).
   Both are closed under taking subsequences. *)
From Coq Require Import List Arith NArith Bool Lia.
From GS Require Import Base Ltree RecLoader ReqExec RecLoaderProofs C02Online C02Prefix C02Trie C02PrefixProofs.
Import ListNotations.
Open Scope N_scope.

(* ---------- the condition, executable ---------- *)
Fixpoint lcp (a b : path) : path :=
  match a, b with
  | x :: a', y :: b' => if N.eqb x y then x :: lcp a' b' else []
  | _, _ => []
  end.
Definition contig3 (a b d : path * cid) : bool := prefix (lcp (fst a) (fst d)) (fst b).
Fixpoint pairs_ok (a : path * cid) (r : list (path * cid)) : bool :=
  match r with [] => true | b :: r' => forallb (contig3 a b) r' && pairs_ok a r' end.
Fixpoint contigb (l : list (path * cid)) : bool :=
  match l with [] => true | a :: r => pairs_ok a r && contigb r end.
Fixpoint orderedb (l : list (path * cid)) : bool :=
  match l with [] => true | a :: r => forallb (fun b => negb (prefix (fst b) (fst a))) r && orderedb r end.

Definition contiguous (t : ltree) : bool := contigb (tnodes t).

(* ---------- as propositions ---------- *)
Lemma lcp_spec q a b : prefix q a = true -> prefix q b = true -> prefix q (lcp a b) = true.
Proof.
  revert a b. induction q as [|x q IH]; intros a b Ha Hb; [reflexivity|].
  destruct a as [|y a]; [discriminate|]. destruct b as [|z b]; [discriminate|]. cbn in *.
  apply andb_true_iff in Ha as [E1 Ha]. apply andb_true_iff in Hb as [E2 Hb].
  apply N.eqb_eq in E1. apply N.eqb_eq in E2. subst. rewrite N.eqb_refl. cbn. rewrite N.eqb_refl. cbn. now apply IH.
Qed.

Definition before {A} (a b : A) (l : list A) : Prop := exists l1 l2 l3, l = l1 ++ a :: l2 ++ b :: l3.
Lemma before_app_l {A} (a b : A) pre l : before a b l -> before a b (pre ++ l).
Proof. intros (l1 & l2 & l3 & ->). exists (pre ++ l1), l2, l3. now rewrite <- app_assoc. Qed.
Lemma before_in {A} (a b : A) l1 l2 : In a l1 -> In b l2 -> before a b (l1 ++ l2).
Proof.
  intros Ha Hb. apply in_split in Ha as (x1 & x2 & ->). apply in_split in Hb as (y1 & y2 & ->).
  exists x1, (x2 ++ y1), y2. rewrite <- !app_assoc. cbn [app]. reflexivity.
Qed.
Lemma before_cons_inv {A} (a b x : A) l : before a b (x :: l) -> (a = x /\ In b l) \/ before a b l.
Proof.
  intros (l1 & l2 & l3 & E). destruct l1 as [|y l1]; cbn in E; inversion E; subst.
  - left. split; [reflexivity|]. apply in_app_iff. right. now left.
  - right. exists l1, l2, l3. reflexivity.
Qed.

(* d is after b, b is after a *)
Definition before3 {A} (a b d : A) (l : list A) : Prop := exists l1 l2, l = l1 ++ a :: l2 /\ before b d l2.

Lemma pairs_ok_spec a r b d : pairs_ok a r = true -> before b d r -> contig3 a b d = true.
Proof.
  induction r as [|x r IH]; intros H Hb; [destruct Hb as (l1 & l2 & l3 & E); destruct l1; discriminate|].
  cbn in H. apply andb_true_iff in H as [H1 H2]. destruct (before_cons_inv _ _ _ _ Hb) as [[-> Hin]|Hb'].
  - rewrite forallb_forall in H1. now apply H1.
  - now apply IH.
Qed.
Lemma contigb_spec l : contigb l = true -> forall a b d, before3 a b d l -> contig3 a b d = true.
Proof.
  induction l as [|x l IH]; intros H a b d (l1 & l2 & E & Hb); [destruct l1; discriminate|].
  cbn in H. apply andb_true_iff in H as [H1 H2]. destruct l1 as [|y l1]; cbn in E; inversion E; subst.
  - now apply (pairs_ok_spec a l2).
  - apply IH; [exact H2|]. exists l1, l2. auto.
Qed.
Lemma orderedb_spec l : orderedb l = true -> forall a b, before a b l -> prefix (fst b) (fst a) = false.
Proof.
  induction l as [|x l IH]; intros H a b Hb; [destruct Hb as (l1 & l2 & l3 & E); destruct l1; discriminate|].
  cbn in H. apply andb_true_iff in H as [H1 H2]. destruct (before_cons_inv _ _ _ _ Hb) as [[-> Hin]|Hb'].
  - rewrite forallb_forall in H1. specialize (H1 b Hin). now apply negb_true_iff in H1.
  - now apply IH.
Qed.

(* both conditions pass to prefixes of the list *)
Lemma pairs_ok_app a l r : pairs_ok a (l ++ r) = true -> pairs_ok a l = true.
Proof.
  induction l as [|b l IH]; intro H; [reflexivity|]. cbn in *. apply andb_true_iff in H as [H1 H2].
  rewrite forallb_app in H1. apply andb_true_iff in H1 as [H1 _]. rewrite H1. cbn. now apply IH.
Qed.
Lemma contigb_app l r : contigb (l ++ r) = true -> contigb l = true.
Proof.
  induction l as [|a l IH]; intro H; [reflexivity|]. cbn in *. apply andb_true_iff in H as [H1 H2].
  rewrite (pairs_ok_app a l r H1). cbn. now apply IH.
Qed.
Lemma orderedb_app l r : orderedb (l ++ r) = true -> orderedb l = true.
Proof.
  induction l as [|a l IH]; intro H; [reflexivity|]. cbn in *. apply andb_true_iff in H as [H1 H2].
  rewrite forallb_app in H1. apply andb_true_iff in H1 as [H1 _]. rewrite H1. cbn. now apply IH.
Qed.

(* ---------- children's segments are distinct ---------- *)
Inductive ksd : trec -> Prop :=
| ksd_node l s kids : NoDup (map fst kids) -> Forall (fun sk => ksd (snd sk)) kids -> ksd (TRec l s kids).

Lemma ksd_empty : ksd trec_empty.
Proof. constructor; constructor. Qed.

Lemma upd_kids_cases f sg kids :
  (~ In sg (map fst kids) /\ upd_kids f sg kids = kids ++ [(sg, f trec_empty)]) \/
  (exists k1 k k2, kids = k1 ++ (sg, k) :: k2 /\ ~ In sg (map fst k1) /\ upd_kids f sg kids = k1 ++ (sg, f k) :: k2).
Proof.
  induction kids as [|[s k] r IH]; cbn [upd_kids].
  - left. split; [intros []|reflexivity].
  - destruct (N.eqb_spec s sg) as [->|Hn].
    + right. exists [], k, r. repeat split. intros [].
    + destruct IH as [[Hni E]|(k1 & k0 & k2 & E1 & Hni & E2)].
      * left. split; [cbn; intros [H|H]; [congruence | contradiction]|]. cbn. now rewrite E.
      * right. exists ((s, k) :: k1), k0, k2. subst r. rewrite E2. repeat split. cbn. intros [H|H]; [congruence | contradiction].
Qed.

Lemma record_step_ksd : forall p c ok t, ksd t -> ksd (record_step p c ok t).
Proof.
  induction p as [|sg p IH]; intros c ok t Ht; inversion Ht as [l s kids Hnd Hk]; subst; cbn [record_step t_kids t_lnk t_succ].
  - now constructor.
  - destruct (upd_kids_cases (record_step p c ok) sg kids) as [[Hni E]|(k1 & k0 & k2 & E1 & Hni & E2)].
    + rewrite E. constructor.
      * rewrite map_app. cbn. apply nodup_snoc; assumption.
      * apply Forall_app. split; [exact Hk|]. constructor; [|constructor]. cbn. apply IH. apply ksd_empty.
    + rewrite E2. subst kids. constructor.
      * rewrite map_app in *. cbn in *. exact Hnd.
      * apply Forall_app in Hk as [Hk1 Hk2]. apply Forall_cons_iff in Hk2 as [Hk0 Hk2]. apply Forall_app. split; [exact Hk1|].
        constructor; [cbn; now apply IH | exact Hk2].
Qed.

Lemma trie_of_ksd ns : ksd (trie_of ns).
Proof.
  induction ns as [|n ns IH] using rev_ind; [apply ksd_empty|]. rewrite trie_of_snoc. now apply record_step_ksd.
Qed.

(* ---------- recording a path that is last in the record's order ---------- *)
Lemma tlist_kids_app k1 k2 pth : tlist_kids (k1 ++ k2) pth = tlist_kids k1 pth ++ tlist_kids k2 pth.
Proof. induction k1 as [|[s k] r IH]; cbn [app tlist_kids]; [reflexivity|]. now rewrite IH, app_assoc. Qed.

Lemma prefix_snoc_eq pth s1 s2 q : prefix (pth ++ [s1]) q = true -> prefix (pth ++ [s2]) q = true -> s1 = s2.
Proof.
  revert q. induction pth as [|x pth IH]; intros q H1 H2; destruct q as [|y q]; cbn in *; try discriminate.
  - apply andb_true_iff in H1 as [E1 _]. apply andb_true_iff in H2 as [E2 _]. apply N.eqb_eq in E1. apply N.eqb_eq in E2. congruence.
  - apply andb_true_iff in H1 as [_ H1]. apply andb_true_iff in H2 as [_ H2]. now apply (IH q).
Qed.
Lemma prefix_app_same pth p : prefix pth (pth ++ p) = true.
Proof. induction pth as [|x pth IH]; cbn; [reflexivity|]. now rewrite N.eqb_refl. Qed.

Lemma record_last : forall p c ok t pth,
  (tsw t \/ t = trec_empty) -> ksd t ->
  (forall q c', In (q, c') (tlist t pth) -> prefix (pth ++ p) q = false) ->
  (forall a b, before a b (tlist t pth) -> forall q, prefix q (fst a) = true -> prefix q (pth ++ p) = true -> prefix q (fst b) = true) ->
  tlist (record_step p c ok t) pth = tlist t pth ++ [(pth ++ p, c)].
Proof.
  induction p as [|sg p IH]; intros c ok t pth Hw Hk HA HB.
  - (* the node itself: nothing was recorded at or below it *)
    assert (He : tlist t pth = []).
    { destruct (tlist t pth) as [|[q c'] r] eqn:E; [reflexivity|]. exfalso.
      assert (Hin : In (q, c') (tlist t pth)) by (rewrite E; now left).
      pose proof (tlist_prefix t pth q c' Hin) as Hp. specialize (HA q c' (or_introl eq_refl)). rewrite app_nil_r in HA. congruence. }
    destruct t as [l s kids]. rewrite tlist_eq in He. apply app_eq_nil in He as [Hl Hk0].
    destruct l; [discriminate|].
    cbn [record_step t_kids]. rewrite !tlist_eq, Hk0. cbn [app]. now rewrite app_nil_r.
  - destruct t as [l s kids]. inversion Hk as [l0 s0 k0 Hnd Hkk]; subst.
    cbn [record_step t_kids t_lnk t_succ]. rewrite !tlist_eq.
    assert (Hwk : Forall (fun sk : seg * trec => tsw (snd sk)) kids).
    { destruct Hw as [Hw|Hw]; [inversion Hw; subst; assumption | inversion Hw; constructor]. }
    destruct (upd_kids_cases (record_step p c ok) sg kids) as [[Hni E]|(k1 & k & k2 & E1 & Hni & E2)].
    + assert (Hn : tlist (record_step p c ok trec_empty) (pth ++ [sg]) = [(pth ++ sg :: p, c)]).
      { rewrite (IH c ok trec_empty (pth ++ [sg])); [|now right | apply ksd_empty | intros q c' [] |].
        - cbn [tlist app]. now rewrite <- app_assoc.
        - intros a b (l1 & l2 & l3 & Eb). destruct l1; discriminate. }
      rewrite E, tlist_kids_app. cbn [tlist_kids]. unfold seg in *. rewrite Hn. rewrite app_nil_r, <- !app_assoc. reflexivity.
    + subst kids. rewrite E2, !tlist_kids_app. cbn [tlist_kids].
      apply Forall_app in Hwk as [Hw1 Hw2]. apply Forall_cons_iff in Hw2 as [Hw0 Hw2]. cbn [snd] in Hw0.
      apply Forall_app in Hkk as [Hk1 Hk2]. apply Forall_cons_iff in Hk2 as [Hk0 Hk2]. cbn [snd] in Hk0.
      rewrite tlist_eq in HA, HB. rewrite tlist_kids_app in HA, HB. cbn [tlist_kids] in HA, HB.
      (* the child is the last one *)
      assert (Hk2nil : k2 = []).
      { destruct k2 as [|[s' k'] k2']; [reflexivity|]. exfalso.
        apply Forall_cons_iff in Hw2 as [Hw' _]. cbn [snd] in Hw'.
        pose proof (tlist_nonempty k (pth ++ [sg]) Hw0) as Hn1. pose proof (tlist_nonempty k' (pth ++ [s']) Hw') as Hn2.
        destruct (tlist k (pth ++ [sg])) as [|a ra] eqn:Ea; [congruence|]. destruct (tlist k' (pth ++ [s'])) as [|b rb] eqn:Eb; [congruence|].
        assert (Hab : before a b ((match l with Some l0 => [(pth, l0)] | None => [] end) ++
                                   tlist_kids k1 pth ++ tlist k (pth ++ [sg]) ++ tlist_kids ((s', k') :: k2') pth)).
        { rewrite Ea. apply before_app_l. apply before_app_l. cbn [tlist_kids]. rewrite Eb. apply before_in; [now left|]. apply in_app_iff. left. now left. }
        assert (Hpa : prefix (pth ++ [sg]) (fst a) = true).
        { destruct a as [qa ca]. apply (tlist_prefix k (pth ++ [sg]) qa ca). rewrite Ea. now left. }
        assert (Hpn : prefix (pth ++ [sg]) (pth ++ sg :: p) = true).
        { replace (pth ++ sg :: p) with ((pth ++ [sg]) ++ p) by (now rewrite <- app_assoc). apply prefix_app_same. }
        pose proof (HB a b Hab (pth ++ [sg]) Hpa Hpn) as Hpb.
        assert (Hpb' : prefix (pth ++ [s']) (fst b) = true).
        { destruct b as [qb cb]. apply (tlist_prefix k' (pth ++ [s']) qb cb). rewrite Eb. now left. }
        pose proof (prefix_snoc_eq pth sg s' (fst b) Hpb Hpb') as Es. subst s'.
        rewrite map_app in Hnd. cbn in Hnd. apply NoDup_remove_2 in Hnd. apply Hnd. apply in_app_iff. right. now left. }
      subst k2. cbn [tlist_kids]. rewrite !app_nil_r in *. unfold seg in *.
      rewrite (IH c ok k (pth ++ [sg])); [| now left | exact Hk0 | |].
      * rewrite <- !app_assoc. cbn [app]. reflexivity.
      * intros q c' Hin. rewrite <- app_assoc. cbn [app]. apply (HA q c'). apply in_app_iff. right. apply in_app_iff. now right.
      * intros a b Hab q Hq1 Hq2. rewrite <- app_assoc in Hq2. cbn [app] in Hq2. apply (HB a b); [|exact Hq1|exact Hq2].
        apply before_app_l. now apply before_app_l.
Qed.

(* ---------- the theorem ---------- *)
Theorem contig_trie_order ns : orderedb ns = true -> contigb ns = true -> tlist (trie_of ns) [] = ns.
Proof.
  induction ns as [|[p c] ns IH] using rev_ind; intros Ho Hc; [reflexivity|].
  specialize (IH (orderedb_app _ _ Ho) (contigb_app _ _ Hc)).
  rewrite trie_of_snoc. cbn [fst snd].
  rewrite (record_last p c true (trie_of ns) []).
  - now rewrite IH.
  - destruct ns as [|n ns]; [now right | left; apply trie_of_tsw; discriminate].
  - apply trie_of_ksd.
  - rewrite IH. cbn [app]. intros q c' Hin.
    apply (orderedb_spec _ Ho (q, c') (p, c)). apply in_split in Hin as (l1 & l2 & ->). exists l1, l2, []. now rewrite <- app_assoc.
  - rewrite IH. cbn [app]. intros a b Hab q Hq1 Hq2.
    assert (H3 : contig3 a b (p, c) = true).
    { apply (contigb_spec _ Hc). destruct Hab as (l1 & l2 & l3 & ->). exists l1, (l2 ++ b :: l3 ++ [(p, c)]).
      split; [now rewrite <- !app_assoc, <- !app_comm_cons, <- app_assoc|]. exists l2, l3, []. reflexivity. }
    unfold contig3 in H3. cbn [fst] in H3. apply (prefix_trans q (lcp (fst a) p) (fst b)); [|exact H3]. now apply lcp_spec.
Qed.

Lemma orderedb_of_FOP l : ForallOrdPairs (fun a b : path => prefix b a = false) (map fst l) -> orderedb l = true.
Proof.
  induction l as [|a l IH]; intro H; [reflexivity|]. cbn in H. inversion H; subst. cbn. apply andb_true_iff. split; [|now apply IH].
  apply forallb_forall. intros b Hb. apply negb_true_iff.
  match goal with Hf : Forall _ (map fst l) |- _ => rewrite Forall_forall in Hf; apply Hf end. now apply in_map.
Qed.

Lemma firstn_prefix {A} k (l : list A) : exists r, l = firstn k l ++ r.
Proof. exists (skipn k l). now rewrite firstn_skipn. Qed.

(* the guard of C02_holds_guarded follows from the syntactic condition *)
Theorem contiguous_trie_ordered t : wf_plan t = true -> contiguous t = true -> trie_ordered t = true.
Proof.
  intros Hwf Hc. unfold trie_ordered. apply forallb_forall. intros k _.
  assert (Hwt : wf_tree t = true) by (unfold wf_plan in Hwf; destruct (tpath t); [exact Hwf | discriminate]).
  assert (Ho : orderedb (tnodes t) = true).
  { apply orderedb_of_FOP. rewrite (proj1 tnodes_paths). now apply (proj1 paths_ordered). }
  destruct (firstn_prefix k (tnodes t)) as (r & E).
  unfold pc_list_eqb. apply (list_eqb_eq pc_eqb pc_eqb_eq).
  apply contig_trie_order; [apply (orderedb_app _ r) | apply (contigb_app _ r)]; now rewrite <- E.
Qed.

(* for the registry: the syntactic guard on the driver's harvested plans *)
Definition d_contiguous (c : dcase) : bool :=
  match c with DE c => contiguous (ec_plan c) | _ => true end.
