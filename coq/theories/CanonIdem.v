(* CanonIdem.v — canonicalisation is idempotent, so "equal canonical forms" is an equivalence and the
   decoded message is equivalent to the encoded one. *)
From Coq Require Import List NArith ZArith Bool String Lia ZifyBool ZifyNat ZifyN Permutation.
From GS Require Import Base Varint VarintProofs Cbor CborProofs MsgCodec MsgCodecProofs.
Import ListNotations.
Open Scope list_scope.
Open Scope N_scope.

Lemma bytes_ltb_asym a : forall b, bytes_ltb a b = true -> bytes_ltb b a = false.
Proof.
  induction a as [|x a IH]; intros [|y b]; cbn [bytes_ltb]; try discriminate; try reflexivity.
  destruct (N.ltb_spec x y); destruct (N.ltb_spec y x); try lia; try discriminate; try reflexivity.
  apply IH.
Qed.
Lemma key_ltb_asym a b : key_ltb a b = true -> key_ltb b a = false.
Proof.
  unfold key_ltb.
  destruct (Nat.ltb_spec (List.length a) (List.length b)); destruct (Nat.ltb_spec (List.length b) (List.length a));
    try lia; try discriminate; try reflexivity.
  apply bytes_ltb_asym.
Qed.

Section Sorted.
  Context {V : Type}.
  Fixpoint kv_sorted (l : list (bytes * V)) : Prop :=
    match l with
    | [] => True
    | x :: r => match r with [] => True | y :: _ => key_ltb (fst y) (fst x) = false end /\ kv_sorted r
    end.
  Lemma kv_insert_sorted (x : bytes * V) l : kv_sorted l -> kv_sorted (kv_insert x l).
  Proof.
    induction l as [|y l IH]; intro Hs; cbn [kv_insert]; [cbn; auto|].
    destruct (key_ltb (fst y) (fst x)) eqn:E.
    - destruct Hs as [Hy Hl]. specialize (IH Hl). cbn [kv_sorted]. split; [|exact IH].
      destruct l as [|z l]; cbn [kv_insert] in *.
      + now apply key_ltb_asym.
      + destruct (key_ltb (fst z) (fst x)); [exact Hy | now apply key_ltb_asym].
    - cbn [kv_sorted]. split; [exact E | exact Hs].
  Qed.
  Lemma kv_sort_sorted (l : list (bytes * V)) : kv_sorted (kv_sort l).
  Proof. induction l as [|x l IH]; cbn [kv_sort]; [exact I | now apply kv_insert_sorted]. Qed.
  Lemma kv_sort_of_sorted (l : list (bytes * V)) : kv_sorted l -> kv_sort l = l.
  Proof.
    induction l as [|x l IH]; intro Hs; [reflexivity|]. destruct Hs as [Hx Hl]. cbn [kv_sort]. rewrite (IH Hl).
    destruct l as [|y l]; [reflexivity|]. cbn [kv_insert]. now rewrite Hx.
  Qed.
  Lemma kv_sort_idem (l : list (bytes * V)) : kv_sort (kv_sort l) = kv_sort l.
  Proof. apply kv_sort_of_sorted, kv_sort_sorted. Qed.
End Sorted.

Lemma canon_idem : forall n, canon (canon n) = canon n.
Proof.
  induction n using node_ind'; try reflexivity.
  - cbn [canon]. f_equal. rewrite map_map. apply map_ext_in. intros v Hv. rewrite Forall_forall in H. now apply H.
  - rewrite canon_map_eq. rewrite canon_map_eq. f_equal.
    rewrite (kv_sort_map canon (kv_sort kvs)), kv_sort_idem, map_map. apply map_ext_in. intros [k v] Hin.
    f_equal. rewrite Forall_forall in H. apply (H (k, v)).
    eapply Permutation_in; [apply kv_sort_perm | exact Hin].
Qed.

Lemma canon_ext_data_idem d : canon_ext_data (canon_ext_data d) = canon_ext_data d.
Proof.
  destruct d as [n|]; [|reflexivity]. destruct n; cbn [canon_ext_data]; try reflexivity.
  - cbn [canon]. f_equal. f_equal. rewrite map_map. apply map_ext. intro; apply canon_idem.
  - rewrite canon_map_eq. cbn [canon_ext_data]. f_equal. rewrite <- canon_map_eq. apply canon_idem.
Qed.

Lemma canon_exts_idem e : canon_exts (canon_exts e) = canon_exts e.
Proof.
  unfold canon_exts.
  rewrite (kv_sort_map canon_ext_data (kv_sort (map (fun x => match x with (k, d) => (k, canon_ext_data d) end) e))).
  rewrite kv_sort_idem. rewrite (kv_sort_map canon_ext_data e).
  rewrite map_map. apply map_ext. intros [k d]. f_equal. apply canon_ext_data_idem.
Qed.

Lemma canon_msg_idem m : canon_msg (canon_msg m) = canon_msg m.
Proof.
  unfold canon_msg. cbn [m_reqs m_rsps m_blks]. f_equal.
  - rewrite map_map. apply map_ext. intros [id k p r s e]. unfold canon_req; cbn [rq_id rq_kind rq_pri rq_root rq_sel rq_ext].
    f_equal; [destruct s; cbn [option_map]; [now rewrite canon_idem | reflexivity] | apply canon_exts_idem].
  - rewrite map_map. apply map_ext. intros [id st md e]. unfold canon_rsp; cbn [rs_id rs_status rs_md rs_ext].
    f_equal. apply canon_exts_idem.
Qed.

(* C11: the decoded message is equivalent to the one that was encoded *)
Theorem msg_roundtrip_equiv H m rest :
  wf_msg H m ->
  exists bs m', to_net m = Some bs /\ from_net H (bs ++ rest) = NMsg m' rest /\ msg_equiv m' m.
Proof.
  intro Hwf. destruct (msg_roundtrip H m rest Hwf) as (bs & T & F).
  exists bs, (canon_msg m). repeat split; try assumption. unfold msg_equiv. apply canon_msg_idem.
Qed.
