(* RespMgrMsg.v — executable model of the part of /repo/responsemanager that decides which response a
   message reaches (C10): the response table keyed by request id (server.go: processRequests,
   newRequest, abortRequest, processUpdate, the API handlers, startTask/finishTask/getUpdates,
   terminateRequest), the subscriber (subscriber.go: OnNext -> CloseWithNetworkError / TerminateRequest
   / listeners) and, so that responses can be driven through their whole life cycle, the executor's
   per-block protocol (queryexecutor.go: checkForUpdates, sendResponse, executeQuery).

   Every handler of the manager's loop touches exactly one table slot: the one of the request id it
   was given.  The state is therefore organised per request id: a [slot] holds the table entry (with
   the three one-slot signal channels, the pending updates, the stream-closed flag and the remaining
   traversal), the executors parked in a block hook for that id, and the task-queue membership of
   (peer, id) for every peer.  Hook results are carried by the labels (request hook: accept / reject /
   pause / error, update hook: none / unpause / error, block hook: none / pause / error, each with or
   without extension data), so every theorem quantifies over all hook behaviours.

   [cfg] says which owner checks exist; [fixed] is the code as it is in /repo now, [unfixed] the
   pinned code (no check anywhere).  No proofs in this file. *)
From Coq Require Import List NArith Bool.
From GS Require Export Base.
Import ListNotations.
Open Scope N_scope.

Inductive rstate := Queued | Running | Paused | Completing.
Inductive errk := ECancel | ENet | ECmd | EHook | EPaused.
Inductive hres := HAccept | HReject | HPause | HError.
Inductive ures := UNone | UUnpause | UError.
Inductive bres := BNone | BPause | BError.
Inductive tstate := TPending | TActive.

Inductive req :=
| RNew (id tag : N) (hr : hres) (ext : bool) (len : N)
| RCancel (id : N)
| RUpdate (id code : N) (ur : ures) (ext : bool).
Inductive api := APause | AUnpause (ext : bool) | ACancel | AUpdate.

(* One label = one message handled by the manager's loop (LMsg, LApi), one task handed to an executor
   which then runs until it parks in a block hook or finishes (LStart), one release of a parked
   executor (LStep), or what the message queue does when a message was sent or failed: closing the
   response stream (LClose) and the event delivered to the message's subscriber (LSub).  [tag] names
   the request a stream / subscriber / executor was created for (0: the throw-away stream used to
   refuse a request, which has no subscriber worth the name). *)
Inductive label :=
| LMsg (p : N) (rs : list req)
| LApi (id : N) (a : api)
| LStart (pid id : N)
| LStep (pid id tag : N) (bh : bres) (ext : bool)
| LStepH (pid id tag : N) (bh : bres) (ext : bool)   (* as LStep, but the executor's FinishTask call is still on its way *)
| LFinish (pid id e : N)                             (* that FinishTask reaches the manager (e: 0 nil 1 paused 2 cancel 3 net 4 cmd 5 other) *)
| LClose (sp id tag : N)
| LSub (sent : bool) (sp id tag code nblk : N).

Inductive sout :=
| SProtect (p : N) | SUnprotect (p : N)
| SReqHook (p tag : N)
| SUpdHook (p tag code : N)
| SBlkHook (p tag : N)
| SProcessing (p tag : N)
| SMsg (p next nlinks status : N)          (* one transaction handed to the peer's message handler *)
| SPush (p : N) | SRemove (p : N) | SDone (p : N)
| SCancelled (p tag : N) | SCompleted (p tag status : N) | SNetErr (p tag : N) | SBlockSent (p tag : N)
| SRet (ok : bool)
| SAmbig        (* two signals were pending at one select: Go chooses at random, nothing is compared *)
| SUnmodelled.  (* an executor whose table entry was replaced or removed under it *)

Record upd := { u_code : N; u_res : ures; u_ext : bool }.

Record entry := {
  e_peer : N; e_tag : N; e_state : rstate;
  e_updates : list upd;
  e_started : bool;                          (* traverser != nil *)
  e_pause : bool; e_upd : bool; e_err : option errk;   (* signals: three channels of capacity 1 *)
  e_closed : bool;                           (* response stream closed by the message queue *)
  e_left : N;                                (* blocks the traversal has still to visit *)
  e_neterr : bool                            (* networkError: a send failed while the task was running *)
}.

Record exec := { x_pid : N; x_tag : N; x_prepause : bool; x_next : N; x_status : N }.

Record slot := { sl_ent : option entry; sl_execs : list exec; sl_tq : list (N * tstate) }.
Definition empty_slot : slot := {| sl_ent := None; sl_execs := []; sl_tq := [] |}.

Record cfg := { c_cancel : bool; c_update : bool; c_new : bool; c_notif : bool; c_task : bool }.
Definition fixed : cfg := {| c_cancel := true; c_update := true; c_new := true; c_notif := true; c_task := true |}.
Definition unfixed : cfg := {| c_cancel := false; c_update := false; c_new := false; c_notif := false; c_task := false |}.

(* ---- small helpers ---- *)
Definition b2n (b : bool) : N := if b then 1 else 0.
Definition set_ent (sl : slot) (e : option entry) : slot :=
  {| sl_ent := e; sl_execs := sl_execs sl; sl_tq := sl_tq sl |}.
Definition set_execs (sl : slot) (xs : list exec) : slot :=
  {| sl_ent := sl_ent sl; sl_execs := xs; sl_tq := sl_tq sl |}.
Definition set_tq (sl : slot) (q : list (N * tstate)) : slot :=
  {| sl_ent := sl_ent sl; sl_execs := sl_execs sl; sl_tq := q |}.
Definition with_state (en : entry) (s : rstate) : entry :=
  {| e_peer := e_peer en; e_tag := e_tag en; e_state := s; e_updates := e_updates en; e_started := e_started en;
     e_pause := e_pause en; e_upd := e_upd en; e_err := e_err en; e_closed := e_closed en; e_left := e_left en; e_neterr := e_neterr en |}.
Definition with_sigs (en : entry) (pa up : bool) (er : option errk) : entry :=
  {| e_peer := e_peer en; e_tag := e_tag en; e_state := e_state en; e_updates := e_updates en; e_started := e_started en;
     e_pause := pa; e_upd := up; e_err := er; e_closed := e_closed en; e_left := e_left en; e_neterr := e_neterr en |}.
Definition with_updates (en : entry) (us : list upd) : entry :=
  {| e_peer := e_peer en; e_tag := e_tag en; e_state := e_state en; e_updates := us; e_started := e_started en;
     e_pause := e_pause en; e_upd := e_upd en; e_err := e_err en; e_closed := e_closed en; e_left := e_left en; e_neterr := e_neterr en |}.
Definition with_started (en : entry) : entry :=
  {| e_peer := e_peer en; e_tag := e_tag en; e_state := Running; e_updates := e_updates en; e_started := true;
     e_pause := e_pause en; e_upd := e_upd en; e_err := e_err en; e_closed := e_closed en; e_left := e_left en; e_neterr := e_neterr en |}.
Definition with_closed (en : entry) : entry :=
  {| e_peer := e_peer en; e_tag := e_tag en; e_state := e_state en; e_updates := e_updates en; e_started := e_started en;
     e_pause := e_pause en; e_upd := e_upd en; e_err := e_err en; e_closed := true; e_left := e_left en; e_neterr := e_neterr en |}.
Definition with_left (en : entry) (n : N) : entry :=
  {| e_peer := e_peer en; e_tag := e_tag en; e_state := e_state en; e_updates := e_updates en; e_started := e_started en;
     e_pause := e_pause en; e_upd := e_upd en; e_err := e_err en; e_closed := e_closed en; e_left := n; e_neterr := e_neterr en |}.

Definition with_neterr (en : entry) : entry :=
  {| e_peer := e_peer en; e_tag := e_tag en; e_state := e_state en; e_updates := e_updates en; e_started := e_started en;
     e_pause := e_pause en; e_upd := e_upd en; e_err := e_err en; e_closed := e_closed en; e_left := e_left en; e_neterr := true |}.

Definition is_running (en : entry) : bool := match e_state en with Running => true | _ => false end.
Definition is_paused (en : entry) : bool := match e_state en with Paused => true | _ => false end.
Definition is_completing (en : entry) : bool := match e_state en with Completing => true | _ => false end.
Definition is_net (e : errk) : bool := match e with ENet => true | _ => false end.

(* one Transaction on the entry's response stream, as the peer message handler sees it:
   responseassembler.execute does nothing on a closed stream; message.Builder reports PartialResponse
   (14) for a response without status, and no response at all for a transaction without operations *)
Definition mk_msg (closed : bool) (p next nl : N) (st : N) : list sout :=
  if closed then [] else
  if negb (st =? 0) then [SMsg p next nl st]
  else if (next =? 0) && (nl =? 0) then [SMsg p 0 0 0] else [SMsg p next nl 14].

(* go-peertaskqueue, one (peer, topic): a push is dropped while a task with that topic is pending or
   active; Remove only removes a pending task; TaskDone only an active one *)
Definition tq_push (p : N) (q : list (N * tstate)) := match aget p q with Some _ => q | None => aput p TPending q end.
Definition tq_remove (p : N) (q : list (N * tstate)) := match aget p q with Some TPending => adel p q | _ => q end.
Definition tq_done (p : N) (q : list (N * tstate)) := match aget p q with Some TActive => adel p q | _ => q end.

(* server.go terminateRequest *)
Definition terminate (sl : slot) : slot * list sout :=
  match sl_ent sl with
  | None => (sl, [])
  | Some en => (set_ent sl None, [SUnprotect (e_peer en)])
  end.

(* server.go abortRequest; the bool is "returned nil" *)
Definition abort (e : errk) (sl : slot) : slot * list sout * bool :=
  match sl_ent sl with
  | None => (sl, [], false)
  | Some en =>
      let sl1 := set_tq sl (tq_remove (e_peer en) (sl_tq sl)) in
      let o1 := [SRemove (e_peer en)] in
      if is_completing en && negb (is_net e) then (sl1, o1, false)
      else if is_running en then
        let en1 := if is_net e then with_neterr en else en in
        (set_ent sl1 (Some (with_sigs en1 (e_pause en) (e_upd en)
                              (match e_err en with Some x => Some x | None => Some e end))), o1, true)
      else match e with
           | ECancel => let '(sl2, o2) := terminate sl1 in (sl2, o1 ++ o2 ++ [SCancelled (e_peer en) (e_tag en)], true)
           | ENet => let '(sl2, o2) := terminate sl1 in (sl2, o1 ++ o2, true)
           | _ => (set_ent sl1 (Some (with_state en Completing)),
                   o1 ++ mk_msg (e_closed en) (e_peer en) 0 0 35, true)
           end
  end.

(* server.go newRequest (+ preparequery.go); with c_new: an id in use by a response for another peer
   is refused on a throw-away stream without touching the table *)
Definition do_new (p tag : N) (hr : hres) (ext : bool) (len : N) (sl : slot) : slot * list sout :=
  let st := match hr with HError => 32 | HReject => 30 | HPause => 15 | HAccept => 0 end in
  let state := match hr with HError | HReject => Completing | HPause => Paused | HAccept => Queued end in
  let push := match hr with HAccept => true | _ => false end in
  ({| sl_ent := Some {| e_peer := p; e_tag := tag; e_state := state; e_updates := []; e_started := false;
                        e_pause := false; e_upd := false; e_err := None; e_closed := false; e_left := len; e_neterr := false |};
      sl_execs := sl_execs sl;
      sl_tq := if push then tq_push p (sl_tq sl) else sl_tq sl |},
   [SProtect p; SReqHook p tag] ++ mk_msg false p (b2n ext) 0 st ++ (if push then [SPush p] else [])).

Definition owner_differs (sl : slot) (p : N) : bool :=
  match sl_ent sl with Some en => negb (e_peer en =? p) | None => false end.

Definition h_new (c : cfg) (p tag : N) (hr : hres) (ext : bool) (len : N) (sl : slot) : slot * list sout :=
  if c_new c && owner_differs sl p then (sl, [SMsg p 0 0 30]) else do_new p tag hr ext len sl.

(* processRequests, cancel branch *)
Definition h_cancel (c : cfg) (p : N) (sl : slot) : slot * list sout :=
  if c_cancel c && owner_differs sl p then (sl, []) else let '(sl', o, _) := abort ECancel sl in (sl', o).

(* server.go unpauseRequest *)
Definition unpause (ext : bool) (sl : slot) : slot * list sout * bool :=
  match sl_ent sl with
  | None => (sl, [], false)
  | Some en =>
      if negb (is_paused en) then (sl, [], false)
      else ({| sl_ent := Some (with_state en Queued); sl_execs := sl_execs sl; sl_tq := tq_push (e_peer en) (sl_tq sl) |},
            (if ext then mk_msg (e_closed en) (e_peer en) 1 0 0 else []) ++ [SPush (e_peer en)], true)
  end.

(* server.go processUpdate *)
Definition h_update (c : cfg) (p code : N) (ur : ures) (ext : bool) (sl : slot) : slot * list sout :=
  if c_update c && owner_differs sl p then (sl, []) else
  match sl_ent sl with
  | None => (sl, [])
  | Some en =>
      if is_completing en then (sl, [])
      else if negb (is_paused en) then
        (set_ent sl (Some (with_sigs (with_updates en (e_updates en ++ [{| u_code := code; u_res := ur; u_ext := ext |}]))
                             (e_pause en) true (e_err en))), [])
      else
        let o := [SUpdHook (e_peer en) (e_tag en) code] ++
                 mk_msg (e_closed en) (e_peer en) (b2n ext) 0 (match ur with UError => 32 | _ => 0 end) in
        match ur with
        | UError => (set_ent sl (Some (with_state en Completing)), o)
        | UUnpause => let '(sl', o', _) := unpause false sl in (sl', o ++ o')
        | UNone => (sl, o)
        end
  end.

Definition req_id (r : req) : N := match r with RNew id _ _ _ _ => id | RCancel id => id | RUpdate id _ _ _ => id end.
Definition h_req (c : cfg) (p : N) (r : req) (sl : slot) : slot * list sout :=
  match r with
  | RNew _ tag hr ext len => h_new c p tag hr ext len sl
  | RCancel _ => h_cancel c p sl
  | RUpdate _ code ur ext => h_update c p code ur ext sl
  end.

(* API: pauseRequest / unpauseRequest / abortRequest(ErrCancelledByCommand) / updateRequest *)
Definition h_api (a : api) (sl : slot) : slot * list sout :=
  match a with
  | APause =>
      match sl_ent sl with
      | None => (sl, [SRet false])
      | Some en =>
          if is_completing en || is_paused en then (sl, [SRet false])
          else (set_ent sl (Some (with_sigs en true (e_upd en) (e_err en))), [SRet true])
      end
  | AUnpause ext => let '(sl', o, ok) := unpause ext sl in (sl', o ++ [SRet ok])
  | ACancel => let '(sl', o, ok) := abort ECmd sl in (sl', o ++ [SRet ok])
  | AUpdate =>
      match sl_ent sl with
      | None => (sl, [SRet false])
      | Some en => (sl, mk_msg (e_closed en) (e_peer en) 1 0 14 ++ [SRet true])
      end
  end.

(* ---- the executor (queryexecutor.go), between two parks ---- *)

(* the executor's view of the entry it was started on: None once that entry was replaced or removed *)
Definition my_entry (x : exec) (sl : slot) : option entry :=
  match sl_ent sl with Some en => if e_tag en =? x_tag x then Some en else None | None => None end.

(* update hooks run by the executor for the updates handed out by getUpdates: stops at the first error *)
Fixpoint run_updates (pid tag : N) (us : list upd) (next : N) : list sout * N * bool :=
  match us with
  | [] => ([], next, false)
  | u :: r =>
      let o := SUpdHook pid tag (u_code u) in
      let next' := next + b2n (u_ext u) in
      match u_res u with
      | UError => ([o], next', true)
      | _ => let '(o', n', err) := run_updates pid tag r next' in (o :: o', n', err)
      end
  end.

(* server.go finishTask; with c_task a finished task only concerns its own peer's response *)
Definition finish_task (c : cfg) (pid : N) (err : option errk) (sl : slot) : slot * list sout :=
  let sl1 := set_tq sl (tq_done pid (sl_tq sl)) in
  let o1 := [SDone pid] in
  match sl_ent sl1 with
  | None => (sl1, o1)
  | Some en =>
      if c_task c && negb (e_peer en =? pid) then (sl1, o1) else
      if e_neterr en && negb (match err with Some ECancel => true | _ => false end)
      then let '(sl2, o2) := terminate sl1 in (sl2, o1 ++ o2) else
      match err with
      | Some EPaused => (set_ent sl1 (Some (with_state en Paused)), o1)
      | Some ECancel => let '(sl2, o2) := terminate sl1 in (sl2, o1 ++ [SCancelled pid (e_tag en)] ++ o2)
      | Some ENet => let '(sl2, o2) := terminate sl1 in (sl2, o1 ++ o2)
      | _ => (set_ent sl1 (Some (with_state en Completing)), o1)
      end
  end.

(* executeQuery's closing transaction, then FinishTask - unless that call is held on its way (hold) *)
Definition finish (c : cfg) (hold : bool) (x : exec) (closed : bool) (speer : N) (err : option errk) (sl : slot) : slot * list sout :=
  let final := match err with
               | Some EPaused | Some ENet | Some ECancel => []
               | None => mk_msg closed speer 0 0 20
               | Some ECmd => mk_msg closed speer 0 0 35
               | Some EHook => mk_msg closed speer 0 0 32
               end in
  if hold then (sl, final) else
  let '(sl1, o1) := finish_task c (x_pid x) err sl in (sl1, final ++ o1).

Definition err_of_code (e : N) : option errk :=
  if e =? 0 then None else if e =? 1 then Some EPaused else if e =? 2 then Some ECancel
  else if e =? 3 then Some ENet else if e =? 4 then Some ECmd else Some EHook.

(* top of runTraversal's loop for executor x (not in sl_execs): complete, or open the next block's
   transaction, checkForUpdates, SendResponse, block hook (park) *)
Definition exec_begin (c : cfg) (hold : bool) (x : exec) (sl : slot) : slot * list sout :=
  match my_entry x sl with
  | None => (sl, [SUnmodelled])
  | Some en =>
      if e_left en =? 0 then finish c hold x (e_closed en) (e_peer en) None sl
      else
        let nsig := b2n (e_pause en) + b2n (e_upd en) + match e_err en with Some _ => 1 | None => 0 end in
        let amb := if 2 <=? nsig then [SAmbig] else [] in
        if e_pause en then
          let sl1 := set_ent sl (Some (with_sigs en false (e_upd en) (e_err en))) in
          (set_execs sl1 ({| x_pid := x_pid x; x_tag := x_tag x; x_prepause := true; x_next := 0; x_status := 15 |} :: sl_execs sl1),
           amb ++ [SBlkHook (x_pid x) (x_tag x)])
        else match e_err en with
        | Some e =>
            let sl1 := set_ent sl (Some (with_sigs en (e_pause en) (e_upd en) None)) in
            let '(sl2, o2) := finish c hold x (e_closed en) (e_peer en) (Some e) sl1 in
            (sl2, amb ++ mk_msg (e_closed en) (e_peer en) 0 0 0 ++ o2)
        | None =>
            if e_upd en then
              (* getUpdates: the pending updates of whatever entry the id names now; here the same one *)
              let '(oh, next, err) := run_updates (x_pid x) (x_tag x) (e_updates en) 0 in
              let en1 := with_updates (with_sigs en (e_pause en) false (e_err en)) [] in
              let sl1 := set_ent sl (Some en1) in
              if err then
                let '(sl2, o2) := finish c hold x (e_closed en) (e_peer en) (Some EHook) sl1 in
                (sl2, amb ++ oh ++ mk_msg (e_closed en) (e_peer en) next 0 0 ++ o2)
              else
                (set_execs sl1 ({| x_pid := x_pid x; x_tag := x_tag x; x_prepause := false; x_next := next; x_status := 0 |} :: sl_execs sl1),
                 amb ++ oh ++ [SBlkHook (x_pid x) (x_tag x)])
            else
              (set_execs sl ({| x_pid := x_pid x; x_tag := x_tag x; x_prepause := false; x_next := 0; x_status := 0 |} :: sl_execs sl),
               amb ++ [SBlkHook (x_pid x) (x_tag x)])
        end
  end.

(* server.go startTask / taskDataForKey, then the executor up to its first park *)
Definition h_start (c : cfg) (pid : N) (sl : slot) : slot * list sout :=
  match aget pid (sl_tq sl) with
  | Some TPending =>
      let sl0 := set_tq sl (aput pid TActive (sl_tq sl)) in
      match sl_ent sl0 with
      | None => (set_tq sl0 (tq_done pid (sl_tq sl0)), [SDone pid])
      | Some en =>
          if is_completing en || (c_task c && negb (e_peer en =? pid)) then (set_tq sl0 (tq_done pid (sl_tq sl0)), [SDone pid])
          else
            let o := if e_started en then [] else [SProcessing (e_peer en) (e_tag en)] in
            let sl1 := set_ent sl0 (Some (with_started en)) in
            let '(sl2, o2) := exec_begin c false {| x_pid := pid; x_tag := e_tag en; x_prepause := false; x_next := 0; x_status := 0 |} sl1 in
            (sl2, o ++ o2)
      end
  | _ => (sl, [SUnmodelled])
  end.

Fixpoint take_exec (pid tag : N) (xs : list exec) : option (exec * list exec) :=
  match xs with
  | [] => None
  | x :: r => if (x_pid x =? pid) && (x_tag x =? tag) then Some (x, r)
              else match take_exec pid tag r with Some (y, r') => Some (y, x :: r') | None => None end
  end.

(* the block hook of a parked executor returns: end of the block's transaction, then on *)
Definition h_step (c : cfg) (hold : bool) (pid tag : N) (bh : bres) (ext : bool) (sl : slot) : slot * list sout :=
  match take_exec pid tag (sl_execs sl) with
  | None => (sl, [SUnmodelled])
  | Some (x, rest) =>
      let sl0 := set_execs sl rest in
      match my_entry x sl0 with
      | None => (sl0, [SUnmodelled])
      | Some en =>
          let next := x_next x + b2n ext in
          let st := match bh with BPause => 15 | _ => x_status x end in
          let m := mk_msg (e_closed en) (e_peer en) next 1 st in
          let sl1 := set_ent sl0 (Some (with_left en (e_left en - 1))) in
          let err := match bh with
                     | BPause => Some EPaused
                     | BError => Some EHook
                     | BNone => if x_prepause x then Some EPaused else None
                     end in
          match err with
          | None => let '(sl2, o2) := exec_begin c hold x sl1 in (sl2, m ++ o2)
          | Some e => let '(sl2, o2) := finish c hold x (e_closed en) (e_peer en) (Some e) sl1 in (sl2, m ++ o2)
          end
      end
  end.

(* messagequeue.publishError closes the response stream the failed message was built from *)
Definition h_close (sp tag : N) (sl : slot) : slot * list sout :=
  match sl_ent sl with
  | Some en => if (e_peer en =? sp) && (e_tag en =? tag) then (set_ent sl (Some (with_closed en)), []) else (sl, [])
  | None => (sl, [])
  end.

Definition terminal (c : N) : bool := (c =? 20) || (c =? 21) || ((30 <=? c) && (c <=? 35)).

(* subscriber.go OnNext for the subscriber created for request (sp, tag); with c_notif the manager
   ignores CloseWithNetworkError / TerminateRequest for an id now owned by another peer *)
Definition h_sub (c : cfg) (sent : bool) (sp tag code nblk : N) (sl : slot) : slot * list sout :=
  if tag =? 0 then (sl, []) else
  let skip := c_notif c && owner_differs sl sp in
  if sent then
    let ob := repeat (SBlockSent sp tag) (N.to_nat nblk) in
    if terminal code then
      let '(sl1, o1) := if skip then (sl, []) else terminate sl in
      (sl1, ob ++ o1 ++ [SCompleted sp tag code])
    else (sl, ob)
  else
    let '(sl1, o1) := if skip then (sl, []) else let '(s', o', _) := abort ENet sl in (s', o') in
    let '(sl2, o2) := if terminal code then (if skip then (sl1, []) else terminate sl1) else (sl1, []) in
    (sl2, o1 ++ o2 ++ [SNetErr sp tag]).

(* ---- one label restricted to one request id ---- *)
Fixpoint h_reqs (c : cfg) (p : N) (rs : list req) (sl : slot) : slot * list sout :=
  match rs with
  | [] => (sl, [])
  | r :: rest => let '(sl1, o1) := h_req c p r sl in let '(sl2, o2) := h_reqs c p rest sl1 in (sl2, o1 ++ o2)
  end.

(* the effect of label l on the slot of request id X *)
Definition sstep (c : cfg) (X : N) (l : label) (sl : slot) : slot * list sout :=
  match l with
  | LMsg p rs => h_reqs c p (filter (fun r => req_id r =? X) rs) sl
  | LApi id a => if id =? X then h_api a sl else (sl, [])
  | LStart pid id => if id =? X then h_start c pid sl else (sl, [])
  | LStep pid id tag bh ext => if id =? X then h_step c false pid tag bh ext sl else (sl, [])
  | LStepH pid id tag bh ext => if id =? X then h_step c true pid tag bh ext sl else (sl, [])
  | LFinish pid id e => if id =? X then finish_task c pid (err_of_code e) sl else (sl, [])
  | LClose sp id tag => if id =? X then h_close sp tag sl else (sl, [])
  | LSub sent sp id tag code nblk => if id =? X then h_sub c sent sp tag code nblk sl else (sl, [])
  end.

(* ---- the whole table ---- *)
Definition state := list (N * slot).
Definition sget (X : N) (s : state) : slot := match aget X s with Some sl => sl | None => empty_slot end.
Definition on_slot (X : N) (f : slot -> slot * list sout) (s : state) : state * list (N * sout) :=
  let '(sl, o) := f (sget X s) in (aput X sl s, map (pair X) o).

Fixpoint g_reqs (c : cfg) (p : N) (rs : list req) (s : state) : state * list (N * sout) :=
  match rs with
  | [] => (s, [])
  | r :: rest => let '(s1, o1) := on_slot (req_id r) (h_req c p r) s in
                 let '(s2, o2) := g_reqs c p rest s1 in (s2, o1 ++ o2)
  end.

Definition step (c : cfg) (s : state) (l : label) : state * list (N * sout) :=
  match l with
  | LMsg p rs => g_reqs c p rs s
  | LApi id a => on_slot id (h_api a) s
  | LStart pid id => on_slot id (h_start c pid) s
  | LStep pid id tag bh ext => on_slot id (h_step c false pid tag bh ext) s
  | LStepH pid id tag bh ext => on_slot id (h_step c true pid tag bh ext) s
  | LFinish pid id e => on_slot id (finish_task c pid (err_of_code e)) s
  | LClose sp id tag => on_slot id (h_close sp tag) s
  | LSub sent sp id tag code nblk => on_slot id (h_sub c sent sp tag code nblk) s
  end.

(* ---- observations ---- *)
Record row := mk_row { r_id : N; r_peer : N; r_tag : N; r_state : N; r_nupd : N; r_pause : bool; r_upd : bool; r_err : bool }.
Record obs := mk_obs {
  o_outs : list (N * sout);
  o_rows : list row;
  o_tq : list (N * (N * tstate));
  o_execs : list (N * (N * N))
}.

(* typed constructors for the generated case files (cheaper to elaborate than pair notations) *)
(* small numbers by name: a decimal literal costs a millisecond to parse in N_scope *)
Definition n0 : N := 0.
Definition n1 : N := 1.
Definition n2 : N := 2.
Definition n3 : N := 3.
Definition n4 : N := 4.
Definition n5 : N := 5.
Definition n6 : N := 6.
Definition n7 : N := 7.
Definition n8 : N := 8.
Definition n9 : N := 9.
Definition n10 : N := 10.
Definition n11 : N := 11.
Definition n12 : N := 12.
Definition n13 : N := 13.
Definition n14 : N := 14.
Definition n15 : N := 15.
Definition n16 : N := 16.
Definition n17 : N := 17.
Definition n18 : N := 18.
Definition n19 : N := 19.
Definition n20 : N := 20.
Definition n21 : N := 21.
Definition n22 : N := 22.
Definition n23 : N := 23.
Definition n24 : N := 24.
Definition n25 : N := 25.
Definition n26 : N := 26.
Definition n27 : N := 27.
Definition n28 : N := 28.
Definition n29 : N := 29.
Definition n30 : N := 30.
Definition n31 : N := 31.
Definition n32 : N := 32.
Definition n33 : N := 33.
Definition n34 : N := 34.
Definition n35 : N := 35.
Definition n36 : N := 36.
Definition n37 : N := 37.
Definition n38 : N := 38.
Definition n39 : N := 39.
Definition n40 : N := 40.
Definition n41 : N := 41.
Definition n42 : N := 42.
Definition n43 : N := 43.
Definition n44 : N := 44.
Definition n45 : N := 45.
Definition n46 : N := 46.
Definition n47 : N := 47.
Definition n48 : N := 48.
Definition n49 : N := 49.
Definition n50 : N := 50.
Definition n51 : N := 51.
Definition n52 : N := 52.
Definition n53 : N := 53.
Definition n54 : N := 54.
Definition n55 : N := 55.
Definition n56 : N := 56.
Definition n57 : N := 57.
Definition n58 : N := 58.
Definition n59 : N := 59.
Definition n60 : N := 60.
Definition n61 : N := 61.
Definition n62 : N := 62.
Definition n63 : N := 63.
Definition out_t : Type := (N * sout)%type.
Definition tqr_t : Type := (N * (N * tstate))%type.
Definition xr_t : Type := (N * (N * N))%type.
Definition mk_out (id : N) (o : sout) : N * sout := (id, o).
Definition mk_tqr (id p : N) (t : tstate) : N * (N * tstate) := (id, (p, t)).
Definition mk_xr (id pid tag : N) : N * (N * N) := (id, (pid, tag)).
Definition mk_st (l : label) (o : obs) : label * obs := (l, o).
Definition st_t : Type := (label * obs)%type.

Definition state_num (s : rstate) : N := match s with Queued => 0 | Running => 1 | Paused => 2 | Completing => 3 end.
Definition row_of (X : N) (en : entry) : row :=
  mk_row X (e_peer en) (e_tag en) (state_num (e_state en)) (N.of_nat (length (e_updates en)))
         (e_pause en) (e_upd en) (match e_err en with Some _ => true | None => false end).

Fixpoint insert_by {A} (key : A -> N) (a : A) (l : list A) : list A :=
  match l with [] => [a] | b :: r => if key a <=? key b then a :: l else b :: insert_by key a r end.
Definition sort_by {A} (key : A -> N) (l : list A) : list A := fold_right (insert_by key) [] l.

(* what one slot shows: its row, its task-queue rows (by peer), its parked executors (by peer, tag) *)
Definition rows_of_slot (X : N) (sl : slot) : list row := match sl_ent sl with Some en => [row_of X en] | None => [] end.
Definition tq_of_slot (X : N) (sl : slot) : list (N * (N * tstate)) := map (fun pt => (X, pt)) (sort_by fst (sl_tq sl)).
Definition execs_of_slot (X : N) (sl : slot) : list (N * (N * N)) :=
  map (fun x => (X, (x_pid x, x_tag x))) (sort_by (fun x => x_pid x * 1000000 + x_tag x) (sl_execs sl)).

Definition snapshot (outs : list (N * sout)) (s : state) : obs :=
  let ss := sort_by fst s in
  mk_obs outs (flat_map (fun kv => rows_of_slot (fst kv) (snd kv)) ss)
              (flat_map (fun kv => tq_of_slot (fst kv) (snd kv)) ss)
              (flat_map (fun kv => execs_of_slot (fst kv) (snd kv)) ss).

Fixpoint run (c : cfg) (s : state) (ls : list label) : list obs :=
  match ls with
  | [] => []
  | l :: r => let '(s', o) := step c s l in snapshot o s' :: run c s' r
  end.

Fixpoint final (c : cfg) (s : state) (ls : list label) : state :=
  match ls with [] => s | l :: r => final c (fst (step c s l)) r end.

(* ---- encodings used for comparison ---- *)
Definition bn (b : bool) : N := if b then 1 else 0.
Definition enc_sout (o : sout) : list N :=
  match o with
  | SProtect p => [1; p] | SUnprotect p => [2; p]
  | SReqHook p t => [3; p; t] | SUpdHook p t c => [4; p; t; c] | SBlkHook p t => [5; p; t]
  | SProcessing p t => [6; p; t] | SMsg p a b c => [7; p; a; b; c]
  | SPush p => [8; p] | SRemove p => [9; p] | SDone p => [10; p]
  | SCancelled p t => [11; p; t] | SCompleted p t c => [12; p; t; c] | SNetErr p t => [13; p; t]
  | SBlockSent p t => [14; p; t] | SRet b => [15; bn b] | SAmbig => [16] | SUnmodelled => [17]
  end.
Definition enc_row (r : row) : list N :=
  [r_id r; r_peer r; r_tag r; r_state r; r_nupd r; bn (r_pause r); bn (r_upd r); bn (r_err r)].
Definition enc_ts (t : tstate) : N := match t with TPending => 0 | TActive => 1 end.
Definition enc_obs (o : obs) : list (list N) :=
  map (fun io => fst io :: enc_sout (snd io)) (o_outs o) ++ [[99]] ++
  map enc_row (o_rows o) ++ [[99]] ++
  map (fun t => [fst t; fst (snd t); enc_ts (snd (snd t))]) (o_tq o) ++ [[99]] ++
  map (fun x => [fst x; fst (snd x); snd (snd x)]) (o_execs o).
Definition obs_eqb (a b : obs) : bool := list_eqb (list_eqb N.eqb) (enc_obs a) (enc_obs b).

Definition gives_up (o : obs) : bool :=
  existsb (fun io => match snd io with SAmbig | SUnmodelled => true | _ => false end) (o_outs o).

(* ---- the property as an executable predicate over two observed histories ---- *)

(* which request ids a label names *)
Definition mentions (X : N) (l : label) : bool :=
  match l with
  | LMsg _ rs => existsb (fun r => req_id r =? X) rs
  | LApi id _ => id =? X
  | LStart _ id => id =? X
  | LStep _ id _ _ _ => id =? X
  | LStepH _ id _ _ _ => id =? X
  | LFinish _ id _ => id =? X
  | LClose _ id _ => id =? X
  | LSub _ _ id _ _ _ => id =? X
  end.

(* what reaches the manager because of another peer than p: that peer's messages, and the message
   queue's reports about messages built for that peer *)
Definition foreign (p : N) (l : label) : bool :=
  match l with
  | LMsg q _ => negb (q =? p)
  | LClose sp _ _ => negb (sp =? p)
  | LSub _ sp _ _ _ _ => negb (sp =? p)
  | _ => false
  end.

(* for the run-time monitor, what another peer's leftover task does is foreign as well: a task start,
   an executor step or a FinishTask under that peer's name (the table is keyed by id, the task queue by
   peer and id).  The theorems below are stated for [foreign]; see design.d/C10.md. *)
Definition mforeign (p : N) (l : label) : bool :=
  foreign p l ||
  match l with
  | LStart pid _ | LStep pid _ _ _ _ | LStepH pid _ _ _ _ | LFinish pid _ _ => negb (pid =? p)
  | _ => false
  end.

(* a label cut down to request id X (requests for other ids inside a message removed) *)
Definition restrict (X : N) (l : label) : label :=
  match l with LMsg q rs => LMsg q (filter (fun r => req_id r =? X) rs) | _ => l end.

Definition enc_hres (h : hres) : N := match h with HAccept => 0 | HReject => 1 | HPause => 2 | HError => 3 end.
Definition enc_ures (u : ures) : N := match u with UNone => 0 | UUnpause => 1 | UError => 2 end.
Definition enc_bres (b : bres) : N := match b with BNone => 0 | BPause => 1 | BError => 2 end.
Definition enc_req (r : req) : list N :=
  match r with
  | RNew id tag hr ext len => [1; id; tag; enc_hres hr; bn ext; len]
  | RCancel id => [2; id]
  | RUpdate id code ur ext => [3; id; code; enc_ures ur; bn ext]
  end.
Definition enc_label (l : label) : list N :=
  match l with
  | LMsg p rs => [1; p] ++ flat_map enc_req rs
  | LApi id a => [2; id] ++ match a with APause => [0] | AUnpause e => [1; bn e] | ACancel => [2] | AUpdate => [3] end
  | LStart pid id => [3; pid; id]
  | LStep pid id tag bh ext => [4; pid; id; tag; enc_bres bh; bn ext]
  | LStepH pid id tag bh ext => [7; pid; id; tag; enc_bres bh; bn ext]
  | LFinish pid id e => [8; pid; id; e]
  | LClose sp id tag => [5; sp; id; tag]
  | LSub sent sp id tag code nblk => [6; bn sent; sp; id; tag; code; nblk]
  end.

(* what an observation shows of request id X *)
Definition view (p X : N) (o : obs) : list (list N) :=
  map enc_row (filter (fun r => r_id r =? X) (o_rows o)) ++ [[99]] ++
  map (fun t => [fst (snd t); enc_ts (snd (snd t))]) (filter (fun t => (fst t =? X) && (fst (snd t) =? p)) (o_tq o)) ++ [[99]] ++
  map (fun x => [fst (snd x); snd (snd x)]) (filter (fun x => (fst x =? X) && (fst (snd x) =? p)) (o_execs o)).
Definition outs_of (X : N) (o : obs) : list (list N) :=
  map (fun io => enc_sout (snd io)) (filter (fun io => fst io =? X) (o_outs o)).
Definition owned (p X : N) (o : obs) : bool := existsb (fun r => (r_id r =? X) && (r_peer r =? p)) (o_rows o).
(* the id is free in the table.  A task or a parked executor that another peer's finished response
   left behind under X does not make X "taken": whatever it does to p's response afterwards is what
   that peer's messages did to it, and is compared (the run without the foreign peers has none). *)
Definition clean (X : N) (o : obs) : bool := negb (existsb (fun r => r_id r =? X) (o_rows o)).

(* two signals pending for X: which one the executor's select takes next is Go's random choice *)
Definition racy (X : N) (o : obs) : bool :=
  existsb (fun r => (r_id r =? X) && (2 <=? bn (r_pause r) + bn (r_upd r) + bn (r_err r))) (o_rows o).

(* The life of p's response X as the observations show it: from a point where nothing is recorded
   under X (or X is p's), every label naming X that is not foreign contributes (label cut to X, outputs
   under X, what X's slot shows afterwards); labels that are foreign contribute nothing, and the trace
   ends when X is no longer p's (or when a foreign label meets an X that is not p's). *)
Fixpoint life (p X : N) (mine : bool) (hs : list (label * obs)) : list (list N * list (list N) * list (list N)) :=
  match hs with
  | [] => []
  | (l, o) :: r =>
      if negb (mentions X l) then life p X mine r
      else if mforeign p l then (if mine then life p X mine r else [])
      else (enc_label (restrict X l), outs_of X o, view p X o) ::
           (if owned p X o && negb (racy X o) then life p X true r else [])
  end.

(* drop the prefix in which X has not yet been requested by p; None when the table held an entry for X
   at that moment (the id was not free when p first asked: nothing is claimed) *)
Fixpoint from_first_new (p X : N) (prev_clean : bool) (hs : list (label * obs)) : option (list (label * obs)) :=
  match hs with
  | [] => Some []
  | (l, o) :: r =>
      match l with
      | LMsg q rs =>
          if (q =? p) && existsb (fun rq => match rq with RNew id _ _ _ _ => id =? X | _ => false end) rs
          then (if prev_clean then Some hs else None)
          else from_first_new p X (clean X o) r
      | _ => from_first_new p X (clean X o) r
      end
  end.

Definition trace_eqb (a b : list (list N * list (list N) * list (list N))) : bool :=
  list_eqb (fun x y => list_eqb N.eqb (fst (fst x)) (fst (fst y)) &&
                       list_eqb (list_eqb N.eqb) (snd (fst x)) (snd (fst y)) &&
                       list_eqb (list_eqb N.eqb) (snd x) (snd y)) a b.

(* p's response X went the same way in the two histories *)
Definition mon10_at (p X : N) (full twin : list (label * obs)) : bool :=
  match from_first_new p X true full, from_first_new p X true twin with
  | Some f, Some t => trace_eqb (life p X false f) (life p X false t)
  | _, _ => true
  end.

Record rcase := mk_rcase { rc_full : list (label * obs); rc_twin : list (label * obs) }.

Definition ids_of (hs : list (label * obs)) : list N :=
  nodup N.eq_dec (flat_map (fun lo => match fst lo with
                                      | LMsg _ rs => map req_id rs
                                      | LApi id _ => [id] | LStart _ id => [id] | LStep _ id _ _ _ => [id] | LStepH _ id _ _ _ => [id] | LFinish _ id _ => [id]
                                      | LClose _ id _ => [id] | LSub _ _ id _ _ _ => [id]
                                      end) hs).

(* the monitored peer is peer 1 *)
Definition rcase_mon (c : rcase) : bool :=
  forallb (fun X => mon10_at 1 X (rc_full c) (rc_twin c)) (ids_of (rc_full c)).

(* model against implementation, label by label; nothing is compared once the model gives up *)
Fixpoint agree (mo io : list obs) : bool :=
  match mo, io with
  | [], [] => true
  | m :: mr, i :: ir => if gives_up m then true else obs_eqb m i && agree mr ir
  | _, _ => false
  end.
Definition hist_agrees (hs : list (label * obs)) : bool := agree (run fixed [] (map fst hs)) (map snd hs).
Definition rcase_agrees (c : rcase) : bool := hist_agrees (rc_full c) && hist_agrees (rc_twin c).

(* the monitor applied to the model's own observations of two histories *)
Definition model_hist (c : cfg) (ls : list label) : list (label * obs) := combine ls (run c [] ls).
