(* RespMgr.v — executable model of the responder's life cycle of ONE incoming request (C05).

   Transcribes, branch by branch, responsemanager/server.go (processRequests, newRequest, processUpdate,
   abortRequest, startTask/taskDataForKey, finishTask, terminateRequest, pauseRequest, unpauseRequest,
   updateRequest, peerState), responsemanager/subscriber.go (OnNext), the query executor
   (queryexecutor.go: ExecuteTask, executeQuery, runTraversal, sendResponse, checkForUpdates), the response
   stream (responseassembler.go: Transaction / execute with the closed flag; responseBuilder.go: the
   operations), and what the message queue does with the messages of this request (messagequeue.go:
   coalescing into the unsent builder, publishSent, publishError = close the response streams, scrub the
   queued builders, report Error; builder.go / message/builder.go: last status wins, AddPartialResponse).

   Granularity.  A label is applied when every goroutine of the responder is parked: the loop idle, the
   worker idle / parked inside the block hook of block k (the harness gates every block) / occupied by
   another peer's task, the message queue idle or inside SendMsg of the message in flight, the event
   publisher drained.  The step function runs the stack until it is parked again.  The one Go-level
   nondeterminism left at this granularity, the `select` of checkForUpdates when several signals are
   pending, is the `ord` component of a label (all theorems quantify over it).

   No proofs in this file. *)
From Coq Require Import List NArith Bool.
From GS Require Import Base.
Import ListNotations.
Open Scope N_scope.

(* request hook outcome (hooks/requesthook.go result): validated / not validated / validated+paused / error *)
Inductive hookres := HAccept | HReject | HPause | HErr.
(* what the update hook does for an update (requestupdatehooks.go): nothing / sends an extension / error / unpause *)
Inductive updk := UOk | UExt | UErr | UUnpause | UExtErr.   (* UExtErr: sends an extension, then fails *)
(* block hook outcome for the block the executor is parked at: continue / PauseResponse / TerminateWithError *)
Inductive gateres := GCont | GPause | GErr.

Inductive lab :=
| LNew (h : hookres)        (* ProcessRequests [new r]; r has not been used before *)
| LReqCancel                (* ProcessRequests [cancel r] *)
| LReqUpdate (u : updk)     (* ProcessRequests [update r] *)
| LApiPause | LApiUnpause | LApiCancel | LApiUpdate    (* PauseResponse / UnpauseResponse / CancelResponse / UpdateResponse *)
| LGate (g : gateres)       (* the block hook the executor is parked in returns *)
| LGateHold (g : gateres)   (* the same, and if the executor finishes in this run its FinishTask call is held back *)
| LFinish                   (* the held FinishTask call goes through (the loop handles finishTask) *)
| LArmStart                 (* the next time the worker pops this request's task, its StartTask round trip is held back *)
| LStart                    (* the held StartTask call goes through (the loop handles startTask) *)
| LUpdStall (u : updk)      (* ProcessRequests [update r] for a paused response whose hook sends extension data, while the
                               peer's memory allowance is exhausted: the loop parks in the reservation of that transaction *)
| LMemFree                  (* memory is released to the peer by something else: the parked reservation is granted *)
| LSend (ok : bool)         (* SendMsg of the message in flight returns; false = the peer is gone (queue shut down) *)
| LHold | LRelease.         (* the only worker gets / finishes a task of another peer *)

Definition label := (lab * N)%type.   (* N: which order the select of checkForUpdates prefers (0..5) *)

Inductive est := Queued | Running | Paused | Completing.      (* graphsync.RequestState *)
(* errors that travel through ErrSignal / FinishTask: ErrNetworkError, ContextCancelError (requestor
   cancel), ErrCancelledByCommand, any other error (hook errors) *)
Inductive errk := ENet | EReqCancel | EApiCancel | EHook.
Inductive fres := FNil | FPaused | FErr (e : errk).           (* what ExecuteTask hands to FinishTask *)

Record entry := mkEntry {
  e_st : est;
  e_uerr : bool;            (* response.updates, summarised exactly as far as the executor's hooks go: does a queued *)
  e_uext : bool;            (* update make its hook fail; does a hook before that one send extension data       *)
  e_started : bool;         (* response.traverser != nil *)
  e_neterr : bool }.        (* response.networkError (fix e202838) *)

Inductive ev := EvCompleted (c : N) | EvCancelled | EvNetErr | EvProcessing.

(* operations of one transaction (responseBuilder.go) as far as this request's message is concerned *)
Inductive op := OStatus (c : N) | OBlock | OExt | OPartial.

Record cfg := mkCfg {
  fix_net : bool;     (* e202838: abortRequest records a network error on a running response; finishTask ends it *)
  fix_upd : bool }.   (* fab5d22: SendUpdates no longer replaces a status queued in the unsent message *)

(* everything but the traverser's position (kept beside it, see fstate): the step function never reads
   the position, it is only told whether another block is left *)
Record state := mkState {
  seen : bool;
  ent : option entry;
  sig_pause : bool;
  sig_upd : bool;
  sig_err : option errk;
  tq : N;
  held : bool;
  arm : bool;
  stk : bool;
  gate : option bool;
  fin : option fres;
  stall : option updk;
  closed : bool;
  infl : option N;
  pend : option N;
  nprot : N;
  unprot : N;
  evs : list ev;
  n_done : N;
  n_net : N;
  n_fail : N }.

Definition set_seen (v : bool) (s : state) : state := mkState v (ent s) (sig_pause s) (sig_upd s) (sig_err s) (tq s) (held s) (arm s) (stk s) (gate s) (fin s) (stall s) (closed s) (infl s) (pend s) (nprot s) (unprot s) (evs s) (n_done s) (n_net s) (n_fail s).
Definition set_ent (v : option entry) (s : state) : state := mkState (seen s) v (sig_pause s) (sig_upd s) (sig_err s) (tq s) (held s) (arm s) (stk s) (gate s) (fin s) (stall s) (closed s) (infl s) (pend s) (nprot s) (unprot s) (evs s) (n_done s) (n_net s) (n_fail s).
Definition set_sig_pause (v : bool) (s : state) : state := mkState (seen s) (ent s) v (sig_upd s) (sig_err s) (tq s) (held s) (arm s) (stk s) (gate s) (fin s) (stall s) (closed s) (infl s) (pend s) (nprot s) (unprot s) (evs s) (n_done s) (n_net s) (n_fail s).
Definition set_sig_upd (v : bool) (s : state) : state := mkState (seen s) (ent s) (sig_pause s) v (sig_err s) (tq s) (held s) (arm s) (stk s) (gate s) (fin s) (stall s) (closed s) (infl s) (pend s) (nprot s) (unprot s) (evs s) (n_done s) (n_net s) (n_fail s).
Definition set_sig_err (v : option errk) (s : state) : state := mkState (seen s) (ent s) (sig_pause s) (sig_upd s) v (tq s) (held s) (arm s) (stk s) (gate s) (fin s) (stall s) (closed s) (infl s) (pend s) (nprot s) (unprot s) (evs s) (n_done s) (n_net s) (n_fail s).
Definition set_tq (v : N) (s : state) : state := mkState (seen s) (ent s) (sig_pause s) (sig_upd s) (sig_err s) v (held s) (arm s) (stk s) (gate s) (fin s) (stall s) (closed s) (infl s) (pend s) (nprot s) (unprot s) (evs s) (n_done s) (n_net s) (n_fail s).
Definition set_held (v : bool) (s : state) : state := mkState (seen s) (ent s) (sig_pause s) (sig_upd s) (sig_err s) (tq s) v (arm s) (stk s) (gate s) (fin s) (stall s) (closed s) (infl s) (pend s) (nprot s) (unprot s) (evs s) (n_done s) (n_net s) (n_fail s).
Definition set_arm (v : bool) (s : state) : state := mkState (seen s) (ent s) (sig_pause s) (sig_upd s) (sig_err s) (tq s) (held s) v (stk s) (gate s) (fin s) (stall s) (closed s) (infl s) (pend s) (nprot s) (unprot s) (evs s) (n_done s) (n_net s) (n_fail s).
Definition set_stk (v : bool) (s : state) : state := mkState (seen s) (ent s) (sig_pause s) (sig_upd s) (sig_err s) (tq s) (held s) (arm s) v (gate s) (fin s) (stall s) (closed s) (infl s) (pend s) (nprot s) (unprot s) (evs s) (n_done s) (n_net s) (n_fail s).
Definition set_gate (v : option bool) (s : state) : state := mkState (seen s) (ent s) (sig_pause s) (sig_upd s) (sig_err s) (tq s) (held s) (arm s) (stk s) v (fin s) (stall s) (closed s) (infl s) (pend s) (nprot s) (unprot s) (evs s) (n_done s) (n_net s) (n_fail s).
Definition set_fin (v : option fres) (s : state) : state := mkState (seen s) (ent s) (sig_pause s) (sig_upd s) (sig_err s) (tq s) (held s) (arm s) (stk s) (gate s) v (stall s) (closed s) (infl s) (pend s) (nprot s) (unprot s) (evs s) (n_done s) (n_net s) (n_fail s).
Definition set_stall (v : option updk) (s : state) : state := mkState (seen s) (ent s) (sig_pause s) (sig_upd s) (sig_err s) (tq s) (held s) (arm s) (stk s) (gate s) (fin s) v (closed s) (infl s) (pend s) (nprot s) (unprot s) (evs s) (n_done s) (n_net s) (n_fail s).
Definition set_closed (v : bool) (s : state) : state := mkState (seen s) (ent s) (sig_pause s) (sig_upd s) (sig_err s) (tq s) (held s) (arm s) (stk s) (gate s) (fin s) (stall s) v (infl s) (pend s) (nprot s) (unprot s) (evs s) (n_done s) (n_net s) (n_fail s).
Definition set_infl (v : option N) (s : state) : state := mkState (seen s) (ent s) (sig_pause s) (sig_upd s) (sig_err s) (tq s) (held s) (arm s) (stk s) (gate s) (fin s) (stall s) (closed s) v (pend s) (nprot s) (unprot s) (evs s) (n_done s) (n_net s) (n_fail s).
Definition set_pend (v : option N) (s : state) : state := mkState (seen s) (ent s) (sig_pause s) (sig_upd s) (sig_err s) (tq s) (held s) (arm s) (stk s) (gate s) (fin s) (stall s) (closed s) (infl s) v (nprot s) (unprot s) (evs s) (n_done s) (n_net s) (n_fail s).
Definition set_nprot (v : N) (s : state) : state := mkState (seen s) (ent s) (sig_pause s) (sig_upd s) (sig_err s) (tq s) (held s) (arm s) (stk s) (gate s) (fin s) (stall s) (closed s) (infl s) (pend s) v (unprot s) (evs s) (n_done s) (n_net s) (n_fail s).
Definition set_unprot (v : N) (s : state) : state := mkState (seen s) (ent s) (sig_pause s) (sig_upd s) (sig_err s) (tq s) (held s) (arm s) (stk s) (gate s) (fin s) (stall s) (closed s) (infl s) (pend s) (nprot s) v (evs s) (n_done s) (n_net s) (n_fail s).
Definition set_evs (v : list ev) (s : state) : state := mkState (seen s) (ent s) (sig_pause s) (sig_upd s) (sig_err s) (tq s) (held s) (arm s) (stk s) (gate s) (fin s) (stall s) (closed s) (infl s) (pend s) (nprot s) (unprot s) v (n_done s) (n_net s) (n_fail s).
Definition set_n_done (v : N) (s : state) : state := mkState (seen s) (ent s) (sig_pause s) (sig_upd s) (sig_err s) (tq s) (held s) (arm s) (stk s) (gate s) (fin s) (stall s) (closed s) (infl s) (pend s) (nprot s) (unprot s) (evs s) v (n_net s) (n_fail s).
Definition set_n_net (v : N) (s : state) : state := mkState (seen s) (ent s) (sig_pause s) (sig_upd s) (sig_err s) (tq s) (held s) (arm s) (stk s) (gate s) (fin s) (stall s) (closed s) (infl s) (pend s) (nprot s) (unprot s) (evs s) (n_done s) v (n_fail s).
Definition set_n_fail (v : N) (s : state) : state := mkState (seen s) (ent s) (sig_pause s) (sig_upd s) (sig_err s) (tq s) (held s) (arm s) (stk s) (gate s) (fin s) (stall s) (closed s) (infl s) (pend s) (nprot s) (unprot s) (evs s) (n_done s) (n_net s) v.
Definition init : state :=
  mkState false None false false None 0 false false false None None None false None None 0 0 [] 0 0 0.

Definition is_term (c : N) : bool := ((20 <=? c) && (c <=? 21)) || ((30 <=? c) && (c <=? 35)).   (* responsecode.go IsTerminal *)

Definition emit (e : ev) (s : state) : state :=
  let s := set_evs (evs s ++ [e]) s in
  match e with
  | EvCompleted _ | EvCancelled => set_n_done (n_done s + 1) s      (* ghost: completed + cancelled notifications so far *)
  | EvNetErr => set_n_net (n_net s + 1) s                           (* ghost: network-error notifications so far *)
  | EvProcessing => s
  end.

(* message/builder.go AddResponseCode (last one wins), AddLink / AddExtensionData (status untouched),
   AddPartialResponse; before fab5d22 SendUpdates queued statusOperation{PartialResponse} *)
Definition apply_op (c : cfg) (m : N) (o : op) : N :=
  match o with
  | OStatus k => k
  | OBlock | OExt => m
  | OPartial => if fix_upd c then m else 14
  end.
Definition apply_ops (c : cfg) (m : N) (ops : list op) : N := fold_left (apply_op c) ops m.

(* responseStream.Transaction/execute + MessageQueue.buildMessage + (queue idle) extractOutgoingMessage:
   dropped when the stream is closed; no content for no operations; into the message that the idle queue
   sends at once, else into the one unsent builder.  14 = PartialResponse is what Build() writes when no
   status was recorded. *)
Definition transact (c : cfg) (ops : list op) (s : state) : state :=
  if closed s then s else
  match ops with
  | [] => s
  | _ =>
    match infl s with
    | None => set_pend None (set_infl (Some (apply_ops c (match pend s with Some m => m | None => 14 end) ops)) s)
    | Some _ => set_pend (Some (apply_ops c (match pend s with Some m => m | None => 14 end) ops)) s
    end
  end.

Definition set_est (x : est) (s : state) : state :=
  match ent s with
  | Some e => set_ent (Some (mkEntry x (e_uerr e) (e_uext e) (e_started e) (e_neterr e))) s
  | None => s
  end.

(* server.go terminateRequest *)
Definition terminate (s : state) : state :=
  match ent s with
  | None => s
  | Some _ =>
    (* the signal channels are fields of the entry: nothing reads them once it is gone *)
    set_sig_pause false (set_sig_upd false (set_sig_err None (set_unprot (unprot s + 1) (set_ent None s))))
  end.

Definition errk_eqb (a b : errk) : bool :=
  match a, b with ENet, ENet | EReqCancel, EReqCancel | EApiCancel, EApiCancel | EHook, EHook => true | _, _ => false end.
Definition est_eqb (a b : est) : bool :=
  match a, b with Queued, Queued | Running, Running | Paused, Paused | Completing, Completing => true | _, _ => false end.

(* server.go finishTask (after the executor's FinishTask round trip) *)
Definition finish_task (c : cfg) (r : fres) (s : state) : state :=
  let s := set_tq 0 s in                                           (* responseQueue.TaskDone *)
  match ent s with
  | None => s
  | Some e =>
    if fix_net c && e_neterr e && negb (match r with FErr EReqCancel => true | _ => false end) then terminate s
    else match r with
         | FPaused => set_est Paused s
         | FErr EReqCancel => terminate (emit EvCancelled s)
         | FErr ENet => terminate s
         | _ => set_est Completing s
         end
  end.

(* queryexecutor.go ExecuteTask: qe.manager.FinishTask(task, pid, err) — a round trip into the loop.  With
   `hold` the worker is parked just before it (fin := the result it carries): what the message queue's
   notifications do to the entry meanwhile is handled by the loop first. *)
Definition do_finish (c : cfg) (hold : bool) (r : fres) (s : state) : state :=
  if hold then set_fin (Some r) s else finish_task c r s.

(* queryexecutor.go executeQuery after runTraversal returned a non-pause error *)
Definition finish_exec (c : cfg) (hold : bool) (e : errk) (s : state) : state :=
  match e with
  | ENet | EReqCancel => do_finish c hold (FErr e) s                               (* ClearRequest; no status *)
  | EApiCancel => do_finish c hold (FErr e) (transact c [OStatus 35] s)            (* RequestCancelled *)
  | EHook => do_finish c hold (FErr e) (transact c [OStatus 32] s)                 (* RequestFailedUnknown *)
  end.

(* which ready channel the select takes: a total preference order over (pause, err, update) *)
Inductive sigk := SPause | SErr | SUpd.
Definition order (ord : N) : list sigk :=
  match ord with
  | 0 => [SPause; SErr; SUpd] | 1 => [SPause; SUpd; SErr] | 2 => [SErr; SPause; SUpd]
  | 3 => [SErr; SUpd; SPause] | 4 => [SUpd; SPause; SErr] | _ => [SUpd; SErr; SPause]
  end.
Definition ready (s : state) (k : sigk) : bool :=
  match k with SPause => sig_pause s | SErr => match sig_err s with Some _ => true | None => false end | SUpd => sig_upd s end.
Definition pick (ord : N) (s : state) : option sigk := find (ready s) (order ord).

(* response.updates = append(response.updates, update), on the summary: the executor's loop over the
   fetched updates stops at the first hook error, so nothing after it matters *)
Definition add_upd (u : updk) (e : entry) : entry :=
  if e_uerr e then e else
  match u with
  | UErr => mkEntry (e_st e) true (e_uext e) (e_started e) (e_neterr e)
  | UExt => mkEntry (e_st e) false true (e_started e) (e_neterr e)
  | UExtErr => mkEntry (e_st e) true true (e_started e) (e_neterr e)
  | _ => e
  end.

Inductive cres := CNil | CPaused | CErr (e : errk).

(* queryexecutor.go checkForUpdates; the extension data the hooks add only matters as message content, and
   the block that follows is content anyway, except when an error ends the transaction *)
Fixpoint check (fuel : nat) (ord : N) (s : state) (ext : bool) : cres * state * bool :=
  match fuel with
  | O => (CNil, s, ext)
  | S f =>
    match pick ord s with
    | None => (CNil, s, ext)
    | Some SPause => (CPaused, set_sig_pause false s, ext)
    | Some SErr => (match sig_err s with Some e => CErr e | None => CNil end, set_sig_err None s, ext)
    | Some SUpd =>
      let s1 := set_sig_upd false s in
      (* GetUpdates round trip: fetch and clear *)
      let uerr := match ent s1 with Some e => e_uerr e | None => false end in
      let uext := match ent s1 with Some e => e_uext e | None => false end in
      let s2 := match ent s1 with Some e => set_ent (Some (mkEntry (e_st e) false false (e_started e) (e_neterr e))) s1 | None => s1 end in
      let ext' := ext || uext in
      if uerr then (CErr EHook, s2, ext') else check f ord s2 ext'
    end
  end.

(* runTraversal: next block (sendResponse -> checkForUpdates -> SendResponse -> block hook = parked), or
   traversal complete -> FinishRequest.  All blocks are present: RequestCompletedFull = 20. *)
Definition exec_loop (c : cfg) (hold more : bool) (ord : N) (s : state) : state :=
  if more then
    match check 4 ord s false with
    | (CErr e, s1, ext) => finish_exec c hold e (transact c (if ext then [OExt] else []) s1)
    | (CNil, s1, _) => set_gate (Some false) s1
    | (CPaused, s1, _) => set_gate (Some true) s1
    end
  else do_finish c hold FNil (transact c [OStatus 20] s).

(* server.go startTask/taskDataForKey, after the worker popped the task *)
Definition start_task (c : cfg) (more : bool) (ord : N) (s : state) : state :=
  match ent s with
  | None => set_tq 0 s
  | Some e =>
    match e_st e with
    | Completing => set_tq 0 s
    | _ =>
      let s1 := if e_started e then s else emit EvProcessing s in
      exec_loop c false more ord (set_tq 2 (set_ent (Some (mkEntry Running (e_uerr e) (e_uext e) true (e_neterr e))) s1))
    end
  end.

Definition gate_free (s : state) : bool := match gate s with None => true | Some _ => false end.

(* taskqueue.go worker: pops when it is free (the task is then active in the queue); ExecuteTask's first act
   is the StartTask round trip into the loop — with `arm` the worker is parked just before it (stk), so that
   whatever reaches the loop meanwhile is handled while the entry is still Queued and the task already popped *)
Definition try_pop (c : cfg) (more : bool) (ord : N) (s : state) : state :=
  if (tq s =? 1) && negb (held s) && gate_free s && negb (stk s) && (match fin s with None => true | Some _ => false end) then
    if arm s then set_stk true (set_arm false (set_tq 2 s)) else start_task c more ord s
  else s.

Definition push_task (c : cfg) (more : bool) (ord : N) (s : state) : state :=
  try_pop c more ord (if tq s =? 0 then set_tq 1 s else s).

(* server.go abortRequest; second component: 0 = nil, 1 = RequestNotFoundErr *)
Definition abort (c : cfg) (err : errk) (s : state) : state * N :=
  match ent s with
  | None => (s, 1)
  | Some e =>
    let s1 := if tq s =? 1 then set_tq 0 s else s in               (* responseQueue.Remove: pending tasks only *)
    if est_eqb (e_st e) Completing && negb (errk_eqb err ENet) then (s1, 1)
    else if negb (est_eqb (e_st e) Running) then
      match err with
      | EReqCancel => (emit EvCancelled (terminate s1), 0)
      | ENet => (terminate s1, 0)
      | _ => (transact c [OStatus 35] (set_est Completing s1), 0)
      end
    else
      let s2 := if errk_eqb err ENet && fix_net c
                then set_ent (Some (mkEntry (e_st e) (e_uerr e) (e_uext e) (e_started e) true)) s1 else s1 in
      (match sig_err s2 with None => set_sig_err (Some err) s2 | Some _ => s2 end, 0)
  end.

(* server.go unpauseRequest (no extensions); 2 = "request is not paused" *)
Definition unpause (c : cfg) (more : bool) (ord : N) (s : state) : state * N :=
  match ent s with
  | None => (s, 1)
  | Some e =>
    match e_st e with
    | Paused => (push_task c more ord (set_est Queued s), 0)
    | _ => (s, 2)
    end
  end.

(* `more`: does the traverser have another block when the executor next asks (the only use of pos) *)
(* server.go processUpdate for a paused response: the update hook runs in the loop; its extension data and,
   on error, the final status go out in one transaction; then CompletingSend / unpause *)
Definition upd_paused (c : cfg) (more : bool) (ord : N) (u : updk) (s : state) : state :=
  let s1 := transact c ((match u with UExt | UExtErr => [OExt] | _ => [] end) ++
                        (match u with UErr | UExtErr => [OStatus 32] | _ => [] end)) s in
  match u with
  | UErr | UExtErr => set_est Completing s1
  | UUnpause => fst (unpause c more ord s1)
  | _ => s1
  end.

(* the select of checkForUpdates has a choice only when two or more signals are pending; no label both adds a
   signal and runs the executor's check, so this is decided on the state the label is applied to *)
Definition ambiguous (s : state) : bool :=
  let n := (if sig_pause s then 1 else 0) + (if sig_upd s then 1 else 0) + (match sig_err s with Some _ => 1 | None => 0 end) in 2 <=? n.
Definition orders (s : state) : list N := if ambiguous s then [0; 1; 2; 3; 4; 5] else [0].
Definition eff_ord (s : state) (ord0 : N) : N := if ambiguous s then N.min ord0 5 else 0.

Definition st_code_is_paused (s : state) : bool :=
  match ent s with Some e => est_eqb (e_st e) Paused | None => false end.

Definition step_ret_m (c : cfg) (more : bool) (s0 : state) (l : label) : state * N :=
  let '(lb, ord0) := l in
  let ord := eff_ord s0 ord0 in
  let s := set_evs [] s0 in
  (* while the loop is parked in a reservation nothing else is handled by it (calls into it queue up or block:
     not modelled); the labels that can resolve it are the failing send and the memory release *)
  let blocked := match stall s0, lb with
                 | None, _ | Some _, LSend false | Some _, LMemFree => false
                 | Some _, _ => true
                 end in
  if blocked then (s, 0) else
  match lb with
  | LNew h =>                                                       (* server.go newRequest *)
    if seen s then (s, 0) else
    let s1 := set_nprot (nprot s + 1) (set_seen true s) in
    match h with
    | HErr => (transact c [OStatus 32] (set_ent (Some (mkEntry Completing false false false false)) s1), 0)
    | HReject => (transact c [OStatus 30] (set_ent (Some (mkEntry Completing false false false false)) s1), 0)
    | HPause => (transact c [OStatus 15] (set_ent (Some (mkEntry Paused false false false false)) s1), 0)
    | HAccept => (push_task c more ord (set_ent (Some (mkEntry Queued false false false false)) s1), 0)
    end
  | LReqCancel => (fst (abort c EReqCancel s), 0)
  | LReqUpdate u =>                                                 (* server.go processUpdate *)
    match ent s with
    | None => (s, 0)
    | Some e =>
      match e_st e with
      | Completing => (s, 0)
      | Paused => (upd_paused c more ord u s, 0)
      | _ => (set_sig_upd true (set_ent (Some (add_upd u e)) s), 0)
      end
    end
  | LApiPause =>                                                    (* server.go pauseRequest *)
    match ent s with
    | None => (s, 1)
    | Some e =>
      match e_st e with
      | Completing => (s, 1)
      | Paused => (s, 2)
      | _ => (set_sig_pause true s, 0)
      end
    end
  | LApiUnpause => unpause c more ord s
  | LApiCancel => abort c EApiCancel s
  | LApiUpdate =>                                                   (* server.go updateRequest: SendUpdates *)
    match ent s with
    | None => (s, 1)
    | Some _ => (transact c [OExt; OPartial] s, 0)
    end
  | LGate g | LGateHold g =>
    let hold := match lb with LGateHold _ => true | _ => false end in
    match gate s with
    | None => (s, 0)
    | Some p =>
      (* the transaction of this block: [PauseRequest by signal] block [PauseRequest by hook] *)
      let ops := (if p then [OStatus 15] else []) ++ [OBlock] ++ (match g with GPause => [OStatus 15] | _ => [] end) in
      let s1 := transact c ops (set_gate None s) in
      match g with
      | GErr => (finish_exec c hold EHook s1, 0)
      | GPause => (do_finish c hold FPaused s1, 0)
      | GCont => if p then (do_finish c hold FPaused s1, 0) else (exec_loop c hold more ord s1, 0)
      end
    end
  | LSend ok =>
    match infl s with
    | None => (s, 0)
    | Some m =>
      if ok then
        (* publishSent; the queue goes on with the unsent builder; subscriber.OnNext Sent *)
        let s1 := set_pend None (set_infl (pend s) s) in
        if is_term m then (emit (EvCompleted m) (terminate s1), 0) else (s1, 0)
      else
        (* publishError: response stream closed, queued builders scrubbed; subscriber.OnNext Error:
           CloseWithNetworkError, TerminateRequest when the code is terminal, network error listeners *)
        let s1 := set_n_fail (n_fail s + 1) (set_closed true (set_pend None (set_infl None s))) in
        (* the scrub returned memory: a reservation the loop is parked in is granted, its build finds the
           stream closed, processUpdate completes; only then does the loop get to the notification's calls *)
        let s1 := match stall s1 with
                  | Some u => upd_paused c more ord u (set_stall None s1)
                  | None => s1
                  end in
        let s2 := fst (abort c ENet s1) in
        let s3 := if is_term m then terminate s2 else s2 in
        (emit EvNetErr s3, 0)
    end
  | LFinish =>
    match fin s with
    | None => (s, 0)
    | Some r => (finish_task c r (set_fin None s), 0)
    end
  | LUpdStall u =>
    (* only where it can happen and be resolved: a paused response, a hook result that needs memory, and a
       message in flight whose outcome returns memory *)
    match stall s, infl s, u with
    | None, Some _, (UExt | UExtErr) => if st_code_is_paused s then (set_stall (Some u) s, 0) else (s, 0)
    | _, _, _ => (s, 0)
    end
  | LMemFree =>
    match stall s with
    | Some u => (upd_paused c more ord u (set_stall None s), 0)
    | None => (s, 0)
    end
  | LArmStart => if stk s || (tq s =? 2) then (s, 0) else (set_arm true s, 0)
  | LStart => if stk s then (start_task c more ord (set_stk false s), 0) else (s, 0)
  | LHold => if held s || negb (gate_free s) || negb (tq s =? 0) then (s, 0) else (set_held true s, 0)
  | LRelease => if held s then (try_pop c more ord (set_held false s), 0) else (s, 0)
  end.

(* the full model state: the above and the number of blocks the traverser has handed out; n = blocks of
   the traversal (all present) *)
Definition fstate := (state * N)%type.
Definition consumes (s : state) (l : label) : bool :=      (* a parked block hook returns: that block is done *)
  match fst l, gate s with LGate _, Some _ | LGateHold _, Some _ => true | _, _ => false end.
Definition pos_after (s : state) (p : N) (l : label) : N := if consumes s l then p + 1 else p.
Definition step_ret (c : cfg) (n : N) (fs : fstate) (l : label) : fstate * N :=
  let '(s, p) := fs in
  let p' := pos_after s p l in
  let '(s', ret) := step_ret_m c (p' <? n) s l in
  ((s', p'), ret).
Definition step (c : cfg) (n : N) (fs : fstate) (l : label) : fstate := fst (step_ret c n fs l).
Definition finit : fstate := (init, 0).
Definition run (c : cfg) (n : N) (ls : list label) : fstate := fold_left (step c n) ls finit.

(* ---------- what the harness observes after every label ---------- *)

Record obs := Build_obs {
  ob_st : N;            (* PeerState: 0 not listed, 1 Queued, 2 Running, 3 Paused, 4 CompletingSend *)
  ob_tq : N;            (* PeerState task queue: 0 none, 1 pending, 2 active *)
  ob_prot : N; ob_unprot : N;      (* ConnManager.Protect / Unprotect calls so far *)
  ob_exec : N;          (* 0 = executor idle, k+1 = parked in the hook of block k, 50 = parked before FinishTask, 51 = before StartTask; 52 = the loop is parked in a reservation *)
  ob_infl : N;          (* status of this request in the message inside SendMsg; 0 = nothing in flight *)
  ob_compl : N;         (* completed-listener notification during the step: 0 none, its status, 1 = more than one *)
  ob_canc : N; ob_net : N; ob_proc : N;   (* cancelled / network-error / request-processing notifications during the step *)
  ob_ret : N }.         (* API result: 0 nil, 1 RequestNotFoundErr, 2 other error *)

Definition st_code (s : state) : N :=
  match ent s with None => 0 | Some e => match e_st e with Queued => 1 | Running => 2 | Paused => 3 | Completing => 4 end end.
Definition count_ev (f : ev -> bool) (s : state) : N := N.of_nat (length (filter f (evs s))).
Definition observe (fs : fstate) (ret : N) : obs :=
  let '(s, p) := fs in
  Build_obs (st_code s) (tq s) (nprot s) (unprot s)
    (match gate s with Some _ => p + 1 | None => match fin s with Some _ => 50 | None => if stk s then 51 else match stall s with Some _ => 52 | None => 0 end end end) (match infl s with Some m => m | None => 0 end)
    (match flat_map (fun e => match e with EvCompleted c => [c] | _ => [] end) (evs s) with [] => 0 | [c] => c | _ => 1 end)
    (count_ev (fun e => match e with EvCancelled => true | _ => false end) s)
    (count_ev (fun e => match e with EvNetErr => true | _ => false end) s)
    (count_ev (fun e => match e with EvProcessing => true | _ => false end) s)
    ret.

Definition obs_eqb (a b : obs) : bool :=
  (ob_st a =? ob_st b) && (ob_tq a =? ob_tq b) && (ob_prot a =? ob_prot b) && (ob_unprot a =? ob_unprot b) &&
  (ob_exec a =? ob_exec b) && (ob_infl a =? ob_infl b) && (ob_compl a =? ob_compl b) &&
  (ob_canc a =? ob_canc b) && (ob_net a =? ob_net b) && (ob_proc a =? ob_proc b) && (ob_ret a =? ob_ret b).

(* one step of a recorded history: the label and the observation after it (flat, so that the generated
   case files elaborate quickly) *)
Inductive rstep := St (l : lab) (packed : N).     (* the 11 fields of obs in base 64, ob_st lowest *)
Definition dig (v : N) (i : N) : N := (v / 64 ^ i) mod 64.
Definition unstep (x : rstep) : lab * obs :=
  match x with St l v => (l, Build_obs (dig v 0) (dig v 1) (dig v 2) (dig v 3) (dig v 4) (dig v 5) (dig v 6) (dig v 7) (dig v 8) (dig v 9) (dig v 10)) end.
Record rcase := Build_rcase { rc_n : N; rc_steps : list rstep }.

(* the code as it is in /repo now (both repairs) *)
Definition cfg_now : cfg := mkCfg true true.
(* the code as it was found *)
Definition cfg_found : cfg := mkCfg false false.

(* trace acceptance: the set of model states compatible with what was observed so far; the select order is
   not observable, so every order is tried where more than one signal is pending *)


(* boolean equality of states, to keep the candidate set of the acceptor duplicate-free *)
Definition updk_eqb (a b : updk) : bool :=
  match a, b with UOk, UOk | UExt, UExt | UErr, UErr | UUnpause, UUnpause | UExtErr, UExtErr => true | _, _ => false end.
Definition entry_eqb (a b : entry) : bool :=
  est_eqb (e_st a) (e_st b) && Bool.eqb (e_uerr a) (e_uerr b) && Bool.eqb (e_uext a) (e_uext b) && Bool.eqb (e_started a) (e_started b) && Bool.eqb (e_neterr a) (e_neterr b).
Definition ev_eqb (a b : ev) : bool :=
  match a, b with
  | EvCompleted x, EvCompleted y => x =? y
  | EvCancelled, EvCancelled | EvNetErr, EvNetErr | EvProcessing, EvProcessing => true
  | _, _ => false
  end.
Definition fres_eqb (a b : fres) : bool :=
  match a, b with
  | FNil, FNil | FPaused, FPaused => true
  | FErr x, FErr y => errk_eqb x y
  | _, _ => false
  end.
Definition state_eqb (a b : state) : bool :=
  Bool.eqb (seen a) (seen b) && option_eqb entry_eqb (ent a) (ent b) && Bool.eqb (sig_pause a) (sig_pause b) &&
  Bool.eqb (sig_upd a) (sig_upd b) && option_eqb errk_eqb (sig_err a) (sig_err b) && (tq a =? tq b) &&
  Bool.eqb (held a) (held b) && Bool.eqb (arm a) (arm b) && Bool.eqb (stk a) (stk b) && option_eqb Bool.eqb (gate a) (gate b) && option_eqb fres_eqb (fin a) (fin b) && option_eqb updk_eqb (stall a) (stall b) && Bool.eqb (closed a) (closed b) &&
  option_eqb N.eqb (infl a) (infl b) && option_eqb N.eqb (pend a) (pend b) && (nprot a =? nprot b) && (unprot a =? unprot b) &&
  list_eqb ev_eqb (evs a) (evs b) && (n_done a =? n_done b) && (n_net a =? n_net b) && (n_fail a =? n_fail b).
Definition fstate_eqb (a b : fstate) : bool := state_eqb (fst a) (fst b) && (snd a =? snd b).
Fixpoint add_state (s : fstate) (l : list fstate) : list fstate :=
  match l with
  | [] => [s]
  | x :: r => if fstate_eqb s x then l else x :: add_state s r
  end.
Definition dedup (l : list fstate) : list fstate := fold_right add_state [] l.

Fixpoint accept (c : cfg) (n : N) (ss : list fstate) (tr : list (lab * obs)) : bool :=
  match tr with
  | [] => match ss with [] => false | _ => true end
  | (l, o) :: tr' =>
    accept c n (dedup (flat_map (fun s => flat_map (fun ord =>
                let '(s', ret) := step_ret c n s (l, ord) in
                if obs_eqb (observe s' ret) o then [s'] else []) (orders (fst s))) ss)) tr'
  end.

Definition rcase_agrees (rc : rcase) : bool := accept cfg_now (rc_n rc) [finit] (map unstep (rc_steps rc)).

(* ---------- the property's monitor over an observed history ---------- *)

Definition quiescent_obs (o : obs) : bool :=
  (ob_exec o =? 0) && (ob_tq o =? 0) && (ob_infl o =? 0) && negb (ob_st o =? 3).

Record mstate := mkM { m_seen : bool; m_gone : bool; m_compl : N; m_canc : N; m_net : N; m_last : option obs }.

Definition mon_step (m : mstate) (lo : lab * obs) : option mstate :=
  let '(l, o) := lo in
  let seen' := m_seen m || match l with LNew _ => true | _ => false end in
  let ncompl := if ob_compl o =? 0 then 0 else if ob_compl o =? 1 then 2 else 1 in
  (* completed carries the terminal status of the message whose send just succeeded *)
  let compl_ok := (ob_compl o =? 0) ||
                  match l, m_last m with
                  | LSend true, Some p => (ob_infl p =? ob_compl o) && is_term (ob_compl o)
                  | _, _ => false
                  end in
  (* network-error notifications only for a failed send *)
  let net_ok := (ob_net o =? 0) || match l with LSend false => ob_net o =? 1 | _ => false end in
  (* protection: taken once, held exactly while the responder lists the request *)
  let prot_ok := if seen' then (ob_prot o =? 1) && (if ob_st o =? 0 then ob_unprot o =? 1 else ob_unprot o =? 0)
                 else (ob_prot o =? 0) && (ob_unprot o =? 0) && (ob_st o =? 0) in
  (* once gone, gone for good *)
  let gone_ok := negb (m_gone m) || (ob_st o =? 0) in
  let m' := mkM seen' (seen' && (ob_st o =? 0)) (m_compl m + ncompl) (m_canc m + ob_canc o) (m_net m + ob_net o) (Some o) in
  let once_ok := (m_compl m' + m_canc m' <=? 1) in
  (* retired: at rest and not paused => not listed, and some outcome was reported *)
  (* no task of a response that is gone stays active or pending once the executor is out of it *)
  let task_ok := negb (seen' && (ob_st o =? 0) && (ob_exec o =? 0)) || (ob_tq o =? 0) in
  (* a block is only ever processed for a response that is Running *)
  let exec_ok := negb ((1 <=? ob_exec o) && (ob_exec o <? 50)) || (ob_st o =? 2) in
  (* after a network-error outcome: no completed notification and nothing more of the request on the wire *)
  let after_net_ok := (m_net m =? 0) || ((ob_compl o =? 0) && (ob_infl o =? 0)) in
  let rest_ok := negb (seen' && quiescent_obs o) || ((ob_st o =? 0) && (1 <=? m_compl m' + m_canc m' + m_net m')) in
  if compl_ok && net_ok && prot_ok && gone_ok && once_ok && task_ok && exec_ok && after_net_ok && rest_ok then Some m' else None.

Fixpoint mon_run (m : mstate) (tr : list (lab * obs)) : bool :=
  match tr with
  | [] => true
  | lo :: tr' => match mon_step m lo with Some m' => mon_run m' tr' | None => false end
  end.

Definition mon_init : mstate := mkM false false 0 0 0 None.
Definition rcase_mon (rc : rcase) : bool := mon_run mon_init (map unstep (rc_steps rc)).

(* the model's own history for a label sequence, in the form the monitor reads *)
Fixpoint trace (c : cfg) (n : N) (s : fstate) (ls : list label) : list (lab * obs) :=
  match ls with
  | [] => []
  | l :: ls' => let '(s', ret) := step_ret c n s l in (fst l, observe s' ret) :: trace c n s' ls'
  end.
