(* ReqMgr.v — labelled transition system of ONE outgoing request inside requestmanager.RequestManager
   (client.go, server.go, messages.go, responsecollector.go, executor/executor.go, and the parts of
   ipldutil/traverser.go, reconciledloader and taskqueue that decide blocking).  No proofs here.

   One label = one atomic region of the Go code: one message handled by the actor loop (run()),
   one rendezvous on an unbuffered channel (a JOINT label, enabled only when sender and receiver are
   both at the matching program point), one non-blocking stretch of the executor / traverser /
   collector goroutines, or one decision of the environment (responder, caller, hooks).
   Data is abstract: the DAG and selector are the [plan] of link loads and visitor calls, the
   remote queue is its length [rq]; load outcomes are choices carried by the label.

   Not modelled (stated in design.d/C04.md): rm.ctx shutdown (every `case <-rm.ctx.Done()` branch),
   the 16-slot bound of rm.messages (the mailbox is unbounded), responses of peers that do not own the
   request (C09), hook extension data / update messages, NewRequest's early failures
   (singleErrorResponse / emptyResponse), other request ids (see rm_other_ids in the proofs). *)
From Coq Require Import List NArith Bool Arith.
From GS Require Import Base.
Import ListNotations.

(* ---------- data ---------- *)
Inductive rstate := Queued | Running | Paused.                    (* graphsync.RequestState *)
Inductive err :=
| ErrCC                      (* graphsync.RequestClientCancelledErr *)
| ErrStatus (n : N)          (* ResponseStatusCode(n).AsError() for a failure status *)
| ErrHook                    (* error returned by a response / block hook *)
| ErrMissing                 (* graphsync.RemoteMissingBlockErr *)
| ErrHard.                   (* RemoteIncorrectResponseError, verifier error, traversal error *)
Inductive sclass := SPartial | SSucc | SFail (n : N).             (* responsecode.go IsSuccess / IsFailure *)
Record resp := { r_status : sclass; r_items : nat; r_hookerr : bool }.
Inductive msg :=                                                    (* messages.go *)
| MCancel (api : bool)       (* cancelRequestMessage: api = CancelRequest (waiter + ClientCancelled), else collector (nil, nil) *)
| MResp (r : resp)           (* processResponsesMessage, one response for this request from its peer *)
| MGetTask                   (* getRequestTaskMessage *)
| MRelease (paused : bool)   (* releaseRequestTaskMessage; only "err is hooks.ErrPaused" matters *)
| MPause | MUnpause.
Record entry := { e_state : rstate; e_terr : option err; e_waiters : nat; e_started : bool }.
  (* e_started: traverser and reconciledLoader exist (requestTask ran once) *)

Inductive loop_pc :=
| LIdle
| LTermSend (e : err) (rel : bool)   (* terminateRequest: blocked in `ipr.inProgressErr <- ipr.terminalError` *)
| LShutdown (rel : bool).            (* terminateRequest: blocked in traverser.Shutdown (waits for `stopped`) *)
  (* rel: terminateRequest was called from releaseRequestTask, the executor waits for `done` *)

Inductive exec_pc :=
| XIdle                              (* worker in its select, no task of this request *)
| XPopped                            (* PopTasks returned the task; ExecuteTask not yet at GetRequestTask *)
| XAwaitTask                         (* waiting on requestTaskChan *)
| XTop (sent : bool)                 (* traverse: at IsComplete (needs the traverser's stateMu) *)
| XLoad (sent : bool)                (* BlockReadOpener (may block in waitRemote) *)
| XLocal (consumed sent : bool)      (* blockReadOpener decided to read the local store (loadLocal) *)
| XGoOnline (consumed : bool)        (* first miss: about to SetRemoteOnline(true), send the request, RetryLastLoad *)
| XSendErr (e : err) (sent : bool)   (* advanceTraversal: select { rt.Ctx.Done | rt.InProgressErr <- err } *)
| XHooks (ok : bool) (sent : bool)   (* processResult: block hooks (if ok) then the pause-token check *)
| XFin (w : option err)              (* ExecuteTask after traverse failed: None = ErrPaused, Some e = error e *)
| XFinSend (e : err)                 (* ExecuteTask: select { Ctx.Done | InProgressErr <- err } *)
| XRelease (paused : bool)           (* about to call ReleaseRequestTask *)
| XAwaitDone.                        (* waiting on `done` *)
  (* sent = traverse's local requestSent *)

Inductive trav_pc := TNone | TLoader | TRun (v : nat) | TDone (failed : bool).
(* The traversal as go-graphsync sees it: the link loads in depth-first order; after load j succeeded
   the visitor is called p_vok times before the next load is requested, after it was skipped
   (traversal.SkipMe) p_vskip times, and the p_sz loads below it do not happen. *)
Record pentry := { p_vok : nat; p_vskip : nat; p_sz : nat; p_root : bool }.
  (* p_root: the root block; traverser.start() loads it outside the walk, so a skipped root fails the traversal *)
  (* TLoader: goroutine parked in traverser.loader (stateMu free); TRun: between loads (stateMu held);
     TDone: writeDone ran, `stopped` closed *)
Inductive rc_pc := RCRun (inopen : bool) | RCDrain (sent ropen eopen : bool) | RCExit.
  (* first goroutine of collectResponses; RCDrain = inside cancelRequestAndClose *)
Inductive ec_pc := ECRun (inopen : bool) | ECSendCC (cont : bool) | ECExit.
  (* second goroutine; ECSendCC = blocked in `returnedErrors <- RequestClientCancelledErr{}`,
     cont = the send sits in the channel-closed branch, the loop continues afterwards *)

Record st := mkSt {
  ent : option entry;  mbox : list msg;  lpc : loop_pc;
  tq : bool;                          (* a task of this request is pending in the task queue *)
  xpc : exec_pc;  trav : trav_pc;  plan : list pentry;
  rq : nat;  ropen : bool;            (* reconciledLoader: remoteQueue length, open *)
  ptok : bool;                        (* pauseMessages (buffered 1) holds a token *)
  rctx : bool;  tctx : bool;  cctx : bool;   (* request ctx / traverser ctx / caller ctx cancelled *)
  iclosed : bool;                     (* inProgressChan and inProgressErr closed *)
  rc : rc_pc;  rbuf : nat;  ec : ec_pc;  ebuf : list err }.

Definition init (pl : list pentry) : st :=
  mkSt (Some (Build_entry Queued None 0 false)) [] LIdle true XIdle TNone pl 0 false false
       false false false false (RCRun true) 0 (ECRun true) [].

(* setters *)
Definition s_ent v s := mkSt v (mbox s) (lpc s) (tq s) (xpc s) (trav s) (plan s) (rq s) (ropen s) (ptok s) (rctx s) (tctx s) (cctx s) (iclosed s) (rc s) (rbuf s) (ec s) (ebuf s).
Definition s_mbox v s := mkSt (ent s) v (lpc s) (tq s) (xpc s) (trav s) (plan s) (rq s) (ropen s) (ptok s) (rctx s) (tctx s) (cctx s) (iclosed s) (rc s) (rbuf s) (ec s) (ebuf s).
Definition s_lpc v s := mkSt (ent s) (mbox s) v (tq s) (xpc s) (trav s) (plan s) (rq s) (ropen s) (ptok s) (rctx s) (tctx s) (cctx s) (iclosed s) (rc s) (rbuf s) (ec s) (ebuf s).
Definition s_tq v s := mkSt (ent s) (mbox s) (lpc s) v (xpc s) (trav s) (plan s) (rq s) (ropen s) (ptok s) (rctx s) (tctx s) (cctx s) (iclosed s) (rc s) (rbuf s) (ec s) (ebuf s).
Definition s_xpc v s := mkSt (ent s) (mbox s) (lpc s) (tq s) v (trav s) (plan s) (rq s) (ropen s) (ptok s) (rctx s) (tctx s) (cctx s) (iclosed s) (rc s) (rbuf s) (ec s) (ebuf s).
Definition s_trav v s := mkSt (ent s) (mbox s) (lpc s) (tq s) (xpc s) v (plan s) (rq s) (ropen s) (ptok s) (rctx s) (tctx s) (cctx s) (iclosed s) (rc s) (rbuf s) (ec s) (ebuf s).
Definition s_plan v s := mkSt (ent s) (mbox s) (lpc s) (tq s) (xpc s) (trav s) v (rq s) (ropen s) (ptok s) (rctx s) (tctx s) (cctx s) (iclosed s) (rc s) (rbuf s) (ec s) (ebuf s).
Definition s_rq v s := mkSt (ent s) (mbox s) (lpc s) (tq s) (xpc s) (trav s) (plan s) v (ropen s) (ptok s) (rctx s) (tctx s) (cctx s) (iclosed s) (rc s) (rbuf s) (ec s) (ebuf s).
Definition s_ropen v s := mkSt (ent s) (mbox s) (lpc s) (tq s) (xpc s) (trav s) (plan s) (rq s) v (ptok s) (rctx s) (tctx s) (cctx s) (iclosed s) (rc s) (rbuf s) (ec s) (ebuf s).
Definition s_ptok v s := mkSt (ent s) (mbox s) (lpc s) (tq s) (xpc s) (trav s) (plan s) (rq s) (ropen s) v (rctx s) (tctx s) (cctx s) (iclosed s) (rc s) (rbuf s) (ec s) (ebuf s).
Definition s_rctx v s := mkSt (ent s) (mbox s) (lpc s) (tq s) (xpc s) (trav s) (plan s) (rq s) (ropen s) (ptok s) v (tctx s) (cctx s) (iclosed s) (rc s) (rbuf s) (ec s) (ebuf s).
Definition s_tctx v s := mkSt (ent s) (mbox s) (lpc s) (tq s) (xpc s) (trav s) (plan s) (rq s) (ropen s) (ptok s) (rctx s) v (cctx s) (iclosed s) (rc s) (rbuf s) (ec s) (ebuf s).
Definition s_cctx v s := mkSt (ent s) (mbox s) (lpc s) (tq s) (xpc s) (trav s) (plan s) (rq s) (ropen s) (ptok s) (rctx s) (tctx s) v (iclosed s) (rc s) (rbuf s) (ec s) (ebuf s).
Definition s_iclosed v s := mkSt (ent s) (mbox s) (lpc s) (tq s) (xpc s) (trav s) (plan s) (rq s) (ropen s) (ptok s) (rctx s) (tctx s) (cctx s) v (rc s) (rbuf s) (ec s) (ebuf s).
Definition s_rc v s := mkSt (ent s) (mbox s) (lpc s) (tq s) (xpc s) (trav s) (plan s) (rq s) (ropen s) (ptok s) (rctx s) (tctx s) (cctx s) (iclosed s) v (rbuf s) (ec s) (ebuf s).
Definition s_rbuf v s := mkSt (ent s) (mbox s) (lpc s) (tq s) (xpc s) (trav s) (plan s) (rq s) (ropen s) (ptok s) (rctx s) (tctx s) (cctx s) (iclosed s) (rc s) v (ec s) (ebuf s).
Definition s_ec v s := mkSt (ent s) (mbox s) (lpc s) (tq s) (xpc s) (trav s) (plan s) (rq s) (ropen s) (ptok s) (rctx s) (tctx s) (cctx s) (iclosed s) (rc s) (rbuf s) v (ebuf s).
Definition s_ebuf v s := mkSt (ent s) (mbox s) (lpc s) (tq s) (xpc s) (trav s) (plan s) (rq s) (ropen s) (ptok s) (rctx s) (tctx s) (cctx s) (iclosed s) (rc s) (rbuf s) (ec s) v.

(* ---------- labels and events ---------- *)
Inductive lchoice :=           (* outcome of one BlockReadOpener call / of the block hooks *)
| CConsume                     (* waitRemote: the verifier consumed one queued item and loops *)
| CRemOk | CRemHard            (* head item consumed: block stored / link mismatch, verifier or store error *)
| CRemMiss                     (* head item consumed, it carries no block: read the local store *)
| CLoc                         (* nothing consumed (offline, or still on an unfollowed path): read the local store *)
| CLocOk | CLocMiss            (* result of the local store read (only read at XLocal) *)
| CHookErr.                    (* block hook returned an error (only read at XHooks) *)
Inductive tchoice := TCVisit | TCNext | TCFail.
Inductive esrc := SrcExec | SrcFin | SrcLoop.     (* who sends on inProgressErr *)
Inductive edst := DstEC | DstRC.                  (* who receives: error collector / cancelRequestAndClose *)
Inductive rcchoice := RCtx | RSeeClosedP | RSeeClosedE | RSendCancel.
Inductive ecchoice := ECtx | ESeeClosed.

Inductive label :=
| LEnvResp (r : resp)          (* ProcessResponses(p, [response for this id], blocks) *)
| LEnvCtxCancel                (* the caller cancels the context passed to NewRequest *)
| LEnvApiCancel                (* CancelRequest(id) *)
| LEnvPause | LEnvUnpause      (* PauseRequest / UnpauseRequest *)
| LEnvSendFail                 (* message queue reports a send error to reqSubscriber: listeners only *)
| LCallerRecvP | LCallerRecvE  (* caller receives from the returned channels (rendezvous with a collector) *)
| LLoop                        (* run(): dequeue one message and handle it up to the next blocking point; or resume from LShutdown *)
| LWorker                      (* taskqueue worker pops the task *)
| LExec (c : lchoice)          (* executor: one non-blocking stretch *)
| LTrav (c : tchoice) (d : edst)  (* traverser goroutine; TCVisit is the rendezvous on inProgressChan with receiver d (DstEC = response collector loop, DstRC = drain) *)
| LErr (s : esrc) (d : edst)   (* rendezvous on inProgressErr *)
| LRC (c : rcchoice)           (* response collector, internal *)
| LEC (c : ecchoice).          (* error collector, internal *)

Definition is_env (l : label) : bool :=
  match l with
  | LEnvResp _ | LEnvCtxCancel | LEnvApiCancel | LEnvPause | LEnvUnpause | LEnvSendFail => true
  | _ => false
  end.

Inductive outmsg := ONew | OCancel.               (* gsmsg.NewRequest-with-selector / NewCancelRequest *)
Inductive ev :=
| EvSend (m : outmsg)          (* SendRequest -> PeerHandler.AllocateAndBuildMessage *)
| EvLoad (c : lchoice)         (* the local store was written (CRemOk) or read (CLocOk found / CLocMiss not found) *)
| EvDelivP | EvDelivE (e : err)
| EvCloseP | EvCloseE.         (* close(returnedResponses) / close(returnedErrors) *)

(* ---------- collectors: loop condition re-evaluated after every step ---------- *)
Definition rc_norm (s : st) : st * list ev :=
  match rc s with
  | RCRun false => if Nat.eqb (rbuf s) 0 then (s_rc RCExit s, [EvCloseP]) else (s, [])
  | RCDrain true false false => (s_rbuf 0 (s_rc RCExit s), [EvCloseP])
  | _ => (s, [])
  end.
Definition ec_norm (s : st) : st * list ev :=
  match ec s, ebuf s with
  | ECRun false, [] => (s_ec ECExit s, [EvCloseE])
  | _, _ => (s, [])
  end.

(* ---------- server.go: terminateRequest, cancelOnError ---------- *)
(* after the terminal error (if any) has been handed over: delete entry, cancelFn, Cleanup, traverserCancel + Shutdown *)
Definition term3 (rel : bool) (s : st) : st :=
  let s := s_iclosed true (s_lpc LIdle s) in
  if rel then s_xpc XIdle s else s.
Definition term2 (started rel : bool) (s : st) : st :=
  let s := s_rq 0 (s_rctx true (s_ent None s)) in
  if started then s_lpc (LShutdown rel) (s_tctx true s) else term3 rel s.
Definition terminate (e : entry) (rel : bool) (s : st) : st :=
  match e_terr e with
  | Some x => s_lpc (LTermSend x rel) s
  | None => term2 (e_started e) rel s
  end.
Definition cancel_on_error (e : entry) (eo : option err) (s : st) : st :=
  let e' := Build_entry (e_state e) (match e_terr e with None => eo | Some x => Some x end) (e_waiters e) (e_started e) in
  let s := s_ent (Some e') s in
  match e_state e with
  | Running => s_ropen false (s_rctx true s)
  | _ => terminate e' false s
  end.

(* one message handled by the loop; returns None when the message cannot occur in this state *)
Definition handle (m : msg) (s : st) : option (st * list ev) :=
  match m, ent s with
  | MCancel api, None => Some (s, [])                       (* cancelRequest: RequestNotFoundErr to the waiter *)
  | MCancel api, Some e =>
      let e1 := Build_entry (e_state e) (e_terr e) (if api then S (e_waiters e) else e_waiters e) (e_started e) in
      Some (cancel_on_error e1 (if api then Some ErrCC else None) s, [EvSend OCancel])
  | MResp r, None => Some (s, [])                           (* filterResponsesForPeer drops it *)
  | MResp r, Some e =>
      if r_hookerr r then                                    (* processExtensionsForResponse: result.Err != nil *)
        Some (cancel_on_error e (Some ErrHook) s, [EvSend OCancel])
      else
        let s1 := if e_started e && ropen s then s_rq (rq s + r_items r) s else s in   (* IngestResponse *)
        match r_status r with                                (* processTerminations *)
        | SPartial => Some (s1, [])
        | SSucc => Some (if e_started e then s_ropen false s1 else s1, [])
        | SFail n =>
            let s2 := cancel_on_error e (Some (ErrStatus n)) s1 in
            Some (match ent s2 with
                  | Some e2 => if e_started e2 then s_ropen false s2 else s2
                  | None => s2 end, [])
        end
  | MGetTask, None =>                                        (* requestTask: Empty; TaskDone *)
      match xpc s with XAwaitTask => Some (s_xpc XIdle s, []) | _ => None end
  | MGetTask, Some e =>
      match xpc s with
      | XAwaitTask =>
          let s1 := if e_started e then s
                    else s_rq 0 (s_ropen false (s_tctx false (s_trav (TRun 0) s))) in
          Some (s_xpc (XTop false) (s_ent (Some (Build_entry Running (e_terr e) (e_waiters e) true)) s1), [])
      | _ => None
      end
  | MRelease p, None =>
      match xpc s with XAwaitDone => Some (s_xpc XIdle s, []) | _ => None end
  | MRelease p, Some e =>
      match xpc s with
      | XAwaitDone =>
          (* ErrPaused parks the request only while its context is live [fix 5063fd7]; a request
             cancelled while running is terminated by this release *)
          if p && negb (rctx s) then Some (s_xpc XIdle (s_ent (Some (Build_entry Paused (e_terr e) (e_waiters e) (e_started e))) s), [])
          else Some (terminate e true s, [])
      | _ => None
      end
  | MPause, None => Some (s, [])
  | MPause, Some e => match e_state e with Paused => Some (s, []) | _ => Some (s_ptok true s, []) end
  | MUnpause, None => Some (s, [])
  | MUnpause, Some e =>
      match e_state e with
      | Paused => Some (s_tq true (s_ent (Some (Build_entry Queued (e_terr e) (e_waiters e) (e_started e))) s), [])
      | _ => Some (s, [])
      end
  end.

(* ---------- receivers on the two internal channels ---------- *)
Definition recv_err (d : edst) (e : err) (s : st) : option st :=
  match d with
  | DstEC => match ec s with ECRun true => Some (s_ebuf (ebuf s ++ [e]) s) | _ => None end
  | DstRC => match rc s with RCDrain _ _ true => Some s | _ => None end
  end.
Definition recv_visit (d : edst) (s : st) : option st :=
  match d with
  | DstEC => match rc s with RCRun true => Some (s_rbuf (S (rbuf s)) s) | _ => None end
  | DstRC => match rc s with RCDrain _ true _ => Some s | _ => None end
  end.

(* ---------- executor ---------- *)
(* advanceTraversal with result.Err != nil: a non-blocking look at rt.Ctx.Done(), then the select at
   XSendErr.  The early look adds no behaviour (XSendErr takes the Done branch whenever the context is
   cancelled), so the executor goes to XSendErr directly. *)
Definition after_err (e : err) (sent : bool) (s : st) : st := s_xpc (XSendErr e sent) s.
(* Traverser.Advance / Traverser.Error(SkipMe): the traverser goroutine leaves loader() *)
Definition trav_ok (s : st) : st :=
  match plan s with
  | p :: r => s_plan r (s_trav (TRun (p_vok p)) s)
  | [] => s_trav (TRun 0) s
  end.
Definition trav_skip (s : st) : st :=
  match plan s with
  | p :: r => if p_root p then s_plan [] (s_trav (TDone true) s)
              else s_plan (skipn (p_sz p) r) (s_trav (TRun (p_vskip p)) s)
  | [] => s_trav (TRun 0) s
  end.

Definition exec_step (c : lchoice) (s : st) : option (st * list ev) :=
  let hasq := negb (Nat.eqb (rq s) 0) in
  let dec := s_rq (pred (rq s)) s in
  match xpc s with
  | XPopped => Some (s_xpc XAwaitTask (s_mbox (mbox s ++ [MGetTask]) s), [])
  | XTop sent =>
      match trav s with
      | TLoader => Some (s_xpc (XLoad sent) s, [])
      | TDone false => Some (s_xpc (XRelease false) s, [])
      | TDone true => Some (s_xpc (XFin (Some ErrHard)) s, [])
      | _ => None
      end
  | XLoad sent =>                               (* BlockReadOpener: waitRemote, then remote or local *)
      match c with
      | CConsume => if hasq then Some (dec, []) else None
      | CRemOk => if hasq then Some (s_xpc (XHooks true sent) (trav_ok dec), [EvLoad CRemOk]) else None
      | CRemHard => if hasq then Some (after_err ErrHard sent dec, []) else None
      | CRemMiss => if hasq then Some (s_xpc (XLocal true sent) dec, []) else None
      | CLoc => if hasq || negb (ropen s) then Some (s_xpc (XLocal false sent) s, []) else None
      | _ => None
      end
  | XLocal consumed sent =>                     (* loadLocal: lsys.StorageReadOpener *)
      match c with
      | CLocOk => Some (s_xpc (XHooks true sent) (trav_ok s), [EvLoad CLocOk])
      | CLocMiss => if sent then Some (after_err ErrMissing sent s, [EvLoad CLocMiss])
                    else Some (s_xpc (XGoOnline consumed) s, [EvLoad CLocMiss])
      | _ => None
      end
  | XGoOnline consumed =>
      (* SetRemoteOnline(true): the remote queue (items of an earlier response, the last consumed item) is
         cleared [fix cb5b48f]; [fix 1f71cc8] request ctx already cancelled: offline again,
         ContextCancelError; else startRemoteRequest; RetryLastLoad (nothing left to requeue) *)
      if rctx s then Some (s_xpc (XRelease false) (s_rq 0 s), [])
      else Some (s_xpc (XLoad true) (s_ropen true (s_rq 0 s)), [EvSend ONew])
  | XSendErr e sent => if rctx s then Some (s_xpc (XRelease false) s, []) else None
  | XHooks ok sent =>
      let hookerr := ok && match c with CHookErr => true | _ => false end in
      let tok := ptok s in
      let s1 := s_ptok false s in
      if hookerr then Some (s_xpc (XFin (Some ErrHook)) s1, [])
      else if tok then Some (s_xpc (XFin None) s1, [])
      else Some (s_xpc (XTop sent) s1, [])
  | XFin w =>                                   (* SendRequest(cancel); SetRemoteOnline(false) *)
      let s1 := s_ropen false s in
      match w with
      | None => Some (s_xpc (XRelease true) s1, [EvSend OCancel])
      | Some e => Some (s_xpc (XFinSend e) s1, [EvSend OCancel])
      end
  | XFinSend e => if rctx s then Some (s_xpc (XRelease false) s, []) else None
  | XRelease p => Some (s_xpc XAwaitDone (s_mbox (mbox s ++ [MRelease p]) s), [])
  | XIdle | XAwaitTask | XAwaitDone => None
  end.

(* sender side of a rendezvous on inProgressErr: the error and the sender's continuation *)
Definition send_err (src : esrc) (s : st) : option (err * st) :=
  match src with
  | SrcExec =>
      match xpc s with
      | XSendErr e sent =>                       (* then Traverser.Error(SkipMe | err) *)
          Some (e, s_xpc (XHooks false sent)
                     (match e with ErrMissing => trav_skip s | _ => s_trav (TDone true) s end))
      | _ => None
      end
  | SrcFin =>
      match xpc s with XFinSend e => Some (e, s_xpc (XRelease false) s) | _ => None end
  | SrcLoop =>
      match lpc s, ent s with
      | LTermSend e rel, Some en => Some (e, term2 (e_started en) rel s)
      | _, _ => None
      end
  end.

(* ---------- the step function ---------- *)
Definition with_norm (r : st * list ev) : st * list ev :=
  let (s1, e1) := r in
  let (s2, e2) := rc_norm s1 in
  let (s3, e3) := ec_norm s2 in (s3, e1 ++ e2 ++ e3).

Definition step_raw (s : st) (l : label) : option (st * list ev) :=
  match l with
  | LEnvResp r => Some (s_mbox (mbox s ++ [MResp r]) s, [])
  | LEnvCtxCancel => Some (s_cctx true s, [])
  | LEnvApiCancel => Some (s_mbox (mbox s ++ [MCancel true]) s, [])
  | LEnvPause => Some (s_mbox (mbox s ++ [MPause]) s, [])
  | LEnvUnpause => Some (s_mbox (mbox s ++ [MUnpause]) s, [])
  | LEnvSendFail => Some (s, [])
  | LCallerRecvP =>
      match rc s, rbuf s with
      | RCRun _, S n => Some (s_rbuf n s, [EvDelivP])
      | _, _ => None
      end
  | LCallerRecvE =>
      match ec s, ebuf s with
      | ECRun _, e :: r => Some (s_ebuf r s, [EvDelivE e])
      | ECSendCC true, _ => Some (s_ec (ECRun false) s, [EvDelivE ErrCC])
      | ECSendCC false, _ => Some (s_ebuf [] (s_ec ECExit s), [EvDelivE ErrCC; EvCloseE])
      | _, _ => None
      end
  | LLoop =>
      match lpc s with
      | LIdle => match mbox s with
                 | m :: r => handle m (s_mbox r s)
                 | [] => None
                 end
      | LShutdown rel => match trav s with TDone _ => Some (term3 rel s, []) | _ => None end
      | LTermSend _ _ => None
      end
  | LWorker =>
      match tq s, xpc s with
      | true, XIdle => Some (s_xpc XPopped (s_tq false s), [])
      | _, _ => None
      end
  | LExec c => exec_step c s
  | LTrav c d =>
      if tctx s then
        match trav s with
        | TLoader | TRun _ => Some (s_trav (TDone true) s, [])     (* loader / visitor see ctx.Done *)
        | _ => None
        end
      else
        match trav s, c with
        | TRun (S v), TCVisit =>
            match recv_visit d s with Some s1 => Some (s_trav (TRun v) s1, []) | None => None end
        | TRun O, TCNext => Some (s_trav (match plan s with [] => TDone false | _ => TLoader end) s, [])
        | TRun _, TCFail => Some (s_trav (TDone true) s, [])      (* budget exceeded, decode error *)
        | _, _ => None
        end
  | LErr src d =>
      match send_err src s with
      | Some (e, s1) => match recv_err d e s1 with Some s2 => Some (s2, []) | None => None end
      | None => None
      end
  | LRC c =>
      match rc s, c with
      | RCRun true, RCtx => if cctx s then Some (s_rc (RCDrain false true true) s, []) else None
      | RCRun false, RCtx => if cctx s then Some (s_rbuf 0 (s_rc RCExit s), [EvCloseP]) else None
      | RCRun true, RSeeClosedP => if iclosed s then Some (s_rc (RCRun false) s, []) else None
      | RCDrain false a b, RSendCancel => Some (s_rc (RCDrain true a b) (s_mbox (mbox s ++ [MCancel false]) s), [])
      | RCDrain a true b, RSeeClosedP => if iclosed s then Some (s_rc (RCDrain a false b) s, []) else None
      | RCDrain a b true, RSeeClosedE => if iclosed s then Some (s_rc (RCDrain a b false) s, []) else None
      | _, _ => None
      end
  | LEC c =>
      match ec s, c with
      | ECRun _, ECtx => if cctx s then Some (s_ec (ECSendCC false) s, []) else None
      | ECRun true, ESeeClosed =>
          if iclosed s then Some (s_ec (if cctx s then ECSendCC true else ECRun false) s, []) else None
      | _, _ => None
      end
  end.

Definition step (s : st) (l : label) : option (st * list ev) :=
  match step_raw s l with Some r => Some (with_norm r) | None => None end.

(* runs *)
Fixpoint run (s : st) (ls : list label) : option (st * list ev) :=
  match ls with
  | [] => Some (s, [])
  | l :: r => match step s l with
              | Some (s1, e1) => match run s1 r with Some (s2, e2) => Some (s2, e1 ++ e2) | None => None end
              | None => None
              end
  end.

(* ---------- the labels a state offers (finite: choices enumerated) ---------- *)
Definition internal_labels : list label :=
  [LLoop; LWorker;
   LExec CConsume; LExec CRemOk; LExec CRemHard; LExec CRemMiss; LExec CLoc; LExec CLocOk; LExec CLocMiss; LExec CHookErr;
   LTrav TCVisit DstEC; LTrav TCVisit DstRC; LTrav TCNext DstEC; LTrav TCFail DstEC;
   LErr SrcExec DstEC; LErr SrcExec DstRC; LErr SrcFin DstEC; LErr SrcFin DstRC; LErr SrcLoop DstEC; LErr SrcLoop DstRC;
   LRC RCtx; LRC RSeeClosedP; LRC RSeeClosedE; LRC RSendCancel; LEC ECtx; LEC ESeeClosed].
Definition caller_labels : list label := [LCallerRecvP; LCallerRecvE].

Definition enabled (s : st) (l : label) : bool := match step s l with Some _ => true | None => false end.
Definition both_closed (s : st) : bool :=
  match rc s, ec s with RCExit, ECExit => true | _, _ => false end.

(* ====================== trace acceptance (what the driver's observations mean) ======================
   The driver performs one action at a time and then waits until every goroutine of the request
   manager is parked.  The executor is held by the driver at two gates when the case says so:
   before ExecuteTask (XPopped) and inside the block hook (XHooks true _).                         *)
Inductive recvres := RGot | RNothing | RClosed.
Inductive gkind := GPop | GHook | GStore.
Inductive obs :=
| OEnv (l : label)                      (* an environment label performed by the driver *)
| OExecGo (k : gkind) (c : lchoice)     (* the driver releases the gate the executor is parked at; c = what the hook / store read returns *)
| ORecvP (r : recvres)                  (* non-blocking receive on the returned progress channel *)
| ORecvE (r : recvres) (e : err)        (* ... on the returned error channel (e read only for RGot) *)
| OSent (m : outmsg)                    (* the peer handler was handed a message for the responder *)
| OLoaded (c : lchoice)                 (* the local store was written / read (ungated) *)
| OQuiet (held : option gkind) (tbl : option rstate)
| OSettle.                               (* everything parked, but the actor loop is held by the driver inside a response hook:
                                            no refusal is claimed and PeerState cannot be asked; internal steps may have happened *)  (* everything parked; executor at a gate?; PeerState of the request *)

Definition enc_err (e : err) : list N :=
  match e with ErrCC => [0] | ErrStatus n => [1; n] | ErrHook => [2] | ErrMissing => [3] | ErrHard => [4] end%N.
Definition enc_b (b : bool) : N := if b then 1%N else 0%N.
Definition enc_oerr (o : option err) : list N := match o with None => [9%N] | Some e => enc_err e end.
Definition enc_msg (m : msg) : list N :=
  match m with
  | MCancel a => [0; enc_b a]
  | MResp r => [1; match r_status r with SPartial => 0 | SSucc => 1 | SFail n => 2 + n end; N.of_nat (r_items r); enc_b (r_hookerr r)]
  | MGetTask => [2] | MRelease p => [3; enc_b p] | MPause => [4] | MUnpause => [5]
  end%N.
Definition enc (s : st) : list N :=
  (match ent s with
   | None => [0]
   | Some e => [1; match e_state e with Queued => 0 | Running => 1 | Paused => 2 end] ++ enc_oerr (e_terr e)
               ++ [N.of_nat (e_waiters e); enc_b (e_started e)]
   end ++ [77] ++ concat (map enc_msg (mbox s)) ++ [78] ++
   match lpc s with LIdle => [0] | LTermSend e r => [1; enc_b r] ++ enc_err e | LShutdown r => [2; enc_b r] end ++
   [enc_b (tq s)] ++
   match xpc s with
   | XIdle => [0] | XPopped => [1] | XAwaitTask => [2] | XTop b => [3; enc_b b] | XLoad b => [4; enc_b b] | XLocal a b => [5; enc_b a; enc_b b] | XGoOnline a => [12; enc_b a]
   | XSendErr e b => [6; enc_b b] ++ enc_err e | XHooks a b => [7; enc_b a; enc_b b] | XFin w => [8] ++ enc_oerr w
   | XFinSend e => [9] ++ enc_err e | XRelease p => [10; enc_b p] | XAwaitDone => [11]
   end ++
   match trav s with TNone => [0] | TLoader => [1] | TRun v => [2; N.of_nat v] | TDone f => [3; enc_b f] end ++
   [N.of_nat (length (plan s)); N.of_nat (rq s); enc_b (ropen s); enc_b (ptok s); enc_b (rctx s); enc_b (tctx s);
    enc_b (cctx s); enc_b (iclosed s)] ++
   match rc s with RCRun a => [0; enc_b a] | RCDrain a b c => [1; enc_b a; enc_b b; enc_b c] | RCExit => [2] end ++
   [N.of_nat (rbuf s)] ++
   match ec s with ECRun a => [0; enc_b a] | ECSendCC a => [1; enc_b a] | ECExit => [2] end ++
   [79] ++ concat (map enc_err (ebuf s)))%N.
Definition st_eqb (a b : st) : bool := list_eqb N.eqb (enc a) (enc b).

Definition sends (es : list ev) : list outmsg :=
  flat_map (fun e => match e with EvSend m => [m] | _ => [] end) es.
Inductive vis := VSend (m : outmsg) | VLoad (c : lchoice).
Definition visible (es : list ev) : list vis :=
  flat_map (fun e => match e with EvSend m => [VSend m] | EvLoad c => [VLoad c] | _ => [] end) es.
Definition vis_eqb (a b : vis) : bool :=
  match a, b with
  | VSend ONew, VSend ONew | VSend OCancel, VSend OCancel => true
  | VLoad CRemOk, VLoad CRemOk | VLoad CLocOk, VLoad CLocOk | VLoad CLocMiss, VLoad CLocMiss => true
  | _, _ => false
  end.

Definition gate_of (gp gh : bool) (s : st) : option gkind :=      (* gh also gates the local store read *)
  match xpc s with
  | XPopped => if gp then Some GPop else None
  | XHooks true _ => if gh then Some GHook else None
  | XLocal _ _ => if gh then Some GStore else None
  | _ => None
  end.
Definition gated (gp gh : bool) (s : st) : bool := match gate_of gp gh s with Some _ => true | None => false end.
Definition gkind_eqb (a b : gkind) : bool :=
  match a, b with GPop, GPop | GHook, GHook | GStore, GStore => true | _, _ => false end.
(* the acceptor does not explore traversal failures (no budgets, well-formed blocks in the driver) *)
Definition acc_labels : list label :=
  filter (fun l => match l with LTrav TCFail _ => false | _ => true end) internal_labels.
Definition is_exec (l : label) : bool := match l with LExec _ => true | _ => false end.

(* successors of s by one internal label whose sends are exactly [want] *)
Definition succs (gp gh : bool) (want : list vis) (s : st) : list st :=
  flat_map (fun l =>
    if is_exec l && gated gp gh s then []
    else match step s l with
         | Some (s1, es) => if list_eqb vis_eqb (visible es) want
                            then [s1] else []
         | None => []
         end) acc_labels.

Definition key := list N.
Definition key_eqb (a b : key) : bool := list_eqb N.eqb a b.
Fixpoint add_new (seen : list key) (new : list st) : list key * list st :=   (* (seen', really new ones) *)
  match new with
  | [] => (seen, [])
  | x :: r => let k := enc x in
              if existsb (key_eqb k) seen then add_new seen r
              else let (sn, nw) := add_new (k :: seen) r in (sn, x :: nw)
  end.
(* silent closure: all states reachable through internal labels that send nothing *)
Fixpoint closure (fuel : nat) (gp gh : bool) (seen : list key) (acc frontier : list st) : list st :=
  match fuel with
  | O => acc
  | S f =>
      match frontier with
      | [] => acc
      | _ => let (seen', nw) := add_new seen (flat_map (succs gp gh []) frontier) in
             closure f gp gh seen' (nw ++ acc) nw
      end
  end.
Definition close (gp gh : bool) (ss : list st) : list st :=
  let (seen, nw) := add_new [] ss in closure 3000 gp gh seen nw nw.

Definition quiescent (gp gh : bool) (s : st) : bool :=
  forallb (fun l => (is_exec l && gated gp gh s) || negb (enabled s l)) acc_labels.

Definition tbl_of (s : st) : option rstate := match ent s with Some e => Some (e_state e) | None => None end.
Definition rstate_eqb (a b : rstate) : bool :=
  match a, b with Queued, Queued | Running, Running | Paused, Paused => true | _, _ => false end.
Definition err_eqb (a b : err) : bool := list_eqb N.eqb (enc_err a) (enc_err b).

Definition step_states (l : label) (ss : list st) : list st :=
  flat_map (fun s => match step s l with Some (s1, _) => [s1] | None => [] end) ss.

Definition advance (gp gh : bool) (ss : list st) (o : obs) : list st :=
  match o with
  | OEnv l => if is_env l then step_states l ss else []
  | OExecGo k c =>
      flat_map (fun s => if option_eqb gkind_eqb (gate_of gp gh s) (Some k)
                         then match step s (LExec c) with
                              | Some (s1, es) => match visible es with [] => [s1] | [VLoad c'] => if vis_eqb (VLoad c) (VLoad c') then [s1] else [] | _ => [] end
                              | None => [] end
                         else []) ss
  | ORecvP RGot => step_states LCallerRecvP ss
  | ORecvP RNothing => filter (fun s => negb (enabled s LCallerRecvP) && negb (match rc s with RCExit => true | _ => false end)) ss
  | ORecvP RClosed => filter (fun s => match rc s with RCExit => true | _ => false end) ss
  | ORecvE RGot e =>
      flat_map (fun s => match step s LCallerRecvE with
                         | Some (s1, EvDelivE e' :: _) => if err_eqb e e' then [s1] else []
                         | _ => [] end) ss
  | ORecvE RNothing _ => filter (fun s => negb (enabled s LCallerRecvE) && negb (match ec s with ECExit => true | _ => false end)) ss
  | ORecvE RClosed _ => filter (fun s => match ec s with ECExit => true | _ => false end) ss
  | OSent m => flat_map (succs gp gh [VSend m]) (close gp gh ss)
  | OLoaded c => flat_map (succs gp gh [VLoad c]) (close gp gh ss)
  | OSettle => close gp gh ss
  | OQuiet held tbl =>
      filter (fun s => quiescent gp gh s && option_eqb gkind_eqb (gate_of gp gh s) held && option_eqb rstate_eqb (tbl_of s) tbl)
             (close gp gh ss)
  end.

Definition accepts_from (gp gh : bool) (ss : list st) (tr : list obs) : bool :=
  match fold_left (advance gp gh) tr ss with [] => false | _ => true end.
(* index of the first observation after which no model state is left (for diagnosis) *)
Fixpoint reject_at (gp gh : bool) (ss : list st) (tr : list obs) (i : N) : option N :=
  match tr with
  | [] => None
  | o :: r => match advance gp gh ss o with [] => Some i | ss' => reject_at gp gh ss' r (i + 1)%N end
  end.

(* ====================== the C04 monitor on observed traces ====================== *)
(* nothing after close; close observed for both at the end; and the outcome clauses, evaluated from
   what the driver did (its own actions) and saw *)
Record mon_st := { m_pclosed : bool; m_eclosed : bool; m_bad : bool;
                   m_live : bool;            (* last OQuiet showed the request in the table *)
                   m_cancelled_live : bool;  (* caller ctx cancelled while live *)
                   m_cancel_after : bool;    (* an OCancel seen after that *)
                   m_cc : nat;               (* ErrCC deliveries *)
                   m_first : option err;     (* first terminal error the driver's actions determine (while live) *)
                   m_ctx : bool;             (* caller ctx cancelled at all *)
                   m_errs : list err;
                   m_bh : nat;               (* block-hook errors the driver injected (delivered by the executor as ErrHook) *)
                   m_ctxl : bool }.          (* caller ctx cancelled while the request was live and the error channel open *)
Definition mon_step (m : mon_st) (o : obs) : mon_st :=
  match o with
  | OEnv LEnvCtxCancel =>
      Build_mon_st (m_pclosed m) (m_eclosed m) (m_bad m) (m_live m) (m_cancelled_live m || m_live m) (m_cancel_after m)
                   (m_cc m) (m_first m) true (m_errs m) (m_bh m) (m_ctxl m || (m_live m && negb (m_eclosed m)))
  | OEnv LEnvApiCancel =>
      Build_mon_st (m_pclosed m) (m_eclosed m) (m_bad m) (m_live m) (m_cancelled_live m || m_live m) (m_cancel_after m)
                   (m_cc m) (match m_first m with None => if m_live m then Some ErrCC else None | x => x end) (m_ctx m) (m_errs m) (m_bh m) (m_ctxl m)
  | OEnv (LEnvResp r) =>
      let f := match m_first m with
               | None => if m_live m then (if r_hookerr r then Some ErrHook
                                           else match r_status r with SFail n => Some (ErrStatus n) | _ => None end)
                         else None
               | x => x end in
      Build_mon_st (m_pclosed m) (m_eclosed m) (m_bad m) (m_live m) (m_cancelled_live m) (m_cancel_after m) (m_cc m) f (m_ctx m) (m_errs m) (m_bh m) (m_ctxl m)
  | ORecvP RGot => Build_mon_st (m_pclosed m) (m_eclosed m) (m_bad m || m_pclosed m) (m_live m) (m_cancelled_live m) (m_cancel_after m) (m_cc m) (m_first m) (m_ctx m) (m_errs m) (m_bh m) (m_ctxl m)
  | ORecvP RClosed => Build_mon_st true (m_eclosed m) (m_bad m) (m_live m) (m_cancelled_live m) (m_cancel_after m) (m_cc m) (m_first m) (m_ctx m) (m_errs m) (m_bh m) (m_ctxl m)
  | ORecvP RNothing => Build_mon_st (m_pclosed m) (m_eclosed m) (m_bad m || m_pclosed m) (m_live m) (m_cancelled_live m) (m_cancel_after m) (m_cc m) (m_first m) (m_ctx m) (m_errs m) (m_bh m) (m_ctxl m)
  | ORecvE RGot e => Build_mon_st (m_pclosed m) (m_eclosed m) (m_bad m || m_eclosed m) (m_live m) (m_cancelled_live m) (m_cancel_after m)
                       (match e with ErrCC => S (m_cc m) | _ => m_cc m end) (m_first m) (m_ctx m) (m_errs m ++ [e]) (m_bh m) (m_ctxl m)
  | ORecvE RClosed _ => Build_mon_st (m_pclosed m) true (m_bad m) (m_live m) (m_cancelled_live m) (m_cancel_after m) (m_cc m) (m_first m) (m_ctx m) (m_errs m) (m_bh m) (m_ctxl m)
  | ORecvE RNothing _ => Build_mon_st (m_pclosed m) (m_eclosed m) (m_bad m || m_eclosed m) (m_live m) (m_cancelled_live m) (m_cancel_after m) (m_cc m) (m_first m) (m_ctx m) (m_errs m) (m_bh m) (m_ctxl m)
  | OSent OCancel => Build_mon_st (m_pclosed m) (m_eclosed m) (m_bad m) (m_live m) (m_cancelled_live m) (m_cancel_after m || m_cancelled_live m) (m_cc m) (m_first m) (m_ctx m) (m_errs m) (m_bh m) (m_ctxl m)
  | OQuiet _ tbl => Build_mon_st (m_pclosed m) (m_eclosed m) (m_bad m) (match tbl with Some _ => true | None => false end) (m_cancelled_live m) (m_cancel_after m) (m_cc m) (m_first m) (m_ctx m) (m_errs m) (m_bh m) (m_ctxl m)
  | OSettle => (* no PeerState while the loop is held: liveness unknown from here to the next OQuiet *)
      Build_mon_st (m_pclosed m) (m_eclosed m) (m_bad m) false (m_cancelled_live m) (m_cancel_after m) (m_cc m) (m_first m) (m_ctx m) (m_errs m) (m_bh m) (m_ctxl m)
  | OExecGo GHook CHookErr =>
      Build_mon_st (m_pclosed m) (m_eclosed m) (m_bad m) (m_live m) (m_cancelled_live m) (m_cancel_after m) (m_cc m) (m_first m) (m_ctx m) (m_errs m) (S (m_bh m)) (m_ctxl m)
  | _ => m
  end.
Definition is_terminal_class (e : err) : bool :=      (* errors that only terminateRequest / the collector produce *)
  match e with ErrCC | ErrStatus _ => true | _ => false end.
Definition count_err (e : err) (l : list err) : nat := length (filter (err_eqb e) l).
Definition c04_monitor (tr : list obs) : bool :=
  let m := fold_left mon_step tr (Build_mon_st false false false true false false 0 None false [] 0 false) in
  negb (m_bad m) && m_pclosed m && m_eclosed m &&
  (* caller cancelled while live: a cancel went to the responder; context cancel: ClientCancelled delivered *)
  (negb (m_cancelled_live m) || m_cancel_after m) &&
  (negb (m_ctxl m) || negb (Nat.eqb (m_cc m) 0)) &&
  (* without a context cancel: the ClientCancelled / status errors delivered are exactly [the first terminal
     error]; hook errors: the response-hook error once if it is the first terminal error, plus at most one per
     block-hook error the driver injected (those are sent by the executor) *)
  (m_ctx m ||
   let tc := filter is_terminal_class (m_errs m) in
   let nh := count_err ErrHook (m_errs m) in
   match m_first m with
   | Some ErrHook => match tc with [] => true | _ => false end && Nat.leb 1 nh && Nat.leb nh (S (m_bh m))
   | Some e => list_eqb err_eqb tc [e] && Nat.leb nh (m_bh m)
   | None => match tc with [] => true | _ => false end && Nat.leb nh (m_bh m)
   end).

(* ====================== cases ====================== *)
Record rcase := { c_plan : list pentry; c_gp : bool; c_gh : bool; c_trace : list obs }.
Definition rcase_accepts (c : rcase) : bool := accepts_from (c_gp c) (c_gh c) [init (c_plan c)] (c_trace c).
Definition rcase_monitor (c : rcase) : bool := c04_monitor (c_trace c).
