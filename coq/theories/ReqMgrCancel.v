(* ReqMgrCancel.v — history level: what the response collector does after a caller-context cancel (C04 S2). *)
From Coq Require Import List NArith Bool Arith Lia.
From GS Require Import Base ReqMgr ReqMgrProofs ReqMgrCC ReqMgrInv ReqMgrAbs ReqMgrAbsK ReqMgrAbsV ReqMgrInvK.
Import ListNotations.
Open Scope nat_scope.

Definition rc_pending (s : st) : Prop := rc s = RCRun true \/ exists a b, rc s = RCDrain false a b.

Lemma label_dec2 (l : label) : {l = LRC RSendCancel} + {l = LRC RSeeClosedP} + {l <> LRC RSendCancel /\ l <> LRC RSeeClosedP}.
Proof.
  destruct l; try (right; split; discriminate).
  destruct c; [right; split; discriminate | left; right; reflexivity | right; split; discriminate | left; left; reflexivity].
Qed.

Lemma step_pending s l s1 e1 :
  step s l = Some (s1, e1) -> l <> LRC RSendCancel -> l <> LRC RSeeClosedP -> rc_pending s -> rc_pending s1.
Proof.
  unfold step. destruct (step_raw s l) as [[sa ea]|] eqn:R; [|discriminate]. intros H N1 N2 Pn.
  assert (rc_pending sa) as Pa.
  { destruct (is_coll l) eqn:C.
    - unfold rc_pending in *. destruct l; try discriminate C; simpl in R.
      + dm R; inv R; simpl; rw; auto.
      + dm R; inv R; simpl; auto.
      + destruct Pn as [Pn|(a & b & Pn)]; rewrite Pn in R; destruct c; try congruence; dm R; inv R; simpl; eauto.
      + dm R; inv R; simpl; auto.
    - destruct (step_raw_rcec _ _ _ _ R C) as [A _]. unfold rc_pending in *. rewrite A. exact Pn. }
  unfold with_norm, rc_norm, ec_norm in H. unfold rc_pending in *.
  destruct Pa as [Pa|(a & b & Pa)]; rewrite Pa in H; dm H; inv H; try (dm Heqp; inv Heqp); simpl; rewrite ?Pa; eauto.
Qed.

Lemma pending_not_exit s : rc_pending s -> rc s <> RCExit.
Proof. intros [P|(a & b & P)]; rewrite P; discriminate. Qed.

Theorem pending_exit : forall ls s s' es,
  run s ls = Some (s', es) -> rc_pending s -> rc s' = RCExit ->
  In (LRC RSendCancel) ls \/ In (LRC RSeeClosedP) ls.
Proof.
  induction ls as [|l ls IH]; simpl; intros s s' es H Pn X.
  - inv H. exfalso. exact (pending_not_exit _ Pn X).
  - destruct (step s l) as [[s1 e1]|] eqn:S; [|discriminate].
    destruct (run s1 ls) as [[s2 e2]|] eqn:R; [|discriminate]. inv H.
    destruct (label_dec2 l) as [[->| ->]|[N1 N2]]; [left; left; reflexivity | right; left; reflexivity|].
    destruct (IH _ _ _ R (step_pending _ _ _ _ S N1 N2 Pn) X) as [I|I]; [left | right]; right; exact I.
Qed.

(* after the first context cancel of a request that is in the table: before the returned progress channel
   closes, the response collector has either enqueued its cancel message for the actor loop
   (cancelRequestAndClose), or it had already seen the internal progress channel closed (the request
   terminated on its own before the collector reacted to the cancel) *)
Theorem c04_live_ctx_cancel_msg pl ls1 s1 e1 ls2 s2 e2 :
  run (init pl) ls1 = Some (s1, e1) -> ent s1 <> None -> cctx s1 = false ->
  run s1 (LEnvCtxCancel :: ls2) = Some (s2, e2) -> rc s2 = RCExit ->
  In (LRC RSendCancel) ls2 \/ In (LRC RSeeClosedP) ls2.
Proof.
  intros R E C R2 X.
  assert (rc s1 = RCRun true) as RC.
  { assert (iclosed s1 = false) as IC.
    { destruct (iclosed s1) eqn:I; [|reflexivity]. destruct (closed_entry_gone _ _ _ _ R I) as [N _]. contradiction. }
    pose proof (cinv_reach _ _ _ _ R) as CI. unfold cinv in CI. rewrite C, IC in CI.
    destruct (rc s1) as [[|]|[|] [|] [|]|], (ec s1) as [[|]|[|]|]; simpl in CI; try discriminate CI; reflexivity. }
  cbn [run] in R2. destruct (step s1 LEnvCtxCancel) as [[sa ea]|] eqn:S; [|discriminate R2].
  destruct (run sa ls2) as [[sb eb]|] eqn:Rb; [|discriminate R2]. inv R2.
  eapply pending_exit; [exact Rb | | exact X].
  apply (step_pending s1 LEnvCtxCancel sa ea S); [intro Q; discriminate Q | intro Q; discriminate Q | left; exact RC].
Qed.

(* the collector enqueues its cancel message at most once *)
Definition rc_unsent (s : st) : nat := match rc s with RCRun _ | RCDrain false _ _ => 1 | _ => 0 end.
Fixpoint count_send (ls : list label) : nat :=
  match ls with [] => 0 | LRC RSendCancel :: r => S (count_send r) | _ :: r => count_send r end.

Lemma step_unsent s l s1 e1 :
  step s l = Some (s1, e1) -> (match l with LRC RSendCancel => 1 | _ => 0 end) + rc_unsent s1 <= rc_unsent s.
Proof.
  unfold step. destruct (step_raw s l) as [[sa ea]|] eqn:R; [|discriminate]. intro H.
  assert ((match l with LRC RSendCancel => 1 | _ => 0 end) + rc_unsent sa <= rc_unsent s) as A.
  { unfold rc_unsent. destruct (is_coll l) eqn:C.
    - destruct l; try discriminate C; simpl in R; dm R; inv R; simpl; rw; simpl; try lia;
        repeat match goal with b : bool |- _ => destruct b end; simpl; lia.
    - destruct (step_raw_rcec _ _ _ _ R C) as [A _]. rewrite A. destruct l; try discriminate C; try lia. }
  assert (rc_unsent s1 <= rc_unsent sa) as B.
  { unfold with_norm, rc_norm, ec_norm in H. unfold rc_unsent. dm H; inv H; try (dm Heqp; inv Heqp); try (dm Heqp0; inv Heqp0); simpl; rw; simpl; try lia. }
  lia.
Qed.

Theorem collector_cancel_once : forall ls s s' es, run s ls = Some (s', es) -> count_send ls + rc_unsent s' <= rc_unsent s.
Proof.
  induction ls as [|l ls IH]; simpl; intros s s' es H.
  - inv H. lia.
  - destruct (step s l) as [[s1 e1]|] eqn:S; [|discriminate].
    destruct (run s1 ls) as [[s2 e2]|] eqn:R; [|discriminate]. inv H.
    pose proof (step_unsent _ _ _ _ S) as A. pose proof (IH _ _ _ R) as B.
    destruct l; try lia. destruct c; lia.
Qed.
