(* StallForever.v — C25: once the loop waits for memory of a stalled peer whose waiting head does not fit
   its allowance, NOTHING that can still happen ends the wait: every label sequence from such a state
   leaves the loop at the same waiting pc and every message that was in the mailbox stays there. *)
From Coq Require Import List NArith Bool Lia.
From GS Require Import Base Alloc AllocProofs Stall StallProofs.
Import ListNotations.
Open Scope N_scope.

(* the peer's waiting head does not fit the peer's own limit: no release by anybody else helps *)
Definition PStuck (a : Alloc.st) (p : peer) : Prop :=
  exists ps h rest, lookup p (peers a) = Some ps /\ ps_pend ps = h :: rest /\
                    fits (ps_alloc ps) (p_amt h) (max_peer a) = false.

Lemma pp_frame p ps : forall fuel s acc s' acc' ok,
  NoDup (keys (peers s)) -> lookup p (peers s) = Some ps ->
  (exists h rest, ps_pend ps = h :: rest /\ fits (ps_alloc ps) (p_amt h) (max_peer s) = false) ->
  process_pending fuel s acc = (s', acc', ok) ->
  lookup p (peers s') = Some ps /\ max_peer s' = max_peer s /\ NoDup (keys (peers s')).
Proof.
  induction fuel as [|f IH]; intros s acc s' acc' ok Hn Hl Hs; simpl.
  - intro H; inversion H; subst. auto.
  - destruct (min_peer (max_peer s) (peers s)) as [[q qs]|] eqn:Em.
    2:{ intro H; inversion H; subst. auto. }
    pose proof (in_lookup _ _ _ Hn (min_peer_in _ _ _ Em)) as Hq.
    destruct (N.eq_dec q p) as [->|Hne].
    + rewrite Hl in Hq. inversion Hq; subst qs. destruct Hs as (h & rest & Ep & Ef). rewrite Ep.
      destruct (negb (fits (total s) (p_amt h) (max_total s))); [intro H; inversion H; subst; auto|].
      rewrite Ef. simpl. intro H; inversion H; subst; auto.
    + destruct (ps_pend qs) as [|h' rest'].
      * destruct (0 <? ps_alloc qs); [intro H; inversion H; subst; auto|].
        intro H. apply IH in H; simpl; auto.
        -- now apply nodup_remove.
        -- now rewrite lookup_remove_neq.
      * destruct (negb (fits (total s) (p_amt h') (max_total s))); [intro H; inversion H; subst; auto|].
        destruct (negb (fits (ps_alloc qs) (p_amt h') (max_peer s))); [intro H; inversion H; subst; auto|].
        intro H. apply IH in H; simpl; auto.
        -- now apply nodup_set.
        -- now rewrite lookup_set_neq.
Qed.

Definition frame_ok (p : peer) (o : Alloc.op) : Prop :=
  match o with OAlloc _ _ => True | ORelease q _ => q <> p | OReleasePeer q => q <> p end.

Lemma existsb_app_l {A} (f : A -> bool) l l' : existsb f l = true -> existsb f (l ++ l') = true.
Proof. intro H. rewrite existsb_app, H. reflexivity. Qed.

Lemma alloc_step_frame a p o : NoDup (keys (peers a)) -> PStuck a p -> frame_ok p o ->
  let a' := fst (fst (fst (Alloc.step a o))) in
  PStuck a' p /\ NoDup (keys (peers a')) /\
  (forall t, tkt_pending a p t = true -> tkt_pending a' p t = true) /\
  (forall n, o = OAlloc p n -> tkt_pending a' p (next_tkt a) = true /\ snd (fst (fst (Alloc.step a o))) = []).
Proof.
  intros Hn (ps & h & rest & Hl & Hp & Hf) Hok.
  assert (Keep : forall a', lookup p (peers a') = Some ps -> max_peer a' = max_peer a -> NoDup (keys (peers a')) ->
            PStuck a' p /\ NoDup (keys (peers a')) /\
            (forall t, tkt_pending a p t = true -> tkt_pending a' p t = true)).
  { intros a' Hl' Hm' Hn'. split; [|split; [exact Hn'|]].
    - exists ps, h, rest. rewrite Hm'. auto.
    - intros t. unfold tkt_pending, pending_of. now rewrite Hl, Hl'. }
  destruct o as [q n|q n|q]; simpl in Hok |- *.
  - (* OAlloc *)
    destruct (N.eq_dec q p) as [->|Hne].
    + rewrite Hl, Hp. simpl.
      set (nw := {| p_amt := n; p_idx := next_idx a; p_tkt := next_tkt a |}).
      set (ps' := {| ps_alloc := ps_alloc ps; ps_pend := h :: rest ++ [nw] |}).
      assert (L : lookup p (peers (bump_tkt a (next_idx a + 1) (total a) (set p ps' (peers a)))) = Some ps')
        by (simpl; apply lookup_set_eq).
      split; [|split; [|split]].
      * exists ps', h, (rest ++ [nw]). split; [exact L|]. split; [reflexivity|]. simpl. exact Hf.
      * now apply nodup_set.
      * intros t. unfold tkt_pending, pending_of. rewrite L, Hl, Hp. simpl. intro H.
        apply orb_true_iff in H as [H|H]; apply orb_true_iff; [left; exact H|].
        right. rewrite existsb_app, H. reflexivity.
      * intros n' _. split; [|reflexivity]. unfold tkt_pending, pending_of. rewrite L. simpl.
        rewrite existsb_app. simpl. rewrite N.eqb_refl. rewrite !orb_true_r. reflexivity.
    + assert (E : forall v tot ni nt, let a' := {| max_total := max_total a; max_peer := max_peer a; total := tot; next_idx := ni;
                      next_tkt := nt; peers := set q v (peers a) |} in
                  PStuck a' p /\ NoDup (keys (peers a')) /\ (forall t, tkt_pending a p t = true -> tkt_pending a' p t = true)).
      { intros v tot ni nt. apply Keep; simpl; [now rewrite lookup_set_neq | reflexivity | now apply nodup_set]. }
      destruct (match lookup q (peers a) with Some x => x | None => {| ps_alloc := 0; ps_pend := [] |} end) as [qa qp].
      simpl. destruct qp as [|hq rq].
      * destruct (fits (total a) n (max_total a) && fits qa n (max_peer a)); simpl;
          (destruct (E {| ps_alloc := _; ps_pend := _ |} _ _ _) as (A & B & C) || idtac);
          unfold bump_tkt; simpl.
        -- destruct (E {| ps_alloc := qa + n; ps_pend := [] |} (total a + n) (next_idx a) (next_tkt a + 1)) as (A & B & C).
           split; [exact A|]. split; [exact B|]. split; [exact C|]. intros n' En. inversion En; subst. congruence.
        -- destruct (E {| ps_alloc := qa; ps_pend := [{| p_amt := n; p_idx := next_idx a; p_tkt := next_tkt a |}] |}
                        (total a) (next_idx a + 1) (next_tkt a + 1)) as (A & B & C).
           split; [exact A|]. split; [exact B|]. split; [exact C|]. intros n' En. inversion En; subst. congruence.
      * unfold bump_tkt; simpl.
        destruct (E {| ps_alloc := qa; ps_pend := (hq :: rq) ++ [{| p_amt := n; p_idx := next_idx a; p_tkt := next_tkt a |}] |}
                    (total a) (next_idx a + 1) (next_tkt a + 1)) as (A & B & C).
        split; [exact A|]. split; [exact B|]. split; [exact C|]. intros n' En. inversion En; subst. congruence.
  - (* ORelease q n, q <> p *)
    destruct (lookup q (peers a)) as [qs|] eqn:Eq; simpl.
    + match goal with |- context [run_pending ?x []] => set (s1 := x) end.
      unfold run_pending. destruct (process_pending (pp_fuel s1) s1 []) as [[s2 outs] ok] eqn:Epp. simpl.
      assert (Hn1 : NoDup (keys (peers s1))) by (subst s1; simpl; now apply nodup_set).
      assert (Hl1 : lookup p (peers s1) = Some ps) by (subst s1; simpl; now rewrite lookup_set_neq).
      destruct (pp_frame p ps _ _ _ _ _ _ Hn1 Hl1 (ex_intro _ h (ex_intro _ rest (conj Hp Hf))) Epp) as (A & B & C).
      destruct (Keep s2 A B C) as (K1 & K2 & K3). split; [exact K1|]. split; [exact K2|]. split; [exact K3|].
      intros n' En. discriminate.
    + destruct (Keep a Hl eq_refl Hn) as (K1 & K2 & K3). split; [exact K1|]. split; [exact K2|]. split; [exact K3|].
      intros n' En. discriminate.
  - (* OReleasePeer q, q <> p *)
    destruct (lookup q (peers a)) as [qs|] eqn:Eq; simpl.
    + match goal with |- context [run_pending ?x ?f] => set (s1 := x); set (fl := f) end.
      unfold run_pending. destruct (process_pending (pp_fuel s1) s1 fl) as [[s2 outs] ok] eqn:Epp. simpl.
      assert (Hn1 : NoDup (keys (peers s1))) by (subst s1; simpl; now apply nodup_remove).
      assert (Hl1 : lookup p (peers s1) = Some ps) by (subst s1; simpl; now rewrite lookup_remove_neq).
      destruct (pp_frame p ps _ _ _ _ _ _ Hn1 Hl1 (ex_intro _ h (ex_intro _ rest (conj Hp Hf))) Epp) as (A & B & C).
      destruct (Keep s2 A B C) as (K1 & K2 & K3). split; [exact K1|]. split; [exact K2|]. split; [exact K3|].
      intros n' En. discriminate.
    + destruct (Keep a Hl eq_refl Hn) as (K1 & K2 & K3). split; [exact K1|]. split; [exact K2|]. split; [exact K3|].
      intros n' En. discriminate.
Qed.

(* ---------- lifted to the LTS ---------- *)
Definition AF (p : peer) (a a' : Alloc.st) : Prop :=
  PStuck a' p /\ NoDup (keys (peers a')) /\ (forall t, tkt_pending a p t = true -> tkt_pending a' p t = true).

Lemma AF_refl p a : PStuck a p -> NoDup (keys (peers a)) -> AF p a a.
Proof. intros; repeat split; auto. Qed.
Lemma AF_trans p a b c : AF p a b -> AF p b c -> AF p a c.
Proof. intros (A1 & A2 & A3) (B1 & B2 & B3). repeat split; auto. Qed.

Lemma reserve_frame a q n p a' r : NoDup (keys (peers a)) -> PStuck a p -> reserve a q n = (a', r) ->
  AF p a a' /\ (q = p -> 0 < n -> exists t, r = Some t /\ tkt_pending a' p t = true).
Proof.
  intros Hn Hs. unfold reserve. destruct (N.eqb_spec n 0) as [->|Hne].
  - intro H; inversion H; subst. split; [now apply AF_refl | lia].
  - pose proof (alloc_step_frame a p (OAlloc q n) Hn Hs I) as F.
    destruct (Alloc.step a (OAlloc q n)) as [[[a1 outs] e1] ok1]. simpl in F.
    destruct F as (F1 & F2 & F3 & F4).
    destruct outs as [|o outs]; intro H; inversion H; subst; (split; [repeat split; auto|]).
    + intros -> _. destruct (F4 n eq_refl) as [T _]. eauto.
    + intros -> _. destruct (F4 n eq_refl) as [_ T]. discriminate.
Qed.

Lemma build_frame s q n added ents p : NoDup (keys (peers (al s))) -> PStuck (al s) p ->
  (q <> p \/ (added <? n) = false) -> AF p (al s) (al (build s q n added ents)).
Proof.
  intros Hn Hs Hq. unfold build. destruct (added <? n) eqn:E.
  - destruct Hq as [Hq|Hq]; [|discriminate].
    pose proof (alloc_step_frame (al s) p (ORelease q (n - added)) Hn Hs Hq) as F. simpl al at 1.
    change (al (set_queues s (aput q (match aget q (queues s) with Some l => l | None => [] end ++ ents) (queues s)))) with (al s).
    destruct (Alloc.step (al s) (ORelease q (n - added))) as [[[a1 outs] e1] ok1]. simpl in F |- *.
    destruct F as (F1 & F2 & F3 & _). repeat split; auto.
  - simpl. now apply AF_refl.
Qed.

Definition Stuck (c : cfg) (p : peer) (s : state) : Prop :=
  is_stalled c p = true /\ NoDup (keys (peers (al s))) /\ PStuck (al s) p /\
  (exists t n st ents k rest, loop s = LWait p t n st ents k rest /\ tkt_pending (al s) p t = true) /\
  (forall w r t n a e nx, In (w, WWait p r t n a e nx) (workers s) -> tkt_pending (al s) p t = true).

Definition wait_ok (p : peer) (a : Alloc.st) (pc : wpc) : Prop :=
  match pc with WWait q _ t _ _ _ _ => q = p -> tkt_pending a p t = true | _ => True end.

Lemma in_aput {V} w (pc : V) ws x : In x (aput w pc ws) -> x = (w, pc) \/ In x ws.
Proof.
  induction ws as [|[k v] ws IH]; simpl.
  - intros [H|[]]; auto.
  - destruct (N.eqb w k) eqn:E; simpl.
    + apply N.eqb_eq in E. subst. intros [H|H]; auto.
    + intros [H|H]; auto. destruct (IH H); auto.
Qed.

Lemma stuck_transfer c p s s' :
  Stuck c p s -> AF p (al s) (al s') -> loop s' = loop s ->
  (forall w pc, In (w, pc) (workers s') -> In (w, pc) (workers s) \/ wait_ok p (al s') pc) ->
  Stuck c p s'.
Proof.
  intros (S1 & S2 & S3 & (t & n & st & ents & k & rest & El & Et) & S5) (A1 & A2 & A3) Hl Hw.
  split; [exact S1|]. split; [exact A2|]. split; [exact A1|]. split.
  - exists t, n, st, ents, k, rest. rewrite Hl. auto.
  - intros w r t' n' a e nx Hin. destruct (Hw _ _ Hin) as [H|H].
    + apply A3. eapply S5; eauto.
    + simpl in H. now apply H.
Qed.

Lemma after_tx_stuck c p s0 s w q r nx :
  Stuck c p s0 -> AF p (al s0) (al s) -> loop s = loop s0 ->
  (forall w' pc, In (w', pc) (workers s) -> In (w', pc) (workers s0) \/ wait_ok p (al s) pc) ->
  Stuck c p (after_tx s w q r nx).
Proof.
  intros HS HA Hl Hw. eapply stuck_transfer; eauto.
  - destruct nx; exact HA.
  - destruct nx; exact Hl.
  - intros w' pc Hin. destruct nx; simpl in Hin; apply in_aput in Hin as [E|Hin];
      try (inversion E; subst; right; exact I); now apply Hw.
Qed.

Lemma worker_tx_stuck c p s0 s w q r n added ents nx :
  Stuck c p s0 -> al s = al s0 -> loop s = loop s0 -> workers s = workers s0 ->
  (q = p -> n = 0 -> added = 0) ->
  Stuck c p (worker_tx s w q r n added ents nx).
Proof.
  intros HS Ea El Ew Hz. pose proof HS as (S1 & S2 & S3 & _ & _).
  unfold worker_tx. destruct (reserve (al s) q n) as [a' [t|]] eqn:Er; rewrite Ea in Er;
    destruct (reserve_frame _ _ _ p _ _ S2 S3 Er) as (FA & Fp).
  - eapply stuck_transfer; eauto.
    intros w' pc Hin. simpl in Hin. apply in_aput in Hin as [E|Hin].
    + inversion E; subst. right. simpl. intros ->.
      destruct (N.eq_dec n 0) as [->|Hn0].
      * unfold reserve in Er. simpl in Er. discriminate.
      * destruct (Fp eq_refl ltac:(lia)) as (t' & Et & Hp). inversion Et; subst. exact Hp.
    + left. now rewrite <- Ew.
  - destruct FA as (F1 & F2 & F3).
    assert (Hq : q <> p \/ (added <? n) = false).
    { destruct (N.eq_dec q p) as [->|Hne]; [|now left]. right.
      destruct (N.eq_dec n 0) as [->|Hn0].
      - rewrite (Hz eq_refl eq_refl). reflexivity.
      - destruct (Fp eq_refl ltac:(lia)) as (t' & Et & _). discriminate. }
    pose proof (build_frame (set_al s a') q n added ents p F2 F1 Hq) as FB.
    eapply after_tx_stuck; eauto.
    + eapply AF_trans; [|exact FB]. repeat split; auto.
    + rewrite build_loop. exact El.
    + intros w' pc Hin. rewrite build_workers in Hin. simpl in Hin. left. now rewrite <- Ew.
Qed.

Lemma finish_worker_stuck c p s0 s w q r :
  Stuck c p s0 -> AF p (al s0) (al s) -> loop s = loop s0 -> workers s = workers s0 ->
  Stuck c p (finish_worker s w q r).
Proof.
  intros HS HA El Ew. eapply stuck_transfer; eauto.
  intros w' pc Hin. simpl in Hin. apply in_aput in Hin as [E|Hin].
  - inversion E; subst. right. exact I.
  - left. now rewrite <- Ew.
Qed.

Lemma build_zero_al s q ents : al (build s q 0 0 ents) = al s.
Proof. reflexivity. Qed.

(* every label that is enabled in a stuck state leads to a stuck state, and the mailbox only grows at its end *)
Lemma step_stuck c p s l s' : Stuck c p s -> step c s l = Some s' ->
  Stuck c p s' /\ exists extra, mailbox s' = mailbox s ++ extra.
Proof.
  intros HS H. pose proof HS as (S1 & S2 & S3 & (t & n & st & ents & k & rest & El & Et) & S5).
  assert (Hl : l <> Loop_Step /\ l <> Loop_Unblock).
  { split; intros ->; simpl in H; rewrite El in H; [discriminate|]. rewrite Et in H. discriminate. }
  destruct Hl as [H1 H2]. destruct (other_step_frame _ _ _ _ H H1 H2) as (Hloop & extra & Hm & _).
  split; [|eauto]. clear extra Hm.
  destruct l as [m| | |w i|w|w|q|pt]; try congruence; unfold step in H.
  - destruct (forallb env_item m); [|discriminate]. inversion H; subst.
    apply (stuck_transfer c p s); [exact HS | now apply AF_refl | reflexivity | intros; now left].
  - destruct (aget w (workers s)) as [[|p0 r0|p0 r0|p0 r0 t0 n0 a0 e0 x0|p0 r0]|]; try discriminate.
    destruct (nth_error (tq s) i) as [[p1 r]|]; [|discriminate].
    destruct (_ || _); [|discriminate]. inversion H; subst.
    apply (stuck_transfer c p s); [exact HS | now apply AF_refl | reflexivity |].
    intros w' pc Hin. simpl in Hin. apply in_aput in Hin as [E|Hin]; [inversion E; subst; right; exact I | now left].
  - unfold worker_step in H.
    destruct (aget w (workers s)) as [[|p0 r0|q r|p0 r0 t0 n0 a0 e0 x0|p0 r0]|]; try discriminate.
    assert (Fin0 : Stuck c p (finish_worker s w q r)).
    { apply (finish_worker_stuck c p s s); [exact HS | now apply AF_refl | reflexivity | reflexivity]. }
    assert (Fin1 : forall en, Stuck c p (finish_worker (build s q 0 0 en) w q r)).
    { intro en. apply (finish_worker_stuck c p s (build s q 0 0 en));
        [exact HS | rewrite build_zero_al; now apply AF_refl | apply build_loop | apply build_workers]. }
    assert (Tx : forall e pl b x en nx, Stuck c p (worker_tx (put_entry s r (with_plan e pl)) w q r (b + x) b en nx)).
    { intros e pl b x en nx. apply (worker_tx_stuck c p s (put_entry s r (with_plan e pl)));
        [exact HS | reflexivity | reflexivity | reflexivity | intros _ Hz; lia]. }
    destruct (aget r (table s)) as [e|]; [|inversion H; subst; exact Fin0].
    destruct (e_sig e) eqn:Es.
    + destruct (e_plan e) as [|[b x] pl]; inversion H; subst; [apply Fin1 | apply Tx].
    + destruct (e_plan e) as [|[b x] pl]; inversion H; subst; [apply Fin1 | apply Tx].
    + inversion H; subst. apply Fin1.
    + inversion H; subst. exact Fin0.
  - destruct (aget w (workers s)) as [[|p0 r0|p0 r0|q r t' n' a e nx|p0 r0]|] eqn:Ew; try discriminate.
    destruct (tkt_pending (al s) q t') eqn:Ep; [discriminate|]. inversion H; subst.
    assert (Hq : q <> p).
    { intros ->. rewrite (S5 _ _ _ _ _ _ _ (aget_in _ _ _ Ew)) in Ep. discriminate. }
    apply (after_tx_stuck c p s (build s q n' a e)); [exact HS | apply build_frame; auto | apply build_loop |].
    intros w' pc Hin. rewrite build_workers in Hin. now left.
  - destruct (is_stalled c q) eqn:Eq; [discriminate|].
    assert (Hq : q <> p) by (intros ->; congruence).
    destruct (aget q (queues s)) as [[|e l]|]; try discriminate.
    destruct (N.eqb (block_bytes (e :: l)) 0).
    + inversion H; subst.
      apply (stuck_transfer c p s); [exact HS | now apply AF_refl | reflexivity | intros; now left].
    + pose proof (alloc_step_frame (al s) p (ORelease q (block_bytes (e :: l))) S2 S3 Hq) as F.
      change (al (set_sent (set_queues s (aput q [] (queues s))) (sent s ++ map (fun x => (q, x)) (e :: l)))) with (al s) in H.
      destruct (Alloc.step (al s) (ORelease q (block_bytes (e :: l)))) as [[[a1 outs] e1] ok1]. simpl in F.
      destruct F as (F1 & F2 & F3 & _). inversion H; subst.
      apply (stuck_transfer c p s); [exact HS | repeat split; auto | reflexivity | intros; now left].
  - inversion H; subst.
    apply (stuck_transfer c p s'); [exact HS | now apply AF_refl | reflexivity | intros; now left].
Qed.

(* the statement: from a stuck state, whatever happens (any messages arriving, any executor, any other
   peer's queue), the loop is still waiting for the stalled peer and every message that was waiting still is *)
Theorem c25_stuck_forever c p s tr s' : Stuck c p s -> steps c s tr s' ->
  loop_waits_on s' = Some p /\ exists extra, mailbox s' = mailbox s ++ extra.
Proof.
  intros HS H. revert HS. induction H as [s|s l s1 tr s2 E H IH]; intro HS.
  - split.
    + destruct HS as (_ & _ & _ & (t & n & st & ents & k & rest & El & _) & _). unfold loop_waits_on. now rewrite El.
    + exists []. now rewrite app_nil_r.
  - destruct (step_stuck _ _ _ _ _ HS E) as (HS1 & ex1 & Em1).
    destruct (IH HS1) as (A & ex2 & Em2). split; [exact A|].
    exists (ex1 ++ ex2). rewrite Em2, Em1, <- app_assoc. reflexivity.
Qed.

(* ---------- executable form of [Stuck], to discharge it on the witnesses ---------- *)
Definition pstuck_check (a : Alloc.st) (p : peer) : bool :=
  match lookup p (peers a) with
  | Some ps => match ps_pend ps with
               | h :: _ => negb (fits (ps_alloc ps) (p_amt h) (max_peer a))
               | [] => false
               end
  | None => false
  end.

Definition stuck_check (c : cfg) (p : peer) (s : state) : bool :=
  is_stalled c p && nodupb (keys (peers (al s))) && pstuck_check (al s) p &&
  match loop s with LWait q t _ _ _ _ _ => N.eqb q p && tkt_pending (al s) p t | _ => false end &&
  forallb (fun x => match snd x with
                    | WWait q _ t _ _ _ _ => negb (N.eqb q p) || tkt_pending (al s) p t
                    | _ => true
                    end) (workers s).

Lemma nodupb_sound l : nodupb l = true -> NoDup l.
Proof.
  induction l as [|x l IH]; simpl; intro H; [constructor|].
  apply andb_true_iff in H as [H1 H2]. constructor; [|now apply IH].
  intro Hin. apply negb_true_iff in H1. rewrite <- not_true_iff_false in H1. apply H1.
  apply existsb_exists. exists x. split; [exact Hin | apply N.eqb_refl].
Qed.

Lemma stuck_check_sound c p s : stuck_check c p s = true -> Stuck c p s.
Proof.
  unfold stuck_check. intro H.
  apply andb_true_iff in H as [H H5]. apply andb_true_iff in H as [H H4].
  apply andb_true_iff in H as [H H3]. apply andb_true_iff in H as [H1 H2].
  split; [exact H1|]. split; [now apply nodupb_sound|]. split; [|split].
  - unfold pstuck_check in H3. destruct (lookup p (peers (al s))) as [ps|] eqn:El; [|discriminate].
    destruct (ps_pend ps) as [|h rest] eqn:Ep; [discriminate|].
    exists ps, h, rest. split; [exact El|]. split; [exact Ep|]. now apply negb_true_iff in H3.
  - destruct (loop s) as [| |q t n st ents k rest]; try discriminate.
    apply andb_true_iff in H4 as [Eq Ht]. apply N.eqb_eq in Eq. rewrite Eq.
    exists t, n, st, ents, k, rest. auto.
  - rewrite forallb_forall in H5. intros w r t n a e nx Hin. specialize (H5 _ Hin). simpl in H5.
    rewrite N.eqb_refl in H5. exact H5.
Qed.

Lemma c25_site_witness_stuck ms st :
  (let s := fst (run_msgs case_fuel wit_cfg (init wit_cfg) ms) in
   site_check wit_cfg s st && stuck_check wit_cfg 1 s) = true ->
  exists tr s, steps wit_cfg (init wit_cfg) tr s /\ loop_blocks_other wit_cfg s 1 2 st /\
    forall tr' s', steps wit_cfg s tr' s' ->
      loop_waits_on s' = Some 1 /\ exists extra, mailbox s' = mailbox s ++ extra.
Proof.
  intro H. cbv zeta in H. apply andb_true_iff in H as [H1 H2].
  apply (witness_reached (fun s => loop_blocks_other wit_cfg s 1 2 st /\
            forall tr' s', steps wit_cfg s tr' s' ->
              loop_waits_on s' = Some 1 /\ exists extra, mailbox s' = mailbox s ++ extra) ms).
  split; [now apply site_check_sound|].
  intros tr' s' Hs. eapply c25_stuck_forever; [apply stuck_check_sound; exact H2 | exact Hs].
Qed.

Lemma c25_forever_newreq : exists tr s, steps wit_cfg (init wit_cfg) tr s /\ loop_blocks_other wit_cfg s 1 2 SNewReq /\
  forall tr' s', steps wit_cfg s tr' s' -> loop_waits_on s' = Some 1 /\ exists extra, mailbox s' = mailbox s ++ extra.
Proof. apply (c25_site_witness_stuck wit_newreq). vm_compute. reflexivity. Qed.
Lemma c25_forever_update : exists tr s, steps wit_cfg (init wit_cfg) tr s /\ loop_blocks_other wit_cfg s 1 2 SUpdatePaused /\
  forall tr' s', steps wit_cfg s tr' s' -> loop_waits_on s' = Some 1 /\ exists extra, mailbox s' = mailbox s ++ extra.
Proof. apply (c25_site_witness_stuck wit_update). vm_compute. reflexivity. Qed.
Lemma c25_forever_unpause : exists tr s, steps wit_cfg (init wit_cfg) tr s /\ loop_blocks_other wit_cfg s 1 2 SUnpause /\
  forall tr' s', steps wit_cfg s tr' s' -> loop_waits_on s' = Some 1 /\ exists extra, mailbox s' = mailbox s ++ extra.
Proof. apply (c25_site_witness_stuck wit_unpause). vm_compute. reflexivity. Qed.
Lemma c25_forever_apiupdate : exists tr s, steps wit_cfg (init wit_cfg) tr s /\ loop_blocks_other wit_cfg s 1 2 SApiUpdate /\
  forall tr' s', steps wit_cfg s tr' s' -> loop_waits_on s' = Some 1 /\ exists extra, mailbox s' = mailbox s ++ extra.
Proof. apply (c25_site_witness_stuck wit_apiupdate). vm_compute. reflexivity. Qed.
