(* ReqMgrMsgMonitor.v — the executable C09 monitor [rcase_mon] accepts every history of the model.

   A model history is written in the driver's observation format by [model_obs]: after every label the
   events the driver can see and the table as an update list (delete every id seen before, set every
   entry present now).  The theorem: for every hook oracle and every label sequence, with the clean run
   = the same labels with the responses whose sender is not the request's owner (per a map [om] that
   agrees with the sequence's LNew labels, as the driver computes it) removed from every message,
   [rcase_mon] is true:
     (1) frame at every message, (2) every hook call is for a request of the calling peer,
     (3) the clean run's observations are identical.
   Ingredients: key uniqueness of the table ([tab_nd]), reflexivity of the executable equalities,
   reconstruction of the table from the update list, where hook events come from ([hook_origin]),
   and ownership stability ([own_inv]). *)
From Coq Require Import List NArith Bool Lia.
From GS Require Import Base ReqMgrMsg ReqMgrMsgProofs.
Import ListNotations.
Open Scope N_scope.

(* ---------- reflexivity of the executable equalities ---------- *)
Lemma list_eqb_refl {A} (eqb : A -> A -> bool) : (forall x, eqb x x = true) -> forall l, list_eqb eqb l l = true.
Proof. intros H l. induction l as [|x l IH]; simpl; [reflexivity|]. now rewrite H, IH. Qed.
Lemma option_eqb_refl {A} (eqb : A -> A -> bool) : (forall x, eqb x x = true) -> forall o, option_eqb eqb o o = true.
Proof. intros H [x|]; simpl; auto. Qed.
Lemma pair_eqb_refl x : pair_eqb x x = true.
Proof. unfold pair_eqb. now rewrite !N.eqb_refl. Qed.
Lemma resp_eqb_refl x : resp_eqb x x = true.
Proof. unfold resp_eqb. rewrite !N.eqb_refl, (list_eqb_refl _ pair_eqb_refl), (list_eqb_refl _ N.eqb_refl). reflexivity. Qed.
Lemma qitem_eqb_refl x : qitem_eqb x x = true.
Proof. unfold qitem_eqb. now rewrite !N.eqb_refl, (option_eqb_refl _ N.eqb_refl). Qed.
Lemma loader_eqb_refl x : loader_eqb x x = true.
Proof. unfold loader_eqb. now rewrite Bool.eqb_reflx, (list_eqb_refl _ qitem_eqb_refl). Qed.
Lemma entry_eqb_refl x : entry_eqb x x = true.
Proof.
  unfold entry_eqb. rewrite N.eqb_refl, (option_eqb_refl _ N.eqb_refl), Bool.eqb_reflx, resp_eqb_refl,
    (option_eqb_refl _ loader_eqb_refl). now destruct (e_state x).
Qed.
Lemma skind_eqb_refl x : skind_eqb x x = true.
Proof. destruct x; simpl; auto. apply (list_eqb_refl _ N.eqb_refl). Qed.
Lemma event_eqb_refl x : event_eqb x x = true.
Proof.
  destruct x; simpl; rewrite ?N.eqb_refl, ?resp_eqb_refl, ?skind_eqb_refl, ?(option_eqb_refl _ N.eqb_refl); reflexivity.
Qed.
Lemma upd_eqb_refl x : upd_eqb x x = true.
Proof. unfold upd_eqb. now rewrite N.eqb_refl, (option_eqb_refl _ entry_eqb_refl). Qed.
Lemma sobs_eqb_refl x : sobs_eqb x x = true.
Proof. unfold sobs_eqb. now rewrite (list_eqb_refl _ event_eqb_refl), (list_eqb_refl _ upd_eqb_refl). Qed.

(* ---------- key uniqueness of the table ---------- *)
Definition tab_nd (t : tab) : Prop := NoDup (map fst t).

Lemma tset_nd k oe t : tab_nd t -> tab_nd (tset k oe t).
Proof. unfold tab_nd. destruct oe; simpl; [apply nodup_aput | apply nodup_adel]. Qed.

Lemma for_each_nd f : forall rs s, tab_nd (rm_tab s) -> tab_nd (rm_tab (fe_st (for_each f s rs))).
Proof.
  induction rs as [|x rest IH]; intros s H; [exact H|].
  cbn [for_each].
  set (res := f x (aget (r_id x) (rm_tab s))).
  set (s1 := mk_rm (tset (r_id x) (lr_entry res) (rm_tab s)) (rm_nilderef s || lr_nil res)).
  assert (H1 : tab_nd (rm_tab s1)) by (unfold s1; cbn [rm_tab]; now apply tset_nd).
  specialize (IH s1 H1).
  destruct (for_each f s1 rest) as [[s2 ev2] kept]. exact IH.
Qed.

Section Mon.
  Variable hook : peer -> resp -> hres.

  Lemma process_nd s m : tab_nd (rm_tab s) -> tab_nd (rm_tab (fst (process_responses hook s m))).
  Proof.
    intro H. unfold process_responses.
    pose proof (for_each_nd (ext_l hook (m_from m)) (filter_for_peer s (m_from m) (m_resps m)) s H) as H1.
    destruct (for_each (ext_l hook (m_from m)) s _) as [[s1 ev1] rs1]. unfold fe_st in H1; cbn [fst] in H1.
    pose proof (for_each_nd last_l (filter_for_peer s1 (m_from m) rs1) s1 H1) as H2.
    destruct (for_each last_l s1 _) as [[s2 ev2] k2]. unfold fe_st in H2; cbn [fst] in H2.
    pose proof (for_each_nd (ingest_l (blk_map (m_blocks m))) (filter_for_peer s1 (m_from m) rs1) s2 H2) as H3.
    destruct (for_each (ingest_l _) s2 _) as [[s3 ev3] k3]. unfold fe_st in H3; cbn [fst] in H3.
    pose proof (for_each_nd term_l (filter_for_peer s1 (m_from m) rs1) s3 H3) as H4.
    destruct (for_each term_l s3 _) as [[s4 ev4] k4]. exact H4.
  Qed.

  Lemma step_nd s lb : tab_nd (rm_tab s) -> tab_nd (rm_tab (fst (step hook s lb))).
  Proof.
    intro H. destruct lb as [m|id p|id|id|id paused|id|id|id exts]; [now apply process_nd| | | | | | |];
      (cbn [step label_id]; cbv zeta; cbn [fst rm_tab]; now apply tset_nd).
  Qed.

  (* ---------- the table is recovered from the update list ---------- *)
  Definition upd_of (before after : tab) : list (rid * option entry) :=
    map (fun kv => (fst kv, @None entry)) before ++ map (fun kv => (fst kv, Some (snd kv))) after.

  Lemma dels_all : forall (t acc : tab),
    (forall kv, In kv acc -> In (fst kv) (map fst t)) ->
    fold_left (fun t kv => tset (fst kv) (snd kv) t) (map (fun kv => (fst kv, @None entry)) t) acc = [].
  Proof.
    induction t as [|[k e] t IH]; intros acc H.
    - simpl. destruct acc as [|kv acc]; [reflexivity|]. destruct (H kv (or_introl eq_refl)).
    - cbn [map fold_left fst snd tset]. apply IH.
      intros kv Hin. unfold adel in Hin. apply filter_In in Hin as [Hin Hne].
      apply negb_true_iff, N.eqb_neq in Hne.
      destruct (H kv Hin) as [E|E]; [exfalso; apply Hne; symmetry; exact E | exact E].
  Qed.

  Lemma aput_fresh k (v : entry) (t : tab) : ~ In k (map fst t) -> aput k v t = t ++ [(k, v)].
  Proof.
    induction t as [|[q w] t IH]; simpl; intro H; [reflexivity|].
    destruct (N.eqb_spec k q) as [E|NE]; [exfalso; apply H; now left|].
    f_equal. apply IH. intro; apply H; now right.
  Qed.

  Lemma sets_app : forall (after acc : tab),
    NoDup (map fst (acc ++ after)) ->
    fold_left (fun t kv => tset (fst kv) (snd kv) t) (map (fun kv => (fst kv, Some (snd kv))) after) acc = acc ++ after.
  Proof.
    induction after as [|[k e] after IH]; intros acc H; [simpl; now rewrite app_nil_r|].
    cbn [map fold_left fst snd tset].
    assert (Hk : ~ In k (map fst acc)).
    { rewrite map_app in H. cbn [map fst] in H. apply NoDup_remove_2 in H. intro Hin. apply H. apply in_or_app. now left. }
    rewrite (aput_fresh k e acc Hk).
    rewrite IH; [now rewrite <- app_assoc|].
    now rewrite <- app_assoc.
  Qed.

  Lemma apply_upd_of before after : tab_nd after -> apply_upd before (upd_of before after) = after.
  Proof.
    intro H. unfold apply_upd, upd_of. rewrite fold_left_app.
    rewrite dels_all by (intros kv Hin; now apply in_map).
    now rewrite (sets_app after []).
  Qed.

  (* ---------- where hook events come from ---------- *)
  Lemma for_each_ev_origin f : forall rs s ev,
    In ev (fe_ev (for_each f s rs)) -> exists x oe, In x rs /\ In ev (lr_events (f x oe)).
  Proof.
    induction rs as [|y rest IH]; intros s ev; [intros []|].
    cbn [for_each].
    set (res := f y (aget (r_id y) (rm_tab s))).
    set (s1 := mk_rm (tset (r_id y) (lr_entry res) (rm_tab s)) (rm_nilderef s || lr_nil res)).
    specialize (IH s1 ev).
    destruct (for_each f s1 rest) as [[s2 ev2] kept].
    unfold fe_ev in *; cbn [fst snd] in *. rewrite in_app_iff. intros [H|H].
    - exists y, (aget (r_id y) (rm_tab s)). split; [now left | exact H].
    - destruct (IH H) as (x & oe & Hx & He). exists x, oe. split; [now right | exact He].
  Qed.

  Lemma cancel_no_hook id e err q y : ~ In (EvHook q y) (lr_events (cancel_on_error_l id e err)).
  Proof.
    unfold cancel_on_error_l, terminate_l. destruct (e_state (set_term e err)); simpl; intros [H|[]]; discriminate H.
  Qed.

  Lemma ext_hook_only p x oe q y : In (EvHook q y) (lr_events (ext_l hook p x oe)) -> q = p /\ y = x.
  Proof.
    unfold ext_l.
    assert (H1 : In (EvHook q y) (EvHook p x :: match h_exts (hook p x) with
                 | [] => [] | _ :: _ => [EvSend p (r_id x) (KUpdate (h_exts (hook p x)))] end) -> q = p /\ y = x).
    { intros [H|H]; [inversion H; auto|]. destruct (h_exts (hook p x)); [destruct H|]. destruct H as [H|[]]. discriminate H. }
    destruct (h_err (hook p x)) as [er|]; [|cbn [lr_events]; exact H1].
    destruct oe as [e|]; [|cbn [lr_events]; exact H1].
    cbn [lr_events]. rewrite in_app_iff. intros [H|[H|H]]; [now apply H1 | discriminate H | now apply cancel_no_hook in H].
  Qed.

  Lemma term_no_hook x oe q y : ~ In (EvHook q y) (lr_events (term_l x oe)).
  Proof.
    unfold term_l. destruct (st_is_terminal (r_status x)); [|simpl; intros []].
    destruct (st_is_failure (r_status x)); [|simpl; intros []].
    destruct oe; cbn [lr_events]; [apply cancel_no_hook | intros []].
  Qed.

  Lemma hook_origin s m q y :
    In (EvHook q y) (snd (process_responses hook s m)) ->
    q = m_from m /\ resp_for_peer (rm_tab s) (m_from m) y = true.
  Proof.
    unfold process_responses.
    pose proof (for_each_ev_origin (ext_l hook (m_from m)) (filter_for_peer s (m_from m) (m_resps m)) s (EvHook q y)) as O1.
    destruct (for_each (ext_l hook (m_from m)) s _) as [[s1 ev1] rs1]. unfold fe_ev in O1; cbn [fst snd] in O1.
    destruct (for_each last_l s1 _) as [[s2 ev2] k2].
    destruct (for_each (ingest_l _) s2 _) as [[s3 ev3] k3].
    pose proof (for_each_ev_origin term_l (filter_for_peer s1 (m_from m) rs1) s3 (EvHook q y)) as O4.
    destruct (for_each term_l s3 _) as [[s4 ev4] k4]. unfold fe_ev in O4; cbn [fst snd] in O4.
    cbn [snd]. rewrite in_app_iff. intros [H|H].
    - destruct (O1 H) as (x & oe & Hx & He). apply ext_hook_only in He as [-> ->]. split; [reflexivity|].
      unfold filter_for_peer in Hx. now apply filter_In in Hx as [_ Hx].
    - destruct (O4 H) as (x & oe & _ & He). now apply term_no_hook in He.
  Qed.

  (* ---------- the model's history in the driver's format ---------- *)
  Definition step_obs (before after : tab) (ev : list event) : sobs :=
    mk_sobs (filter seen_event ev) (upd_of before after).

  Fixpoint model_obs (s : rmstate) (lbs : list label) : list sobs :=
    match lbs with
    | [] => []
    | lb :: rest =>
      let '(s1, ev) := step hook s lb in
      step_obs (rm_tab s) (rm_tab s1) ev :: model_obs s1 rest
    end.

  Lemma frame_step_model s m :
    tab_nd (rm_tab s) ->
    frame_step (rm_tab s) (rm_tab (fst (process_responses hook s m))) (LMsg m)
               (step_obs (rm_tab s) (rm_tab (fst (process_responses hook s m))) (snd (process_responses hook s m))) = true.
  Proof.
    intro Hnd. cbn [frame_step step_obs so_events]. apply andb_true_iff. split.
    - apply forallb_forall. intros [k e] Hin. cbn [fst snd].
      destruct (N.eqb_spec (e_peer e) (m_from m)) as [_|NE]; [reflexivity|].
      assert (Hk : aget k (rm_tab s) = Some e) by (now apply in_aget).
      destruct (c09_frame hook s m k e Hk NE) as (A & B & _).
      rewrite A, entry_eqb_refl. cbn [andb]. apply negb_true_iff.
      destruct (existsb _ _) eqn:Ex; [|reflexivity].
      apply existsb_exists in Ex as (ev & Hev & Eid). apply filter_In in Hev as [Hev _].
      apply N.eqb_eq in Eid. exfalso. exact (B ev Hev Eid).
    - apply forallb_forall. intros ev Hev. apply filter_In in Hev as [Hev _].
      destruct ev as [q y| | | | |]; auto.
      apply hook_origin in Hev as [-> Hy]. unfold resp_for_peer in Hy. exact Hy.
  Qed.

  Lemma frame_from_model : forall lbs s,
    tab_nd (rm_tab s) -> frame_from (rm_tab s) lbs (model_obs s lbs) = true.
  Proof.
    induction lbs as [|lb rest IH]; intros s Hnd; [reflexivity|].
    cbn [model_obs]. pose proof (step_nd s lb Hnd) as Hnd1.
    destruct (step hook s lb) as [s1 ev] eqn:Es. cbn [fst] in Hnd1.
    cbn [frame_from]. cbn [step_obs so_upd]. rewrite (apply_upd_of (rm_tab s) (rm_tab s1) Hnd1).
    apply andb_true_iff. split; [|now apply IH].
    destruct lb as [m| | | | | | |]; try reflexivity.
    cbn [step] in Es. pose proof (frame_step_model s m Hnd) as F. rewrite Es in F. exact F.
  Qed.

  (* ---------- ownership is stable, so the statically cleaned run is the same run ---------- *)
  Variable om : rid -> option peer.

  Definition own_inv (t : tab) : Prop := forall id e, aget id t = Some e -> om id = Some (e_peer e).
  Definition oown (id : rid) (oe : option entry) : Prop :=
    match oe with Some e => om id = Some (e_peer e) | None => True end.

  Lemma lfor_each_pres f (P : option entry -> Prop) :
    (forall x oe, P oe -> P (lr_entry (f x oe))) -> forall rs oe, P oe -> P (fe_st (lfor_each f oe rs)).
  Proof.
    intro Hf. induction rs as [|x rest IH]; intros oe H; [exact H|].
    cbn [lfor_each]. specialize (IH (lr_entry (f x oe)) (Hf x oe H)).
    destruct (lfor_each f (lr_entry (f x oe)) rest) as [[a b] c]. exact IH.
  Qed.

  Lemma cancel_own id k e err : oown k (Some e) -> oown k (lr_entry (cancel_on_error_l id e err)).
  Proof.
    cbn [oown]. intro H. unfold cancel_on_error_l, terminate_l, set_term.
    destruct (e_term e); cbn; destruct (e_state e); cbn; auto.
  Qed.
  Lemma ext_own k p x oe : oown k oe -> oown k (lr_entry (ext_l hook p x oe)).
  Proof.
    intro H. unfold ext_l. destruct (h_err (hook p x)) as [er|]; [|exact H].
    destruct oe as [e|]; [|exact I]. cbn [lr_entry]. now apply cancel_own.
  Qed.
  Lemma last_own k x oe : oown k oe -> oown k (lr_entry (last_l x oe)).
  Proof. destruct oe; cbn; auto. Qed.
  Lemma ingest_own k bm x oe : oown k oe -> oown k (lr_entry (ingest_l bm x oe)).
  Proof. destruct oe; cbn; auto. Qed.
  Lemma term_own k x oe : oown k oe -> oown k (lr_entry (term_l x oe)).
  Proof.
    intro H. unfold term_l. destruct (st_is_terminal (r_status x)); [|exact H].
    destruct (st_is_failure (r_status x)).
    - destruct oe as [e|]; [|exact I]. pose proof (cancel_own (r_id x) k e (r_status x) H) as C.
      cbn [lr_entry]. destruct (lr_entry (cancel_on_error_l (r_id x) e (r_status x))); cbn in *; auto.
    - cbn [lr_entry]. destruct oe; cbn in *; auto.
  Qed.

  Lemma lprocess_own k oe m : oown k oe -> oown k (fst (lprocess hook k oe m)).
  Proof.
    intro H. unfold lprocess. cbn [fst].
    apply lfor_each_pres; [intros; now apply term_own|].
    apply lfor_each_pres; [intros; now apply ingest_own|].
    apply lfor_each_pres; [intros; now apply last_own|].
    apply lfor_each_pres; [intros; now apply ext_own | exact H].
  Qed.

  Definition label_ok (lb : label) : Prop := forall id p, lb = LNew id p -> om id = Some p.

  Lemma other_own k lb oe : label_ok lb -> label_id lb = k -> oown k oe -> oown k (lr_entry (other_l lb oe)).
  Proof.
    intros Hl Hk H.
    destruct lb as [m|id p|id|id|id paused|id|id|id exts]; cbn [other_l].
    - exact H.
    - cbn in *. subst. now apply Hl.
    - destruct oe; cbn in *; auto.
    - destruct oe as [e|]; [destruct (e_state e)|]; cbn in *; auto.
    - destruct oe as [e|]; [destruct (e_state e)|]; cbn in *; auto.
      destruct paused; [destruct (e_ctx_done e)|]; cbn; auto.
    - destruct oe as [e|]; [destruct (e_state e)|]; cbn in *; auto.
    - destruct oe as [e|]; [|exact I]. cbn [lr_entry]. now apply cancel_own.
    - destruct oe; cbn in *; auto.
  Qed.

  Lemma step_own s lb : label_ok lb -> own_inv (rm_tab s) -> own_inv (rm_tab (fst (step hook s lb))).
  Proof.
    intros Hl Hinv k e' Hk.
    destruct (step_local hook k s lb) as [A _]. rewrite Hk in A.
    assert (Ho : oown k (aget k (rm_tab s))).
    { destruct (aget k (rm_tab s)) as [e|] eqn:E; [cbn; now apply Hinv | exact I]. }
    assert (G : oown k (fst (lstep hook k (aget k (rm_tab s)) lb))).
    { destruct lb as [m|id p|id|id|id paused|id|id|id exts]; [now apply lprocess_own| | | | | | |];
        (cbn [lstep label_id]; destruct (N.eqb_spec id k) as [E|NE]; cbn [fst]; [|exact Ho];
         apply other_own; [exact Hl | exact E | exact Ho]). }
    rewrite <- A in G. exact G.
  Qed.

  Definition clean_label (lb : label) : label :=
    match lb with
    | LMsg m => LMsg (mk_msg (m_from m)
                  (filter (fun x => match om (r_id x) with Some p => p =? m_from m | None => false end) (m_resps m))
                  (m_blocks m))
    | _ => lb
    end.

  Lemma filter_filter_imp {A} (f g : A -> bool) l : (forall x, f x = true -> g x = true) -> filter f (filter g l) = filter f l.
  Proof.
    intro H. induction l as [|a l IH]; [reflexivity|]. simpl.
    destruct (g a) eqn:Eg; simpl; [now rewrite IH|].
    destruct (f a) eqn:Ef; [|exact IH]. rewrite (H a Ef) in Eg. discriminate.
  Qed.

  Lemma step_clean s lb : own_inv (rm_tab s) -> step hook s (clean_label lb) = step hook s lb.
  Proof.
    intro Hinv. destruct lb as [m| | | | | | |]; try reflexivity.
    cbn [clean_label step]. unfold process_responses. cbn [m_from m_resps m_blocks].
    unfold filter_for_peer at 1.
    rewrite filter_filter_imp; [reflexivity|].
    intros x Hx. unfold resp_for_peer in Hx. destruct (aget (r_id x) (rm_tab s)) as [e|] eqn:E; [|discriminate].
    rewrite (Hinv _ _ E). exact Hx.
  Qed.

  Lemma model_obs_clean : forall lbs s,
    own_inv (rm_tab s) -> (forall lb, In lb lbs -> label_ok lb) ->
    model_obs s (map clean_label lbs) = model_obs s lbs.
  Proof.
    induction lbs as [|lb rest IH]; intros s Hinv Hl; [reflexivity|].
    cbn [map model_obs]. rewrite (step_clean s lb Hinv).
    pose proof (step_own s lb (Hl lb (or_introl eq_refl)) Hinv) as Hinv1.
    destruct (step hook s lb) as [s1 ev]. cbn [fst] in Hinv1.
    f_equal. apply IH; [exact Hinv1 | intros; apply Hl; now right].
  Qed.

  (* ---------- the monitor accepts every model history ---------- *)
  Theorem c09_monitor (rows : list hrow) (lbs : list label) :
    (forall id p, In (LNew id p) lbs -> om id = Some p) ->
    rcase_mon (mk_rcase rows lbs (model_obs empty_rm lbs) (model_obs empty_rm (map clean_label lbs))) = true.
  Proof.
    intro Hown. unfold rcase_mon. cbn [c_labels c_obs c_obs_clean].
    apply andb_true_iff. split.
    - apply (frame_from_model lbs empty_rm). constructor.
    - rewrite model_obs_clean.
      + apply list_eqb_refl, sobs_eqb_refl.
      + intros id e H. discriminate H.
      + intros lb Hin id p ->. now apply Hown.
  Qed.
End Mon.
