(* C02Run.v — C02_holds_guarded with the final state exported (store = the reference's store, no cancellation,
   the errors, the root load answered), the run's independence of the responder function outside the skip
   value actually requested, that value as a function of (plan, local store), and insensitivity of the guards
   and of the reference to stored blocks outside the plan's CIDs.  (Used by C20.) *)
From Coq Require Import List Arith NArith Bool Lia ZifyBool ZifyNat ZifyN.
From GS Require Import Base Ltree RecLoader ReqExec RecLoaderProofs C02Online C02Chunks C02Prefix C02Trie C02Replay C02Quiet C02PrefixProofs.
From GS Require Traffic TrafficProofs PauseProofs.
Import ListNotations.
Open Scope N_scope.
Local Arguments N.add : simpl never.

Definition run_ok (R : store) (t : ltree) (L : store) (r : xstate * list ev * bool) : Prop :=
  let '(x, evs, ok) := r in
  let '(st', o) := ref_tree R t true L in
  ok = true /\ x_cancelled x = false /\ x_store x = st' /\ x_errs x = merrs o /\ visits_of evs = ovisits o /\
  exists evs', evs = ELoad (tpath t) (root_cid t) AOk :: evs'.

Theorem c02_run_full t L R sizes sched :
  wf_plan t = true -> agree R L -> aget (root_cid t) R <> None ->
  trie_ordered t = true -> no_F1 t L R = true ->
  run_ok R t L (run_request proper_prefix (honest t R sizes) 0 t L [] sched).
Proof.
  intros Hwf Hag HR Hord HF1. unfold run_ok, run_request.
  destruct t as [p c body]. cbn [root_cid tpath] in *.
  unfold wf_plan in Hwf. cbn [tpath] in Hwf. destruct p as [|s p]; [|discriminate].
  destruct (aget c R) as [b|] eqn:ER; [|congruence]. clear HR.
  set (t0 := LNode [] c body) in *.
  destruct (wf_node_parts [] c body Hwf) as (Hwi & Hwp & Hnn).
  destruct (aget c L) as [b0|] eqn:HL.
  - (* the root is held locally *)
    assert (Eb : b0 = b) by (apply (Hag c b0 b HL ER)). subst b0.
    assert (Hx0 : qinv L [] (x_init L [] sched)) by (unfold qinv, x_init; cbn; auto 12).
    unfold no_F1 in HF1. apply orb_true_iff in HF1 as [Hl|Hs].
    + (* nothing is ever sent *)
      destruct (simL_all t0 L R sizes Hag) as [HT _]. specialize (HT t0 _ [] true Hx0 Hl).
      unfold t0 in HT at 2. rewrite run_tree_node in HT. unfold t0 at 2. rewrite run_tree_node.
      destruct (q_hit t0 L R sizes [] _ [] c b Hx0 HL) as (x1 & E1 & Hx1). rewrite E1 in HT |- *.
      destruct (run_items (exec_ask proper_prefix (honest t0 R sizes) 0) body x1) as [[x2 evs] ok].
      destruct (ref_tree R t0 true L) as [st' o].
      destruct HT as (A & B & C & D & F). destruct F as (_ & Hcan & _ & Hst & Her & _).
      rewrite D, Her, Hst, C. repeat split; auto. now exists evs.
    + unfold no_F1_scan, t0 in Hs. rewrite nf_tree_eq, HL, ER in Hs.
      unfold t0 at 2 3. rewrite run_tree_node, ref_tree_eq, HL, ER, (aput_same c b L HL).
      destruct (q_hit t0 L R sizes [] _ [] c b Hx0 HL) as (x1 & E1 & Hx1). rewrite E1. cbn [app] in Hx1.
      set (it0 := {| i_link := c; i_act := Present; i_blk := Some b |}).
      assert (Hv1 : vpos L R [([], c)] [it0]).
      { unfold vpos. split; [discriminate|]. split; [|split].
        - unfold strip, ent, pres. cbn. now rewrite ER.
        - intros q c1 [Hin|[]] Hpr. injection Hin as <- <-. unfold pres in Hpr. rewrite ER in Hpr. discriminate.
        - intros it [<-|[]] _. cbn. rewrite HL. discriminate. }
      assert (Hn : tnodes t0 = [([], c)] ++ inodes body ++ []) by (cbn; now rewrite app_nil_r).
      assert (HF : fst (emit_tree R t0 []) = [it0] ++ fst (emit_items R body (seen_after [] [it0])) ++ []).
      { unfold t0. rewrite (emit_present R [] c body b [] ER). cbn. now rewrite app_nil_r. }
      assert (HM : Mcond R [([], c)] (ipaths body)).
      { intros q c1 [Hin|[]] Hpr. injection Hin as <- <-. unfold pres in Hpr. rewrite ER in Hpr. discriminate. }
      destruct (simQ_all t0 L R sizes Hag ltac:(cbn; congruence) Hord Hwf) as [_ HQI].
      specialize (HQI body x1 [([], c)] [it0] [] [] Hx1 Hv1 Hn HF Hwi Hwp Hnn HM).
      destruct (run_items (exec_ask proper_prefix (honest t0 R sizes) 0) body x1) as [[x2 evs] ok].
      destruct (ref_items R body true L) as [st' o]. rewrite visits_load.
      destruct (nf_items L R body); [| |discriminate].
      * destruct HQI as (A & B & C & D & F & G). destruct F as (_ & Hcan & _ & Hst & Her & _).
        rewrite D, Her, Hst, C. repeat split; auto. now exists evs.
      * destruct HQI as (A & B & C & D & F & G & H & I & J). destruct C as (ch & _ & (_ & Hcan & _)).
        repeat split; auto. now exists evs.
  - (* the root is the first local miss *)
    unfold t0 at 2 3. rewrite run_tree_node, ref_tree_eq, HL, ER.
    destruct (first_step2 R [] c body L sizes sched b HL ER) as (x1 & E1 & Hx1 & Hq1 & Hu1 & Hs1 & He1).
    cbv zeta in E1. fold t0 in E1. rewrite E1.
    destruct (sim_all R (honest t0 R sizes) 0 (onl2 R) mq2
                (H_local2 R proper_prefix (honest t0 R sizes) 0)
                (H_head2 R proper_prefix (honest t0 R sizes) 0)) as [_ Hit].
    destruct (Hit body) as [HIT _].
    assert (Ha1 : agree R (x_store x1)) by (rewrite Hs1; now apply agree_aput).
    assert (Hc1 : covers (x_store x1) [c]).
    { rewrite Hs1. apply covers_aput. intros c' []. }
    assert (Hq1' : mq2 x1 = fst (emit_items R body [c]) ++ []) by (now rewrite app_nil_r).
    specialize (HIT x1 [c] [] Hx1 Ha1 Hc1 Hwi Hwp Hnn Hq1' (or_introl Hu1)). rewrite Hs1 in HIT.
    destruct (run_items (exec_ask proper_prefix (honest t0 R sizes) 0) body x1) as [[x2 evs] ok].
    destruct (ref_items R body true (aput c b L)) as [st' o].
    destruct HIT as (A & B & C & D & F & G & H & I & J). destruct B as (ch & _ & (_ & Hcan & _)).
    rewrite visits_load. rewrite He1 in H. repeat split; auto. now exists evs.
Qed.

(* ---------- the links loaded before the first local miss ---------- *)
Fixpoint lpre (L : store) (l : list (path * cid)) : nat * bool :=
  match l with
  | [] => (0%nat, true)
  | (_, c) :: r => match aget c L with Some _ => let '(n, b) := lpre L r in (S n, b) | None => (0%nat, false) end
  end.
Lemma lpre_app L a b :
  lpre L (a ++ b) = if snd (lpre L a) then ((fst (lpre L a) + fst (lpre L b))%nat, snd (lpre L b)) else (fst (lpre L a), false).
Proof.
  induction a as [|[q c] a IH]; cbn [app lpre].
  - now destruct (lpre L b).
  - destruct (aget c L); [|reflexivity]. rewrite IH. destruct (lpre L a) as [n ok]. cbn [fst snd]. destruct ok; reflexivity.
Qed.
Lemma lpre_all L a : snd (lpre L a) = true -> fst (lpre L a) = length a.
Proof.
  induction a as [|[q c] a IH]; cbn [lpre length]; [reflexivity|].
  destruct (aget c L); [|discriminate]. destruct (lpre L a) as [n ok]. cbn [fst snd] in *. intro H. now rewrite IH.
Qed.

(* ---------- the run depends on the responder function only at the skip value it requests ---------- *)
Section Congr.
  Variables f g : N -> list msg.
  Variable L : store.
  Notation Ef := (exec_ask proper_prefix f 0).
  Notation Eg := (exec_ask proper_prefix g 0).

  Lemma exec_congr x p c :
    (forall x1 p' c' l, load_call proper_prefix x p c = (x1, Some (RErr (EMissing p' c') l)) -> x_sent x1 = false ->
       f (N.max 0 (x_nblocks x1)) = g (N.max 0 (x_nblocks x1))) ->
    Ef x p c = Eg x p c.
  Proof.
    intro H. unfold exec_ask. destruct (load_call proper_prefix x p c) as [x1 o1] eqn:E.
    destruct o1 as [[b l|e l]|]; try reflexivity. destruct e; try reflexivity.
    destruct (x_sent x1) eqn:Es; [reflexivity|]. destruct (x_cancelled x1); [reflexivity|].
    unfold go_online. now rewrite (H x1 p0 c0 l eq_refl Es).
  Qed.

  Lemma exec_congr_sent x p c : x_sent x = true -> Ef x p c = Eg x p c.
  Proof.
    intro Hs. apply exec_congr. intros x1 p' c' l E Hn.
    destruct (TrafficProofs.load_call_grows proper_prefix _ _ _ _ _ E) as (S & _). congruence.
  Qed.

  Lemma sent_congr :
    (forall t x, x_sent x = true -> run_tree Ef t x = run_tree Eg t x /\ x_sent (fst (fst (run_tree Eg t x))) = true) /\
    (forall l x, x_sent x = true -> run_items Ef l x = run_items Eg l x /\ x_sent (fst (fst (run_items Eg l x))) = true).
  Proof.
    apply (ltree_items_ind
      (fun t => forall x, x_sent x = true -> run_tree Ef t x = run_tree Eg t x /\ x_sent (fst (fst (run_tree Eg t x))) = true)
      (fun l => forall x, x_sent x = true -> run_items Ef l x = run_items Eg l x /\ x_sent (fst (fst (run_items Eg l x))) = true)).
    - intros p c body IH x Hs. rewrite !run_tree_node, (exec_congr_sent x p c Hs).
      pose proof (PauseProofs.exec_sent proper_prefix g 0 x p c Hs) as Hs1.
      destruct (Eg x p c) as [x1 a]. cbn [fst] in Hs1. destruct a; cbn [fst]; auto.
      destruct (IH x1 Hs1) as [E1 S1]. rewrite E1. destruct (run_items Eg body x1) as [[x2 evs] ok]. auto.
    - intros x Hs. cbn. auto.
    - intros v r IH x Hs. rewrite !run_items_visit. destruct (IH x Hs) as [E1 S1]. rewrite E1.
      destruct (run_items Eg r x) as [[x2 evs] ok]. auto.
    - intros t IHt r IHr x Hs. rewrite !run_items_child. destruct (IHt x Hs) as [E1 S1]. rewrite E1.
      destruct (run_tree Eg t x) as [[x1 e1] ok1]. cbn [fst] in S1. destruct ok1; cbn [fst]; auto.
      destruct (IHr x1 S1) as [E2 S2]. rewrite E2. destruct (run_items Eg r x1) as [[x2 e2] ok2]. auto.
  Qed.

  Lemma q_hit_gen ns x p c b :
    qinv L ns x -> aget c L = Some b ->
    exists x', Eg x p c = (x', AOk) /\ Ef x p c = (x', AOk) /\ qinv L (ns ++ [(p, c)]) x'.
  Proof.
    intros Hx Hb. destruct (q_load L ns x p c Hx) as (sch & lg & El).
    assert (Hef : Ef x p c = Eg x p c).
    { apply exec_congr. intros x1 p' c' l E _. rewrite El in E. unfold load_local in E. rewrite Hb in E. discriminate. }
    rewrite Hef. unfold exec_ask. rewrite El. unfold load_local. rewrite Hb. cbn [RecLoader.res_ok].
    eexists. split; [reflexivity|]. split; [reflexivity|].
    unfold qinv, qstate. cbn [x_rl x_store x_sent x_nblocks x_cancelled x_errs x_feed x_logged r_open r_q r_verifier r_unfollowed bro_start r_last
                               set_last set_record r_record a_path a_link a_ok].
    rewrite trie_of_snoc, app_length. cbn [fst snd length]. repeat split; auto. lia.
  Qed.

  Lemma q_miss_gen ns x p c :
    qinv L ns x -> aget c L = None -> f (N.of_nat (length ns)) = g (N.of_nat (length ns)) ->
    Ef x p c = Eg x p c /\ x_sent (fst (Eg x p c)) = true.
  Proof.
    intros Hx Hb Hfg. destruct (q_load L ns x p c Hx) as (sch & lg & El). split.
    - apply exec_congr. intros x1 p' c' l E _. rewrite El in E. inversion E; subst. unfold qstate. cbn [x_nblocks].
      now rewrite N.max_r by lia.
    - unfold exec_ask. rewrite El. unfold load_local. rewrite Hb. cbn [RecLoader.res_ok]. unfold qstate at 1 2. cbn [x_sent x_cancelled].
      destruct (retry_call proper_prefix (go_online g 0 _)) as [x2 o2] eqn:E2.
      assert (S2 : x_sent x2 = true).
      { destruct (TrafficProofs.retry_call_grows proper_prefix _ _ _ E2) as (S & _). rewrite S. reflexivity. }
      destruct o2 as [[b0 l0|e0 l0]|]; cbn; try exact S2.
      destruct (x_cancelled x2); cbn; [exact S2|]. destruct e0; cbn; exact S2.
  Qed.

  Definition Kc (ns l : list (path * cid)) : Prop :=
    snd (lpre L l) = false ->
    f (N.of_nat (length ns + fst (lpre L l))) = g (N.of_nat (length ns + fst (lpre L l))).

  Definition cpost (ns nodes : list (path * cid)) (r : xstate * list ev * bool) : Prop :=
    x_sent (fst (fst r)) = true \/
    (snd r = true /\ qinv L (ns ++ nodes) (fst (fst r)) /\ lpre L nodes = (length nodes, true)).

  Lemma quiet_congr :
    (forall t x ns tail, qinv L ns x -> Kc ns (tnodes t ++ tail) ->
       run_tree Ef t x = run_tree Eg t x /\ cpost ns (tnodes t) (run_tree Eg t x)) /\
    (forall l x ns tail, qinv L ns x -> Kc ns (inodes l ++ tail) ->
       run_items Ef l x = run_items Eg l x /\ cpost ns (inodes l) (run_items Eg l x)).
  Proof.
    apply (ltree_items_ind
      (fun t => forall x ns tail, qinv L ns x -> Kc ns (tnodes t ++ tail) ->
         run_tree Ef t x = run_tree Eg t x /\ cpost ns (tnodes t) (run_tree Eg t x))
      (fun l => forall x ns tail, qinv L ns x -> Kc ns (inodes l ++ tail) ->
         run_items Ef l x = run_items Eg l x /\ cpost ns (inodes l) (run_items Eg l x))).
    - intros p c body IH x ns tail Hx HK. rewrite !run_tree_node. cbn [tnodes app] in HK |- *.
      destruct (aget c L) as [b|] eqn:EL.
      + destruct (q_hit_gen ns x p c b Hx EL) as (x1 & Eg1 & Ef1 & Hx1). rewrite Eg1, Ef1.
        assert (HK1 : Kc (ns ++ [(p, c)]) (inodes body ++ tail)).
        { unfold Kc in *. cbn [lpre] in HK. rewrite EL in HK. destruct (lpre L (inodes body ++ tail)) as [n ok]. cbn [fst snd] in *.
          intro Hok. rewrite app_length. cbn [length]. replace (length ns + 1 + n)%nat with (length ns + S n)%nat by lia. now apply HK. }
        destruct (IH x1 (ns ++ [(p, c)]) tail Hx1 HK1) as [E1 P1]. rewrite E1.
        destruct (run_items Eg body x1) as [[x2 evs] ok]. split; [reflexivity|].
        unfold cpost in *. cbn [fst snd] in *. destruct P1 as [P1|(A & B & C)]; [now left | right].
        split; [exact A|]. split; [now rewrite <- app_assoc in B|]. cbn [lpre length]. rewrite EL, C. reflexivity.
      + assert (Hfg : f (N.of_nat (length ns)) = g (N.of_nat (length ns))).
        { unfold Kc in HK. cbn [lpre] in HK. rewrite EL in HK. cbn [fst snd] in HK. rewrite Nat.add_0_r in HK. now apply HK. }
        destruct (q_miss_gen ns x p c Hx EL Hfg) as [E1 S1]. rewrite E1.
        destruct (Eg x p c) as [x1 a]. cbn [fst] in S1. destruct a.
        * destruct (proj2 sent_congr body x1 S1) as [E2 S2]. rewrite E2.
          destruct (run_items Eg body x1) as [[x2 evs] ok]. split; [reflexivity|]. left. exact S2.
        * split; [reflexivity|]. left. exact S1.
        * split; [reflexivity|]. left. exact S1.
    - intros x ns tail Hx HK. cbn. split; [reflexivity|]. right. rewrite app_nil_r. auto.
    - intros v r IH x ns tail Hx HK. rewrite !run_items_visit. cbn [inodes] in *.
      destruct (IH x ns tail Hx HK) as [E1 P1]. rewrite E1.
      destruct (run_items Eg r x) as [[x2 evs] ok]. split; [reflexivity|]. exact P1.
    - intros t IHt r IHr x ns tail Hx HK. rewrite !run_items_child. cbn [inodes] in *. rewrite <- app_assoc in HK.
      destruct (IHt x ns (inodes r ++ tail) Hx HK) as [E1 P1]. rewrite E1.
      destruct (run_tree Eg t x) as [[x1 e1] ok1]. unfold cpost in P1. cbn [fst snd] in P1.
      destruct P1 as [S1|(A & B & C)].
      + destruct ok1; [|split; [reflexivity | left; exact S1]].
        destruct (proj2 sent_congr r x1 S1) as [E2 S2]. rewrite E2.
        destruct (run_items Eg r x1) as [[x2 e2] ok2]. split; [reflexivity|]. left. exact S2.
      + subst ok1.
        assert (HK1 : Kc (ns ++ tnodes t) (inodes r ++ tail)).
        { unfold Kc in *. rewrite lpre_app, C in HK. cbn [fst snd] in HK. intro Hok. rewrite app_length.
          replace (length ns + length (tnodes t) + fst (lpre L (inodes r ++ tail)))%nat
            with (length ns + (length (tnodes t) + fst (lpre L (inodes r ++ tail))))%nat by lia. now apply HK. }
        destruct (IHr x1 (ns ++ tnodes t) tail B HK1) as [E2 P2]. rewrite E2.
        destruct (run_items Eg r x1) as [[x2 e2] ok2]. split; [reflexivity|].
        unfold cpost in *. cbn [fst snd] in *. destruct P2 as [P2|(A2 & B2 & C2)]; [now left | right].
        split; [exact A2|]. split; [now rewrite <- app_assoc in B2|]. rewrite lpre_app, C, C2. cbn [fst snd]. now rewrite app_length.
  Qed.

  Theorem run_congr t sched :
    (snd (lpre L (tnodes t)) = false -> f (N.of_nat (fst (lpre L (tnodes t)))) = g (N.of_nat (fst (lpre L (tnodes t))))) ->
    run_request proper_prefix f 0 t L [] sched = run_request proper_prefix g 0 t L [] sched.
  Proof.
    intro H. unfold run_request.
    assert (Hx0 : qinv L [] (x_init L [] sched)) by (unfold qinv, x_init; cbn; auto 12).
    destruct (proj1 quiet_congr t _ [] [] Hx0) as [E _]; [|exact E].
    unfold Kc. rewrite app_nil_r. cbn [length Nat.add]. exact H.
  Qed.
End Congr.

(* ---------- stored blocks outside the plan's CIDs do not matter ---------- *)
Definition meq (S : list cid) (s1 s2 : store) : Prop := forall c, In c S -> (aget c s1 = None <-> aget c s2 = None).

Lemma meq_match {T} S s1 s2 c (A B : T) : meq S s1 s2 -> In c S ->
  (match aget c s1 with Some _ => A | None => B end) = (match aget c s2 with Some _ => A | None => B end).
Proof.
  intros H Hin. destruct (H c Hin) as [H1 H2]. destruct (aget c s1), (aget c s2); try reflexivity.
  - discriminate (H2 eq_refl).
  - discriminate (H1 eq_refl).
Qed.
Lemma meq_sym S s1 s2 : meq S s1 s2 -> meq S s2 s1.
Proof. intros H c Hc. now symmetry; apply H. Qed.
Lemma meq_aput S s1 s2 c b : meq S s1 s2 -> meq S (aput c b s1) (aput c b s2).
Proof.
  intros H c' Hc'. destruct (N.eqb_spec c c') as [->|Hn].
  - rewrite !aget_aput_eq. split; discriminate.
  - rewrite !aget_aput_neq by exact Hn. now apply H.
Qed.

Lemma tnodes_cids : (forall t, map snd (tnodes t) = plan_cids t) /\ (forall l, map snd (inodes l) = items_cids l).
Proof.
  apply (ltree_items_ind (fun t => map snd (tnodes t) = plan_cids t) (fun l => map snd (inodes l) = items_cids l)).
  - intros p c body IH. cbn. now rewrite IH.
  - reflexivity.
  - intros v r IH. exact IH.
  - intros t IHt r IHr. cbn. now rewrite map_app, IHt, IHr.
Qed.

Lemma lpre_meq S s1 s2 l : meq S s1 s2 -> incl (map snd l) S -> lpre s1 l = lpre s2 l.
Proof.
  intros H. induction l as [|[q c] l IH]; intro Hi; [reflexivity|]. cbn [lpre].
  rewrite IH by (intros x Hx; apply Hi; now right).
  apply (meq_match S s1 s2 c); [exact H | apply Hi; now left].
Qed.

Lemma scan_meq S s1 s2 R : meq S s1 s2 ->
  (forall t, incl (plan_cids t) S -> all_local_tree s1 t = all_local_tree s2 t /\ nf_tree s1 R t = nf_tree s2 R t) /\
  (forall l, incl (items_cids l) S ->
     all_local_items s1 l = all_local_items s2 l /\ nf_items s1 R l = nf_items s2 R l /\ nf_first s1 l = nf_first s2 l).
Proof.
  intro H.
  apply (ltree_items_ind
    (fun t => incl (plan_cids t) S -> all_local_tree s1 t = all_local_tree s2 t /\ nf_tree s1 R t = nf_tree s2 R t)
    (fun l => incl (items_cids l) S ->
       all_local_items s1 l = all_local_items s2 l /\ nf_items s1 R l = nf_items s2 R l /\ nf_first s1 l = nf_first s2 l)).
  - intros p c body IH Hi. cbn [plan_cids] in Hi.
    destruct IH as (A & B & C); [intros x Hx; apply Hi; now right|].
    assert (Hc : In c S) by (apply Hi; now left).
    cbn [all_local_tree]. rewrite !nf_tree_eq, A, B, C. split; apply (meq_match S s1 s2 c _ _ H Hc).
  - intros _. auto.
  - intros v r IH Hi. cbn in *. now apply IH.
  - intros t IHt r IHr Hi. cbn [items_cids] in Hi.
    destruct IHt as (A & B); [intros x Hx; apply Hi; apply in_app_iff; now left|].
    destruct IHr as (A2 & B2 & C2); [intros x Hx; apply Hi; apply in_app_iff; now right|].
    cbn [all_local_items nf_first]. rewrite !nf_items_child, A, A2, B, B2. split; [reflexivity|]. split; [reflexivity|].
    destruct t as [p c body]. cbn [root_cid]. apply (meq_match S s1 s2 c _ _ H). apply Hi. cbn. now left.
Qed.

Lemma ref_meq S R :
  (forall t here s1 s2, incl (plan_cids t) S -> meq S s1 s2 ->
     snd (ref_tree R t here s1) = snd (ref_tree R t here s2) /\ meq S (fst (ref_tree R t here s1)) (fst (ref_tree R t here s2))) /\
  (forall l here s1 s2, incl (items_cids l) S -> meq S s1 s2 ->
     snd (ref_items R l here s1) = snd (ref_items R l here s2) /\ meq S (fst (ref_items R l here s1)) (fst (ref_items R l here s2))).
Proof.
  apply (ltree_items_ind
    (fun t => forall here s1 s2, incl (plan_cids t) S -> meq S s1 s2 ->
       snd (ref_tree R t here s1) = snd (ref_tree R t here s2) /\ meq S (fst (ref_tree R t here s1)) (fst (ref_tree R t here s2)))
    (fun l => forall here s1 s2, incl (items_cids l) S -> meq S s1 s2 ->
       snd (ref_items R l here s1) = snd (ref_items R l here s2) /\ meq S (fst (ref_items R l here s1)) (fst (ref_items R l here s2)))).
  - intros p c body IH here s1 s2 Hi H. cbn [plan_cids] in Hi.
    assert (Hc : In c S) by (apply Hi; now left).
    assert (Hb : incl (items_cids body) S) by (intros x Hx; apply Hi; now right).
    rewrite !ref_tree_eq. destruct (if here then aget c R else None) as [b|].
    + specialize (IH true (aput c b s1) (aput c b s2) Hb (meq_aput S s1 s2 c b H)).
      destruct (ref_items R body true (aput c b s1)) as [st1 o1]. destruct (ref_items R body true (aput c b s2)) as [st2 o2].
      destruct (aget c s1), (aget c s2); exact IH.
    + destruct (H c Hc) as [H1 H2]. destruct (aget c s1) as [b1|] eqn:E1; destruct (aget c s2) as [b2|] eqn:E2.
      * apply (IH false s1 s2 Hb H).
      * discriminate (H2 eq_refl).
      * discriminate (H1 eq_refl).
      * cbn. auto.
  - intros here s1 s2 _ H. cbn. auto.
  - intros v r IH here s1 s2 Hi H. rewrite !ref_items_visit. specialize (IH here s1 s2 Hi H).
    destruct (ref_items R r here s1) as [st1 o1]. destruct (ref_items R r here s2) as [st2 o2]. cbn [fst snd] in *.
    destruct IH as [A B]. split; [now rewrite A | exact B].
  - intros t IHt r IHr here s1 s2 Hi H. cbn [items_cids] in Hi. rewrite !ref_items_child.
    specialize (IHt here s1 s2 ltac:(intros x Hx; apply Hi; apply in_app_iff; now left) H).
    destruct (ref_tree R t here s1) as [st1 o1]. destruct (ref_tree R t here s2) as [st2 o2]. cbn [fst snd] in IHt.
    destruct IHt as [A B]. specialize (IHr here st1 st2 ltac:(intros x Hx; apply Hi; apply in_app_iff; now right) B).
    destruct (ref_items R r here st1) as [st1' o1']. destruct (ref_items R r here st2) as [st2' o2']. cbn [fst snd] in *.
    destruct IHr as [A2 B2]. split; [now rewrite A, A2 | exact B2].
Qed.

(* the reference's store: only the plan's CIDs are written, and only with the responder's bytes *)
Lemma ref_frame R :
  (forall t here st c', ~ In c' (plan_cids t) -> aget c' (fst (ref_tree R t here st)) = aget c' st) /\
  (forall l here st c', ~ In c' (items_cids l) -> aget c' (fst (ref_items R l here st)) = aget c' st).
Proof.
  apply (ltree_items_ind
    (fun t => forall here st c', ~ In c' (plan_cids t) -> aget c' (fst (ref_tree R t here st)) = aget c' st)
    (fun l => forall here st c', ~ In c' (items_cids l) -> aget c' (fst (ref_items R l here st)) = aget c' st)).
  - intros p c body IH here st c' Hn. cbn [plan_cids] in Hn. rewrite ref_tree_eq.
    assert (Hne : c <> c') by (intro E; apply Hn; now left).
    assert (Hb : ~ In c' (items_cids body)) by (intro E; apply Hn; now right).
    destruct (if here then aget c R else None) as [b|].
    + specialize (IH true (aput c b st) c' Hb). destruct (ref_items R body true (aput c b st)) as [st' o]. cbn [fst] in *.
      rewrite aget_aput_neq in IH by exact Hne. destruct (aget c st); exact IH.
    + destruct (aget c st); [apply (IH false st c' Hb) | reflexivity].
  - reflexivity.
  - intros v r IH here st c' Hn. rewrite ref_items_visit. specialize (IH here st c' Hn).
    destruct (ref_items R r here st) as [st' o]. exact IH.
  - intros t IHt r IHr here st c' Hn. cbn [items_cids] in Hn. rewrite ref_items_child.
    specialize (IHt here st c' ltac:(intro E; apply Hn; apply in_app_iff; now left)).
    destruct (ref_tree R t here st) as [st1 o1]. cbn [fst] in IHt.
    specialize (IHr here st1 c' ltac:(intro E; apply Hn; apply in_app_iff; now right)).
    destruct (ref_items R r here st1) as [st2 o2]. cbn [fst] in *. congruence.
Qed.

Lemma ref_agree R :
  (forall t here st, agree R st -> agree R (fst (ref_tree R t here st))) /\
  (forall l here st, agree R st -> agree R (fst (ref_items R l here st))).
Proof.
  apply (ltree_items_ind
    (fun t => forall here st, agree R st -> agree R (fst (ref_tree R t here st)))
    (fun l => forall here st, agree R st -> agree R (fst (ref_items R l here st)))).
  - intros p c body IH here st Ha. rewrite ref_tree_eq.
    destruct here; [destruct (aget c R) as [b|] eqn:ER|].
    + specialize (IH true (aput c b st) (agree_aput R st c b Ha ER)).
      destruct (ref_items R body true (aput c b st)) as [st' o]. destruct (aget c st); exact IH.
    + destruct (aget c st); [apply (IH false st Ha) | exact Ha].
    + destruct (aget c st); [apply (IH false st Ha) | exact Ha].
  - intros here st Ha. exact Ha.
  - intros v r IH here st Ha. rewrite ref_items_visit. specialize (IH here st Ha).
    destruct (ref_items R r here st) as [st' o]. exact IH.
  - intros t IHt r IHr here st Ha. rewrite ref_items_child. specialize (IHt here st Ha).
    destruct (ref_tree R t here st) as [st1 o1]. cbn [fst] in IHt. specialize (IHr here st1 IHt).
    destruct (ref_items R r here st1) as [st2 o2]. exact IHr.
Qed.
