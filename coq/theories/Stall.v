(* Stall.v — C25: a stalled peer cannot block service to other peers.

   Executable model of the *blocking structure* of the responder and of the requestor:

     responsemanager/server.go   run: one goroutine takes one message at a time from rm.messages and runs
                                 its handler to completion (processRequests -> newRequest / processUpdate /
                                 abortRequest, unpauseRequest, updateRequest, pauseRequest, startTask,
                                 finishTask, terminateRequest, CloseWithNetworkError ...)
     responsemanager/preparequery.go            prepareQuery: first Transaction of a response (hook
                                 extension data + rejection / pause status), run inside newRequest
     responseassembler.go        Transaction -> execute: size := sum of op.size(); extensionOperation.size()
                                 = dag-cbor length of the payload, statusOperation.size() = 0,
                                 blockOperation.size() = block bytes when the block is sent
     messagequeue.go             AllocateAndBuildMessage: if size > 0 WAIT on allocator.AllocateBlockMemory;
                                 build; give back size - (block bytes added)
     allocator/allocator.go      = GS.Alloc (the model of C13/C14), used as it is
     queryexecutor.go            worker goroutines: StartTask (round trip through the loop), one Transaction
                                 per block (block bytes + block-hook extension data), final Transaction
                                 (status, size 0), FinishTask (round trip through the loop)
     taskqueue.go / go-peertaskqueue  N workers; a task of a peer is popped only while the peer's active
                                 work is below MaxOutstandingWorkPerPeer (when that option is set)
     requestmanager/client.go    SendRequest: AllocateAndBuildMessage(p, 0, ...)   (second half of the file)

   A reservation, the build that follows a granted reservation and the hand-back of the unused part
   contain no blocking operation between them and are one step; a reservation that is not granted at
   once leaves its goroutine at a waiting pc until the ticket is no longer pending in the allocator.
   A stalled peer is one whose message queue never completes a send: no [MQ_Send] label for it, hence
   nothing accounted to it is ever released. *)
From Coq Require Import List NArith Bool Lia.
From GS Require Export Base Alloc.
Import ListNotations.
Open Scope N_scope.

Definition rid := N.

Record cfg := {
  c_workers : N;              (* MaxInProgressIncomingRequests: number of executor goroutines *)
  c_cap : N;                  (* MaxInProgressIncomingRequestsPerPeer; 0 = option not set *)
  c_maxtotal : N; c_maxpeer : N;
  c_stalled : list peer       (* peers whose sends never complete *)
}.

(* ---- response table (rm.inProgressResponses) ---- *)
Inductive rstate := RQueued | RRunning | RPaused | RCompleting.
Inductive sig := SigNone | SigPause | SigCancelCmd | SigNetOrCtx.     (* ResponseSignals, one slot *)
Record entry := {
  e_peer : peer; e_state : rstate;
  e_plan : list (N * N);     (* what the traversal still has to send: (block bytes, block-hook extension bytes) *)
  e_sig : sig;
  e_neterr : bool            (* networkError: a network error closed the stream while the task was running *)
}.

(* ---- what the loop is asked to do: one request inside a processRequests message, or one API /
        worker / notification message ---- *)
Inductive item :=
| INew (p : peer) (r : rid) (ext : N) (valid pause : bool) (plan : list (N * N))
      (* newRequest; ext = encoded size of the extension data the request hooks attached *)
| ICancel (p : peer) (r : rid)                                   (* RequestTypeCancel *)
| IUpdate (p : peer) (r : rid) (ext : N) (herr unpause : bool)   (* RequestTypeUpdate; update-hook result *)
| IApiUnpause (r : rid) (ext : N)                                (* UnpauseResponse(id, extensions...) *)
| IApiUpdate (r : rid) (ext : N)                                 (* UpdateResponse(id, extensions...) *)
| IApiCancel (r : rid)                                           (* CancelResponse *)
| IApiPause (r : rid)                                            (* PauseResponse *)
| INetErr (p : peer) (r : rid)                                   (* CloseWithNetworkError(p, id), from p's queue notifications *)
| ITerminate (p : peer) (r : rid)                                (* TerminateRequest(p, id), from p's queue notifications *)
| IStart (w : N) (r : rid)                                       (* StartTask, from worker w *)
| IFinish (w : N) (r : rid) (paused : bool).                     (* FinishTask, from worker w *)

(* the loop-side transactions *)
Inductive site :=
| SNewReq          (* newRequest -> prepareQuery: request-hook extensions + status *)
| SUpdatePaused    (* processUpdate on a paused response: update-hook extensions (+ error status) *)
| SUnpause         (* unpauseRequest with extensions *)
| SApiUpdate       (* updateRequest: SendUpdates(extensions) *)
| SAbortStatus     (* abortRequest: FinishWithError(RequestCancelled): size 0 *)
| SRefuse.         (* refuseRequest: FinishWithError(RequestRejected) for an ID in use by another peer: size 0 *)

(* what is left of the handler after its transaction *)
Inductive cont :=
| KNew (p : peer) (r : rid) (valid pause : bool) (plan : list (N * N))
| KUpd (r : rid) (herr unpause : bool)
| KUnpause (r : rid)
| KDone.

(* queued / sent response data *)
Inductive qent := QBlock (r : rid) (n : N) | QExt (r : rid) (n : N) | QStatus (r : rid) (terminal : bool).

Inductive lpc :=
| LIdle
| LRun (rest : list item)
| LWait (p : peer) (t : ticket) (n : N) (st : site) (ents : list qent) (k : cont) (rest : list item).

Inductive wnext := NContinue | NFinishPaused.
Inductive wpc :=
| WIdle
| WStarting (p : peer) (r : rid)                 (* StartTask sent, waiting for the loop's reply *)
| WRun (p : peer) (r : rid)
| WWait (p : peer) (r : rid) (t : ticket) (n added : N) (ents : list qent) (nx : wnext)
| WFinishing (p : peer) (r : rid).               (* FinishTask sent, waiting for the loop *)

Record state := {
  al : Alloc.st;
  mailbox : list (list item);          (* rm.messages, FIFO (capacity not modelled) *)
  loop : lpc;
  table : list (rid * entry);
  tq : list (peer * rid);              (* pending tasks of the response queue *)
  workers : list (N * wpc);
  queues : list (peer * list qent);    (* per peer: built but not yet sent *)
  sent : list (peer * qent);           (* what reached the network, oldest first *)
  handled : list rid                   (* new requests whose newRequest handler has completed *)
}.

Fixpoint mk_workers (n : nat) (i : N) : list (N * wpc) :=
  match n with O => [] | S k => (i, WIdle) :: mk_workers k (i + 1) end.

Definition init (c : cfg) : state :=
  {| al := Alloc.init (c_maxtotal c) (c_maxpeer c); mailbox := []; loop := LIdle; table := []; tq := [];
     workers := mk_workers (N.to_nat (c_workers c)) 0; queues := []; sent := []; handled := [] |}.

(* ---- record updates ---- *)
Definition set_al (s : state) (a : Alloc.st) : state :=
  {| al := a; mailbox := mailbox s; loop := loop s; table := table s; tq := tq s; workers := workers s;
     queues := queues s; sent := sent s; handled := handled s |}.
Definition set_mailbox (s : state) (m : list (list item)) : state :=
  {| al := al s; mailbox := m; loop := loop s; table := table s; tq := tq s; workers := workers s;
     queues := queues s; sent := sent s; handled := handled s |}.
Definition set_loop (s : state) (l : lpc) : state :=
  {| al := al s; mailbox := mailbox s; loop := l; table := table s; tq := tq s; workers := workers s;
     queues := queues s; sent := sent s; handled := handled s |}.
Definition set_table (s : state) (t : list (rid * entry)) : state :=
  {| al := al s; mailbox := mailbox s; loop := loop s; table := t; tq := tq s; workers := workers s;
     queues := queues s; sent := sent s; handled := handled s |}.
Definition set_tq (s : state) (q : list (peer * rid)) : state :=
  {| al := al s; mailbox := mailbox s; loop := loop s; table := table s; tq := q; workers := workers s;
     queues := queues s; sent := sent s; handled := handled s |}.
Definition set_workers (s : state) (w : list (N * wpc)) : state :=
  {| al := al s; mailbox := mailbox s; loop := loop s; table := table s; tq := tq s; workers := w;
     queues := queues s; sent := sent s; handled := handled s |}.
Definition set_queues (s : state) (q : list (peer * list qent)) : state :=
  {| al := al s; mailbox := mailbox s; loop := loop s; table := table s; tq := tq s; workers := workers s;
     queues := q; sent := sent s; handled := handled s |}.
Definition set_sent (s : state) (x : list (peer * qent)) : state :=
  {| al := al s; mailbox := mailbox s; loop := loop s; table := table s; tq := tq s; workers := workers s;
     queues := queues s; sent := x; handled := handled s |}.
Definition set_handled (s : state) (h : list rid) : state :=
  {| al := al s; mailbox := mailbox s; loop := loop s; table := table s; tq := tq s; workers := workers s;
     queues := queues s; sent := sent s; handled := h |}.

Definition set_worker (s : state) (w : N) (pc : wpc) : state := set_workers s (aput w pc (workers s)).
Definition post (s : state) (m : list item) : state := set_mailbox s (mailbox s ++ [m]).
(* EveryTaskCountsOne: newRequest and unpauseRequest both push peertask.Task{..., Work: 1}; the per-peer cap of
   go-peertaskqueue bounds the SUM of Work over a peer's active tasks, so with Work = 1 everywhere it bounds their
   number, which is what [active_count] counts in Worker_Pop — for resumed responses as for new ones *)
Definition push_task (s : state) (p : peer) (r : rid) : state := set_tq s (tq s ++ [(p, r)]).
Definition remove_task (s : state) (p : peer) (r : rid) : state :=
  set_tq s (filter (fun x => negb (N.eqb (fst x) p && N.eqb (snd x) r)) (tq s)).
Definition put_entry (s : state) (r : rid) (e : entry) : state := set_table s (aput r e (table s)).
Definition del_entry (s : state) (r : rid) : state := set_table s (adel r (table s)).

Definition with_state (e : entry) (x : rstate) : entry :=
  {| e_peer := e_peer e; e_state := x; e_plan := e_plan e; e_sig := e_sig e; e_neterr := e_neterr e |}.
Definition with_sig (e : entry) (x : sig) : entry :=
  {| e_peer := e_peer e; e_state := e_state e; e_plan := e_plan e; e_sig := x; e_neterr := e_neterr e |}.
Definition with_plan (e : entry) (x : list (N * N)) : entry :=
  {| e_peer := e_peer e; e_state := e_state e; e_plan := x; e_sig := e_sig e; e_neterr := e_neterr e |}.
Definition with_neterr (e : entry) : entry :=
  {| e_peer := e_peer e; e_state := e_state e; e_plan := e_plan e; e_sig := e_sig e; e_neterr := true |}.
(* ownedByOther: the ID names a response that is being served to another peer *)
Definition owned_by_other (t : list (rid * entry)) (r : rid) (p : peer) : bool :=
  match aget r t with Some e => negb (N.eqb (e_peer e) p) | None => false end.
(* SignalSendNonBlocking: abortRequest / pauseRequest / processUpdate signal a running response's executor with
   select { case signal <- x: default: }  on a one-slot channel: when the slot is taken (the executor has not drained
   the previous signal, e.g. because it is parked on a reservation) the new signal is DROPPED, the loop never waits *)
Definition raise_sig (e : entry) (x : sig) : entry :=
  match e_sig e with SigNone => with_sig e x | _ => e end.

Definition is_completing (x : rstate) := match x with RCompleting => true | _ => false end.
Definition is_running (x : rstate) := match x with RRunning => true | _ => false end.
Definition is_paused (x : rstate) := match x with RPaused => true | _ => false end.

(* ---- messagequeue.AllocateAndBuildMessage ---- *)
Definition pending_of (a : Alloc.st) (p : peer) : list pend :=
  match lookup p (peers a) with Some ps => ps_pend ps | None => [] end.
Definition tkt_pending (a : Alloc.st) (p : peer) (t : ticket) : bool :=
  existsb (fun x => N.eqb (p_tkt x) t) (pending_of a p).

(* the wait: None = proceed now (size 0: the allocator is not called; or granted in the call itself),
   Some t = the caller waits for ticket t *)
Definition reserve (a : Alloc.st) (p : peer) (n : N) : Alloc.st * option ticket :=
  if N.eqb n 0 then (a, None)
  else let '(a', outs, _, _) := Alloc.step a (OAlloc p n) in
       match outs with [] => (a', Some (next_tkt a)) | _ :: _ => (a', None) end.

(* buildMessage + hand-back of the part of the reservation that did not become queued block bytes *)
Definition build (s : state) (p : peer) (n added : N) (ents : list qent) : state :=
  let q := match aget p (queues s) with Some l => l | None => [] end in
  let s1 := set_queues s (aput p (q ++ ents) (queues s)) in
  if added <? n then let '(a', _, _, _) := Alloc.step (al s1) (ORelease p (n - added)) in set_al s1 a'
  else s1.

(* ---- the rest of a handler after its transaction ---- *)
Definition unpause_no_ext (s : state) (r : rid) : state :=         (* unpauseRequest(id) *)
  match aget r (table s) with
  | Some e => if is_paused (e_state e)
              then push_task (put_entry s r (with_state e RQueued)) (e_peer e) r else s
  | None => s
  end.

Definition apply_cont (s : state) (k : cont) : state :=
  match k with
  | KNew p r valid pause plan =>
      let stt := if negb valid then RCompleting else if pause then RPaused else RQueued in
      let s1 := put_entry s r {| e_peer := p; e_state := stt; e_plan := plan; e_sig := SigNone; e_neterr := false |} in
      let s2 := match stt with RQueued => push_task s1 p r | _ => s1 end in
      set_handled s2 (handled s2 ++ [r])
  | KUpd r herr unpause =>
      if herr then match aget r (table s) with
                   | Some e => put_entry s r (with_state e RCompleting) | None => s end
      else if unpause then unpause_no_ext s r else s
  | KUnpause r =>
      match aget r (table s) with Some e => push_task s (e_peer e) r | None => s end
  | KDone => s
  end.

(* responseStream.Transaction issued by the loop *)
Definition transact (s : state) (p : peer) (n : N) (st : site) (ents : list qent) (k : cont)
           (rest : list item) : state :=
  match reserve (al s) p n with
  | (a', None) => set_loop (apply_cont (build (set_al s a') p n 0 ents) k) (LRun rest)
  | (a', Some t) => set_loop (set_al s a') (LWait p t n st ents k rest)
  end.

Definition ext_ent (r : rid) (n : N) : list qent := if N.eqb n 0 then [] else [QExt r n].

(* one item, by the loop goroutine; [rest] = the remaining requests of the same message *)
Definition handle (s : state) (it : item) (rest : list item) : state :=
  let done := fun s' : state => set_loop s' (LRun rest) in
  match it with
  | INew p r ext valid pause plan =>
      if owned_by_other (table s) r p then
        (* processRequests: refuseRequest, the other peer's response is not touched *)
        transact s p 0 SRefuse [QStatus r true] KDone rest
      else
      (* newRequest: hooks, NewStream, prepareQuery's transaction, then the table entry *)
      transact s p ext SNewReq
        (ext_ent r ext ++ (if negb valid then [QStatus r true] else if pause then [QStatus r false] else []))
        (KNew p r valid pause plan) rest
  | IUpdate p r ext herr unpause =>
      (* processUpdate *)
      if owned_by_other (table s) r p then done s else
      match aget r (table s) with
      | None => done s
      | Some e =>
          if is_completing (e_state e) then done s
          else if negb (is_paused (e_state e)) then done s     (* queued for the executor; UpdateSignal *)
          else transact s (e_peer e) ext SUpdatePaused
                 (ext_ent r ext ++ (if herr then [QStatus r true] else [])) (KUpd r herr unpause) rest
      end
  | ICancel p r =>
      (* abortRequest(ContextCancelError) *)
      if owned_by_other (table s) r p then done s else
      match aget r (table s) with
      | None => done s
      | Some e =>
          let s1 := remove_task s (e_peer e) r in
          if is_completing (e_state e) then done s1
          else if is_running (e_state e) then done (put_entry s1 r (raise_sig e SigNetOrCtx))
          else done (del_entry s1 r)                            (* ClearRequest; terminateRequest *)
      end
  | INetErr p r =>
      (* abortRequest(ErrNetworkError): also for a response completing its send *)
      if owned_by_other (table s) r p then done s else
      match aget r (table s) with
      | None => done s
      | Some e =>
          let s1 := remove_task s (e_peer e) r in
          if is_running (e_state e) then done (put_entry s1 r (with_neterr (raise_sig e SigNetOrCtx)))
          else done (del_entry s1 r)
      end
  | IApiCancel r =>
      (* abortRequest(ErrCancelledByCommand) *)
      match aget r (table s) with
      | None => done s
      | Some e =>
          let s1 := remove_task s (e_peer e) r in
          if is_completing (e_state e) then done s1
          else if is_running (e_state e) then done (put_entry s1 r (raise_sig e SigCancelCmd))
          else transact (put_entry s1 r (with_state e RCompleting)) (e_peer e) 0 SAbortStatus
                 [QStatus r true] KDone rest
      end
  | IApiPause r =>
      match aget r (table s) with
      | None => done s
      | Some e =>
          if is_completing (e_state e) || is_paused (e_state e) then done s
          else done (put_entry s r (raise_sig e SigPause))
      end
  | IApiUnpause r ext =>
      (* unpauseRequest: the state changes before the transaction, the task is pushed after it *)
      match aget r (table s) with
      | None => done s
      | Some e =>
          if negb (is_paused (e_state e)) then done s
          else let s1 := put_entry s r (with_state e RQueued) in
               if N.eqb ext 0 then done (push_task s1 (e_peer e) r)
               else transact s1 (e_peer e) ext SUnpause (ext_ent r ext) (KUnpause r) rest
      end
  | IApiUpdate r ext =>
      (* updateRequest: any state, also while completing *)
      match aget r (table s) with
      | None => done s
      | Some e => transact s (e_peer e) ext SApiUpdate (ext_ent r ext ++ [QStatus r false]) KDone rest
      end
  | ITerminate p r => if owned_by_other (table s) r p then done s else done (del_entry s r)
  | IStart w r =>
      (* startTask / taskDataForKey; the reply wakes the worker *)
      match aget w (workers s) with
      | Some (WStarting p r') =>
          match aget r (table s) with
          | Some e => if is_completing (e_state e) then done (set_worker s w WIdle)       (* Empty; TaskDone *)
                      else done (set_worker (put_entry s r (with_state e RRunning)) w (WRun p r))
          | None => done (set_worker s w WIdle)
          end
      | _ => done s
      end
  | IFinish w r paused =>
      (* finishTask: TaskDone, then the state of the response *)
      let s1 := match aget w (workers s) with Some (WFinishing _ _) => set_worker s w WIdle | _ => s end in
      match aget r (table s1) with
      | None => done s1
      | Some e =>
          if e_neterr e then done (del_entry s1 r)        (* nothing queued after the error will be sent *)
          else if paused then done (put_entry s1 r (with_sig (with_state e RPaused) SigNone))
          else match e_sig e with
               | SigNetOrCtx => done (del_entry s1 r)
               | _ => done (put_entry s1 r (with_state e RCompleting))
               end
      end
  end.

(* ---- labels ---- *)
Inductive label :=
| Env_Msg (m : list item)          (* a network message / API call / notification reaches rm.messages *)
| Loop_Step                        (* the loop takes the next message, or handles the next item of the current one *)
| Loop_Unblock                     (* the loop's reservation is no longer pending *)
| Worker_Pop (w : N) (i : nat)     (* idle worker w pops the i-th pending task *)
| Worker_Step (w : N)
| Worker_Unblock (w : N)
| MQ_Send (q : peer)               (* q's queue sends what is queued and the send completes *)
| Env_PeerTable (p : peer).        (* a WRITE to the message manager's peer table: Connected(p), Disconnected(p), the
                                      creation of p's queue by its first message, a queue's shutdown callback *)

Definition wpc_peer (x : wpc) : option peer :=
  match x with
  | WIdle => None
  | WStarting p _ | WRun p _ | WWait p _ _ _ _ _ _ | WFinishing p _ => Some p
  end.
Definition active_for (p : peer) (x : N * wpc) : bool :=
  match wpc_peer (snd x) with Some q => N.eqb q p | None => false end.
Definition active_count (ws : list (N * wpc)) (p : peer) : N := N.of_nat (length (filter (active_for p) ws)).

(* items the environment may send: everything except the two worker round trips *)
Definition env_item (it : item) : bool :=
  match it with IStart _ _ | IFinish _ _ _ => false | _ => true end.

Fixpoint remove_nth {A} (i : nat) (l : list A) : list A :=
  match l, i with
  | [], _ => []
  | _ :: r, O => r
  | x :: r, S k => x :: remove_nth k r
  end.

Definition is_stalled (c : cfg) (p : peer) : bool := existsb (N.eqb p) (c_stalled c).

Definition block_bytes (l : list qent) : N :=
  fold_right (fun e acc => match e with QBlock _ n => n + acc | _ => acc end) 0 l.

(* the executor after a transaction *)
Definition after_tx (s : state) (w : N) (p : peer) (r : rid) (nx : wnext) : state :=
  match nx with
  | NContinue => set_worker s w (WRun p r)
  | NFinishPaused => post (set_worker s w (WFinishing p r)) [IFinish w r true]
  end.

Definition worker_tx (s : state) (w : N) (p : peer) (r : rid) (n added : N) (ents : list qent)
           (nx : wnext) : state :=
  match reserve (al s) p n with
  | (a', None) => after_tx (build (set_al s a') p n added ents) w p r nx
  | (a', Some t) => set_worker (set_al s a') w (WWait p r t n added ents nx)
  end.

Definition finish_worker (s : state) (w : N) (p : peer) (r : rid) : state :=
  post (set_worker s w (WFinishing p r)) [IFinish w r false].

Definition worker_step (s : state) (w : N) : option state :=
  match aget w (workers s) with
  | Some (WRun p r) =>
      match aget r (table s) with
      | None => Some (finish_worker s w p r)                    (* terminated meanwhile: context cancelled *)
      | Some e =>
          match e_sig e with
          | SigNetOrCtx => Some (finish_worker s w p r)          (* ClearRequest, no transaction *)
          | SigCancelCmd =>                                       (* FinishWithError(RequestCancelled), size 0 *)
              Some (finish_worker (build s p 0 0 [QStatus r true]) w p r)
          | sg =>
              match e_plan e with
              | [] => Some (finish_worker (build s p 0 0 [QStatus r true]) w p r)       (* FinishRequest *)
              | (b, x) :: rest =>
                  let s1 := put_entry s r (with_plan e rest) in
                  match sg with
                  | SigPause => Some (worker_tx s1 w p r (b + x) b
                                        ([QStatus r false; QBlock r b] ++ ext_ent r x) NFinishPaused)
                  | _ => Some (worker_tx s1 w p r (b + x) b ([QBlock r b] ++ ext_ent r x) NContinue)
                  end
              end
          end
      end
  | _ => None
  end.

Definition step (c : cfg) (s : state) (l : label) : option state :=
  match l with
  | Env_Msg m => if forallb env_item m then Some (post s m) else None
  | Loop_Step =>
      match loop s with
      | LIdle => match mailbox s with
                 | [] => None
                 | m :: rest => Some (set_loop (set_mailbox s rest) (LRun m))
                 end
      | LRun [] => Some (set_loop s LIdle)
      | LRun (it :: rest) => Some (handle s it rest)
      | LWait _ _ _ _ _ _ _ => None
      end
  | Loop_Unblock =>
      match loop s with
      | LWait p t n st ents k rest =>
          if tkt_pending (al s) p t then None
          else Some (set_loop (apply_cont (build s p n 0 ents) k) (LRun rest))
      | _ => None
      end
  | Worker_Pop w i =>
      match aget w (workers s), nth_error (tq s) i with
      | Some WIdle, Some (p, r) =>
          if N.eqb (c_cap c) 0 || (active_count (workers s) p <? c_cap c)
          then Some (post (set_worker (set_tq s (remove_nth i (tq s))) w (WStarting p r)) [IStart w r])
          else None
      | _, _ => None
      end
  | Worker_Step w => worker_step s w
  | Worker_Unblock w =>
      match aget w (workers s) with
      | Some (WWait p r t n added ents nx) =>
          if tkt_pending (al s) p t then None
          else Some (after_tx (build s p n added ents) w p r nx)
      | _ => None
      end
  | MQ_Send q =>
      if is_stalled c q then None
      else match aget q (queues s) with
           | Some (e :: l) =>
               let s1 := set_sent (set_queues s (aput q [] (queues s))) (sent s ++ map (fun x => (q, x)) (e :: l)) in
               let b := block_bytes (e :: l) in
               if N.eqb b 0 then Some s1
               else let '(a', _, _, _) := Alloc.step (al s1) (ORelease q b) in Some (set_al s1 a')
           | _ => None
           end
  | Env_PeerTable _ =>
      (* PeerTableLockNotHeldAcrossWait: peermanager.GetProcess takes the table's lock and RETURNS before
         PeerMessageManager.AllocateAndBuildMessage calls the queue, i.e. before any reservation can wait, and no
         other holder of that lock waits on anything (getOrCreate starts a goroutine, Disconnected calls Shutdown
         after unlocking).  So a write to the table is never blocked by a waiting reservation and, once done,
         blocks nobody: in the model it is always enabled and changes nothing that decides blocking.  C25_partial,
         C25_workers_partial and the accept lemmas quantify over this label at every point of every history; the
         driver performs real table writes while a reservation of the stalled peer is parked in an executor. *)
      Some s
  end.

Inductive steps (c : cfg) : state -> list label -> state -> Prop :=
| steps_nil s : steps c s [] s
| steps_cons s l s1 tr s2 : step c s l = Some s1 -> steps c s1 tr s2 -> steps c s (l :: tr) s2.

(* ---- what C25 talks about ---- *)
Definition loop_waits_on (s : state) : option peer :=
  match loop s with LWait p _ _ _ _ _ _ => Some p | _ => None end.

Definition item_peer (it : item) : option peer :=
  match it with INew p _ _ _ _ _ | ICancel p _ | IUpdate p _ _ _ _ => Some p | _ => None end.

(* the extension bytes an item can make the loop reserve: the complement of the findings is "0" *)
Definition item_loop_ext (it : item) : N :=
  match it with
  | INew _ _ ext _ _ _ | IUpdate _ _ ext _ _ | IApiUnpause _ ext | IApiUpdate _ ext => ext
  | _ => 0
  end.
Definition msg_no_loop_ext (m : list item) : bool := forallb (fun it => N.eqb (item_loop_ext it) 0) m.
Definition label_no_loop_ext (l : label) : bool :=
  match l with Env_Msg m => msg_no_loop_ext m | _ => true end.

(* size of what is ahead of the loop before it has worked off [pre] *)
Definition loop_cur (s : state) : nat :=
  match loop s with LIdle => 0%nat | LRun r => S (length r) | LWait _ _ _ _ _ _ r => S (S (length r)) end.
Definition msgs_work (l : list (list item)) : nat :=
  fold_right (fun m acc => (S (S (length m)) + acc)%nat) 0%nat l.

(* a worker that is waiting for memory of peer p *)
Definition worker_waits_on (x : wpc) : option peer :=
  match x with WWait p _ _ _ _ _ _ => Some p | _ => None end.

(* ---- deterministic scheduler, used to evaluate the directed histories the harness drives ---- *)
Fixpoint first_some {A B} (f : A -> option B) (l : list A) : option B :=
  match l with [] => None | x :: r => match f x with Some y => Some y | None => first_some f r end end.

Fixpoint first_task (c : cfg) (s : state) (i : nat) (l : list (peer * rid)) : option nat :=
  match l with
  | [] => None
  | (p, _) :: r => if N.eqb (c_cap c) 0 || (active_count (workers s) p <? c_cap c) then Some i
                   else first_task c s (S i) r
  end.

Definition try_label (c : cfg) (s : state) (l : label) : option (label * state) :=
  match step c s l with Some s' => Some (l, s') | None => None end.

Definition worker_labels (c : cfg) (s : state) (w : N) : list label :=
  [Worker_Unblock w; Worker_Step w] ++
  match first_task c s 0 (tq s) with Some i => [Worker_Pop w i] | None => [] end.

Definition candidates (c : cfg) (s : state) : list label :=
  [Loop_Unblock; Loop_Step] ++ flat_map (fun x => worker_labels c s (fst x)) (workers s) ++
  map (fun x => MQ_Send (fst x)) (queues s).

Definition next_internal (c : cfg) (s : state) : option (label * state) :=
  first_some (try_label c s) (candidates c s).

Fixpoint settle (fuel : nat) (c : cfg) (s : state) : state * list label :=
  match fuel with
  | O => (s, [])
  | S f => match next_internal c s with
           | Some (l, s') => let '(s2, tr) := settle f c s' in (s2, l :: tr)
           | None => (s, [])
           end
  end.

Definition quiescent (c : cfg) (s : state) : bool :=
  match next_internal c s with None => true | Some _ => false end.

(* a directed history: messages arrive one at a time, the system runs until nothing internal is enabled *)
Inductive sev := EvMsg (m : list item) | EvPeerTable (p : peer).
Definition sev_label (e : sev) : label :=
  match e with EvMsg m => Env_Msg m | EvPeerTable p => Env_PeerTable p end.

Fixpoint run_script (fuel : nat) (c : cfg) (s : state) (es : list sev) : state * list label :=
  match es with
  | [] => (s, [])
  | e :: r =>
      match step c s (sev_label e) with
      | None => (s, [])
      | Some s1 => let '(s2, tr) := settle fuel c s1 in
                   let '(s3, tr') := run_script fuel c s2 r in (s3, sev_label e :: tr ++ tr')
      end
  end.

Definition run_msgs (fuel : nat) (c : cfg) (s : state) (ms : list (list item)) : state * list label :=
  run_script fuel c s (map EvMsg ms).

Definition answered (s : state) (q : peer) (r : rid) : bool :=
  existsb (fun x => N.eqb (fst x) q &&
                    match snd x with QStatus r' true => N.eqb r' r | _ => false end) (sent s).
Definition accepted (s : state) (r : rid) : bool := existsb (N.eqb r) (handled s).

Definition unstalled (c : cfg) : cfg :=
  {| c_workers := c_workers c; c_cap := c_cap c; c_maxtotal := c_maxtotal c; c_maxpeer := c_maxpeer c;
     c_stalled := [] |}.

(* ---- the cases the harness writes ---- *)
Record scase := {
  sc_cfg : cfg;
  sc_msgs : list sev;                (* the history (messages and peer-table writes), the last message is the probe *)
  sc_probe_peer : peer; sc_probe_rid : rid;
  sc_api_sites : list rid;           (* unused by the model; kept for the record *)
  (* observed on the implementation *)
  sc_obs_accepted : bool;            (* the probe's request hook ran while the stalled peer was stalled *)
  sc_obs_answered : bool;            (* the probe's final status reached the network while ... *)
  sc_obs_answered_after : bool       (* ... and after the stalled peer's sends were let through *)
}.

Definition case_fuel : nat := 400.

Definition model_verdict (x : scase) : bool * bool * bool :=
  let c := sc_cfg x in
  let '(s1, _) := run_script case_fuel c (init c) (sc_msgs x) in
  let '(s2, _) := settle case_fuel (unstalled c) s1 in
  (accepted s1 (sc_probe_rid x), answered s1 (sc_probe_peer x) (sc_probe_rid x),
   answered s2 (sc_probe_peer x) (sc_probe_rid x)).

Definition scase_agrees (x : scase) : bool :=
  let '(a, b, d) := model_verdict x in
  Bool.eqb a (sc_obs_accepted x) && Bool.eqb b (sc_obs_answered x) && Bool.eqb d (sc_obs_answered_after x).

(* the property on the implementation's observation: the other peer's request was accepted and answered
   although the stalled peer stayed stalled *)
Definition scase_mon25 (x : scase) : bool := sc_obs_accepted x && sc_obs_answered x.

(* ============================================================================================ *)
(* Requestor half: requestmanager/server.go run + client.go SendRequest.
   Every handler of the request manager's loop that reaches a peer's message queue does so through
   SendRequest = AllocateAndBuildMessage(p, 0, ...): the same [reserve] with size 0. *)
Definition send_request_size : N := 0.        (* requestmanager/client.go SendRequest: blkSize argument *)

Inductive qitem :=
| QNewRequest (p : peer) (r : rid)            (* newRequest: no send (the executor sends the request) *)
| QCancel (p : peer) (r : rid)                (* cancelRequest: SendRequest(cancel) *)
| QUpdate (p : peer) (r : rid)                (* update: SendRequest(update) *)
| QResponses (p : peer) (r : rid) (hook_update hook_err terminal : bool)
                                              (* processResponses: response hooks may send an update and / or a cancel *)
| QOther.                                     (* pause / unpause / getRequestTask / releaseRequestTask / peerStats: no send *)

Inductive qpc := QIdle | QRun (rest : list qitem) | QWait (p : peer) (t : ticket) (rest : list qitem).

Record qstate := { q_al : Alloc.st; q_mailbox : list (list qitem); q_loop : qpc; q_out : list (peer * rid) }.

Definition q_sends (it : qitem) : list (peer * rid) :=
  match it with
  | QCancel p r | QUpdate p r => [(p, r)]
  | QResponses p r hu he _ => (if hu then [(p, r)] else []) ++ (if he then [(p, r)] else [])
  | _ => []
  end.

(* the sends of one handler, one after the other; a wait would leave the loop at QWait *)
Fixpoint q_do_sends (a : Alloc.st) (out : list (peer * rid)) (l : list (peer * rid)) (rest : list qitem)
  : Alloc.st * list (peer * rid) * qpc :=
  match l with
  | [] => (a, out, QRun rest)
  | (p, r) :: l' =>
      match reserve a p send_request_size with
      | (a', None) => q_do_sends a' (out ++ [(p, r)]) l' rest
      | (a', Some t) => (a', out, QWait p t rest)
      end
  end.

Inductive qlabel := QEnv (m : list qitem) | QLoop | QAllocEnv (o : Alloc.op).
   (* QAllocEnv: the responder side and the message queues use the same allocator concurrently *)

Definition qstep (s : qstate) (l : qlabel) : option qstate :=
  match l with
  | QEnv m => Some {| q_al := q_al s; q_mailbox := q_mailbox s ++ [m]; q_loop := q_loop s; q_out := q_out s |}
  | QAllocEnv o => let '(a', _, _, _) := Alloc.step (q_al s) o in
                   Some {| q_al := a'; q_mailbox := q_mailbox s; q_loop := q_loop s; q_out := q_out s |}
  | QLoop =>
      match q_loop s with
      | QIdle => match q_mailbox s with
                 | [] => None
                 | m :: r => Some {| q_al := q_al s; q_mailbox := r; q_loop := QRun m; q_out := q_out s |}
                 end
      | QRun [] => Some {| q_al := q_al s; q_mailbox := q_mailbox s; q_loop := QIdle; q_out := q_out s |}
      | QRun (it :: rest) =>
          let '(a', out, pc) := q_do_sends (q_al s) (q_out s) (q_sends it) rest in
          Some {| q_al := a'; q_mailbox := q_mailbox s; q_loop := pc; q_out := out |}
      | QWait _ _ _ => None
      end
  end.

Inductive qsteps : qstate -> list qlabel -> qstate -> Prop :=
| qsteps_nil s : qsteps s [] s
| qsteps_cons s l s1 tr s2 : qstep s l = Some s1 -> qsteps s1 tr s2 -> qsteps s (l :: tr) s2.

Definition qinit (mt mp : N) : qstate :=
  {| q_al := Alloc.init mt mp; q_mailbox := []; q_loop := QIdle; q_out := [] |}.

(* run the requestor loop until it has nothing to do (or waits) *)
Fixpoint q_settle (fuel : nat) (s : qstate) : qstate :=
  match fuel with
  | O => s
  | S f => match qstep s QLoop with Some s' => q_settle f s' | None => s end
  end.

Fixpoint q_run (fuel : nat) (s : qstate) (ms : list (list qitem)) : qstate :=
  match ms with
  | [] => s
  | m :: r => match qstep s (QEnv m) with
              | Some s1 => q_run fuel (q_settle fuel s1) r
              | None => s
              end
  end.

Definition q_all_done (s : qstate) : bool :=
  match q_loop s, q_mailbox s with QIdle, [] => true | _, _ => false end.

Record qcase := {
  qc_mt : N; qc_mp : N;
  qc_fill : list (list item);          (* responder-side history of the same node that fills peer 1's allowance *)
  qc_msgs : list (list qitem);
  qc_obs_sent : bool;                  (* the request to the other peer reached the network *)
  qc_obs_done : bool                   (* its response was processed: progress delivered, channels closed, no error *)
}.

Definition qcase_model (x : qcase) : bool :=
  let c := {| c_workers := 2; c_cap := 0; c_maxtotal := qc_mt x; c_maxpeer := qc_mp x; c_stalled := [1] |} in
  let '(s1, _) := run_msgs case_fuel c (init c) (qc_fill x) in
  let q0 := {| q_al := al s1; q_mailbox := []; q_loop := QIdle; q_out := [] |} in
  q_all_done (q_run case_fuel q0 (qc_msgs x)).

Inductive anycase := CResp (x : scase) | CReq (y : qcase).

Definition anycase_agrees (c : anycase) : bool :=
  match c with
  | CResp x => scase_agrees x
  | CReq y => Bool.eqb (qcase_model y) (qc_obs_sent y && qc_obs_done y)
  end.
Definition anycase_mon25 (c : anycase) : bool :=
  match c with
  | CResp x => scase_mon25 x
  | CReq y => qc_obs_sent y && qc_obs_done y
  end.
