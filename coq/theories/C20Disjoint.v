(* C20Disjoint.v — C20 for two requests over plans with disjoint CID sets: whatever the interleaving of the two
   responder traversals over the shared link tracker, the order of the two requestor executions, the chunking
   and delivery of each response: each request ends as it would alone (C02's reference), under the C02 guards
   for each. *)
From Coq Require Import List Arith NArith Bool Lia ZifyBool ZifyNat ZifyN.
From GS Require Import Base Ltree RecLoader ReqExec RecLoaderProofs C02Online C02Chunks C02Prefix C02PrefixProofs C02Replay C02Run.
From GS Require Import LinkTracker LinkTrackerProofs Concurrent ConcurrentGen C20Tracker C20Streams.
Import ListNotations.
Open Scope N_scope.
Local Arguments N.add : simpl never.

(* ---------- skip_of = the number of links held locally before the first miss ---------- *)
Definition lk (L : store) := fun (u : unit) (p : path) (c : cid) => (u, match aget c L with Some _ => AOk | None => ASkip end).
Fixpoint okp (evs : list ev) : N :=
  match evs with
  | [] => 0
  | ELoad _ _ AOk :: r => 1 + okp r
  | ELoad _ _ _ :: _ => 0
  | EVisit _ :: r => okp r
  end.
Fixpoint allok (evs : list ev) : bool :=
  match evs with
  | [] => true
  | ELoad _ _ AOk :: r => allok r
  | ELoad _ _ _ :: _ => false
  | EVisit _ :: r => allok r
  end.
Lemma skip_of_okp t L : skip_of t L = okp (snd (fst (run_tree (lk L) t tt))).
Proof. reflexivity. Qed.
Lemma okp_app a b : okp (a ++ b) = if allok a then okp a + okp b else okp a.
Proof.
  induction a as [|[p c x|v] a IH]; cbn [app okp allok]; [lia| |exact IH].
  destruct x; try reflexivity. rewrite IH. destruct (allok a); lia.
Qed.
Lemma allok_app a b : allok (a ++ b) = allok a && allok b.
Proof. induction a as [|[p c x|v] a IH]; cbn [app allok andb]; [reflexivity| |exact IH]. destruct x; auto. Qed.

Lemma local_events L :
  (forall t u, let '(u', evs, ok) := run_tree (lk L) t u in
     ok = true /\ okp evs = N.of_nat (fst (lpre L (tnodes t))) /\ allok evs = snd (lpre L (tnodes t))) /\
  (forall l u, let '(u', evs, ok) := run_items (lk L) l u in
     ok = true /\ okp evs = N.of_nat (fst (lpre L (inodes l))) /\ allok evs = snd (lpre L (inodes l))).
Proof.
  apply (ltree_items_ind
    (fun t => forall u, let '(u', evs, ok) := run_tree (lk L) t u in
       ok = true /\ okp evs = N.of_nat (fst (lpre L (tnodes t))) /\ allok evs = snd (lpre L (tnodes t)))
    (fun l => forall u, let '(u', evs, ok) := run_items (lk L) l u in
       ok = true /\ okp evs = N.of_nat (fst (lpre L (inodes l))) /\ allok evs = snd (lpre L (inodes l)))).
  - intros p c body IH u. rewrite run_tree_node. unfold lk at 1. cbn [tnodes lpre].
    destruct (aget c L) as [b|].
    + specialize (IH u). destruct (run_items (lk L) body u) as [[u2 evs] ok].
      destruct (lpre L (inodes body)) as [n okb]. cbn [fst snd okp allok] in *. destruct IH as (A & B & C).
      split; [exact A|]. split; [rewrite B; lia | exact C].
    + cbn. auto.
  - intro u. cbn. auto.
  - intros v r IH u. rewrite run_items_visit. specialize (IH u). destruct (run_items (lk L) r u) as [[u2 evs] ok]. exact IH.
  - intros t IHt r IHr u. rewrite run_items_child. specialize (IHt u). cbn [inodes].
    destruct (run_tree (lk L) t u) as [[u1 e1] ok1]. destruct IHt as (A & B & C). subst ok1.
    specialize (IHr u1). destruct (run_items (lk L) r u1) as [[u2 e2] ok2]. destruct IHr as (A2 & B2 & C2).
    rewrite okp_app, allok_app, lpre_app, B, B2, C, C2. split; [exact A2|].
    destruct (snd (lpre L (tnodes t))); cbn [fst snd andb]; split; auto. lia.
Qed.

Lemma skip_of_lpre t L : skip_of t L = N.of_nat (fst (lpre L (tnodes t))).
Proof.
  rewrite skip_of_okp. destruct (local_events L) as [H _]. specialize (H t tt).
  destruct (run_tree (lk L) t tt) as [[u evs] ok]. cbn [fst snd]. tauto.
Qed.

(* ---------- the links of the responder's stream are links of the plan ---------- *)
Lemma emit_links R :
  (forall t seen it, In it (fst (emit_tree R t seen)) -> In (i_link it) (plan_cids t)) /\
  (forall l seen it, In it (fst (emit_items R l seen)) -> In (i_link it) (items_cids l)).
Proof.
  apply (ltree_items_ind
    (fun t => forall seen it, In it (fst (emit_tree R t seen)) -> In (i_link it) (plan_cids t))
    (fun l => forall seen it, In it (fst (emit_items R l seen)) -> In (i_link it) (items_cids l))).
  - intros p c body IH seen it Hin. cbn [plan_cids]. destruct (aget c R) as [b|] eqn:ER.
    + rewrite (emit_present R p c body b seen ER) in Hin. cbn [fst] in Hin.
      destruct Hin as [<-|Hin]; [now left | right; now apply (IH (c :: seen))].
    + rewrite (emit_missing R p c body seen ER) in Hin. destruct Hin as [<-|[]]. now left.
  - intros seen it [].
  - intros v r IH seen it Hin. rewrite emit_items_visit in Hin. now apply (IH seen).
  - intros t IHt r IHr seen it Hin. rewrite emit_items_child in Hin.
    pose proof (IHt seen it) as A. destruct (emit_tree R t seen) as [a s1]. pose proof (IHr s1 it) as B.
    destruct (emit_items R r s1) as [b s2]. cbn [fst items_cids] in *.
    apply in_app_iff in Hin. apply in_app_iff. tauto.
Qed.

Lemma Wof_plan R t l : In l (Wof (md_of t R)) -> In l (plan_cids t).
Proof.
  unfold Wof, md_of. intro H. apply in_map_iff in H as ([c h] & <- & Hin). apply filter_In in Hin as [Hin _].
  apply in_map_iff in Hin as (it & E & Hit). inversion E; subst. cbn [fst].
  rewrite resp_items_emit in Hit. now apply (proj1 (emit_links R) t []).
Qed.

Lemma disjoint_plans_spec t1 t2 : disjoint_plans t1 t2 = true -> forall c, In c (plan_cids t1) -> In c (plan_cids t2) -> False.
Proof.
  unfold disjoint_plans. rewrite forallb_forall. intros H c H1 H2. specialize (H c H1).
  apply negb_true_iff in H. apply existsb_eqb_in' in H2. congruence.
Qed.

(* ---------- one request, run from a store that agrees with L on the plan's CIDs ---------- *)
Lemma list_eqb_refl {A} (eqb : A -> A -> bool) (Heq : forall x y, eqb x y = true <-> x = y) l : list_eqb eqb l l = true.
Proof. now apply (list_eqb_eq eqb Heq). Qed.

Lemma one_run t L R st dv :
  c02_guards t L R = true -> agree R L -> agree R st -> meq (plan_cids t) st L ->
  let r := run_one_gen t R st (resp_items t R (skip_of t L)) dv in
  same_result (mk_outcome r) (ref_outcome t L R) = true /\ x_store (fst (fst r)) = fst (ref_tree R t true st).
Proof.
  intros Hg HaL Hast Hm. unfold c02_guards in Hg.
  apply andb_true_iff in Hg as [Hg HF1]. apply andb_true_iff in Hg as [Hg HR]. apply andb_true_iff in Hg as [Hwf Hord].
  assert (HR' : aget (root_cid t) R <> None) by (destruct (aget (root_cid t) R); [discriminate | discriminate]).
  destruct (scan_meq (plan_cids t) st L R Hm) as [Hsc _]. destruct (Hsc t (incl_refl _)) as [Hal Hnf].
  assert (HF1' : no_F1 t st R = true) by (unfold no_F1, no_F1_scan in *; now rewrite Hal, Hnf).
  assert (Hlp : lpre st (tnodes t) = lpre L (tnodes t)).
  { apply (lpre_meq (plan_cids t)); [exact Hm|]. rewrite (proj1 tnodes_cids). apply incl_refl. }
  cbv zeta. unfold run_one_gen.
  rewrite (run_congr (fun _ => mk_msgs (dv_sizes dv) (resp_items t R (skip_of t L)) (resp_status t R))
                     (honest t R (dv_sizes dv)) st t (dv_sched dv))
    by (intros _; unfold honest; now rewrite Hlp, <- skip_of_lpre).
  pose proof (c02_run_full t st R (dv_sizes dv) (dv_sched dv) Hwf Hast HR' Hord HF1') as Hrun.
  unfold run_ok in Hrun.
  destruct (proj1 (ref_meq (plan_cids t) R) t true st L (incl_refl _) Hm) as [Ho _].
  destruct (run_request proper_prefix (honest t R (dv_sizes dv)) 0 t st [] (dv_sched dv)) as [[x evs] ok].
  unfold ref_outcome. destruct (ref_tree R t true st) as [st' o]. destruct (ref_tree R t true L) as [stL oL].
  cbn [fst snd] in *. subst oL.
  destruct Hrun as (A & B & C & D & F & (evs' & G)). split; [|exact C].
  unfold same_result, mk_outcome, outcome_of, final_errs.
  cbn [fst snd o_visits o_missing o_other_errs]. rewrite B, A, D, F, G, missing_of_merrs, length_merrs.
  rewrite (list_eqb_refl N.eqb N.eqb_eq), (list_eqb_refl pc_eqb pc_eqb_eq). cbn [andb root_skipped].
  apply N.eqb_eq. lia.
Qed.

(* ---------- C20 for disjoint plans ---------- *)
Theorem c20_disjoint L R q1 q2 order first2 dv1 dv2 :
  agree R L ->
  c02_guards (cq_plan q1) L R = true -> c02_guards (cq_plan q2) L R = true ->
  disjoint_plans (cq_plan q1) (cq_plan q2) = true ->
  let r := run_two_gen L R q1 q2 order first2 dv1 dv2 in
  same_result (fst r) (solo L R q1) = true /\ same_result (snd r) (solo L R q2) = true.
Proof.
  intros Hag G1 G2 Hd. pose proof (disjoint_plans_spec _ _ Hd) as Hdj.
  cbv zeta. unfold run_two_gen, solo.
  rewrite (c20_streams R q1 q2 _ _ order)
    by (right; intros l H1 H2; apply (Hdj l); [now apply (Wof_plan R) | now apply (Wof_plan R)]).
  assert (Hm0 : forall t, meq (plan_cids t) L L) by (intros t c _; tauto).
  destruct first2.
  - destruct (one_run (cq_plan q2) L R L dv2 G2 Hag Hag (Hm0 _)) as [S2 St2]. cbv zeta in S2, St2.
    set (rb := run_one_gen (cq_plan q2) R L (resp_items (cq_plan q2) R (skip_of (cq_plan q2) L)) dv2) in *.
    assert (Ha' : agree R (x_store (fst (fst rb)))) by (rewrite St2; now apply (proj1 (ref_agree R))).
    assert (Hm' : meq (plan_cids (cq_plan q1)) (x_store (fst (fst rb))) L).
    { intros c Hc. rewrite St2, (proj1 (ref_frame R) (cq_plan q2) true L c); [tauto|]. intro H2. exact (Hdj c Hc H2). }
    destruct (one_run (cq_plan q1) L R _ dv1 G1 Hag Ha' Hm') as [S1 _]. cbv zeta in S1.
    cbn [fst snd]. split; [exact S1 | exact S2].
  - destruct (one_run (cq_plan q1) L R L dv1 G1 Hag Hag (Hm0 _)) as [S1 St1]. cbv zeta in S1, St1.
    set (ra := run_one_gen (cq_plan q1) R L (resp_items (cq_plan q1) R (skip_of (cq_plan q1) L)) dv1) in *.
    assert (Ha' : agree R (x_store (fst (fst ra)))) by (rewrite St1; now apply (proj1 (ref_agree R))).
    assert (Hm' : meq (plan_cids (cq_plan q2)) (x_store (fst (fst ra))) L).
    { intros c Hc. rewrite St1, (proj1 (ref_frame R) (cq_plan q1) true L c); [tauto|]. intro H1. exact (Hdj c H1 Hc). }
    destruct (one_run (cq_plan q2) L R _ dv2 G2 Hag Ha' Hm') as [S2 _]. cbv zeta in S2.
    cbn [fst snd]. split; [exact S1 | exact S2].
Qed.

(* Concurrent.run_two is the instance: one message per response, delivered on demand *)
Lemma run_two_plain L R q1 q2 order first2 : run_two L R q1 q2 order first2 = run_two_gen L R q1 q2 order first2 dv_plain dv_plain.
Proof. reflexivity. Qed.

Corollary c20_disjoint_run_two L R q1 q2 order first2 :
  agree R L ->
  c02_guards (cq_plan q1) L R = true -> c02_guards (cq_plan q2) L R = true ->
  disjoint_plans (cq_plan q1) (cq_plan q2) = true ->
  same_result (fst (run_two L R q1 q2 order first2)) (solo L R q1) = true /\
  same_result (snd (run_two L R q1 q2 order first2)) (solo L R q2) = true.
Proof. intros. rewrite run_two_plain. now apply c20_disjoint. Qed.
