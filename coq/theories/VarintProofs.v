(* VarintProofs.v — round trips of the byte-level layers: big-endian integers, unsigned varints,
   length-prefixed frames. *)
From Coq Require Import List NArith ZArith Bool Lia ZifyBool ZifyNat ZifyN.
From GS Require Import Base Varint.
Import ListNotations.
Open Scope N_scope.
Ltac Zify.zify_post_hook ::= Z.div_mod_to_equations.

Lemma blen_app {A} (a b : list A) : blen (a ++ b) = blen a + blen b.
Proof. unfold blen. rewrite app_length. lia. Qed.
Lemma blen_cons {A} (x : A) (a : list A) : blen (x :: a) = blen a + 1.
Proof. unfold blen. simpl length. lia. Qed.
Lemma blen_nil {A} : blen (@nil A) = 0.
Proof. reflexivity. Qed.

Lemma bytes_eqb_eq a b : bytes_eqb a b = true <-> a = b.
Proof. unfold bytes_eqb. apply list_eqb_eq. intros; apply N.eqb_eq. Qed.
Lemma bytes_eqb_refl a : bytes_eqb a a = true.
Proof. now apply bytes_eqb_eq. Qed.
Lemma bytes_eqb_neq a b : a <> b -> bytes_eqb a b = false.
Proof. intro H. destruct (bytes_eqb a b) eqn:E; [apply bytes_eqb_eq in E; contradiction | reflexivity]. Qed.

(* ---------- take ---------- *)
Lemma take_n_app (a rest : bytes) : take_n (blen a) (a ++ rest) = Some (a, rest).
Proof.
  unfold take_n. rewrite blen_app.
  destruct (N.ltb_spec (blen a + blen rest) (blen a)); [lia|].
  unfold blen. rewrite Nat2N.id.
  rewrite firstn_app, Nat.sub_diag, firstn_all. simpl. rewrite app_nil_r.
  rewrite skipn_app, Nat.sub_diag, skipn_all. reflexivity.
Qed.

Lemma take_n_length n bs a r : take_n n bs = Some (a, r) -> bs = a ++ r /\ blen a = n.
Proof.
  unfold take_n. destruct (N.ltb_spec (blen bs) n); [discriminate|].
  intro E; inversion E; subst. split; [symmetry; apply firstn_skipn|].
  unfold blen in *. rewrite firstn_length. lia.
Qed.

(* ---------- big-endian ---------- *)
Lemma be_length k n : length (be k n) = k.
Proof. revert n; induction k; intro n; simpl; [reflexivity|]. rewrite app_length, IHk. simpl. lia. Qed.

Lemma be_dec_snoc a b : be_dec (a ++ [b]) = be_dec a * 256 + b.
Proof. unfold be_dec. rewrite fold_left_app. reflexivity. Qed.

Lemma be_dec_be k n : be_dec (be k n) = n mod 256 ^ N.of_nat k.
Proof.
  revert n; induction k; intro n.
  - simpl. now rewrite N.mod_1_r.
  - cbn [be]. rewrite be_dec_snoc, IHk.
    rewrite Nat2N.inj_succ, N.pow_succ_r'.
    rewrite N.mod_mul_r by (try apply N.pow_nonzero; lia). lia.
Qed.

Lemma be_dec_be_small k n : n < 256 ^ N.of_nat k -> be_dec (be k n) = n.
Proof. intro H. rewrite be_dec_be. now apply N.mod_small. Qed.

(* ---------- varint ---------- *)
Lemma pow7_succ i : 2 ^ (7 * (i + 1)) = 128 * 2 ^ (7 * i).
Proof. replace (7 * (i + 1)) with (7 + 7 * i) by lia. rewrite N.pow_add_r. reflexivity. Qed.

Lemma uvd_enc f : forall m i x rest,
  i <= 8 -> 9 <= i + N.of_nat f -> m < 128 ^ (9 - i) -> (0 < i -> 0 < m) ->
  uvd (uvarint_enc_fuel f m ++ rest) i x = VOk (x + m * 2 ^ (7 * i)) rest.
Proof.
  induction f as [|f IH]; intros m i x rest Hi Hf Hm Hpos.
  - assert (i = 9) by lia. lia.
  - cbn [uvarint_enc_fuel].
    destruct (N.ltb_spec m 128) as [Hlt|Hge].
    + cbn [app uvd].
      replace ((i =? 8) && (128 <=? m)) with false
        by (symmetry; apply andb_false_iff; right; apply N.leb_gt; exact Hlt).
      replace (9 <=? i) with false by (symmetry; apply N.leb_gt; lia).
      cbn [orb].
      replace (m <? 128) with true by (symmetry; apply N.ltb_lt; exact Hlt).
      destruct (N.eqb_spec m 0) as [Hm0|Hm0]; cbn [andb].
      * destruct (N.ltb_spec 0 i) as [Hi0|Hi0]; [specialize (Hpos Hi0); lia|reflexivity].
      * reflexivity.
    + (* continuation byte *)
      assert (Hi7 : i <= 7).
      { destruct (N.le_gt_cases i 7) as [|Hgt]; [assumption|].
        assert (i = 8) by lia. subst i. simpl in Hm. lia. }
      cbn [app uvd].
      replace (i =? 8) with false by (symmetry; apply N.eqb_neq; lia).
      replace (9 <=? i) with false by (symmetry; apply N.leb_gt; lia).
      cbn [andb orb].
      assert (Hb : m mod 128 < 128) by (apply N.mod_lt; lia).
      replace (m mod 128 + 128 <? 128) with false by (symmetry; apply N.ltb_ge; generalize (m mod 128); intros; lia).
      rewrite IH.
      * f_equal. rewrite pow7_succ.
        replace (m mod 128 + 128 - 128) with (m mod 128) by lia.
        rewrite (N.div_mod m 128) at 3 by lia. lia.
      * lia.
      * lia.
      * replace (9 - i) with (N.succ (9 - (i + 1))) in Hm by lia.
        rewrite N.pow_succ_r' in Hm. apply N.div_lt_upper_bound; lia.
      * intros _. apply N.div_str_pos. lia.
Qed.

Theorem uvarint_roundtrip n rest :
  n < 2 ^ 63 -> uvarint_dec (uvarint_enc n ++ rest) = VOk n rest.
Proof.
  intro H. unfold uvarint_dec, uvarint_enc.
  rewrite uvd_enc; try lia.
  - f_equal. simpl. lia.
  - simpl. exact H.
Qed.

Lemma uvarint_roundtrip_opt n rest :
  n < 2 ^ 63 -> uvarint_dec_opt (uvarint_enc n ++ rest) = Some (n, rest).
Proof. intro H. unfold uvarint_dec_opt. now rewrite uvarint_roundtrip. Qed.

(* a successful varint read consumes at least one byte *)
Lemma uvd_shrinks bs : forall i x n r, uvd bs i x = VOk n r -> (length r < length bs)%nat.
Proof.
  induction bs as [|b bs IH]; intros i x n r; cbn [uvd].
  - destruct (i =? 0); discriminate.
  - destruct (((i =? 8) && (128 <=? b)) || (9 <=? i)); [discriminate|].
    destruct (b <? 128).
    + destruct ((b =? 0) && (0 <? i)); [discriminate|]. intro E; inversion E; subst. simpl. lia.
    + intro E. apply IH in E. simpl. lia.
Qed.

(* ---------- frames ---------- *)
Theorem frame_roundtrip body rest :
  0 < blen body -> blen body <= MessageSizeMax ->
  read_frame (frame_enc body ++ rest) = FOk body rest.
Proof.
  intros Hpos Hmax. unfold read_frame, frame_enc. rewrite <- app_assoc.
  rewrite uvarint_roundtrip by (unfold MessageSizeMax in Hmax; lia).
  destruct (N.eqb_spec (blen body) 0); [lia|].
  destruct (N.ltb_spec MessageSizeMax (blen body)); [lia|].
  now rewrite take_n_app.
Qed.

(* a frame that is read is a strict prefix-split of the input: progress for the stream loops *)
Lemma read_frame_shrinks bs f rest : read_frame bs = FOk f rest -> (length rest < length bs)%nat.
Proof.
  unfold read_frame, uvarint_dec. destruct (uvd bs 0 0) as [| |n r] eqn:E; try discriminate.
  apply uvd_shrinks in E.
  destruct (n =? 0); [intro X; inversion X; subst; exact E|].
  destruct (MessageSizeMax <? n); [discriminate|].
  destruct (take_n n r) as [[a r']|] eqn:T; [|discriminate].
  intro X; inversion X; subst. apply take_n_length in T as [T _].
  rewrite T in E. rewrite app_length in E. lia.
Qed.

Lemma read_frame_split bs f rest : read_frame bs = FOk f rest -> exists pre, bs = pre ++ f ++ rest.
Proof.
  unfold read_frame, uvarint_dec. destruct (uvd bs 0 0) as [| |n r] eqn:E; try discriminate.
  assert (Hp : forall bs i x n r, uvd bs i x = VOk n r -> exists pre, bs = pre ++ r).
  { clear. induction bs as [|b bs IH]; intros i x n r; cbn [uvd].
    - destruct (i =? 0); discriminate.
    - destruct (((i =? 8) && (128 <=? b)) || (9 <=? i)); [discriminate|].
      destruct (b <? 128).
      + destruct ((b =? 0) && (0 <? i)); [discriminate|]. intro X; inversion X; subst. now exists [b].
      + intro X. apply IH in X as [pre ->]. now exists (b :: pre). }
  apply Hp in E as [pre ->].
  destruct (n =? 0); [intro X; inversion X; subst; now exists pre|].
  destruct (MessageSizeMax <? n); [discriminate|].
  destruct (take_n n r) as [[a r']|] eqn:T; [|discriminate].
  intro X; inversion X; subst. apply take_n_length in T as [T _]. exists pre. now rewrite T.
Qed.
