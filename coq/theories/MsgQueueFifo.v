(* MsgQueueFifo.v — the FIFO clause of C17 over the message-queue model: messages handed to the network
   leave in the order of their topics, i.e. in the order their builders were created; and a transaction is
   never built into a message older than the one an earlier transaction went into.
   (For the integrator: to be folded into coq/props/C17.v.) *)
From Coq Require Import List NArith Bool Lia Arith PeanoNat.
From GS Require Import Base MsgQueue MsgQueueProofs MsgQueue16 MsgQueue16Proofs.
Import ListNotations.
Open Scope N_scope.
Local Arguments N.add : simpl never.
Local Arguments N.sub : simpl never.

(* the topics of the messages whose SendMsg returned ok during a history, in order *)
Definition step_wire (s : mq) (l : qlabel16) : list N := map w_topic (q_wire (snd (qstep16 s l))).
Fixpoint wire_topics (s : mq) (ls : list qlabel16) : list N :=
  match ls with [] => [] | l :: r => step_wire s l ++ wire_topics (fst (qstep16 s l)) r end.

Fixpoint incr_from (lo : N) (l : list N) : Prop :=
  match l with [] => True | t :: r => lo <= t /\ incr_from (t + 1) r end.
Lemma incr_from_weaken lo lo' l : lo' <= lo -> incr_from lo l -> incr_from lo' l.
Proof. destruct l; simpl; [auto | intuition lia]. Qed.

(* the lowest topic that can still be sent: the message in flight, else the head of the queue *)
Definition bound (s : mq) : N :=
  match pend_of s with Some (b, _) => b_topic b | None => qlowb (builders s) (next_topic s) end.

Definition TIncr (lo : N) (s : mq) : Prop := incr lo (next_topic s) (topics (builders s)).

Lemma incr_from_qlow lo nt bs : incr lo nt (topics bs) -> incr (qlowb bs nt) nt (topics bs).
Proof. destruct bs as [|b bs]; simpl; [lia | intros [A B]; split; [lia | exact B]]. Qed.

Lemma scrubbed_incr lo nt rs bs : incr lo nt (topics bs) -> incr lo nt (topics (scrubbed_builders rs bs)).
Proof. intro H. unfold scrubbed_builders. rewrite map_map. apply incr_filter_map; [intro; apply scrub_topic | exact H]. Qed.

Lemma publish_error_builders s b : builders (fst (publish_error s b)) = scrubbed_builders (subs_of b) (builders s) /\
  next_topic (fst (publish_error s b)) = next_topic s /\ q_wire (snd (publish_error s b)) = [].
Proof. Local Transparent publish_error. unfold publish_error. cbn. auto. Local Opaque publish_error. Qed.
Lemma publish_sent_wire s b : map w_topic (q_wire (snd (publish_sent s b))) = [b_topic b] /\ next_topic (fst (publish_sent s b)) = next_topic s.
Proof. Local Transparent publish_sent. unfold publish_sent. cbn. auto. Local Opaque publish_sent. Qed.

Lemma publish_error_tincr lo s b : TIncr lo s -> TIncr lo (fst (publish_error s b)).
Proof. unfold TIncr. destruct (publish_error_builders s b) as (-> & -> & _). apply scrubbed_incr. Qed.

Local Transparent drain run_loop.

Lemma wire_out_app a b : q_wire (out_app a b) = q_wire a ++ q_wire b.
Proof. reflexivity. Qed.

Lemma drain_floor : forall fuel s acc lo, TIncr lo s ->
  TIncr lo (fst (drain fuel s acc)) /\ q_wire (snd (drain fuel s acc)) = q_wire acc.
Proof.
  induction fuel as [|f IH]; intros s acc lo H; [split; [exact H | reflexivity]|]. cbn [drain].
  pose proof (skip_empty_incr _ _ _ H) as Hs. destruct (skip_empty (builders s)) as [|b rest] eqn:Es.
  - split; [exact Hs | reflexivity].
  - set (s1 := set_fields s rest (alloc s) (has_sender s) (work s) (done s) (ph s) (closed s)).
    assert (H1 : TIncr lo s1). { unfold TIncr. cbn. simpl in Hs. destruct Hs as [A B]. eapply incr_weaken; [|exact B]. lia. }
    pose proof (publish_error_tincr lo s1 b H1) as H2. destruct (publish_error_builders s1 b) as (_ & _ & Hw).
    destruct (publish_error s1 b) as [s2 o]. cbn [fst snd] in *.
    destruct (IH s2 (out_app acc o) lo H2) as [A B]. split; [exact A|]. rewrite B, wire_out_app, Hw. apply app_nil_r.
Qed.

Lemma bound_idle s : pend_of s = None -> bound s = qlowb (builders s) (next_topic s).
Proof. unfold bound. now intros ->. Qed.

Lemma run_loop_floor : forall fuel s acc lo, TIncr lo s -> ph s = PIdle ->
  let r := run_loop fuel s acc in lo <= bound (fst r) /\ TIncr lo (fst r) /\ q_wire (snd r) = q_wire acc.
Proof.
  induction fuel as [|f IH]; intros s acc lo H Hp.
  - cbn. rewrite bound_idle by (apply pend_idle, Hp). split; [apply (incr_qlow _ _ _ H) | split; [exact H | reflexivity]].
  - cbn [run_loop]. destruct (work s), (done s).
    + cbn. split; [apply (incr_qlow _ _ _ H) | split; [exact H | reflexivity]].
    + pose proof (skip_empty_incr _ _ _ H) as Hs. destruct (skip_empty (builders s)) as [|b rest] eqn:Es.
      * apply IH; [exact Hs | reflexivity].
      * simpl in Hs. destruct Hs as [A B].
        destruct (has_sender s); cbn; (split; [exact A | split; [unfold TIncr; cbn; eapply incr_weaken; [|exact B]; lia | apply app_nil_r]]).
    + destruct (drain_floor (S (length (builders s))) s acc lo H) as [A B].
      destruct (drain (S (length (builders s))) s acc) as [s1 o]. cbn [fst snd] in *.
      split; [|split; [exact A | exact B]]. unfold bound, pend_of. cbn. apply (incr_qlow _ _ _ A).
    + cbn. split; [apply (incr_qlow _ _ _ H) | split; [exact H | reflexivity]].
Qed.

Local Opaque drain run_loop.

Local Transparent do_build.
Lemma do_build_floor lo s r ops : TIncr lo s ->
  let s1 := fst (do_build s r ops) in
  TIncr lo s1 /\ qlowb (builders s1) (next_topic s1) = qlowb (builders s) (next_topic s) /\ q_wire (snd (do_build s r ops)) = [].
Proof.
  unfold TIncr. intro H. unfold do_build.
  destruct (mem_req r (closed s)); [cbn; auto|]. destruct (done s); [cbn; auto|].
  set (need_new := match last_opt (builders s) with
                   | None => true
                   | Some last => if ops_size ops =? 0 then false else max_block_size <? b_blk last + ops_size ops end).
  assert (Hbs : let bsnt := if need_new then (builders s ++ [bld_new (next_topic s)], next_topic s + 1) else (builders s, next_topic s) in
                incr lo (snd bsnt) (topics (fst bsnt)) /\ qlowb (fst bsnt) (snd bsnt) = qlowb (builders s) (next_topic s)).
  { destruct need_new; cbn [fst snd]; [|auto]. split; [unfold topics; rewrite map_app; apply incr_snoc, H | apply qlowb_snoc; reflexivity]. }
  destruct (if need_new then (builders s ++ [bld_new (next_topic s)], next_topic s + 1) else (builders s, next_topic s)) as [bs nt].
  cbn [fst snd] in Hbs. destruct Hbs as [A B]. cbn [fst snd builders next_topic q_wire out_nil].
  rewrite upd_last_topics, upd_last_qlow by apply build_ops_topic. auto.
Qed.
Local Opaque do_build.

Lemma do_touch_floor lo s size : TIncr lo s ->
  TIncr lo (do_touch s size) /\ qlowb (builders (do_touch s size)) (next_topic (do_touch s size)) = qlowb (builders s) (next_topic s).
Proof.
  unfold TIncr, do_touch. intro H. destruct (done s); [auto|].
  destruct (match last_opt (builders s) with Some last => if size =? 0 then false else max_block_size <? b_blk last + size | None => true end);
    cbn [builders next_topic]; [|auto].
  split; [unfold topics; rewrite map_app; apply incr_snoc, H | apply qlowb_snoc; reflexivity].
Qed.

Definition sends (s : mq) (w : list N) (s' : mq) : Prop :=
  w = [] \/ exists b k, pend_of s = Some (b, k) /\ w = [b_topic b] /\ b_topic b + 1 <= bound s'.

Lemma inv_floor s E A : InvS (pend_of s) s E A -> TIncr (bound s) s /\
  (forall b k, pend_of s = Some (b, k) -> TIncr (b_topic b + 1) s).
Proof.
  intro H. pose proof (i_incr _ _ _ _ _ _ H) as Hi. unfold bound, TIncr. destruct (pend_of s) as [[b k]|]; cbn [plo] in Hi.
  - split; [eapply incr_weaken; [|exact Hi]; lia | intros b0 k0 Heq; inversion Heq; subst; exact Hi].
  - split; [apply incr_from_qlow in Hi; exact Hi | intros; discriminate].
Qed.

Lemma bound_fields s s' : ph s' = ph s -> builders s' = builders s -> next_topic s' = next_topic s -> bound s' = bound s.
Proof. unfold bound, pend_of. intros -> -> ->. reflexivity. Qed.

Lemma qstep_floor s l E A : InvS (pend_of s) s E A ->
  bound s <= bound (fst (qstep s l)) /\ sends s (map w_topic (q_wire (snd (qstep s l)))) (fst (qstep s l)).
Proof.
  intro H. destruct (inv_floor s E A H) as [HT HTp]. destruct l as [r ops|ok| |tw]; unfold qstep.
  - (* build *)
    destruct (do_build_floor _ s r ops HT) as (H1 & Hq & Hw). pose proof (do_build_ph s r ops) as Hp.
    assert (Hb : bound (fst (do_build s r ops)) = bound s) by (unfold bound, pend_of; rewrite Hp, Hq; reflexivity).
    destruct (do_build s r ops) as [s1 o]. cbn [fst snd] in *.
    destruct (ph s1) eqn:Ep; try (cbn [fst snd]; rewrite Hw, Hb; split; [lia | left; reflexivity]).
    destruct (run_loop_floor (loop_fuel s1) s1 o _ H1 Ep) as (A1 & _ & A3). rewrite A3, Hw. split; [exact A1 | left; reflexivity].
  - (* network outcome *)
    destruct (ph s) as [|b i initial|b i| |] eqn:Ep;
      try (cbn [fst snd out_nil q_wire map]; split; [lia | left; reflexivity]).
    + assert (Hbs : bound s = b_topic b) by (unfold bound, pend_of; rewrite Ep; reflexivity).
      assert (Hpe : pend_of s = Some (b, [0])) by (unfold pend_of; rewrite Ep; reflexivity).
      specialize (HTp b [0] Hpe). rewrite Hbs. destruct ok.
      * destruct initial; [cbn; split; [unfold bound, pend_of; cbn; lia | left; reflexivity]|].
        destruct (Nat.ltb (S i) max_retries); [cbn; split; [unfold bound, pend_of; cbn; lia | left; reflexivity]|].
        set (s0 := set_fields s (builders s) (alloc s) true (work s) (done s) PIdle (closed s)).
        pose proof (publish_error_tincr _ s0 b HTp) as H1. pose proof (publish_error_ph s0 b) as [Hp _].
        destruct (publish_error_builders s0 b) as (_ & _ & Hw).
        destruct (publish_error s0 b) as [s1 o]. cbn [fst snd] in *.
        destruct (run_loop_floor (loop_fuel s1) s1 o _ H1 Hp) as (A1 & _ & A3). rewrite A3, Hw. split; [lia | left; reflexivity].
      * set (s0 := set_fields s (builders s) (alloc s) false (work s) (done s) PIdle (closed s)).
        pose proof (publish_error_tincr _ s0 b HTp) as H1.
        destruct (publish_error_builders s0 b) as (_ & _ & Hw).
        destruct (publish_error s0 b) as [s1 o]. cbn [fst snd] in *.
        set (s2 := set_fields s1 (builders s1) (alloc s1) false (work s1) (if initial then true else done s1) PIdle (closed s1)).
        destruct (run_loop_floor (loop_fuel s2) s2 o _ H1 eq_refl) as (A1 & _ & A3). rewrite A3, Hw. split; [lia | left; reflexivity].
    + assert (Hbs : bound s = b_topic b) by (unfold bound, pend_of; rewrite Ep; reflexivity).
      assert (Hpe : pend_of s = Some (b, [0])) by (unfold pend_of; rewrite Ep; reflexivity).
      specialize (HTp b [0] Hpe). rewrite Hbs. destruct ok.
      * set (s0 := set_fields s (builders s) (alloc s) true (work s) (done s) PIdle (closed s)).
        pose proof (publish_sent_builders s0 b) as Hb. pose proof (publish_sent_ph s0 b) as Hp.
        destruct (publish_sent_wire s0 b) as [Hw Hn].
        assert (H1 : TIncr (b_topic b + 1) (fst (publish_sent s0 b))) by (unfold TIncr; rewrite Hb, Hn; exact HTp).
        destruct (publish_sent s0 b) as [s1 o]. cbn [fst snd] in *.
        destruct (run_loop_floor (loop_fuel s1) s1 o _ H1 Hp) as (A1 & _ & A3). rewrite A3, Hw. split; [lia|].
        right. exists b, [0]. split; [exact Hpe | split; [reflexivity | exact A1]].
      * destruct (done s).
        -- set (s0 := set_fields s (builders s) (alloc s) false (work s) true PIdle (closed s)).
           pose proof (publish_error_tincr _ s0 b HTp) as H1. pose proof (publish_error_ph s0 b) as [Hp _].
           destruct (publish_error_builders s0 b) as (_ & _ & Hw).
           destruct (publish_error s0 b) as [s1 o]. cbn [fst snd] in *.
           destruct (run_loop_floor (loop_fuel s1) s1 o _ H1 Hp) as (A1 & _ & A3). rewrite A3, Hw. split; [lia | left; reflexivity].
        -- cbn. split; [unfold bound, pend_of; cbn; lia | left; reflexivity].
  - (* shutdown *)
    assert (Hb1 : bound (set_fields s (builders s) (alloc s) (has_sender s) (work s) true (ph s) (closed s)) = bound s)
      by (apply bound_fields; reflexivity).
    destruct (ph s) eqn:Ep; try (cbn [fst snd out_nil q_wire map]; rewrite Hb1; split; [lia | left; reflexivity]).
    destruct (run_loop_floor (loop_fuel (set_fields s (builders s) (alloc s) (has_sender s) (work s) true PIdle (closed s)))
                (set_fields s (builders s) (alloc s) (has_sender s) (work s) true PIdle (closed s)) out_nil _ HT eq_refl) as (A1 & _ & A3).
    rewrite A3. split; [exact A1 | left; reflexivity].
  - (* select choice *)
    destruct (ph s) eqn:Ep; try (cbn [fst snd out_nil q_wire map]; split; [lia | left; reflexivity]). destruct tw.
    + set (s1 := set_fields s (builders s) (alloc s) (has_sender s) true false PIdle (closed s)).
      destruct (run_loop_floor 1 s1 out_nil _ HT eq_refl) as (A1 & A2 & A3).
      destruct (run_loop 1 s1 out_nil) as [s2 o]. cbn [fst snd] in *.
      set (s3 := set_fields s2 (builders s2) (alloc s2) (has_sender s2) (work s2) true (ph s2) (closed s2)).
      assert (Hb3 : bound s3 = bound s2) by (apply bound_fields; reflexivity).
      destruct (ph s3) eqn:Ep3; try (cbn [fst snd]; rewrite Hb3, A3; split; [exact A1 | left; reflexivity]).
      destruct (run_loop_floor (loop_fuel s3) s3 o _ A2 Ep3) as (B1 & _ & B3). rewrite B3, A3. split; [exact B1 | left; reflexivity].
    + set (s1 := set_fields s (builders s) (alloc s) (has_sender s) false true PIdle (closed s)).
      destruct (drain_floor (S (length (builders s1))) s1 out_nil _ HT) as [D1 D2].
      destruct (drain (S (length (builders s1))) s1 out_nil) as [s2 o]. cbn [fst snd] in *. rewrite D2.
      split; [|left; reflexivity]. unfold bound at 2, pend_of. cbn. apply (incr_qlow _ _ _ D1).
Qed.

Lemma qstep16_floor s l E A : InvS (pend_of s) s E A ->
  bound s <= bound (fst (qstep16 s l)) /\ sends s (step_wire s l) (fst (qstep16 s l)).
Proof.
  intro H. destruct l as [l|r ops|sz]; [exact (qstep_floor s l E A H)| |].
  2:{ unfold step_wire, qstep16. destruct (inv_floor s E A H) as [HT _].
      destruct (do_touch_floor _ s sz HT) as [H1 Hq]. pose proof (do_touch_ph s sz) as Hp.
      assert (Hb : bound (do_touch s sz) = bound s) by (unfold bound, pend_of; rewrite Hp, Hq; reflexivity).
      destruct (ph (do_touch s sz)) eqn:Ep; try (cbn [fst snd out_nil q_wire map]; rewrite Hb; split; [lia | left; reflexivity]).
      destruct (run_loop_floor (loop_fuel (do_touch s sz)) (do_touch s sz) out_nil _ H1 Ep) as (A1 & _ & A3).
      rewrite A3. split; [exact A1 | left; reflexivity]. }
  unfold step_wire, qstep16. destruct (inv_floor s E A H) as [HT _].
  destruct (do_build_floor _ s r ops HT) as (H1 & Hq & Hw). pose proof (do_build_ph s r ops) as Hp.
  assert (Hb : bound (fst (do_build s r ops)) = bound s) by (unfold bound, pend_of; rewrite Hp, Hq; reflexivity).
  pose proof (do_build_inv _ s r ops E A H) as [HI _]. pose proof (do_build_pend s r ops) as Hpe.
  destruct (do_build s r ops) as [s1 o]. cbn [fst snd] in *. rewrite <- Hpe in HI.
  assert (Hbd : bound (set_done s1) = bound s1) by (apply bound_fields; reflexivity).
  destruct (ph s1) eqn:Ep; try (cbn [fst snd]; rewrite Hw, Hbd, Hb; split; [lia | left; reflexivity]).
  set (s2 := set_fields s1 (builders s1) (alloc s1) (has_sender s1) true true PSelect (closed s1)).
  assert (H2 : InvS (pend_of s2) s2 E (A ++ opt_list (attach_build s r ops))) by (rewrite (pend_idle s1 Ep) in HI; exact HI).
  assert (Hb2 : bound s2 = bound s1) by (unfold bound, pend_of; cbn; rewrite Ep; reflexivity).
  destruct (qstep_floor s2 (LPick false) _ _ H2) as [F1 F2].
  destruct (qstep s2 (LPick false)) as [s3 o3]. cbn [fst snd] in *. rewrite wire_out_app, Hw. cbn [app].
  split; [lia|]. left. destruct F2 as [F2|(b & k & Hx & _)]; [exact F2 | discriminate Hx].
Qed.

Lemma fifo_from : forall ls s E A, InvS (pend_of s) s E A -> incr_from (bound s) (wire_topics s ls).
Proof.
  induction ls as [|l ls IH]; intros s E A H; [exact I|]. cbn [wire_topics].
  pose proof (qstep16_inv s l E A H) as H'. destruct (qstep16_floor s l E A H) as [Hb Hs].
  specialize (IH _ _ _ H'). destruct Hs as [->|(b & k & Hp & -> & Hlt)].
  - cbn [app]. eapply incr_from_weaken; [exact Hb | exact IH].
  - cbn [app]. unfold bound at 1. rewrite Hp. split; [lia|]. eapply incr_from_weaken; [exact Hlt | exact IH].
Qed.

(* Messages to the peer leave in the order they were queued: over every history (transactions, network
   outcomes, retries, shutdowns at any point incl. inside a build, select choices) the topics of the
   messages whose SendMsg returned ok are strictly increasing — topics are handed out in the order the
   builders (messages) are created and appended to the queue (buildMessage), so a message never overtakes
   one queued before it, and no message is sent twice. *)
Theorem c17_fifo_wire : forall ls, incr_from 0 (wire_topics mq_new ls).
Proof. intro ls. exact (fifo_from ls mq_new [] [] inv_new). Qed.
Print Assumptions c17_fifo_wire.

(* the messages of the C16 example leave as topics 0 and 2 (message 1 failed) *)
Example fifo_example :
  wire_topics mq_new
    [L16 (LBuild 9 [TBlock 9 5 true]);
     L16 (LBuild 1 [TBlock 1 300000 true]); L16 (LBuild 2 [TBlock 2 10 true]); L16 (LBuild 3 [TStatus 20]);
     L16 (LBuild 1 [TBlock 3 300000 true]); L16 (LBuild 4 [TBlock 4 7 true]);
     L16 (LNet true); L16 (LNet true); L16 (LNet false); L16 (LNet false); L16 (LNet true); L16 (LNet true)] = [0; 2].
Proof. vm_compute. reflexivity. Qed.
