(* C20Streams.v — C20, responder side, for every interleaving of the two responses' link-tracker calls: each
   request receives exactly the honest stream it would receive alone (ReqExec.resp_items with its own
   do-not-send-first-blocks value), provided the two requests are in different deduplication scopes or
   traverse no common link with a block. *)
From Coq Require Import List Arith NArith Bool Lia ZifyBool ZifyNat ZifyN.
From GS Require Import Base Ltree RecLoader ReqExec RecLoaderProofs C02Online C02Chunks C02Replay.
From GS Require Import LinkTracker LinkTrackerProofs Concurrent C20Tracker.
Import ListNotations.
Open Scope N_scope.
Local Arguments N.add : simpl never.

Lemma merge_nil order : merge order [] [] = [].
Proof. induction order as [|[|] o IH]; reflexivity. Qed.

Lemma merge_step order : forall a b, (a <> [] \/ b <> []) ->
  exists order', (exists x a', a = x :: a' /\ merge order a b = x :: merge order' a' b) \/
                 (exists y b', b = y :: b' /\ merge order a b = y :: merge order' a b').
Proof.
  induction order as [|[|] o IH]; intros a b Hne.
  - exists []. destruct a as [|x a'].
    + destruct b as [|y b']; [destruct Hne; congruence|]. right. exists y, b'. split; reflexivity.
    + left. exists x, a'. split; reflexivity.
  - destruct a as [|x a'].
    + destruct b as [|y b']; [destruct Hne; congruence|]. exists []. right. exists y, b'. split; [reflexivity|].
      cbn [merge]. reflexivity.
    + exists o. left. exists x, a'. split; reflexivity.
  - destruct b as [|y b'].
    + destruct a as [|x a']; [destruct Hne; congruence|]. exists []. left. exists x, a'. split; [reflexivity|].
      cbn [merge]. now rewrite app_nil_r.
    + exists o. right. exists y, b'. split; reflexivity.
Qed.

Lemma decisions_decl r : forall ops outs, decisions r ops outs = decl r ops (map lo_out outs).
Proof.
  induction ops as [|o ops IH]; intros outs; [destruct outs; reflexivity|].
  destruct outs as [|ob outs]; [destruct o; reflexivity|].
  destruct o; cbn [decisions decl map]; try apply IH.
  destruct (N.eqb r r0); [f_equal|]; apply IH.
Qed.

Section Merge.
  Variables r1 r2 : req.
  Hypothesis Hne : r1 <> r2.
  Variables d1 d2 : option dkey.
  Variables W1 W2 : list link.
  Hypothesis Hdisj : d1 <> d2 \/ (forall l, In l W1 -> In l W2 -> False).

  Lemma Hdisj' : d2 <> d1 \/ (forall l, In l W2 -> In l W1 -> False).
  Proof. destruct Hdisj as [H|H]; [left; congruence | right; intros l A B; exact (H l B A)]. Qed.

  Lemma okops_req r d W st o t : okops r d W st (o :: t) -> op_req o = r.
  Proof. destruct o; cbn; intuition. Qed.

  Lemma decl_other r r' o ops out outs : op_req o = r' -> r <> r' -> decl r (o :: ops) (out :: outs) = decl r ops outs.
  Proof. intros Ho Hn. destruct o; cbn in *; try reflexivity. subst. destruct (N.eqb_spec r r'); [contradiction | reflexivity]. Qed.

  Lemma decl_own r v o ops out outs :
    op_req o = r -> match o with LRecord _ _ _ => out = OSend (vbit v o) (s_count (v_ent v) + 1) | _ => True end ->
    decl r (o :: ops) (out :: outs) ++ [] = (match o with LRecord _ _ _ => [vbit v o] | _ => [] end) ++ decl r ops outs.
  Proof.
    intros Ho Hout. rewrite app_nil_r. destruct o; cbn in *; try reflexivity. subst. rewrite N.eqb_refl. reflexivity.
  Qed.
  Lemma rdec_cons v o t : rdec v (o :: t) = (match o with LRecord _ _ _ => [vbit v o] | _ => [] end) ++ rdec (vstep v o) t.
  Proof. destruct o; reflexivity. Qed.

  Lemma merged_run : forall n order a b sp v1 v2,
    (length a + length b = n)%nat -> MInv r1 r2 sp v1 v2 -> vinv r1 d1 W1 v1 -> vinv r2 d2 W2 v2 ->
    (a <> [] -> v_done v1 = false) -> (b <> [] -> v_done v2 = false) ->
    okops r1 d1 W1 (v_started v1) a -> okops r2 d2 W2 (v_started v2) b ->
    exists outs, srun sp (merge order a b) = Some outs /\
      decl r1 (merge order a b) outs = rdec v1 a /\ decl r2 (merge order a b) outs = rdec v2 b.
  Proof.
    induction n as [|n IH]; intros order a b sp v1 v2 Hl HM HV1 HV2 Hd1 Hd2 Ho1 Ho2.
    - destruct a; [|discriminate]. destruct b; [|discriminate]. rewrite merge_nil. exists []. repeat split.
    - assert (Hne0 : a <> [] \/ b <> []) by (destruct a; [right; destruct b; [discriminate | discriminate] | left; discriminate]).
      destruct (merge_step order a b Hne0) as (order' & [(x & a' & -> & Em)|(y & b' & -> & Em)]); rewrite Em.
      + destruct (step_one r1 r2 Hne d1 d2 W1 W2 Hdisj sp v1 v2 x a' HM HV1 HV2 (Hd1 ltac:(discriminate)) Ho1)
          as (sp' & out & Es & HM' & HV1' & Ho1' & Hdn & Hout).
        assert (Hl' : (length a' + length b = n)%nat) by (cbn in Hl; lia).
        assert (P1 : a' <> [] -> v_done (vstep v1 x) = false).
        { intro Hn. destruct (v_done (vstep v1 x)) eqn:E; [|reflexivity]. now specialize (Hdn eq_refl). }
        assert (P2 : okops r1 d1 W1 (v_started (vstep v1 x)) a').
        { replace (v_started (vstep v1 x)) with true by (destruct x; reflexivity). exact Ho1'. }
        destruct (IH order' a' b sp' (vstep v1 x) v2 Hl' HM' HV1' HV2 P1 Hd2 P2 Ho2) as (outs & Er & D1 & D2).
        exists (out :: outs). cbn [srun]. rewrite Es, Er. split; [reflexivity|]. split.
        * pose proof (decl_own r1 v1 x (merge order' a' b) out outs (okops_req _ _ _ _ _ _ Ho1) Hout) as Hd.
          rewrite app_nil_r in Hd. rewrite Hd, rdec_cons, D1. reflexivity.
        * rewrite (decl_other r2 r1 x _ out outs (okops_req _ _ _ _ _ _ Ho1)) by congruence. exact D2.
      + apply minv_swap in HM; [|exact Hne].
        destruct (step_one r2 r1 ltac:(congruence) d2 d1 W2 W1 Hdisj' sp v2 v1 y b' HM HV2 HV1 (Hd2 ltac:(discriminate)) Ho2)
          as (sp' & out & Es & HM' & HV2' & Ho2' & Hdn & Hout).
        apply minv_swap in HM'; [|congruence].
        assert (Hl' : (length a + length b' = n)%nat) by (cbn in Hl; lia).
        assert (P1 : b' <> [] -> v_done (vstep v2 y) = false).
        { intro Hn. destruct (v_done (vstep v2 y)) eqn:E; [|reflexivity]. now specialize (Hdn eq_refl). }
        assert (P2 : okops r2 d2 W2 (v_started (vstep v2 y)) b').
        { replace (v_started (vstep v2 y)) with true by (destruct y; reflexivity). exact Ho2'. }
        destruct (IH order' a b' sp' v1 (vstep v2 y) Hl' HM' HV1 HV2' Hd1 P1 Ho1 P2) as (outs & Er & D1 & D2).
        exists (out :: outs). cbn [srun]. rewrite Es, Er. split; [reflexivity|]. split.
        * rewrite (decl_other r1 r2 y _ out outs (okops_req _ _ _ _ _ _ Ho2)) by congruence. exact D1.
        * pose proof (decl_own r2 v2 y (merge order' a b') out outs (okops_req _ _ _ _ _ _ Ho2) Hout) as Hd.
          rewrite app_nil_r in Hd. rewrite Hd, rdec_cons, D2. reflexivity.
  Qed.
End Merge.

(* ---------- the calls of one response; its decisions alone in closed form ---------- *)
Definition Wof (md : list (cid * bool)) : list link := map fst (filter (fun e => snd e) md).

Lemma okops_records r d md : forall st, (st = true \/ d = None) ->
  forall W, incl (Wof md) W ->
  okops r d W st (map (fun e : cid * bool => LRecord r (fst e) (snd e)) md ++ [LFinish r]).
Proof.
  intros st Hst W HW. revert st Hst. induction md as [|[c h] md IH]; intros st Hst; cbn.
  - auto.
  - split; [reflexivity|]. split; [exact Hst|]. split.
    + intro Hh. apply HW. unfold Wof. cbn. rewrite Hh. now left.
    + apply IH; [|now left]. intros x Hx. apply HW. unfold Wof in *. cbn. destruct h; [now right | exact Hx].
Qed.

Lemma okops_req_ops r d k md W : incl (Wof md) W -> okops r d W false (req_ops r d k md).
Proof.
  intro HW. unfold req_ops.
  assert (Hr : forall st, (st = true \/ d = None) ->
             okops r d W st (map (fun e : cid * bool => LRecord r (fst e) (snd e)) md ++ [LFinish r])).
  { intros st Hst. now apply okops_records. }
  destruct d as [kk|]; destruct (N.eqb k 0); cbn [app okops]; repeat split; auto.
Qed.

Fixpoint sdec (k : N) (md : list (cid * bool)) (cnt : N) (wl : list link) : list bool :=
  match md with
  | [] => []
  | (c, h) :: t => (h && (k <? cnt + 1) && negb (existsb (N.eqb c) wl)) :: sdec k t (cnt + 1) (if h then wl ++ [c] else wl)
  end.

Lemma rdec_records r md : forall v,
  rdec v (map (fun e : cid * bool => LRecord r (fst e) (snd e)) md ++ [LFinish r]) =
  sdec (s_skip (v_ent v)) md (s_count (v_ent v)) (s_with (v_ent v)).
Proof.
  induction md as [|[c h] md IH]; intro v; [reflexivity|]. cbn [map app rdec sdec fst snd]. f_equal. rewrite IH. reflexivity.
Qed.

Lemma rdec_req_ops r d k md : rdec (vnew r) (req_ops r d k md) = sdec k md 0 [].
Proof.
  unfold req_ops. destruct d as [kk|]; destruct (N.eqb_spec k 0) as [->|Hk]; cbn [app rdec]; rewrite rdec_records; reflexivity.
Qed.

(* ---------- decisions + metadata = the honest stream ---------- *)
Section Zip.
  Variable Rs : store.
  Definition mdb (E : list item) : list (cid * bool) :=
    map (fun it => (i_link it, match i_act it with Present => true | _ => false end)) E.

  Lemma stripk_S m e E : stripk (S m) (e :: E) = strip e :: stripk m E.
  Proof. reflexivity. Qed.
  Lemma stripk_0 E : stripk 0 E = E.
  Proof. reflexivity. Qed.

  Lemma mdb_cons it E : mdb (it :: E) = (i_link it, match i_act it with Present => true | _ => false end) :: mdb E.
  Proof. reflexivity. Qed.

  Lemma zip_sdec k : forall E seen wl cnt,
    eok Rs seen E -> (forall c, existsb (N.eqb c) wl = existsb (N.eqb c) seen) ->
    zip_items Rs (mdb E) (sdec k (mdb E) cnt wl) = stripk (N.to_nat k - N.to_nat cnt) E.
  Proof.
    induction E as [|[l a bo] E IH]; intros seen wl cnt Hok Hw; [unfold stripk; now rewrite firstn_nil, skipn_nil|].
    cbn [eok i_act i_link i_blk] in Hok. rewrite mdb_cons. cbn [i_link i_act sdec zip_items].
    destruct a; try contradiction.
    - destruct Hok as (b & A & B & C). cbn [andb].
      assert (Hw' : forall c, existsb (N.eqb c) (wl ++ [l]) = existsb (N.eqb c) (l :: seen)).
      { intro c. rewrite existsb_app. cbn. rewrite Hw, orb_false_r. apply orb_comm. }
      pose proof (IH (l :: seen) (wl ++ [l]) (cnt + 1) C Hw') as IH1.
      destruct (k <? cnt + 1) eqn:Ek.
      + replace (N.to_nat k - N.to_nat cnt)%nat with 0%nat by lia.
        replace (N.to_nat k - N.to_nat (cnt + 1))%nat with 0%nat in IH1 by lia. rewrite stripk_0 in *. cbn [andb].
        f_equal; [|exact IH1]. rewrite Hw, A, B. destruct (negb (existsb (N.eqb l) seen)); reflexivity.
      + destruct (N.to_nat k - N.to_nat cnt)%nat as [|m] eqn:Em; [lia|].
        replace (N.to_nat k - N.to_nat (cnt + 1))%nat with m in IH1 by lia. rewrite stripk_S. cbn [andb]. f_equal. exact IH1.
    - destruct Hok as (A & B & C). cbn [andb]. cbn [i_blk] in B. subst bo.
      pose proof (IH seen wl (cnt + 1) C Hw) as IH1.
      destruct (N.to_nat k - N.to_nat cnt)%nat as [|m] eqn:Em.
      + replace (N.to_nat k - N.to_nat (cnt + 1))%nat with 0%nat in IH1 by lia. rewrite stripk_0 in *. f_equal. exact IH1.
      + replace (N.to_nat k - N.to_nat (cnt + 1))%nat with m in IH1 by lia. rewrite stripk_S. f_equal. exact IH1.
  Qed.

  Lemma md_of_mdb t : md_of t Rs = mdb (resp_items t Rs 0).
  Proof. reflexivity. Qed.

  Lemma zip_honest t k : zip_items Rs (md_of t Rs) (sdec k (md_of t Rs) 0 []) = resp_items t Rs k.
  Proof.
    rewrite md_of_mdb, (resp_items_skip Rs k t).
    replace (N.to_nat k) with (N.to_nat k - N.to_nat 0)%nat by lia.
    apply (zip_sdec k (resp_items t Rs 0) [] [] 0); [|reflexivity].
    rewrite resp_items_emit. apply (proj1 (emit_ok Rs)).
  Qed.
End Zip.

(* what each of two concurrently served requests receives *)
Theorem c20_streams Rs q1 q2 k1 k2 order :
  (cq_dedup q1 <> cq_dedup q2 \/
   (forall l, In l (Wof (md_of (cq_plan q1) Rs)) -> In l (Wof (md_of (cq_plan q2) Rs)) -> False)) ->
  streams Rs q1 q2 k1 k2 order = (resp_items (cq_plan q1) Rs k1, resp_items (cq_plan q2) Rs k2).
Proof.
  intro Hd. unfold streams.
  set (md1 := md_of (cq_plan q1) Rs). set (md2 := md_of (cq_plan q2) Rs).
  set (a := req_ops 1 (cq_dedup q1) k1 md1). set (b := req_ops 2 (cq_dedup q2) k2 md2).
  assert (HM0 : MInv 1 2 [] (vnew 1) (vnew 2)).
  { split; [constructor|]. intro r'. cbn. destruct (N.eqb r' 1); [reflexivity|]. destruct (N.eqb r' 2); reflexivity. }
  destruct (merged_run 1 2 ltac:(discriminate) (cq_dedup q1) (cq_dedup q2) (Wof md1) (Wof md2) Hd
              (length a + length b) order a b [] (vnew 1) (vnew 2) eq_refl HM0 (vinv_new 1 _ _) (vinv_new 2 _ _)
              (fun _ => eq_refl) (fun _ => eq_refl)
              (okops_req_ops 1 _ k1 md1 _ (incl_refl _)) (okops_req_ops 2 _ k2 md2 _ (incl_refl _)))
    as (outs & Er & D1 & D2).
  pose proof (lrun_srun (merge order a b) plt_new [] outs R_init Er) as Hl.
  rewrite !decisions_decl, Hl, D1, D2. unfold a, b. rewrite !rdec_req_ops.
  unfold md1, md2. now rewrite !zip_honest.
Qed.
