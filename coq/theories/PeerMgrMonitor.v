(* PeerMgrMonitor.v — C17: the observation monitors of the correspondence run (PeerMgr.pmcase_mon and
   PeerMgrConc.gcase_mon) accept EVERY trace of the model.  Hence an implementation history that
   agrees with the model (the MISMATCH comparison) is never rejected by MON17 / MON17C, and a
   rejection by the monitor is a statement about the implementation alone.  The owner list the
   harness reports (peer of each process, by creation order) is the model's [owners] of the final
   state; processes never change owner, so it extends the owner list of every earlier state. *)
From Coq Require Import List Arith NArith Bool Lia Permutation.
From GS Require Import Base PeerMgr PeerMgrProofs PeerMgrConc PeerMgrConcProofs.
Import ListNotations.
Open Scope N_scope.

Definition ids (n : N) : list N := map N.of_nat (seq 0 (N.to_nat n)).
Definition owner_of (s : pm) (q : qid) : peer :=
  match aget q (queues s) with Some (p, _) => p | None => 0 end.
Definition owners (s : pm) : list peer := map (owner_of s) (ids (next_q s)).

(* ow lists, at least, the owner of every process of s *)
Definition agree (s : pm) (ow : list peer) : Prop :=
  forall q p st, aget q (queues s) = Some (p, st) -> nth_error ow (N.to_nat q) = Some p.

Definition TInv (s : pm) : Prop := NoDup (map fst (table s)).

(* ---------- table keys stay distinct ---------- *)
Lemma goc_tinv p s : TInv s -> TInv (fst (get_or_create p s)).
Proof.
  unfold TInv, get_or_create. intro H. destruct (aget p (table s)) as [[rc q]|]; simpl; [exact H|].
  apply nodup_aput, H.
Qed.

Lemma pstep_tinv s l : TInv s -> TInv (fst (pstep s l)).
Proof.
  intro H. destruct l as [p|p|p|q|q]; simpl.
  - pose proof (goc_tinv p s H) as H1. destruct (get_or_create p s) as [s1 [rc q]]. simpl in *.
    unfold TInv. simpl. apply nodup_aput, H1.
  - destruct (aget p (table s)) as [[rc q]|]; [|exact H]. destruct (1 <? rc); unfold TInv; simpl.
    + apply nodup_aput, H.
    + apply nodup_adel, H.
  - pose proof (goc_tinv p s H) as H1. destruct (get_or_create p s) as [s1 [rc q]]. exact H1.
  - destruct (aget q (queues s)) as [[p st]|]; [destruct st|]; exact H.
  - destruct (aget q (queues s)) as [[p st]|]; [destruct st|]; try exact H.
    unfold TInv. simpl. destruct (aget p (table s)) as [[rc q']|]; [|exact H].
    destruct (N.eqb q' q); [apply nodup_adel, H | exact H].
Qed.

Lemma prun_tinv : forall ls s, TInv s -> TInv (prun_pm s ls).
Proof. induction ls as [|l r IH]; intros s H; simpl; [exact H | apply IH, pstep_tinv, H]. Qed.

(* ---------- a process never changes owner ---------- *)
Lemma set_status_owner q0 st0 qs q p st :
  aget q qs = Some (p, st) -> exists st', aget q (set_status q0 st0 qs) = Some (p, st').
Proof.
  intro E. rewrite aget_set_status. destruct (N.eqb_spec q q0) as [->|Hne]; [|eauto].
  rewrite E. eauto.
Qed.

Lemma goc_owner p0 s q p st : PMInv s ->
  aget q (queues s) = Some (p, st) -> aget q (queues (fst (get_or_create p0 s))) = Some (p, st).
Proof.
  intros [_ _ H3] E. unfold get_or_create. destruct (aget p0 (table s)) as [[rc q1]|]; simpl; [exact E|].
  rewrite aget_aput_neq; [exact E|]. pose proof (H3 _ _ E). lia.
Qed.

Lemma pstep_owner s l q p st : PMInv s ->
  aget q (queues s) = Some (p, st) -> exists st', aget q (queues (fst (pstep s l))) = Some (p, st').
Proof.
  intros HI E. destruct l as [p0|p0|p0|q0|q0]; simpl.
  - pose proof (goc_owner p0 s q p st HI E) as H. destruct (get_or_create p0 s) as [s1 [rc q1]]. simpl in *. eauto.
  - destruct (aget p0 (table s)) as [[rc q1]|]; [|simpl; eauto]. destruct (1 <? rc); simpl; [eauto|].
    destruct (aget q1 (queues s)) as [[p1 st1]|]; [destruct st1|]; eauto using set_status_owner.
  - pose proof (goc_owner p0 s q p st HI E) as H. destruct (get_or_create p0 s) as [s1 [rc q1]]. simpl in *. eauto.
  - destruct (aget q0 (queues s)) as [[p1 st1]|]; [destruct st1|]; simpl; eauto using set_status_owner.
  - destruct (aget q0 (queues s)) as [[p1 st1]|]; [destruct st1|]; simpl; eauto using set_status_owner.
Qed.

Lemma prun_owner : forall ls s q p st, PMInv s ->
  aget q (queues s) = Some (p, st) -> exists st', aget q (queues (prun_pm s ls)) = Some (p, st').
Proof.
  induction ls as [|l r IH]; intros s q p st HI E; simpl; [eauto|].
  destruct (pstep_owner s l q p st HI E) as [st1 E1]. exact (IH _ _ _ _ (pstep_inv s l HI) E1).
Qed.

Lemma agree_back s ls ow : PMInv s -> agree (prun_pm s ls) ow -> agree s ow.
Proof.
  intros HI HA q p st E. destruct (prun_owner ls s q p st HI E) as [st' E']. exact (HA _ _ _ E').
Qed.

Lemma nth_error_ids n i : (i < N.to_nat n)%nat -> nth_error (ids n) i = Some (N.of_nat i).
Proof.
  intro H. unfold ids. rewrite nth_error_map, nth_error_nth' with (d := O) by (now rewrite seq_length).
  rewrite seq_nth by exact H. reflexivity.
Qed.

Lemma agree_owners s : PMInv s -> agree s (owners s).
Proof.
  intros [_ _ H3] q p st E. pose proof (H3 _ _ E) as Hlt. unfold owners.
  rewrite nth_error_map, nth_error_ids by lia. simpl. rewrite Nnat.N2Nat.id. unfold owner_of. now rewrite E.
Qed.

(* ---------- reading the combined lists of the monitors ---------- *)
Lemma in_combine3 (f : N -> N) : forall (ow : list peer) n a q p st,
  In ((q, p), st) (combine (combine (map N.of_nat (seq a (length ow))) ow) (map f (map N.of_nat (seq a n)))) ->
  exists i, q = N.of_nat (a + i) /\ nth_error ow i = Some p /\ st = f q.
Proof.
  induction ow as [|p0 ow IH]; intros n a q p st H; simpl in H; [contradiction|].
  destruct n as [|n]; simpl in H; [contradiction|]. destruct H as [H|H].
  - inversion H; subst. exists O. rewrite Nat.add_0_r. auto.
  - destruct (IH _ _ _ _ _ H) as (i & A & B & C). exists (S i). rewrite <- plus_n_Sm. auto.
Qed.

Lemma in_combine2 (f : N -> N) : forall (ow : list peer) n a p st,
  In (p, st) (combine ow (map f (map N.of_nat (seq a n)))) ->
  exists i, nth_error ow i = Some p /\ st = f (N.of_nat (a + i)).
Proof.
  induction ow as [|p0 ow IH]; intros n a p st H; simpl in H; [contradiction|].
  destruct n as [|n]; simpl in H; [contradiction|]. destruct H as [H|H].
  - inversion H; subst. exists O. rewrite Nat.add_0_r. auto.
  - destruct (IH _ _ _ _ H) as (i & B & C). exists (S i). rewrite <- plus_n_Sm. auto.
Qed.

Definition stf (s : pm) (q : N) : N :=
  match aget q (queues s) with Some (_, st) => st_code st | None => 9 end.

Lemma stf_live s q : stf s q = 0 -> exists p, aget q (queues s) = Some (p, QLive).
Proof.
  unfold stf. destruct (aget q (queues s)) as [[p st]|]; [|discriminate]. destruct st; try discriminate. eauto.
Qed.

(* ---------- the sorted table snapshot ---------- *)
Lemma perm_insert x l : Permutation (insert_by_fst x l) (x :: l).
Proof.
  induction l as [|y l IH]; simpl; [reflexivity|]. destruct (fst x <=? fst y); [reflexivity|].
  rewrite IH. apply perm_swap.
Qed.
Lemma perm_sort l : Permutation (sort_by_fst l) l.
Proof.
  induction l as [|x l IH]; simpl; [reflexivity|]. rewrite perm_insert. now constructor.
Qed.

Definition snap (s : pm) : list (peer * qid) :=
  sort_by_fst (map (fun x => (fst x, snd (snd x))) (table s)).

Lemma snap_get s p rc q : TInv s -> aget p (table s) = Some (rc, q) -> aget p (snap s) = Some q.
Proof.
  intros HN E. unfold snap. apply in_aget.
  - eapply Permutation_NoDup; [apply Permutation_map; symmetry; apply perm_sort|].
    rewrite map_map. simpl. exact HN.
  - eapply Permutation_in; [symmetry; apply perm_sort|].
    apply in_map_iff. exists (p, (rc, q)). split; [reflexivity | apply aget_in, E].
Qed.

(* ---------- the per-state monitor holds in every invariant state ---------- *)
Lemma obs_ok_state s ow ret : PMInv s -> TInv s -> agree s ow ->
  (forall q, ret = Some q -> exists p rc, aget p (table s) = Some (rc, q)) ->
  obs_ok ow (pm_observe s ret) = true.
Proof.
  intros HI HN HA Hret. unfold obs_ok, pm_observe. cbn [po_table po_status po_ret]. fold (snap s).
  apply andb_true_iff. split.
  - apply forallb_forall. intros [[q p] st] Hin. apply filter_In in Hin. destruct Hin as [Hin Hst].
    cbn [snd] in Hst. apply N.eqb_eq in Hst.
    change (map (fun q0 : N => match aget q0 (queues s) with Some (_, st0) => st_code st0 | None => 9 end))
      with (map (stf s)) in Hin.
    apply in_combine3 in Hin. destruct Hin as (i & Hq & Hp & Hf). rewrite Hst in Hf. symmetry in Hf.
    destruct (stf_live _ _ Hf) as [p' Hl]. pose proof (HA _ _ _ Hl) as Hn.
    rewrite Hq in Hn. simpl in Hn. rewrite Nnat.Nat2N.id, Hp in Hn. inversion Hn; subst p'.
    destruct HI as [H1 _ _]. destruct (H1 _ _ Hl) as [rc Ht]. rewrite (snap_get _ _ _ _ HN Ht). apply N.eqb_refl.
  - destruct ret as [q|]; [|reflexivity]. destruct (Hret q eq_refl) as (p & rc & Ht).
    apply existsb_exists. exists (p, q). split; [|apply N.eqb_refl].
    apply aget_in. exact (snap_get _ _ _ _ HN Ht).
Qed.

Lemma pstep_ret s l q : PMInv s -> snd (pstep s l) = Some q ->
  exists p rc, aget p (table (fst (pstep s l))) = Some (rc, q).
Proof.
  intros HI. destruct l as [p|p|p|q0|q0]; simpl.
  - destruct (get_or_create p s) as [s1 [rc q1]]. discriminate.
  - destruct (aget p (table s)) as [[rc q1]|]; [destruct (1 <? rc)|]; discriminate.
  - pose proof (get_or_create_inv p s HI) as H. destruct (get_or_create p s) as [s1 [rc q1]].
    destruct H as (_ & Ht & _). simpl. intro E. inversion E; subst. eauto.
  - destruct (aget q0 (queues s)) as [[p1 st1]|]; [destruct st1|]; discriminate.
  - destruct (aget q0 (queues s)) as [[p1 st1]|]; [destruct st1|]; discriminate.
Qed.

Lemma trace_obs_ok : forall ls s ow, PMInv s -> TInv s -> agree (prun_pm s ls) ow ->
  forallb (obs_ok ow) (pm_trace s ls) = true.
Proof.
  induction ls as [|l r IH]; intros s ow HI HN HA; simpl; [reflexivity|]. simpl in HA.
  pose proof (pstep_inv s l HI) as HI'. pose proof (pstep_tinv s l HN) as HN'.
  pose proof (pstep_ret s l) as HR. destruct (pstep s l) as [s' ret]. simpl in *.
  apply andb_true_iff. split; [|apply IH; assumption].
  apply obs_ok_state; try assumption.
  - exact (agree_back s' r ow HI' HA).
  - intros q ->. exact (HR q HI eq_refl).
Qed.

(* ---------- no process outlives the last disconnect, on the model's trace ---------- *)
Lemma disconnect_no_live s cs p : PMInv s -> RcInv s cs ->
  cnt_step cs (LDisconnected p) p = 0 ->
  forall q, aget q (queues (fst (pstep s (LDisconnected p)))) <> Some (p, QLive).
Proof.
  intros HI HR Hc q Hq. simpl in Hc. rewrite N.eqb_refl in Hc.
  pose proof (pstep_inv s (LDisconnected p) HI) as [H1' _ _].
  destruct (H1' _ _ Hq) as [rc' E]. simpl in E.
  destruct (aget p (table s)) as [[rc0 q0]|] eqn:Et.
  - pose proof (HR _ _ _ Et). destruct (N.ltb_spec 1 rc0); [lia|]. simpl in E. now rewrite aget_adel_eq in E.
  - simpl in E. congruence.
Qed.

Lemma no_live_forallb s ow p : agree s ow ->
  (forall q, aget q (queues s) <> Some (p, QLive)) ->
  forallb (fun x => negb (N.eqb (fst x) p && N.eqb (snd x) 0))
          (combine ow (po_status (pm_observe s None))) = true.
Proof.
  intros HA Hno. apply forallb_forall. intros [p' st] Hin. cbn [po_status pm_observe] in Hin.
  change (map (fun q0 : N => match aget q0 (queues s) with Some (_, st0) => st_code st0 | None => 9 end))
    with (map (stf s)) in Hin.
  apply in_combine2 in Hin. destruct Hin as (i & Hp & Hf). simpl in Hf. cbn [fst snd].
  destruct (N.eqb_spec p' p) as [->|]; [|reflexivity]. destruct (N.eqb_spec st 0) as [->|]; [|reflexivity].
  exfalso. symmetry in Hf. destruct (stf_live _ _ Hf) as [p1 Hl]. pose proof (HA _ _ _ Hl) as Hn.
  rewrite Nnat.Nat2N.id, Hp in Hn. inversion Hn; subst p1. exact (Hno _ Hl).
Qed.

Lemma trace_outlive_ok : forall ls s cs ow, PMInv s -> RcInv s cs -> agree (prun_pm s ls) ow ->
  outlive_ok cs ow ls (pm_trace s ls) = true.
Proof.
  induction ls as [|l r IH]; intros s cs ow HI HR HA; simpl; [reflexivity|]. simpl in HA.
  pose proof (pstep_inv s l HI) as HI'. pose proof (rc_step s cs l HR) as HR'.
  destruct (pstep s l) as [s' ret] eqn:Es. simpl in *.
  apply andb_true_iff. split; [|apply IH; assumption].
  destruct l as [p|p|p|q|q]; try reflexivity.
  destruct (N.eqb (cnt_step cs (LDisconnected p) p) 0) eqn:Ec; [|reflexivity]. apply N.eqb_eq in Ec.
  pose proof (disconnect_no_live s cs p HI HR Ec) as Hno. rewrite Es in Hno. simpl in Hno.
  exact (no_live_forallb s' ow p (agree_back s' r ow HI' HA) Hno).
Qed.

Lemma TInv_new : TInv pm_new.
Proof. constructor. Qed.
Lemma RcInv_new : RcInv pm_new (fun _ => 0).
Proof. intros p rc q H. discriminate. Qed.

(* MON17 accepts every model trace *)
Lemma c17_monitor ls :
  pmcase_mon {| pmc_labels := ls; pmc_owner := owners (prun_pm pm_new ls); pmc_obs := pm_trace pm_new ls |} = true.
Proof.
  unfold pmcase_mon. cbn [pmc_labels pmc_owner pmc_obs].
  pose proof (agree_owners _ (prun_inv ls pm_new PMInv_new)) as HA.
  apply andb_true_iff. split.
  - apply trace_obs_ok; [apply PMInv_new | apply TInv_new | exact HA].
  - apply trace_outlive_ok; [apply PMInv_new | apply RcInv_new | exact HA].
Qed.

(* ================= groups of concurrent senders (PeerMgrConc) ================= *)

(* The harness never pairs a group whose lookups miss with a Disconnected of the same peer waiting for
   the write lock (the callers' getOrCreate and that writer do not commute: see PeerMgrConc.v); the
   monitor theorem is stated for exactly those scripts. *)
Definition g_ok (s : pm) (g : glabel) : bool :=
  match g with
  | GConc p _ (Some (LDisconnected p')) =>
      match aget p (table s) with None => negb (N.eqb p' p) | Some _ => true end
  | _ => true
  end.
Fixpoint gs_ok (s : pm) (gs : list glabel) : bool :=
  match gs with [] => true | g :: r => g_ok s g && gs_ok (fst (gstep s g)) r end.

Lemma gstep_inv s g : PMInv s -> PMInv (fst (gstep s g)).
Proof. intro H. rewrite gstep_expand. apply prun_inv, H. Qed.
Lemma gstep_tinv s g : TInv s -> TInv (fst (gstep s g)).
Proof. intro H. rewrite gstep_expand. apply prun_tinv, H. Qed.
Lemma grun_owner : forall gs s q p st, PMInv s ->
  aget q (queues s) = Some (p, st) -> exists st', aget q (queues (grun s gs)) = Some (p, st').
Proof.
  intros gs s q p st HI E. destruct (grun_prun gs s) as [ls ->]. exact (prun_owner ls s q p st HI E).
Qed.
Lemma agree_back_g s gs ow : PMInv s -> agree (grun s gs) ow -> agree s ow.
Proof.
  intros HI HA q p st E. destruct (grun_owner gs s q p st HI E) as [st' E']. exact (HA _ _ _ E').
Qed.

Lemma insert_n_repeat q k : insert_n q (repeat q k) = q :: repeat q k.
Proof. destruct k as [|k]; simpl; [reflexivity|]. now rewrite N.leb_refl. Qed.
Lemma sort_n_repeat q k : sort_n (repeat q k) = repeat q k.
Proof.
  induction k as [|k IH]; simpl; [reflexivity|]. unfold sort_n in *. simpl. rewrite IH. apply insert_n_repeat.
Qed.
Lemma all_same_repeat q k : all_same (repeat q k) = true.
Proof.
  destruct k as [|k]; simpl; [reflexivity|]. apply forallb_forall. intros x Hx.
  apply repeat_spec in Hx. subst. apply N.eqb_refl.
Qed.

Lemma gstep_rets s g : exists q k, snd (gstep s g) = repeat q k.
Proof.
  destruct g as [l|p k w]; simpl.
  - destruct (pstep s l) as [s' [q|]]; simpl; [exists q, 1%nat | exists 0, O]; reflexivity.
  - destruct (aget p (table s)) as [[rc q]|]; [exists q, k; reflexivity|].
    destruct (goc_n_same k p (opt_step s w)) as (q & Hq & _). exists q, k. exact Hq.
Qed.

Lemma gtrace_obs_ok : forall gs s ow, PMInv s -> TInv s -> agree (grun s gs) ow ->
  forallb (gobs_ok ow) (g_trace s gs) = true.
Proof.
  induction gs as [|g r IH]; intros s ow HI HN HA; simpl; [reflexivity|]. simpl in HA.
  pose proof (gstep_inv s g HI) as HI'. pose proof (gstep_tinv s g HN) as HN'.
  destruct (gstep_rets s g) as (q & k & Hr).
  destruct (gstep s g) as [s' rets]. simpl in *.
  apply andb_true_iff. split; [|apply IH; assumption].
  unfold gobs_ok, g_observe. cbn [go_rets go_table go_status].
  apply andb_true_iff. split.
  - apply (obs_ok_state s' ow None); try assumption.
    + exact (agree_back_g s' r ow HI' HA).
    + intros q0 E. discriminate.
  - rewrite Hr, sort_n_repeat. apply all_same_repeat.
Qed.

(* --- the last-disconnect clause for groups --- *)
Definition no_live (s : pm) (p : peer) : Prop := forall q, aget q (queues s) <> Some (p, QLive).

Lemma goc_no_live p p' s : p <> p' -> no_live s p' -> no_live (fst (get_or_create p s)) p'.
Proof.
  intros Hne Hno q. unfold get_or_create. destruct (aget p (table s)) as [[rc q1]|]; simpl; [apply Hno|].
  destruct (N.eqb_spec (next_q s) q) as [<-|Hq].
  - rewrite aget_aput_eq. intro E. inversion E. contradiction.
  - rewrite aget_aput_neq by assumption. apply Hno.
Qed.

Lemma goc_n_no_live : forall k p p' s, p <> p' -> no_live s p' -> no_live (fst (goc_n k p s)) p'.
Proof.
  induction k as [|k IH]; intros p p' s Hne Hno; simpl; [exact Hno|].
  pose proof (goc_no_live p p' s Hne Hno) as H1. destruct (get_or_create p s) as [s1 [rc q]]. simpl in H1.
  pose proof (IH p p' s1 Hne H1) as H2. destruct (goc_n k p s1) as [s2 qs]. exact H2.
Qed.

Lemma cnt_run_app : forall a cs b, cnt_run cs (a ++ b) = cnt_run (cnt_run cs a) b.
Proof. induction a as [|l a IH]; intros cs b; simpl; [reflexivity | apply IH]. Qed.
Lemma cnt_run_gets : forall k p cs, cnt_run cs (repeat (LGetProcess p) k) = cs.
Proof. induction k as [|k IH]; intros p cs; simpl; [reflexivity | apply IH]. Qed.

Lemma gexpand_cnt s g cs : cnt_run cs (gexpand s g) = fold_left cnt_step (glabel_base g) cs.
Proof.
  destruct g as [l|p k [l|]]; simpl; try reflexivity.
  - destruct (aget p (table s)); simpl; [reflexivity|]. now rewrite cnt_run_gets.
  - destruct (aget p (table s)); simpl; [reflexivity|]. now rewrite cnt_run_gets.
Qed.

Lemma gstep_rc s g cs : RcInv s cs -> RcInv (fst (gstep s g)) (fold_left cnt_step (glabel_base g) cs).
Proof. intro H. rewrite gstep_expand, <- (gexpand_cnt s g cs). apply rc_run, H. Qed.

Lemma gstep_base s l : fst (gstep s (GBase l)) = fst (pstep s l).
Proof. unfold gstep. destruct (pstep s l); reflexivity. Qed.

Lemma gstep_disconnect_no_live s g cs p : PMInv s -> RcInv s cs -> g_ok s g = true ->
  glabel_base g = [LDisconnected p] -> cnt_step cs (LDisconnected p) p = 0 ->
  no_live (fst (gstep s g)) p.
Proof.
  intros HI HR Hok Hb Hc. pose proof (disconnect_no_live s cs p HI HR Hc) as Hno.
  destruct g as [l|p0 k [l|]]; simpl in Hb; try discriminate; inversion Hb; subst l.
  - rewrite gstep_base. exact Hno.
  - unfold gstep. unfold g_ok in Hok. destruct (aget p0 (table s)) as [[rc q]|].
    + exact Hno.
    + apply negb_true_iff, N.eqb_neq in Hok. apply goc_n_no_live; [congruence | exact Hno].
Qed.

Lemma no_live_forallb_g s ow p : agree s ow -> no_live s p ->
  forallb (fun x => negb (N.eqb (fst x) p && N.eqb (snd x) 0))
          (combine ow (go_status (g_observe s []))) = true.
Proof. intros HA Hno. exact (no_live_forallb s ow p HA Hno). Qed.

Local Opaque cnt_step.
Lemma gtrace_outlive_ok : forall gs s cs ow, PMInv s -> RcInv s cs -> gs_ok s gs = true ->
  agree (grun s gs) ow -> g_outlive_ok cs ow gs (g_trace s gs) = true.
Proof.
  induction gs as [|g r IH]; intros s cs ow HI HR Hok HA; simpl; [reflexivity|]. simpl in HA, Hok.
  apply andb_true_iff in Hok. destruct Hok as [Hg Hok].
  pose proof (gstep_inv s g HI) as HI'. pose proof (gstep_rc s g cs HR) as HR'.
  pose proof (gstep_disconnect_no_live s g cs) as HD.
  destruct (gstep s g) as [s' rets] eqn:Es. simpl in *.
  apply andb_true_iff. split; [|apply IH; assumption].
  destruct (glabel_base g) as [|l [|l2 rest]] eqn:Eb; try reflexivity; [|destruct l; reflexivity].
  destruct l as [p|p|p|q|q]; try reflexivity. simpl.
  destruct (N.eqb (cnt_step cs (LDisconnected p) p) 0) eqn:Ec; [|reflexivity]. apply N.eqb_eq in Ec.
  pose proof (HD p HI HR Hg eq_refl Ec) as Hno.
  exact (no_live_forallb s' ow p (agree_back_g s' r ow HI' HA) Hno).
Qed.
Local Transparent cnt_step.

(* MON17C accepts every model trace of a script the harness can produce *)
Lemma c17_conc_monitor gs : gs_ok pm_new gs = true ->
  gcase_mon {| gc_labels := gs; gc_owner := owners (grun pm_new gs); gc_obs := g_trace pm_new gs |} = true.
Proof.
  intro Hok. unfold gcase_mon. cbn [gc_labels gc_owner gc_obs].
  pose proof (agree_owners _ (grun_inv gs)) as HA.
  apply andb_true_iff. split.
  - apply gtrace_obs_ok; [apply PMInv_new | apply TInv_new | exact HA].
  - apply gtrace_outlive_ok; [apply PMInv_new | apply RcInv_new | exact Hok | exact HA].
Qed.
