(* LinkTracker.v — executable model of /repo/linktracker/linktracker.go and
   /repo/responsemanager/responseassembler/peerlinktracker.go (C19; reused by C03, C20, C24),
   together with the abstract specification the property is stated against ([spec], [monitor_C19]).

   Requests, links and dedup keys are N.  Go maps are association lists ([aget]/[aput]/[adel] of
   Base.v); deleting removes the binding, absent numeric entries read as 0 exactly as Go's zero
   values do. *)
From Coq Require Import List NArith Bool Lia.
From GS Require Export Base.
Import ListNotations.
Open Scope N_scope.

Definition req := N.
Definition link := N.
Definition dkey := N.

(* ---- linktracker.LinkTracker ---- *)
Record lt := {
  lt_missing : list (req * unit);        (* missingBlocks: only the presence of a request matters here *)
  lt_trav : list (req * list link);      (* linksWithBlocksTraversedByRequest *)
  lt_ref : list (link * N)               (* traversalsWithBlocksInProgress *)
}.
Definition lt_new : lt := {| lt_missing := []; lt_trav := []; lt_ref := [] |}.

Definition num (o : option N) : N := match o with Some n => n | None => 0 end.

(* BlockRefCount *)
Definition lt_refcount (l : link) (t : lt) : N := num (aget l (lt_ref t)).

(* RecordLinkTraversal *)
Definition lt_record (r : req) (l : link) (has : bool) (t : lt) : lt :=
  if has then
    {| lt_missing := lt_missing t;
       lt_trav := aput r (match aget r (lt_trav t) with Some ls => ls | None => [] end ++ [l]) (lt_trav t);
       lt_ref := aput l (lt_refcount l t + 1) (lt_ref t) |}
  else
    {| lt_missing := aput r tt (lt_missing t); lt_trav := lt_trav t; lt_ref := lt_ref t |}.

(* one iteration of the loop in FinishRequest: decrement, delete when <= 0 *)
Definition ref_dec (m : list (link * N)) (l : link) : list (link * N) :=
  let n := num (aget l m) - 1 in
  if n <=? 0 then adel l m else aput l n m.

(* FinishRequest *)
Definition lt_finish (r : req) (t : lt) : bool * lt :=
  let all := match aget r (lt_missing t) with Some _ => false | None => true end in
  let miss := adel r (lt_missing t) in
  match aget r (lt_trav t) with
  | None => (all, {| lt_missing := miss; lt_trav := lt_trav t; lt_ref := lt_ref t |})
  | Some links =>
      (all, {| lt_missing := miss; lt_trav := adel r (lt_trav t);
               lt_ref := fold_left ref_dec links (lt_ref t) |})
  end.

(* ---- responseassembler.peerLinkTracker ---- *)
Record plt := {
  p_main : lt;
  p_alts : list (dkey * lt);
  p_dedup : list (req * dkey);
  p_sent : list (req * N);
  p_skip : list (req * N)
}.
Definition plt_new : plt := {| p_main := lt_new; p_alts := []; p_dedup := []; p_sent := []; p_skip := [] |}.

Inductive lop :=
| LDedup (r : req) (k : dkey)
| LIgnore (r : req) (ls : list link)
| LSkip (r : req) (n : N)
| LRecord (r : req) (l : link) (has : bool)
| LFinish (r : req).

Inductive lout := ONone | OSend (send : bool) (index : N) | OFin (all : bool).

(* getLinkTracker: None models the nil pointer the Go code would dereference *)
Definition get_tracker (r : req) (s : plt) : option lt :=
  match aget r (p_dedup s) with
  | Some k => aget k (p_alts s)
  | None => Some (p_main s)
  end.
Definition set_tracker (r : req) (t : lt) (s : plt) : plt :=
  match aget r (p_dedup s) with
  | Some k => {| p_main := p_main s; p_alts := aput k t (p_alts s); p_dedup := p_dedup s;
                 p_sent := p_sent s; p_skip := p_skip s |}
  | None => {| p_main := t; p_alts := p_alts s; p_dedup := p_dedup s; p_sent := p_sent s; p_skip := p_skip s |}
  end.

Definition has_value (k : dkey) (m : list (req * dkey)) : bool := existsb (fun x => N.eqb (snd x) k) m.

(* a step; the bool is false where the Go code would panic on a nil tracker *)
Definition lstep (s : plt) (o : lop) : plt * lout * bool :=
  match o with
  | LDedup r k =>
      ({| p_main := p_main s;
          p_alts := match aget k (p_alts s) with Some _ => p_alts s | None => aput k lt_new (p_alts s) end;
          p_dedup := aput r k (p_dedup s); p_sent := p_sent s; p_skip := p_skip s |}, ONone, true)
  | LIgnore r ls =>
      match get_tracker r s with
      | None => (s, ONone, false)
      | Some t => (set_tracker r (fold_left (fun t l => lt_record r l true t) ls t) s, ONone, true)
      end
  | LSkip r n =>
      ({| p_main := p_main s; p_alts := p_alts s; p_dedup := p_dedup s; p_sent := p_sent s;
          p_skip := aput r n (p_skip s) |}, ONone, true)
  | LRecord r l has =>
      let cnt := num (aget r (p_sent s)) + 1 in
      let s1 := {| p_main := p_main s; p_alts := p_alts s; p_dedup := p_dedup s;
                   p_sent := aput r cnt (p_sent s); p_skip := p_skip s |} in
      let not_skipped := num (aget r (p_skip s)) <? cnt in
      match get_tracker r s1 with
      | None => (s1, ONone, false)
      | Some t =>
          let unique := N.eqb (lt_refcount l t) 0 in
          (set_tracker r (lt_record r l has t) s1, OSend (has && not_skipped && unique) cnt, true)
      end
  | LFinish r =>
      match get_tracker r s with
      | None => (s, ONone, false)
      | Some t =>
          let '(all, t') := lt_finish r t in
          let s1 := set_tracker r t' s in
          let s2 := match aget r (p_dedup s1) with
                    | Some k =>
                        let dd := adel r (p_dedup s1) in
                        {| p_main := p_main s1;
                           p_alts := if has_value k dd then p_alts s1 else adel k (p_alts s1);
                           p_dedup := dd; p_sent := p_sent s1; p_skip := p_skip s1 |}
                    | None => s1
                    end in
          ({| p_main := p_main s2; p_alts := p_alts s2; p_dedup := p_dedup s2;
              p_sent := adel r (p_sent s2); p_skip := adel r (p_skip s2) |}, OFin all, true)
      end
  end.

(* sizes of every internal map, as exposed by the verif hook VerifTrackerSizes *)
Definition lt_size (t : lt) : N :=
  N.of_nat (length (lt_missing t) + length (lt_trav t) + length (lt_ref t)).
Definition sizes (s : plt) : list N :=
  [ N.of_nat (length (lt_missing (p_main s))); N.of_nat (length (lt_trav (p_main s)));
    N.of_nat (length (lt_ref (p_main s))); N.of_nat (length (p_alts s));
    fold_right (fun x acc => lt_size (snd x) + acc) 0 (p_alts s);
    N.of_nat (length (p_dedup s)); N.of_nat (length (p_sent s)); N.of_nat (length (p_skip s)) ].

Record lobs := { lo_out : lout; lo_sizes : list N }.

Fixpoint lrun (s : plt) (ops : list lop) : list lobs * bool :=
  match ops with
  | [] => ([], true)
  | o :: r =>
      let '(s', out, ok) := lstep s o in
      let '(obsr, okr) := lrun s' r in
      ({| lo_out := out; lo_sizes := sizes s' |} :: obsr, ok && okr)
  end.

Fixpoint lfinal (s : plt) (ops : list lop) : plt :=
  match ops with [] => s | o :: r => let '(s', _, _) := lstep s o in lfinal s' r end.

Definition lout_eqb (a b : lout) : bool :=
  match a, b with
  | ONone, ONone => true
  | OSend x i, OSend y j => Bool.eqb x y && N.eqb i j
  | OFin x, OFin y => Bool.eqb x y
  | _, _ => false
  end.
Definition lobs_eqb (a b : lobs) : bool :=
  lout_eqb (lo_out a) (lo_out b) && list_eqb N.eqb (lo_sizes a) (lo_sizes b).

(* ============================================================================================ *)
(* The abstract specification: the set of requests in progress, each with its dedup scope, the
   links it has traversed with a block, whether it met a missing block, how many links it has
   traversed and how many leading ones it was told to skip.  No reference counts, no trackers. *)
Record sreq := {
  s_id : req; s_scope : option dkey; s_with : list link; s_miss : bool; s_count : N; s_skip : N
}.
Definition spec := list sreq.

Definition scope_eqb (a b : option dkey) : bool := option_eqb N.eqb a b.

Fixpoint sfind (r : req) (sp : spec) : option sreq :=
  match sp with [] => None | x :: rest => if N.eqb (s_id x) r then Some x else sfind r rest end.
Definition sfresh (r : req) : sreq :=
  {| s_id := r; s_scope := None; s_with := []; s_miss := false; s_count := 0; s_skip := 0 |}.
Definition sget (r : req) (sp : spec) : sreq := match sfind r sp with Some x => x | None => sfresh r end.
Fixpoint sput (x : sreq) (sp : spec) : spec :=
  match sp with
  | [] => [x]
  | y :: rest => if N.eqb (s_id y) (s_id x) then x :: rest else y :: sput x rest
  end.
Definition sdel (r : req) (sp : spec) : spec := filter (fun x => negb (N.eqb (s_id x) r)) sp.

(* is link l held (traversed with a block) by some request in progress in scope sc? *)
Definition held (sc : option dkey) (l : link) (sp : spec) : bool :=
  existsb (fun x => scope_eqb (s_scope x) sc && existsb (N.eqb l) (s_with x)) sp.

(* well-formed use of the tracker (the order prepareQuery imposes): a dedup key is assigned to a
   request only while that request has nothing in progress *)
Definition spec_step (sp : spec) (o : lop) : option (spec * lout) :=
  match o with
  | LDedup r k =>
      match sfind r sp with
      | Some _ => None                                   (* outside the protocol *)
      | None => Some (sput {| s_id := r; s_scope := Some k; s_with := []; s_miss := false;
                              s_count := 0; s_skip := 0 |} sp, ONone)
      end
  | LIgnore r ls =>
      let x := sget r sp in
      Some (sput {| s_id := r; s_scope := s_scope x; s_with := s_with x ++ ls; s_miss := s_miss x;
                    s_count := s_count x; s_skip := s_skip x |} sp, ONone)
  | LSkip r n =>
      let x := sget r sp in
      Some (sput {| s_id := r; s_scope := s_scope x; s_with := s_with x; s_miss := s_miss x;
                    s_count := s_count x; s_skip := n |} sp, ONone)
  | LRecord r l has =>
      let x := sget r sp in
      let cnt := s_count x + 1 in
      let send := has && (s_skip x <? cnt) && negb (held (s_scope x) l sp) in
      Some (sput {| s_id := r; s_scope := s_scope x;
                    s_with := if has then s_with x ++ [l] else s_with x;
                    s_miss := s_miss x || negb has; s_count := cnt; s_skip := s_skip x |} sp,
            OSend send cnt)
  | LFinish r =>
      Some (sdel r sp, OFin (negb (s_miss (sget r sp))))
  end.

(* the property as a predicate over an observed history *)
Fixpoint monitor19 (sp : spec) (ops : list lop) (obsl : list lobs) : bool :=
  match ops, obsl with
  | [], [] => true
  | o :: ops', ob :: obs' =>
      match spec_step sp o with
      | None => true                     (* history leaves the protocol: nothing is claimed *)
      | Some (sp', out) =>
          lout_eqb (lo_out ob) out &&
          (* once no request is in progress the responder keeps no tracking state *)
          (match sp' with [] => forallb (N.eqb 0) (lo_sizes ob) | _ => true end) &&
          monitor19 sp' ops' obs'
      end
  | _, _ => false
  end.
Definition monitor_C19 (ops : list lop) (obsl : list lobs) : bool := monitor19 [] ops obsl.

(* does the history stay inside the protocol? (used to classify generated cases) *)
Fixpoint wf_hist (sp : spec) (ops : list lop) : bool :=
  match ops with
  | [] => true
  | o :: r => match spec_step sp o with Some (sp', _) => wf_hist sp' r | None => false end
  end.

Record lcase := { lc_ops : list lop; lc_obs : list lobs }.
Definition lcase_agrees (c : lcase) : bool := list_eqb lobs_eqb (fst (lrun plt_new (lc_ops c))) (lc_obs c).
Definition lcase_mon (c : lcase) : bool := monitor_C19 (lc_ops c) (lc_obs c).
