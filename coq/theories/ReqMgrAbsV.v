(* ReqMgrAbsV.v — the reachable set V of the K half of the abstract request-manager system (collapsed error
   kinds), computed by vm_compute, checked closed under every K move, and shown to contain the abstraction of
   every reachable concrete state; invariants are then decidable predicates checked on the elements of V. *)
From Coq Require Import List NArith Bool Arith FMapPositive Lia.
From GS Require Import Base ReqMgr ReqMgrProofs ReqMgrAbs ReqMgrAbsK.
Import ListNotations.

Definition ast_eq_dec (a b : ast) : {a = b} + {a <> b}.
Proof. repeat decide equality. Defined.
Definition ast_eqb (a b : ast) : bool := if ast_eq_dec a b then true else false.
Lemma ast_eqb_eq a b : ast_eqb a b = true -> a = b.
Proof. unfold ast_eqb. destruct (ast_eq_dec a b); [auto | discriminate]. Qed.

Definition bN (b : bool) : N := if b then 1%N else 0%N.
Definition kN (k : ek) : N := match k with KCC => 0 | KStat => 1 | KStatO => 2 | KHook => 3 | KMiss => 4 | KHard => 5 end%N.
Fixpoint qN (q : imq) : N := match q with QNil => 0 | QCons m r => (match m with IGetTask => 1 | IRelease p => 2 + bN p | ICancel => 4 end + 5 * qN r) end%N.
Definition hash (a : ast) : positive :=
  N.succ_pos (fold_left (fun acc x => acc * 11 + x)%N
    [match a_ent a with None => 0 | Some e => 1 + (match ae_state e with Queued => 0 | Running => 1 | Paused => 2 end)
                                              + 3 * (match ae_terr e with None => 0 | Some k => 1 + kN k end) + 21 * bN (ae_started e) end;
     qN (a_mb a);
     match a_lpc a with ALIdle => 0 | ALTermSend k r => 1 + kN k + 6 * bN r | ALShutdown r => 13 + bN r end;
     bN (a_tq a);
     match a_xpc a with AXIdle => 0 | AXPopped => 1 | AXAwaitTask => 2 | AXTop b => 3 + bN b | AXLoad b => 5 + bN b
       | AXLocal x y => 7 + bN x + 2 * bN y | AXGoOnline x => 11 + bN x | AXSendErr k b => 13 + kN k + 6 * bN b
       | AXHooks x y => 25 + bN x + 2 * bN y | AXFin None => 29 | AXFin (Some k) => 30 + kN k | AXFinSend k => 36 + kN k
       | AXRelease p => 42 + bN p | AXAwaitDone => 44 end;
     match a_trav a with ATNone => 0 | ATLoader => 1 | ATRun b => 2 + bN b | ATDone b => 4 + bN b end;
     bN (a_rq a) + 2 * bN (a_ropen a) + 4 * bN (a_ptok a); bN (a_rctx a) + 2 * bN (a_tctx a) + 4 * bN (a_cctx a) + 8 * bN (a_iclosed a);
     match a_rc a with RCRun b => bN b | RCDrain x y z => 2 + bN x + 2 * bN y + 4 * bN z | RCExit => 10 end;
     bN (a_rbuf a);
     match a_ec a with ECRun b => bN b | ECSendCC b => 2 + bN b | ECExit => 4 end;
     N.of_nat (b_cc (a_eb a)) + 3 * N.of_nat (b_stat (a_eb a)) + 9 * N.of_nat (b_so (a_eb a)) + 27 * N.of_nat (b_hook (a_eb a)) + 81 * bN (b_other (a_eb a))]%N 0%N).

Definition sset := PositiveMap.t (list ast).
Definition memb (a : ast) (v : sset) : bool :=
  match PositiveMap.find (hash a) v with Some l => existsb (ast_eqb a) l | None => false end.
Definition addb (a : ast) (v : sset) : sset :=
  PositiveMap.add (hash a) (a :: match PositiveMap.find (hash a) v with Some l => l | None => [] end) v.

Definition ksuccs (a : ast) : list ast :=
  t_rc RCExit a :: flat_map (fun mv => match kstep' nk_c a (KM mv) with Some a' => [a'] | None => [] end) kmoves.
Definition kinit : ast := t_rc (RCDrain false true true) ainit.

Fixpoint explore (fuel : nat) (front : list ast) (v : sset) (cnt : nat) : sset * list ast * nat :=
  match fuel with
  | O => (v, front, cnt)
  | S f =>
    match front with
    | [] => (v, [], cnt)
    | a :: rest =>
      let '(v', new, c') := fold_left (fun acc x => let '(va, na, ca) := acc in if memb x va then acc else (addb x va, x :: na, S ca))
                                  (ksuccs a) (v, [], cnt) in
      explore f (new ++ rest) v' c'
    end
  end.


Definition explored := Eval vm_compute in explore 100000 [kinit] (addb kinit (PositiveMap.empty _)) 1.
Definition V : sset := fst (fst explored).
Definition V_elems : list ast := flat_map snd (PositiveMap.elements V).

Definition closed_ok : bool := forallb (fun a => forallb (fun x => memb x V) (ksuccs a)) V_elems.
Lemma closed_ok_true : closed_ok = true.
Proof. vm_compute. reflexivity. Qed.
Lemma init_in_V : memb kinit V = true.
Proof. vm_compute. reflexivity. Qed.

Opaque V.

Lemma memb_in a : memb a V = true -> In a V_elems.
Proof.
  unfold memb. destruct (PositiveMap.find (hash a) V) as [l|] eqn:F; [|discriminate].
  intro E. apply existsb_exists in E as (x & Hx & Ex). apply ast_eqb_eq in Ex. subst x.
  unfold V_elems. apply in_flat_map. exists (hash a, l). split; [|exact Hx].
  apply PositiveMap.elements_correct. exact F.
Qed.

Lemma V_kclosed : kclosed nk_c (fun a => In a V_elems).
Proof.
  pose proof closed_ok_true as C. unfold closed_ok in C. rewrite forallb_forall in C.
  split.
  - intros a Ha. apply memb_in. specialize (C a Ha). rewrite forallb_forall in C. apply C. left. reflexivity.
  - intros a mv a' Ha Hin E. apply memb_in. specialize (C a Ha). rewrite forallb_forall in C. apply C.
    right. apply in_flat_map. exists mv. split; [exact Hin|]. rewrite E. left. reflexivity.
Qed.

Section Reach.
Variable n0 : N.
Let aKc := aK n0 nk_c.

Lemma nk_c_miss : nk_c KMiss = KMiss. Proof. reflexivity. Qed.
Lemma nk_c_other k : k <> KMiss -> nk_c k <> KMiss. Proof. destruct k; simpl; congruence. Qed.

Lemma aK_init pl : aKc (init pl) = kinit. Proof. reflexivity. Qed.

Lemma run_in_V : forall ls s s' es, In (aKc s) V_elems -> run s ls = Some (s', es) -> In (aKc s') V_elems.
Proof.
  induction ls as [|l ls IH]; simpl; intros s s' es Hs H.
  - inv H. exact Hs.
  - destruct (step s l) as [[s1 e1]|] eqn:S; [|discriminate].
    destruct (run s1 ls) as [[s2 e2]|] eqn:R; [|discriminate]. inv H.
    eapply IH; [|exact R].
    exact (k_step n0 nk_c nk_c_miss nk_c_other (fun a => In a V_elems) s l s1 e1 V_kclosed S Hs).
Qed.

(* every reachable concrete state abstracts to one of the finitely many elements of V *)
Theorem reach_in_V pl ls s es : run (init pl) ls = Some (s, es) -> In (aKc s) V_elems.
Proof. intro H. eapply run_in_V; [|exact H]. rewrite aK_init. apply memb_in. exact init_in_V. Qed.

Lemma V_forall (P : ast -> bool) : forallb P V_elems = true ->
  forall pl ls s es, run (init pl) ls = Some (s, es) -> P (aKc s) = true.
Proof. intros H pl ls s es R. rewrite forallb_forall in H. apply H. eapply reach_in_V; eauto. Qed.
End Reach.

Eval vm_compute in length V_elems.
