(* MsgQueuePark.v — transactions whose reservation WAITS in the allocator (C15, C16).

   MsgQueue.v reduces the allocator to the peer's total and lets every reservation succeed at once.  Here the
   allocator has a per-peer limit, so that AllocateAndBuildMessage (messagequeue.go) can be parked in
   `<-mq.allocator.AllocateBlockMemory(p, size)` while the queue sends, fails, shuts down, drains and exits:

     allocator.go AllocateBlockMemory   granted at once iff the amount fits and nothing of the peer is pending,
                                        otherwise appended to the peer's pending allocations (FIFO);
     ReleaseBlockMemory                 (publishSent / publishError / scrub / refund) then grants pending
                                        allocations from the head while they fit;
     ReleasePeerMemory                  (runQueue's deferred call at exit) forgets the peer's total and answers
                                        every pending allocation with an error — which AllocateAndBuildMessage
                                        ignores: it goes on to buildMessage, and it is buildMessage's test of
                                        `done` under buildersLk that refuses the build and makes the caller return
                                        the reservation.

   The answer of the allocator reaches the parked caller at its own time: between the allocator's answer
   and the caller taking it (label PDeliver) anything may happen.  A granted but not yet taken reservation is
   accounted to the peer ([p_ready] with flag true) until the queue exits.

   Every step acts on the queue itself by at most one label of the base model (MsgQueue16.qstep16), so every
   theorem about base histories transfers (MsgQueueParkProofs.v).  No proofs here. *)
From Coq Require Import List NArith Bool Lia.
From GS Require Export Base MsgQueue MsgQueue16 MsgQueueOrder.
Import ListNotations.
Open Scope N_scope.

Definition txn := (req * list top)%type.
Definition txn_size (x : txn) : N := ops_size (snd x).

Record pst := {
  p_g : g16;                      (* the queue (g_s) with its ghost history *)
  p_limit : N;                    (* maxAllowedAllocatedPerPeer (the total limit is far away) *)
  p_wait : list txn;              (* pending allocations of the peer, oldest first *)
  p_ready : list (txn * bool)     (* answered, answer not yet taken by the caller; true = granted and still accounted *)
}.
Definition p_new (limit : N) : pst := {| p_g := g_new; p_limit := limit; p_wait := []; p_ready := [] |}.

Definition ready_sum (l : list (txn * bool)) : N :=
  fold_right (fun (x : txn * bool) acc => (if snd x then txn_size (fst x) else 0) + acc) 0 l.
(* Allocator.AllocatedForPeer *)
Definition p_total (s : pst) : N := alloc (g_s (p_g s)) + ready_sum (p_ready s).

(* allocator.go fits *)
Definition fitsb (allocated amount max : N) : bool := (allocated <=? max) && (amount <=? max - allocated).

(* processPendingAllocations for this peer: grant from the head while it fits *)
Fixpoint regrant (limit total : N) (wait : list txn) : list txn * list txn :=
  match wait with
  | [] => ([], [])
  | x :: w =>
      if fitsb total (txn_size x) limit
      then let '(g, w') := regrant limit (total + txn_size x) w in (x :: g, w')
      else ([], wait)
  end.

Definition exited (s : mq) : bool := match ph s with PExited => true | _ => false end.

(* after the queue goroutine (or a caller's refund) has run: at the moment the queue exits every pending
   allocation is answered with an error and nothing stays accounted; otherwise whatever was released is
   handed to the pending allocations *)
Definition p_post (s : pst) (g' : g16) (ready0 : list (txn * bool)) : pst :=
  if negb (exited (g_s (p_g s))) && exited (g_s g') then
    {| p_g := g'; p_limit := p_limit s; p_wait := [];
       p_ready := map (fun x : txn * bool => (fst x, false)) ready0 ++ map (fun x : txn => (x, false)) (p_wait s) |}
  else
    let '(g, w) := regrant (p_limit s) (alloc (g_s g') + ready_sum ready0) (p_wait s) in
    {| p_g := g'; p_limit := p_limit s; p_wait := w; p_ready := ready0 ++ map (fun x : txn => (x, true)) g |}.

Inductive plabel :=
| PL (l : qlabel16)       (* a label of the base model; a transaction that cannot be granted at once parks instead *)
| PDeliver.               (* the oldest answered reservation reaches its caller, which goes on to buildMessage *)

(* the reservation is made at once: nothing to reserve, or it fits and nothing is pending *)
Definition immediate (s : pst) (r : req) (ops : list top) : bool :=
  (* responseStream.execute returns before reserving anything when the stream is closed *)
  mem_req r (closed (g_s (p_g s))) ||
  (ops_size ops =? 0) || (fitsb (p_total s) (ops_size ops) (p_limit s) && match p_wait s with [] => true | _ => false end).

(* what the caller does once it has its answer (granted or not): buildMessage; the callback finds the stream open
   or closed *)
Definition deliver_label (s : pst) (r : req) (ops : list top) : qlabel16 :=
  if mem_req r (closed (g_s (p_g s))) then LBuildClosed (ops_size ops) else L16 (LBuild r ops).

(* the label of the base model a step performs on the queue, if any *)
Definition base_label (s : pst) (l : plabel) : option qlabel16 :=
  match l with
  | PL l =>
      match build_of l with
      | Some (r, ops) => if immediate s r ops then Some l else None
      | None => Some l
      end
  | PDeliver => match p_ready s with [] => None | ((r, ops), _) :: _ => Some (deliver_label s r ops) end
  end.

Section Step.
  (* the base stepper: gstep (explicit select choices) or gstep_h with a hint *)
  Variable bstep : g16 -> qlabel16 -> g16.

  Definition pstep (s : pst) (l : plabel) : pst :=
    match l with
    | PL bl =>
        match build_of bl with
        | Some (r, ops) =>
            if immediate s r ops then p_post s (bstep (p_g s) bl) (p_ready s)
            else {| p_g := p_g s; p_limit := p_limit s; p_wait := p_wait s ++ [(r, ops)]; p_ready := p_ready s |}
        | None => p_post s (bstep (p_g s) bl) (p_ready s)
        end
    | PDeliver =>
        match p_ready s with
        | [] => s
        | ((r, ops), _) :: rest => p_post s (bstep (p_g s) (deliver_label s r ops)) rest
        end
    end.
  Definition prun (limit : N) (ls : list plabel) : pst := fold_left pstep ls (p_new limit).
End Step.

Definition pstep_x := pstep gstep.                                       (* every select choice is a label *)
Definition pstep_h (h : bool) := pstep (fun g l => gstep_h g (l, h)).    (* the harness step *)

(* ---- cases ---- *)
Record pobs := {
  po_obs : qobs;            (* qo_alloc is Allocator.AllocatedForPeer *)
  po_att : option att;      (* the attachment this step made *)
  po_wait : N;              (* reservations still pending in the allocator *)
  po_ready : N;             (* answered, not yet taken by their callers *)
  po_granted : N;           (* bytes of the answered reservations that were granted and are still accounted *)
  po_built : option txn     (* the transaction whose build callback queued its operations during this step *)
}.

Definition step_events (h : bool) (s : pst) (l : plabel) : list qev :=
  match base_label s l with
  | Some bl => q_events (snd (qstep16_h (g_s (p_g s)) bl h))
  | None => []
  end.
Definition step_wire (h : bool) (s : pst) (l : plabel) : list wire :=
  match base_label s l with
  | Some bl => q_wire (snd (qstep16_h (g_s (p_g s)) bl h))
  | None => []
  end.
Definition step_att (s : pst) (l : plabel) : option att :=
  match base_label s l with Some bl => attach16 (g_s (p_g s)) bl | None => None end.

Definition step_built (s : pst) (l : plabel) : option txn :=
  match base_label s l with
  | Some bl => match attach16 (g_s (p_g s)) bl with Some _ => build_of bl | None => None end
  | None => None
  end.

Definition p_observe (univ : list req) (h : bool) (s s' : pst) (l : plabel) : pobs :=
  let ob := q_observe univ (g_s (p_g s')) {| q_events := step_events h s l; q_wire := step_wire h s l |} in
  {| po_obs := {| qo_alloc := p_total s'; qo_sizes := qo_sizes ob; qo_nonempty := qo_nonempty ob; qo_phase := qo_phase ob;
                  qo_events := qo_events ob; qo_wire := qo_wire ob |};
     po_att := step_att s l;
     po_wait := N.of_nat (length (p_wait s')); po_ready := N.of_nat (length (p_ready s'));
     po_granted := ready_sum (p_ready s'); po_built := step_built s l |}.

Fixpoint p_run (univ : list req) (s : pst) (ls : list (plabel * bool)) : list pobs :=
  match ls with
  | [] => []
  | (l, h) :: r => let s' := pstep_h h s l in p_observe univ h s s' l :: p_run univ s' r
  end.

Record pcase := {
  pc_univ : list req;
  pc_limit : N;
  pc_labels : list (plabel * bool);
  pc_obs : list pobs                (* what the implementation did *)
}.

Definition pobs_eqb (a b : pobs) : bool :=
  N.eqb (qo_alloc (po_obs a)) (qo_alloc (po_obs b)) && list_eqb N.eqb (qo_sizes (po_obs a)) (qo_sizes (po_obs b)) &&
  N.eqb (qo_nonempty (po_obs a)) (qo_nonempty (po_obs b)) && N.eqb (qo_phase (po_obs a)) (qo_phase (po_obs b)) &&
  list_eqb wobs_eqb (qo_wire (po_obs a)) (qo_wire (po_obs b)) &&
  option_eqb att_eqb (po_att a) (po_att b) && N.eqb (po_wait a) (po_wait b) && N.eqb (po_ready a) (po_ready b) &&
  N.eqb (po_granted a) (po_granted b) &&
  option_eqb (fun x y : txn => N.eqb (fst x) (fst y) && N.eqb (N.of_nat (length (snd x))) (N.of_nat (length (snd y)))) (po_built a) (po_built b).

Definition pcase_agrees (c : pcase) : bool :=
  let m := p_run (pc_univ c) (p_new (pc_limit c)) (pc_labels c) in
  let n := length (pc_univ c) in
  list_eqb pobs_eqb m (pc_obs c) &&
  list_eqb (list_eqb pairnn_eqb) (all_events n (map po_obs m)) (all_events n (map po_obs (pc_obs c))) &&
  forallb (fun i => events_never_early i (map po_obs m) (map po_obs (pc_obs c)) [] []) (seq 0 n).

(* C16 on the implementation's observations: the same monitor as for plain histories *)
Definition pcase_mon16 (c : pcase) : bool := mon16_hist (pc_univ c) (map po_obs (pc_obs c)) (map po_att (pc_obs c)).

(* C15 on the implementation's observations: accounted memory is never below what is queued; with the
   goroutine idle it is exactly what is queued plus what parked callers have been granted and not yet used;
   after the queue has exited it is zero *)
Definition mon15p_obs (o : pobs) : bool :=
  let q := po_obs o in
  (sum_n (qo_sizes q) <=? qo_alloc q) &&
  (if N.eqb (qo_phase q) 4 then N.eqb (qo_alloc q) 0
   else if N.eqb (qo_phase q) 0 then N.eqb (qo_alloc q) (sum_n (qo_sizes q) + po_granted o) else true).
Definition pcase_mon15 (c : pcase) : bool := forallb mon15p_obs (pc_obs c).

(* C17, content order, on the implementation's observations: the queue log is what the build callbacks queued, in
   the order they ran; the wire is what SendMsg was given when it returned ok *)
Definition pcase_mon17 (c : pcase) : bool :=
  mon17 (flat_map (fun o => match po_built o with Some x => items_of (fst x) (snd x) | None => [] end) (pc_obs c))
        (flat_map (fun o => qo_wire (po_obs o)) (pc_obs c)).

(* monomorphic constructors for the generated case files *)
Definition bt_ (r : req) (ops : list top) : option txn := Some (r, ops).
Definition no_bt : option txn := None.
Definition pl_ (l : plabel) (h : bool) : plabel * bool := (l, h).
Definition po_ (al : N) (sizes : list N) (ne ph_ : N) (evs : list (list (N * N)))
    (wr : list (list (req * (N * list (link * bool))) * list link)) (a : option att) (w r g : N) (bt : option txn) : pobs :=
  {| po_obs := {| qo_alloc := al; qo_sizes := sizes; qo_nonempty := ne; qo_phase := ph_; qo_events := evs; qo_wire := wr |};
     po_att := a; po_wait := w; po_ready := r; po_granted := g; po_built := bt |}.
