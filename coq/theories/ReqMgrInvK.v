(* ReqMgrInvK.v — invariants of the loop / executor / traverser half, checked on the finite set V of
   ReqMgrAbsV.v, and what follows from them together with the collector invariant of ReqMgrInv.v. *)
From Coq Require Import List NArith Bool Arith Lia.
From GS Require Import Base ReqMgr ReqMgrProofs ReqMgrCC ReqMgrInv ReqMgrAbs ReqMgrAbsK ReqMgrAbsV.
Import ListNotations.

Fixpoint qin (m : imsg) (q : imq) : bool :=
  match q with
  | QNil => false
  | QCons x r => (match m, x with IGetTask, IGetTask | ICancel, ICancel | IRelease _, IRelease _ => true | _, _ => false end) || qin m r
  end.
Definition has_ent (a : ast) : bool := match a_ent a with Some _ => true | None => false end.
Definition est (a : ast) : option rstate := match a_ent a with Some e => Some (ae_state e) | None => None end.
Definition active (a : ast) : bool :=
  match a_xpc a with AXIdle | AXPopped | AXAwaitTask | AXAwaitDone => false | _ => true end.
Definition is_running (a : ast) : bool := match est a with Some Running => true | _ => false end.

Definition kinv (a : ast) : bool :=
  (* closed internal channels: entry deleted, loop idle *)
  implb (a_iclosed a) (negb (has_ent a) && match a_lpc a with ALIdle => true | _ => false end) &&
  (* entry deleted: channels closed or the loop is waiting for the traverser to stop *)
  implb (negb (has_ent a)) (a_iclosed a || match a_lpc a with ALShutdown _ => true | _ => false end) &&
  (* handing over the terminal error: entry still there with that error recorded *)
  match a_lpc a with
  | ALTermSend k _ => negb (a_iclosed a) && match a_ent a with Some e => match ae_terr e with Some k' => true | None => false end | None => false end
  | ALShutdown _ => negb (has_ent a) && a_tctx a && negb (match a_trav a with ATNone => true | _ => false end) && negb (a_iclosed a) && a_rctx a
  | ALIdle => true
  end &&
  (* mailbox against the executor's waits *)
  Bool.eqb (qin IGetTask (a_mb a)) (match a_xpc a with AXAwaitTask => true | _ => false end) &&
  implb (qin (IRelease true) (a_mb a)) (match a_xpc a with AXAwaitDone => true | _ => false end) &&
  implb (match a_xpc a with AXAwaitDone => true | _ => false end)
        (qin (IRelease true) (a_mb a) || match a_lpc a with ALTermSend _ true | ALShutdown true => true | _ => false end) &&
  (* executor active <-> request Running (or its release is in flight) *)
  implb (active a) (is_running a) &&
  implb (is_running a) (active a || match a_xpc a with AXAwaitDone => true | _ => false end) &&
  implb (match est a with Some Queued => true | _ => false end) (a_tq a || match a_xpc a with AXPopped | AXAwaitTask => true | _ => false end) &&
  (* a request whose context is cancelled is Running (being wound down) and offline [both repairs] *)
  implb (a_rctx a && has_ent a) (is_running a && negb (a_ropen a)) &&
  (* the collector's cancel message, once enqueued, is in the mailbox or has taken effect *)
  implb (match a_rc a with RCDrain true _ _ => true | _ => false end)
        (qin ICancel (a_mb a) || negb (has_ent a) || a_rctx a || match a_lpc a with ALTermSend _ _ => true | _ => false end).

Lemma kinv_V : forallb kinv V_elems = true.
Proof. vm_compute. reflexivity. Qed.

Theorem kinv_reach n0 pl ls s es : run (init pl) ls = Some (s, es) -> kinv (aK n0 nk_c s) = true.
Proof. apply V_forall. exact kinv_V. Qed.

(* concrete readings *)
Theorem closed_entry_gone pl ls s es :
  run (init pl) ls = Some (s, es) -> iclosed s = true -> ent s = None /\ lpc s = LIdle.
Proof.
  intros R C. pose proof (kinv_reach 0%N _ _ _ _ R) as K. unfold kinv in K.
  repeat (apply andb_true_iff in K as [K ?]).
  change (a_iclosed (aK 0%N nk_c s)) with (iclosed s) in K. rewrite C in K. simpl in K.
  apply andb_true_iff in K as [K1 K2]. unfold has_ent in K1. simpl in K1, K2.
  split.
  - destruct (ent s); [discriminate K1 | reflexivity].
  - destruct (lpc s); [reflexivity | discriminate K2 | discriminate K2].
Qed.

(* while the request is in the table and the caller has not cancelled, the error collector listens *)
Theorem live_ec_listens pl ls s es :
  run (init pl) ls = Some (s, es) -> ent s <> None -> cctx s = false -> ec s = ECRun true.
Proof.
  intros R E C.
  assert (iclosed s = false) as IC.
  { destruct (iclosed s) eqn:I; [|reflexivity]. destruct (closed_entry_gone _ _ _ _ R I) as [N _]. contradiction. }
  pose proof (cinv_reach _ _ _ _ R) as CI. unfold cinv in CI. rewrite C, IC in CI.
  destruct (rc s) as [[|]|[|] [|] [|]|], (ec s) as [[|]|[|]|]; simpl in CI; try discriminate CI; reflexivity.
Qed.

(* S2, ClientCancelled half, unconditional: the first context cancel of a request that is in the table
   is answered by RequestClientCancelledErr before the returned error channel closes *)
Theorem c04_live_ctx_cancel_cc pl ls1 s1 e1 ls2 s2 e2 :
  run (init pl) ls1 = Some (s1, e1) -> ent s1 <> None -> cctx s1 = false ->
  run s1 (LEnvCtxCancel :: ls2) = Some (s2, e2) -> ec s2 = ECExit -> In (EvDelivE ErrCC) e2.
Proof.
  intros R E C R2 X. eapply c04_ctx_cancel_cc; eauto. eapply live_ec_listens; eauto.
Qed.
