(* MsgQueue.v — model of /repo/messagequeue/{messagequeue,builder}.go, /repo/message/builder.go and the
   execute path of /repo/responsemanager/responseassembler (C15, C16; FIFO half of C17).

   One peer.  The harness (and the model) drive the queue through labels:
     LBuild r ops   a response-assembler transaction for request r (blocks with distinct links, extension
                    bytes, an optional status), i.e. one AllocateAndBuildMessage call;
     LNet ok        the outcome of the network call the queue goroutine is blocked in
                    (ConnectTo+NewMessageSender, or SendMsg);
     LShutdown      MessageQueue.Shutdown();
     LPick w        which ready case Go's select took when both "work" and "done" were ready.
   After every label the queue goroutine runs until it parks again: idle, inside a network call,
   at an ambiguous select, or exited.  The memory allocator is reduced to the peer's total (the
   limits are far away; blocking allocations are C25's subject). *)
From Coq Require Import List NArith Bool Lia.
From GS Require Export Base.
Import ListNotations.
Open Scope N_scope.

Definition req := N.
Definition link := N.

Definition max_block_size : N := 524288.     (* messagequeue.maxBlockSize = 512 * 1024 *)
Definition max_retries : nat := 3.           (* the harness constructs the queue with maxRetries = 3 *)

(* operations of one transaction, as the response assembler records them *)
Inductive top :=
| TBlock (l : link) (size : N) (has : bool)    (* SendResponse(link, data): data of [size] bytes, or nil *)
| TExt (size : N)                               (* SendExtensionData with a payload encoding to [size] bytes *)
| TStatus (code : N).                           (* FinishRequest / FinishWithError / PauseRequest *)

(* message.Builder + messagequeue.Builder *)
Record bld := {
  b_topic : N;
  b_blocks : list (link * N);                   (* outgoingBlocks: cid -> len(data) *)
  b_blk : N;                                    (* blkSize *)
  b_resp : list (req * list (link * bool));     (* outgoingResponses: request -> [(link, present?)] *)
  b_status : list (req * N);                    (* completedResponses *)
  b_ext : list (req * N);                       (* number of extension items per request *)
  b_subs : list (req * unit);                   (* subscribers / response streams: keyed by request *)
}.
Definition bld_new (t : N) : bld :=
  {| b_topic := t; b_blocks := []; b_blk := 0; b_resp := []; b_status := []; b_ext := []; b_subs := [] |}.

(* Builder.Empty (no requests are ever added on this path) *)
Definition bld_empty (b : bld) : bool :=
  match b_blocks b, b_resp b with [], [] => true | _, _ => false end.

Definition resp_get (r : req) (b : bld) : list (link * bool) :=
  match aget r (b_resp b) with Some l => l | None => [] end.

(* blockOperation.build / statusOperation.build / extensionOperation.build *)
Definition apply_op (r : req) (b : bld) (o : top) : bld :=
  match o with
  | TBlock l size has =>
      {| b_topic := b_topic b;
         b_blocks := if has then aput l size (b_blocks b) else b_blocks b;
         b_blk := if has then b_blk b + size else b_blk b;
         b_resp := aput r (resp_get r b ++ [(l, has)]) (b_resp b);
         b_status := b_status b; b_ext := b_ext b; b_subs := b_subs b |}
  | TExt _ =>
      {| b_topic := b_topic b; b_blocks := b_blocks b; b_blk := b_blk b;
         b_resp := match aget r (b_resp b) with Some _ => b_resp b | None => aput r [] (b_resp b) end;
         b_status := b_status b;
         b_ext := aput r (match aget r (b_ext b) with Some n => n + 1 | None => 1 end) (b_ext b);
         b_subs := b_subs b |}
  | TStatus c =>
      {| b_topic := b_topic b; b_blocks := b_blocks b; b_blk := b_blk b;
         b_resp := match aget r (b_resp b) with Some _ => b_resp b | None => aput r [] (b_resp b) end;
         b_status := aput r c (b_status b); b_ext := b_ext b; b_subs := b_subs b |}
  end.

(* what the transaction asks the allocator for: responseOperation.size() summed *)
Definition op_size (o : top) : N :=
  match o with TBlock _ size has => if has then size else 0 | TExt size => size | TStatus _ => 0 end.
Definition ops_size (ops : list top) : N := fold_right (fun o acc => op_size o + acc) 0 ops.
Definition ops_blocks (ops : list top) : N :=
  fold_right (fun o acc => match o with TBlock _ size true => size + acc | _ => acc end) 0 ops.

(* the build callback of responseStream.execute *)
Definition build_ops (r : req) (ops : list top) (b : bld) : bld :=
  let b1 := fold_left (apply_op r) ops b in
  {| b_topic := b_topic b1; b_blocks := b_blocks b1; b_blk := b_blk b1; b_resp := b_resp b1;
     b_status := b_status b1; b_ext := b_ext b1; b_subs := aput r tt (b_subs b1) |}.

(* message.Builder.ScrubResponses for a set of requests: returns the bytes freed *)
Definition mem_req (r : req) (rs : list req) : bool := existsb (N.eqb r) rs.
Definition scrub_kept (rs : list req) (b : bld) : list (link * N) :=
  let resp' := filter (fun x => negb (mem_req (fst x) rs)) (b_resp b) in
  (* blocks kept: those some remaining response lists as present and that are in outgoingBlocks *)
  let wanted := flat_map (fun x => map fst (filter snd (snd x))) resp' in
  filter (fun x => existsb (N.eqb (fst x)) wanted) (b_blocks b).
Definition scrub_bld (rs : list req) (b : bld) : bld * N :=
  let kept := scrub_kept rs b in
  let newsize := fold_right (fun x acc => snd x + acc) 0 kept in
  ({| b_topic := b_topic b; b_blocks := kept; b_blk := newsize;
      b_resp := filter (fun x => negb (mem_req (fst x) rs)) (b_resp b);
      b_status := filter (fun x => negb (mem_req (fst x) rs)) (b_status b);
      b_ext := filter (fun x => negb (mem_req (fst x) rs)) (b_ext b);
      b_subs := filter (fun x => negb (mem_req (fst x) rs)) (b_subs b) |},
   b_blk b - newsize).

(* ---- events reported to subscribers and messages handed to the network ---- *)
Inductive qev :=
| EvQueued (r : req) (topic : N)
| EvSent (r : req) (topic : N)
| EvError (r : req) (topic : N)
| EvClosed (r : req) (topic : N).             (* Close(topic): the subscription to that message ends *)

Record wire := { w_topic : N; w_resps : list (req * (N * list (link * bool))); w_blocks : list link }.

Inductive phase :=
| PIdle
| PConnect (b : bld) (attempt : nat) (initial : bool)   (* blocked in ConnectTo / NewMessageSender *)
| PSend (b : bld) (attempt : nat)                       (* blocked in SendMsg *)
| PSelect                                               (* both outgoingWork and done are ready *)
| PExited.

Record mq := {
  builders : list bld;
  next_topic : N;
  alloc : N;                    (* allocator total for this peer *)
  has_sender : bool;
  work : bool;                  (* a signal is pending in outgoingWork *)
  done : bool;
  ph : phase;
  closed : list req;            (* response streams closed by an error *)
  miss : list (req * unit)      (* requests that traversed a missing block (for the finish status) *)
}.
Definition mq_new : mq :=
  {| builders := []; next_topic := 0; alloc := 0; has_sender := false; work := false; done := false;
     ph := PIdle; closed := []; miss := [] |}.

Inductive qlabel :=
| LBuild (r : req) (ops : list top)
| LNet (ok : bool)
| LShutdown
| LPick (take_work : bool).

Record qout := { q_events : list qev; q_wire : list wire }.
Definition out_nil : qout := {| q_events := []; q_wire := [] |}.
Definition out_app (a b : qout) : qout :=
  {| q_events := q_events a ++ q_events b; q_wire := q_wire a ++ q_wire b |}.

Definition subs_of (b : bld) : list req := map fst (b_subs b).
Definition evs (f : req -> N -> qev) (b : bld) : list qev := map (fun r => f r (b_topic b)) (subs_of b).

Definition set_fields (s : mq) (bs : list bld) (al : N) (snd_ : bool) (wk dn : bool) (p : phase) (cl : list req) : mq :=
  {| builders := bs; next_topic := next_topic s; alloc := al; has_sender := snd_; work := wk; done := dn;
     ph := p; closed := cl; miss := miss s |}.

(* publishError: close the message's response streams, scrub those requests from every queued builder
   (releasing what that frees), report, release the message's own bytes *)
Definition publish_error (s : mq) (b : bld) : mq * qout :=
  let rs := subs_of b in
  let scrubbed := map (scrub_bld rs) (builders s) in
  let freed := fold_right (fun x acc => snd x + acc) 0 scrubbed in
  let bs' := filter (fun x => negb (bld_empty x)) (map fst scrubbed) in
  (set_fields s bs' (alloc s - freed - b_blk b) (has_sender s) (work s) (done s) (ph s) (closed s ++ rs),
   {| q_events := evs EvError b ++ evs EvClosed b; q_wire := [] |}).

Definition publish_sent (s : mq) (b : bld) : mq * qout :=
  (set_fields s (builders s) (alloc s - b_blk b) (has_sender s) (work s) (done s) (ph s) (closed s),
   {| q_events := evs EvSent b ++ evs EvClosed b;
      q_wire := [ {| w_topic := b_topic b;
                     w_resps := map (fun x => (fst x, (match aget (fst x) (b_status b) with Some c => c | None => 14 end, snd x))) (b_resp b);
                     w_blocks := map fst (b_blocks b) |} ] |}).

(* extractOutgoingMessage first drops the builders nothing was added to *)
Fixpoint skip_empty (bs : list bld) : list bld :=
  match bs with
  | b :: rest => if bld_empty b then skip_empty rest else bs
  | [] => []
  end.

(* the drain loop of the done branch: report every queued builder as failed *)
Fixpoint drain (fuel : nat) (s : mq) (acc : qout) : mq * qout :=
  match fuel with
  | O => (s, acc)
  | S f =>
      match skip_empty (builders s) with
      | [] => (set_fields s [] (alloc s) (has_sender s) (work s) (done s) (ph s) (closed s), acc)
      | b :: rest =>
          let s1 := set_fields s rest (alloc s) (has_sender s) (work s) (done s) (ph s) (closed s) in
          let '(s2, o) := publish_error s1 b in drain f s2 (out_app acc o)
      end
  end.

(* the goroutine runs from the top of its loop until it parks; fuel bounds the number of loop turns *)
Fixpoint run_loop (fuel : nat) (s : mq) (acc : qout) : mq * qout :=
  match fuel with
  | O => (s, acc)
  | S f =>
      match work s, done s with
      | true, true => (set_fields s (builders s) (alloc s) (has_sender s) true true PSelect (closed s), acc)
      | true, false =>
          (* sendMessage: extract the first non-empty builder *)
          match skip_empty (builders s) with
          | [] => run_loop f (set_fields s [] (alloc s) (has_sender s) false false PIdle (closed s)) acc
          | b :: rest =>
              let wk := match rest with [] => false | _ => true end in
              let acc1 := out_app acc {| q_events := evs EvQueued b; q_wire := [] |} in
              if has_sender s then (set_fields s rest (alloc s) true wk false (PSend b O) (closed s), acc1)
              else (set_fields s rest (alloc s) false wk false (PConnect b O true) (closed s), acc1)
          end
      | false, true =>
          (* done: report everything still queued as failed, close the sender, release the peer's
             memory, exit *)
          let '(s1, o) := drain (S (length (builders s))) s acc in
          (set_fields s1 (builders s1) 0 false false true PExited (closed s1), o)
      | false, false => (set_fields s (builders s) (alloc s) (has_sender s) false false PIdle (closed s), acc)
      end
  end.

Definition loop_fuel (s : mq) : nat := S (S (length (builders s))).

(* the last builder of the queue, and updating it in place *)
Fixpoint last_opt (bs : list bld) : option bld :=
  match bs with [] => None | [b] => Some b | _ :: r => last_opt r end.
Fixpoint upd_last (f : bld -> bld) (bs : list bld) : list bld :=
  match bs with [] => [] | [b] => [f b] | b :: r => b :: upd_last f r end.

(* shouldBeginNewResponse + buildMessage + the reservation *)
Definition do_build (s : mq) (r : req) (ops : list top) : mq * qout :=
  (* bookkeeping of the link tracker: a missing block makes the final status "partial" *)
  let miss' := if existsb (fun o => match o with TBlock _ _ false => true | _ => false end) ops
               then aput r tt (miss s) else miss s in
  let s0 := {| builders := builders s; next_topic := next_topic s; alloc := alloc s; has_sender := has_sender s;
               work := work s; done := done s; ph := ph s; closed := closed s; miss := miss' |} in
  if mem_req r (closed s) then (s0, out_nil)                        (* execute: stream closed, nothing happens *)
  else if done s then (s0, out_nil)       (* buildMessage refuses once done is closed; the reservation is returned *)
  else
    let size := ops_size ops in
    let need_new := match last_opt (builders s) with
                    | None => true
                    | Some last => if size =? 0 then false else max_block_size <? b_blk last + size
                    end in
    let '(bs, nt) := if need_new then (builders s ++ [bld_new (next_topic s)], next_topic s + 1)
                     else (builders s, next_topic s) in
    let bs' := upd_last (build_ops r ops) bs in
    let added := match last_opt bs', last_opt bs with
                 | Some l', Some l => b_blk l' - b_blk l
                 | _, _ => 0
                 end in
    (* the part of the reservation that did not become queued block bytes is returned at once *)
    let al := alloc s + size - (size - added) in
    let wk := match last_opt bs' with Some l' => if bld_empty l' then work s else true | None => work s end in
    ({| builders := bs'; next_topic := nt; alloc := al; has_sender := has_sender s; work := wk;
        done := done s; ph := ph s; closed := closed s; miss := miss' |}, out_nil).

Definition qstep (s : mq) (l : qlabel) : mq * qout :=
  match l with
  | LBuild r ops =>
      let '(s1, o) := do_build s r ops in
      match ph s1 with
      | PIdle => run_loop (loop_fuel s1) s1 o
      | _ => (s1, o)
      end
  | LShutdown =>
      let s1 := set_fields s (builders s) (alloc s) (has_sender s) (work s) true (ph s) (closed s) in
      match ph s with
      | PIdle => run_loop (loop_fuel s1) s1 out_nil
      | _ => (s1, out_nil)
      end
  | LPick take_work =>
      match ph s with
      | PSelect =>
          if take_work then
            (* behave as if done were not set for this one turn *)
            let s1 := set_fields s (builders s) (alloc s) (has_sender s) true false PIdle (closed s) in
            let '(s2, o) := run_loop 1 s1 out_nil in
            let s3 := set_fields s2 (builders s2) (alloc s2) (has_sender s2) (work s2) true (ph s2) (closed s2) in
            match ph s3 with
            | PIdle => run_loop (loop_fuel s3) s3 o
            | _ => (s3, o)
            end
          else
            (* done branch with a pending signal: consume it, drain, exit *)
            let s1 := set_fields s (builders s) (alloc s) (has_sender s) false true PIdle (closed s) in
            let '(s2, o) := drain (S (length (builders s1))) s1 out_nil in
            (set_fields s2 (builders s2) 0 false false true PExited (closed s2), o)
      | _ => (s, out_nil)
      end
  | LNet ok =>
      match ph s with
      | PConnect b i initial =>
          if ok then
            if initial then (set_fields s (builders s) (alloc s) true (work s) (done s) (PSend b O) (closed s), out_nil)
            else if Nat.ltb (S i) max_retries
            then (* reconnected after failed attempt i: the retry loop moves on to attempt i+1 *)
              (set_fields s (builders s) (alloc s) true (work s) (done s) (PSend b (S i)) (closed s), out_nil)
            else (* retries expended: the message is reported failed (the new sender is kept) *)
              let '(s1, o) := publish_error (set_fields s (builders s) (alloc s) true (work s) (done s) PIdle (closed s)) b in
              run_loop (loop_fuel s1) s1 o
          else
            let '(s1, o) := publish_error (set_fields s (builders s) (alloc s) false (work s) (done s) PIdle (closed s)) b in
            (* an initial connect failure makes the queue shut itself down *)
            let s2 := set_fields s1 (builders s1) (alloc s1) false (work s1) (if initial then true else done s1) PIdle (closed s1) in
            run_loop (loop_fuel s2) s2 o
      | PSend b i =>
          if ok then
            let '(s1, o) := publish_sent (set_fields s (builders s) (alloc s) true (work s) (done s) PIdle (closed s)) b in
            run_loop (loop_fuel s1) s1 o
          else
            (* send failed: reset the sender *)
            let s0 := set_fields s (builders s) (alloc s) false (work s) (done s) PIdle (closed s) in
            if done s then
              let '(s1, o) := publish_error s0 b in run_loop (loop_fuel s1) s1 o
            else (set_fields s0 (builders s0) (alloc s0) false (work s0) (done s0) (PConnect b i false) (closed s0), out_nil)
      | _ => (s, out_nil)
      end
  end.

(* ============================================================================================ *)
(* Observations at the points where the queue goroutine is parked, and the harness step (a label plus
   a hint telling which way an ambiguous select went). *)
Definition phase_code (p : phase) : N :=
  match p with PIdle => 0 | PConnect _ _ _ => 1 | PSend _ _ => 2 | PSelect => 3 | PExited => 4 end.

Definition inflight_size (p : phase) : N :=
  match p with PConnect b _ _ => b_blk b | PSend b _ => b_blk b | _ => 0 end.

Definition qstep_h (s : mq) (l : qlabel) (hint : bool) : mq * qout :=
  let '(s1, o1) := qstep s l in
  match ph s1 with
  | PSelect =>
      let '(s2, o2) := qstep s1 (LPick hint) in
      match ph s2 with
      | PSelect => let '(s3, o3) := qstep s2 (LPick hint) in (s3, out_app (out_app o1 o2) o3)
      | _ => (s2, out_app o1 o2)
      end
  | _ => (s1, o1)
  end.

(* events of one request, in order: (kind, topic) with kind 0 queued, 1 sent, 2 error, 3 closed *)
Definition ev_req (e : qev) : req := match e with EvQueued r _ | EvSent r _ | EvError r _ | EvClosed r _ => r end.
Definition ev_code (e : qev) : N * N :=
  match e with EvQueued _ t => (0, t) | EvSent _ t => (1, t) | EvError _ t => (2, t) | EvClosed _ t => (3, t) end.
Definition events_for (r : req) (l : list qev) : list (N * N) := map ev_code (filter (fun e => N.eqb (ev_req e) r) l).

Fixpoint insert_n (x : N) (l : list N) : list N :=
  match l with [] => [x] | y :: r => if x <=? y then x :: l else y :: insert_n x r end.
Definition sort_n (l : list N) : list N := fold_right insert_n [] l.
Fixpoint insert_key {A} (x : N * A) (l : list (N * A)) : list (N * A) :=
  match l with [] => [x] | y :: r => if fst x <=? fst y then x :: l else y :: insert_key x r end.
Definition sort_key {A} (l : list (N * A)) : list (N * A) := fold_right insert_key [] l.

Record qobs := {
  qo_alloc : N;                                   (* Allocator.AllocatedForPeer *)
  qo_sizes : list N;                              (* block size of every queued builder (verif hook) *)
  qo_nonempty : N;                                (* number of queued builders holding content (verif hook) *)
  qo_phase : N;
  qo_events : list (list (N * N));                (* per request of the universe: its events during this step *)
  qo_wire : list (list (req * (N * list (link * bool))) * list link)   (* messages handed to SendMsg *)
}.

Definition wire_obs (w : wire) : list (req * (N * list (link * bool))) * list link :=
  (sort_key (w_resps w), sort_n (w_blocks w)).

Definition q_observe (univ : list req) (s : mq) (o : qout) : qobs :=
  {| qo_alloc := alloc s; qo_sizes := map b_blk (builders s);
     qo_nonempty := N.of_nat (length (filter (fun b => negb (bld_empty b)) (builders s)));
     qo_phase := phase_code (ph s);
     qo_events := map (fun r => events_for r (q_events o)) univ;
     qo_wire := map wire_obs (q_wire o) |}.

(* a message handed to SendMsg is only observable when the call returns ok in the model (publish_sent);
   the harness likewise reports a message when its SendMsg call is released with ok *)
Fixpoint q_run (univ : list req) (s : mq) (ls : list (qlabel * bool)) : list qobs :=
  match ls with
  | [] => []
  | (l, h) :: r => let '(s', o) := qstep_h s l h in q_observe univ s' o :: q_run univ s' r
  end.

Definition pairnn_eqb (a b : N * N) : bool := N.eqb (fst a) (fst b) && N.eqb (snd a) (snd b).
Definition lb_eqb (a b : link * bool) : bool := N.eqb (fst a) (fst b) && Bool.eqb (snd a) (snd b).
Definition resp_eqb (a b : req * (N * list (link * bool))) : bool :=
  N.eqb (fst a) (fst b) && N.eqb (fst (snd a)) (fst (snd b)) && list_eqb lb_eqb (snd (snd a)) (snd (snd b)).
Definition wobs_eqb (a b : list (req * (N * list (link * bool))) * list link) : bool :=
  list_eqb resp_eqb (fst a) (fst b) && list_eqb N.eqb (snd a) (snd b).
(* per step everything but the subscriber events is compared; events are delivered by the publisher's own
   goroutine and may be observed a step late, so they are compared per request over the whole history *)
Definition qobs_eqb (a b : qobs) : bool :=
  N.eqb (qo_alloc a) (qo_alloc b) && list_eqb N.eqb (qo_sizes a) (qo_sizes b) && N.eqb (qo_nonempty a) (qo_nonempty b) &&
  N.eqb (qo_phase a) (qo_phase b) && list_eqb wobs_eqb (qo_wire a) (qo_wire b).
Definition all_events (n : nat) (obs : list qobs) : list (list (N * N)) :=
  map (fun i => flat_map (fun o => nth i (qo_events o) []) obs) (seq 0 n).

(* ---- the properties on an observed history ---- *)
(* C15: whenever the goroutine is parked, the peer's accounted memory equals the block bytes of the
   queued builders plus those of the message in flight; once it has exited, or is idle with nothing
   queued, it is zero.  The in-flight size is not directly observable: the monitor tracks it from the
   sizes it saw queued (the head builder's size when a Queued event opens a message). *)
Definition sum_n (l : list N) : N := fold_right N.add 0 l.

Record qcase := { qc_univ : list req; qc_labels : list (qlabel * bool); qc_obs : list qobs }.
Definition qcase_agrees (c : qcase) : bool :=
  let m := q_run (qc_univ c) mq_new (qc_labels c) in
  list_eqb qobs_eqb m (qc_obs c) &&
  list_eqb (list_eqb pairnn_eqb) (all_events (length (qc_univ c)) m) (all_events (length (qc_univ c)) (qc_obs c)).

(* C15 monitor: idle or exited with nothing queued means nothing accounted; and accounted memory never
   drops below what is queued *)
Definition mon15_obs (o : qobs) : bool :=
  (sum_n (qo_sizes o) <=? qo_alloc o) &&
  (if (N.eqb (qo_phase o) 0 || N.eqb (qo_phase o) 4) then N.eqb (qo_alloc o) (sum_n (qo_sizes o)) else true) &&
  (if N.eqb (qo_phase o) 4 then N.eqb (qo_alloc o) 0 else true).
Definition qcase_mon15 (c : qcase) : bool := forallb mon15_obs (qc_obs c).

(* C16 monitor: per request, every message that was reported queued gets exactly one of sent / error,
   then its close, and nothing else for that topic *)
Fixpoint ev_seq_ok (queued resolved closed_ : list N) (l : list (N * N)) : bool :=
  (* per subscriber: a message (topic) is announced queued at most once and before its outcome; it gets at
     most one outcome (sent or error); its close comes after the outcome, once; nothing follows the close *)
  match l with
  | [] => true
  | (k, t) :: r =>
      let has x := existsb (N.eqb t) x in
      if N.eqb k 0 then negb (has queued) && negb (has resolved) && negb (has closed_) && ev_seq_ok (t :: queued) resolved closed_ r
      else if (N.eqb k 1 || N.eqb k 2) then negb (has resolved) && negb (has closed_) && ev_seq_ok queued (t :: resolved) closed_ r
      else has resolved && negb (has closed_) && ev_seq_ok queued resolved (t :: closed_) r
  end.
(* topics announced queued (or given an outcome) that have not been closed *)
Fixpoint ev_unresolved (open_ : list N) (l : list (N * N)) : list N :=
  match l with
  | [] => open_
  | (k, t) :: r => if N.eqb k 3 then ev_unresolved (filter (fun x => negb (N.eqb x t)) open_) r
                   else ev_unresolved (if existsb (N.eqb t) open_ then open_ else t :: open_) r
  end.
Definition nth_events (i : nat) (obs : list qobs) : list (N * N) :=
  flat_map (fun o => nth i (qo_events o) []) obs.
Definition qcase_mon16 (c : qcase) : bool :=
  forallb (fun i => ev_seq_ok [] [] [] (nth_events i (qc_obs c))) (seq 0 (length (qc_univ c))) &&
  (* at the end of a history whose goroutine is idle or exited, no queued message is left unreported *)
  match rev (qc_obs c) with
  | last :: _ =>
      if (N.eqb (qo_phase last) 0 || N.eqb (qo_phase last) 4)
      then N.eqb (qo_nonempty last) 0 && forallb (fun i => match ev_unresolved [] (nth_events i (qc_obs c)) with [] => true | _ => false end)
                   (seq 0 (length (qc_univ c)))
      else true
  | [] => true
  end.
