(* C02Prefix.v — definitions for the last part of C02 (a non-empty locally loaded prefix before the request
   goes online): the plan's links in traversal order, the traversal record they produce, the two executable
   guards of C02_holds_guarded.  No proofs here (C02Trie.v, C02PrefixProofs.v). *)
From Coq Require Import List NArith Bool.
From GS Require Import Base Ltree RecLoader ReqExec.
Import ListNotations.
Open Scope N_scope.

(* links of a plan in traversal order: (path, cid) *)
Fixpoint tnodes (t : ltree) : list (path * cid) :=
  match t with LNode p c body => (p, c) :: inodes body end
with inodes (l : items) : list (path * cid) :=
  match l with INil => [] | IVisit _ r => inodes r | IChild t r => tnodes t ++ inodes r end.

(* the traversal record after these links were loaded successfully, in this order (RecordNextStep) *)
Definition trie_of (ns : list (path * cid)) : trec :=
  fold_left (fun T n => record_step (fst n) (snd n) true T) ns trec_empty.

(* the links of a record in the order the Verifier visits them: a node before its children, children in
   first-insertion order; nodes without a link (inline nodes) are passed through *)
Fixpoint tlist (t : trec) (pth : path) : list (path * cid) :=
  match t with
  | TRec lnk _ kids =>
      (match lnk with Some l => [(pth, l)] | None => [] end) ++
      (fix go (ks : list (seg * trec)) : list (path * cid) :=
         match ks with [] => [] | (s, k) :: r => tlist k (pth ++ [s]) ++ go r end) kids
  end.

Definition pc_list_eqb (a b : list (path * cid)) : bool := list_eqb pc_eqb a b.

(* Guard 1 (on the plan alone): at every moment of the traversal the record's verification order is the
   traversal order.  True of every go-ipld-prime traversal (all links below one path prefix are visited
   contiguously); NOT implied by wf_plan (see C02_wf_plan_insufficient). *)
Definition trie_ordered (t : ltree) : bool :=
  forallb (fun k => pc_list_eqb (tlist (trie_of (firstn k (tnodes t))) []) (firstn k (tnodes t)))
          (seq 0 (S (length (tnodes t)))).

(* Guard 2 = not finding C02-F1 (driver tag skip_misaligned): scan the plan the way the requestor traverses
   it before its first local miss.  QBad: a link whose parent link the responder lacks was loaded locally
   (the responder's stream has no entry for it, so the requestor's block count exceeds the number of stream
   entries for the prefix). *)
Inductive qres := QAll | QOnline | QBad.
Section Scan.
  Variables L R : store.
  (* below a link the responder lacks: the next link must be the first local miss *)
  Fixpoint nf_first (l : items) : qres :=
    match l with
    | INil => QAll
    | IVisit _ r => nf_first r
    | IChild t _ => match aget (root_cid t) L with None => QOnline | Some _ => QBad end
    end.
  Fixpoint nf_tree (t : ltree) : qres :=
    match t with
    | LNode p c body =>
        match aget c L with
        | None => QOnline
        | Some _ => match aget c R with Some _ => nf_items body | None => nf_first body end
        end
    end
  with nf_items (l : items) : qres :=
    match l with
    | INil => QAll
    | IVisit _ r => nf_items r
    | IChild t r => match nf_tree t with QAll => nf_items r | x => x end
    end.
End Scan.
Definition no_F1_scan (t : ltree) (L R : store) : bool :=
  match nf_tree L R t with QBad => false | _ => true end.

(* the requestor holds every link its traversal reaches: no request is ever sent *)
Fixpoint all_local_tree (L : store) (t : ltree) : bool :=
  match t with
  | LNode _ c body => match aget c L with Some _ => all_local_items L body | None => false end
  end
with all_local_items (L : store) (l : items) : bool :=
  match l with INil => true | IVisit _ r => all_local_items L r | IChild t r => all_local_tree L t && all_local_items L r end.

(* exactly the complement of the driver's tag: the request goes online AND a link below a link the responder
   lacks was loaded locally before the first local miss *)
Definition no_F1 (t : ltree) (L R : store) : bool := all_local_tree L t || no_F1_scan t L R.

(* ---------- checks over the driver's cases (d_loader), for the registry ---------- *)
(* the plan guard holds of every harvested plan *)
Definition d_trie_ordered (c : dcase) : bool :=
  match c with DE c => trie_ordered (ec_plan c) | _ => true end.
(* the guards of C02_holds_guarded on a whole-stack case *)
Definition e2e_guards (c : e2ecase) : bool :=
  let L := store_of (ec_L c) in let R := store_of (ec_R c) in
  wf_plan (ec_plan c) && trie_ordered (ec_plan c) &&
  (match aget (root_cid (ec_plan c)) R with Some _ => true | None => false end) && no_F1 (ec_plan c) L R.
(* MON02 sharpened by the theorem: inside the guards the implementation's outcome must be the reference's
   (outside them: findings C02-F1 / C02-F2) *)
Definition d_mon02_guarded (c : dcase) : bool :=
  match c with DE c => negb (e2e_guards c) || e2e_mon c | _ => true end.
