(* ReqMgrMsgProofs.v — proofs about ReqMgrMsg.v (C09).

   1. Locality: what any label of the run loop does to the table entry of a request r, and the events
      it emits for r, is a function of r's entry alone ([step_local]).  For a message this goes through
      the generic lemma [for_each_local] about the range-over-responses loops.
   2. Frame: a message from a peer other than r's owner is the identity on r ([lprocess_foreign]).
   3. Projection over arbitrary label sequences ([run_projection]).
   4. No nil dereference for well-formed messages on consistent tables ([run_no_nilderef]).
   5. The positive half: the owner's response does reach the hooks and the loader. *)
From Coq Require Import List NArith Bool Lia.
From GS Require Import Base ReqMgrMsg.
Import ListNotations.
Open Scope N_scope.

(* ---------- table access ---------- *)
Lemma aget_tset_eq k oe (t : tab) : aget k (tset k oe t) = oe.
Proof. destruct oe; simpl; [apply aget_aput_eq | apply aget_adel_eq]. Qed.

Lemma aget_tset_neq k k' oe (t : tab) : k <> k' -> aget k' (tset k oe t) = aget k' t.
Proof. intro H. destruct oe; simpl; [now apply aget_aput_neq | now apply aget_adel_neq]. Qed.

Definition restrict (r : rid) (rs : list resp) : list resp := filter (fun x => r_id x =? r) rs.

Lemma restrict_cons r x rest :
  restrict r (x :: rest) = if r_id x =? r then x :: restrict r rest else restrict r rest.
Proof. reflexivity. Qed.

Lemma events_of_app r a b : events_of r (a ++ b) = events_of r a ++ events_of r b.
Proof. unfold events_of. apply filter_app. Qed.

Lemma events_of_all r evs : (forall ev, In ev evs -> ev_id ev = r) -> events_of r evs = evs.
Proof.
  induction evs as [|e evs IH]; simpl; intro H; [reflexivity|].
  rewrite (H e (or_introl eq_refl)), N.eqb_refl. f_equal. apply IH. intros; apply H; now right.
Qed.

Lemma events_of_none r evs : (forall ev, In ev evs -> ev_id ev <> r) -> events_of r evs = [].
Proof.
  induction evs as [|e evs IH]; simpl; intro H; [reflexivity|].
  destruct (N.eqb_spec (ev_id e) r) as [E|_]; [exfalso; exact (H e (or_introl eq_refl) E)|].
  apply IH. intros; apply H; now right.
Qed.

(* ---------- projections of the loop's result ---------- *)
Definition fe_st {A B C} (x : A * B * C) : A := fst (fst x).
Definition fe_ev {A B C} (x : A * B * C) : B := snd (fst x).
Definition fe_kept {A B C} (x : A * B * C) : C := snd x.

(* ---------- the range-over-responses loop, seen from one request ---------- *)
Section Local.
  Variable f : resp -> option entry -> lres.
  Hypothesis f_ev : forall x oe ev, In ev (lr_events (f x oe)) -> ev_id ev = r_id x.

  Fixpoint lfor_each (oe : option entry) (rs : list resp) : option entry * list event * list resp :=
    match rs with
    | [] => (oe, [], [])
    | x :: rest =>
      let r := f x oe in
      let '(oe2, ev2, kept) := lfor_each (lr_entry r) rest in
      (oe2, lr_events r ++ ev2, if lr_keep r then x :: kept else kept)
    end.

  Lemma for_each_local r : forall rs s,
    aget r (rm_tab (fe_st (for_each f s rs))) = fe_st (lfor_each (aget r (rm_tab s)) (restrict r rs)) /\
    events_of r (fe_ev (for_each f s rs)) = fe_ev (lfor_each (aget r (rm_tab s)) (restrict r rs)) /\
    restrict r (fe_kept (for_each f s rs)) = fe_kept (lfor_each (aget r (rm_tab s)) (restrict r rs)).
  Proof.
    induction rs as [|x rest IH]; intro s; [simpl; auto|].
    cbn [for_each].
    set (res := f x (aget (r_id x) (rm_tab s))).
    set (s1 := mk_rm (tset (r_id x) (lr_entry res) (rm_tab s)) (rm_nilderef s || lr_nil res)).
    specialize (IH s1).
    destruct (for_each f s1 rest) as [[s2 ev2] kept] eqn:E2.
    unfold fe_st, fe_ev, fe_kept in *. cbn [fst snd] in *.
    destruct IH as (IH1 & IH2 & IH3).
    rewrite (restrict_cons r x rest).
    destruct (N.eqb_spec (r_id x) r) as [E|NE].
    - (* this response is for r *)
      cbn [lfor_each].
      assert (A1 : aget r (rm_tab s1) = lr_entry res).
      { unfold s1; cbn [rm_tab]. rewrite <- E. apply aget_tset_eq. }
      rewrite A1 in IH1, IH2, IH3.
      assert (Hres : f x (aget r (rm_tab s)) = res) by (unfold res; now rewrite E).
      rewrite Hres.
      destruct (lfor_each (lr_entry res) (restrict r rest)) as [[oe2 lev2] lkept] eqn:EL.
      cbn [fst snd] in *. split; [exact IH1|]. split.
      + rewrite events_of_app, IH2. f_equal. apply events_of_all.
        intros ev Hin. rewrite <- E. now apply f_ev with (oe := aget (r_id x) (rm_tab s)).
      + destruct (lr_keep res).
        * rewrite restrict_cons. destruct (N.eqb_spec (r_id x) r); [|contradiction].
          f_equal. exact IH3.
        * exact IH3.
    - (* a response for another request *)
      assert (A1 : aget r (rm_tab s1) = aget r (rm_tab s)).
      { unfold s1; cbn [rm_tab]. now apply aget_tset_neq. }
      rewrite A1 in IH1, IH2, IH3.
      split; [exact IH1|]. split.
      + rewrite events_of_app, IH2.
        rewrite events_of_none; [reflexivity|].
        intros ev Hin Eid. apply NE. rewrite <- Eid. symmetry. now apply f_ev with (oe := aget (r_id x) (rm_tab s)).
      + destruct (lr_keep res); [|exact IH3].
        rewrite restrict_cons. destruct (N.eqb_spec (r_id x) r); [contradiction|]. exact IH3.
  Qed.

  (* the responses kept are a sub-list of the responses given *)
  Lemma for_each_kept_in : forall rs s x, In x (fe_kept (for_each f s rs)) -> In x rs.
  Proof.
    induction rs as [|y rest IH]; intros s x; [simpl; auto|].
    cbn [for_each].
    set (res := f y (aget (r_id y) (rm_tab s))).
    set (s1 := mk_rm (tset (r_id y) (lr_entry res) (rm_tab s)) (rm_nilderef s || lr_nil res)).
    specialize (IH s1 x).
    destruct (for_each f s1 rest) as [[s2 ev2] kept] eqn:E2.
    unfold fe_kept in *; cbn [snd] in *.
    destruct (lr_keep res); simpl; intuition.
  Qed.

  Lemma for_each_kept_nodup : forall rs s, NoDup (map r_id rs) -> NoDup (map r_id (fe_kept (for_each f s rs))).
  Proof.
    induction rs as [|y rest IH]; intros s Hn; [simpl; constructor|].
    cbn [for_each]. inversion Hn as [|? ? Hnotin Hn']; subst.
    set (res := f y (aget (r_id y) (rm_tab s))).
    set (s1 := mk_rm (tset (r_id y) (lr_entry res) (rm_tab s)) (rm_nilderef s || lr_nil res)).
    pose proof (IH s1 Hn') as IH'.
    pose proof (for_each_kept_in rest s1) as Hsub.
    destruct (for_each f s1 rest) as [[s2 ev2] kept] eqn:E2.
    unfold fe_kept in *; cbn [snd] in *.
    destruct (lr_keep res); [|exact IH'].
    cbn [map]. constructor; [|exact IH'].
    intro Hin. apply Hnotin. apply in_map_iff in Hin as (z & Ez & Hz). apply in_map_iff. exists z. split; [exact Ez|].
    now apply Hsub.
  Qed.

  (* no nil dereference when ids are distinct and each response finds an entry it can handle *)
  Lemma for_each_no_nil : forall rs s,
    NoDup (map r_id rs) ->
    (forall x, In x rs -> lr_nil (f x (aget (r_id x) (rm_tab s))) = false) ->
    rm_nilderef (fe_st (for_each f s rs)) = rm_nilderef s.
  Proof.
    induction rs as [|y rest IH]; intros s Hn Hok; [reflexivity|].
    cbn [for_each]. inversion Hn as [|? ? Hnotin Hn']; subst.
    set (res := f y (aget (r_id y) (rm_tab s))).
    set (s1 := mk_rm (tset (r_id y) (lr_entry res) (rm_tab s)) (rm_nilderef s || lr_nil res)).
    specialize (IH s1 Hn').
    destruct (for_each f s1 rest) as [[s2 ev2] kept] eqn:E2.
    unfold fe_st in *; cbn [fst] in *.
    rewrite IH.
    - unfold s1; cbn [rm_nilderef]. unfold res. rewrite (Hok y (or_introl eq_refl)). apply orb_false_r.
    - intros x Hx. unfold s1; cbn [rm_tab].
      rewrite aget_tset_neq; [apply Hok; now right|].
      intro E. apply Hnotin. rewrite E. now apply in_map.
  Qed.

  (* a property of single entries kept by the per-response function is kept by the loop *)
  Lemma for_each_pres (P : option entry -> Prop) :
    (forall x oe, P oe -> P (lr_entry (f x oe))) ->
    forall rs s, (forall k, P (aget k (rm_tab s))) -> forall k, P (aget k (rm_tab (fe_st (for_each f s rs)))).
  Proof.
    intro Hf. induction rs as [|y rest IH]; intros s Hs k; [apply Hs|].
    cbn [for_each].
    set (res := f y (aget (r_id y) (rm_tab s))).
    set (s1 := mk_rm (tset (r_id y) (lr_entry res) (rm_tab s)) (rm_nilderef s || lr_nil res)).
    assert (Hs1 : forall k, P (aget k (rm_tab s1))).
    { intro k'. unfold s1; cbn [rm_tab]. destruct (N.eq_dec (r_id y) k') as [E|NE].
      - rewrite <- E, aget_tset_eq. apply Hf, Hs.
      - rewrite aget_tset_neq by exact NE. apply Hs. }
    specialize (IH s1 Hs1 k).
    destruct (for_each f s1 rest) as [[s2 ev2] kept] eqn:E2.
    unfold fe_st in *; cbn [fst] in *. exact IH.
  Qed.

  (* presence in the table, when the per-response function neither creates nor deletes *)
  Lemma for_each_presence :
    (forall x oe, (lr_entry (f x oe) = None <-> oe = None)) ->
    forall rs s k, (aget k (rm_tab (fe_st (for_each f s rs))) = None <-> aget k (rm_tab s) = None).
  Proof.
    intro Hf. induction rs as [|y rest IH]; intros s k; [reflexivity|].
    cbn [for_each].
    set (res := f y (aget (r_id y) (rm_tab s))).
    set (s1 := mk_rm (tset (r_id y) (lr_entry res) (rm_tab s)) (rm_nilderef s || lr_nil res)).
    specialize (IH s1 k).
    destruct (for_each f s1 rest) as [[s2 ev2] kept] eqn:E2.
    unfold fe_st in *; cbn [fst] in *. rewrite IH.
    unfold s1; cbn [rm_tab]. destruct (N.eq_dec (r_id y) k) as [E|NE].
    - rewrite <- E, aget_tset_eq. apply Hf.
    - rewrite aget_tset_neq by exact NE. reflexivity.
  Qed.
End Local.

(* ---------- events of the per-response functions carry the response's id ---------- *)
Lemma cancel_ev id e err ev : In ev (lr_events (cancel_on_error_l id e err)) -> ev_id ev = id.
Proof.
  unfold cancel_on_error_l, terminate_l. destruct (e_state (set_term e err)); simpl; intros [<-|[]]; reflexivity.
Qed.

Section Hooked.
  Variable hook : peer -> resp -> hres.

  Lemma ext_ev p x oe ev : In ev (lr_events (ext_l hook p x oe)) -> ev_id ev = r_id x.
  Proof.
    unfold ext_l.
    assert (H1 : forall ev, In ev (EvHook p x :: match h_exts (hook p x) with
                                                 | [] => [] | _ :: _ => [EvSend p (r_id x) (KUpdate (h_exts (hook p x)))] end) ->
                            ev_id ev = r_id x).
    { intros ev0 [<-|H]; [reflexivity|]. destruct (h_exts (hook p x)); [destruct H|]. destruct H as [<-|[]]. reflexivity. }
    destruct (h_err (hook p x)) as [err|]; [|cbn [lr_events]; apply H1].
    destruct oe as [e|]; [|cbn [lr_events]; apply H1].
    cbn [lr_events]. rewrite in_app_iff. intros [H|[<-|H]]; [now apply H1 | reflexivity | now apply cancel_ev in H].
  Qed.
  Lemma last_ev x oe ev : In ev (lr_events (last_l x oe)) -> ev_id ev = r_id x.
  Proof. unfold last_l. destruct oe; simpl; intros []. Qed.
  Lemma ingest_ev bm x oe ev : In ev (lr_events (ingest_l bm x oe)) -> ev_id ev = r_id x.
  Proof. unfold ingest_l. destruct oe; simpl; intros []. Qed.
  Lemma term_ev x oe ev : In ev (lr_events (term_l x oe)) -> ev_id ev = r_id x.
  Proof.
    unfold term_l. destruct (st_is_terminal (r_status x)); [|simpl; intros []].
    destruct (st_is_failure (r_status x)); [|simpl; intros []].
    destruct oe; cbn [lr_events]; [apply cancel_ev | intros []].
  Qed.

  (* ---------- the peer filter, seen from one request ---------- *)
  Definition lfilter (oe : option entry) (p : peer) (xs : list resp) : list resp :=
    match oe with Some e => if e_peer e =? p then xs else [] | None => [] end.

  Lemma filter_const {A} (g : A -> bool) b xs : (forall x, In x xs -> g x = b) -> filter g xs = if b then xs else [].
  Proof.
    induction xs as [|x xs IH]; intro H; [now destruct b|].
    cbn [filter]. rewrite (H x (or_introl eq_refl)). rewrite IH by (intros; apply H; now right). now destruct b.
  Qed.

  Lemma restrict_in r rs x : In x (restrict r rs) -> r_id x = r.
  Proof. unfold restrict. intro H. apply filter_In in H as [_ H]. now apply N.eqb_eq in H. Qed.

  Lemma filter_local r s p rs :
    restrict r (filter_for_peer s p rs) = lfilter (aget r (rm_tab s)) p (restrict r rs).
  Proof.
    unfold filter_for_peer, restrict.
    assert (C : forall g h : resp -> bool, forall l, filter g (filter h l) = filter h (filter g l)).
    { intros g h l. induction l as [|a l IH]; [reflexivity|]. simpl.
      destruct (h a) eqn:Eh, (g a) eqn:Eg; simpl; rewrite ?Eh, ?Eg, IH; reflexivity. }
    rewrite C. fold (restrict r rs).
    rewrite (filter_const _ (match aget r (rm_tab s) with Some e => e_peer e =? p | None => false end)).
    - unfold lfilter. destruct (aget r (rm_tab s)) as [e|]; [|reflexivity]. reflexivity.
    - intros x Hx. apply restrict_in in Hx. unfold resp_for_peer. now rewrite Hx.
  Qed.

  (* ---------- processResponses, seen from one request ---------- *)
  Definition lprocess (r : rid) (oe : option entry) (m : msg) : option entry * list event :=
    let p := m_from m in
    let rs0 := lfilter oe p (restrict r (m_resps m)) in
    let a1 := lfor_each (ext_l hook p) oe rs0 in
    let rs2 := lfilter (fe_st a1) p (fe_kept a1) in
    let bm := blk_map (m_blocks m) in
    let a2 := lfor_each last_l (fe_st a1) rs2 in
    let a3 := lfor_each (ingest_l bm) (fe_st a2) rs2 in
    let a4 := lfor_each term_l (fe_st a3) rs2 in
    (fe_st a4, fe_ev a1 ++ fe_ev a4).

  Theorem process_local r s m :
    aget r (rm_tab (fst (process_responses hook s m))) = fst (lprocess r (aget r (rm_tab s)) m) /\
    events_of r (snd (process_responses hook s m)) = snd (lprocess r (aget r (rm_tab s)) m).
  Proof.
    unfold process_responses, lprocess.
    set (p := m_from m). set (bm := blk_map (m_blocks m)).
    pose proof (for_each_local (ext_l hook p) (ext_ev p) r (filter_for_peer s p (m_resps m)) s) as (A1 & A2 & A3).
    rewrite filter_local in A1, A2, A3.
    destruct (for_each (ext_l hook p) s (filter_for_peer s p (m_resps m))) as [[s1 ev1] rs1] eqn:E1.
    unfold fe_st, fe_ev, fe_kept in A1, A2, A3; cbn [fst snd] in A1, A2, A3.
    set (rs2 := filter_for_peer s1 p rs1).
    assert (R2 : restrict r rs2 = lfilter (fe_st (lfor_each (ext_l hook p) (aget r (rm_tab s)) (lfilter (aget r (rm_tab s)) p (restrict r (m_resps m))))) p
                                          (fe_kept (lfor_each (ext_l hook p) (aget r (rm_tab s)) (lfilter (aget r (rm_tab s)) p (restrict r (m_resps m)))))).
    { unfold rs2. rewrite filter_local, A1, A3. reflexivity. }
    pose proof (for_each_local last_l last_ev r rs2 s1) as (B1 & _ & _).
    destruct (for_each last_l s1 rs2) as [[s2 ev2] k2] eqn:E2.
    unfold fe_st in B1; cbn [fst] in B1.
    pose proof (for_each_local (ingest_l bm) (ingest_ev bm) r rs2 s2) as (C1 & _ & _).
    destruct (for_each (ingest_l bm) s2 rs2) as [[s3 ev3] k3] eqn:E3.
    unfold fe_st in C1; cbn [fst] in C1.
    pose proof (for_each_local term_l term_ev r rs2 s3) as (D1 & D2 & _).
    destruct (for_each term_l s3 rs2) as [[s4 ev4] k4] eqn:E4.
    unfold fe_st, fe_ev in D1, D2; cbn [fst snd] in D1, D2.
    cbn [fst snd].
    rewrite R2 in B1, C1, D1, D2. rewrite A1 in B1. rewrite B1 in C1. rewrite C1 in D1, D2.
    split.
    - exact D1.
    - rewrite events_of_app, A2, D2. reflexivity.
  Qed.

  (* ---------- frame: a message from another peer is the identity on r ---------- *)
  Lemma lprocess_foreign r e m : e_peer e <> m_from m -> lprocess r (Some e) m = (Some e, []).
  Proof.
    intro H. unfold lprocess, lfilter.
    destruct (N.eqb_spec (e_peer e) (m_from m)) as [E|_]; [contradiction|].
    cbn. destruct (N.eqb_spec (e_peer e) (m_from m)) as [E|_]; [contradiction|]. reflexivity.
  Qed.

  Lemma lprocess_absent r m : lprocess r None m = (None, []).
  Proof. reflexivity. Qed.

  Theorem process_frame s m r e :
    aget r (rm_tab s) = Some e -> e_peer e <> m_from m ->
    aget r (rm_tab (fst (process_responses hook s m))) = Some e /\
    events_of r (snd (process_responses hook s m)) = [].
  Proof.
    intros Hr Hp. destruct (process_local r s m) as [A B].
    rewrite Hr, lprocess_foreign in A, B by exact Hp. auto.
  Qed.

  (* ---------- every label, seen from one request ---------- *)
  Definition lstep (r : rid) (oe : option entry) (lb : label) : option entry * list event :=
    match lb with
    | LMsg m => lprocess r oe m
    | _ => if label_id lb =? r then (lr_entry (other_l lb oe), lr_events (other_l lb oe)) else (oe, [])
    end.

  Lemma other_ev lb oe ev : In ev (lr_events (other_l lb oe)) -> ev_id ev = label_id lb.
  Proof.
    destruct lb as [m|id p|id|id|id paused|id|id|id exts]; cbn [other_l label_id].
    - intros [].
    - intros [<-|[]]; reflexivity.
    - destruct oe; cbn [lr_events]; [intros [] | intros [<-|[]]; reflexivity].
    - destruct oe as [e|]; [destruct (e_state e)|]; cbn [lr_events]; try (intros []; fail). intros [<-|[]]; reflexivity.
    - destruct oe as [e|]; [destruct (e_state e)|]; cbn [lr_events]; try (intros []; fail).
      destruct paused; [destruct (e_ctx_done e)|]; cbn [lr_events terminate_l].
      + intros [<-|[<-|[<-|[]]]]; reflexivity.
      + intros [<-|[<-|[]]]; reflexivity.
      + intros [<-|[<-|[]]]; reflexivity.
    - destruct oe as [e|]; [destruct (e_state e)|]; cbn [lr_events]; try (intros []; fail). intros [<-|[]]; reflexivity.
    - destruct oe as [e|]; cbn [lr_events]; [|intros []]. intros [<-|H]; [reflexivity | now apply cancel_ev in H].
    - destruct oe as [e|]; cbn [lr_events]; [|intros []]. intros [<-|[]]; reflexivity.
  Qed.

  Theorem step_local r s lb :
    aget r (rm_tab (fst (step hook s lb))) = fst (lstep r (aget r (rm_tab s)) lb) /\
    events_of r (snd (step hook s lb)) = snd (lstep r (aget r (rm_tab s)) lb).
  Proof.
    destruct lb as [m|id p|id|id|id paused|id|id|id exts];
      [apply process_local| | | | | | |];
      (cbn [step lstep label_id]; cbv zeta; cbn [fst snd rm_tab];
       destruct (N.eqb_spec id r) as [E|NE];
       [ subst id; rewrite aget_tset_eq; split; [reflexivity|];
         apply events_of_all; intros ev Hin; apply other_ev in Hin; exact Hin
       | rewrite aget_tset_neq by exact NE; split; [reflexivity|];
         apply events_of_none; intros ev Hin Eid; apply other_ev in Hin; cbn [label_id] in Hin; congruence ]).
  Qed.

  Fixpoint lrun (r : rid) (oe : option entry) (lbs : list label) : option entry * list event :=
    match lbs with
    | [] => (oe, [])
    | lb :: rest =>
      let '(oe1, ev1) := lstep r oe lb in
      let '(oe2, ev2) := lrun r oe1 rest in
      (oe2, ev1 ++ ev2)
    end.

  Theorem run_local r : forall lbs s,
    aget r (rm_tab (fst (run hook s lbs))) = fst (lrun r (aget r (rm_tab s)) lbs) /\
    events_of r (snd (run hook s lbs)) = snd (lrun r (aget r (rm_tab s)) lbs).
  Proof.
    induction lbs as [|lb rest IH]; intro s; [simpl; auto|].
    cbn [run lrun]. destruct (step_local r s lb) as [A B].
    destruct (step hook s lb) as [s1 ev1]. cbn [fst snd] in A, B.
    destruct (lstep r (aget r (rm_tab s)) lb) as [oe1 lev1]. cbn [fst snd] in A, B. subst oe1 lev1.
    destruct (IH s1) as [C D].
    destruct (run hook s1 rest) as [s2 ev2]. cbn [fst snd] in C, D |- *.
    destruct (lrun r (aget r (rm_tab s1)) rest) as [oe2 lev2]. cbn [fst snd] in C, D |- *.
    split; [exact C|]. rewrite events_of_app. now rewrite D.
  Qed.

  Theorem run_without_foreign_local r : forall lbs s,
    aget r (rm_tab (fst (run_without_foreign hook r s lbs))) = fst (lrun r (aget r (rm_tab s)) lbs) /\
    events_of r (snd (run_without_foreign hook r s lbs)) = snd (lrun r (aget r (rm_tab s)) lbs).
  Proof.
    induction lbs as [|lb rest IH]; intro s; [simpl; auto|].
    cbn [run_without_foreign lrun].
    destruct (foreign_to r s lb) eqn:F.
    - (* the skipped message is the identity on r *)
      destruct lb as [m| | | | | | |]; try discriminate F.
      cbn [foreign_to] in F. destruct (aget r (rm_tab s)) as [e|] eqn:Er; [|discriminate].
      apply negb_true_iff, N.eqb_neq in F.
      cbn [lstep]. rewrite lprocess_foreign by exact F.
      destruct (IH s) as [C D]. rewrite Er in C, D.
      destruct (lrun r (Some e) rest) as [oe2 lev2]. cbn [fst snd] in *. auto.
    - destruct (step_local r s lb) as [A B].
      destruct (step hook s lb) as [s1 ev1]. cbn [fst snd] in A, B.
      destruct (lstep r (aget r (rm_tab s)) lb) as [oe1 lev1]. cbn [fst snd] in A, B. subst oe1 lev1.
      destruct (IH s1) as [C D].
      destruct (run_without_foreign hook r s1 rest) as [s2 ev2]. cbn [fst snd] in C, D |- *.
      destruct (lrun r (aget r (rm_tab s1)) rest) as [oe2 lev2]. cbn [fst snd] in C, D |- *.
      split; [exact C|]. rewrite events_of_app. now rewrite D.
  Qed.

  (* projection: r's entry and r's events after any history are those of the history with the
     messages foreign to r removed *)
  Theorem run_projection r lbs s :
    aget r (rm_tab (fst (run hook s lbs))) = aget r (rm_tab (fst (run_without_foreign hook r s lbs))) /\
    events_of r (snd (run hook s lbs)) = events_of r (snd (run_without_foreign hook r s lbs)).
  Proof.
    destruct (run_local r lbs s) as [A B], (run_without_foreign_local r lbs s) as [C D].
    split; congruence.
  Qed.
End Hooked.

(* ================= no nil dereference on consistent tables and well-formed messages ================= *)
Definition ook (oe : option entry) : Prop := match oe with Some e => entry_okb e = true | None => True end.
Definition tab_ok (t : tab) : Prop := forall k, ook (aget k t).

Lemma nodupb_NoDup l : nodupb l = true -> NoDup l.
Proof.
  induction l as [|x l IH]; simpl; intro H; [constructor|].
  apply andb_true_iff in H as [H1 H2]. constructor; [|now apply IH].
  intro Hin. apply negb_true_iff in H1. rewrite <- existsb_eqb_in' in Hin. congruence.
Qed.

Lemma NoDup_map_filter {A} (g : A -> N) (h : A -> bool) l : NoDup (map g l) -> NoDup (map g (filter h l)).
Proof.
  induction l as [|a l IH]; simpl; intro H; [constructor|].
  inversion H as [|? ? Hn Hr]; subst. destruct (h a); [|now apply IH].
  simpl. constructor; [|now apply IH]. intro Hin. apply Hn.
  apply in_map_iff in Hin as (z & Ez & Hz). apply filter_In in Hz as [Hz _]. apply in_map_iff. now exists z.
Qed.

Lemma okb_set_term e err : entry_okb (set_term e err) = entry_okb e.
Proof. unfold set_term. destruct (e_term e); reflexivity. Qed.
Lemma state_set_term e err : e_state (set_term e err) = e_state e.
Proof. unfold set_term. destruct (e_term e); reflexivity. Qed.
Lemma loader_set_term e err : has_loader (set_term e err) = has_loader e.
Proof. unfold set_term. destruct (e_term e); reflexivity. Qed.
Lemma okb_set_offline e : entry_okb (set_offline e) = entry_okb e.
Proof. unfold entry_okb, set_offline, has_loader. cbn. destruct (e_state e); [reflexivity| |reflexivity]. now destruct (e_loader e). Qed.
Lemma okb_set_ctx_done e : entry_okb (set_ctx_done e) = entry_okb e.
Proof. reflexivity. Qed.

Lemma cancel_ok id e err : ook (Some e) -> ook (lr_entry (cancel_on_error_l id e err)) /\ lr_nil (cancel_on_error_l id e err) = false.
Proof.
  cbn [ook]. intro H. unfold cancel_on_error_l. rewrite state_set_term.
  destruct (e_state e) eqn:Es; cbn [lr_entry lr_nil terminate_l ook]; auto.
  rewrite okb_set_offline, okb_set_ctx_done, okb_set_term. split; [exact H|].
  rewrite loader_set_term. unfold entry_okb in H. rewrite Es in H. now rewrite H.
Qed.

Section HookedOk.
  Variable hook : peer -> resp -> hres.

  Lemma ext_ok p x oe : ook oe -> ook (lr_entry (ext_l hook p x oe)) /\ lr_nil (ext_l hook p x oe) = false.
  Proof.
    intro H. unfold ext_l. destruct (h_err (hook p x)) as [er|]; [|auto].
    destruct oe as [e|]; [|cbn; auto]. cbn [lr_entry lr_nil]. now apply cancel_ok.
  Qed.
  Lemma last_ok x oe : ook oe -> ook (lr_entry (last_l x oe)).
  Proof. destruct oe as [e|]; cbn; auto. Qed.
  Lemma ingest_ok bm x oe : ook oe -> ook (lr_entry (ingest_l bm x oe)).
  Proof.
    destruct oe as [e|]; cbn; auto. unfold entry_okb, has_loader. cbn.
    destruct (e_state e); auto. now destruct (e_loader e).
  Qed.
  Lemma term_ok x oe : ook oe -> ook (lr_entry (term_l x oe)) /\ (oe <> None -> lr_nil (term_l x oe) = false).
  Proof.
    intro H. unfold term_l. destruct (st_is_terminal (r_status x)); [|cbn; auto].
    destruct (st_is_failure (r_status x)).
    - destruct oe as [e|]; [|cbn; split; [exact I | congruence]].
      destruct (cancel_ok (r_id x) e (r_status x) H) as [A B]. cbn [lr_entry lr_nil]. split; [|auto].
      destruct (lr_entry (cancel_on_error_l (r_id x) e (r_status x))) as [e'|]; cbn in *; [|exact I].
      now rewrite okb_set_offline.
    - cbn [lr_entry lr_nil]. split; [|auto]. destruct oe as [e|]; cbn in *; [|exact I]. now rewrite okb_set_offline.
  Qed.

  Lemma last_presence x oe : lr_entry (last_l x oe) = None <-> oe = None.
  Proof. destruct oe; cbn; split; congruence. Qed.
  Lemma ingest_presence bm x oe : lr_entry (ingest_l bm x oe) = None <-> oe = None.
  Proof. destruct oe; cbn; split; congruence. Qed.

  Theorem process_no_nilderef s m :
    tab_ok (rm_tab s) -> msg_wfb m = true ->
    rm_nilderef (fst (process_responses hook s m)) = rm_nilderef s /\ tab_ok (rm_tab (fst (process_responses hook s m))).
  Proof.
    intros Hok Hwf. apply nodupb_NoDup in Hwf.
    unfold process_responses.
    set (p := m_from m). set (bm := blk_map (m_blocks m)).
    set (rs0 := filter_for_peer s p (m_resps m)).
    assert (N0 : NoDup (map r_id rs0)) by (unfold rs0, filter_for_peer; now apply NoDup_map_filter).
    pose proof (for_each_no_nil (ext_l hook p) rs0 s N0) as F1.
    pose proof (for_each_pres (ext_l hook p) ook (fun x oe H => proj1 (ext_ok p x oe H)) rs0 s Hok) as O1.
    pose proof (for_each_kept_nodup (ext_l hook p) rs0 s N0) as K1.
    destruct (for_each (ext_l hook p) s rs0) as [[s1 ev1] rs1] eqn:E1.
    unfold fe_st, fe_kept in F1, O1, K1; cbn [fst snd] in F1, O1, K1.
    rewrite <- F1 by (intros x _; apply ext_ok, Hok). clear F1.
    set (rs2 := filter_for_peer s1 p rs1).
    assert (N2 : NoDup (map r_id rs2)) by (unfold rs2, filter_for_peer; now apply NoDup_map_filter).
    assert (P1 : forall x, In x rs2 -> aget (r_id x) (rm_tab s1) <> None).
    { intros x Hx. unfold rs2, filter_for_peer in Hx. apply filter_In in Hx as [_ Hx].
      unfold resp_for_peer in Hx. destruct (aget (r_id x) (rm_tab s1)); congruence. }
    (* updateLastResponses *)
    pose proof (for_each_no_nil last_l rs2 s1 N2) as F2.
    pose proof (for_each_pres last_l ook last_ok rs2 s1 O1) as O2.
    pose proof (for_each_presence last_l last_presence rs2 s1) as Q2.
    destruct (for_each last_l s1 rs2) as [[s2 ev2] k2] eqn:E2.
    unfold fe_st in F2, O2, Q2; cbn [fst] in F2, O2, Q2.
    rewrite <- F2.
    2:{ intros x Hx. specialize (P1 x Hx). destruct (aget (r_id x) (rm_tab s1)); [reflexivity | congruence]. }
    clear F2.
    assert (P2 : forall x, In x rs2 -> aget (r_id x) (rm_tab s2) <> None).
    { intros x Hx H. apply Q2 in H. now apply (P1 x Hx). }
    (* ingest loop *)
    pose proof (for_each_no_nil (ingest_l bm) rs2 s2 N2) as F3.
    pose proof (for_each_pres (ingest_l bm) ook (ingest_ok bm) rs2 s2 O2) as O3.
    pose proof (for_each_presence (ingest_l bm) (ingest_presence bm) rs2 s2) as Q3.
    destruct (for_each (ingest_l bm) s2 rs2) as [[s3 ev3] k3] eqn:E3.
    unfold fe_st in F3, O3, Q3; cbn [fst] in F3, O3, Q3.
    rewrite <- F3.
    2:{ intros x Hx. specialize (P2 x Hx). destruct (aget (r_id x) (rm_tab s2)); [reflexivity | congruence]. }
    clear F3.
    assert (P3 : forall x, In x rs2 -> aget (r_id x) (rm_tab s3) <> None).
    { intros x Hx H. apply Q3 in H. now apply (P2 x Hx). }
    (* processTerminations *)
    pose proof (for_each_no_nil term_l rs2 s3 N2) as F4.
    pose proof (for_each_pres term_l ook (fun x oe H => proj1 (term_ok x oe H)) rs2 s3 O3) as O4.
    destruct (for_each term_l s3 rs2) as [[s4 ev4] k4] eqn:E4.
    unfold fe_st in F4, O4; cbn [fst] in F4, O4.
    cbn [fst]. split; [|exact O4].
    apply F4. intros x Hx. apply term_ok; [apply O3 | now apply P3].
  Qed.

  Lemma other_ok lb oe : ook oe -> ook (lr_entry (other_l lb oe)) /\ lr_nil (other_l lb oe) = false.
  Proof.
    intro H.
    destruct lb as [m|id p|id|id|id paused|id|id|id exts]; cbn [other_l].
    - auto.
    - cbn. auto.
    - destruct oe as [e|]; cbn; auto. split; [|reflexivity]. unfold entry_okb, has_loader. cbn. now destruct (e_loader e).
    - destruct oe as [e|]; [|cbn; auto]. destruct (e_state e) eqn:Es; cbn [lr_entry lr_nil]; auto.
      split; [|reflexivity]. cbn in *. unfold entry_okb, has_loader in *. cbn. rewrite Es in *. now destruct (e_loader e).
    - destruct oe as [e|]; [|cbn; auto]. destruct (e_state e) eqn:Es; cbn [lr_entry lr_nil]; auto.
      destruct paused; [destruct (e_ctx_done e)|]; cbn; auto.
    - destruct oe as [e|]; [|cbn; auto]. destruct (e_state e) eqn:Es; cbn [lr_entry lr_nil]; auto. cbn. auto.
    - destruct oe as [e|]; [|cbn; auto]. cbn [lr_entry lr_nil]. now apply cancel_ok.
    - destruct oe as [e|]; cbn; auto.
  Qed.

  Theorem step_no_nilderef s lb :
    tab_ok (rm_tab s) -> (forall m, lb = LMsg m -> msg_wfb m = true) ->
    rm_nilderef (fst (step hook s lb)) = rm_nilderef s /\ tab_ok (rm_tab (fst (step hook s lb))).
  Proof.
    intros Hok Hwf.
    destruct lb as [m|id p|id|id|id paused|id|id|id exts];
      [apply process_no_nilderef; [exact Hok | now apply Hwf] | | | | | | |];
      (cbn [step label_id]; cbv zeta; cbn [fst rm_tab rm_nilderef];
       match goal with |- context [other_l ?L ?oe] => destruct (other_ok L oe (Hok _)) as [A B] end;
       rewrite B, orb_false_r; split; [reflexivity|];
       intro k; match goal with |- context [tset ?i _ _] => destruct (N.eq_dec i k) as [E|NE] end;
       [ subst k; rewrite aget_tset_eq; exact A | rewrite aget_tset_neq by exact NE; apply Hok ]).
  Qed.

  Theorem run_no_nilderef : forall lbs s,
    tab_ok (rm_tab s) -> (forall m, In (LMsg m) lbs -> msg_wfb m = true) ->
    rm_nilderef (fst (run hook s lbs)) = rm_nilderef s /\ tab_ok (rm_tab (fst (run hook s lbs))).
  Proof.
    induction lbs as [|lb rest IH]; intros s Hok Hwf; [simpl; auto|].
    cbn [run].
    destruct (step_no_nilderef s lb Hok) as [A B].
    { intros m ->. apply Hwf. now left. }
    destruct (step hook s lb) as [s1 ev1]. cbn [fst] in A, B.
    destruct (IH s1 B) as [C D]. { intros m Hm. apply Hwf. now right. }
    destruct (run hook s1 rest) as [s2 ev2]. cbn [fst] in *. split; [congruence | exact D].
  Qed.

  (* ================= the positive half: the owner's response is acted upon ================= *)
  Theorem owner_response_reaches_hook s m r e x :
    aget r (rm_tab s) = Some e -> e_peer e = m_from m -> restrict r (m_resps m) = [x] ->
    In (EvHook (m_from m) x) (snd (process_responses hook s m)).
  Proof.
    intros Hr Hp Hx. destruct (process_local hook r s m) as [_ B].
    assert (Hin : In (EvHook (m_from m) x) (events_of r (snd (process_responses hook s m)))).
    { rewrite B, Hr. unfold lprocess, lfilter. rewrite Hx, Hp, N.eqb_refl.
      cbn [lfor_each fe_ev fst snd]. rewrite in_app_iff. left.
      destruct (lfor_each (ext_l hook (m_from m)) (lr_entry (ext_l hook (m_from m) x (Some e))) []) as [[a b] c].
      cbn [fst snd]. unfold ext_l at 1.
      destruct (h_err (hook (m_from m) x)); cbn [lr_events]; [|now left].
      rewrite <- app_assoc. now left. }
    unfold events_of in Hin. now apply filter_In in Hin as [Hin _].
  Qed.

  Theorem owner_response_is_ingested s m r e x ld :
    aget r (rm_tab s) = Some e -> e_peer e = m_from m -> restrict r (m_resps m) = [x] ->
    h_err (hook (m_from m) x) = None -> st_is_terminal (r_status x) = false ->
    e_loader e = Some ld -> l_open ld = true -> r_md x <> [] ->
    aget r (rm_tab (fst (process_responses hook s m))) =
      Some (mk_entry (e_peer e) (e_state e) (e_term e) (e_ctx_done e) x
                     (Some (mk_loader true (l_queue ld ++ ingest_items (r_md x) [] (blk_map (m_blocks m)))))).
  Proof.
    intros Hr Hp Hx Hh Ht Hl Ho Hmd. destruct (process_local hook r s m) as [A _].
    assert (Hext : exists evs, ext_l hook (m_from m) x (Some e) = mk_lres (Some e) evs true false).
    { unfold ext_l. rewrite Hh. eexists. reflexivity. }
    destruct Hext as [evs Hext].
    rewrite A, Hr. unfold lprocess, lfilter. rewrite Hx, Hp, N.eqb_refl.
    cbn [lfor_each]. rewrite !Hext.
    cbn -[st_is_terminal ingest blk_map N.eqb]. rewrite Hp, N.eqb_refl.
    cbn -[st_is_terminal ingest blk_map N.eqb].
    unfold term_l. rewrite Ht. cbn -[ingest blk_map N.eqb]. rewrite Hl. cbn -[ingest blk_map N.eqb].
    unfold ingest. destruct (r_md x) as [|md0 mdr] eqn:Emd; [contradiction|]. rewrite Ho, <- ?Hp. reflexivity.
  Qed.
End HookedOk.

(* ================= the statements used by props/C09.v ================= *)
Lemma events_of_nil_iff r evs : events_of r evs = [] <-> (forall ev, In ev evs -> ev_id ev <> r).
Proof.
  split.
  - intros H ev Hin E. assert (Hf : In ev (events_of r evs)).
    { unfold events_of. apply filter_In. split; [exact Hin | now apply N.eqb_eq]. }
    rewrite H in Hf. destruct Hf.
  - apply events_of_none.
Qed.

Theorem c09_frame (hook : peer -> resp -> hres) s m r e :
  aget r (rm_tab s) = Some e -> e_peer e <> m_from m ->
  aget r (rm_tab (fst (process_responses hook s m))) = Some e /\
  (forall ev, In ev (snd (process_responses hook s m)) -> ev_id ev <> r) /\
  (tab_ok (rm_tab s) -> msg_wfb m = true ->
   rm_nilderef (fst (process_responses hook s m)) = rm_nilderef s).
Proof.
  intros Hr Hp. destruct (process_frame hook s m r e Hr Hp) as [A B].
  split; [exact A|]. split; [now apply events_of_nil_iff|].
  intros Hok Hwf. now apply process_no_nilderef.
Qed.

Theorem c09_no_panic (hook : peer -> resp -> hres) lbs :
  (forall m, In (LMsg m) lbs -> msg_wfb m = true) ->
  rm_nilderef (fst (run hook empty_rm lbs)) = false.
Proof.
  intro H. destruct (run_no_nilderef hook lbs empty_rm) as [A _]; [intro k; exact I | exact H | exact A].
Qed.

Theorem c09_block_hook_args (hook : peer -> resp -> hres) s m r e :
  aget r (rm_tab s) = Some e -> e_peer e <> m_from m ->
  option_map block_hook_args (aget r (rm_tab (fst (process_responses hook s m)))) = Some (block_hook_args e).
Proof. intros H1 H2. destruct (c09_frame hook s m r e H1 H2) as [A _]. now rewrite A. Qed.

Theorem c09_locality (hook : peer -> resp -> hres) (r : rid) (s1 s2 : rmstate) (lb : label) :
  aget r (rm_tab s1) = aget r (rm_tab s2) ->
  aget r (rm_tab (fst (step hook s1 lb))) = aget r (rm_tab (fst (step hook s2 lb))) /\
  events_of r (snd (step hook s1 lb)) = events_of r (snd (step hook s2 lb)).
Proof.
  intro H. destruct (step_local hook r s1 lb) as [A B], (step_local hook r s2 lb) as [C D].
  rewrite H in A, B. split; congruence.
Qed.
