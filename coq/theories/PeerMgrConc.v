(* PeerMgrConc.v — concurrent senders in the PeerManager model (C17: "concurrent message building
   for the same peer").

   /repo/peermanager/peermanager.go GetProcess is double-checked: a read-locked lookup, and on a miss
   a second, write-locked getOrCreate.  PeerMgr.pstep's LGetProcess is the write-locked section; the
   read-locked lookup changes nothing.  A *group* is what the harness can force on the real code by
   holding the table lock while it starts goroutines: k concurrent GetProcess(p) calls whose lookups
   all happen before any write-locked section (a writer waits for every admitted reader), together
   with at most one other PeerManager call w that is already waiting for the write lock.
     - lookups hit: every caller returns the table's process, then w runs;
     - lookups miss: w and the k write-locked getOrCreate sections run one after the other, in an
       order the Go mutex does not determine.  The harness only combines a miss with writers that
       commute with getOrCreate p (not Disconnected p; not a Connected that creates another peer's
       process, whose number would depend on the order), so the model may run w first.
   Every group is a sequence of PeerMgr labels (gexpand), so every invariant proved over all label
   sequences holds in every state a group run can reach. *)
From Coq Require Import List NArith Bool Lia.
From GS Require Export Base PeerMgr.
Import ListNotations.
Open Scope N_scope.

Inductive glabel :=
| GBase (l : plabel)
| GConc (p : peer) (k : nat) (w : option plabel).

Definition opt_step (s : pm) (w : option plabel) : pm :=
  match w with Some l => fst (pstep s l) | None => s end.

(* k write-locked getOrCreate sections, one after the other; returns what each caller was handed *)
Fixpoint goc_n (k : nat) (p : peer) (s : pm) : pm * list qid :=
  match k with
  | O => (s, [])
  | S k' => let '(s1, (_, q)) := get_or_create p s in
            let '(s2, qs) := goc_n k' p s1 in (s2, q :: qs)
  end.

Definition gstep (s : pm) (g : glabel) : pm * list qid :=
  match g with
  | GBase l => let '(s', r) := pstep s l in (s', match r with Some q => [q] | None => [] end)
  | GConc p k w =>
      match aget p (table s) with
      | Some (_, q) => (opt_step s w, repeat q k)
      | None => goc_n k p (opt_step s w)
      end
  end.

(* the PeerMgr labels a group amounts to in state s *)
Definition gexpand (s : pm) (g : glabel) : list plabel :=
  match g with
  | GBase l => [l]
  | GConc p k w =>
      let wl := match w with Some l => [l] | None => [] end in
      match aget p (table s) with
      | Some _ => wl
      | None => wl ++ repeat (LGetProcess p) k
      end
  end.

Fixpoint grun (s : pm) (gs : list glabel) : pm :=
  match gs with [] => s | g :: r => grun (fst (gstep s g)) r end.

(* ---- observations for the correspondence run ---- *)
Record gobs := {
  go_rets : list qid;                  (* what the GetProcess calls of this step returned, sorted *)
  go_table : list (peer * qid);
  go_status : list N
}.
Fixpoint insert_n (x : N) (l : list N) : list N :=
  match l with [] => [x] | y :: r => if x <=? y then x :: l else y :: insert_n x r end.
Definition sort_n (l : list N) : list N := fold_right insert_n [] l.

Definition g_observe (s : pm) (rets : list qid) : gobs :=
  let o := pm_observe s None in
  {| go_rets := sort_n rets; go_table := po_table o; go_status := po_status o |}.
Fixpoint g_trace (s : pm) (gs : list glabel) : list gobs :=
  match gs with
  | [] => []
  | g :: r => let '(s', rets) := gstep s g in g_observe s' rets :: g_trace s' r
  end.
Definition gobs_eqb (a b : gobs) : bool :=
  list_eqb N.eqb (go_rets a) (go_rets b) && list_eqb pair_eqb2 (go_table a) (go_table b) &&
  list_eqb N.eqb (go_status a) (go_status b).

(* the property on an observed step: every live process is the one the table holds for its peer (at
   most one live process per peer), and all concurrent callers of one step were handed the same
   process *)
Definition all_same (l : list N) : bool :=
  match l with [] => true | x :: r => forallb (N.eqb x) r end.
Definition gobs_ok (owner : list peer) (o : gobs) : bool :=
  obs_ok owner {| po_ret := None; po_table := go_table o; po_status := go_status o |} &&
  all_same (go_rets o).

Definition glabel_base (g : glabel) : list plabel :=
  match g with GBase l => [l] | GConc _ _ (Some l) => [l] | GConc _ _ None => [] end.

(* no process outlives the last disconnect, on the observed trace (connection counts from the
   notifications, as in PeerMgr.outlive_ok; a group contributes its writer) *)
Fixpoint g_outlive_ok (cs : peer -> N) (owner : list peer) (gs : list glabel) (obs : list gobs) : bool :=
  match gs, obs with
  | [], [] => true
  | g :: gs', o :: obs' =>
      let cs' := fold_left cnt_step (glabel_base g) cs in
      match glabel_base g with
      | [LDisconnected p] =>
          if N.eqb (cs' p) 0
          then forallb (fun x => negb (N.eqb (fst x) p && N.eqb (snd x) 0)) (combine owner (go_status o))
          else true
      | _ => true
      end && g_outlive_ok cs' owner gs' obs'
  | _, _ => false
  end.

Record gcase := { gc_labels : list glabel; gc_owner : list peer; gc_obs : list gobs }.
Definition gcase_agrees (c : gcase) : bool := list_eqb gobs_eqb (g_trace pm_new (gc_labels c)) (gc_obs c).
Definition gcase_mon (c : gcase) : bool :=
  forallb (gobs_ok (gc_owner c)) (gc_obs c) &&
  g_outlive_ok (fun _ => 0) (gc_owner c) (gc_labels c) (gc_obs c).

(* ---- racing writers (driver peerrace): a late exit callback, a Disconnected and a Connected (or a send) of one
   peer queued on the table lock and released together.  Every order is a run of PeerMgr labels, so the invariants
   hold whatever the order; the case carries the snapshot after the next send and the statuses after the peer's
   last disconnect, and only the monitor is evaluated. *)
Record rcase := { rc_owner : list peer; rc_after_send : pmobs; rc_peer : peer; rc_final_status : list N }.
Definition rcase_mon (c : rcase) : bool :=
  obs_ok (rc_owner c) (rc_after_send c) &&
  forallb (fun x => negb (N.eqb (fst x) (rc_peer c) && N.eqb (snd x) 0)) (combine (rc_owner c) (rc_final_status c)).
