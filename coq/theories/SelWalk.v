(* SelWalk.v — C08: the IPLD data model, the fragment of go-ipld-prime's selector engine that
   selectorvalidator's own "selector for walking selectors" uses (ExploreRecursive, ExploreFields,
   ExploreAll, ExploreRecursiveEdge, Matcher under traversal.WalkMatching), the visitor of
   ValidateMaxRecursionDepth, and the AST of well-formed selector specs with its rendering as a node.

   The walking selector itself is NOT written here: it is regenerated from selectorvalidator.go on
   every run into GSgen.GenMaxDepthSel (max_depth_spec), and the theorem is about that term. *)
From Coq Require Import List String ZArith Bool.
Import ListNotations.
Open Scope string_scope.
Open Scope list_scope.

(* ---- IPLD data model (as far as selector nodes need it) ---- *)
Inductive node :=
| NMap (l : list (string * node))
| NList (l : list node)
| NInt (z : Z)
| NStr (s : string)
| NOther.                (* null, bool, float, bytes, link: opaque scalars *)

(* ---- selector specs as the builder produces them, and their compiled form ---- *)
Inductive wspec :=
| WMatcher
| WEdge
| WAll (next : wspec)
| WFields (fs : list (string * wspec))
| WRec (lim : option Z) (seq : wspec).

Inductive csel :=
| CMatcher
| CEdge
| CAll (next : csel)
| CFields (fs : list (string * csel))
| CRec (seq cur : csel) (lim : option Z).     (* ExploreRecursive{sequence, current, limit}; stopAt = nil *)

Fixpoint compile (w : wspec) : csel :=
  match w with
  | WMatcher => CMatcher
  | WEdge => CEdge
  | WAll n => CAll (compile n)
  | WFields fs => CFields (map (fun kv => (fst kv, compile (snd kv))) fs)
  | WRec lim seq => CRec (compile seq) (compile seq) lim
  end.

Fixpoint lookup {A} (k : string) (l : list (string * A)) : option A :=
  match l with [] => None | (q, v) :: r => if String.eqb k q then Some v else lookup k r end.

(* Selector.Match: only a Matcher (possibly under ExploreRecursive) matches *)
Fixpoint is_match (s : csel) : bool :=
  match s with CMatcher => true | CRec _ cur _ => is_match cur | _ => false end.

(* Selector.Interests: None = all children *)
Fixpoint interests (s : csel) : option (list string) :=
  match s with
  | CMatcher => Some []
  | CEdge => Some []
  | CAll _ => None
  | CFields fs => Some (map fst fs)
  | CRec _ cur _ => interests cur
  end.

(* Selector.Explore for a path segment; [None] as segment = a list index (field keys of the walking
   selector are never numeric, which the translator checks) *)
Fixpoint explore (s : csel) (seg : option string) : option csel :=
  match s with
  | CMatcher => None
  | CEdge => None
  | CAll next => Some next
  | CFields fs => match seg with Some k => lookup k fs | None => None end
  | CRec seq cur lim =>
      match cur with
      | CEdge => None
      | _ =>
          match explore cur seg with
          | None => None
          | Some CEdge =>                          (* hasRecursiveEdge: replace the edge *)
              match lim with
              | Some d => if (d <? 2)%Z then None else Some (CRec seq seq (Some (d - 1)%Z))
              | None => Some (CRec seq seq None)
              end
          | Some nx => Some (CRec seq nx lim)
          end
      end
  end.

Definition wants (s : csel) (seg : option string) : bool :=
  match interests s with
  | None => true
  | Some ks => match seg with Some k => existsb (String.eqb k) ks | None => false end
  end.

(* traversal.WalkMatching: the matched nodes (map entries in map order) *)
Fixpoint walk (s : csel) (n : node) {struct n} : list node :=
  (if is_match s then [n] else []) ++
  match n with
  | NMap l =>
      (fix go (l : list (string * node)) : list node :=
         match l with
         | [] => []
         | (k, v) :: r =>
             (if wants s (Some k) then match explore s (Some k) with Some nx => walk nx v | None => [] end else [])
             ++ go r
         end) l
  | NList l =>
      (fix go (l : list node) : list node :=
         match l with
         | [] => []
         | v :: r =>
             (if wants s None then match explore s None with Some nx => walk nx v | None => [] end else [])
             ++ go r
         end) l
  | _ => []
  end.

(* the visitor of ValidateMaxRecursionDepth *)
Definition limit_ok (maxd : Z) (n : node) : bool :=
  match n with
  | NMap [(k, v)] =>
      if String.eqb k "depth" then match v with NInt z => (z <=? maxd)%Z | _ => false end
      else false
  | _ => false
  end.

Definition validate (w : wspec) (maxd : Z) (n : node) : bool := forallb (limit_ok maxd) (walk (compile w) n).

(* ---- well-formed selector specs (everything ParseSelector accepts, and more) ---- *)
Inductive sel :=
| SMatcher
| SEdge
| SAll (next : sel)
| SFields (fs : list (string * sel))
| SIndex (i : Z) (next : sel)
| SRange (a b : Z) (next : sel)
| SUnion (l : list sel)
| SRec (lim : option Z) (seq : sel) (stop : bool)
| SInterp (adl : string) (next : sel).

Definition limit_node (lim : option Z) : node :=
  match lim with
  | Some d => NMap [("depth", NInt d)]
  | None => NMap [("none", NMap [])]
  end.

Fixpoint to_node (s : sel) : node :=
  match s with
  | SMatcher => NMap [(".", NMap [])]
  | SEdge => NMap [("@", NMap [])]
  | SAll n => NMap [("a", NMap [(">", to_node n)])]
  | SFields fs => NMap [("f", NMap [("f>", NMap (map (fun kv => (fst kv, to_node (snd kv))) fs))])]
  | SIndex i n => NMap [("i", NMap [("i", NInt i); (">", to_node n)])]
  | SRange a b n => NMap [("r", NMap [("^", NInt a); ("$", NInt b); (">", to_node n)])]
  | SUnion l => NMap [("|", NList (map to_node l))]
  | SRec lim seq stop =>
      NMap [("R", NMap (("l", limit_node lim) :: (":>", to_node seq) ::
                        (if stop then [("!", NMap [("/", NOther)])] else [])))]
  | SInterp adl n => NMap [("~", NMap [("as", NStr adl); (">", to_node n)])]
  end.

(* every recursion limit that occurs anywhere in the spec, under any kind of clause *)
Fixpoint limits (s : sel) : list (option Z) :=
  match s with
  | SMatcher | SEdge => []
  | SAll n | SIndex _ n | SRange _ _ n | SInterp _ n => limits n
  | SFields fs => flat_map (fun kv => limits (snd kv)) fs
  | SUnion l => flat_map limits l
  | SRec lim seq _ => lim :: limits seq
  end.

Definition lim_le (maxd : Z) (lim : option Z) : bool :=
  match lim with Some d => (d <=? maxd)%Z | None => false end.
Definition all_limits_le (maxd : Z) (s : sel) : bool := forallb (lim_le maxd) (limits s).

(* ---- correspondence cases ---- *)
(* order-insensitive equality of nodes (maps have unique keys) *)
Fixpoint node_equiv (fuel : nat) (a b : node) : bool :=
  match fuel with
  | O => false
  | S f =>
      match a, b with
      | NMap la, NMap lb =>
          Nat.eqb (List.length la) (List.length lb) &&
          forallb (fun kv => match lookup (fst kv) lb with Some v => node_equiv f (snd kv) v | None => false end) la
      | NList la, NList lb =>
          (fix go (x y : list node) : bool :=
             match x, y with
             | [], [] => true
             | u :: x', v :: y' => node_equiv f u v && go x' y'
             | _, _ => false
             end) la lb
      | NInt x, NInt y => Z.eqb x y
      | NStr x, NStr y => String.eqb x y
      | NOther, NOther => true
      | _, _ => false
      end
  end.

(* a case: optionally the selector AST, the node the Go side actually validated (dumped from the
   ipld node it built), the accepted depth, and the Go validator's verdict *)
Record scase := { sc_sel : option sel; sc_node : node; sc_max : Z; sc_go_accepts : bool }.
