(* Publisher.v — executable model of /repo/notifications/publisher.go (C18; reused by C16), and the
   active-subscriptions specification the property is stated against.

   The publisher serialises every API call into a FIFO command queue consumed by one goroutine, so
   for calls issued one after another the effect is the sequential processing of the commands; the
   API level adds the [closed] flag (calls after Shutdown are dropped).  Topics, subscribers and
   events are N.  Go maps of sets are association lists of duplicate-free lists; Go's unspecified
   map iteration order shows up only as the order in which one subscriber is told about several
   topics closing during one Unsubscribe/Shutdown, which the specification does not constrain. *)
From Coq Require Import List NArith Bool Lia.
From GS Require Export Base.
Import ListNotations.
Open Scope N_scope.

Definition topic := N.
Definition subr := N.

Inductive pev := ENext (t : topic) (e : N) | EClose (t : topic).
Inductive pop :=
| PSubscribe (t : topic) (s : subr)
| PUnsubscribe (s : subr)
| PPublish (t : topic) (e : N)
| PClose (t : topic)
| PShutdown.

Definition mem (x : N) (l : list N) : bool := existsb (N.eqb x) l.
Definition set_add (x : N) (l : list N) : list N := if mem x l then l else l ++ [x].
Definition set_del (x : N) (l : list N) : list N := filter (fun y => negb (N.eqb y x)) l.
Definition getl (k : N) (m : list (N * list N)) : list N :=
  match aget k m with Some l => l | None => [] end.

Record reg := { topics : list (N * list N); rev : list (N * list N) }.
Record pub := { closed : bool; r : reg }.
Definition pub_new : pub := {| closed := false; r := {| topics := []; rev := [] |} |}.

(* subscriberRegistry.add *)
Definition reg_add (t : topic) (s : subr) (g : reg) : reg :=
  {| topics := aput t (set_add s (getl t (topics g))) (topics g);
     rev := aput s (set_add t (getl s (rev g))) (rev g) |}.

(* subscriberRegistry.remove: returns the registry and whether OnClose(topic) was delivered to sub *)
Definition reg_remove (t : topic) (s : subr) (g : reg) : reg * bool :=
  match aget t (topics g) with
  | None => (g, false)
  | Some subs =>
      if negb (mem s subs) then (g, false)
      else
        let subs' := set_del s subs in
        let tps' := set_del t (getl s (rev g)) in
        ({| topics := match subs' with [] => adel t (topics g) | _ => aput t subs' (topics g) end;
            rev := match aget s (rev g) with
                   | None => rev g      (* delete on a nil inner map is a no-op; len(nil)==0 deletes nothing new *)
                   | Some _ => match tps' with [] => adel s (rev g) | _ => aput s tps' (rev g) end
                   end |}, true)
  end.

Definition ev_out := list (N * pev).
Definition close_ev (p : N * N) : N * pev := (snd p, EClose (fst p)).

(* the three range-loops of the Go code all iterate a snapshot of (topic, subscriber) pairs and call
   remove on each *)
Definition rm_pairs (ps : list (topic * subr)) (acc : reg * ev_out) : reg * ev_out :=
  fold_left (fun '(g, out) '(t, s) => let '(g', c) := reg_remove t s g in
                                      (g', if c then out ++ [(s, EClose t)] else out)) ps acc.

(* removeTopic: for sub := range reg.topics[topic] { reg.remove(topic, sub) } *)
Definition reg_remove_topic (t : topic) (g : reg) : reg * ev_out :=
  rm_pairs (map (fun s => (t, s)) (getl t (topics g))) (g, []).

(* removeSubscriber: for topic := range reg.revTopics[sub] { reg.remove(topic, sub) } *)
Definition reg_remove_sub (s : subr) (g : reg) : reg * ev_out :=
  rm_pairs (map (fun t => (t, s)) (getl s (rev g))) (g, []).

(* send *)
Definition reg_send (t : topic) (e : N) (g : reg) : ev_out :=
  map (fun s => (s, ENext t e)) (getl t (topics g)).

(* after the shutdown command: for topic, subs := range reg.topics { for sub := range subs { remove } } *)
Definition reg_drain (g : reg) : reg * ev_out :=
  rm_pairs (flat_map (fun ts => map (fun s => (fst ts, s)) (snd ts)) (topics g)) (g, []).

Definition pstep (p : pub) (o : pop) : pub * ev_out :=
  if closed p then (p, [])
  else match o with
       | PSubscribe t s => ({| closed := false; r := reg_add t s (r p) |}, [])
       | PUnsubscribe s => let '(g, out) := reg_remove_sub s (r p) in ({| closed := false; r := g |}, out)
       | PPublish t e => (p, reg_send t e (r p))
       | PClose t => let '(g, out) := reg_remove_topic t (r p) in ({| closed := false; r := g |}, out)
       | PShutdown => let '(g, out) := reg_drain (r p) in ({| closed := true; r := g |}, out)
       end.

(* observation: for each subscriber of the universe, the events it received during the call *)
Definition events_of (s : subr) (out : ev_out) : list pev :=
  map snd (filter (fun x => N.eqb (fst x) s) out).
Definition pobs := list (list pev).
Definition pobserve (univ : list subr) (out : ev_out) : pobs := map (fun s => events_of s out) univ.

Fixpoint prun (univ : list subr) (p : pub) (ops : list pop) : list pobs :=
  match ops with
  | [] => []
  | o :: rest => let '(p', out) := pstep p o in pobserve univ out :: prun univ p' rest
  end.
Fixpoint pfinal (p : pub) (ops : list pop) : pub :=
  match ops with [] => p | o :: rest => pfinal (fst (pstep p o)) rest end.

(* ---- comparison of observations modulo the order of one subscriber's closes in one call ---- *)
Definition pev_eqb (a b : pev) : bool :=
  match a, b with
  | ENext t e, ENext u f => N.eqb t u && N.eqb e f
  | EClose t, EClose u => N.eqb t u
  | _, _ => false
  end.
Definition perm_eqb (a b : list pev) : bool :=
  Nat.eqb (length a) (length b) &&
  forallb (fun x => existsb (pev_eqb x) b) a && forallb (fun x => existsb (pev_eqb x) a) b.
Definition pobs_eqb (a b : pobs) : bool := list_eqb perm_eqb a b.

(* ============================================================================================ *)
(* Specification: the set of active (topic, subscriber) subscriptions. *)
Definition pair_eqb (a b : topic * subr) : bool := N.eqb (fst a) (fst b) && N.eqb (snd a) (snd b).
Definition active := list (topic * subr).
Definition is_active (t : topic) (s : subr) (a : active) : bool := existsb (pair_eqb (t, s)) a.
Definition act_add (t : topic) (s : subr) (a : active) : active := if is_active t s a then a else a ++ [(t, s)].
Definition topics_of (s : subr) (a : active) : list topic := map fst (filter (fun x => N.eqb (snd x) s) a).

Definition is_close (e : pev) : bool := match e with EClose _ => true | _ => false end.
(* the events are exactly one close per listed topic, in any order *)
Definition closes_exactly (ts : list topic) (evs : list pev) : bool :=
  Nat.eqb (length evs) (length ts) && forallb is_close evs &&
  forallb (fun t => existsb (pev_eqb (EClose t)) evs) ts.

Definition spec_pstep (cl : bool) (a : active) (univ : list subr) (o : pop) (ob : pobs) : bool * active * bool :=
  (* returns (closed', active', observation acceptable) *)
  if cl then (true, a, forallb (fun evs => match evs with [] => true | _ => false end) ob)
  else match o with
       | PSubscribe t s =>
           (false, act_add t s a, forallb (fun evs => match evs with [] => true | _ => false end) ob)
       | PPublish t e =>
           (false, a, list_eqb (list_eqb pev_eqb) ob
                        (map (fun s => if is_active t s a then [ENext t e] else []) univ))
       | PClose t =>
           (false, filter (fun x => negb (N.eqb (fst x) t)) a,
            list_eqb (list_eqb pev_eqb) ob (map (fun s => if is_active t s a then [EClose t] else []) univ))
       | PUnsubscribe s =>
           (false, filter (fun x => negb (N.eqb (snd x) s)) a,
            Nat.eqb (length ob) (length univ) &&
            forallb (fun '(s', evs) => if N.eqb s' s then closes_exactly (topics_of s a) evs
                                       else match evs with [] => true | _ => false end)
                    (combine univ ob))
       | PShutdown =>
           (true, [],
            Nat.eqb (length ob) (length univ) &&
            forallb (fun '(s', evs) => closes_exactly (topics_of s' a) evs) (combine univ ob))
       end.

Fixpoint monitor18 (cl : bool) (a : active) (univ : list subr) (ops : list pop) (obsl : list pobs) : bool :=
  match ops, obsl with
  | [], [] => true
  | o :: ops', ob :: obs' =>
      let '(cl', a', ok) := spec_pstep cl a univ o ob in
      ok && monitor18 cl' a' univ ops' obs'
  | _, _ => false
  end.
Definition monitor_C18 (univ : list subr) (ops : list pop) (obsl : list pobs) : bool :=
  monitor18 false [] univ ops obsl.

Record pcase := { pc_univ : list subr; pc_ops : list pop; pc_obs : list pobs }.
Definition pcase_agrees (c : pcase) : bool :=
  list_eqb pobs_eqb (prun (pc_univ c) pub_new (pc_ops c)) (pc_obs c).
Definition pcase_mon (c : pcase) : bool := monitor_C18 (pc_univ c) (pc_ops c) (pc_obs c).
