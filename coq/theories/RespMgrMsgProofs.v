(* RespMgrMsgProofs.v — C10 over the model of RespMgrMsg.v.
   frame     : a label that reaches the manager because of another peer leaves a slot owned by p as it is
   locality  : the effect of any label on the slot of request id X is a function of that slot alone
   projection: two histories that agree on what is not foreign to p (cut down to X) drive p's response X
               through the same life *)
From Coq Require Import List NArith Bool Lia.
From GS Require Import Base RespMgrMsg.
Import ListNotations.
Open Scope N_scope.

Definition owned_sl (p : N) (sl : slot) : bool :=
  match sl_ent sl with Some en => e_peer en =? p | None => false end.

(* the peer an output is addressed to / reported for *)
Definition out_peer (o : sout) : option N :=
  match o with
  | SProtect p | SUnprotect p | SReqHook p _ | SUpdHook p _ _ | SBlkHook p _ | SProcessing p _
  | SMsg p _ _ _ | SPush p | SRemove p | SDone p | SCancelled p _ | SCompleted p _ _ | SNetErr p _
  | SBlockSent p _ => Some p
  | _ => None
  end.
Definition not_for (p : N) (os : list sout) : Prop := Forall (fun o => exists q, out_peer o = Some q /\ q <> p) os.

Lemma owner_differs_owned p q sl : owned_sl p sl = true -> q <> p -> owner_differs sl q = true.
Proof.
  unfold owned_sl, owner_differs. destruct (sl_ent sl) as [en|]; [|discriminate].
  intros H Hq. apply N.eqb_eq in H. rewrite H. apply negb_true_iff. apply N.eqb_neq. congruence.
Qed.

(* ---------- frame ---------- *)
Lemma frame_req p q r sl : owned_sl p sl = true -> q <> p ->
  fst (h_req fixed q r sl) = sl /\ not_for p (snd (h_req fixed q r sl)).
Proof.
  intros Ho Hq. pose proof (owner_differs_owned p q sl Ho Hq) as Hd.
  destruct r; simpl; unfold h_new, h_cancel, h_update; simpl; rewrite Hd; simpl; split; try reflexivity;
    try constructor; try constructor. exists q. split; [reflexivity|assumption].
Qed.

Lemma frame_reqs p q rs sl : owned_sl p sl = true -> q <> p ->
  fst (h_reqs fixed q rs sl) = sl /\ not_for p (snd (h_reqs fixed q rs sl)).
Proof.
  intros Ho Hq. induction rs as [|r rs IH]; simpl; [split; [reflexivity|constructor]|].
  destruct (frame_req p q r sl Ho Hq) as [E1 F1].
  destruct (h_req fixed q r sl) as [sl1 o1] eqn:Er. simpl in E1, F1. subst sl1.
  destruct IH as [E2 F2]. destruct (h_reqs fixed q rs sl) as [sl2 o2]. simpl in *. subst sl2.
  split; [reflexivity|]. apply Forall_app; split; assumption.
Qed.

Lemma Forall_repeat {A} (P : A -> Prop) a n : P a -> Forall P (repeat a n).
Proof. intro H. induction n; simpl; constructor; auto. Qed.

Lemma frame_sub p sp sent tag code nblk sl : owned_sl p sl = true -> sp <> p ->
  fst (h_sub fixed sent sp tag code nblk sl) = sl /\ not_for p (snd (h_sub fixed sent sp tag code nblk sl)).
Proof.
  intros Ho Hq. pose proof (owner_differs_owned p sp sl Ho Hq) as Hd.
  unfold h_sub. destruct (tag =? 0); [split; [reflexivity|constructor]|]. simpl. rewrite Hd. simpl.
  assert (Hx : forall o, out_peer o = Some sp -> exists q, out_peer o = Some q /\ q <> p)
    by (intros o Ho'; exists sp; split; assumption).
  destruct sent.
  - destruct (terminal code); simpl; split; try reflexivity.
    + apply Forall_app; split; [apply Forall_repeat; apply Hx; reflexivity|].
      constructor; [apply Hx; reflexivity|constructor].
    + apply Forall_repeat; apply Hx; reflexivity.
  - destruct (terminal code); simpl; split; try reflexivity; (constructor; [apply Hx; reflexivity|constructor]).
Qed.

Lemma frame_close p sp tag sl : owned_sl p sl = true -> sp <> p -> h_close sp tag sl = (sl, []).
Proof.
  unfold owned_sl, h_close. destruct (sl_ent sl) as [en|]; [|discriminate]. intros H Hq.
  apply N.eqb_eq in H. destruct (N.eqb_spec (e_peer en) sp); [congruence|reflexivity].
Qed.

(* C10, frame half: whatever a foreign label carries for request id X, a slot owned by p is unchanged
   - entry, signals, pending updates, stream, parked executors, task-queue membership - and nothing is
   output for p *)
Lemma frame_sstep p X l sl : foreign p l = true -> owned_sl p sl = true ->
  fst (sstep fixed X l sl) = sl /\ not_for p (snd (sstep fixed X l sl)).
Proof.
  intros Hf Ho. destruct l; simpl in Hf; try discriminate; apply negb_true_iff in Hf; apply N.eqb_neq in Hf; simpl.
  - apply frame_reqs; assumption.
  - destruct (id =? X); [|split; [reflexivity|constructor]]. rewrite (frame_close p sp tag sl Ho Hf). split; [reflexivity|constructor].
  - destruct (id =? X); [|split; [reflexivity|constructor]]. apply frame_sub; assumption.
Qed.

(* ---------- locality ---------- *)
Lemma sget_aput_eq X sl s : sget X (aput X sl s) = sl.
Proof. unfold sget. now rewrite aget_aput_eq. Qed.
Lemma sget_aput_neq X Y sl s : Y <> X -> sget X (aput Y sl s) = sget X s.
Proof. intro H. unfold sget. now rewrite (aget_aput_neq Y X sl s H). Qed.

Definition outs_at (X : N) (os : list (N * sout)) : list sout := map snd (filter (fun io => fst io =? X) os).

Lemma outs_at_app X a b : outs_at X (a ++ b) = outs_at X a ++ outs_at X b.
Proof. unfold outs_at. now rewrite filter_app, map_app. Qed.
Lemma outs_at_pair_eq X o : outs_at X (map (pair X) o) = o.
Proof. unfold outs_at. induction o as [|a o IH]; simpl; [reflexivity|]. rewrite N.eqb_refl. simpl. now rewrite IH. Qed.
Lemma outs_at_pair_neq X Y o : Y <> X -> outs_at X (map (pair Y) o) = [].
Proof.
  intro H. unfold outs_at. induction o as [|a o IH]; simpl; [reflexivity|].
  destruct (N.eqb_spec Y X); [contradiction|exact IH].
Qed.

Lemma on_slot_eq X f s :
  sget X (fst (on_slot X f s)) = fst (f (sget X s)) /\ outs_at X (snd (on_slot X f s)) = snd (f (sget X s)).
Proof. unfold on_slot. destruct (f (sget X s)) as [sl o]. simpl. split; [apply sget_aput_eq|apply outs_at_pair_eq]. Qed.
Lemma on_slot_neq X Y f s : Y <> X ->
  sget X (fst (on_slot Y f s)) = sget X s /\ outs_at X (snd (on_slot Y f s)) = [].
Proof. intro H. unfold on_slot. destruct (f (sget Y s)) as [sl o]. simpl. split; [now apply sget_aput_neq|now apply outs_at_pair_neq]. Qed.

Lemma local_reqs c p X rs : forall s,
  sget X (fst (g_reqs c p rs s)) = fst (h_reqs c p (filter (fun r => req_id r =? X) rs) (sget X s)) /\
  outs_at X (snd (g_reqs c p rs s)) = snd (h_reqs c p (filter (fun r => req_id r =? X) rs) (sget X s)).
Proof.
  induction rs as [|r rs IH]; intro s; simpl; [split; reflexivity|].
  destruct (on_slot (req_id r) (h_req c p r) s) as [s1 o1] eqn:E1.
  specialize (IH s1). destruct (g_reqs c p rs s1) as [s2 o2] eqn:E2. simpl in IH. simpl.
  rewrite outs_at_app. destruct (N.eqb_spec (req_id r) X) as [Hx|Hx].
  - subst X. destruct (on_slot_eq (req_id r) (h_req c p r) s) as [A B]. rewrite E1 in A, B. simpl in A, B.
    simpl. destruct (h_req c p r (sget (req_id r) s)) as [sl1 oo1]. simpl in A, B. rewrite A in IH.
    destruct (h_reqs c p (filter (fun r0 => req_id r0 =? req_id r) rs) sl1) as [sl2 oo2]. simpl in *.
    destruct IH as [I1 I2]. split; [exact I1|]. now rewrite B, I2.
  - destruct (on_slot_neq X (req_id r) (h_req c p r) s Hx) as [A B]. rewrite E1 in A, B. simpl in A, B.
    rewrite A in IH. destruct IH as [I1 I2]. split; [exact I1|]. now rewrite B, I2.
Qed.

(* the effect of any label on slot X, and what it outputs under X, is sstep on that slot *)
Lemma local_step c X l s :
  sget X (fst (step c s l)) = fst (sstep c X l (sget X s)) /\ outs_at X (snd (step c s l)) = snd (sstep c X l (sget X s)).
Proof.
  destruct l; simpl; try apply local_reqs;
    (destruct (N.eqb_spec id X) as [->|Hn]; [apply on_slot_eq | apply on_slot_neq; assumption]).
Qed.

Lemma filter_none {A} (f : A -> bool) l : existsb f l = false -> filter f l = [].
Proof.
  induction l as [|a l IH]; simpl; [reflexivity|]. destruct (f a); simpl; [discriminate|exact IH].
Qed.

Lemma sstep_nomention c X l sl : mentions X l = false -> sstep c X l sl = (sl, []).
Proof.
  destruct l; simpl; intro H; try (rewrite H; reflexivity). now rewrite (filter_none _ _ H).
Qed.

Lemma filter_idem {A} (f : A -> bool) l : filter f (filter f l) = filter f l.
Proof.
  induction l as [|a l IH]; simpl; [reflexivity|]. destruct (f a) eqn:E; simpl; [rewrite E; now rewrite IH|exact IH].
Qed.

Lemma sstep_restrict c X l sl : sstep c X (restrict X l) sl = sstep c X l sl.
Proof. destruct l; simpl; try reflexivity. now rewrite filter_idem. Qed.
Lemma restrict_idem X l : restrict X (restrict X l) = restrict X l.
Proof. destruct l; simpl; try reflexivity. now rewrite filter_idem. Qed.
Lemma foreign_restrict p X l : foreign p (restrict X l) = foreign p l.
Proof. destruct l; reflexivity. Qed.
Lemma existsb_filter_same {A} (f : A -> bool) l : existsb f (filter f l) = existsb f l.
Proof.
  induction l as [|a l IH]; simpl; [reflexivity|]. destruct (f a) eqn:E; simpl; [now rewrite E|exact IH].
Qed.
Lemma mentions_restrict X l : mentions X (restrict X l) = mentions X l.
Proof. destruct l; simpl; try reflexivity. apply existsb_filter_same. Qed.

(* ---------- the life of p's response X, on slots ---------- *)
Fixpoint swalk (p X : N) (mine : bool) (sl : slot) (ls : list label) : list (label * list sout * slot) :=
  match ls with
  | [] => []
  | l :: r =>
      if negb (mentions X l) then swalk p X mine sl r
      else if foreign p l then (if mine then swalk p X mine (fst (sstep fixed X l sl)) r else [])
      else (restrict X l, snd (sstep fixed X l sl), fst (sstep fixed X l sl)) ::
           (if owned_sl p (fst (sstep fixed X l sl)) then swalk p X true (fst (sstep fixed X l sl)) r else [])
  end.

(* what of a history matters to p's response X: the labels naming X that are not foreign, cut to X *)
Definition relevant (p X : N) (l : label) : bool := mentions X l && negb (foreign p l).
Definition canon (p X : N) (ls : list label) : list label := map (restrict X) (filter (relevant p X) ls).

(* the first label naming X, if any, is not foreign *)
Fixpoint head_ok (p X : N) (ls : list label) : bool :=
  match ls with
  | [] => true
  | l :: r => if mentions X l then negb (foreign p l) else head_ok p X r
  end.

Lemma swalk_canon p X : forall ls mine sl,
  (mine = true -> owned_sl p sl = true) -> (mine = false -> head_ok p X ls = true) ->
  swalk p X mine sl ls = swalk p X mine sl (canon p X ls).
Proof.
  induction ls as [|l r IH]; intros mine sl Hm Hh; [reflexivity|].
  unfold canon. simpl. unfold relevant at 1. destruct (mentions X l) eqn:Em; simpl.
  - destruct (foreign p l) eqn:Ef; simpl.
    + destruct mine; [|specialize (Hh eq_refl); simpl in Hh; rewrite Em, Ef in Hh; discriminate].
      destruct (frame_sstep p X l sl Ef (Hm eq_refl)) as [E _]. rewrite E. apply IH; [assumption|discriminate].
    + rewrite mentions_restrict, Em, foreign_restrict, Ef. simpl. rewrite sstep_restrict, restrict_idem.
      f_equal. destruct (owned_sl p (fst (sstep fixed X l sl))) eqn:Eo; [|reflexivity].
      apply IH; [intros _; exact Eo|discriminate].
  - apply IH; [assumption|]. intro E. specialize (Hh E). simpl in Hh. now rewrite Em in Hh.
Qed.

(* C10 on slots: equal slots, histories that agree on what is relevant to (p, X) => the same life *)
Theorem swalk_eq p X mine sl ls1 ls2 :
  (mine = true -> owned_sl p sl = true) ->
  (mine = false -> head_ok p X ls1 = true /\ head_ok p X ls2 = true) ->
  canon p X ls1 = canon p X ls2 ->
  swalk p X mine sl ls1 = swalk p X mine sl ls2.
Proof.
  intros Hm Hh Hc. rewrite (swalk_canon p X ls1 mine sl), (swalk_canon p X ls2 mine sl); auto.
  - now rewrite Hc.
  - intro E; apply Hh; exact E.
  - intro E; apply Hh; exact E.
Qed.

(* ---------- the same on the whole table ---------- *)
Fixpoint gwalk (p X : N) (mine : bool) (s : state) (ls : list label) : list (label * list sout * slot) :=
  match ls with
  | [] => []
  | l :: r =>
      let s' := fst (step fixed s l) in
      if negb (mentions X l) then gwalk p X mine s' r
      else if foreign p l then (if mine then gwalk p X mine s' r else [])
      else (restrict X l, outs_at X (snd (step fixed s l)), sget X s') ::
           (if owned_sl p (sget X s') then gwalk p X true s' r else [])
  end.

Lemma gwalk_swalk p X : forall ls mine s, gwalk p X mine s ls = swalk p X mine (sget X s) ls.
Proof.
  induction ls as [|l r IH]; intros mine s; [reflexivity|]. simpl.
  destruct (local_step fixed X l s) as [A B]. rewrite A, B.
  destruct (mentions X l) eqn:Em; simpl.
  - destruct (foreign p l); simpl.
    + destruct mine; [|reflexivity]. rewrite IH. now rewrite A.
    + f_equal. destruct (owned_sl p (fst (sstep fixed X l (sget X s)))); [|reflexivity]. rewrite IH. now rewrite A.
  - rewrite IH, A. now rewrite (sstep_nomention fixed X l (sget X s) Em).
Qed.

(* C10 (projection): from any two tables that hold the same slot for request id X, owned by p, any two
   histories that differ only in labels foreign to p (messages of other peers with any request ids,
   any hook results; send reports for other peers' messages) and in labels about other ids lead p's
   response X through the same sequence of (label, outputs under X, slot) until it ends. *)
Theorem c10_projection p X s1 s2 ls1 ls2 :
  sget X s1 = sget X s2 -> owned_sl p (sget X s1) = true ->
  canon p X ls1 = canon p X ls2 ->
  gwalk p X true s1 ls1 = gwalk p X true s2 ls2.
Proof.
  intros Es Ho Hc. rewrite !gwalk_swalk, <- Es. apply swalk_eq; auto. discriminate.
Qed.

Lemma canon_remove_foreign p X ls : canon p X (filter (fun l => negb (foreign p l)) ls) = canon p X ls.
Proof.
  unfold canon. f_equal. induction ls as [|l r IH]; simpl; [reflexivity|].
  unfold relevant at 2. destruct (foreign p l) eqn:Ef; simpl.
  - rewrite andb_false_r. exact IH.
  - unfold relevant at 1. rewrite Ef. simpl. destruct (mentions X l); simpl; now rewrite IH.
Qed.

(* the statement as the property words it: the same history with the foreign labels removed *)
Theorem c10_holds p X s ls :
  owned_sl p (sget X s) = true ->
  gwalk p X true s ls = gwalk p X true s (filter (fun l => negb (foreign p l)) ls).
Proof. intro Ho. apply c10_projection; auto. symmetry. apply canon_remove_foreign. Qed.

(* frame on the whole table: one foreign label, any state *)
Theorem c10_frame p X s l :
  foreign p l = true -> owned_sl p (sget X s) = true ->
  sget X (fst (step fixed s l)) = sget X s /\ not_for p (outs_at X (snd (step fixed s l))).
Proof.
  intros Hf Ho. destruct (local_step fixed X l s) as [A B]. rewrite A, B. now apply frame_sstep.
Qed.

(* starting from a free id: the first label naming X in both histories is p's *)
Theorem c10_from_free p X s1 s2 ls1 ls2 :
  sget X s1 = sget X s2 -> head_ok p X ls1 = true -> head_ok p X ls2 = true ->
  canon p X ls1 = canon p X ls2 ->
  gwalk p X false s1 ls1 = gwalk p X false s2 ls2.
Proof.
  intros Es H1 H2 Hc. rewrite !gwalk_swalk, <- Es. apply swalk_eq; auto. discriminate.
Qed.

(* ---------- the positive half: the owner's own messages do take effect ---------- *)
Lemma owner_not_differs p sl : owned_sl p sl = true -> owner_differs sl p = false.
Proof.
  unfold owned_sl, owner_differs. destruct (sl_ent sl); [|reflexivity]. intro H. now rewrite H.
Qed.

(* owner's cancel: a response that is not running is removed from the table, its task unqueued, the
   connection unprotected and the cancelled listener told; a running one gets the error signal *)
Theorem owner_cancel_effect p sl en :
  sl_ent sl = Some en -> e_peer en = p -> e_state en <> Completing ->
  let '(sl', o) := h_cancel fixed p sl in
  if is_running en
  then sl_ent sl' = Some (with_sigs en (e_pause en) (e_upd en) (match e_err en with Some x => Some x | None => Some ECancel end))
  else sl_ent sl' = None /\ In (SCancelled p (e_tag en)) o /\ In (SUnprotect p) o /\ aget p (sl_tq sl') <> Some TPending.
Proof.
  intros He Hp Hs. unfold h_cancel. rewrite owner_not_differs by (unfold owned_sl; rewrite He; now apply N.eqb_eq).
  simpl. unfold abort. rewrite He. subst p.
  destruct (e_state en) eqn:Est; try congruence; unfold is_completing, is_running; rewrite Est; simpl.
  - unfold terminate. simpl. rewrite He. simpl. repeat split; auto.
    unfold tq_remove. destruct (aget (e_peer en) (sl_tq sl)) as [[|]|] eqn:Eq; try congruence.
    rewrite aget_adel_eq. discriminate.
  - reflexivity.
  - unfold terminate. simpl. rewrite He. simpl. repeat split; auto.
    unfold tq_remove. destruct (aget (e_peer en) (sl_tq sl)) as [[|]|] eqn:Eq; try congruence.
    rewrite aget_adel_eq. discriminate.
Qed.

(* owner's update: recorded and signalled to the executor, or (paused response) handed to the update hook *)
Theorem owner_update_effect p code ur ext sl en :
  sl_ent sl = Some en -> e_peer en = p -> e_state en <> Completing ->
  let '(sl', o) := h_update fixed p code ur ext sl in
  if is_paused en then In (SUpdHook p (e_tag en) code) o
  else exists en', sl_ent sl' = Some en' /\ e_upd en' = true /\
                   e_updates en' = e_updates en ++ [{| u_code := code; u_res := ur; u_ext := ext |}].
Proof.
  intros He Hp Hs. unfold h_update. rewrite owner_not_differs by (unfold owned_sl; rewrite He; now apply N.eqb_eq).
  simpl. rewrite He. subst p.
  destruct (e_state en) eqn:Est; try congruence; unfold is_completing, is_paused; rewrite Est; simpl.
  - eexists; split; [reflexivity|]. simpl. split; reflexivity.
  - eexists; split; [reflexivity|]. simpl. split; reflexivity.
  - destruct ur; simpl.
    + now left.
    + destruct (unpause false sl) as [[sl' o'] ok]. simpl. now left.
    + now left.
Qed.
