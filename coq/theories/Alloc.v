(* Alloc.v — executable model of /repo/allocator/allocator.go (C13, C14; reused by C15, C23, C25).

   One Gallina function per exported method of allocator.Allocator; the lock-protected body of each
   method is one step.  Numbers are N: after the overflow fix every comparison in the Go code is
   [fits allocated amount max := allocated <= max && amount <= max-allocated], which for uint64
   arguments is exactly [allocated + amount <=? max] over N, and every addition it performs is
   guarded by such a test, so no uint64 operation on totals wraps (the invariant proved in
   AllocProofs.v: total <= max_total, alloc <= max_peer).  Only Stats() sums pending amounts
   without a guard; that sum is modelled modulo 2^64.

   The heap (go-ipfs-pq) is modelled by [min_peer]: a comparator-minimal element of the peer table
   under the transcribed comparator [ps_less].  Ties are between peers whose treatment by
   processPendingAllocations is identical (see AllocProofs.v, [pp_order_irrelevant] discussion in
   DESIGN.md), so which minimal element is returned is not observable. *)
From Coq Require Import List NArith Bool Lia.
From GS Require Export Base.
Import ListNotations.
Open Scope N_scope.

Definition peer := N.
Definition ticket := N.

Record pend := { p_amt : N; p_idx : N; p_tkt : ticket }.
Record pstat := { ps_alloc : N; ps_pend : list pend }.

Record st := {
  max_total : N; max_peer : N;
  total : N; next_idx : N; next_tkt : ticket;
  peers : list (peer * pstat)
}.

Inductive op := OAlloc (p : peer) (a : N) | ORelease (p : peer) (a : N) | OReleasePeer (p : peer).
Inductive out := Granted (t : ticket) | Failed (t : ticket).

Definition init (mt mp : N) : st :=
  {| max_total := mt; max_peer := mp; total := 0; next_idx := 0; next_tkt := 0; peers := [] |}.

(* ---- association list helpers -------------------------------------------------------------- *)
Fixpoint lookup (p : peer) (l : list (peer * pstat)) : option pstat :=
  match l with
  | [] => None
  | (q, v) :: r => if N.eqb p q then Some v else lookup p r
  end.

Fixpoint set (p : peer) (v : pstat) (l : list (peer * pstat)) : list (peer * pstat) :=
  match l with
  | [] => [(p, v)]
  | (q, w) :: r => if N.eqb p q then (q, v) :: r else (q, w) :: set p v r
  end.

Fixpoint remove (p : peer) (l : list (peer * pstat)) : list (peer * pstat) :=
  match l with
  | [] => []
  | (q, w) :: r => if N.eqb p q then r else (q, w) :: remove p r
  end.

(* fits: the Go helper of the same name *)
Definition fits (allocated amount mx : N) : bool := allocated + amount <=? mx.

(* makePeerStatusCompare, clause by clause *)
Definition ps_less (mp : N) (a b : pstat) : bool :=
  match ps_pend a with
  | [] => match ps_pend b with
          | [] => ps_alloc a <? ps_alloc b
          | _ => false
          end
  | ha :: _ =>
      match ps_pend b with
      | [] => true
      | hb :: _ =>
          if negb (fits (ps_alloc a) (p_amt ha) mp) then false
          else if negb (fits (ps_alloc b) (p_amt hb) mp) then true
          else p_idx ha <? p_idx hb
      end
  end.

(* Peek(): a comparator-minimal entry (first such in table order) *)
Fixpoint min_peer (mp : N) (l : list (peer * pstat)) : option (peer * pstat) :=
  match l with
  | [] => None
  | x :: r =>
      match min_peer mp r with
      | None => Some x
      | Some y => if ps_less mp (snd y) (snd x) then Some y else Some x
      end
  end.

Definition with_peers (s : st) (tot : N) (l : list (peer * pstat)) : st :=
  {| max_total := max_total s; max_peer := max_peer s; total := tot;
     next_idx := next_idx s; next_tkt := next_tkt s; peers := l |}.

(* processPendingAllocations: returns state, outcomes (in grant order), and false if fuel ran out *)
Fixpoint process_pending (fuel : nat) (s : st) (acc : list out) : st * list out * bool :=
  match fuel with
  | O => (s, acc, false)
  | S f =>
      match min_peer (max_peer s) (peers s) with
      | None => (s, acc, true)
      | Some (p, ps) =>
          match ps_pend ps with
          | h :: rest =>
              if negb (fits (total s) (p_amt h) (max_total s)) then (s, acc, true)
              else if negb (fits (ps_alloc ps) (p_amt h) (max_peer s)) then (s, acc, true)
              else process_pending f
                     (with_peers s (total s + p_amt h)
                        (set p {| ps_alloc := ps_alloc ps + p_amt h; ps_pend := rest |} (peers s)))
                     (acc ++ [Granted (p_tkt h)])
          | [] =>
              if 0 <? ps_alloc ps then (s, acc, true)
              else process_pending f (with_peers s (total s) (remove p (peers s))) acc
          end
      end
  end.

Definition pending_count (l : list (peer * pstat)) : nat :=
  fold_right (fun x n => (length (ps_pend (snd x)) + n)%nat) O l.

Definition pp_fuel (s : st) : nat := S (pending_count (peers s) + length (peers s)).

Definition run_pending (s : st) (acc : list out) : st * list out * bool :=
  process_pending (pp_fuel s) s acc.

Definition bump_tkt (s : st) (nidx : N) (tot : N) (l : list (peer * pstat)) : st :=
  {| max_total := max_total s; max_peer := max_peer s; total := tot;
     next_idx := nidx; next_tkt := next_tkt s + 1; peers := l |}.

(* result of a step: new state, outcomes delivered on result channels during the call,
   error flag (the method returned a non-nil error), fuel-ok flag *)
Definition step (s : st) (o : op) : st * list out * bool * bool :=
  match o with
  | OAlloc p a =>
      let ps := match lookup p (peers s) with
                | Some x => x
                | None => {| ps_alloc := 0; ps_pend := [] |}
                end in
      let t := next_tkt s in
      match ps_pend ps with
      | [] =>
          if fits (total s) a (max_total s) && fits (ps_alloc ps) a (max_peer s) then
            (bump_tkt s (next_idx s) (total s + a)
               (set p {| ps_alloc := ps_alloc ps + a; ps_pend := [] |} (peers s)),
             [Granted t], false, true)
          else
            (bump_tkt s (next_idx s + 1) (total s)
               (set p {| ps_alloc := ps_alloc ps;
                         ps_pend := [ {| p_amt := a; p_idx := next_idx s; p_tkt := t |} ] |} (peers s)),
             [], false, true)
      | _ :: _ =>
          (bump_tkt s (next_idx s + 1) (total s)
             (set p {| ps_alloc := ps_alloc ps;
                       ps_pend := ps_pend ps ++ [ {| p_amt := a; p_idx := next_idx s; p_tkt := t |} ] |}
                (peers s)),
           [], false, true)
      end
  | ORelease p a =>
      match lookup p (peers s) with
      | None => (s, [], true, true)
      | Some ps =>
          let eff := if a <=? ps_alloc ps then a else ps_alloc ps in
          let tot := if eff <=? total s then total s - eff else 0 in
          let s1 := with_peers s tot
                      (set p {| ps_alloc := ps_alloc ps - eff; ps_pend := ps_pend ps |} (peers s)) in
          let '(s2, outs, ok) := run_pending s1 [] in
          (s2, outs, false, ok)
      end
  | OReleasePeer p =>
      match lookup p (peers s) with
      | None => (s, [], true, true)
      | Some ps =>
          let fails := map (fun x => Failed (p_tkt x)) (ps_pend ps) in
          let tot := if ps_alloc ps <=? total s then total s - ps_alloc ps else 0 in
          let s1 := with_peers s tot (remove p (peers s)) in
          let '(s2, outs, ok) := run_pending s1 fails in
          (s2, outs, false, ok)
      end
  end.

(* ---- observations (what the harness can see through the public API) ------------------------ *)
Definition two64 : N := 18446744073709551616.

Definition alloc_of (s : st) (p : peer) : N :=
  match lookup p (peers s) with Some ps => ps_alloc ps | None => 0 end.

Definition pend_sum (ps : pstat) : N :=
  fold_left (fun acc x => (acc + p_amt x) mod two64) (ps_pend ps) 0.

(* Stats(): TotalPendingAllocations, NumPeersWithPendingAllocations *)
Definition stats_pending (s : st) : N * N :=
  fold_left (fun '(tp, np) x =>
               let k := pend_sum (snd x) in
               if 0 <? k then ((tp + k) mod two64, np + 1) else (tp, np))
            (peers s) (0, 0).

Record obs := {
  o_outs : list out;         (* sorted by ticket by the harness and by [sort_outs] *)
  o_err : bool;
  o_total : N;               (* Stats().TotalAllocatedAllPeers *)
  o_pending : N;             (* Stats().TotalPendingAllocations *)
  o_npending : N;            (* Stats().NumPeersWithPendingAllocations *)
  o_allocs : list N          (* AllocatedForPeer for each peer of the universe, in universe order *)
}.

Definition out_tkt (o : out) : ticket := match o with Granted t => t | Failed t => t end.

Fixpoint insert_out (o : out) (l : list out) : list out :=
  match l with
  | [] => [o]
  | x :: r => if out_tkt o <=? out_tkt x then o :: l else x :: insert_out o r
  end.
Definition sort_outs (l : list out) : list out := fold_right insert_out [] l.

Definition observe (univ : list peer) (s : st) (outs : list out) (err : bool) : obs :=
  let '(tp, np) := stats_pending s in
  {| o_outs := sort_outs outs; o_err := err; o_total := total s; o_pending := tp; o_npending := np;
     o_allocs := map (alloc_of s) univ |}.

(* run a script, producing one observation per op; the last component is "fuel never ran out" *)
Fixpoint run (univ : list peer) (s : st) (ops : list op) : list obs * bool :=
  match ops with
  | [] => ([], true)
  | o :: r =>
      let '(s', outs, err, ok) := step s o in
      let '(obsr, okr) := run univ s' r in
      (observe univ s' outs err :: obsr, ok && okr)
  end.

Fixpoint final (s : st) (ops : list op) : st :=
  match ops with
  | [] => s
  | o :: r => let '(s', _, _, _) := step s o in final s' r
  end.

(* ---- boolean equality of observations, for the correspondence check ------------------------ *)
Definition out_eqb (a b : out) : bool :=
  match a, b with
  | Granted x, Granted y => N.eqb x y
  | Failed x, Failed y => N.eqb x y
  | _, _ => false
  end.

Definition obs_eqb (a b : obs) : bool :=
  list_eqb out_eqb (o_outs a) (o_outs b) && Bool.eqb (o_err a) (o_err b) &&
  N.eqb (o_total a) (o_total b) && N.eqb (o_pending a) (o_pending b) &&
  N.eqb (o_npending a) (o_npending b) && list_eqb N.eqb (o_allocs a) (o_allocs b).

(* ============================================================================================ *)
(* Monitors: the properties C13 and C14 as executable predicates over an *observed* history.
   They mention no model state: only the configuration, the operations and what was observed.   *)

(* ticket table: ticket -> (peer, amount), ticket numbers are positions of OAlloc ops *)
Definition tkt_info := list (ticket * (peer * N)).
Fixpoint tkt_lookup (t : ticket) (l : tkt_info) : option (peer * N) :=
  match l with
  | [] => None
  | (u, v) :: r => if N.eqb t u then Some v else tkt_lookup t r
  end.

(* ledger: peer -> N as an association list *)
Definition ledger := list (peer * N).
Fixpoint led_get (p : peer) (l : ledger) : N :=
  match l with [] => 0 | (q, v) :: r => if N.eqb p q then v else led_get p r end.
Fixpoint led_set (p : peer) (v : N) (l : ledger) : ledger :=
  match l with
  | [] => [(p, v)]
  | (q, w) :: r => if N.eqb p q then (q, v) :: r else (q, w) :: led_set p v r
  end.
Definition led_sum (l : ledger) : N := fold_right (fun x acc => snd x + acc) 0 l.

Definition apply_grants (tk : tkt_info) (outs : list out) (l : ledger) : ledger :=
  fold_left (fun l o =>
               match o with
               | Granted t => match tkt_lookup t tk with
                              | Some (p, a) => led_set p (led_get p l + a) l
                              | None => l
                              end
               | Failed _ => l
               end) outs l.

(* C13: what was granted minus what was (effectively) released *)
Definition ledger_step (tk : tkt_info) (l : ledger) (o : op) (ob : obs) : ledger :=
  let l1 := match o with
            | OAlloc _ _ => l
            | ORelease p a => if o_err ob then l
                              else let cur := led_get p l in
                                   led_set p (cur - (if a <=? cur then a else cur)) l
            | OReleasePeer p => if o_err ob then l else led_set p 0 l
            end in
  apply_grants tk (o_outs ob) l1.

Definition amounts_within (mt mp : N) (tk : tkt_info) : bool :=
  forallb (fun x => (snd (snd x) <=? mt) && (snd (snd x) <=? mp)) tk.

Fixpoint monitor13 (mt mp : N) (univ : list peer) (tk : tkt_info) (nt : ticket) (l : ledger)
         (ops : list op) (obsl : list obs) : bool :=
  match ops, obsl with
  | [], [] => true
  | o :: ops', ob :: obs' =>
      let tk' := match o with OAlloc p a => (nt, (p, a)) :: tk | _ => tk end in
      let nt' := match o with OAlloc _ _ => nt + 1 | _ => nt end in
      let l' := ledger_step tk' l o ob in
      (* reported totals equal granted minus released, per peer and globally *)
      list_eqb N.eqb (o_allocs ob) (map (fun p => led_get p l') univ) &&
      N.eqb (o_total ob) (led_sum l') &&
      (* limits *)
      (o_total ob <=? mt) && forallb (fun a => a <=? mp) (o_allocs ob) &&
      (* releasing a peer returns all of its memory *)
      match o with
      | OReleasePeer p => N.eqb (led_get p l') 0
      | _ => true
      end &&
      (* once everything is released nothing is reported allocated or pending (for requests that
         can ever be satisfied, i.e. no larger than either limit) *)
      (if N.eqb (led_sum l') 0 && amounts_within mt mp tk'
       then N.eqb (o_total ob) 0 && N.eqb (o_pending ob) 0 && N.eqb (o_npending ob) 0 else true) &&
      monitor13 mt mp univ tk' nt' l' ops' obs'
  | _, _ => false
  end.

(* every peer mentioned by the script is in the observed universe and the universe has no
   repetitions: the monitor needs to see every peer's total *)
Definition op_peer (o : op) : peer :=
  match o with OAlloc p _ => p | ORelease p _ => p | OReleasePeer p => p end.
Definition univ_ok (univ : list peer) (ops : list op) : bool :=
  nodupb univ && forallb (fun o => existsb (N.eqb (op_peer o)) univ) ops.

Definition monitor_C13 (mt mp : N) (univ : list peer) (ops : list op) (obsl : list obs) : bool :=
  monitor13 mt mp univ [] 0 [] ops obsl.

(* C14: an abstract waiting-room spec driven by the observed outcomes.
   waiting: per peer FIFO of (ticket, amount) *)
Definition waitq := list (peer * list (ticket * N)).
Fixpoint wq_get (p : peer) (w : waitq) : list (ticket * N) :=
  match w with [] => [] | (q, v) :: r => if N.eqb p q then v else wq_get p r end.
Fixpoint wq_set (p : peer) (v : list (ticket * N)) (w : waitq) : waitq :=
  match w with
  | [] => [(p, v)]
  | (q, x) :: r => if N.eqb p q then (q, v) :: r else (q, x) :: wq_set p v r
  end.

(* apply sorted outcomes: each granted ticket must be the head of its peer's queue *)
Fixpoint apply_outs14 (tk : tkt_info) (outs : list out) (w : waitq) (l : ledger)
         (failing : option peer) : option (waitq * ledger) :=
  match outs with
  | [] => Some (w, l)
  | Granted t :: r =>
      match tkt_lookup t tk with
      | Some (p, a) =>
          match wq_get p w with
          | (t', _) :: q' => if N.eqb t t'
                             then apply_outs14 tk r (wq_set p q' w) (led_set p (led_get p l + a) l) failing
                             else None
          | [] => None
          end
      | None => None
      end
  | Failed t :: r =>
      match tkt_lookup t tk, failing with
      | Some (p, _), Some fp =>
          if N.eqb p fp then
            match wq_get p w with
            | (t', _) :: q' => if N.eqb t t' then apply_outs14 tk r (wq_set p q' w) l failing else None
            | [] => None
            end
          else None
      | _, _ => None
      end
  end.

(* eligible heads: (ticket, peer, amount) of queue heads that fit their own peer's limit *)
Definition eligible_heads (mp : N) (w : waitq) (l : ledger) : list (ticket * peer * N) :=
  flat_map (fun x => match snd x with
                     | (t, a) :: _ => if fits (led_get (fst x) l) a mp then [(t, fst x, a)] else []
                     | [] => []
                     end) w.

Fixpoint min_ticket (l : list (ticket * peer * N)) : option (ticket * peer * N) :=
  match l with
  | [] => None
  | x :: r => match min_ticket r with
              | None => Some x
              | Some y => if fst (fst y) <? fst (fst x) then Some y else Some x
              end
  end.

(* no lost wake-up: the earliest-requested eligible head does not fit under the total *)
Definition stable (mt mp : N) (w : waitq) (l : ledger) : bool :=
  match min_ticket (eligible_heads mp w l) with
  | None => true
  | Some (_, _, a) => negb (fits (led_sum l) a mt)
  end.

Fixpoint monitor14 (mt mp : N) (tk : tkt_info) (nt : ticket) (w : waitq) (l : ledger)
         (ops : list op) (obsl : list obs) : bool :=
  match ops, obsl with
  | [], [] => true
  | o :: ops', ob :: obs' =>
      let tk' := match o with OAlloc p a => (nt, (p, a)) :: tk | _ => tk end in
      let nt' := match o with OAlloc _ _ => nt + 1 | _ => nt end in
      match o with
      | OAlloc p a =>
          (* granted at once iff nothing of this peer is waiting and it fits both limits *)
          let now := match wq_get p w with [] => fits (led_sum l) a mt && fits (led_get p l) a mp
                                      | _ => false end in
          if now then
            list_eqb out_eqb (o_outs ob) [Granted nt] && negb (o_err ob) &&
            let l' := led_set p (led_get p l + a) l in
            stable mt mp w l' && monitor14 mt mp tk' nt' w l' ops' obs'
          else
            list_eqb out_eqb (o_outs ob) [] && negb (o_err ob) &&
            let w' := wq_set p (wq_get p w ++ [(nt, a)]) w in
            stable mt mp w' l && monitor14 mt mp tk' nt' w' l ops' obs'
      | ORelease p a =>
          if o_err ob then list_eqb out_eqb (o_outs ob) [] && monitor14 mt mp tk' nt' w l ops' obs'
          else
            let cur := led_get p l in
            let l1 := led_set p (cur - (if a <=? cur then a else cur)) l in
            match apply_outs14 tk' (o_outs ob) w l1 None with
            | Some (w', l') => stable mt mp w' l' && monitor14 mt mp tk' nt' w' l' ops' obs'
            | None => false
            end
      | OReleasePeer p =>
          if o_err ob then list_eqb out_eqb (o_outs ob) [] && monitor14 mt mp tk' nt' w l ops' obs'
          else
            let l1 := led_set p 0 l in
            match apply_outs14 tk' (o_outs ob) w l1 (Some p) with
            | Some (w', l') =>
                (* every waiting allocation of p failed in this very call *)
                match wq_get p w' with [] => true | _ => false end &&
                stable mt mp w' l' && monitor14 mt mp tk' nt' w' l' ops' obs'
            | None => false
            end
      end
  | _, _ => false
  end.

Definition monitor_C14 (mt mp : N) (ops : list op) (obsl : list obs) : bool :=
  monitor14 mt mp [] 0 [] [] ops obsl.

(* ---- correspondence entry points used by cases_C13.v / cases_C14.v -------------------------- *)
Record acase := { c_mt : N; c_mp : N; c_univ : list peer; c_ops : list op; c_obs : list obs }.

Definition case_model_obs (c : acase) : list obs :=
  fst (run (c_univ c) (init (c_mt c) (c_mp c)) (c_ops c)).

Definition case_agrees (c : acase) : bool := list_eqb obs_eqb (case_model_obs c) (c_obs c).
Definition case_mon13 (c : acase) : bool :=
  monitor_C13 (c_mt c) (c_mp c) (c_univ c) (c_ops c) (c_obs c).
Definition case_mon14 (c : acase) : bool := monitor_C14 (c_mt c) (c_mp c) (c_ops c) (c_obs c).

