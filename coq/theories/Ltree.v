(* Ltree.v — traversal plans: what go-graphsync sees of a go-ipld-prime selector traversal.

   go-graphsync never interprets selectors itself; it steps a go-ipld-prime traversal and answers each
   link load with bytes, SkipMe, or a hard error.  For a fixed root, selector, chooser and universe
   of blocks this interaction is a finite ordered tree: loading a link successfully makes the items
   of its body happen in order (node visits and nested loads); skipping it makes none of them
   happen; a hard error aborts the traversal.  Theorems quantify over ALL such trees, which covers
   all DAG shapes, selectors and codecs without modelling the selector engine.  (That the real engine
   behaves as some tree is validated by the harness per generated case, not proved.)

   Also here: the link budget wrapper (traverser.start for the root, Progress.checkLinkBudget for all
   other links) and the choice of the budget that applies (requestmanager/responsemanager server.go). *)
From Coq Require Import List NArith Bool Lia.
From GS Require Export Base.
Import ListNotations.
Open Scope N_scope.

Definition cid := N.
Definition path := list N.

Inductive ltree := LNode (p : path) (c : cid) (body : items)
with items := INil | IVisit (v : N) (rest : items) | IChild (t : ltree) (rest : items).

Scheme ltree_mut := Induction for ltree Sort Prop
with items_mut := Induction for items Sort Prop.
Combined Scheme ltree_items_ind from ltree_mut, items_mut.

Inductive lerr := ErrBudget | ErrOther (code : N).
Inductive ans := AOk | ASkip | AErr (e : lerr).
Inductive ev := ELoad (p : path) (c : cid) (a : ans) | EVisit (v : N).

Section Run.
  Context {S : Type}.
  Variable ask : S -> path -> cid -> S * ans.

  (* result: final oracle state, events, and whether the traversal is still going (false = aborted) *)
  Fixpoint run_tree (t : ltree) (s : S) : S * list ev * bool :=
    match t with
    | LNode p c body =>
        let '(s1, a) := ask s p c in
        match a with
        | AOk => let '(s2, evs, ok) := run_items body s1 in (s2, ELoad p c AOk :: evs, ok)
        | ASkip => (s1, [ELoad p c ASkip], true)
        | AErr e => (s1, [ELoad p c (AErr e)], false)
        end
    end
  with run_items (l : items) (s : S) : S * list ev * bool :=
    match l with
    | INil => (s, [], true)
    | IVisit v rest => let '(s2, evs, ok) := run_items rest s in (s2, EVisit v :: evs, ok)
    | IChild t rest =>
        let '(s1, e1, ok1) := run_tree t s in
        if ok1 then let '(s2, e2, ok2) := run_items rest s1 in (s2, e1 ++ e2, ok2)
        else (s1, e1, false)
    end.
End Run.

Lemma run_tree_node {S} (ask : S -> path -> cid -> S * ans) p c body s :
  run_tree ask (LNode p c body) s =
  let '(s1, a) := ask s p c in
  match a with
  | AOk => let '(s2, evs, ok) := run_items ask body s1 in (s2, ELoad p c AOk :: evs, ok)
  | ASkip => (s1, [ELoad p c ASkip], true)
  | AErr e => (s1, [ELoad p c (AErr e)], false)
  end.
Proof. reflexivity. Qed.
Lemma run_items_nil {S} (ask : S -> path -> cid -> S * ans) s : run_items ask INil s = (s, [], true).
Proof. reflexivity. Qed.
Lemma run_items_visit {S} (ask : S -> path -> cid -> S * ans) v rest s :
  run_items ask (IVisit v rest) s = let '(s2, evs, ok) := run_items ask rest s in (s2, EVisit v :: evs, ok).
Proof. reflexivity. Qed.
Lemma run_items_child {S} (ask : S -> path -> cid -> S * ans) t rest s :
  run_items ask (IChild t rest) s =
  let '(s1, e1, ok1) := run_tree ask t s in
  if ok1 then let '(s2, e2, ok2) := run_items ask rest s1 in (s2, e1 ++ e2, ok2) else (s1, e1, false).
Proof. reflexivity. Qed.

(* the budget wrapper: the state carries the remaining link budget *)
Definition budgeted {S} (ask : S -> path -> cid -> S * ans) : (N * S) -> path -> cid -> (N * S) * ans :=
  fun '(n, s) p c =>
    if n =? 0 then ((n, s), AErr ErrBudget)
    else let '(s', a) := ask s p c in ((n - 1, s'), a).

(* number of link loads in a trace *)
Fixpoint loads (evs : list ev) : N :=
  match evs with
  | [] => 0
  | ELoad _ _ _ :: r => 1 + loads r
  | EVisit _ :: r => loads r
  end.

(* loads that actually reached the store (everything but a budget refusal) *)
Fixpoint real_loads (evs : list ev) : N :=
  match evs with
  | [] => 0
  | ELoad _ _ (AErr ErrBudget) :: r => real_loads r
  | ELoad _ _ _ :: r => 1 + real_loads r
  | EVisit _ :: r => real_loads r
  end.

(* the trace cut at the budget: the first n loads happen; the next one is refused *)
Fixpoint cut (n : nat) (evs : list ev) : list ev :=
  match evs with
  | [] => []
  | EVisit v :: r => EVisit v :: cut n r
  | ELoad p c a :: r =>
      match n with
      | O => [ELoad p c (AErr ErrBudget)]
      | S m => ELoad p c a :: cut m r
      end
  end.

(* requestmanager/server.go and responsemanager/server.go: which budget applies; 0 = none *)
Definition effective_budget (global per_request : N) : N :=
  if (global =? 0) || (negb (per_request =? 0) && (per_request <? global)) then per_request else global.

(* ---- correspondence (C07): a real traversal without a budget, and the same with budget n ---- *)
Definition ans_eqb (a b : ans) : bool :=
  match a, b with
  | AOk, AOk | ASkip, ASkip => true
  | AErr ErrBudget, AErr ErrBudget => true
  | AErr (ErrOther x), AErr (ErrOther y) => N.eqb x y
  | _, _ => false
  end.
Definition ev_eqb (a b : ev) : bool :=
  match a, b with
  | ELoad p c x, ELoad q d y => list_eqb N.eqb p q && N.eqb c d && ans_eqb x y
  | EVisit v, EVisit w => N.eqb v w
  | _, _ => false
  end.

Record bcase := {
  bc_budget : N;                 (* > 0 *)
  bc_free : list ev;             (* trace of the unbudgeted run *)
  bc_free_ok : bool;             (* it ended without error *)
  bc_budgeted : list ev;         (* trace with the budget (a refusal is recorded as ELoad _ _ (AErr ErrBudget)) *)
  bc_budgeted_ok : bool
}.

(* what the theorem predicts for the budgeted run *)
Definition predicted (c : bcase) : list ev * bool :=
  if loads (bc_free c) <=? bc_budget c then (bc_free c, bc_free_ok c)
  else (cut (N.to_nat (bc_budget c)) (bc_free c), false).

Definition bcase_ok (c : bcase) : bool :=
  let '(evs, ok) := predicted c in
  list_eqb ev_eqb evs (bc_budgeted c) && Bool.eqb ok (bc_budgeted_ok c) &&
  (real_loads (bc_budgeted c) <=? bc_budget c).

(* ---- correspondence (C07, whole stack): a chain DAG of [eb_len] blocks, budgets on one side ---- *)
Record ebcase := {
  eb_side : N;        (* 0 = requestor enforces, 1 = responder enforces *)
  eb_global : N; eb_per : N; eb_len : N;
  eb_loaded : N;      (* blocks loaded by the enforcing peer's traversal *)
  eb_failed : bool    (* the request ended with an error *)
}.
Definition ebcase_ok (c : ebcase) : bool :=
  let e := effective_budget (eb_global c) (eb_per c) in
  if e =? 0 then N.eqb (eb_loaded c) (eb_len c) && negb (eb_failed c)
  else N.eqb (eb_loaded c) (N.min (eb_len c) e) && Bool.eqb (eb_failed c) (e <? eb_len c).
