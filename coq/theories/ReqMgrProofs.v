(* ReqMgrProofs.v — proofs about the request-manager LTS of ReqMgr.v (C04). *)
From Coq Require Import List NArith Bool Arith Lia.
From GS Require Import Base ReqMgr.
Import ListNotations.

(* ---------- tactics ---------- *)
Ltac dm H :=
  repeat match type of H with
         | context [match ?x with _ => _ end] => destruct x eqn:?; try discriminate H
         end.
Ltac dmg :=
  repeat match goal with
         | |- context [match ?x with _ => _ end] => destruct x eqn:?
         end.
Ltac inv H := inversion H; subst; clear H.
Ltac rw := repeat match goal with H : ?x = _ |- context [?x] => rewrite H end.
Ltac fin := simpl in *; rw; simpl; auto.

(* ---------- reachability ---------- *)
Inductive reach (pl : list pentry) : st -> Prop :=
| reach_init : reach pl (init pl)
| reach_step s l s' es : reach pl s -> step s l = Some (s', es) -> reach pl s'.

Lemma run_app s l1 l2 :
  run s (l1 ++ l2) =
  match run s l1 with
  | Some (s1, e1) => match run s1 l2 with Some (s2, e2) => Some (s2, e1 ++ e2) | None => None end
  | None => None
  end.
Proof.
  revert s; induction l1 as [|l l1 IH]; intro s; simpl.
  - destruct (run s l2) as [[? ?]|]; reflexivity.
  - destruct (step s l) as [[s1 e1]|]; [|reflexivity]. rewrite IH.
    destruct (run s1 l1) as [[s2 e2]|]; [|reflexivity].
    destruct (run s2 l2) as [[s3 e3]|]; [|reflexivity]. now rewrite app_assoc.
Qed.

Lemma run_reach pl ls : forall s es, reach pl s -> run s ls = Some es -> reach pl (fst es).
Proof.
  induction ls as [|l ls IH]; simpl; intros s es R H.
  - inv H. exact R.
  - destruct (step s l) as [[s1 e1]|] eqn:S; [|discriminate].
    destruct (run s1 ls) as [[s2 e2]|] eqn:Rn; [|discriminate]. inv H. simpl.
    apply (IH s1 (s2, e2)); [econstructor; eauto | exact Rn].
Qed.

(* =====================================================================================
   T1. Nothing is delivered on a returned channel after it is closed; each is closed at most once.
   ===================================================================================== *)
(* scan of an event list, given whether the progress / error channel is already closed *)
Fixpoint ev_ok (pc ecl : bool) (es : list ev) : bool :=
  match es with
  | [] => true
  | EvDelivP :: r => negb pc && ev_ok pc ecl r
  | EvCloseP :: r => negb pc && ev_ok true ecl r
  | EvDelivE _ :: r => negb ecl && ev_ok pc ecl r
  | EvCloseE :: r => negb ecl && ev_ok pc true r
  | _ :: r => ev_ok pc ecl r
  end.
Fixpoint ev_flags (pc ecl : bool) (es : list ev) : bool * bool :=
  match es with
  | [] => (pc, ecl)
  | EvCloseP :: r => ev_flags true ecl r
  | EvCloseE :: r => ev_flags pc true r
  | _ :: r => ev_flags pc ecl r
  end.
Definition pcl (s : st) : bool := match rc s with RCExit => true | _ => false end.
Definition ecl (s : st) : bool := match ec s with ECExit => true | _ => false end.

Lemma ev_ok_app p e a b :
  ev_ok p e (a ++ b) = ev_ok p e a && ev_ok (fst (ev_flags p e a)) (snd (ev_flags p e a)) b.
Proof.
  revert p e; induction a as [|x a IH]; intros p e; simpl; [reflexivity|].
  destruct x; simpl; rewrite ?IH, ?andb_assoc; reflexivity.
Qed.
Lemma ev_flags_app p e a b :
  ev_flags p e (a ++ b) = ev_flags (fst (ev_flags p e a)) (snd (ev_flags p e a)) b.
Proof.
  revert p e; induction a as [|x a IH]; intros p e; simpl; [reflexivity|]. destruct x; simpl; apply IH.
Qed.

(* events that do not concern the returned channels *)
Definition quiet_ev (e : ev) : bool := match e with EvSend _ | EvLoad _ => true | _ => false end.
Lemma quiet_ok p e es : forallb quiet_ev es = true -> ev_ok p e es = true /\ ev_flags p e es = (p, e).
Proof.
  induction es as [|x es IH]; simpl; intro H; [auto|].
  apply andb_true_iff in H as [Hx H]. destruct x; try discriminate; simpl; auto.
Qed.

Lemma term3_ch rel s : rc (term3 rel s) = rc s /\ ec (term3 rel s) = ec s.
Proof. unfold term3. destruct rel; simpl; auto. Qed.
Lemma term2_ch st rel s : rc (term2 st rel s) = rc s /\ ec (term2 st rel s) = ec s.
Proof. unfold term2, term3. destruct st, rel; simpl; auto. Qed.
Lemma terminate_ch e rel s : rc (terminate e rel s) = rc s /\ ec (terminate e rel s) = ec s.
Proof. unfold terminate, term2, term3. destruct (e_terr e), (e_started e), rel; simpl; auto. Qed.
Lemma coe_ch e eo s : rc (cancel_on_error e eo s) = rc s /\ ec (cancel_on_error e eo s) = ec s.
Proof.
  unfold cancel_on_error, terminate, term2, term3.
  destruct (e_state e), (e_terr e), eo, (e_started e); simpl; auto.
Qed.

Lemma handle_ch m s s1 e1 :
  handle m s = Some (s1, e1) -> rc s1 = rc s /\ ec s1 = ec s /\ forallb quiet_ev e1 = true.
Proof.
  unfold handle. intro H. dm H; inv H;
    repeat match goal with
           | |- context [cancel_on_error ?a ?b ?c] =>
               let P := fresh in let Q := fresh in pose proof (coe_ch a b c) as [P Q]; revert P Q;
               generalize (cancel_on_error a b c); intros
           | |- context [terminate ?a ?b ?c] =>
               let P := fresh in let Q := fresh in pose proof (terminate_ch a b c) as [P Q]; revert P Q;
               generalize (terminate a b c); intros
           end; simpl in *; repeat split; try congruence; auto.
Qed.

Lemma exec_ch c s s1 e1 :
  exec_step c s = Some (s1, e1) -> rc s1 = rc s /\ ec s1 = ec s /\ forallb quiet_ev e1 = true.
Proof.
  unfold exec_step, after_err, trav_ok, trav_skip. intro H. dm H; inv H; simpl; auto.
Qed.

Lemma recv_visit_ch d s s0 : recv_visit d s = Some s0 -> rc s0 = rc s /\ ec s0 = ec s.
Proof. unfold recv_visit. intro H. dm H; inv H; simpl; auto. Qed.
Lemma recv_err_ch d e s s0 : recv_err d e s = Some s0 -> rc s0 = rc s /\ ec s0 = ec s.
Proof. unfold recv_err. intro H. dm H; inv H; simpl; auto. Qed.
Lemma send_err_ch src s e s0 : send_err src s = Some (e, s0) -> rc s0 = rc s /\ ec s0 = ec s.
Proof.
  unfold send_err, trav_skip. intro H. dm H; inv H; simpl; auto; apply term2_ch.
Qed.

Lemma step_raw_ev s l s1 e1 :
  step_raw s l = Some (s1, e1) ->
  ev_ok (pcl s) (ecl s) e1 = true /\ ev_flags (pcl s) (ecl s) e1 = (pcl s1, ecl s1).
Proof.
  unfold pcl, ecl. destruct l; simpl; intro H.
  - inv H. simpl. auto.
  - inv H. simpl. auto.
  - inv H. simpl. auto.
  - inv H. simpl. auto.
  - inv H. simpl. auto.
  - inv H. simpl. auto.
  - dm H; inv H; fin.
  - dm H; inv H; fin.
  - dm H; try (inv H; destruct (term3_ch rel s) as [-> ->]; fin; fail).
    apply handle_ch in H as (A & B & C). simpl in A, B. rewrite A, B.
    destruct (quiet_ok (match rc s with RCExit => true | _ => false end) (match ec s with ECExit => true | _ => false end) _ C) as [-> ->]. auto.
  - dm H; inv H; fin.
  - apply exec_ch in H as (A & B & C). rewrite A, B.
    destruct (quiet_ok (match rc s with RCExit => true | _ => false end) (match ec s with ECExit => true | _ => false end) _ C) as [-> ->]. auto.
  - dm H; try (inv H; fin; fail).
    apply recv_visit_ch in Heqo as [A B]. inv H. simpl. rewrite A, B. auto.
  - dm H. inv H. apply send_err_ch in Heqo as [A B]. apply recv_err_ch in Heqo0 as [A' B'].
    simpl. rewrite A', B', A, B. auto.
  - dm H; inv H; fin.
  - dm H; inv H; fin.
Qed.

Lemma rc_norm_ev s s2 e2 :
  rc_norm s = (s2, e2) ->
  ev_ok (pcl s) (ecl s) e2 = true /\ ev_flags (pcl s) (ecl s) e2 = (pcl s2, ecl s2).
Proof. unfold rc_norm, pcl, ecl. intro H. dm H; inv H; fin. Qed.
Lemma ec_norm_ev s s2 e2 :
  ec_norm s = (s2, e2) ->
  ev_ok (pcl s) (ecl s) e2 = true /\ ev_flags (pcl s) (ecl s) e2 = (pcl s2, ecl s2).
Proof. unfold ec_norm, pcl, ecl. intro H. dm H; inv H; fin. Qed.

Lemma step_ev s l s1 e1 :
  step s l = Some (s1, e1) ->
  ev_ok (pcl s) (ecl s) e1 = true /\ ev_flags (pcl s) (ecl s) e1 = (pcl s1, ecl s1).
Proof.
  unfold step. destruct (step_raw s l) as [[sa ea]|] eqn:R; [|discriminate].
  unfold with_norm. destruct (rc_norm sa) as [sb eb] eqn:RN. destruct (ec_norm sb) as [sc ec'] eqn:EN.
  intro H. inv H.
  apply step_raw_ev in R as [R1 R2]. apply rc_norm_ev in RN as [N1 N2]. apply ec_norm_ev in EN as [M1 M2].
  rewrite !ev_ok_app, !ev_flags_app, R1, R2. simpl. rewrite N1, N2. simpl. rewrite M1, M2. auto.
Qed.

Theorem t1_run : forall ls s s' es,
  run s ls = Some (s', es) ->
  ev_ok (pcl s) (ecl s) es = true /\ ev_flags (pcl s) (ecl s) es = (pcl s', ecl s').
Proof.
  induction ls as [|l ls IH]; simpl; intros s s' es H.
  - inv H. simpl. auto.
  - destruct (step s l) as [[s1 e1]|] eqn:S; [|discriminate].
    destruct (run s1 ls) as [[s2 e2]|] eqn:R; [|discriminate]. inv H.
    apply step_ev in S as [S1 S2]. apply IH in R as [R1 R2].
    rewrite ev_ok_app, ev_flags_app, S1, S2. simpl. rewrite R1, R2. auto.
Qed.

(* the statement used by props/C04.v: every event history of every run from the initial state *)
Theorem c04_no_delivery_after_close : forall pl ls s es,
  run (init pl) ls = Some (s, es) -> ev_ok false false es = true.
Proof. intros pl ls s es H. apply t1_run in H as [H _]. exact H. Qed.
