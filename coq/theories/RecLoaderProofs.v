(* RecLoaderProofs.v — proofs about the requestor model (RecLoader.v, ReqExec.v): C01 (this file, part 1)
   and C02 (part 2). *)
From Coq Require Import List NArith Bool Lia.
From GS Require Import Base Ltree RecLoader ReqExec.
Import ListNotations.
Open Scope N_scope.

(* ------------------------------------------------------------------------------------------------
   a property of the oracle state that every load preserves holds at the end of every traversal
   ------------------------------------------------------------------------------------------------ *)
Lemma run_invariant {S} (ask : S -> path -> cid -> S * ans) (P : S -> Prop) :
  (forall s p c, P s -> P (fst (ask s p c))) ->
  (forall t s, P s -> P (fst (fst (run_tree ask t s)))) /\
  (forall l s, P s -> P (fst (fst (run_items ask l s)))).
Proof.
  intro H.
  apply (ltree_items_ind
           (fun t => forall s, P s -> P (fst (fst (run_tree ask t s))))
           (fun l => forall s, P s -> P (fst (fst (run_items ask l s))))).
  - intros p c body IH s Hs. rewrite run_tree_node. specialize (H s p c Hs).
    destruct (ask s p c) as [s1 a]. cbn [fst] in H. destruct a.
    + specialize (IH s1 H). destruct (run_items ask body s1) as [[s2 evs] ok]. exact IH.
    + exact H.
    + exact H.
  - intros s Hs. exact Hs.
  - intros v rest IH s Hs. rewrite run_items_visit. specialize (IH s Hs).
    destruct (run_items ask rest s) as [[s2 evs] ok]. exact IH.
  - intros t IHt rest IHr s Hs. rewrite run_items_child. specialize (IHt s Hs).
    destruct (run_tree ask t s) as [[s1 e1] ok1]. cbn [fst] in IHt. destruct ok1.
    + specialize (IHr s1 IHt). destruct (run_items ask rest s1) as [[s2 e2] ok2]. exact IHr.
    + exact IHt.
Qed.

(* ================================================================================================
   C01: whatever is delivered, every block handed to the traversal or written to the store is the
   block named by the link the traversal is asking for
   ================================================================================================ *)
Section C01.
  Variable hash : block -> cid.        (* the CID of a byte string (what the decoder computes) *)
  Variable below : path -> path -> bool.
  Variable responder : N -> list msg.
  Variable dnsfb : N.

  Definition keyed (m : list (cid * block)) : Prop := forall k b, In (k, b) m -> hash b = k.
  Definition item_ok (it : item) : Prop := match i_blk it with Some b => hash b = i_link it | None => True end.
  Definition lc_ok (l : lcstate) : Prop :=
    match l with LcNone => True | LcLinked it | LcUnlinked it | LcIsHead it => item_ok it end.
  Definition q_ok (q : rqueue) : Prop := Forall item_ok (q_items q) /\ lc_ok (q_lc q).
  Definition msg_ok (m : msg) : Prop := keyed (m_blocks m).

  Definition ev_ok (e : xev) : Prop :=
    match e with
    | XLoad p c (RData b _) => hash b = c
    | XStore c b => hash b = c
    | _ => True
    end.
  Definition inv (x : xstate) : Prop :=
    keyed (x_store x) /\ q_ok (r_q (x_rl x)) /\ Forall msg_ok (x_feed x) /\ Forall ev_ok (x_log x).

  Hypothesis responder_ok : forall skip, Forall msg_ok (responder skip).

  Lemma strip_ok it : item_ok (strip it).
  Proof. exact I. Qed.

  Lemma keyed_aput st c b : keyed st -> hash b = c -> keyed (aput c b st).
  Proof.
    intros Hk Hb k b' Hin. induction st as [|[q w] st IH]; simpl in Hin.
    - destruct Hin as [E|[]]. inversion E; subst. reflexivity.
    - destruct (N.eqb_spec c q).
      + destruct Hin as [E|Hin]; [inversion E; subst; reflexivity | apply (Hk k b'); now right].
      + destruct Hin as [E|Hin]; [apply (Hk k b'); now left |].
        apply IH; [|exact Hin]. intros k2 b2 H2. apply (Hk k2 b2). now right.
  Qed.

  Lemma ingest_items_ok md blocks dups : keyed blocks -> Forall item_ok (ingest_items md blocks dups).
  Proof.
    intro Hk. revert dups. induction md as [|[l a] md IH]; intro dups; simpl; [constructor|].
    destruct a; try (constructor; [exact I | apply IH]).
    destruct (existsb (N.eqb l) dups); constructor; try apply IH; try exact I.
    unfold item_ok. simpl. destruct (aget l blocks) as [b|] eqn:E; [|exact I].
    apply (Hk l b). now apply aget_in.
  Qed.

  Lemma enqueue_ok its q : Forall item_ok its -> q_ok q -> q_ok (rq_enqueue its q).
  Proof.
    intros Hi [Hq Hl]. unfold rq_enqueue. destruct its as [|i its]; [now split|].
    destruct (q_items q) eqn:Eq.
    - split; simpl; [exact Hi|]. destruct (q_lc q); simpl in *; auto.
    - destruct (q_detached q); [split; [try rewrite Eq; try rewrite Eq in Hq; exact Hq | exact Hl]|].
      split; [|exact Hl]. cbn [q_items]. apply Forall_app. try rewrite Eq in Hq. now split.
  Qed.

  Lemma consume_ok q h q' : q_ok q -> rq_consume q = Some (h, q') -> item_ok h /\ q_ok q'.
  Proof.
    intros [Hq Hl] E. unfold rq_consume in E. destruct (q_items q) as [|h0 t] eqn:Eq; [discriminate|].
    inversion E; subst. inversion Hq; subst. split; [assumption|]. split; simpl; [assumption | exact I].
  Qed.

  Lemma retry_last_ok q : q_ok q -> q_ok (rq_retry_last q).
  Proof.
    intros [Hq Hl]. unfold rq_retry_last. destruct (q_lc q) eqn:E; simpl in Hl.
    - split; [assumption | rewrite E; exact I].
    - split; simpl; [constructor; assumption | exact Hl].
    - split; simpl; [constructor; [assumption | constructor] | exact Hl].
    - split; [assumption | rewrite E; exact Hl].
  Qed.

  Lemma ingest_ok md blocks r : keyed blocks -> q_ok (r_q r) -> q_ok (r_q (ingest md blocks r)).
  Proof.
    intros Hk Hq. unfold ingest. destruct md; [exact Hq|]. destruct (r_open r); [|exact Hq].
    unfold set_q. cbn [r_q]. apply enqueue_ok; [now apply ingest_items_ok | exact Hq].
  Qed.

  Lemma set_online_false_q r : r_q (set_online false r) = r_q r.
  Proof. reflexivity. Qed.
  Lemma set_online_qok b r : q_ok (r_q r) -> q_ok (r_q (set_online b r)).
  Proof.
    intro H. unfold set_online. destruct (b && negb (r_open r)); [|exact H].
    simpl. split; [constructor | exact I].
  Qed.

  Lemma record_remote_q r p a : r_q (record_remote r p a) = r_q r.
  Proof. unfold record_remote. destruct (did_follow a); reflexivity. Qed.

  Lemma wait_loop_ok its q r r' w :
    q_ok q -> wait_loop its q r = (r', w) -> q_ok (r_q r').
  Proof.
    revert q r. induction its as [|h t IH]; intros q r Hq E; simpl in E.
    - inversion E; subst. exact Hq.
    - destruct (r_verifier r) as [v|]; [|inversion E; subst; exact Hq].
      destruct (vdone (r_record r) v); [inversion E; subst; exact Hq|].
      destruct (rq_consume q) as [[h0 q']|] eqn:Ec; [|inversion E; subst; exact Hq].
      destruct (consume_ok _ _ _ Hq Ec) as [_ Hq'].
      destruct (verify_next (r_record r) v (i_link h) (did_follow (i_act h))) as [e|v'].
      + inversion E; subst. exact Hq'.
      + eapply IH; [exact Hq' | exact E].
  Qed.

  Lemma still_unfollowed_q r p r' b : still_unfollowed below r p = (r', b) -> r_q r' = r_q r.
  Proof.
    unfold still_unfollowed. destruct (r_unfollowed r) as [|n0 l0]; intro E; [inversion E; reflexivity|].
    destruct (below (n0 :: l0) p); inversion E; reflexivity.
  Qed.

  (* what one attempt of blockReadOpener returns *)
  Definition out_ok (c : cid) (st st' : store) (o : option (bool * lresult)) : Prop :=
    match o with
    | Some (_, RData b true) => hash b = c /\ st' = st
    | Some (_, RData b false) => hash b = c /\ st' = aput c b st
    | _ => st' = st
    end.
  Lemma out_ok_local c p st u : keyed st -> out_ok c st st (Some (u, load_local st p c)).
  Proof.
    intro Hs. unfold load_local, out_ok. destruct (aget c st) as [b|] eqn:Eg; [|reflexivity].
    split; [|reflexivity]. apply (Hs c b). now apply aget_in.
  Qed.

  Lemma bro_inner_ok r st p c r' st' o :
    q_ok (r_q r) -> keyed st -> bro_inner below r st p c = (r', st', o) ->
    q_ok (r_q r') /\ keyed st' /\ out_ok c st st' o.
  Proof.
    intros Hq Hs E. unfold bro_inner in E. unfold wait_remote in E.
    destruct (wait_loop (q_items (r_q r)) (r_q r) r) as [r1 w] eqn:Ew.
    pose proof (wait_loop_ok _ _ _ _ _ Hq Ew) as Hq1.
    destruct w.
    - (* has data *)
      destruct (still_unfollowed below r1 p) as [r2 onp] eqn:Eu.
      pose proof (still_unfollowed_q _ _ _ _ Eu) as Eq2.
      destruct onp.
      + inversion E; subst r' st' o. rewrite Eq2. split; [exact Hq1|]. split; [exact Hs|]. now apply out_ok_local.
      + unfold load_remote in E. destruct (rq_consume (r_q r2)) as [[head q']|] eqn:Ec.
        * rewrite Eq2 in Ec. destruct (consume_ok _ _ _ Hq1 Ec) as [Hh Hq'].
          destruct (negb (i_link head =? c)) eqn:El.
          -- inversion E; subst r' st' o. simpl. split; [exact Hq'|]. split; [exact Hs | reflexivity].
          -- apply negb_false_iff in El. apply N.eqb_eq in El.
             destruct (i_blk head) as [b|] eqn:Eb.
             ++ inversion E; subst r' st' o. rewrite record_remote_q. simpl.
                unfold item_ok in Hh. rewrite Eb in Hh. rewrite El in Hh.
                split; [exact Hq'|]. split; [now apply keyed_aput | split; [exact Hh | reflexivity]].
             ++ inversion E; subst r' st' o. rewrite record_remote_q. unfold set_q; cbn [r_q].
                split; [exact Hq'|]. split; [exact Hs|]. now apply out_ok_local.
        * inversion E; subst r' st' o. rewrite Eq2. split; [exact Hq1|]. split; [exact Hs | reflexivity].
    - inversion E; subst r' st' o. split; [exact Hq1|]. split; [exact Hs|]. now apply out_ok_local.
    - inversion E; subst r' st' o. split; [exact Hq1|]. split; [exact Hs | reflexivity].
    - inversion E; subst r' st' o. split; [exact Hq1|]. split; [exact Hs | reflexivity].
  Qed.

  Lemma bro_try_ok r st p c r' st' o :
    q_ok (r_q r) -> keyed st -> bro_try below r st p c = (r', st', o) ->
    q_ok (r_q r') /\ keyed st' /\
    match o with
    | Some (RData b true) => hash b = c /\ st' = st
    | Some (RData b false) => hash b = c /\ st' = aput c b st
    | _ => st' = st
    end.
  Proof.
    intros Hq Hs E. unfold bro_try in E.
    destruct (bro_inner below r st p c) as [[r1 st1] o1] eqn:Ei.
    destruct (bro_inner_ok _ _ _ _ _ _ _ Hq Hs Ei) as (Hq1 & Hs1 & Ho). unfold out_ok in Ho.
    destruct o1 as [[used res]|]; inversion E; subst; simpl; auto.
  Qed.

  Lemma process_msg_inv m x : msg_ok m -> inv x -> inv (process_msg m x).
  Proof.
    intros Hm (Hs & Hq & Hf & Hl). unfold process_msg, inv. simpl. repeat split; auto.
    - set (rs := filter (for_us m) (m_resps m)).
      assert (Hfold : forall r0, q_ok (r_q r0) ->
                q_ok (r_q (fold_left (fun r rp => ingest (rs_md rp) (m_blocks m) r) rs r0))).
      { induction rs as [|rp rs IH]; intros r0 H0; simpl; [exact H0|]. apply IH. now apply ingest_ok. }
      destruct (existsb _ rs); [rewrite set_online_false_q|]; apply Hfold; exact Hq.
    - set (rs := filter (for_us m) (m_resps m)).
      assert (Hfold : forall r0, q_ok (r_q r0) ->
                q_ok (r_q (fold_left (fun r rp => ingest (rs_md rp) (m_blocks m) r) rs r0))).
      { induction rs as [|rp rs IH]; intros r0 H0; simpl; [exact H0|]. apply IH. now apply ingest_ok. }
      destruct (existsb _ rs); [rewrite set_online_false_q|]; apply Hfold; exact Hq.
    - constructor; [exact I | exact Hl].
  Qed.

  Lemma deliver_n_inv n x : inv x -> inv (deliver_n n x).
  Proof.
    revert x. induction n as [|n IH]; intros x Hx; simpl; [exact Hx|].
    destruct (x_feed x) as [|m f] eqn:Ef; [exact Hx|].
    apply IH. destruct Hx as (Hs & Hq & Hf & Hl). rewrite Ef in Hf. inversion Hf; subst.
    apply process_msg_inv; [assumption|].
    unfold inv. simpl. split; [exact Hs|]. split; [exact Hq|]. split; [assumption | exact Hl].
  Qed.

  (* the result of one complete BlockReadOpener call *)
  Definition res_ok (c : cid) (o : option lresult) : Prop :=
    match o with Some (RData b _) => hash b = c | _ => True end.

  Ltac mkinv := unfold inv; simpl; (split; [|split; [|split]]); auto.

  Lemma load_wait_inv feed x p c x' o :
    Forall msg_ok feed -> inv x -> load_wait below feed x p c = (x', o) -> inv x' /\ res_ok c o.
  Proof.
    revert x. induction feed as [|m f IH]; intros x Hfd Hx E; simpl in E;
      destruct (bro_try below (x_rl x) (x_store x) p c) as [[r1 st1] o1] eqn:Et;
      destruct Hx as (Hs & Hq & Hf & Hl);
      destruct (bro_try_ok _ _ _ _ _ _ _ Hq Hs Et) as (Hq1 & Hs1 & Ho).
    - destruct o1 as [res|]; inversion E; subst x' o.
      + split; [|destruct res as [b [|]|]; simpl; tauto].
        destruct res as [b [|]|]; mkinv.
        constructor; [simpl; tauto | exact Hl].
      + split; [|exact I]. mkinv.
    - destruct o1 as [res|].
      + inversion E; subst x' o. split; [|destruct res as [b [|]|]; simpl; tauto].
        destruct res as [b [|]|]; mkinv.
        constructor; [simpl; tauto | exact Hl].
      + inversion Hfd; subst. eapply IH; [assumption | | exact E].
        apply process_msg_inv; [assumption|]. mkinv.
  Qed.

  Lemma bro_start_q r : r_q (bro_start r) = r_q r.
  Proof. unfold bro_start. destruct (r_last r); reflexivity. Qed.

  Lemma load_call_inv x p c x' o : inv x -> load_call below x p c = (x', o) -> inv x' /\ res_ok c o.
  Proof.
    intros Hx E. unfold load_call in E. destruct (pop_sched x) as [n x0] eqn:Ep.
    assert (H0 : inv x0).
    { unfold pop_sched in Ep. destruct (x_sched x); inversion Ep; subst; exact Hx. }
    pose proof (deliver_n_inv n x0 H0) as H1.
    destruct H1 as (Hs & Hq & Hf & Hl).
    eapply load_wait_inv; [| | exact E].
    - simpl. exact Hf.
    - mkinv. rewrite bro_start_q. exact Hq.
  Qed.

  Lemma go_online_inv x : inv x -> inv (go_online responder dnsfb x).
  Proof.
    intros (Hs & Hq & Hf & Hl). unfold go_online. mkinv.
    - apply set_online_qok. exact Hq.
    - apply Forall_app. split; [exact Hf | apply responder_ok].
    - constructor; [exact I | exact Hl].
  Qed.

  Lemma retry_call_inv x x' o :
    inv x -> retry_call below x = (x', o) ->
    inv x' /\ match o, r_last (x_rl x) with Some (RData b _), Some a => hash b = a_link a | Some (RData _ _), None => False | _, _ => True end.
  Proof.
    intros Hx E. unfold retry_call, retry_prepare in E.
    destruct (r_last (x_rl x)) as [a|] eqn:El.
    - match type of E with load_call _ ?x1 _ _ = _ => assert (H1 : inv x1) end.
      { destruct Hx as (Hs & Hq & Hf & Hl). mkinv.
        destruct (a_remote a); simpl; [apply retry_last_ok|]; exact Hq. }
      destruct (load_call_inv _ _ _ _ _ H1 E) as [Hi Hr]. split; [exact Hi|].
      destruct o as [[b l|e l]|]; auto.
    - inversion E; subst. split; [|exact I]. destruct Hx as (Hs & Hq & Hf & Hl). mkinv.
  Qed.

  (* after a load call the most recent attempt is the link just loaded *)
  Lemma bro_try_last r st p c r' st' res :
    bro_try below r st p c = (r', st', Some res) -> exists a, r_last r' = Some a /\ a_link a = c.
  Proof.
    unfold bro_try. destruct (bro_inner below r st p c) as [[r1 st1] [[u x]|]]; intro E; inversion E; subst.
    simpl. eexists; split; reflexivity.
  Qed.
  Lemma process_msg_last m x : r_last (x_rl (process_msg m x)) = r_last (x_rl x).
  Proof.
    unfold process_msg. simpl.
    set (rs := filter (for_us m) (m_resps m)).
    assert (Hfold : forall r0, r_last (fold_left (fun r rp => ingest (rs_md rp) (m_blocks m) r) rs r0) = r_last r0).
    { induction rs as [|rp rs IH]; intro r0; simpl; [reflexivity|]. rewrite IH.
      unfold ingest. destruct (rs_md rp); [reflexivity|]. destruct (r_open r0); reflexivity. }
    destruct (existsb _ rs); [|apply Hfold].
    unfold set_online. simpl. apply Hfold.
  Qed.
  Lemma load_wait_last feed x p c x' res :
    load_wait below feed x p c = (x', Some res) -> exists a, r_last (x_rl x') = Some a /\ a_link a = c.
  Proof.
    revert x. induction feed as [|m f IH]; intros x E; simpl in E;
      destruct (bro_try below (x_rl x) (x_store x) p c) as [[r1 st1] o1] eqn:Et.
    - destruct o1 as [r0|]; inversion E; subst. destruct (bro_try_last _ _ _ _ _ _ _ Et) as (a & Ha & Hc).
      exists a. destruct res as [b [|]|]; simpl; auto.
    - destruct o1 as [r0|].
      + inversion E; subst. destruct (bro_try_last _ _ _ _ _ _ _ Et) as (a & Ha & Hc).
        exists a. destruct res as [b [|]|]; simpl; auto.
      + eapply IH. exact E.
  Qed.
  Lemma load_call_last x p c x' res :
    load_call below x p c = (x', Some res) -> exists a, r_last (x_rl x') = Some a /\ a_link a = c.
  Proof.
    unfold load_call. destruct (pop_sched x) as [n x0]. apply load_wait_last.
  Qed.

  Lemma exec_ask_inv x p c : inv x -> inv (fst (exec_ask below responder dnsfb x p c)).
  Proof.
    intro Hx. unfold exec_ask.
    destruct (load_call below x p c) as [x1 o1] eqn:E1.
    destruct (load_call_inv _ _ _ _ _ Hx E1) as [H1 R1].
    set (second := match o1 with
                   | Some (RErr (EMissing _ _) _) =>
                       if x_sent x1 then (x1, o1)
                       else if x_cancelled x1
                            then (x_with_rl x1 (set_online false (set_online true (x_rl x1))) (x_store x1), o1)
                            else retry_call below (go_online responder dnsfb x1)
                   | _ => (x1, o1)
                   end).
    assert (H2 : inv (fst second) /\ res_ok c (snd second)).
    { unfold second. destruct o1 as [[b l|e l]|]; try (split; assumption).
      destruct e; try (split; assumption).
      destruct (x_sent x1); [split; assumption|].
      destruct (x_cancelled x1).
      - split; [|exact I]. destruct H1 as (Hs & Hq & Hf & Hl). mkinv. try apply set_online_qok. try apply set_online_qok. exact Hq.
      - destruct (retry_call below (go_online responder dnsfb x1)) as [x2 o2] eqn:E2.
        destruct (retry_call_inv _ _ _ (go_online_inv _ H1) E2) as [Hi Hr]. split; [exact Hi|]. simpl.
        destruct (load_call_last _ _ _ _ _ E1) as (a & Ha & Hc).
        assert (Hl2 : r_last (x_rl (go_online responder dnsfb x1)) = Some a).
        { unfold go_online; simpl. unfold set_online. destruct (true && negb (r_open (x_rl x1))); simpl; exact Ha. }
        rewrite Hl2 in Hr. destruct o2 as [[b0 l0|e0 l0]|]; simpl; auto. congruence. }
    destruct second as [x2 o2]. destruct H2 as [H2 R2]. cbn [fst snd] in *.
    destruct o2 as [res|]; [|exact H2].
    assert (H3 : inv (x_logged x2 (XLoad p c res))).
    { destruct H2 as (Hs & Hq & Hf & Hl). mkinv.
      all: try (constructor; [|exact Hl]; destruct res; simpl in *; auto). }
    destruct res as [b l|e l].
    - exact H3.
    - destruct (x_cancelled (x_logged x2 (XLoad p c (RErr e l)))); [exact H3|].
      destruct e; exact H3.
  Qed.

  (* C01, main statement: for every plan, every local store whose blocks are keyed by their hash, every
     sequence of delivered messages whose blocks are keyed by their hash (the decoder's contract) and every
     schedule: every block handed to the traversal for link c hashes to c, every block committed under
     key c hashes to c, and the final store is keyed by hash. *)
  Theorem c01_main : forall t L feed sched,
    keyed L -> Forall msg_ok feed ->
    let x := fst (fst (run_request below responder dnsfb t L feed sched)) in
    Forall ev_ok (x_log x) /\ keyed (x_store x).
  Proof.
    intros t L feed sched HL Hf x.
    assert (Hi : inv (x_init L feed sched)).
    { unfold x_init. mkinv. split; [constructor | exact I]. }
    destruct (run_invariant (exec_ask below responder dnsfb) inv exec_ask_inv) as [Ht _].
    specialize (Ht t _ Hi). destruct Ht as (Hs & _ & _ & Hl). split; assumption.
  Qed.
End C01.

(* ================================================================================================
   C02, part: the repaired path-tracker comparison on well-formed plans
   ================================================================================================ *)
(* all link paths of a plan, root first, in traversal order *)
Fixpoint tpaths (t : ltree) : list path :=
  match t with LNode p _ body => p :: ipaths body end
with ipaths (l : items) : list path :=
  match l with INil => [] | IVisit _ r => ipaths r | IChild t r => tpaths t ++ ipaths r end.

Lemma proper_prefix_prefix a b : proper_prefix a b = true -> prefix a b = true.
Proof.
  revert b. induction a as [|x a IH]; intros [|y b] H; simpl in *; try discriminate; auto.
  apply andb_true_iff in H as [H1 H2]. rewrite H1. simpl. auto.
Qed.
Lemma prefix_trans a b c : prefix a b = true -> prefix b c = true -> prefix a c = true.
Proof.
  revert b c. induction a as [|x a IH]; intros [|y b] [|z c] H1 H2; simpl in *; try discriminate; auto.
  apply andb_true_iff in H1 as [E1 H1]. apply andb_true_iff in H2 as [E2 H2].
  apply N.eqb_eq in E1. apply N.eqb_eq in E2. subst. rewrite N.eqb_refl. simpl. eauto.
Qed.
Lemma proper_prefix_trans_l a b c : proper_prefix a b = true -> prefix b c = true -> proper_prefix a c = true.
Proof.
  revert b c. induction a as [|x a IH]; intros [|y b] [|z c] H1 H2; simpl in *; try discriminate; auto.
  apply andb_true_iff in H1 as [E1 H1]. apply andb_true_iff in H2 as [E2 H2].
  apply N.eqb_eq in E1. apply N.eqb_eq in E2. subst. rewrite N.eqb_refl. simpl. eauto.
Qed.
Lemma prefix_comparable a b c : prefix a c = true -> prefix b c = true -> prefix a b = true \/ prefix b a = true.
Proof.
  revert b c. induction a as [|x a IH]; intros b c H1 H2; [now left|].
  destruct b as [|y b]; [now right|]. destruct c as [|z c]; simpl in *; [discriminate|].
  apply andb_true_iff in H1 as [E1 H1]. apply andb_true_iff in H2 as [E2 H2].
  apply N.eqb_eq in E1. apply N.eqb_eq in E2. subst. rewrite N.eqb_refl. simpl. eauto.
Qed.
Lemma prefix_refl a : prefix a a = true.
Proof. induction a; simpl; auto. rewrite N.eqb_refl. auto. Qed.

(* (a) in a well-formed plan every link inside a subtree lies strictly below the subtree's root link *)
Lemma below_root :
  (forall t, wf_tree t = true -> Forall (fun q => prefix (tpath t) q = true) (tpaths t)) /\
  (forall l, wf_items l = true -> forall p, forallb (proper_prefix p) (child_paths l) = true ->
             Forall (fun q => proper_prefix p q = true) (ipaths l)).
Proof.
  apply (ltree_items_ind
    (fun t => wf_tree t = true -> Forall (fun q => prefix (tpath t) q = true) (tpaths t))
    (fun l => wf_items l = true -> forall p, forallb (proper_prefix p) (child_paths l) = true ->
              Forall (fun q => proper_prefix p q = true) (ipaths l))).
  - intros p c body IH H. simpl in H. apply andb_true_iff in H as [H Hw]. apply andb_true_iff in H as [Hb _].
    simpl. constructor; [apply prefix_refl|].
    specialize (IH Hw p Hb). eapply Forall_impl; [|exact IH]. intros q Hq. now apply proper_prefix_prefix.
  - intros _ p _. constructor.
  - intros v rest IH H p Hp. simpl in *. auto.
  - intros t IHt rest IHr H p Hp. simpl in H. apply andb_true_iff in H as [Ht Hr].
    simpl in Hp. apply andb_true_iff in Hp as [Hp1 Hp2]. simpl. apply Forall_app. split.
    + specialize (IHt Ht). eapply Forall_impl; [|exact IHt]. intros q Hq. simpl in Hq.
      eapply proper_prefix_trans_l; eassumption.
    + now apply IHr.
Qed.

(* (b) a link in an earlier sibling subtree is never a proper prefix of a link in a later sibling subtree *)
Lemma later_sibling_not_below t1 t2 n m :
  wf_tree t1 = true -> wf_tree t2 = true ->
  prefix (tpath t1) (tpath t2) = false -> prefix (tpath t2) (tpath t1) = false ->
  In n (tpaths t1) -> In m (tpaths t2) -> proper_prefix n m = false.
Proof.
  intros W1 W2 I1 I2 Hn Hm.
  destruct below_root as [B _].
  pose proof (proj1 (Forall_forall _ _) (B t1 W1) n Hn) as P1.
  pose proof (proj1 (Forall_forall _ _) (B t2 W2) m Hm) as P2.
  destruct (proper_prefix n m) eqn:E; [|reflexivity]. exfalso.
  apply proper_prefix_prefix in E.
  pose proof (prefix_trans _ _ _ P1 E) as P3.
  destruct (prefix_comparable _ _ _ P3 P2) as [H|H]; congruence.
Qed.

Lemma below_parent p c body :
  wf_tree (LNode p c body) = true -> Forall (fun q => proper_prefix p q = true) (ipaths body).
Proof.
  intro H. simpl in H. apply andb_true_iff in H as [H Hw]. apply andb_true_iff in H as [Hb _].
  destruct below_root as [_ B]. now apply B.
Qed.
