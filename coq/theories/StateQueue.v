(* StateQueue.v — C23: reported request state vs. task queue, both managers.

   One model covers the two actor loops (requestmanager/server.go, responsemanager/server.go), the
   task queue they share code for (taskqueue/taskqueue.go over go-peertaskqueue v0.8.3) and the
   worker goroutines (taskqueue.go worker + executor.ExecuteTask / queryexecutor.ExecuteTask).

   Everything the property talks about is *per request id*:
     - the table entry's reported state      (inProgressRequestStatuses / inProgressResponses)
     - the position of the id's task (topic) in the peer task queue: none / pending / active
       (peertracker.pendingTasks / activeTasks; PushTasks ignores a topic that is pending or active
        with the default merger, Remove only removes a pending topic, TasksDone only an active one)
     - the worker that holds the id's task, if any, and where it is in its two synchronous round
       trips into the actor loop (between PopTasks and the start handler; executing; between the
       end of execution and the finish handler)
     - responder only: a final status has been handed to the message queue and its sent/failed
       notification (-> TerminateRequest) is outstanding; a network error was recorded while running.
   so the state is an association list  id -> rec  plus the number of workers.  Every label is one
   atomic region of the code: one message handled by an actor loop (the handler's table update and
   its queue operations happen inside one handler, and PeerState is itself a message of the same
   loop, so a snapshot never sees half a handler), or one lock-protected queue operation of a worker.

   No proofs here (StateQueueProofs.v). *)
From Coq Require Import List NArith Bool.
From GS Require Import Base.
Import ListNotations.
Open Scope N_scope.

(* graphsync.RequestState: Queued, Running, Paused, CompletingSend (responder only) *)
Inductive rstate := Queued | Running | Paused | Completing.
(* position of the request's topic in the peer task queue *)
Inductive qpos := QNone | QPend | QAct.
(* what the finish handler will be told / do:
   OPaused    hooks.ErrPaused                                 -> state Paused
   OCancelled context-cancel error; on the requestor every non-pause end -> entry removed
   ONetErr    queryexecutor.ErrNetworkError                   -> entry removed
   OFinished  anything else (nil, load failure, hook error, cancelled by command): the executor
              has queued a final status in its closing transaction -> CompletingSend *)
Inductive outcome := OPaused | OCancelled | ONetErr | OFinished.
(* the worker holding this request's task *)
Inductive wphase := WNone | WPopped | WExec | WDone (o : outcome).

Record rec := mkrec {
  r_st : option rstate;   (* table entry (None = not tracked) *)
  r_q  : qpos;
  r_w  : wphase;
  r_nt : bool;            (* responder: final status handed to the message queue, notification outstanding *)
  r_ne : bool             (* responder: inProgressResponseStatus.networkError *)
}.
Definition rec0 := mkrec None QNone WNone false false.

Definition set_st x v := mkrec v (r_q x) (r_w x) (r_nt x) (r_ne x).
Definition set_q x v := mkrec (r_st x) v (r_w x) (r_nt x) (r_ne x).
Definition set_w x v := mkrec (r_st x) (r_q x) v (r_nt x) (r_ne x).
Definition set_nt x v := mkrec (r_st x) (r_q x) (r_w x) v (r_ne x).
Definition set_ne x v := mkrec (r_st x) (r_q x) (r_w x) (r_nt x) v.

(* ---- task queue operations on one topic (peertracker.go) ---- *)
(* PushTasksTruncated: skipped when the topic is active (taskHasMoreInfoThanActiveTasks is false with
   DefaultTaskMerger), merged (no new entry) when it is pending, otherwise a new pending task *)
Definition q_push x := match r_q x with QNone => set_q x QPend | _ => x end.
(* PeerTracker.Remove: only a pending topic *)
Definition q_remove x := match r_q x with QPend => set_q x QNone | _ => x end.
(* PeerTracker.TaskDone: only an active topic (one task per topic, see StateQueueProofs.inv) *)
Definition q_done x := match r_q x with QAct => set_q x QNone | _ => x end.

Inductive newres := NewOk | NewPaused | NewErr.        (* responder newRequest: hooks + prepareQuery *)
Inductive updres := UpdNone | UpdUnpause | UpdErr.     (* responder processUpdate on a paused response *)

Inductive rlabel :=
  (* --- requestmanager/server.go, one handled message each --- *)
  | QNew                 (* newRequest: entry Queued, PushTask *)
  | QEnd                 (* cancelRequest / processExtensionsForResponse hook error / processTerminations
                            failure status, all through cancelOnError: not Running -> terminateRequest
                            (entry deleted, NO queue operation), Running -> cancelFn only *)
  | QUnpause             (* unpause: Paused -> Queued, PushTask *)
  (* --- responsemanager/server.go --- *)
  | RNew (res : newres)  (* newRequest: CompletingSend | Paused | Queued + PushTask; overwrites the entry *)
  | RCancel              (* processRequests cancel: abortRequest(ContextCancelError) *)
  | RNetErr              (* CloseWithNetworkError: abortRequest(ErrNetworkError) *)
  | RAbort               (* CancelResponse: abortRequest(ErrCancelledByCommand) *)
  | RUpdate (u : updres) (* processUpdate *)
  | RUnpause             (* unpauseRequest *)
  | RTerminate           (* TerminateRequest from the message-queue notification of a final status *)
  (* --- workers (taskqueue.go worker, ExecuteTask) --- *)
  | WPop                 (* PopTasks under lockTopics: pending -> active; this worker now holds the task *)
  | WStart               (* getRequestTask / startTask handler *)
  | WEnd (o : outcome)   (* execution ends; for OFinished the closing transaction queued a final status *)
  | WFinish.             (* releaseRequestTask / finishTask handler *)

Definition is_running x := match r_st x with Some Running => true | _ => false end.

(* abortRequest, common part: `if ok { Remove }`, then the NotFound test, then the state test *)
Definition abort_with (x : rec) (completing_passes : bool) (not_running : rec -> rec) (running : rec -> rec) : rec :=
  match r_st x with
  | None => x
  | Some st =>
    let x1 := q_remove x in
    match st with
    | Completing => if completing_passes then not_running x1 else x1
    | Running => running x1
    | _ => not_running x1
    end
  end.

(* one label on the record of its own request id; None = the label is not enabled *)
Definition rstep (l : rlabel) (x : rec) : option rec :=
  match l with
  | QNew => Some (q_push (set_st x (Some Queued)))
  | QEnd =>
    match r_st x with
    | None => Some x
    | Some Running => Some x
    | Some _ => Some (set_st x None)
    end
  | QUnpause =>
    match r_st x with
    | Some Paused => Some (q_push (set_st x (Some Queued)))
    | _ => Some x
    end
  | RNew res =>
    (* a fresh inProgressResponseStatus: networkError false; prepareQuery's error path has queued a final status *)
    let x := set_ne x false in
    match res with
    | NewErr => Some (set_nt (set_st x (Some Completing)) true)
    | NewPaused => Some (set_st x (Some Paused))
    | NewOk => Some (set_st (q_push x) (Some Queued))
    end
  | RCancel => Some (abort_with x false (fun y => set_st y None) (fun y => y))
  | RNetErr => Some (abort_with x true (fun y => set_st y None) (fun y => set_ne y true))
  | RAbort => Some (abort_with x false (fun y => set_nt (set_st y (Some Completing)) true) (fun y => y))
  | RUpdate u =>
    match r_st x with
    | Some Paused =>
      match u with
      | UpdNone => Some x
      | UpdErr => Some (set_nt (set_st x (Some Completing)) true)
      | UpdUnpause => Some (q_push (set_st x (Some Queued)))
      end
    | _ => Some x
    end
  | RUnpause =>
    match r_st x with
    | Some Paused => Some (q_push (set_st x (Some Queued)))
    | _ => Some x
    end
  | RTerminate => if r_nt x then Some (set_nt (set_st x None) false) else None
  | WPop =>
    match r_q x, r_w x with
    | QPend, WNone => Some (set_w (set_q x QAct) WPopped)
    | _, _ => None
    end
  | WStart =>
    match r_w x with
    | WPopped =>
      match r_st x with
      | None | Some Completing => Some (set_w (q_done x) WNone)         (* Empty task: TaskDone at once *)
      | Some _ => Some (set_w (set_st x (Some Running)) WExec)
      end
    | _ => None
    end
  | WEnd o =>
    match r_w x with
    | WExec => Some (let y := set_w x (WDone o) in match o with OFinished => set_nt y true | _ => y end)
    | _ => None
    end
  | WFinish =>
    match r_w x with
    | WDone o =>
      let y := set_w (q_done x) WNone in            (* TaskDone first, in the same handler *)
      match r_st x with
      | None => Some y
      | Some _ =>
        if r_ne x && negb (match o with OCancelled => true | _ => false end) then Some (set_st y None)
        else match o with
             | OPaused => Some (set_st y (Some Paused))
             | OCancelled | ONetErr => Some (set_st y None)
             | OFinished => Some (set_st y (Some Completing))
             end
      end
    | _ => None
    end
  end.

(* ---- the whole node side ---- *)
Record state := mkstate { s_nw : N; s_recs : list (N * rec) }.
Definition init (nw : N) := mkstate nw [].
Definition get (s : state) (r : N) : rec := match aget r (s_recs s) with Some x => x | None => rec0 end.
Definition put (s : state) (r : N) (x : rec) : state := mkstate (s_nw s) (aput r x (s_recs s)).

Definition holds_task x := match r_w x with WNone => false | _ => true end.
Definition busy (s : state) : N := N.of_nat (length (filter (fun kv => holds_task (snd kv)) (s_recs s))).

Definition label := (N * rlabel)%type.
Definition is_pop (l : rlabel) := match l with WPop => true | _ => false end.
Definition is_new (l : rlabel) := match l with QNew | RNew _ => true | _ => false end.

(* a worker pop needs an idle worker *)
Definition step (s : state) (l : label) : option state :=
  let '(r, a) := l in
  if is_pop a && negb (busy s <? s_nw s) then None
  else match rstep a (get s r) with Some x => Some (put s r x) | None => None end.

Fixpoint run (s : state) (ls : list label) : option state :=
  match ls with
  | [] => Some s
  | l :: rest => match step s l with Some s' => run s' rest | None => None end
  end.

(* request ids are not re-used while the earlier use is still around: a new request's id has no entry,
   no task, no worker and no outstanding notification (requestor ids are fresh UUIDs; on the responder
   this is the guard whose complement is finding C23-F1) *)
Definition rec_eqb_fresh x :=
  match r_st x, r_q x, r_w x, r_nt x with None, QNone, WNone, false => true | _, _, _, _ => false end.
Definition gstep (s : state) (l : label) : option state :=
  if is_new (snd l) && negb (rec_eqb_fresh (get s (fst l))) then None else step s l.
Fixpoint grun (s : state) (ls : list label) : option state :=
  match ls with
  | [] => Some s
  | l :: rest => match gstep s l with Some s' => grun s' rest | None => None end
  end.

(* labels of the two sides *)
Definition req_label (a : rlabel) : bool :=
  match a with
  | QNew | QEnd | QUnpause | WPop | WStart | WFinish => true
  | WEnd OPaused | WEnd OCancelled => true
  | _ => false
  end.
Definition resp_label (a : rlabel) : bool :=
  match a with QNew | QEnd | QUnpause => false | _ => true end.

(* ---- what PeerState reports ---- *)
Record snapshot := mksnap { sn_states : list (N * rstate); sn_active : list N; sn_pending : list N }.

Definition snap_states (m : list (N * rec)) : list (N * rstate) :=
  flat_map (fun kv => match r_st (snd kv) with Some st => [(fst kv, st)] | None => [] end) m.
Definition is_act x := match r_q x with QAct => true | _ => false end.
Definition is_pend x := match r_q x with QPend => true | _ => false end.
Definition snap_of (s : state) : snapshot :=
  mksnap (snap_states (s_recs s))
         (map fst (filter (fun kv => is_act (snd kv)) (s_recs s)))
         (map fst (filter (fun kv => is_pend (snd kv)) (s_recs s))).

(* quiescent: no worker is inside one of its two handshakes with the actor loop *)
Definition quiet_rec x := match r_w x with WNone | WExec => true | _ => false end.
Definition quiescent (s : state) : bool := forallb (fun kv => quiet_rec (snd kv)) (s_recs s).
(* settled: additionally no worker pop is possible (every worker busy, or nothing pending) *)
Definition settled (s : state) : bool :=
  quiescent s && (negb (busy s <? s_nw s) || negb (existsb (fun kv => is_pend (snd kv)) (s_recs s))).

(* ---- peerstate.go Diagnostics(), transcribed ---- *)
Inductive dkind :=
  | DActiveNotRunning   (* "expected request with id %s in active task queue to be in running state, but was %s" *)
  | DActiveUntracked    (* "request with id %s in active task queue but appears to have no tracked state" *)
  | DPendingNotQueued   (* "expected request with id %s in pending task queue to be in queued state, but was %s" *)
  | DPendingUntracked   (* "request with id %s in pending task queue but appears to have no tracked state" *)
  | DRunningNotActive   (* "request with id %s in running state is not in the active task queue" *)
  | DQueuedNotPending.  (* "request with id %s in queued state is not in the pending task queue" *)

Definition rstate_eqb a b :=
  match a, b with Queued, Queued | Running, Running | Paused, Paused | Completing, Completing => true | _, _ => false end.
Definition mem (r : N) (l : list N) := existsb (N.eqb r) l.

Definition diagnostics (p : snapshot) : list (N * dkind) :=
  flat_map (fun id => match aget id (sn_states p) with
                      | Some st => if rstate_eqb st Running then [] else [(id, DActiveNotRunning)]
                      | None => [(id, DActiveUntracked)] end) (sn_active p)
  ++ flat_map (fun id => match aget id (sn_states p) with
                      | Some st => if rstate_eqb st Queued then [] else [(id, DPendingNotQueued)]
                      | None => [(id, DPendingUntracked)] end) (sn_pending p)
  ++ flat_map (fun kv => let '(id, st) := kv in
        (* matchedActiveQueue / matchedPendingQueue = the tracked ids seen in the respective list *)
        (if rstate_eqb st Running && negb (mem id (sn_active p)) then [(id, DRunningNotActive)] else [])
        ++ (if rstate_eqb st Queued && negb (mem id (sn_pending p)) then [(id, DQueuedNotPending)] else []))
      (sn_states p).

(* the C23 monitor on one observation at a quiescent point:
   responder: Diagnostics() empty; requestor: nothing but pending tasks of requests no longer tracked *)
Definition dkind_code (k : dkind) : N :=
  match k with DActiveNotRunning => 1 | DActiveUntracked => 2 | DPendingNotQueued => 3
             | DPendingUntracked => 4 | DRunningNotActive => 5 | DQueuedNotPending => 6 end.
Definition only_orphans (d : list (N * dkind)) : bool :=
  forallb (fun x => match snd x with DPendingUntracked => true | _ => false end) d.
Definition snap_ok (responder : bool) (p : snapshot) : bool :=
  if responder then match diagnostics p with [] => true | _ => false end
  else only_orphans (diagnostics p).
(* statistics (taskqueue.Stats: number of active / pending topics) once no request is tracked *)
Definition ended_ok (p : snapshot) : bool :=
  match sn_states p with [] => match sn_active p, sn_pending p with [], [] => true | _, _ => false end | _ => true end.

(* ================= acceptance of observed snapshots ================= *)
(* An observation of one side of one node: for each id (in the order of ids) the reported state and the
   queue position.  codes: state 0 absent 1 Queued 2 Running 3 Paused 4 CompletingSend;
   queue 0 none 1 pending 2 active (3 = listed in both, never produced by the model) *)
Definition st_code (o : option rstate) : N :=
  match o with None => 0 | Some Queued => 1 | Some Running => 2 | Some Paused => 3 | Some Completing => 4 end.
Definition q_code (q : qpos) : N := match q with QNone => 0 | QPend => 1 | QAct => 2 end.
Definition proj (ids : list N) (s : state) : list (N * N) :=
  map (fun r => let x := get s r in (st_code (r_st x), q_code (r_q x))) ids.

Definition outcome_eqb a b :=
  match a, b with OPaused, OPaused | OCancelled, OCancelled | ONetErr, ONetErr | OFinished, OFinished => true | _, _ => false end.
Definition wphase_eqb a b :=
  match a, b with
  | WNone, WNone | WPopped, WPopped | WExec, WExec => true
  | WDone o, WDone o' => outcome_eqb o o'
  | _, _ => false
  end.
Definition ost_eqb (a b : option rstate) := N.eqb (st_code a) (st_code b).
Definition rec_eqb x y :=
  ost_eqb (r_st x) (r_st y) && N.eqb (q_code (r_q x)) (q_code (r_q y)) && wphase_eqb (r_w x) (r_w y)
  && Bool.eqb (r_nt x) (r_nt y) && Bool.eqb (r_ne x) (r_ne y).
(* The records of different requests evolve independently except for the number of workers (a pop
   needs an idle worker), so acceptance is checked request by request -- the set of records one
   request can be in, closed under the labels permitted for it and the labels the node takes by
   itself -- plus the bound that couples them: never more tasks held than there are workers. *)
(* the acceptor applies a new-request label only to an id that is not in use (the guard of the
   theorems): the race of finding C23-F1 is then both a monitor failure and a mismatch *)
Definition rstep_g (l : rlabel) (x : rec) : option rec :=
  if is_new l && negb (rec_eqb_fresh x) then None else rstep l x.

Fixpoint rclosure (fuel : nat) (al : list rlabel) (seen front : list rec) : list rec :=
  match fuel with
  | O => seen
  | S f =>
    let succs := flat_map (fun x => flat_map (fun l => match rstep_g l x with Some y => [y] | None => [] end) al) front in
    let '(seen', front') :=
      fold_left (fun (acc : list rec * list rec) y =>
                   if existsb (rec_eqb y) (fst acc) then acc else (fst acc ++ [y], snd acc ++ [y]))
                succs (seen, []) in
    match front' with [] => seen' | _ => rclosure f al seen' front' end
  end.

(* labels the node takes by itself: worker pops, both handshakes, notification of a final status *)
Definition internal_rlabels : list rlabel := [WPop; WStart; WFinish; RTerminate].

Definition pair_eqb (a b : N * N) := N.eqb (fst a) (fst b) && N.eqb (snd a) (snd b).

(* one observation: the labels the history permits from now on (environment handlers and execution
   outcomes newly granted since the previous observation; permissions accumulate) and, per id in
   order, what was seen at the quiescent point *)
Record obs := mkobs { o_allowed : list label; o_seen : list (N * N) }.

Definition labels_of (r : N) (al : list label) : list rlabel :=
  flat_map (fun l => if N.eqb (fst l) r then [snd l] else []) al.

(* request number i (id r) alone; `al` = the labels permitted for r so far *)
Fixpoint accepts_req (r : N) (i : nat) (al : list rlabel) (cur : list rec) (tr : list obs) : bool :=
  match tr with
  | [] => true
  | o :: rest =>
    let al' := al ++ labels_of r (o_allowed o) in
    let reach := rclosure 500 al' cur cur in
    let want := nth i (o_seen o) (9, 9) in
    let next := filter (fun x => quiet_rec x && pair_eqb (st_code (r_st x), q_code (r_q x)) want) reach in
    match next with [] => false | _ => accepts_req r i al' next rest end
  end.

Fixpoint accepts_ids (ids : list N) (i : nat) (tr : list obs) : bool :=
  match ids with
  | [] => true
  | r :: rest => accepts_req r i internal_rlabels [rec0] tr && accepts_ids rest (S i) tr
  end.

(* at a quiescent point a held task is an active one *)
Definition within_workers (nw : N) (o : obs) : bool :=
  N.of_nat (length (filter (fun z => N.eqb (snd z) 2) (o_seen o))) <=? nw.

Definition accepts (nw : N) (ids : list N) (tr : list obs) : bool :=
  accepts_ids ids 0 tr && forallb (within_workers nw) tr
  && forallb (fun o => Nat.eqb (length (o_seen o)) (length ids)) tr.

(* ---- a case written by the driver: one side of one node over one history ---- *)
Definition snap_of_obs (ids : list N) (seen : list (N * N)) : snapshot :=
  let z := combine ids seen in
  mksnap (flat_map (fun x => match snd x with
                             | (1, _) => [(fst x, Queued)] | (2, _) => [(fst x, Running)]
                             | (3, _) => [(fst x, Paused)] | (4, _) => [(fst x, Completing)]
                             | _ => [] end) z)
         (map fst (filter (fun x => let q := snd (snd x) in N.eqb q 2 || N.eqb q 3) z))
         (map fst (filter (fun x => let q := snd (snd x) in N.eqb q 1 || N.eqb q 3) z)).

Record sqcase := mksq {
  c_resp : bool;                       (* responder side (incoming requests) or requestor side *)
  c_nw : N;                            (* workers (MaxInProgress...Requests) *)
  c_ids : list N;
  c_obs : list obs;                    (* the quiescent observations, in order *)
  c_diag : list (list (N * N));        (* Go's Diagnostics() at each observation: (id, kind code), sorted *)
  c_stats : list (N * N);              (* Stats() active, pending at each observation (node-wide for this side) *)
  c_final_ended : bool                 (* the last observation was taken after every request had ended *)
}.

Fixpoint insert_nn (x : N * N) (l : list (N * N)) : list (N * N) :=
  match l with
  | [] => [x]
  | y :: r => if (fst x <? fst y) || (N.eqb (fst x) (fst y) && (snd x <=? snd y)) then x :: l else y :: insert_nn x r
  end.
Definition sort_nn (l : list (N * N)) := fold_right insert_nn [] l.
Definition diag_codes (p : snapshot) : list (N * N) :=
  sort_nn (map (fun x => (fst x, dkind_code (snd x))) (diagnostics p)).

(* property monitor on the implementation's observations *)
Definition sq_monitor (c : sqcase) : bool :=
  forallb (fun o => snap_ok (c_resp c) (snap_of_obs (c_ids c) (o_seen o))) (c_obs c)
  && (if c_final_ended c
      then match rev (c_obs c), rev (c_stats c) with
           | o :: _, (a, p) :: _ =>
             let sn := snap_of_obs (c_ids c) (o_seen o) in
             ended_ok sn && (match sn_states sn with [] => N.eqb a 0 && N.eqb p 0 | _ => true end)
           | _, _ => true
           end
      else true).

(* model vs implementation: the snapshots are reachable in order through quiescent model states using
   only permitted labels; the transcribed Diagnostics() agrees with Go's on every observation; Stats()
   equals the number of active / pending topics *)
Definition sq_case_ok (c : sqcase) : bool :=
  accepts (c_nw c) (c_ids c) (c_obs c)
  && list_eqb (list_eqb pair_eqb)
       (map (fun o => diag_codes (snap_of_obs (c_ids c) (o_seen o))) (c_obs c)) (c_diag c)
  && list_eqb pair_eqb
       (map (fun o => let p := snap_of_obs (c_ids c) (o_seen o) in
                      (N.of_nat (length (sn_active p)), N.of_nat (length (sn_pending p)))) (c_obs c))
       (c_stats c).
