(* PauseProofs.v — C06, requestor side: pauses taken before anything was sent change nothing (all plans);
   witnesses of the defect repaired by cb5b48f and of the in-flight race (finding). *)
From Coq Require Import List NArith Bool Lia.
From GS Require Import Base Ltree RecLoader ReqExec RecLoaderProofs PauseExec.
From GS Require Traffic TrafficProofs.
Import ListNotations.
Open Scope N_scope.

Section Pause.
  Variable below : path -> path -> bool.
  Variable responder : N -> list msg.
  Variable dnsfb : N.

  (* while nothing has been sent the loader is offline and no message is waiting to be delivered *)
  Definition calm (x : xstate) : Prop := x_sent x = false -> r_open (x_rl x) = false /\ x_feed x = [].

  Lemma set_online_false_id r : r_open r = false -> set_online false r = r.
  Proof. intro H. destruct r. simpl in *. subst. reflexivity. Qed.

  Lemma pause_resume_calm n x : x_sent x = false -> calm x -> pause_resume n x = x.
  Proof.
    intros Hs Hc. destruct (Hc Hs) as [Ho Hf]. unfold pause_resume. rewrite set_online_false_id by exact Ho.
    rewrite Hf. destruct x. simpl in *. subst. destruct n; reflexivity.
  Qed.

  (* bookkeeping: the loader's open flag and the feed through the pieces of exec_ask *)
  Lemma bro_try_open r st p c r' st' o : bro_try below r st p c = (r', st', o) -> r_open r' = r_open r.
  Proof.
    unfold bro_try, bro_inner, wait_remote.
    assert (Hw : forall its q r0 r1 w, wait_loop its q r0 = (r1, w) -> r_open r1 = r_open r0).
    { induction its as [|h t IH]; intros q r0 r1 w E; simpl in E.
      - inversion E; reflexivity.
      - destruct (r_verifier r0) as [v|]; [|inversion E; reflexivity].
        destruct (vdone (r_record r0) v); [inversion E; reflexivity|].
        destruct (rq_consume q) as [[h0 q']|]; [|inversion E; reflexivity].
        destruct (verify_next (r_record r0) v (i_link h) (did_follow (i_act h))) as [e|v'].
        + inversion E; reflexivity.
        + apply IH in E. rewrite E. unfold record_remote. destruct (did_follow (i_act h)); reflexivity. }
    destruct (wait_loop (q_items (r_q r)) (r_q r) r) as [r1 w] eqn:Ew. apply Hw in Ew.
    destruct w.
    - destruct (still_unfollowed below r1 p) as [r2 onp] eqn:Eu.
      assert (E2 : r_open r2 = r_open r1).
      { unfold still_unfollowed in Eu. destruct (r_unfollowed r1) as [|a l]; [inversion Eu; reflexivity|].
        destruct (below (a :: l) p); inversion Eu; reflexivity. }
      destruct onp.
      + intro E; inversion E; subst; simpl; congruence.
      + unfold load_remote. destruct (rq_consume (r_q r2)) as [[head q']|].
        * destruct (negb (i_link head =? c)).
          -- intro E; inversion E; subst; simpl; congruence.
          -- destruct (i_blk head); intro E; inversion E; subst; simpl;
               unfold record_remote; destruct (did_follow (i_act head)); simpl; congruence.
        * intro E; inversion E; subst; simpl; congruence.
    - intro E; inversion E; subst; simpl; congruence.
    - intro E; inversion E; subst; simpl; congruence.
    - intro E; inversion E; subst; simpl; congruence.
  Qed.

  Lemma load_wait_nofeed x p c x' o :
    load_wait below [] x p c = (x', o) ->
    r_open (x_rl x') = r_open (x_rl x) /\ x_feed x' = [] /\ x_sent x' = x_sent x.
  Proof.
    simpl. destruct (bro_try below (x_rl x) (x_store x) p c) as [[r1 st1] o1] eqn:Et.
    apply bro_try_open in Et. destruct o1 as [res|]; intro E; inversion E; subst; simpl.
    - destruct res as [b [|]|]; simpl; auto.
    - auto.
  Qed.

  Lemma load_call_calm x p c x' o :
    x_sent x = false -> calm x -> load_call below x p c = (x', o) ->
    x_sent x' = false /\ r_open (x_rl x') = false /\ x_feed x' = [].
  Proof.
    intros Hs Hc E. destruct (Hc Hs) as [Ho Hf]. unfold load_call in E.
    destruct (pop_sched x) as [n x0] eqn:Ep.
    assert (H0 : x_sent x0 = false /\ r_open (x_rl x0) = false /\ x_feed x0 = []).
    { unfold pop_sched in Ep. destruct (x_sched x); inversion Ep; subst; simpl; auto. }
    destruct H0 as (Hs0 & Ho0 & Hf0).
    assert (Hd : deliver_n n x0 = x0) by (destruct n; simpl; [reflexivity | now rewrite Hf0]).
    rewrite Hd in E. simpl in E. rewrite Hf0 in E.
    apply load_wait_nofeed in E. simpl in E. destruct E as (E1 & E2 & E3).
    repeat split; try congruence.
    rewrite E1. unfold bro_start. destruct (r_last (x_rl x0)); simpl; exact Ho0.
  Qed.

  Lemma exec_sent x p c : x_sent x = true -> x_sent (fst (exec_ask below responder dnsfb x p c)) = true.
  Proof.
    intro Es. unfold exec_ask. destruct (load_call below x p c) as [x1 o1] eqn:E1.
    assert (S1 : x_sent x1 = true).
    { destruct (TrafficProofs.load_call_grows below _ _ _ _ _ E1) as (S & _). congruence. }
    assert (E2 : (match o1 with
                  | Some (RErr (EMissing _ _) _) =>
                      if x_sent x1 then (x1, o1)
                      else if x_cancelled x1
                           then (x_with_rl x1 (set_online false (set_online true (x_rl x1))) (x_store x1), o1)
                           else retry_call below (go_online responder dnsfb x1)
                  | _ => (x1, o1) end) = (x1, o1)).
    { destruct o1 as [[b l|e l]|]; try reflexivity. destruct e; try reflexivity. now rewrite S1. }
    rewrite E2. destruct o1 as [res|]; cbn [fst]; [|exact S1].
    destruct res as [b l|e l]; simpl; [exact S1|].
    destruct (x_cancelled x1); simpl; [exact S1|]. destruct e; simpl; exact S1.
  Qed.

  Lemma exec_ask_calm x p c : calm x -> calm (fst (exec_ask below responder dnsfb x p c)).
  Proof.
    intro Hc. unfold calm. destruct (x_sent x) eqn:Es.
    - intro Hn. rewrite (exec_sent x p c Es) in Hn. discriminate.
    - intro Hn. revert Hn. unfold exec_ask.
      destruct (load_call below x p c) as [x1 o1] eqn:E1.
      destruct (load_call_calm _ _ _ _ _ Es Hc E1) as (S1 & O1 & F1).
      destruct o1 as [[b l|e l]|]; simpl.
      + intros _. split; assumption.
      + destruct e; simpl; rewrite ?S1.
        * destruct (x_cancelled x1) eqn:Ec; simpl.
          -- rewrite Ec. simpl. intros _. split; [|exact F1]. first [reflexivity | unfold set_online; rewrite O1; reflexivity | unfold set_online; simpl; destruct (r_open (x_rl x1)); reflexivity].
          -- destruct (retry_call below (go_online responder dnsfb x1)) as [x2 o2] eqn:E2.
             assert (S2 : x_sent x2 = true).
             { destruct (TrafficProofs.retry_call_grows below _ _ _ E2) as (S & _). rewrite S. reflexivity. }
             destruct o2 as [[b0 l0|e0 l0]|]; simpl; try (rewrite S2; discriminate).
             destruct (x_cancelled x2); simpl; [rewrite S2; discriminate|].
             destruct e0; simpl; rewrite S2; discriminate.
        * destruct (x_cancelled x1); simpl; intros _; split; assumption.
        * destruct (x_cancelled x1); simpl; intros _; split; assumption.
      + intros _. split; assumption.
  Qed.

  (* pauses restricted to the time before the request is sent: the paused run IS the unpaused run *)
  Lemma pexec_noop ps p c :
    calm (p_x ps) ->
    let r := pexec_ask below responder dnsfb true ps p c in
    p_x (fst r) = fst (exec_ask below responder dnsfb (p_x ps) p c) /\
    snd r = snd (exec_ask below responder dnsfb (p_x ps) p c) /\ p_pauses (fst r) = p_pauses ps.
  Proof.
    intro Hc. unfold pexec_ask.
    pose proof (exec_ask_calm (p_x ps) p c Hc) as Hc'.
    destruct (exec_ask below responder dnsfb (p_x ps) p c) as [x' a]. cbn [fst snd] in *.
    destruct a; cbn [fst snd p_x p_pauses]; auto.
    destruct (find _ (p_pauses ps)) as [pa|]; cbn [fst snd p_x p_pauses]; auto.
    destruct (x_sent x') eqn:Es; cbn [andb fst snd p_x p_pauses]; auto.
    repeat split. now apply pause_resume_calm.
  Qed.

  Lemma paused_before_send_ind :
    (forall t ps, calm (p_x ps) ->
       let r := run_tree (pexec_ask below responder dnsfb true) t ps in
       let r0 := run_tree (exec_ask below responder dnsfb) t (p_x ps) in
       p_x (fst (fst r)) = fst (fst r0) /\ snd (fst r) = snd (fst r0) /\ snd r = snd r0 /\
       p_pauses (fst (fst r)) = p_pauses ps /\ calm (fst (fst r0))) /\
    (forall l ps, calm (p_x ps) ->
       let r := run_items (pexec_ask below responder dnsfb true) l ps in
       let r0 := run_items (exec_ask below responder dnsfb) l (p_x ps) in
       p_x (fst (fst r)) = fst (fst r0) /\ snd (fst r) = snd (fst r0) /\ snd r = snd r0 /\
       p_pauses (fst (fst r)) = p_pauses ps /\ calm (fst (fst r0))).
  Proof.
    apply (ltree_items_ind
      (fun t => forall ps, calm (p_x ps) ->
         let r := run_tree (pexec_ask below responder dnsfb true) t ps in
         let r0 := run_tree (exec_ask below responder dnsfb) t (p_x ps) in
         p_x (fst (fst r)) = fst (fst r0) /\ snd (fst r) = snd (fst r0) /\ snd r = snd r0 /\
         p_pauses (fst (fst r)) = p_pauses ps /\ calm (fst (fst r0)))
      (fun l => forall ps, calm (p_x ps) ->
         let r := run_items (pexec_ask below responder dnsfb true) l ps in
         let r0 := run_items (exec_ask below responder dnsfb) l (p_x ps) in
         p_x (fst (fst r)) = fst (fst r0) /\ snd (fst r) = snd (fst r0) /\ snd r = snd r0 /\
         p_pauses (fst (fst r)) = p_pauses ps /\ calm (fst (fst r0)))).
    - intros p c body IH ps Hc. rewrite !run_tree_node.
      destruct (pexec_noop ps p c Hc) as (E1 & E2 & E3). cbv zeta in E1, E2, E3.
      pose proof (exec_ask_calm (p_x ps) p c Hc) as Hc1.
      destruct (pexec_ask below responder dnsfb true ps p c) as [ps1 a1].
      destruct (exec_ask below responder dnsfb (p_x ps) p c) as [x1 a]. cbn [fst snd] in *. subst a1.
      destruct a.
      + assert (Hc1' : calm (p_x ps1)) by (rewrite E1; exact Hc1).
        specialize (IH ps1 Hc1'). cbv zeta in IH. rewrite E1 in IH.
        destruct (run_items (pexec_ask below responder dnsfb true) body ps1) as [[ps2 evs] ok].
        destruct (run_items (exec_ask below responder dnsfb) body x1) as [[x2 evs0] ok0].
        cbn [fst snd] in *. destruct IH as (A & B & C & D & F). (split; [|split; [|split; [|split]]]); auto; congruence.
      + cbn [fst snd]. (split; [|split; [|split; [|split]]]); auto.
      + cbn [fst snd]. (split; [|split; [|split; [|split]]]); auto.
    - intros ps Hc. cbn. (split; [|split; [|split; [|split]]]); auto.
    - intros v rest IH ps Hc. rewrite !run_items_visit. specialize (IH ps Hc). cbv zeta in IH.
      destruct (run_items (pexec_ask below responder dnsfb true) rest ps) as [[ps2 evs] ok].
      destruct (run_items (exec_ask below responder dnsfb) rest (p_x ps)) as [[x2 evs0] ok0].
      cbn [fst snd] in *. destruct IH as (A & B & C & D & F). (split; [|split; [|split; [|split]]]); auto; congruence.
    - intros t IHt rest IHr ps Hc. rewrite !run_items_child. specialize (IHt ps Hc). cbv zeta in IHt.
      destruct (run_tree (pexec_ask below responder dnsfb true) t ps) as [[ps1 e1] ok1].
      destruct (run_tree (exec_ask below responder dnsfb) t (p_x ps)) as [[x1 e0] ok0].
      cbn [fst snd] in IHt. destruct IHt as (A & B & C & D & F). subst e1 ok1.
      destruct ok0.
      + assert (Hc1 : calm (p_x ps1)) by (rewrite A; exact F).
        specialize (IHr ps1 Hc1). cbv zeta in IHr. rewrite A in IHr.
        destruct (run_items (pexec_ask below responder dnsfb true) rest ps1) as [[ps2 e2] ok2].
        destruct (run_items (exec_ask below responder dnsfb) rest x1) as [[x2 e3] ok3].
        cbn [fst snd] in *. destruct IHr as (A2 & B2 & C2 & D2 & F2). (split; [|split; [|split; [|split]]]); auto; congruence.
      + cbn [fst snd]. (split; [|split; [|split; [|split]]]); auto.
  Qed.

  Theorem c06_pause_before_send t L sched pauses :
    let r := run_paused below responder dnsfb true t L sched pauses in
    let r0 := run_request below responder dnsfb t L [] sched in
    p_x (fst (fst r)) = fst (fst r0) /\ snd (fst r) = snd (fst r0) /\ snd r = snd r0.
  Proof.
    destruct paused_before_send_ind as [Ht _].
    assert (Hc : calm (p_x {| p_x := x_init L [] sched; p_pauses := pauses |})).
    { intros _. simpl. auto. }
    destruct (Ht t _ Hc) as (A & B & C & _). auto.
  Qed.
End Pause.
