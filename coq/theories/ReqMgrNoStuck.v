(* ReqMgrNoStuck.v — deadlock freedom of the request-manager LTS (C04, liveness half 1).
   For every reachable state whose returned channels are not both closed, some non-environment label
   (loop, worker, executor, traverser, rendezvous, collector, or the caller reading) is enabled, unless the
   request is legitimately waiting: for the responder (running, online, nothing queued, not cancelled) or
   for an unpause (paused, not cancelled).
   Method: a list of (abstract condition, label) pairs; each condition, evaluated on the abstraction of a
   concrete state, implies that its label is enabled there (proved one by one); and on the finite set V x
   collector states, "no condition holds" implies closed or waiting (computed). *)
From Coq Require Import List NArith Bool Arith Lia.
From GS Require Import Base ReqMgr ReqMgrProofs ReqMgrLive ReqMgrCC ReqMgrInv ReqMgrAbs ReqMgrAbsK ReqMgrAbsV ReqMgrInvK.
Import ListNotations.

Record cst := { c_rc : rc_pc; c_rb : bool; c_ec : ec_pc; c_eb : bool }.
Definition cabs (s : st) : cst :=
  Build_cst (rc s) (negb (Nat.eqb (rbuf s) 0)) (ec s) (match ebuf s with [] => false | _ => true end).
Notation aKc := (aK 0%N nk_c).

Definition is_RCRun r := match r with RCRun _ => true | _ => false end.
Definition is_ECRun e := match e with ECRun _ => true | _ => false end.
Definition err_recv_ec (c : cst) := match c_ec c with ECRun true => true | _ => false end.
Definition err_recv_rc (c : cst) := match c_rc c with RCDrain _ _ true => true | _ => false end.
Definition trav_live (k : ast) := match a_trav k with ATLoader | ATRun _ => true | _ => false end.
Definition lpc_idle (k : ast) := match a_lpc k with ALIdle => true | _ => false end.

Definition wits : list ((ast -> cst -> bool) * label) :=
  [ (fun k c => match c_ec c with ECSendCC _ => true | _ => false end, LCallerRecvE);
    (fun k c => is_ECRun (c_ec c) && c_eb c, LCallerRecvE);
    (fun k c => is_RCRun (c_rc c) && c_rb c, LCallerRecvP);
    (fun k c => is_RCRun (c_rc c) && a_cctx k, LRC RCtx);
    (fun k c => match c_rc c with RCRun true => a_iclosed k | _ => false end, LRC RSeeClosedP);
    (fun k c => match c_rc c with RCDrain false _ _ => true | _ => false end, LRC RSendCancel);
    (fun k c => match c_rc c with RCDrain _ true _ => a_iclosed k | _ => false end, LRC RSeeClosedP);
    (fun k c => match c_rc c with RCDrain _ _ true => a_iclosed k | _ => false end, LRC RSeeClosedE);
    (fun k c => is_ECRun (c_ec c) && a_cctx k, LEC ECtx);
    (fun k c => match c_ec c with ECRun true => a_iclosed k | _ => false end, LEC ESeeClosed);
    (fun k c => match a_lpc k, a_trav k with ALShutdown _, ATDone _ => true | _, _ => false end, LLoop);
    (fun k c => a_tctx k && trav_live k, LTrav TCFail DstEC);
    (fun k c => match a_lpc k with ALTermSend _ _ => has_ent k && err_recv_ec c | _ => false end, LErr SrcLoop DstEC);
    (fun k c => match a_lpc k with ALTermSend _ _ => has_ent k && err_recv_rc c | _ => false end, LErr SrcLoop DstRC);
    (fun k c => lpc_idle k && match a_mb k with
                              | QCons m r => match a_handle_int m (t_mb r k) with Some _ => true | None => false end
                              | QNil => false end, LLoop);
    (fun k c => a_tq k && match a_xpc k with AXIdle => true | _ => false end, LWorker);
    (fun k c => match a_xpc k with AXLocal _ _ => true | _ => false end, LExec CLocOk);
    (fun k c => match a_xpc k with AXPopped | AXGoOnline _ | AXHooks _ _ | AXFin _ | AXRelease _ => true | _ => false end, LExec CLoc);
    (fun k c => match a_xpc k, a_trav k with AXTop _, ATLoader | AXTop _, ATDone _ => true | _, _ => false end, LExec CLoc);
    (fun k c => match a_xpc k with AXLoad _ => a_rq k | _ => false end, LExec CConsume);
    (fun k c => match a_xpc k with AXLoad _ => negb (a_ropen k) | _ => false end, LExec CLoc);
    (fun k c => match a_xpc k with AXSendErr _ _ | AXFinSend _ => a_rctx k | _ => false end, LExec CLoc);
    (fun k c => match a_xpc k with AXSendErr _ _ => err_recv_ec c | _ => false end, LErr SrcExec DstEC);
    (fun k c => match a_xpc k with AXSendErr _ _ => err_recv_rc c | _ => false end, LErr SrcExec DstRC);
    (fun k c => match a_xpc k with AXFinSend _ => err_recv_ec c | _ => false end, LErr SrcFin DstEC);
    (fun k c => match a_xpc k with AXFinSend _ => err_recv_rc c | _ => false end, LErr SrcFin DstRC);
    (fun k c => negb (a_tctx k) && match a_trav k with ATRun false => true | _ => false end, LTrav TCNext DstEC);
    (fun k c => negb (a_tctx k) && match a_trav k, c_rc c with ATRun true, RCRun true => true | _, _ => false end, LTrav TCVisit DstEC);
    (fun k c => negb (a_tctx k) && match a_trav k, c_rc c with ATRun true, RCDrain _ true _ => true | _, _ => false end, LTrav TCVisit DstRC) ].

Definition nowit (k : ast) (c : cst) : bool := forallb (fun w => negb (fst w k c)) wits.

(* legitimately waiting *)
Definition waitA (k : ast) : bool :=
  negb (a_cctx k) && negb (a_rctx k) &&
  (match est k with Some Paused => true | _ => false end ||
   (is_running k && match a_xpc k with AXLoad _ => negb (a_rq k) && a_ropen k | _ => false end)).
Definition closedC (c : cst) : bool := match c_rc c, c_ec c with RCExit, ECExit => true | _, _ => false end.

Definition nfb (c : cst) : bool :=
  match c_rc c with RCRun false => c_rb c | RCDrain true false false => false | _ => true end &&
  match c_ec c with ECRun false => c_eb c | _ => true end.
Definition rc_eqb (a b : rc_pc) : bool :=
  match a, b with
  | RCRun x, RCRun y => Bool.eqb x y
  | RCDrain x y z, RCDrain x' y' z' => Bool.eqb x x' && Bool.eqb y y' && Bool.eqb z z'
  | RCExit, RCExit => true | _, _ => false end.
Definition pair_ok (k : ast) (c : cst) : bool :=
  cinvb (a_cctx k) (a_iclosed k) (c_rc c) (c_ec c) && nfb c && rc_eqb (summ (c_rc c)) (a_rc k).

Definition all_rc : list rc_pc :=
  [RCRun true; RCRun false; RCExit] ++
  flat_map (fun x => flat_map (fun y => [RCDrain x y true; RCDrain x y false]) [true; false]) [true; false].
Definition all_ec : list ec_pc := [ECRun true; ECRun false; ECSendCC true; ECSendCC false; ECExit].
Definition all_cst : list cst :=
  flat_map (fun r => flat_map (fun e => [Build_cst r true e true; Build_cst r true e false; Build_cst r false e true; Build_cst r false e false]) all_ec) all_rc.

Definition table_ok : bool :=
  forallb (fun k => forallb (fun c => implb (pair_ok k c && nowit k c) (closedC c || waitA k)) all_cst) V_elems.
Lemma table_ok_true : table_ok = true.
Proof. vm_compute. reflexivity. Qed.

(* ---------- each condition enables its label on the concrete state ---------- *)
Definition wsound (w : (ast -> cst -> bool) * label) : Prop :=
  forall s, fst w (aKc s) (cabs s) = true -> enabled s (snd w) = true.

Lemma handle_env_some m s : env_msg m = true -> handle m s <> None.
Proof.
  intro E. unfold handle. destruct m as [[|]|r| | | |]; try discriminate E; destruct (ent s) as [e|]; try discriminate;
    try (destruct (e_state e); discriminate).
  destruct (r_hookerr r); [discriminate|]. destruct (r_status r); discriminate.
Qed.
Lemma handle_int_some m s :
  env_msg m = false -> a_handle_int (imsg_of m) (aKc s) <> None -> handle m s <> None.
Proof.
  intros E H. unfold handle. unfold a_handle_int in H. change (a_ent (aKc s)) with (aent 0%N nk_c (ent s)) in H.
  change (a_xpc (aKc s)) with (axpc' 0%N nk_c (xpc s)) in H.
  destruct m as [[|]|r| |p| |]; try discriminate E; simpl in H; destruct (ent s) as [e|]; simpl in H; try discriminate;
    destruct (xpc s); simpl in H; try discriminate; try (exfalso; apply H; reflexivity);
    try (destruct w; simpl in H; exfalso; apply H; reflexivity).
  destruct (p && negb (rctx s)); discriminate.
Qed.

Ltac st0 := let s := fresh "s" in intros s H; rewrite enabled_raw; cbn [snd step_raw];
  unfold cabs, is_ECRun, is_RCRun, err_recv_ec, err_recv_rc, trav_live, has_ent, lpc_idle in H; cbn [fst c_rc c_rb c_ec c_eb] in H.
Ltac bs := repeat match goal with b : bool |- _ => destruct b end; try reflexivity.
Ltac sp H := repeat match type of H with (_ && _) = true => let H' := fresh "A" in apply andb_true_iff in H as [H' H] end.

Lemma w01 : wsound (fun k c => match c_ec c with ECSendCC _ => true | _ => false end, LCallerRecvE).
Proof. st0. destruct (ec s) as [?|[|]|] eqn:E; try discriminate H; destruct (ebuf s); reflexivity. Qed.
Lemma w02 : wsound (fun k c => is_ECRun (c_ec c) && c_eb c, LCallerRecvE).
Proof. st0. sp H. destruct (ec s) eqn:E; try discriminate A. destruct (ebuf s); [discriminate H | reflexivity]. Qed.
Lemma w03 : wsound (fun k c => is_RCRun (c_rc c) && c_rb c, LCallerRecvP).
Proof. st0. sp H. destruct (rc s) eqn:E; try discriminate A. destruct (rbuf s); [discriminate H | reflexivity]. Qed.
Lemma w04 : wsound (fun k c => is_RCRun (c_rc c) && a_cctx k, LRC RCtx).
Proof. st0. sp H. change (cctx s = true) in H. destruct (rc s) as [[|]| |] eqn:E; try discriminate A; rewrite H; reflexivity. Qed.
Lemma w05 : wsound (fun k c => match c_rc c with RCRun true => a_iclosed k | _ => false end, LRC RSeeClosedP).
Proof. st0. destruct (rc s) as [[|]| |] eqn:E; try discriminate H. change (iclosed s = true) in H. rewrite H. reflexivity. Qed.
Lemma w06 : wsound (fun k c => match c_rc c with RCDrain false _ _ => true | _ => false end, LRC RSendCancel).
Proof. st0. destruct (rc s) as [|[|] ? ?|] eqn:E; try discriminate H. bs. Qed.
Lemma w07 : wsound (fun k c => match c_rc c with RCDrain _ true _ => a_iclosed k | _ => false end, LRC RSeeClosedP).
Proof. st0. destruct (rc s) as [|? [|] ?|] eqn:E; try discriminate H. change (iclosed s = true) in H. rewrite H. bs. Qed.
Lemma w08 : wsound (fun k c => match c_rc c with RCDrain _ _ true => a_iclosed k | _ => false end, LRC RSeeClosedE).
Proof. st0. destruct (rc s) as [|? ? [|]|] eqn:E; try discriminate H. change (iclosed s = true) in H. rewrite H. bs. Qed.
Lemma w09 : wsound (fun k c => is_ECRun (c_ec c) && a_cctx k, LEC ECtx).
Proof. st0. sp H. change (cctx s = true) in H. destruct (ec s) eqn:E; try discriminate A. rewrite H. bs. Qed.
Lemma w10 : wsound (fun k c => match c_ec c with ECRun true => a_iclosed k | _ => false end, LEC ESeeClosed).
Proof. st0. destruct (ec s) as [[|]| |] eqn:E; try discriminate H. change (iclosed s = true) in H. rewrite H. reflexivity. Qed.

(* ---------- loop / executor / traverser side ---------- *)
Ltac kf H s := change (a_lpc (aKc s)) with (alpc' 0%N nk_c (lpc s)) in H; change (a_trav (aKc s)) with (atrav' (trav s)) in H;
  change (a_xpc (aKc s)) with (axpc' 0%N nk_c (xpc s)) in H; change (a_ent (aKc s)) with (aent 0%N nk_c (ent s)) in H;
  change (a_tctx (aKc s)) with (tctx s) in H; change (a_rctx (aKc s)) with (rctx s) in H; change (a_tq (aKc s)) with (tq s) in H;
  change (a_rq (aKc s)) with (negb (Nat.eqb (rq s) 0)) in H; change (a_ropen (aKc s)) with (ropen s) in H;
  change (a_mb (aKc s)) with (imb (mbox s)) in H.

Lemma w11 : wsound (fun k c => match a_lpc k, a_trav k with ALShutdown _, ATDone _ => true | _, _ => false end, LLoop).
Proof. st0. kf H s. destruct (lpc s) eqn:L; try discriminate H. destruct (trav s) eqn:T; try discriminate H. reflexivity. Qed.
Lemma w12 : wsound (fun k c => a_tctx k && trav_live k, LTrav TCFail DstEC).
Proof. st0. sp H. kf H s. kf A s. rewrite A. destruct (trav s) eqn:T; try discriminate H; reflexivity. Qed.
Lemma w13 : wsound (fun k c => match a_lpc k with ALTermSend _ _ => has_ent k && err_recv_ec c | _ => false end, LErr SrcLoop DstEC).
Proof.
  st0. kf H s. destruct (lpc s) eqn:L; try discriminate H. cbn in H. sp H. destruct (ent s) eqn:E; try discriminate A.
  unfold send_err. rewrite L, E. unfold recv_err. cbn in H.
  assert (ec (term2 (e_started e0) rel s) = ec s) as Q by apply term2_ch. rewrite Q.
  destruct (ec s) as [[|]| |]; try discriminate H. reflexivity.
Qed.
Lemma w14 : wsound (fun k c => match a_lpc k with ALTermSend _ _ => has_ent k && err_recv_rc c | _ => false end, LErr SrcLoop DstRC).
Proof.
  st0. kf H s. destruct (lpc s) eqn:L; try discriminate H. cbn in H. sp H. destruct (ent s) eqn:E; try discriminate A.
  unfold send_err. rewrite L, E. unfold recv_err. cbn in H.
  assert (rc (term2 (e_started e0) rel s) = rc s) as Q by apply term2_ch. rewrite Q.
  destruct (rc s) as [|? ? [|]|]; try discriminate H. reflexivity.
Qed.

Lemma w15 : wsound (fun k c => lpc_idle k && match a_mb k with
                              | QCons m r => match a_handle_int m (t_mb r k) with Some _ => true | None => false end
                              | QNil => false end, LLoop).
Proof.
  st0. sp H. kf H s. kf A s. destruct (lpc s) eqn:L; try discriminate A.
  destruct (mbox s) as [|m r] eqn:M; [discriminate H|].
  destruct (env_msg m) eqn:Em.
  - pose proof (handle_env_some m (s_mbox r s) Em) as N. destruct (handle m (s_mbox r s)); [reflexivity | contradiction].
  - assert (imb (m :: r) = QCons (imsg_of m) (imb r)) as Q by (destruct m as [[|]| | | | |]; try discriminate Em; reflexivity).
    rewrite Q in H. change (t_mb (imb r) (aKc s)) with (aKc (s_mbox r s)) in H.
    assert (a_handle_int (imsg_of m) (aKc (s_mbox r s)) <> None) as N by (destruct (a_handle_int (imsg_of m) (aKc (s_mbox r s))); [discriminate | discriminate H]).
    pose proof (handle_int_some m (s_mbox r s) Em N) as N'. destruct (handle m (s_mbox r s)); [reflexivity | contradiction].
Qed.
Lemma w16 : wsound (fun k c => a_tq k && match a_xpc k with AXIdle => true | _ => false end, LWorker).
Proof. st0. sp H. kf H s. kf A s. rewrite A. destruct (xpc s) eqn:X; try discriminate H; try reflexivity. destruct w; discriminate H. Qed.
Lemma w17 : wsound (fun k c => match a_xpc k with AXLocal _ _ => true | _ => false end, LExec CLocOk).
Proof. st0. kf H s. unfold exec_step. destruct (xpc s) eqn:X; try discriminate H; try reflexivity. destruct w; discriminate H. Qed.
Lemma w18 : wsound (fun k c => match a_xpc k with AXPopped | AXGoOnline _ | AXHooks _ _ | AXFin _ | AXRelease _ => true | _ => false end, LExec CLoc).
Proof.
  st0. kf H s. unfold exec_step. destruct (xpc s) eqn:X; try discriminate H; try reflexivity.
  - destruct (rctx s); reflexivity.
  - rewrite andb_false_r. destruct (ptok s); reflexivity.
  - destruct w; reflexivity.
Qed.
Lemma w19 : wsound (fun k c => match a_xpc k, a_trav k with AXTop _, ATLoader | AXTop _, ATDone _ => true | _, _ => false end, LExec CLoc).
Proof.
  st0. kf H s. unfold exec_step. destruct (xpc s) eqn:X; try discriminate H; try (destruct w; discriminate H).
  destruct (trav s) as [| | |[|]] eqn:T; try discriminate H; reflexivity.
Qed.
Lemma w20 : wsound (fun k c => match a_xpc k with AXLoad _ => a_rq k | _ => false end, LExec CConsume).
Proof.
  st0. kf H s. unfold exec_step. destruct (xpc s) eqn:X; try discriminate H; try (destruct w; discriminate H).
  cbn in H. rewrite H. reflexivity.
Qed.
Lemma w21 : wsound (fun k c => match a_xpc k with AXLoad _ => negb (a_ropen k) | _ => false end, LExec CLoc).
Proof.
  st0. kf H s. unfold exec_step. destruct (xpc s) eqn:X; try discriminate H; try (destruct w; discriminate H).
  cbn in H. rewrite H. rewrite orb_true_r. reflexivity.
Qed.
Lemma w22 : wsound (fun k c => match a_xpc k with AXSendErr _ _ | AXFinSend _ => a_rctx k | _ => false end, LExec CLoc).
Proof.
  st0. kf H s. unfold exec_step. destruct (xpc s) eqn:X; try discriminate H; try (destruct w; discriminate H);
    cbn in H; rewrite H; reflexivity.
Qed.

Lemma err_rendezvous src d s :
  send_err src s <> None ->
  (match d with DstEC => ec s = ECRun true | DstRC => exists a b, rc s = RCDrain a b true end) ->
  match (match send_err src s with
         | Some (e, s1) => match recv_err d e s1 with Some s2 => Some (s2, @nil ev) | None => None end
         | None => None end) with Some _ => true | None => false end = true.
Proof.
  intros N R. destruct (send_err src s) as [[e s1]|] eqn:SE; [|contradiction].
  apply send_err_ch in SE as [R1 R2]. unfold recv_err. destruct d.
  - rewrite R2, R. reflexivity.
  - destruct R as (a & b & R). rewrite R1, R. reflexivity.
Qed.
Lemma w23 : wsound (fun k c => match a_xpc k with AXSendErr _ _ => err_recv_ec c | _ => false end, LErr SrcExec DstEC).
Proof.
  st0. kf H s. destruct (xpc s) eqn:X; try discriminate H; try (destruct w; discriminate H). cbn in H.
  apply err_rendezvous; [unfold send_err; rewrite X; discriminate|]. destruct (ec s) as [[|]| |]; try discriminate H; reflexivity.
Qed.
Lemma w24 : wsound (fun k c => match a_xpc k with AXSendErr _ _ => err_recv_rc c | _ => false end, LErr SrcExec DstRC).
Proof.
  st0. kf H s. destruct (xpc s) eqn:X; try discriminate H; try (destruct w; discriminate H). cbn in H.
  apply err_rendezvous; [unfold send_err; rewrite X; discriminate|]. destruct (rc s) as [|? ? [|]|]; try discriminate H; eauto.
Qed.
Lemma w25 : wsound (fun k c => match a_xpc k with AXFinSend _ => err_recv_ec c | _ => false end, LErr SrcFin DstEC).
Proof.
  st0. kf H s. destruct (xpc s) eqn:X; try discriminate H; try (destruct w; discriminate H). cbn in H.
  apply err_rendezvous; [unfold send_err; rewrite X; discriminate|]. destruct (ec s) as [[|]| |]; try discriminate H; reflexivity.
Qed.
Lemma w26 : wsound (fun k c => match a_xpc k with AXFinSend _ => err_recv_rc c | _ => false end, LErr SrcFin DstRC).
Proof.
  st0. kf H s. destruct (xpc s) eqn:X; try discriminate H; try (destruct w; discriminate H). cbn in H.
  apply err_rendezvous; [unfold send_err; rewrite X; discriminate|]. destruct (rc s) as [|? ? [|]|]; try discriminate H; eauto.
Qed.
Lemma w27 : wsound (fun k c => negb (a_tctx k) && match a_trav k with ATRun false => true | _ => false end, LTrav TCNext DstEC).
Proof.
  st0. sp H. kf H s. kf A s. destruct (tctx s); [discriminate A|].
  destruct (trav s) as [| |[|v]|] eqn:T; try discriminate H. reflexivity.
Qed.
Lemma w28 : wsound (fun k c => negb (a_tctx k) && match a_trav k, c_rc c with ATRun true, RCRun true => true | _, _ => false end, LTrav TCVisit DstEC).
Proof.
  st0. sp H. kf H s. kf A s. destruct (tctx s); [discriminate A|].
  destruct (trav s) as [| |[|v]|] eqn:T; try discriminate H. cbn in H.
  unfold recv_visit. destruct (rc s) as [[|]| |]; try discriminate H. reflexivity.
Qed.
Lemma w29 : wsound (fun k c => negb (a_tctx k) && match a_trav k, c_rc c with ATRun true, RCDrain _ true _ => true | _, _ => false end, LTrav TCVisit DstRC).
Proof.
  st0. sp H. kf H s. kf A s. destruct (tctx s); [discriminate A|].
  destruct (trav s) as [| |[|v]|] eqn:T; try discriminate H. cbn in H.
  unfold recv_visit. destruct (rc s) as [|? [|] ?|]; try discriminate H. reflexivity.
Qed.

Lemma wits_sound : Forall wsound wits.
Proof.
  unfold wits. repeat constructor.
  exact w01. exact w02. exact w03. exact w04. exact w05. exact w06. exact w07. exact w08. exact w09. exact w10.
  exact w11. exact w12. exact w13. exact w14. exact w15. exact w16. exact w17. exact w18. exact w19. exact w20.
  exact w21. exact w22. exact w23. exact w24. exact w25. exact w26. exact w27. exact w28. exact w29.
Qed.

(* ---------- assembly ---------- *)
Lemma nf_run : forall ls s s' es, NF s -> run s ls = Some (s', es) -> NF s'.
Proof.
  induction ls as [|l ls IH]; simpl; intros s s' es N H.
  - inv H. exact N.
  - destruct (step s l) as [[s1 e1]|] eqn:S; [|discriminate].
    destruct (run s1 ls) as [[s2 e2]|] eqn:R; [|discriminate]. inv H.
    eapply IH; [|exact R]. eapply step_nf; eauto.
Qed.
Lemma nf_init pl : NF (init pl).
Proof. unfold NF. simpl. repeat split; intros; discriminate. Qed.

Lemma cabs_in s : In (cabs s) all_cst.
Proof.
  unfold cabs, all_cst. apply in_flat_map. exists (rc s). split.
  - destruct (rc s) as [[|]|[|] [|] [|]|]; simpl; tauto.
  - apply in_flat_map. exists (ec s). split.
    + destruct (ec s) as [[|]|[|]|]; simpl; tauto.
    + destruct (negb (Nat.eqb (rbuf s) 0)), (ebuf s); simpl; tauto.
Qed.

Lemma rc_eqb_refl r : rc_eqb r r = true.
Proof. destruct r as [[|]|[|] [|] [|]|]; reflexivity. Qed.

Lemma nfb_of_NF s : NF s -> nfb (cabs s) = true.
Proof.
  intros (N1 & N2 & N3). unfold nfb, cabs. cbn [c_rc c_rb c_ec c_eb]. apply andb_true_iff. split.
  - destruct (rc s) as [[|]|[|] [|] [|]|] eqn:R; try reflexivity.
    + specialize (N1 eq_refl). destruct (rbuf s); [exfalso; apply N1; reflexivity | reflexivity].
    + exfalso. apply N2. reflexivity.
  - destruct (ec s) as [[|]|?|] eqn:E; try reflexivity.
    specialize (N3 eq_refl). destruct (ebuf s); [exfalso; apply N3; reflexivity | reflexivity].
Qed.

Lemma forallb_false_ex {A} (f : A -> bool) l : forallb f l = false -> exists x, In x l /\ f x = false.
Proof.
  induction l as [|a l IH]; simpl; [discriminate|]. destruct (f a) eqn:F; simpl.
  - intro H. destruct (IH H) as (x & Hx & Fx). exists x. auto.
  - intros _. exists a. auto.
Qed.

Lemma wits_labels : Forall (fun w => In (snd w) (internal_labels ++ caller_labels)) wits.
Proof. unfold wits. repeat (apply Forall_cons || apply Forall_nil); cbn [snd]; simpl; repeat (first [left; reflexivity | right]). Qed.

(* legitimately waiting, on the concrete state *)
Definition waiting (s : st) : Prop :=
  cctx s = false /\ rctx s = false /\
  ((exists e, ent s = Some e /\ e_state e = Paused) \/
   (exists e sent, ent s = Some e /\ e_state e = Running /\ xpc s = XLoad sent /\ rq s = 0 /\ ropen s = true)).

Theorem no_stuck pl ls s es :
  run (init pl) ls = Some (s, es) -> both_closed s = false ->
  (exists l, In l (internal_labels ++ caller_labels) /\ enabled s l = true) \/ waiting s.
Proof.
  intros R BC.
  pose proof (reach_in_V 0%N _ _ _ _ R) as HV. set (k := aK 0%N nk_c s) in *.
  pose proof (cabs_in s) as HC. set (c := cabs s) in *.
  assert (pair_ok k c = true) as PO.
  { unfold pair_ok. apply andb_true_iff. split; [apply andb_true_iff; split|].
    - exact (cinv_reach _ _ _ _ R).
    - apply nfb_of_NF. eapply nf_run; [apply nf_init | exact R].
    - apply rc_eqb_refl. }
  destruct (nowit k c) eqn:NW.
  - pose proof table_ok_true as T. unfold table_ok in T. rewrite forallb_forall in T. specialize (T k HV).
    rewrite forallb_forall in T. specialize (T c HC). rewrite PO, NW in T. simpl in T.
    apply orb_true_iff in T as [T|T].
    + exfalso. unfold closedC, c, cabs in T. simpl in T. unfold both_closed in BC.
      destruct (rc s), (ec s); try discriminate T; discriminate BC.
    + right. unfold waitA in T. apply andb_true_iff in T as [T W]. apply andb_true_iff in T as [T1 T2].
      change (a_cctx k) with (cctx s) in T1. change (a_rctx k) with (rctx s) in T2.
      unfold waiting. split; [destruct (cctx s); [discriminate T1 | reflexivity]|].
      split; [destruct (rctx s); [discriminate T2 | reflexivity]|].
      apply orb_true_iff in W as [W|W].
      * left. unfold est in W. change (a_ent k) with (aent 0%N nk_c (ent s)) in W.
        destruct (ent s) as [e|]; [|discriminate W]. simpl in W. exists e. split; [reflexivity|].
        destruct (e_state e); try discriminate W; reflexivity.
      * right. apply andb_true_iff in W as [W1 W2]. unfold is_running, est in W1.
        change (a_ent k) with (aent 0%N nk_c (ent s)) in W1. change (a_xpc k) with (axpc' 0%N nk_c (xpc s)) in W2.
        destruct (ent s) as [e|]; [|discriminate W1]. simpl in W1.
        destruct (xpc s) eqn:X; simpl in W2; try discriminate W2; try (destruct w; discriminate W2).
        apply andb_true_iff in W2 as [W2 W3]. change (a_rq k) with (negb (Nat.eqb (rq s) 0)) in W2. change (a_ropen k) with (ropen s) in W3.
        exists e, sent. repeat split; auto.
        -- destruct (e_state e); try discriminate W1; reflexivity.
        -- destruct (rq s); [reflexivity | discriminate W2].
  - left. unfold nowit in NW. apply forallb_false_ex in NW as (w & Hw & Fw).
    apply negb_false_iff in Fw.
    pose proof wits_sound as S. rewrite Forall_forall in S. pose proof wits_labels as L. rewrite Forall_forall in L.
    exists (snd w). split; [apply L; exact Hw | apply (S w Hw); exact Fw].
Qed.

(* after a caller cancel or a local cancel nothing is legitimately waiting: some non-environment label is
   enabled until both returned channels are closed *)
Corollary no_stuck_cancelled pl ls s es :
  run (init pl) ls = Some (s, es) -> both_closed s = false -> cctx s = true \/ rctx s = true ->
  exists l, In l (internal_labels ++ caller_labels) /\ enabled s l = true.
Proof.
  intros R BC C. destruct (no_stuck _ _ _ _ R BC) as [E|(W1 & W2 & _)]; [exact E|].
  destruct C as [C|C]; congruence.
Qed.
(* the same once a terminal status has taken the loader offline while the request runs *)
Corollary no_stuck_offline pl ls s es :
  run (init pl) ls = Some (s, es) -> both_closed s = false -> ropen s = false ->
  (forall e, ent s = Some e -> e_state e <> Paused) ->
  exists l, In l (internal_labels ++ caller_labels) /\ enabled s l = true.
Proof.
  intros R BC O NP. destruct (no_stuck _ _ _ _ R BC) as [E|(W1 & W2 & [(e & E1 & E2)|(e & sent & E1 & E2 & E3 & E4 & E5)])]; [exact E| |].
  - exfalso. exact (NP e E1 E2).
  - congruence.
Qed.
