(* Varint.v — bytes, big-endian integers, unsigned varints and the length-prefixed framing used by
   message/v2 ToNet / FromNet (go-msgio varint reader, go-varint strict decoding).
   Model only (no proofs here); proofs are in VarintProofs.v. *)
From Coq Require Import List NArith ZArith Bool String Ascii.
From GS Require Import Base.
Import ListNotations.
Open Scope N_scope.

Definition bytes := list N.
Definition blen {A} (b : list A) : N := N.of_nat (List.length b).
Definition bytes_eqb (a b : bytes) : bool := list_eqb N.eqb a b.

(* hex literals used by the generated cases files: hx "a163" = [161; 99] *)
Definition hexval (a : ascii) : N :=
  let n := N_of_ascii a in
  if (48 <=? n) && (n <=? 57) then n - 48
  else if (97 <=? n) && (n <=? 102) then n - 87 else 0.
Fixpoint hx (s : string) : bytes :=
  match s with
  | String a (String b r) => (hexval a * 16 + hexval b) :: hx r
  | _ => []
  end.
(* text literals: str "gs2" = [103; 115; 50] *)
Fixpoint str (s : string) : bytes :=
  match s with
  | EmptyString => []
  | String a r => N_of_ascii a :: str r
  end.

(* take exactly n bytes (n may be a hostile 64-bit number: compare before converting to nat) *)
Definition take_n (n : N) (bs : bytes) : option (bytes * bytes) :=
  if blen bs <? n then None
  else Some (firstn (N.to_nat n) bs, skipn (N.to_nat n) bs).

(* big-endian fixed width *)
Fixpoint be (k : nat) (n : N) : bytes :=
  match k with
  | O => []
  | S k' => be k' (n / 256) ++ [n mod 256]
  end.
Definition be_dec (bs : bytes) : N := fold_left (fun acc b => acc * 256 + b) bs 0.

(* ---- unsigned varint (LEB128) ----
   encoding/binary.PutUvarint: 7 bits per byte, least significant group first, high bit = more. *)
Fixpoint uvarint_enc_fuel (fuel : nat) (n : N) : bytes :=
  match fuel with
  | O => []
  | S f => if n <? 128 then [n] else (n mod 128 + 128) :: uvarint_enc_fuel f (n / 128)
  end.
Definition uvarint_enc (n : N) : bytes := uvarint_enc_fuel 10 n.

(* go-varint ReadUvarint / FromUvarint: at most 9 bytes (63 bits), the 9th byte must not carry a
   continuation bit, and the encoding must be minimal (last byte non-zero unless it is the only one).
   VEof = the input ended before the first byte (io.EOF); any other short read is an error
   (io.ErrUnexpectedEOF / ErrUnderflow). *)
Inductive vres := VEof | VErr | VOk (n : N) (rest : bytes).
Fixpoint uvd (bs : bytes) (i : N) (x : N) : vres :=
  match bs with
  | [] => if i =? 0 then VEof else VErr
  | b :: r =>
      if ((i =? 8) && (128 <=? b)) || (9 <=? i) then VErr
      else if b <? 128 then
        (if (b =? 0) && (0 <? i) then VErr else VOk (x + b * 2 ^ (7 * i)) r)
      else uvd r (i + 1) (x + (b - 128) * 2 ^ (7 * i))
  end.
Definition uvarint_dec (bs : bytes) : vres := uvd bs 0 0.
Definition uvarint_dec_opt (bs : bytes) : option (N * bytes) :=
  match uvarint_dec bs with VOk n r => Some (n, r) | _ => None end.

(* ---- framing ----
   msgio.NewVarintReaderSize(r, network.MessageSizeMax).ReadMsg:
     nextMsgLen (ReadUvarint) ; length = 0 -> (nil, nil) ; length > max -> ErrMsgTooLarge ;
     io.ReadFull(body): too few bytes -> an error.  (io.ReadFull answers io.EOF when no body byte at
     all is there; message/v2 FromMsgReader turns every io.EOF met after the length prefix into
     io.ErrUnexpectedEOF -- repo commit 46b8b2d -- so only VEof below is a clean end of stream.) *)
Definition MessageSizeMax : N := 4194304.   (* libp2p core/network.MessageSizeMax = 1 << 22 *)

Inductive frame_res := FEof | FErr | FOk (frame : bytes) (rest : bytes).
Definition read_frame (bs : bytes) : frame_res :=
  match uvarint_dec bs with
  | VEof => FEof
  | VErr => FErr
  | VOk n r =>
      if n =? 0 then FOk [] r
      else if MessageSizeMax <? n then FErr
      else match take_n n r with
           | None => FErr
           | Some (f, r') => FOk f r'
           end
  end.

(* ToNet: uvarint(len(body)) ++ body *)
Definition frame_enc (body : bytes) : bytes := uvarint_enc (blen body) ++ body.
