(* ReqMgrInv.v — invariants of the collector half of ReqMgr.step, proved directly (four fields: the two
   collector program points, the caller-context flag, the internal-channels-closed flag). *)
From Coq Require Import List NArith Bool Arith Lia.
From GS Require Import Base ReqMgr ReqMgrProofs ReqMgrCC.
Import ListNotations.

(* ---------- the internal channels, once closed, stay closed ---------- *)
Lemma coe_icl e eo s : iclosed s = true -> iclosed (cancel_on_error e eo s) = true.
Proof. unfold cancel_on_error, terminate, term2, term3. destruct (e_state e), (e_terr e), eo, (e_started e); simpl; auto. Qed.
Lemma terminate_icl e rel s : iclosed s = true -> iclosed (terminate e rel s) = true.
Proof. unfold terminate, term2, term3. destruct (e_terr e), (e_started e), rel; simpl; auto. Qed.
Lemma term2_icl a rel s : iclosed s = true -> iclosed (term2 a rel s) = true.
Proof. unfold term2, term3. destruct a, rel; simpl; auto. Qed.
Lemma term3_icl rel s : iclosed (term3 rel s) = true.
Proof. unfold term3. destruct rel; reflexivity. Qed.

Lemma handle_icl m s s1 e1 : handle m s = Some (s1, e1) -> iclosed s = true -> iclosed s1 = true.
Proof.
  unfold handle. intros H C. dm H; inv H; simpl; auto;
    repeat match goal with
           | |- iclosed (cancel_on_error _ _ _) = true => apply coe_icl
           | |- iclosed (terminate _ _ _) = true => apply terminate_icl
           | |- iclosed (s_ropen _ _) = true => simpl
           end; simpl; auto.
Qed.
Lemma exec_icl c s s1 e1 : exec_step c s = Some (s1, e1) -> iclosed s1 = iclosed s.
Proof. unfold exec_step, after_err, trav_ok, trav_skip. intro H. dm H; inv H; reflexivity. Qed.
Lemma recv_visit_icl d s s0 : recv_visit d s = Some s0 -> iclosed s0 = iclosed s.
Proof. unfold recv_visit. intro H. dm H; inv H; reflexivity. Qed.
Lemma recv_err_icl d e s s0 : recv_err d e s = Some s0 -> iclosed s0 = iclosed s.
Proof. unfold recv_err. intro H. dm H; inv H; reflexivity. Qed.
Lemma send_err_icl src s e s0 : send_err src s = Some (e, s0) -> iclosed s = true -> iclosed s0 = true.
Proof. unfold send_err, trav_skip. intros H C. dm H; inv H; simpl; auto; apply term2_icl; exact C. Qed.

Lemma step_raw_icl s l s1 e1 : step_raw s l = Some (s1, e1) -> iclosed s = true -> iclosed s1 = true.
Proof.
  destruct l; simpl; intros H C; try (inv H; simpl; auto; fail).
  - dm H; inv H; simpl; auto.
  - dm H; inv H; simpl; auto.
  - dm H; try (inv H; apply term3_icl). eapply handle_icl; eauto.
  - dm H; inv H; simpl; auto.
  - apply exec_icl in H. congruence.
  - dm H; try (inv H; simpl; auto; fail). apply recv_visit_icl in Heqo. inv H. simpl. congruence.
  - dm H. inv H. eapply send_err_icl in Heqo; eauto. apply recv_err_icl in Heqo0. congruence.
  - dm H; inv H; simpl; auto.
  - dm H; inv H; simpl; auto.
Qed.

(* ---------- the collectors' program points against the two flags ---------- *)
Definition cinvb (cc ic : bool) (r : rc_pc) (e : ec_pc) : bool :=
  match r with
  | RCRun true => true | RCRun false => ic
  | RCDrain a b c => cc && (b || ic) && (c || ic)
  | RCExit => ic
  end &&
  match e with
  | ECRun true => true | ECRun false => ic
  | ECSendCC b => cc && (negb b || ic)
  | ECExit => ic || cc
  end.
Definition cinv (s : st) : bool := cinvb (cctx s) (iclosed s) (rc s) (ec s).

Lemma cinvb_mono cc ic cc' ic' r e :
  cinvb cc ic r e = true -> (cc = true -> cc' = true) -> (ic = true -> ic' = true) -> cinvb cc' ic' r e = true.
Proof.
  intros H Hc Hi.
  destruct cc, ic, cc', ic'; try (specialize (Hc eq_refl); discriminate Hc); try (specialize (Hi eq_refl); discriminate Hi);
    destruct r as [[|]|[|] [|] [|]|], e as [[|]|[|]|]; simpl in *; auto; discriminate.
Qed.

Definition is_coll (l : label) : bool :=
  match l with LCallerRecvP | LCallerRecvE | LRC _ | LEC _ => true | _ => false end.

Lemma step_raw_rcec s l s1 e1 :
  step_raw s l = Some (s1, e1) -> is_coll l = false -> rc s1 = rc s /\ ec s1 = ec s.
Proof.
  destruct l; simpl; intros H C; try discriminate C; try (inv H; simpl; auto; fail).
  - dm H; try (inv H; apply term3_ch). apply handle_ch in H as (A & B & _). simpl in A, B. auto.
  - dm H; inv H; simpl; auto.
  - apply exec_ch in H as (A & B & _). auto.
  - dm H; try (inv H; simpl; auto; fail). apply recv_visit_ch in Heqo as [A B]. inv H. simpl. auto.
  - dm H. inv H. apply send_err_ch in Heqo as [A B]. apply recv_err_ch in Heqo0 as [A' B']. split; congruence.
Qed.

Lemma cinv_raw s l s1 e1 : step_raw s l = Some (s1, e1) -> cinv s = true -> cinv s1 = true.
Proof.
  intros H I. destruct (is_coll l) eqn:C.
  - unfold cinv in *. destruct l; try discriminate C; simpl in H;
      destruct (rc s) as [[|]|[|] [|] [|]|] eqn:R, (ec s) as [[|]|[|]|] eqn:E, (cctx s) eqn:CC, (iclosed s) eqn:IC;
      simpl in I; try discriminate I; dm H; inv H; simpl; rewrite ?R, ?E, ?CC, ?IC; simpl; auto.
  - destruct (step_raw_rcec _ _ _ _ H C) as [A B]. unfold cinv in *. rewrite A, B.
    eapply cinvb_mono; [exact I | intro; eapply step_raw_cctx; eauto | intro; eapply step_raw_icl; eauto].
Qed.

Lemma cinv_norm r : cinv (fst r) = true -> cinv (fst (with_norm r)) = true.
Proof.
  destruct r as [s e]. unfold with_norm, rc_norm, ec_norm, cinv. simpl. intro I.
  destruct (rc s) as [[|]|[|] [|] [|]|] eqn:R; simpl; try destruct (Nat.eqb (rbuf s) 0); simpl;
    rewrite ?R; destruct (ec s) as [[|]|[|]|] eqn:E; simpl; try destruct (ebuf s); simpl; rewrite ?R, ?E;
    simpl in *; destruct (cctx s), (iclosed s); simpl in *; auto.
Qed.

Lemma cinv_step s l s1 e1 : step s l = Some (s1, e1) -> cinv s = true -> cinv s1 = true.
Proof.
  unfold step. destruct (step_raw s l) as [[sa ea]|] eqn:R; [|discriminate]. intros H I.
  pose proof (cinv_norm (sa, ea) (cinv_raw _ _ _ _ R I)) as N. destruct (with_norm (sa, ea)). inv H. exact N.
Qed.

Theorem cinv_run : forall ls s s' es, run s ls = Some (s', es) -> cinv s = true -> cinv s' = true.
Proof.
  induction ls as [|l ls IH]; simpl; intros s s' es H I.
  - inv H. exact I.
  - destruct (step s l) as [[s1 e1]|] eqn:S; [|discriminate].
    destruct (run s1 ls) as [[s2 e2]|] eqn:R; [|discriminate]. inv H.
    eapply IH; eauto. eapply cinv_step; eauto.
Qed.
Theorem cinv_reach pl ls s es : run (init pl) ls = Some (s, es) -> cinv s = true.
Proof. intro H. eapply cinv_run; eauto. Qed.
