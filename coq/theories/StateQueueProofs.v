(* StateQueueProofs.v — C23: invariant of the state/queue model and what it gives at quiescent states. *)
From Coq Require Import List NArith Bool Lia.
From GS Require Import Base StateQueue.
Import ListNotations.
Open Scope N_scope.

(* ---------- the per-request invariant (holds in EVERY reachable state, not only quiescent ones) ---------- *)
(* general (both sides): the only task without a tracked request that can outlive a handshake is a
   pending one (requestor: request ended while Queued, cancelOnError does not touch the queue) *)
Definition okb (x : rec) : bool :=
  match r_st x, r_q x, r_w x with
  | None, QNone, WNone => true
  | None, QPend, WNone => true                         (* orphan pending task *)
  | None, QAct, WPopped => true                        (* ended between pop and start *)
  | None, QAct, WDone _ => true                        (* ended by the final-status notification before finish *)
  | Some Queued, QPend, WNone => negb (r_nt x)
  | Some Queued, QAct, WPopped => negb (r_nt x)
  | Some Running, QAct, WExec => negb (r_nt x)
  | Some Running, QAct, WDone o => implb (r_nt x) (outcome_eqb o OFinished)
  | Some Paused, QNone, WNone => negb (r_nt x)
  | Some Completing, QNone, WNone => true
  | Some Completing, QAct, WPopped => true
  | _, _, _ => false
  end.

Definition orphan (x : rec) : bool :=
  match r_st x, r_q x with None, QPend => true | _, _ => false end.
(* responder: no orphan at all *)
Definition okb_resp (x : rec) : bool := okb x && negb (orphan x).

Lemma okb_rec0 : okb rec0 = true. Proof. reflexivity. Qed.
Lemma okb_resp_rec0 : okb_resp rec0 = true. Proof. reflexivity. Qed.

Ltac destruct_rec x :=
  let st := fresh "st" in let q := fresh "q" in let w := fresh "w" in let nt := fresh "nt" in let ne := fresh "ne" in
  destruct x as [st q w nt ne]; destruct st as [[]|]; destruct q; destruct w as [| | |[]]; destruct nt; destruct ne.

Lemma rstep_ok : forall l x x',
  okb x = true -> (is_new l = true -> rec_eqb_fresh x = true) -> rstep l x = Some x' -> okb x' = true.
Proof.
  intros l x x' Hok Hnew Hs.
  destruct_rec x; try discriminate Hok;
    destruct l as [ | | |[]| | | |[]| | | | |[]| ]; cbn in Hs; try discriminate Hs;
    try (specialize (Hnew eq_refl); discriminate Hnew);
    inversion Hs; subst; reflexivity.
Qed.

Lemma rstep_ok_resp : forall l x x',
  okb_resp x = true -> resp_label l = true -> (is_new l = true -> rec_eqb_fresh x = true) ->
  rstep l x = Some x' -> okb_resp x' = true.
Proof.
  intros l x x' Hok Hr Hnew Hs.
  destruct_rec x; try discriminate Hok;
    destruct l as [ | | |[]| | | |[]| | | | |[]| ]; try discriminate Hr; cbn in Hs; try discriminate Hs;
    try (specialize (Hnew eq_refl); discriminate Hnew);
    inversion Hs; subst; reflexivity.
Qed.

(* ---------- states ---------- *)
Definition inv (s : state) : Prop := NoDup (map fst (s_recs s)) /\ forall r, okb (get s r) = true.
Definition inv_resp (s : state) : Prop := forall r, okb_resp (get s r) = true.

Lemma get_put_eq s r x : get (put s r x) r = x.
Proof. unfold get, put; simpl. now rewrite aget_aput_eq. Qed.
Lemma get_put_neq s r r' x : r <> r' -> get (put s r x) r' = get s r'.
Proof. intro H. unfold get, put; simpl. now rewrite aget_aput_neq. Qed.

Lemma inv_init nw : inv (init nw).
Proof. split; [constructor | intro r; reflexivity]. Qed.
Lemma inv_resp_init nw : inv_resp (init nw).
Proof. intro r; reflexivity. Qed.

Lemma step_some s r a s' :
  step s (r, a) = Some s' -> exists x', rstep a (get s r) = Some x' /\ s' = put s r x'.
Proof.
  unfold step. destruct (is_pop a && negb (busy s <? s_nw s)); [discriminate|].
  destruct (rstep a (get s r)) as [x'|]; [|discriminate]. intro H; inversion H; subst. now exists x'.
Qed.

Lemma gstep_some s l s' :
  gstep s l = Some s' ->
  step s l = Some s' /\ (is_new (snd l) = true -> rec_eqb_fresh (get s (fst l)) = true).
Proof.
  unfold gstep. destruct (is_new (snd l)) eqn:En; simpl.
  - destruct (rec_eqb_fresh (get s (fst l))) eqn:Ef; simpl; [|discriminate]. intro H. split; [exact H | reflexivity].
  - intro H. split; [exact H | discriminate].
Qed.

Lemma gstep_inv s l s' : inv s -> gstep s l = Some s' -> inv s'.
Proof.
  intros [Hnd Hok] Hg. apply gstep_some in Hg as [Hs Hnew]. destruct l as [r a]. simpl in Hnew.
  apply step_some in Hs as (x' & Hr & ->). split.
  - simpl. now apply nodup_aput.
  - intro r'. destruct (N.eq_dec r r') as [<-|Hn].
    + rewrite get_put_eq. eapply rstep_ok; eauto.
    + rewrite get_put_neq by assumption. apply Hok.
Qed.

Lemma gstep_inv_resp s l s' :
  inv_resp s -> resp_label (snd l) = true -> gstep s l = Some s' -> inv_resp s'.
Proof.
  intros Hok Hl Hg. apply gstep_some in Hg as [Hs Hnew]. destruct l as [r a]. simpl in Hnew, Hl.
  apply step_some in Hs as (x' & Hr & ->). intro r'. destruct (N.eq_dec r r') as [<-|Hn].
  - rewrite get_put_eq. eapply rstep_ok_resp; eauto.
  - rewrite get_put_neq by assumption. apply Hok.
Qed.

Lemma grun_inv ls : forall s s', inv s -> grun s ls = Some s' -> inv s'.
Proof.
  induction ls as [|l ls IH]; simpl; intros s s' Hi Hr; [inversion Hr; now subst|].
  destruct (gstep s l) as [s1|] eqn:Eg; [|discriminate]. eapply IH; [|exact Hr]. eapply gstep_inv; eauto.
Qed.

Lemma grun_inv_resp ls : forall s s',
  inv_resp s -> forallb (fun l => resp_label (snd l)) ls = true -> grun s ls = Some s' -> inv_resp s'.
Proof.
  induction ls as [|l ls IH]; simpl; intros s s' Hi Hl Hr; [inversion Hr; now subst|].
  apply andb_true_iff in Hl as [Hl1 Hl2].
  destruct (gstep s l) as [s1|] eqn:Eg; [|discriminate]. eapply IH; [|exact Hl2|exact Hr].
  eapply gstep_inv_resp; eauto.
Qed.

(* ---------- quiescent states ---------- *)
Lemma get_in s r x : aget r (s_recs s) = Some x -> In (r, x) (s_recs s).
Proof. apply aget_in. Qed.

Lemma quiescent_get s r : quiescent s = true -> quiet_rec (get s r) = true.
Proof.
  unfold quiescent, get. intro H. destruct (aget r (s_recs s)) as [x|] eqn:E; [|reflexivity].
  rewrite forallb_forall in H. apply (H (r, x)). now apply aget_in.
Qed.

(* agreement on one record *)
Lemma rec_agree x : okb x = true -> quiet_rec x = true ->
  (r_st x = Some Queued -> r_q x = QPend) /\
  (r_q x = QPend -> r_st x = Some Queued \/ r_st x = None) /\
  (r_st x = Some Running <-> r_q x = QAct) /\
  (r_st x = Some Paused \/ r_st x = Some Completing -> r_q x = QNone) /\
  (r_st x = None -> r_q x = QPend \/ r_q x = QNone).
Proof.
  destruct_rec x; intros Ho Hq; try discriminate Ho; try discriminate Hq;
    repeat split; intros; try discriminate; try reflexivity; intuition (try discriminate; auto).
Qed.

Lemma rec_agree_resp x : okb_resp x = true -> r_q x = QPend -> r_st x = Some Queued.
Proof. destruct_rec x; intros Ho Hq; try discriminate Ho; try discriminate Hq; reflexivity. Qed.

(* ---------- from records to the lists PeerState reports ---------- *)
Lemma aget_snap_states m r : NoDup (map fst m) ->
  aget r (snap_states m) = match aget r m with Some x => r_st x | None => None end.
Proof.
  induction m as [|[k x] m IH]; simpl; intro Hn; [reflexivity|].
  inversion Hn as [|? ? Hk Hn']; subst. specialize (IH Hn').
  destruct (N.eqb_spec r k) as [->|Hne].
  - destruct (r_st x) as [st|] eqn:Est; simpl.
    + now rewrite N.eqb_refl.
    + rewrite IH. destruct (aget k m) as [y|] eqn:Ey; [|reflexivity].
      exfalso. apply Hk. apply aget_in in Ey. change k with (fst (k, y)). now apply in_map.
  - destruct (r_st x) as [st|]; simpl.
    + destruct (N.eqb_spec r k); [contradiction | exact IH].
    + exact IH.
Qed.

Lemma states_get s r : NoDup (map fst (s_recs s)) -> aget r (sn_states (snap_of s)) = r_st (get s r).
Proof.
  intro Hn. simpl. rewrite aget_snap_states by assumption. unfold get.
  destruct (aget r (s_recs s)); reflexivity.
Qed.

Lemma in_filter_keys (f : rec -> bool) s r : NoDup (map fst (s_recs s)) ->
  (In r (map fst (filter (fun kv => f (snd kv)) (s_recs s))) <-> (f (get s r) = true /\ aget r (s_recs s) <> None)).
Proof.
  intro Hn. rewrite in_map_iff. split.
  - intros ([k x] & Ek & Hin). simpl in Ek; subst k. apply filter_In in Hin as [Hin Hf]. simpl in Hf.
    unfold get. rewrite (in_aget _ _ _ Hn Hin). split; [exact Hf | discriminate].
  - intros [Hf Hs]. unfold get in Hf. destruct (aget r (s_recs s)) as [x|] eqn:E; [|contradiction].
    exists (r, x). split; [reflexivity|]. apply filter_In. split; [now apply aget_in | exact Hf].
Qed.

Lemma in_active s r : NoDup (map fst (s_recs s)) -> (In r (sn_active (snap_of s)) <-> r_q (get s r) = QAct).
Proof.
  intro Hn. simpl. rewrite in_filter_keys by assumption. unfold is_act. split.
  - intros [H _]. destruct (r_q (get s r)); try discriminate; reflexivity.
  - intro H. split; [now rewrite H|]. unfold get in H. destruct (aget r (s_recs s)); [discriminate | discriminate H].
Qed.

Lemma in_pending s r : NoDup (map fst (s_recs s)) -> (In r (sn_pending (snap_of s)) <-> r_q (get s r) = QPend).
Proof.
  intro Hn. simpl. rewrite in_filter_keys by assumption. unfold is_pend. split.
  - intros [H _]. destruct (r_q (get s r)); try discriminate; reflexivity.
  - intro H. split; [now rewrite H|]. unfold get in H. destruct (aget r (s_recs s)); [discriminate | discriminate H].
Qed.

(* ---------- the statement of C23 over snapshots ---------- *)
Definition agrees (p : snapshot) : Prop :=
  forall r,
    (aget r (sn_states p) = Some Queued -> In r (sn_pending p)) /\
    (In r (sn_pending p) -> aget r (sn_states p) = Some Queued \/ aget r (sn_states p) = None) /\
    (aget r (sn_states p) = Some Running <-> In r (sn_active p)) /\
    (aget r (sn_states p) = Some Paused \/ aget r (sn_states p) = Some Completing ->
       ~ In r (sn_pending p) /\ ~ In r (sn_active p)).

Definition no_orphans (p : snapshot) : Prop :=
  forall r, In r (sn_pending p) \/ In r (sn_active p) -> aget r (sn_states p) <> None.

Lemma inv_quiescent_agrees s : inv s -> quiescent s = true -> agrees (snap_of s).
Proof.
  intros [Hn Hok] Hq r.
  rewrite (states_get s r Hn), (in_pending s r Hn), (in_active s r Hn).
  destruct (rec_agree (get s r) (Hok r) (quiescent_get s r Hq)) as (A & B & C & D & E).
  repeat split; auto.
  - apply C. - apply C.
  - intro H'. rewrite (D H) in H'. discriminate.
  - intro H'. rewrite (D H) in H'. discriminate.
Qed.

Lemma inv_resp_no_orphans s : inv s -> inv_resp s -> quiescent s = true -> no_orphans (snap_of s).
Proof.
  intros [Hn Hok] Hr Hq r.
  rewrite (states_get s r Hn), (in_pending s r Hn), (in_active s r Hn).
  destruct (rec_agree (get s r) (Hok r) (quiescent_get s r Hq)) as (A & B & C & D & E).
  intros [H|H] Hnone.
  - rewrite (rec_agree_resp _ (Hr r) H) in Hnone. discriminate.
  - apply C in H. rewrite H in Hnone. discriminate.
Qed.

(* ---------- Diagnostics() ---------- *)
Lemma flat_map_nil {A B} (f : A -> list B) l : (forall x, In x l -> f x = []) -> flat_map f l = [].
Proof.
  induction l as [|a l IH]; simpl; intro H; [reflexivity|].
  rewrite (H a) by now left. apply IH. intros; apply H; now right.
Qed.

Lemma forallb_flat_map {A B} (p : B -> bool) (f : A -> list B) l :
  (forall x, In x l -> forallb p (f x) = true) -> forallb p (flat_map f l) = true.
Proof.
  induction l as [|a l IH]; simpl; intro H; [reflexivity|].
  rewrite forallb_app, (H a) by now left. simpl. apply IH. intros; apply H; now right.
Qed.

Lemma mem_in r l : mem r l = true <-> In r l.
Proof. unfold mem. apply existsb_eqb_in'. Qed.

Lemma in_states_aget m r st : NoDup (map fst m) -> In (r, st) (snap_states m) -> aget r (snap_states m) = Some st.
Proof.
  intros Hn Hin. rewrite aget_snap_states by assumption.
  unfold snap_states in Hin. apply in_flat_map in Hin as ([k x] & Hkx & Hin). simpl in Hin.
  destruct (r_st x) as [st'|] eqn:E; [|contradiction]. destruct Hin as [Hin|[]]. inversion Hin; subst.
  now rewrite (in_aget _ _ _ Hn Hkx).
Qed.

(* what the third loop of Diagnostics() yields when the snapshot agrees *)
Lemma diag_third s : inv s -> quiescent s = true ->
  flat_map (fun kv : N * rstate => let '(id, st) := kv in
      (if rstate_eqb st Running && negb (mem id (sn_active (snap_of s))) then [(id, DRunningNotActive)] else [])
      ++ (if rstate_eqb st Queued && negb (mem id (sn_pending (snap_of s))) then [(id, DQueuedNotPending)] else []))
    (sn_states (snap_of s)) = [].
Proof.
  intros Hi Hq. pose proof (inv_quiescent_agrees s Hi Hq) as Ha. destruct Hi as [Hn Hok].
  apply flat_map_nil. intros [id st] Hin.
  assert (Hg : aget id (sn_states (snap_of s)) = Some st) by (apply in_states_aget; assumption).
  destruct (Ha id) as (A & B & C & D).
  destruct st; cbn [rstate_eqb andb].
  - apply A in Hg. apply mem_in in Hg. rewrite Hg. reflexivity.
  - apply C in Hg. apply mem_in in Hg. rewrite Hg. reflexivity.
  - reflexivity.
  - reflexivity.
Qed.

Lemma diag_first s : inv s -> quiescent s = true ->
  flat_map (fun id => match aget id (sn_states (snap_of s)) with
                      | Some st => if rstate_eqb st Running then [] else [(id, DActiveNotRunning)]
                      | None => [(id, DActiveUntracked)] end) (sn_active (snap_of s)) = [].
Proof.
  intros Hi Hq. pose proof (inv_quiescent_agrees s Hi Hq) as Ha.
  apply flat_map_nil. intros id Hin. destruct (Ha id) as (A & B & C & D).
  apply C in Hin. now rewrite Hin.
Qed.

Theorem diagnostics_resp s :
  inv s -> inv_resp s -> quiescent s = true -> diagnostics (snap_of s) = [].
Proof.
  intros Hi Hr Hq. unfold diagnostics. rewrite diag_first, diag_third by assumption.
  rewrite app_nil_r. cbn [app]. apply flat_map_nil. intros id Hin.
  pose proof (inv_quiescent_agrees s Hi Hq id) as (A & B & C & D).
  pose proof (inv_resp_no_orphans s Hi Hr Hq id (or_introl Hin)) as Hno.
  destruct (B Hin) as [E|E]; [now rewrite E | contradiction].
Qed.

Theorem diagnostics_any s :
  inv s -> quiescent s = true -> only_orphans (diagnostics (snap_of s)) = true.
Proof.
  intros Hi Hq. unfold diagnostics. rewrite diag_first, diag_third by assumption.
  rewrite app_nil_r. cbn [app]. unfold only_orphans. apply forallb_flat_map. intros id Hin.
  pose proof (inv_quiescent_agrees s Hi Hq id) as (A & B & C & D).
  destruct (B Hin) as [E|E]; rewrite E; reflexivity.
Qed.

(* ---------- once all requests have ended ---------- *)
Lemma snap_states_nil m : snap_states m = [] -> forall k x, In (k, x) m -> r_st x = None.
Proof.
  induction m as [|[q y] m IH]; simpl; intros H k x Hin; [contradiction|].
  apply app_eq_nil in H as [H1 H2]. destruct Hin as [E|Hin].
  - inversion E; subst. destruct (r_st x); [discriminate | reflexivity].
  - eapply IH; eauto.
Qed.

Lemma ended_all_none s : sn_states (snap_of s) = [] -> forall r, r_st (get s r) = None.
Proof.
  intros H r. unfold get. destruct (aget r (s_recs s)) as [x|] eqn:E; [|reflexivity].
  eapply snap_states_nil; [exact H | apply aget_in; exact E].
Qed.

Lemma filter_nil {A} (f : A -> bool) l : (forall x, In x l -> f x = false) -> filter f l = [].
Proof.
  induction l as [|a l IH]; simpl; intro H; [reflexivity|].
  rewrite (H a) by now left. apply IH. intros; apply H; now right.
Qed.

Lemma get_of_in s k x : NoDup (map fst (s_recs s)) -> In (k, x) (s_recs s) -> get s k = x.
Proof. intros Hn Hin. unfold get. now rewrite (in_aget _ _ _ Hn Hin). Qed.

Theorem ended_stats_zero s :
  inv s -> settled s = true -> 0 < s_nw s -> sn_states (snap_of s) = [] ->
  sn_active (snap_of s) = [] /\ sn_pending (snap_of s) = [].
Proof.
  intros [Hn Hok] Hs Hnw He. unfold settled in Hs. apply andb_true_iff in Hs as [Hq Hs].
  pose proof (ended_all_none s He) as Hnone.
  (* no record holds a task *)
  assert (Hw : forall k x, In (k, x) (s_recs s) -> r_w x = WNone /\ r_q x <> QAct).
  { intros k x Hin. pose proof (get_of_in s k x Hn Hin) as Eg.
    pose proof (Hok k) as Ho. pose proof (quiescent_get s k Hq) as Hqr. pose proof (Hnone k) as Hst.
    rewrite Eg in Ho, Hqr, Hst. destruct_rec x; try discriminate; split; try reflexivity; discriminate. }
  assert (Hb : busy s = 0).
  { unfold busy. rewrite filter_nil; [reflexivity|]. intros [k x] Hin. simpl. unfold holds_task.
    now rewrite (proj1 (Hw k x Hin)). }
  split.
  - simpl. rewrite filter_nil; [reflexivity|]. intros [k x] Hin. simpl. unfold is_act.
    destruct (r_q x) eqn:E; try reflexivity. exfalso. now apply (proj2 (Hw k x Hin)).
  - rewrite Hb in Hs. apply N.ltb_lt in Hnw. rewrite Hnw in Hs. simpl in Hs.
    apply negb_true_iff in Hs. simpl. rewrite filter_nil; [reflexivity|]. intros kv Hin.
    destruct (is_pend (snd kv)) eqn:E; [|reflexivity].
    exfalso. assert (Hex : existsb (fun kv => is_pend (snd kv)) (s_recs s) = true).
    { apply existsb_exists. now exists kv. }
    congruence.
Qed.

(* responder: quiescence alone suffices (no orphan can be left) *)
Theorem ended_stats_zero_resp s :
  inv s -> inv_resp s -> quiescent s = true -> sn_states (snap_of s) = [] ->
  sn_active (snap_of s) = [] /\ sn_pending (snap_of s) = [].
Proof.
  intros Hi Hr Hq He. pose proof (inv_resp_no_orphans s Hi Hr Hq) as Hno. destruct Hi as [Hn Hok].
  assert (Hall : forall r, aget r (sn_states (snap_of s)) = None) by (intro r; rewrite He; reflexivity).
  split.
  - destruct (sn_active (snap_of s)) as [|r l] eqn:E; [reflexivity|].
    exfalso. apply (Hno r); [right; rewrite E; now left | apply Hall].
  - destruct (sn_pending (snap_of s)) as [|r l] eqn:E; [reflexivity|].
    exfalso. apply (Hno r); [left; rewrite E; now left | apply Hall].
Qed.

Lemma grun_nw ls : forall s0 s1, grun s0 ls = Some s1 -> s_nw s1 = s_nw s0.
Proof.
  induction ls as [|l ls IH]; simpl; intros s0 s1 H; [inversion H; reflexivity|].
  destruct (gstep s0 l) as [s2|] eqn:Eg; [|discriminate]. rewrite (IH _ _ H).
  apply gstep_some in Eg as [Es _]. destruct l as [r a]. apply step_some in Es as (x' & _ & ->). reflexivity.
Qed.

(* ---------- the theorems as stated in props/C23.v ---------- *)
Theorem c23_holds : forall nw ls s,
  grun (init nw) ls = Some s -> quiescent s = true ->
  agrees (snap_of s) /\
  (forall r, In r (sn_active (snap_of s)) -> aget r (sn_states (snap_of s)) = Some Running) /\
  only_orphans (diagnostics (snap_of s)) = true /\
  snap_ok false (snap_of s) = true /\
  (settled s = true -> 0 < nw -> sn_states (snap_of s) = [] ->
     sn_active (snap_of s) = [] /\ sn_pending (snap_of s) = []).
Proof.
  intros nw ls s Hr Hq. pose proof (grun_inv ls _ _ (inv_init nw) Hr) as Hi.
  pose proof (inv_quiescent_agrees s Hi Hq) as Ha.
  split; [exact Ha|]. split; [intros r Hin; now apply (Ha r)|].
  split; [now apply diagnostics_any|]. split; [simpl; now apply diagnostics_any|].
  intros Hs Hnw He. apply ended_stats_zero; auto.
  assert (E : s_nw s = nw) by (now rewrite (grun_nw _ _ _ Hr)).
  now rewrite E.
Qed.

Theorem c23_holds_responder : forall nw ls s,
  forallb (fun l => resp_label (snd l)) ls = true ->
  grun (init nw) ls = Some s -> quiescent s = true ->
  agrees (snap_of s) /\ no_orphans (snap_of s) /\
  diagnostics (snap_of s) = [] /\
  snap_ok true (snap_of s) = true /\
  (sn_states (snap_of s) = [] -> sn_active (snap_of s) = [] /\ sn_pending (snap_of s) = []).
Proof.
  intros nw ls s Hl Hr Hq. pose proof (grun_inv ls _ _ (inv_init nw) Hr) as Hi.
  pose proof (grun_inv_resp ls _ _ (inv_resp_init nw) Hl Hr) as Hir.
  split; [now apply inv_quiescent_agrees|]. split; [now apply inv_resp_no_orphans|].
  pose proof (diagnostics_resp s Hi Hir Hq) as Hd.
  split; [exact Hd|]. split; [simpl; now rewrite Hd|].
  intro He. now apply ended_stats_zero_resp.
Qed.

(* the invariant in every reachable state, quiescent or not: what can be wrong is confined to the
   worker handshakes *)
Theorem c23_always : forall nw ls s r,
  grun (init nw) ls = Some s -> okb (get s r) = true.
Proof. intros nw ls s r Hr. exact (proj2 (grun_inv ls _ _ (inv_init nw) Hr) r). Qed.
(* ---------- soundness of the per-request acceptor ---------- *)
Fixpoint rrun (x : rec) (ls : list rlabel) : option rec :=
  match ls with
  | [] => Some x
  | l :: rest => match rstep_g l x with Some y => rrun y rest | None => None end
  end.
Definition rreach (al : list rlabel) (x y : rec) : Prop :=
  exists ls, Forall (fun l => In l al) ls /\ rrun x ls = Some y.

Lemma rreach_refl al x : rreach al x x.
Proof. exists []. split; [constructor | reflexivity]. Qed.

Lemma rrun_app x ls1 ls2 y : rrun x ls1 = Some y -> rrun x (ls1 ++ ls2) = rrun y ls2.
Proof.
  revert x. induction ls1 as [|l ls1 IH]; simpl; intros x H; [inversion H; reflexivity|].
  destruct (rstep_g l x) as [x1|]; [now apply IH | discriminate].
Qed.

Lemma rreach_trans al x y z : rreach al x y -> rreach al y z -> rreach al x z.
Proof.
  intros (l1 & F1 & R1) (l2 & F2 & R2). exists (l1 ++ l2). split.
  - apply Forall_app. now split.
  - now rewrite (rrun_app _ _ _ _ R1).
Qed.

Lemma rreach_step al x l y : In l al -> rstep_g l x = Some y -> rreach al x y.
Proof. intros Hin Hs. exists [l]. split; [constructor; [exact Hin | constructor] | simpl; now rewrite Hs]. Qed.

Lemma rreach_mono al al' x y : (forall l, In l al -> In l al') -> rreach al x y -> rreach al' x y.
Proof.
  intros Hsub (ls & F & R). exists ls. split; [|exact R].
  rewrite Forall_forall in *. intros l Hl. apply Hsub, F, Hl.
Qed.

Definition addnew (acc : list rec * list rec) (y : rec) :=
  if existsb (rec_eqb y) (fst acc) then acc else (fst acc ++ [y], snd acc ++ [y]).

Lemma fold_addnew_sub succs : forall acc,
  (forall y, In y (fst (fold_left addnew succs acc)) -> In y (fst acc) \/ In y succs) /\
  (forall y, In y (snd (fold_left addnew succs acc)) -> In y (snd acc) \/ In y succs).
Proof.
  induction succs as [|a succs IH]; simpl; intro acc; [split; intros; now left|].
  destruct (IH (addnew acc a)) as [H1 H2]. unfold addnew in *.
  destruct (existsb (rec_eqb a) (fst acc)); simpl in *.
  - split; intros y Hy; [destruct (H1 y Hy) | destruct (H2 y Hy)]; auto.
  - split; intros y Hy.
    + destruct (H1 y Hy) as [Hin|Hin]; [|auto]. apply in_app_iff in Hin as [Hin|[<-|[]]]; auto.
    + destruct (H2 y Hy) as [Hin|Hin]; [|auto]. apply in_app_iff in Hin as [Hin|[<-|[]]]; auto.
Qed.

Lemma rclosure_sound fuel : forall al seen front z,
  (forall y, In y front -> In y seen) ->
  In z (rclosure fuel al seen front) -> exists x, In x seen /\ rreach al x z.
Proof.
  induction fuel as [|f IH]; simpl; intros al seen front z Hsub Hz.
  - exists z. split; [exact Hz | apply rreach_refl].
  - remember (flat_map (fun x => flat_map (fun l => match rstep_g l x with Some y => [y] | None => [] end) al) front) as succs eqn:Esucc.
    change (fun (acc : list rec * list rec) (y : rec) =>
              if existsb (rec_eqb y) (fst acc) then acc else (fst acc ++ [y], snd acc ++ [y])) with addnew in Hz.
    pose proof (fold_addnew_sub succs (seen, [])) as [Hs Hfr].
    destruct (fold_left addnew succs (seen, [])) as [seen' front'] eqn:Ef.
    cbn [fst snd] in Hs, Hfr.
    assert (Hsucc : forall y, In y succs -> exists x, In x seen /\ rreach al x y).
    { intros y Hy. rewrite Esucc in Hy. apply in_flat_map in Hy as (x & Hx & Hy).
      apply in_flat_map in Hy as (l & Hl & Hy). destruct (rstep_g l x) as [y'|] eqn:Es; [|contradiction].
      destruct Hy as [<-|[]]. exists x. split; [now apply Hsub | eapply rreach_step; eauto]. }
    assert (Hseen' : forall y, In y seen' -> exists x, In x seen /\ rreach al x y).
    { intros y Hy. destruct (Hs y Hy) as [H|H]; [exists y; split; [exact H | apply rreach_refl] | now apply Hsucc]. }
    destruct front' as [|f0 front''].
    + now apply Hseen'.
    + (* the new front is part of the new seen set: both were extended together *)
      assert (Hsub' : forall y, In y (f0 :: front'') -> In y seen').
      { clear - Ef. revert Ef. generalize (f0 :: front''). intros fr Ef.
        assert (G : forall sc acc s' f', fold_left addnew sc acc = (s', f') ->
                    (forall y, In y (snd acc) -> In y (fst acc)) -> forall y, In y f' -> In y s').
        { induction sc as [|a sc IH]; simpl; intros acc s' f' E Hacc y Hy; [rewrite E in Hacc; now apply Hacc|].
          eapply IH; [exact E| |exact Hy]. unfold addnew. destruct (existsb (rec_eqb a) (fst acc)); [exact Hacc|].
          simpl. intros y' Hy'. apply in_app_iff in Hy' as [Hy'|Hy']; apply in_app_iff; [left; now apply Hacc | now right]. }
        eapply G; [exact Ef | simpl; intros y []]. }
      destruct (IH al seen' (f0 :: front'') z Hsub' Hz) as (x' & Hx' & Hr').
      destruct (Hseen' x' Hx') as (x & Hx & Hr). exists x. split; [exact Hx | eapply rreach_trans; eauto].
Qed.

(* what acceptance of one request's column means *)
Fixpoint witnessed (r : N) (i : nat) (al : list rlabel) (x : rec) (tr : list obs) : Prop :=
  match tr with
  | [] => True
  | o :: rest =>
    let al' := al ++ labels_of r (o_allowed o) in
    exists y, rreach al' x y /\ quiet_rec y = true /\
              (st_code (r_st y), q_code (r_q y)) = nth i (o_seen o) (9, 9) /\
              witnessed r i al' y rest
  end.

Lemma pair_eqb_eq a b : pair_eqb a b = true -> a = b.
Proof.
  destruct a, b. unfold pair_eqb; simpl. intro H. apply andb_true_iff in H as [H1 H2].
  apply N.eqb_eq in H1, H2. now subst.
Qed.

Theorem accepts_req_sound r i tr : forall al cur,
  cur <> [] -> accepts_req r i al cur tr = true -> exists x, In x cur /\ witnessed r i al x tr.
Proof.
  induction tr as [|o rest IH]; intros al cur Hne H.
  - destruct cur as [|x cur]; [contradiction|]. exists x. split; [now left | exact I].
  - cbn [accepts_req] in H.
    set (al' := al ++ labels_of r (o_allowed o)) in *.
    set (reach := rclosure 500 al' cur cur) in *.
    set (next := filter (fun x => quiet_rec x && pair_eqb (st_code (r_st x), q_code (r_q x)) (nth i (o_seen o) (9, 9))) reach) in *.
    destruct next as [|y0 next'] eqn:En; [discriminate|].
    destruct (IH al' (y0 :: next') ltac:(discriminate) H) as (y & Hy & Hw).
    rewrite <- En in Hy. unfold next in Hy. apply filter_In in Hy as [Hyr Hyf].
    apply andb_true_iff in Hyf as [Hq Hp]. apply pair_eqb_eq in Hp.
    unfold reach in Hyr. apply rclosure_sound in Hyr as (x & Hx & Hr); [|auto].
    exists x. split; [exact Hx|]. cbn [witnessed]. exists y. repeat split; assumption.
Qed.
