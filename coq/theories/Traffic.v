(* Traffic.v — C24, requestor half: definitions over the requestor model (ReqExec.v): the purely local
   traversal, what goes out on the wire (XSend), the monitor and the correspondence case.  No proofs here. *)
From Coq Require Import List NArith Bool.
From GS Require Export Base Ltree RecLoader ReqExec.
Import ListNotations.
Open Scope N_scope.

(* a selector traversal answered from a local store alone *)
Definition lask (L : store) (u : unit) (p : path) (c : cid) : unit * ans :=
  (u, match aget c L with Some _ => AOk | None => ASkip end).
Definition local_run (t : ltree) (L : store) : list ev := snd (fst (run_tree (lask L) t tt)).

(* every link of the local traversal resolved *)
Definition all_ok (evs : list ev) : bool :=
  forallb (fun e => match e with ELoad _ _ AOk => true | ELoad _ _ _ => false | EVisit _ => true end) evs.
(* blocks loaded before the first link that does not resolve *)
Fixpoint ok_prefix (evs : list ev) : N :=
  match evs with
  | [] => 0
  | ELoad _ _ AOk :: r => 1 + ok_prefix r
  | ELoad _ _ _ :: _ => 0
  | EVisit _ :: r => ok_prefix r
  end.

(* the executor's log (newest first) *)
Fixpoint sends_of (log : list xev) : list N :=          (* oldest first *)
  match log with [] => [] | XSend s :: r => sends_of r ++ [s] | _ :: r => sends_of r end.
Fixpoint ndata (log : list xev) : N :=
  match log with [] => 0 | XLoad _ _ (RData _ _) :: r => 1 + ndata r | _ :: r => ndata r end.
Definition nosend (log : list xev) : bool :=
  forallb (fun e => match e with XSend _ => false | _ => true end) log.
Definition local_only (log : list xev) : bool :=
  forallb (fun e => match e with XLoad _ _ (RData _ false) => false | XStore _ _ => false | _ => true end) log.
(* every request that went out carried max(user value, blocks loaded so far), all of them loaded from the
   local store, and nothing had been sent before *)
Fixpoint sends_ok (user : N) (log : list xev) : Prop :=
  match log with
  | [] => True
  | XSend s :: r => s = N.max user (ndata r) /\ nosend r = true /\ local_only r = true
  | _ :: r => sends_ok user r
  end.

(* correspondence case: the request as seen on the wire by the responder's request hook
   (executor.startRemoteRequest: the do-not-send-first-blocks extension is replaced by
   max(user value, blocks traversed) when that is > 0; other extensions are kept) *)
Record tcase := {
  tc_plan : ltree; tc_L : list cid;
  tc_user : N;           (* the caller's own do-not-send-first-blocks value; 0 = none *)
  tc_sent : bool;        (* a new-request message reached the responder before the marker request *)
  tc_skip : N;           (* do-not-send-first-blocks on the wire; 0 = no such extension *)
  tc_kept : bool         (* the caller's do-not-send-cids extension (if any) arrived unchanged *)
}.
Definition final_msg : msg := {| m_sender := 0; m_resps := [{| rs_req := 0; rs_md := []; rs_status := StOk |}]; m_blocks := [] |}.
(* the property, on what the implementation did *)
Definition tcase_mon (c : tcase) : bool :=
  let evs := local_run (tc_plan c) (store_of (tc_L c)) in
  tc_kept c &&
  if all_ok evs then negb (tc_sent c)
  else tc_sent c && N.eqb (tc_skip c) (N.max (tc_user c) (ok_prefix evs)).
(* model against implementation *)
Definition tcase_ok (c : tcase) : bool :=
  let r := run_request proper_prefix (fun _ => [final_msg]) (tc_user c) (tc_plan c) (store_of (tc_L c)) [] [] in
  wf_plan (tc_plan c) &&
  list_eqb N.eqb (sends_of (x_log (fst (fst r)))) (if tc_sent c then [tc_skip c] else []).
