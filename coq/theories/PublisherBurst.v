(* PublisherBurst.v — the publisher model observed over a whole burst of calls (C18).

   The sequential driver waits for the publisher's command queue to drain after every call, so the queue
   never holds more than one command.  In a *burst* the harness holds the publisher's goroutine inside a
   blocked subscriber callback, issues the whole call sequence (the commands pile up in the queue), releases
   it, and reads every subscriber's complete log.  The publisher processes its queue in order, so the log a
   subscriber must see is the concatenation of what the model (PublisherProofs.C18: it delivers exactly what
   the active-subscriptions specification prescribes, call by call) gives it for each call; closes that one
   call sends to one subscriber come in no particular order, so maximal runs of closes are compared sorted. *)
From Coq Require Import List NArith Bool.
From GS Require Export Base Publisher.
Import ListNotations.
Open Scope N_scope.

Fixpoint ins_close (t : topic) (l : list pev) : list pev :=
  match l with
  | EClose u :: r => if t <=? u then EClose t :: l else EClose u :: ins_close t r
  | _ => EClose t :: l
  end.
(* sort every maximal run of consecutive closes by topic *)
Fixpoint canon_runs (l : list pev) : list pev :=
  match l with
  | [] => []
  | EClose t :: r => ins_close t (canon_runs r)
  | e :: r => e :: canon_runs r
  end.

Definition model_logs (univ : list subr) (ops : list pop) : list (list pev) :=
  let obsl := prun univ pub_new ops in
  map (fun i => concat (map (fun ob => nth i ob []) obsl)) (seq 0 (length univ)).

Record bcase := { bc_univ : list subr; bc_ops : list pop; bc_logs : list (list pev) }.
Definition bcase_agrees (c : bcase) : bool :=
  list_eqb (list_eqb pev_eqb) (map canon_runs (model_logs (bc_univ c) (bc_ops c))) (map canon_runs (bc_logs c)).
