(* MsgQueue16.v — C16 (every queued message is reported sent or failed exactly once) over the message-queue
   model of MsgQueue.v: one more label (a shutdown landing while a build callback runs), the record of
   attachments, the history of events, the executable monitor and the case comparison.  No proofs here.

   Parties.  messagequeue.Builder keeps its subscribers in a map keyed by request id
   (builder.go SetSubscriber), so within one message a "party" is a request id: the response assembler
   attaches the subscriber of the request's stream in every transaction (responseassembler.go execute).
   An *attachment* is a pair (request, topic of the builder the transaction was built into). *)
From Coq Require Import List NArith Bool Lia.
From GS Require Export Base MsgQueue.
Import ListNotations.
Open Scope N_scope.

(* ---- labels ---- *)
Inductive qlabel16 :=
| L16 (l : qlabel)
| LBuildShut (r : req) (ops : list top)
| LBuildClosed (size : N).
  (* AllocateAndBuildMessage whose callback is still running (buildersLk held, done already tested by
     buildMessage) when Shutdown() closes done.  A goroutine parked at its select wakes on done alone
     (signalWork comes after the callback), blocks on buildersLk in extractOutgoingMessage, then drains
     everything including the builder just written, and exits.  A goroutine inside a network call notices
     nothing until the call returns. *)

(* AllocateAndBuildMessage whose callback finds its response stream closed (responseassembler.go execute tests
   isClosed before reserving and again inside the callback; a failure of an earlier message of the request may
   close the stream in between, in particular while the reservation waits in the allocator): buildMessage
   has already appended a new builder if one was due, the callback adds nothing — no operation, no response
   stream, no subscriber — and the whole reservation is returned. *)
Definition do_touch (s : mq) (size : N) : mq :=
  if done s then s
  else
    let need_new := match last_opt (builders s) with
                    | None => true
                    | Some last => if size =? 0 then false else max_block_size <? b_blk last + size
                    end in
    let bs := if need_new then builders s ++ [bld_new (next_topic s)] else builders s in
    let nt := if need_new then next_topic s + 1 else next_topic s in
    let wk := match last_opt bs with Some l => if bld_empty l then work s else true | None => work s end in
    {| builders := bs; next_topic := nt; alloc := alloc s; has_sender := has_sender s; work := wk;
       done := done s; ph := ph s; closed := closed s; miss := miss s |}.

Definition set_done (s : mq) : mq :=
  set_fields s (builders s) (alloc s) (has_sender s) (work s) true (ph s) (closed s).

Definition qstep16 (s : mq) (l : qlabel16) : mq * qout :=
  match l with
  | L16 l => qstep s l
  | LBuildShut r ops =>
      let '(s1, o) := do_build s r ops in
      match ph s1 with
      | PIdle =>
          let '(s2, o2) := qstep (set_fields s1 (builders s1) (alloc s1) (has_sender s1) true true PSelect (closed s1))
                                 (LPick false) in
          (s2, out_app o o2)
      | _ => (set_done s1, o)
      end
  | LBuildClosed size =>
      let s1 := do_touch s size in
      match ph s1 with
      | PIdle => run_loop (loop_fuel s1) s1 out_nil
      | _ => (s1, out_nil)
      end
  end.

Definition qstep16_h (s : mq) (l : qlabel16) (hint : bool) : mq * qout :=
  match l with
  | L16 l => qstep_h s l hint
  | _ => qstep16 s l
  end.

(* ---- attachments ---- *)
Definition att := (req * (N * bool))%type.       (* request, topic, did the transaction carry operations *)

Definition build_of (l : qlabel16) : option (req * list top) :=
  match l with
  | L16 (LBuild r ops) => Some (r, ops)
  | LBuildShut r ops => Some (r, ops)
  | _ => None
  end.
Definition last_topic (s : mq) : N := match last_opt (builders s) with Some b => b_topic b | None => 0 end.
Definition has_ops (ops : list top) : bool := match ops with [] => false | _ => true end.

(* execute: nothing happens on a closed stream; buildMessage refuses once done is closed; otherwise the
   callback runs on the last builder and sets the request's subscriber there *)
Definition attach16 (s : mq) (l : qlabel16) : option att :=
  match build_of l with
  | Some (r, ops) =>
      if mem_req r (closed s) || done s then None
      else Some (r, (last_topic (fst (do_build s r ops)), has_ops ops))
  | None => None
  end.

(* ---- histories with their ghost record: every event published so far, every attachment made ---- *)
Record g16 := { g_s : mq; g_ev : list qev; g_att : list att }.
Definition g_new : g16 := {| g_s := mq_new; g_ev := []; g_att := [] |}.
Definition opt_list {A} (o : option A) : list A := match o with Some a => [a] | None => [] end.
Definition gstep (g : g16) (l : qlabel16) : g16 :=
  {| g_s := fst (qstep16 (g_s g) l);
     g_ev := g_ev g ++ q_events (snd (qstep16 (g_s g) l));
     g_att := g_att g ++ opt_list (attach16 (g_s g) l) |}.
Definition grun (ls : list qlabel16) : g16 := fold_left gstep ls g_new.
Definition gstep_h (g : g16) (lh : qlabel16 * bool) : g16 :=
  {| g_s := fst (qstep16_h (g_s g) (fst lh) (snd lh));
     g_ev := g_ev g ++ q_events (snd (qstep16_h (g_s g) (fst lh) (snd lh)));
     g_att := g_att g ++ opt_list (attach16 (g_s g) (fst lh)) |}.
Definition grun_h (ls : list (qlabel16 * bool)) : g16 := fold_left gstep_h ls g_new.

(* the reports one party received about one message, as event kinds in order:
   0 queued, 1 sent, 2 error, 3 closed *)
Definition ev_topic (e : qev) : N := match e with EvQueued _ t | EvSent _ t | EvError _ t | EvClosed _ t => t end.
Definition ev_kind (e : qev) : N := fst (ev_code e).
Definition proj (r : req) (t : N) (E : list qev) : list N :=
  map ev_kind (filter (fun e => N.eqb (ev_req e) r && N.eqb (ev_topic e) t) E).

(* the complete report sequences: announced, then sent or failed, then closed; a message failed by the
   shutdown drain is not announced first (runQueue done branch publishes Error without Queued) *)
Definition Complete (k : list N) : Prop := k = [0; 1; 3] \/ k = [0; 2; 3] \/ k = [2; 3].

Definition quiescent (s : mq) : Prop := ph s = PIdle \/ ph s = PExited.

(* progress measure: messages still to resolve, weighted by the retry budget *)
Definition rank_unit : nat := 2 * max_retries + 3.
Definition rank (s : mq) : nat :=
  match ph s with
  | PIdle | PExited => 0
  | PSelect => rank_unit * length (builders s) + (rank_unit - 1)
  | PConnect _ i true => rank_unit * S (length (builders s)) + (2 * max_retries + 1)
  | PConnect _ i false => rank_unit * S (length (builders s)) + (2 * (max_retries - i) - 1)
  | PSend _ i => rank_unit * S (length (builders s)) + 2 * (max_retries - i)
  end.

(* ---- the executable monitor (evaluated on the implementation's observations) ---- *)
Definition projk (t : N) (l : list (N * N)) : list N := map fst (filter (fun e => N.eqb (snd e) t) l).
Definition kinds_eqb : list N -> list N -> bool := list_eqb N.eqb.
Definition complete_k (k : list N) : bool := kinds_eqb k [0; 1; 3] || kinds_eqb k [0; 2; 3] || kinds_eqb k [2; 3].
Definition shape_k (quiet : bool) (k : list N) : bool :=
  match k with
  | [] => true
  | _ => complete_k k || (negb quiet && kinds_eqb k [0])
  end.
(* an unreported attachment is excused when the same party was told that an earlier message failed: the
   failure closes the response stream and scrubs the request from everything still queued *)
Definition excused (t : N) (l : list (N * N)) : bool := existsb (fun e => N.eqb (fst e) 2 && (snd e <? t)) l.
Definition mon16_req (quiet : bool) (evs : list (N * N)) (atts : list (N * bool)) : bool :=
  forallb (fun e => existsb (fun a => N.eqb (fst a) (snd e)) atts) evs &&
  forallb (fun a => shape_k quiet (projk (fst a) evs)) atts &&
  (if quiet then forallb (fun a => negb (snd a) || complete_k (projk (fst a) evs) || excused (fst a) evs) atts else true).

Definition atts_of (r : req) (l : list (option att)) : list (N * bool) :=
  flat_map (fun a => match a with Some (r', x) => if N.eqb r' r then [x] else [] | None => [] end) l.
Definition obs_dflt : qobs :=
  {| qo_alloc := 0; qo_sizes := []; qo_nonempty := 0; qo_phase := 0; qo_events := []; qo_wire := [] |}.
Definition last_phase_quiet (obs : list qobs) : bool :=
  let o := last obs obs_dflt in N.eqb (qo_phase o) 0 || N.eqb (qo_phase o) 4.
Definition last_nonempty0 (obs : list qobs) : bool := N.eqb (qo_nonempty (last obs obs_dflt)) 0.
Definition mon16_hist (univ : list req) (obs : list qobs) (atts : list (option att)) : bool :=
  let q := last_phase_quiet obs in
  forallb (fun i => mon16_req q (nth_events i obs) (atts_of (nth i univ 0) atts)) (seq 0 (length univ)) &&
  (if q then last_nonempty0 obs else true).

(* ---- cases: a history run on the implementation ---- *)
Record qcase16 := {
  c16_univ : list req;
  c16_labels : list (qlabel16 * bool);
  c16_obs : list qobs;
  c16_att : list (option att)          (* per label: the attachment the implementation was seen to make *)
}.

(* monomorphic constructors for the generated case files (cheap to elaborate) *)
Definition at_ (r t : N) (c : bool) : option att := Some (r, (t, c)).
Definition no_at : option att := None.
Definition ev_ (k t : N) : N * N := (k, t).
Definition lh_ (l : qlabel16) (h : bool) : qlabel16 * bool := (l, h).

Fixpoint q_run16 (univ : list req) (s : mq) (ls : list (qlabel16 * bool)) : list (qobs * option att) :=
  match ls with
  | [] => []
  | (l, h) :: r => let '(s', o) := qstep16_h s l h in (q_observe univ s' o, attach16 s l) :: q_run16 univ s' r
  end.

Definition qcase16_mon (c : qcase16) : bool := mon16_hist (c16_univ c) (c16_obs c) (c16_att c).

Definition att_eqb (a b : att) : bool :=
  N.eqb (fst a) (fst b) && N.eqb (fst (snd a)) (fst (snd b)) && Bool.eqb (snd (snd a)) (snd (snd b)).

Fixpoint prefixb {A} (eqb : A -> A -> bool) (a b : list A) : bool :=
  match a, b with
  | [], _ => true
  | x :: a', y :: b' => eqb x y && prefixb eqb a' b'
  | _ :: _, [] => false
  end.
(* after every label the events a subscriber has received so far are a prefix of what the model has
   published to it so far (never early; delivery by the publisher's goroutine may lag) *)
Fixpoint events_never_early (i : nat) (m o : list qobs) (accm acco : list (N * N)) : bool :=
  match m, o with
  | x :: m', y :: o' =>
      let accm' := accm ++ nth i (qo_events x) [] in
      let acco' := acco ++ nth i (qo_events y) [] in
      prefixb pairnn_eqb acco' accm' && events_never_early i m' o' accm' acco'
  | _, _ => true
  end.

Definition qcase16_agrees (c : qcase16) : bool :=
  let run := q_run16 (c16_univ c) mq_new (c16_labels c) in
  let m := map fst run in
  let n := length (c16_univ c) in
  list_eqb qobs_eqb m (c16_obs c) &&
  list_eqb (option_eqb att_eqb) (map snd run) (c16_att c) &&
  list_eqb (list_eqb pairnn_eqb) (all_events n m) (all_events n (c16_obs c)) &&
  forallb (fun i => events_never_early i m (c16_obs c) [] []) (seq 0 n).
