(* StallProofs.v — proofs about GS.Stall (C25). *)
From Coq Require Import List NArith Bool Lia.
From GS Require Import Base Alloc AllocProofs Stall.
Import ListNotations.
Open Scope N_scope.

(* ---------- the reservation ---------- *)
Lemma reserve_zero a p : reserve a p 0 = (a, None).
Proof. reflexivity. Qed.

Lemma reserve_some a p n a' t : reserve a p n = (a', Some t) -> 0 < n.
Proof.
  unfold reserve. destruct (N.eqb_spec n 0) as [->|Hn]; [discriminate|]. intros _. lia.
Qed.

(* a reservation waits exactly when the allocator's decision rule (C14_immediate_iff) says so *)
Lemma reserve_waits_iff a p n : 0 < n ->
  (exists a' t, reserve a p n = (a', Some t)) <-> can_grant_now a p n = false.
Proof.
  intro Hn. unfold reserve. destruct (N.eqb_spec n 0) as [->|_]; [lia|].
  pose proof (alloc_decision a p n) as H.
  destruct (Alloc.step a (OAlloc p n)) as [[[a1 outs] err] ok].
  destruct H as (_ & _ & Eo & _). rewrite Eo.
  destruct (can_grant_now a p n); split; intro X.
  - destruct X as (a' & t & E). discriminate.
  - discriminate.
  - reflexivity.
  - eauto.
Qed.

(* full allowance or something already waiting for the peer: the reservation waits *)
Lemma reserve_waits_when_full a p n : 0 < n ->
  (max_peer a < alloc_of a p + n \/ AllocProofs.waiting_of a p <> []) ->
  exists a' t, reserve a p n = (a', Some t).
Proof.
  intros Hn H. apply reserve_waits_iff; [exact Hn|]. unfold can_grant_now.
  destruct (AllocProofs.waiting_of a p) eqn:E; [|reflexivity].
  destruct H as [H|H]; [|congruence].
  unfold fits. apply andb_false_iff. right. apply N.leb_gt. exact H.
Qed.

(* ---------- frame facts: which components a helper touches ---------- *)
Lemma build_loop s p n a e : loop (build s p n a e) = loop s.
Proof.
  unfold build. destruct (a <? n); [|reflexivity].
  destruct (Alloc.step _ _) as [[[? ?] ?] ?]. reflexivity.
Qed.
Lemma build_mailbox s p n a e : mailbox (build s p n a e) = mailbox s.
Proof.
  unfold build. destruct (a <? n); [|reflexivity].
  destruct (Alloc.step _ _) as [[[? ?] ?] ?]. reflexivity.
Qed.
Lemma build_workers s p n a e : workers (build s p n a e) = workers s.
Proof.
  unfold build. destruct (a <? n); [|reflexivity].
  destruct (Alloc.step _ _) as [[[? ?] ?] ?]. reflexivity.
Qed.

Lemma unpause_no_ext_mailbox s r : mailbox (unpause_no_ext s r) = mailbox s.
Proof. unfold unpause_no_ext. destruct (aget r (table s)) as [e|]; [destruct (is_paused _)|]; reflexivity. Qed.
Lemma unpause_no_ext_workers s r : workers (unpause_no_ext s r) = workers s.
Proof. unfold unpause_no_ext. destruct (aget r (table s)) as [e|]; [destruct (is_paused _)|]; reflexivity. Qed.

Lemma apply_cont_mailbox s k : mailbox (apply_cont s k) = mailbox s.
Proof.
  destruct k as [p r v pa pl|r he un|r|]; simpl; try reflexivity.
  - destruct (negb v); [reflexivity|]. destruct pa; reflexivity.
  - destruct he; [destruct (aget r (table s)); reflexivity|].
    destruct un; [apply unpause_no_ext_mailbox | reflexivity].
  - destruct (aget r (table s)); reflexivity.
Qed.
Lemma apply_cont_workers s k : workers (apply_cont s k) = workers s.
Proof.
  destruct k as [p r v pa pl|r he un|r|]; simpl; try reflexivity.
  - destruct (negb v); [reflexivity|]. destruct pa; reflexivity.
  - destruct he; [destruct (aget r (table s)); reflexivity|].
    destruct un; [apply unpause_no_ext_workers | reflexivity].
  - destruct (aget r (table s)); reflexivity.
Qed.

(* a loop-side transaction: either it completes, or the loop waits with a positive size *)
Lemma transact_spec s p n st ents k rest :
  (loop (transact s p n st ents k rest) = LRun rest) \/
  (0 < n /\ exists t, loop (transact s p n st ents k rest) = LWait p t n st ents k rest).
Proof.
  unfold transact. destruct (reserve (al s) p n) as [a' [t|]] eqn:E.
  - right. split; [eapply reserve_some; eauto|]. exists t. reflexivity.
  - left. reflexivity.
Qed.
Lemma transact_mailbox s p n st ents k rest : mailbox (transact s p n st ents k rest) = mailbox s.
Proof.
  unfold transact. destruct (reserve (al s) p n) as [a' [t|]]; simpl; [reflexivity|].
  rewrite apply_cont_mailbox, build_mailbox. reflexivity.
Qed.
Lemma transact_workers s p n st ents k rest : workers (transact s p n st ents k rest) = workers s.
Proof.
  unfold transact. destruct (reserve (al s) p n) as [a' [t|]]; simpl; [reflexivity|].
  rewrite apply_cont_workers, build_workers. reflexivity.
Qed.

(* where a handler leaves the loop: done with the item, or waiting at one of the four sites with
   exactly the extension bytes of that item *)
Definition ext_site (st : site) : Prop := st = SNewReq \/ st = SUpdatePaused \/ st = SUnpause \/ st = SApiUpdate.

Lemma handle_spec s it rest :
  loop (handle s it rest) = LRun rest \/
  exists p t st ents k,
    loop (handle s it rest) = LWait p t (item_loop_ext it) st ents k rest /\
    0 < item_loop_ext it /\ ext_site st.
Proof.
  destruct it as [p r ext v pa pl|p r|p r ext he un|r ext|r ext|r|r|p r|p r|w r|w r pa]; simpl.
  - destruct (owned_by_other (table s) r p).
    { destruct (transact_spec s p 0 SRefuse [QStatus r true] KDone rest) as [H|(Hn & _)]; [left; exact H | lia]. }
    destruct (transact_spec s p ext SNewReq
               (ext_ent r ext ++ (if negb v then [QStatus r true] else if pa then [QStatus r false] else []))
               (KNew p r v pa pl) rest) as [H|(Hn & t & H)]; [left; exact H|].
    right. exists p, t, SNewReq. do 2 eexists. split; [exact H|]. split; [exact Hn|]. left; reflexivity.
  - destruct (owned_by_other (table s) r p); [left; reflexivity|].
    destruct (aget r (table s)) as [e|]; [|left; reflexivity].
    destruct (is_completing (e_state e)); [left; reflexivity|].
    destruct (is_running (e_state e)); left; reflexivity.
  - destruct (owned_by_other (table s) r p); [left; reflexivity|].
    destruct (aget r (table s)) as [e|]; [|left; reflexivity].
    destruct (is_completing (e_state e)); [left; reflexivity|].
    destruct (negb (is_paused (e_state e))); [left; reflexivity|].
    destruct (transact_spec s (e_peer e) ext SUpdatePaused
               (ext_ent r ext ++ (if he then [QStatus r true] else [])) (KUpd r he un) rest) as [H|(Hn & t & H)];
      [left; exact H|].
    right. exists (e_peer e), t, SUpdatePaused. do 2 eexists. split; [exact H|]. split; [exact Hn|].
    right; left; reflexivity.
  - destruct (aget r (table s)) as [e|]; [|left; reflexivity].
    destruct (negb (is_paused (e_state e))); [left; reflexivity|].
    destruct (N.eqb_spec ext 0) as [->|Hne]; [left; reflexivity|].
    destruct (transact_spec (put_entry s r (with_state e RQueued)) (e_peer e) ext SUnpause (ext_ent r ext)
               (KUnpause r) rest) as [H|(Hn & t & H)]; [left; exact H|].
    right. exists (e_peer e), t, SUnpause. do 2 eexists. split; [exact H|]. split; [exact Hn|].
    right; right; left; reflexivity.
  - destruct (aget r (table s)) as [e|]; [|left; reflexivity].
    destruct (transact_spec s (e_peer e) ext SApiUpdate (ext_ent r ext ++ [QStatus r false]) KDone rest)
      as [H|(Hn & t & H)]; [left; exact H|].
    right. exists (e_peer e), t, SApiUpdate. do 2 eexists. split; [exact H|]. split; [exact Hn|].
    right; right; right; reflexivity.
  - destruct (aget r (table s)) as [e|]; [|left; reflexivity].
    destruct (is_completing (e_state e)); [left; reflexivity|].
    destruct (is_running (e_state e)); left; reflexivity.
  - destruct (aget r (table s)) as [e|]; [|left; reflexivity].
    destruct (is_completing (e_state e) || is_paused (e_state e)); left; reflexivity.
  - destruct (owned_by_other (table s) r p); [left; reflexivity|].
    destruct (aget r (table s)) as [e|]; [|left; reflexivity].
    destruct (is_running (e_state e)); left; reflexivity.
  - destruct (owned_by_other (table s) r p); left; reflexivity.
  - destruct (aget w (workers s)) as [[|p0 r0|p0 r0|p0 r0 t0 n0 a0 e0 x0|p0 r0]|]; try (left; reflexivity).
    destruct (aget r (table s)) as [e|]; [|left; reflexivity].
    destruct (is_completing (e_state e)); left; reflexivity.
  - match goal with |- context [aget r (table ?s1)] => destruct (aget r (table s1)) as [e|] end;
      [|left; reflexivity].
    destruct (e_neterr e); [left; reflexivity|].
    destruct pa; [left; reflexivity|]. destruct (e_sig e); left; reflexivity.
Qed.

(* a handler whose item carries no loop-side extension data runs to completion: in particular every abort
   (requestor cancel, CancelResponse, network-error report), pause, terminate and executor round trip, in every
   state of the table and of the signal slots *)
Lemma handle_no_ext_completes s it rest : item_loop_ext it = 0 -> loop (handle s it rest) = LRun rest.
Proof.
  intro Hz. destruct (handle_spec s it rest) as [E|(p & t & st & ents & k & E & Hn & _)]; [exact E | lia].
Qed.

Lemma handle_mailbox s it rest : mailbox (handle s it rest) = mailbox s.
Proof.
  destruct it as [p r ext v pa pl|p r|p r ext he un|r ext|r ext|r|r|p r|p r|w r|w r pa]; simpl.
  - destruct (owned_by_other (table s) r p); apply transact_mailbox.
  - destruct (owned_by_other (table s) r p); [reflexivity|].
    destruct (aget r (table s)) as [e|]; [|reflexivity].
    destruct (is_completing (e_state e)); [reflexivity|]. destruct (is_running (e_state e)); reflexivity.
  - destruct (owned_by_other (table s) r p); [reflexivity|].
    destruct (aget r (table s)) as [e|]; [|reflexivity].
    destruct (is_completing (e_state e)); [reflexivity|].
    destruct (negb (is_paused (e_state e))); [reflexivity|]. apply transact_mailbox.
  - destruct (aget r (table s)) as [e|]; [|reflexivity].
    destruct (negb (is_paused (e_state e))); [reflexivity|].
    destruct (N.eqb ext 0); [reflexivity|]. rewrite transact_mailbox. reflexivity.
  - destruct (aget r (table s)) as [e|]; [|reflexivity]. apply transact_mailbox.
  - destruct (aget r (table s)) as [e|]; [|reflexivity].
    destruct (is_completing (e_state e)); [reflexivity|].
    destruct (is_running (e_state e)); [reflexivity|]. rewrite transact_mailbox. reflexivity.
  - destruct (aget r (table s)) as [e|]; [|reflexivity].
    destruct (is_completing (e_state e) || is_paused (e_state e)); reflexivity.
  - destruct (owned_by_other (table s) r p); [reflexivity|].
    destruct (aget r (table s)) as [e|]; [|reflexivity]. destruct (is_running (e_state e)); reflexivity.
  - destruct (owned_by_other (table s) r p); reflexivity.
  - destruct (aget w (workers s)) as [[|p0 r0|p0 r0|p0 r0 t0 n0 a0 e0 x0|p0 r0]|]; try reflexivity.
    destruct (aget r (table s)) as [e|]; [|reflexivity]. destruct (is_completing (e_state e)); reflexivity.
  - match goal with |- context [aget r (table ?s1)] => destruct (aget r (table s1)) as [e|] eqn:Ee end.
    + destruct (e_neterr e); [|destruct pa; [|destruct (e_sig e)]]; simpl;
        destruct (aget w (workers s)) as [[|p0 r0|p0 r0|p0 r0 t0 n0 a0 e0 x0|p0 r0]|]; reflexivity.
    + simpl. destruct (aget w (workers s)) as [[|p0 r0|p0 r0|p0 r0 t0 n0 a0 e0 x0|p0 r0]|]; reflexivity.
Qed.

(* ---------- the workers: they only append to the mailbox and never touch the loop's pc ---------- *)
Definition zero_ext (it : item) : Prop := item_loop_ext it = 0.
Definition zero_msgs (l : list (list item)) : Prop := Forall (Forall zero_ext) l.

Definition appends (s s' : state) : Prop :=
  loop s' = loop s /\ exists extra, mailbox s' = mailbox s ++ extra /\ zero_msgs extra.

Lemma appends_refl s : appends s s.
Proof. split; [reflexivity|]. exists []. rewrite app_nil_r. split; [reflexivity | constructor]. Qed.

Lemma after_tx_appends s0 s w p r nx : loop s = loop s0 -> mailbox s = mailbox s0 ->
  appends s0 (after_tx s w p r nx).
Proof.
  intros El Em. destruct nx; simpl.
  - split; [exact El|]. exists []. rewrite app_nil_r. split; [exact Em | constructor].
  - split; [exact El|]. exists [[IFinish w r true]]. split; [simpl; now rewrite Em|].
    repeat constructor.
Qed.

Lemma worker_tx_appends s0 s w p r n a e nx : loop s = loop s0 -> mailbox s = mailbox s0 ->
  appends s0 (worker_tx s w p r n a e nx).
Proof.
  intros El Em. unfold worker_tx. destruct (reserve (al s) p n) as [a' [t|]].
  - split; [exact El|]. exists []. rewrite app_nil_r. split; [exact Em | constructor].
  - apply after_tx_appends; [now rewrite build_loop | now rewrite build_mailbox].
Qed.

Lemma finish_worker_appends s0 s w p r : loop s = loop s0 -> mailbox s = mailbox s0 ->
  appends s0 (finish_worker s w p r).
Proof.
  intros El Em. split; [exact El|]. exists [[IFinish w r false]]. split; [simpl; now rewrite Em|].
  repeat constructor.
Qed.

Lemma worker_step_appends s w s' : worker_step s w = Some s' -> appends s s'.
Proof.
  unfold worker_step.
  destruct (aget w (workers s)) as [[|p0 r0|p r|p0 r0 t0 n0 a0 e0 x0|p0 r0]|]; try discriminate.
  destruct (aget r (table s)) as [e|].
  2:{ intro H; inversion H; subst. now apply finish_worker_appends. }
  destruct (e_sig e) eqn:Es.
  - destruct (e_plan e) as [|[b x] pl]; intro H; inversion H; subst.
    + apply finish_worker_appends; [apply build_loop | apply build_mailbox].
    + now apply worker_tx_appends.
  - destruct (e_plan e) as [|[b x] pl]; intro H; inversion H; subst.
    + apply finish_worker_appends; [apply build_loop | apply build_mailbox].
    + now apply worker_tx_appends.
  - intro H; inversion H; subst. apply finish_worker_appends; [apply build_loop | apply build_mailbox].
  - intro H; inversion H; subst. now apply finish_worker_appends.
Qed.

(* every label but the loop's own leaves the loop's pc alone and only appends worker round trips
   (or, for Env_Msg, the arriving message) to the mailbox *)
Lemma other_step_frame c s l s' : step c s l = Some s' -> l <> Loop_Step -> l <> Loop_Unblock ->
  loop s' = loop s /\ exists extra, mailbox s' = mailbox s ++ extra /\
                                   (label_no_loop_ext l = true -> zero_msgs extra).
Proof.
  intros H H1 H2. destruct l as [m| | |w i|w|w|q|pt]; try congruence; unfold step in H.
  - destruct (forallb env_item m); [|discriminate]. inversion H; subst. split; [reflexivity|].
    exists [m]. split; [reflexivity|]. intro Hz. simpl in Hz. constructor; [|constructor].
    unfold msg_no_loop_ext in Hz. rewrite forallb_forall in Hz. apply Forall_forall.
    intros it Hin. apply N.eqb_eq. now apply Hz.
  - destruct (aget w (workers s)) as [[|p0 r0|p0 r0|p0 r0 t0 n0 a0 e0 x0|p0 r0]|]; try discriminate.
    destruct (nth_error (tq s) i) as [[p r]|]; [|discriminate].
    destruct (_ || _); [|discriminate]. inversion H; subst. split; [reflexivity|].
    exists [[IStart w r]]. split; [reflexivity|]. intros _. repeat constructor.
  - destruct (worker_step_appends _ _ _ H) as (El & extra & Em & Hz). split; [exact El|]. eauto.
  - destruct (aget w (workers s)) as [[|p0 r0|p0 r0|p r t n a e nx|p0 r0]|]; try discriminate.
    destruct (tkt_pending (al s) p t); [discriminate|]. inversion H; subst.
    destruct (after_tx_appends s (build s p n a e) w p r nx (build_loop _ _ _ _ _) (build_mailbox _ _ _ _ _))
      as (El & extra & Em & Hz).
    split; [exact El|]. eauto.
  - destruct (is_stalled c q); [discriminate|].
    destruct (aget q (queues s)) as [[|e l]|]; try discriminate.
    destruct (N.eqb (block_bytes (e :: l)) 0).
    + inversion H; subst. split; [reflexivity|]. exists []. rewrite app_nil_r. split; [reflexivity|].
      intros _; constructor.
    + destruct (Alloc.step _ _) as [[[a' ?] ?] ?]. inversion H; subst. split; [reflexivity|].
      exists []. rewrite app_nil_r. split; [reflexivity|]. intros _; constructor.
  - inversion H; subst. split; [reflexivity|]. exists []. rewrite app_nil_r. split; [reflexivity|].
    intros _; constructor.
Qed.

Lemma label_eq_loop l : {l = Loop_Step} + {l = Loop_Unblock} + {l <> Loop_Step /\ l <> Loop_Unblock}.
Proof. destruct l; try (right; split; discriminate); [left; left | left; right]; reflexivity. Qed.

(* ---------- 1. the loop waits only at the four extension sites, with a positive size ---------- *)
Definition LoopSites (s : state) : Prop :=
  match loop s with
  | LWait _ _ n st _ _ _ => 0 < n /\ ext_site st
  | _ => True
  end.

Lemma step_loop_sites c s l s' : step c s l = Some s' -> LoopSites s -> LoopSites s'.
Proof.
  intros H HI.
  destruct (label_eq_loop l) as [[->| ->]|[Hn1 Hn2]].
  - simpl in H. destruct (loop s) as [|[|it rest]|] eqn:El; try discriminate.
    + destruct (mailbox s); [discriminate|]. inversion H; subst. exact I.
    + inversion H; subst. exact I.
    + inversion H; subst. unfold LoopSites.
      destruct (handle_spec s it rest) as [E|(p & t & st & ents & k & E & Hn & Hs)]; rewrite E; auto.
  - simpl in H. destruct (loop s) as [| |p t n st ents k rest]; try discriminate.
    destruct (tkt_pending (al s) p t); [discriminate|]. inversion H; subst. exact I.
  - destruct (other_step_frame _ _ _ _ H Hn1 Hn2) as (El & _). unfold LoopSites. now rewrite El.
Qed.

Inductive Reach (c : cfg) : state -> Prop :=
| reach_init : Reach c (init c)
| reach_step s l s' : Reach c s -> step c s l = Some s' -> Reach c s'.

Lemma steps_reach c s tr s' : steps c s tr s' -> Reach c s -> Reach c s'.
Proof. induction 1; intro R; [exact R|]. apply IHsteps. eapply reach_step; eauto. Qed.

Lemma steps_app c s tr1 s1 tr2 s2 : steps c s tr1 s1 -> steps c s1 tr2 s2 -> steps c s (tr1 ++ tr2) s2.
Proof. induction 1; intro H2; simpl; [exact H2|]. econstructor; eauto. Qed.

Lemma reach_loop_sites c s : Reach c s -> LoopSites s.
Proof. induction 1; [exact I|]. eapply step_loop_sites; eauto. Qed.

(* ---------- 2. without loop-side extension data the loop never waits ---------- *)
Definition Guard (s : state) : Prop :=
  zero_msgs (mailbox s) /\
  match loop s with
  | LIdle => True
  | LRun r => Forall zero_ext r
  | LWait _ _ _ _ _ _ _ => False
  end.

Lemma zero_msgs_app a b : zero_msgs a -> zero_msgs b -> zero_msgs (a ++ b).
Proof. unfold zero_msgs. intros. apply Forall_app. now split. Qed.

Lemma step_guard c s l s' : step c s l = Some s' -> label_no_loop_ext l = true -> Guard s -> Guard s'.
Proof.
  intros H Hl [Gm Gl].
  destruct (label_eq_loop l) as [[->| ->]|[Hn1 Hn2]].
  - simpl in H. destruct (loop s) as [|[|it rest]|] eqn:El; try discriminate.
    + destruct (mailbox s) as [|m r] eqn:Em; [discriminate|]. inversion H; subst.
      inversion Gm; subst. split; simpl; assumption.
    + inversion H; subst. split; [exact Gm | exact I].
    + inversion H; subst. inversion Gl as [|? ? Hz Hr]; subst. split.
      * now rewrite handle_mailbox.
      * destruct (handle_spec s it rest) as [E|(p & t & st & ents & k & E & Hn & Hs)]; rewrite E.
        -- exact Hr.
        -- unfold zero_ext in Hz. lia.
  - simpl in H. destruct (loop s); try discriminate. contradiction.
  - destruct (other_step_frame _ _ _ _ H Hn1 Hn2) as (El & extra & Em & Hz). split.
    + rewrite Em. apply zero_msgs_app; [exact Gm | now apply Hz].
    + now rewrite El.
Qed.

Lemma guard_init c : Guard (init c).
Proof. split; [constructor | exact I]. Qed.

Lemma steps_guard c s tr s' : steps c s tr s' -> forallb label_no_loop_ext tr = true -> Guard s -> Guard s'.
Proof.
  induction 1; intros Ht G; [exact G|]. simpl in Ht. apply andb_true_iff in Ht as [H1 H2].
  apply IHsteps; [exact H2|]. eapply step_guard; eauto.
Qed.

Lemma c25_loop_never_waits c tr s :
  steps c (init c) tr s -> forallb label_no_loop_ext tr = true -> loop_waits_on s = None.
Proof.
  intros H Ht. destruct (steps_guard _ _ _ _ H Ht (guard_init c)) as [_ Gl].
  unfold loop_waits_on. destruct (loop s); [reflexivity | reflexivity | contradiction].
Qed.

(* the general statement: wherever the loop waits, it is one of the four sites, for a positive number of
   extension bytes *)
Lemma c25_loop_wait_sites c tr s p t n st ents k rest :
  steps c (init c) tr s -> loop s = LWait p t n st ents k rest -> 0 < n /\ ext_site st.
Proof.
  intros H E. pose proof (reach_loop_sites c s (steps_reach _ _ _ _ H (reach_init c))) as L.
  unfold LoopSites in L. now rewrite E in L.
Qed.

(* ---------- 3. progress of the loop: every message is reached ---------- *)
Lemma loop_step_enabled c s : loop_waits_on s = None -> (mailbox s <> [] \/ loop s <> LIdle) ->
  exists s', step c s Loop_Step = Some s'.
Proof.
  intros Hw Hne. unfold loop_waits_on in Hw. simpl.
  destruct (loop s) as [|[|it rest]|] eqn:El; [| eauto | eauto | discriminate].
  destruct (mailbox s); [destruct Hne; congruence | eauto].
Qed.

(* work ahead of the message m when the mailbox is pre ++ m :: post *)
Definition ahead (s : state) (pre : list (list item)) : nat := (loop_cur s + msgs_work pre)%nat.

Lemma loop_step_ahead c s s' pre m post :
  step c s Loop_Step = Some s' -> mailbox s = pre ++ m :: post -> Guard s -> forallb (fun _ => true) pre = true ->
  (exists pre', mailbox s' = pre' ++ m :: post /\ (ahead s' pre' < ahead s pre)%nat) \/
  (pre = [] /\ loop s' = LRun m /\ mailbox s' = post).
Proof.
  intros H Em [Gm Gl] _. simpl in H. unfold ahead, loop_cur.
  destruct (loop s) as [|[|it rest]|] eqn:El; try discriminate.
  - rewrite Em in H. destruct pre as [|x pre0]; simpl in H; inversion H; subst; simpl.
    + right. auto.
    + left. exists pre0. split; [reflexivity|]. simpl. lia.
  - inversion H; subst. left. exists pre. split; [exact Em|]. simpl. lia.
  - inversion H; subst. left. exists pre. split; [now rewrite handle_mailbox|].
    destruct (handle_spec s it rest) as [E|(p & t & st & ents & k & E & Hn & Hs)]; rewrite E; simpl.
    + lia.
    + inversion Gl as [|? ? Hz Hr]; subst. unfold zero_ext in Hz. lia.
Qed.

Lemma other_step_ahead c s l s' pre m post :
  step c s l = Some s' -> l <> Loop_Step -> l <> Loop_Unblock -> mailbox s = pre ++ m :: post ->
  exists post', mailbox s' = pre ++ m :: post' /\ ahead s' pre = ahead s pre.
Proof.
  intros H H1 H2 Em. destruct (other_step_frame _ _ _ _ H H1 H2) as (El & extra & Ex & _).
  exists (post ++ extra). split.
  - rewrite Ex, Em, <- app_assoc. reflexivity.
  - unfold ahead, loop_cur. now rewrite El.
Qed.

(* ---------- 4. the per-peer cap bounds the workers a peer can occupy ---------- *)
Definition acn (ws : list (N * wpc)) (q : peer) : nat := length (filter (active_for q) ws).
Lemma active_count_acn ws q : active_count ws q = N.of_nat (acn ws q).
Proof. reflexivity. Qed.

Definition act (q : peer) (pc : wpc) : nat := if active_for q (0, pc) then 1%nat else 0%nat.

Lemma active_for_snd q w w' pc : active_for q (w, pc) = active_for q (w', pc).
Proof. reflexivity. Qed.

Lemma acn_aput ws w old pc q : aget w ws = Some old ->
  (acn (aput w pc ws) q + act q old = acn ws q + act q pc)%nat.
Proof.
  unfold acn, act. induction ws as [|[k v] ws IH]; simpl; [discriminate|].
  destruct (N.eqb_spec w k) as [->|Hne]; intro H.
  - inversion H; subst. simpl. rewrite (active_for_snd q k 0 pc), (active_for_snd q k 0 old).
    destruct (active_for q (0, pc)), (active_for q (0, old)); simpl; lia.
  - simpl. specialize (IH H). destruct (active_for q (k, v)); simpl; lia.
Qed.

Lemma act_same q a b : wpc_peer a = wpc_peer b -> act q a = act q b.
Proof. unfold act, active_for. simpl. now intros ->. Qed.
Lemma act_idle q : act q WIdle = 0%nat.
Proof. reflexivity. Qed.

Definition wle (ws ws' : list (N * wpc)) : Prop :=
  (forall q, (acn ws' q <= acn ws q)%nat) /\ length ws' = length ws.
Lemma wle_refl ws : wle ws ws. Proof. split; [intro; lia | reflexivity]. Qed.

Lemma length_aput {V} w (old pc : V) ws : aget w ws = Some old -> length (aput w pc ws) = length ws.
Proof.
  induction ws as [|[k v] ws IH]; simpl; [discriminate|].
  destruct (N.eqb w k); intro H; simpl; [reflexivity|]. now rewrite IH.
Qed.

Lemma wle_same_peer ws w old pc : aget w ws = Some old -> wpc_peer pc = wpc_peer old -> wle ws (aput w pc ws).
Proof.
  intros H E. split; [|eapply length_aput; eauto].
  intro q. pose proof (acn_aput ws w old pc q H). rewrite (act_same q pc old E) in H0. lia.
Qed.
Lemma wle_to_idle ws w old : aget w ws = Some old -> wle ws (aput w WIdle ws).
Proof.
  intros H. split; [|eapply length_aput; eauto].
  intro q. pose proof (acn_aput ws w old WIdle q H). rewrite act_idle in H0. lia.
Qed.

Lemma handle_workers s it rest : wle (workers s) (workers (handle s it rest)).
Proof.
  destruct it as [p r ext v pa pl|p r|p r ext he un|r ext|r ext|r|r|p r|p r|w r|w r pa]; simpl.
  - destruct (owned_by_other (table s) r p); rewrite transact_workers; apply wle_refl.
  - destruct (owned_by_other (table s) r p); [apply wle_refl|].
    destruct (aget r (table s)) as [e|]; [|apply wle_refl].
    destruct (is_completing (e_state e)); [apply wle_refl|]. destruct (is_running (e_state e)); apply wle_refl.
  - destruct (owned_by_other (table s) r p); [apply wle_refl|].
    destruct (aget r (table s)) as [e|]; [|apply wle_refl].
    destruct (is_completing (e_state e)); [apply wle_refl|].
    destruct (negb (is_paused (e_state e))); [apply wle_refl|]. rewrite transact_workers. apply wle_refl.
  - destruct (aget r (table s)) as [e|]; [|apply wle_refl].
    destruct (negb (is_paused (e_state e))); [apply wle_refl|].
    destruct (N.eqb ext 0); [apply wle_refl|]. rewrite transact_workers. apply wle_refl.
  - destruct (aget r (table s)) as [e|]; [|apply wle_refl]. rewrite transact_workers. apply wle_refl.
  - destruct (aget r (table s)) as [e|]; [|apply wle_refl].
    destruct (is_completing (e_state e)); [apply wle_refl|].
    destruct (is_running (e_state e)); [apply wle_refl|]. rewrite transact_workers. apply wle_refl.
  - destruct (aget r (table s)) as [e|]; [|apply wle_refl].
    destruct (is_completing (e_state e) || is_paused (e_state e)); apply wle_refl.
  - destruct (owned_by_other (table s) r p); [apply wle_refl|].
    destruct (aget r (table s)) as [e|]; [|apply wle_refl]. destruct (is_running (e_state e)); apply wle_refl.
  - destruct (owned_by_other (table s) r p); apply wle_refl.
  - destruct (aget w (workers s)) as [[|p0 r0|p0 r0|p0 r0 t0 n0 a0 e0 x0|p0 r0]|] eqn:Ew; try apply wle_refl.
    destruct (aget r (table s)) as [e|]; [|simpl; eapply wle_to_idle; eauto].
    destruct (is_completing (e_state e)); simpl; [eapply wle_to_idle; eauto|].
    eapply wle_same_peer; eauto.
  - destruct (aget w (workers s)) as [[|p0 r0|p0 r0|p0 r0 t0 n0 a0 e0 x0|p0 r0]|] eqn:Ew;
      match goal with |- context [aget r (table ?s1)] => destruct (aget r (table s1)) as [e|] end;
      try (destruct (e_neterr e); [|destruct pa; [|destruct (e_sig e)]]); simpl; try apply wle_refl; eapply wle_to_idle; eauto.
Qed.

Lemma after_tx_workers s w p r nx old : aget w (workers s) = Some old -> wpc_peer old = Some p ->
  wle (workers s) (workers (after_tx s w p r nx)).
Proof. intros H E. destruct nx; simpl; eapply wle_same_peer; eauto. Qed.

Lemma worker_step_workers s w s' : worker_step s w = Some s' -> wle (workers s) (workers s').
Proof.
  unfold worker_step.
  destruct (aget w (workers s)) as [[|p0 r0|p r|p0 r0 t0 n0 a0 e0 x0|p0 r0]|] eqn:Ew; try discriminate.
  assert (Hfin : forall s1, workers s1 = workers s -> wle (workers s) (workers (finish_worker s1 w p r))).
  { intros s1 E. simpl. rewrite E. eapply wle_same_peer; eauto. }
  assert (Htx : forall s1 n a e nx, workers s1 = workers s -> wle (workers s) (workers (worker_tx s1 w p r n a e nx))).
  { intros s1 n a e nx E. unfold worker_tx. destruct (reserve (al s1) p n) as [a' [t|]].
    - simpl. rewrite E. eapply wle_same_peer; eauto.
    - pose proof (after_tx_workers (build (set_al s1 a') p n a e) w p r nx (WRun p r)) as H.
      rewrite build_workers in H. simpl in H. rewrite E in H. exact (H Ew eq_refl). }
  destruct (aget r (table s)) as [e|].
  2:{ intro H; inversion H; subst. now apply Hfin. }
  destruct (e_sig e) eqn:Es.
  - destruct (e_plan e) as [|[b x] pl]; intro H; inversion H; subst.
    + apply Hfin. apply build_workers.
    + now apply Htx.
  - destruct (e_plan e) as [|[b x] pl]; intro H; inversion H; subst.
    + apply Hfin. apply build_workers.
    + now apply Htx.
  - intro H; inversion H; subst. apply Hfin. apply build_workers.
  - intro H; inversion H; subst. now apply Hfin.
Qed.

Definition CapInv (c : cfg) (s : state) : Prop :=
  0 < c_cap c -> forall p, active_count (workers s) p <= c_cap c.

Lemma step_wle c s l s' : step c s l = Some s' -> (forall w i, l <> Worker_Pop w i) ->
  wle (workers s) (workers s').
Proof.
  intros H Hnp.
  destruct l as [m| | |w i|w|w|q|pt]; unfold step in H.
  - destruct (forallb env_item m); [|discriminate]. inversion H; subst. apply wle_refl.
  - destruct (loop s) as [|[|it rest]|]; try discriminate.
    + destruct (mailbox s); [discriminate|]. inversion H; subst. apply wle_refl.
    + inversion H; subst. apply wle_refl.
    + inversion H; subst. apply handle_workers.
  - destruct (loop s) as [| |p0 t n st ents k rest]; try discriminate.
    destruct (tkt_pending (al s) p0 t); [discriminate|]. inversion H; subst. simpl.
    rewrite apply_cont_workers, build_workers. apply wle_refl.
  - exfalso. eapply Hnp; reflexivity.
  - eapply worker_step_workers; eauto.
  - destruct (aget w (workers s)) as [[|p0 r0|p0 r0|p1 r t n a e nx|p0 r0]|] eqn:Ew; try discriminate.
    destruct (tkt_pending (al s) p1 t); [discriminate|]. inversion H; subst.
    pose proof (after_tx_workers (build s p1 n a e) w p1 r nx (WWait p1 r t n a e nx)) as L.
    rewrite build_workers in L. exact (L Ew eq_refl).
  - destruct (is_stalled c q); [discriminate|].
    destruct (aget q (queues s)) as [[|e l]|]; try discriminate.
    destruct (N.eqb (block_bytes (e :: l)) 0).
    + inversion H; subst. apply wle_refl.
    + destruct (Alloc.step _ _) as [[[a' ?] ?] ?]. inversion H; subst. apply wle_refl.
  - inversion H; subst. apply wle_refl.
Qed.

Lemma label_is_pop l : {wi | l = Worker_Pop (fst wi) (snd wi)} + {forall w i, l <> Worker_Pop w i}.
Proof. destruct l; try (right; intros; discriminate). left. exists (w, i). reflexivity. Qed.

Lemma step_cap c s l s' : step c s l = Some s' -> CapInv c s -> CapInv c s'.
Proof.
  intros H HI Hc p. specialize (HI Hc).
  destruct (label_is_pop l) as [[[w i] ->]|Hnp].
  - simpl in H.
    destruct (aget w (workers s)) as [[|p0 r0|p0 r0|p0 r0 t0 n0 a0 e0 x0|p0 r0]|] eqn:Ew; try discriminate.
    destruct (nth_error (tq s) i) as [[p1 r]|]; [|discriminate].
    destruct (N.eqb_spec (c_cap c) 0) as [E0|_]; [lia|]. simpl in H.
    destruct (N.ltb_spec (active_count (workers s) p1) (c_cap c)) as [Hlt|]; [|discriminate].
    inversion H; subst. simpl.
    pose proof (acn_aput (workers s) w WIdle (WStarting p1 r) p Ew) as E. rewrite act_idle in E.
    rewrite active_count_acn in *. unfold act, active_for in E. simpl in E.
    destruct (N.eqb_spec p1 p) as [->|Hne].
    + lia.
    + specialize (HI p). rewrite active_count_acn in HI. lia.
  - destruct (step_wle _ _ _ _ H Hnp) as [L _]. specialize (L p). specialize (HI p).
    rewrite active_count_acn in *. lia.
Qed.

Lemma step_len c s l s' : step c s l = Some s' -> length (workers s') = length (workers s).
Proof.
  intro H. destruct (label_is_pop l) as [[[w i] ->]|Hnp].
  - simpl in H.
    destruct (aget w (workers s)) as [[|p0 r0|p0 r0|p0 r0 t0 n0 a0 e0 x0|p0 r0]|] eqn:Ew; try discriminate.
    destruct (nth_error (tq s) i) as [[p1 r]|]; [|discriminate].
    destruct (_ || _); [|discriminate]. inversion H; subst. simpl. eapply length_aput; eauto.
  - now destruct (step_wle _ _ _ _ H Hnp).
Qed.

Lemma acn_mk_workers n i q : acn (mk_workers n i) q = 0%nat.
Proof. revert i; induction n; intro i; simpl; [reflexivity|]. unfold acn in *. simpl. apply IHn. Qed.

Lemma c25_workers_bounded c s : Reach c s -> CapInv c s.
Proof.
  induction 1.
  - intros _ p. simpl. rewrite active_count_acn, acn_mk_workers. simpl. lia.
  - eapply step_cap; eauto.
Qed.

Lemma length_mk_workers n i : length (mk_workers n i) = n.
Proof. revert i; induction n; intro i; simpl; [reflexivity | now rewrite IHn]. Qed.

Lemma reach_len c s : Reach c s -> length (workers s) = N.to_nat (c_workers c).
Proof.
  induction 1; [apply length_mk_workers|]. erewrite step_len; eauto.
Qed.

(* workers occupied by any peer of a set *)
Definition busy_for (ps : list peer) (x : N * wpc) : bool := existsb (fun p => active_for p x) ps.

Lemma filter_or_le {A} (f g : A -> bool) l :
  (length (filter (fun x => f x || g x) l) <= length (filter f l) + length (filter g l))%nat.
Proof. induction l as [|x l IH]; simpl; [lia|]. destruct (f x), (g x); simpl; lia. Qed.

Lemma busy_le ps ws k : (forall p, In p ps -> (acn ws p <= k)%nat) ->
  (length (filter (busy_for ps) ws) <= length ps * k)%nat.
Proof.
  induction ps as [|p ps IH]; intro H.
  - assert (E : filter (busy_for []) ws = []) by (clear; induction ws; simpl; auto). rewrite E. simpl. lia.
  - pose proof (filter_or_le (active_for p) (busy_for ps) ws) as L.
    assert (E : filter (busy_for (p :: ps)) ws = filter (fun x => active_for p x || busy_for ps x) ws) by reflexivity.
    rewrite E. specialize (IH (fun q Hq => H q (or_intror Hq))). specialize (H p (or_introl eq_refl)).
    unfold acn in H. simpl. lia.
Qed.

Lemma filter_lt_exists {A} (f : A -> bool) l : (length (filter f l) < length l)%nat ->
  exists x, In x l /\ f x = false.
Proof.
  induction l as [|x l IH]; simpl; [lia|]. destruct (f x) eqn:E; simpl; intro H.
  - destruct IH as (y & Hy & Ey); [lia|]. eauto.
  - eauto.
Qed.

(* with the per-peer cap set and cap * (number of stalled peers) below the number of workers, some worker is
   always idle or working for a peer that is not stalled *)
Lemma c25_worker_free c s : Reach c s -> 0 < c_cap c ->
  (length (c_stalled c) * N.to_nat (c_cap c) < N.to_nat (c_workers c))%nat ->
  exists w pc, In (w, pc) (workers s) /\ forall p, In p (c_stalled c) -> wpc_peer pc <> Some p.
Proof.
  intros R Hc Hlt. pose proof (c25_workers_bounded c s R Hc) as B. pose proof (reach_len c s R) as L.
  assert (Hb : (length (filter (busy_for (c_stalled c)) (workers s)) <= length (c_stalled c) * N.to_nat (c_cap c))%nat).
  { apply busy_le. intros p _. specialize (B p). rewrite active_count_acn in B. lia. }
  destruct (filter_lt_exists (busy_for (c_stalled c)) (workers s)) as ([w pc] & Hin & Hf); [lia|].
  exists w, pc. split; [exact Hin|]. intros p Hp E.
  unfold busy_for in Hf. rewrite <- not_true_iff_false in Hf. apply Hf.
  apply existsb_exists. exists p. split; [exact Hp|]. unfold active_for. simpl. rewrite E. apply N.eqb_refl.
Qed.

(* ---------- 5. the deterministic scheduler only takes steps of the LTS ---------- *)
Lemma first_some_try c s ls l s' : first_some (try_label c s) ls = Some (l, s') -> step c s l = Some s'.
Proof.
  induction ls as [|x ls IH]; simpl; [discriminate|]. unfold try_label at 1.
  destruct (step c s x) as [s1|] eqn:E; [|exact IH]. intro H; inversion H; subst. exact E.
Qed.

Lemma settle_steps f c : forall s s' tr, settle f c s = (s', tr) -> steps c s tr s'.
Proof.
  induction f as [|f IH]; intros s s' tr; simpl.
  - intro H; inversion H; subst. constructor.
  - destruct (next_internal c s) as [[l s1]|] eqn:E.
    + destruct (settle f c s1) as [s2 tr2] eqn:E2. intro H; inversion H; subst.
      econstructor; [eapply first_some_try; exact E | now apply IH].
    + intro H; inversion H; subst. constructor.
Qed.

Lemma run_script_steps f c es : forall s s' tr, run_script f c s es = (s', tr) -> steps c s tr s'.
Proof.
  induction es as [|e es IH]; intros s s' tr; cbn [run_script].
  - intro H; inversion H; subst. constructor.
  - destruct (step c s (sev_label e)) as [s1|] eqn:E1; [|intro H; inversion H; subst; constructor].
    destruct (settle f c s1) as [s2 tr2] eqn:E2. destruct (run_script f c s2 es) as [s3 tr3] eqn:E3.
    intro H; inversion H; subst. econstructor; [exact E1|].
    eapply steps_app; [eapply settle_steps; eauto | now apply IH].
Qed.

Lemma run_msgs_steps f c ms : forall s s' tr, run_msgs f c s ms = (s', tr) -> steps c s tr s'.
Proof. intros s s' tr. apply run_script_steps. Qed.

(* a write to the peer table is enabled in every state and changes nothing (see [step]) *)
Lemma peer_table_write_never_blocks c s p : step c s (Env_PeerTable p) = Some s.
Proof. reflexivity. Qed.

Lemma run_msgs_reach f c ms : steps c (init c) (snd (run_msgs f c (init c) ms)) (fst (run_msgs f c (init c) ms)).
Proof. apply (run_msgs_steps f c ms). apply surjective_pairing. Qed.

(* ---------- 6. the refutations: what the code does at each loop-side site, and with the worker pool ---------- *)
(* the loop waits for memory of the stalled peer p while a request of another peer q sits in the mailbox,
   and nothing but the end of the stall can change that: no internal label is enabled *)
Definition loop_blocks_other (c : cfg) (s : state) (p q : peer) (st : site) : Prop :=
  is_stalled c p = true /\ q <> p /\
  (exists t n ents k rest, loop s = LWait p t n st ents k rest /\ tkt_pending (al s) p t = true) /\
  (exists m it, In m (mailbox s) /\ In it m /\ item_peer it = Some q) /\
  quiescent c s = true.

(* every worker waits for memory of the stalled peer p while a task of q is pending *)
Definition pool_blocks_other (c : cfg) (s : state) (p q : peer) : Prop :=
  is_stalled c p = true /\ q <> p /\
  (forall x, In x (workers s) -> worker_waits_on (snd x) = Some p) /\
  (exists r, In (q, r) (tq s)) /\ loop s = LIdle /\ mailbox s = [] /\
  quiescent c s = true.

Definition wit_cfg : cfg :=
  {| c_workers := 2; c_cap := 0; c_maxtotal := 100000; c_maxpeer := 1000; c_stalled := [1] |}.
Definition wit_fill : list item := [INew 1 10 0 true false [(1000, 0)]].
Definition wit_paused : list item := [INew 1 11 0 true true [(5, 0)]].
Definition wit_probe : list item := [INew 2 20 0 true false [(10, 0)]].

Definition wit_newreq := [wit_fill; [INew 1 11 7 true false [(5, 0)]]; wit_probe].
Definition wit_update := [wit_fill; wit_paused; [IUpdate 1 11 7 false false]; wit_probe].
Definition wit_unpause := [wit_fill; wit_paused; [IApiUnpause 11 7]; wit_probe].
Definition wit_apiupdate := [wit_fill; wit_paused; [IApiUpdate 11 7]; wit_probe].
Definition wit_pool := [[INew 1 10 0 true false [(600, 0); (600, 0)]]; [INew 1 11 0 true false [(600, 0); (600, 0)]]; wit_probe].

Definition site_eqb (a b : site) : bool :=
  match a, b with
  | SNewReq, SNewReq | SUpdatePaused, SUpdatePaused | SUnpause, SUnpause | SApiUpdate, SApiUpdate
  | SAbortStatus, SAbortStatus | SRefuse, SRefuse => true
  | _, _ => false
  end.
Lemma site_eqb_eq a b : site_eqb a b = true -> a = b.
Proof. destruct a, b; simpl; intro H; try discriminate; reflexivity. Qed.

(* executable form of the two predicates, for the stalled peer 1 and the other peer 2 *)
Definition site_check (c : cfg) (s : state) (st : site) : bool :=
  is_stalled c 1 &&
  match loop s with
  | LWait p t _ st' _ _ _ => N.eqb p 1 && tkt_pending (al s) 1 t && site_eqb st' st
  | _ => false
  end &&
  existsb (fun m => existsb (fun it => match item_peer it with Some q => N.eqb q 2 | None => false end) m) (mailbox s) &&
  quiescent c s.

Lemma site_check_sound c s st : site_check c s st = true -> loop_blocks_other c s 1 2 st.
Proof.
  unfold site_check. intro H.
  apply andb_true_iff in H as [H H4]. apply andb_true_iff in H as [H H3]. apply andb_true_iff in H as [H1 H2].
  split; [exact H1|]. split; [discriminate|]. split; [|split; [|exact H4]].
  - destruct (loop s) as [| |p t n st' ents k rest]; try discriminate.
    apply andb_true_iff in H2 as [H2 Hs]. apply andb_true_iff in H2 as [Ep Hp].
    apply N.eqb_eq in Ep. apply site_eqb_eq in Hs. rewrite Ep, Hs. exists t, n, ents, k, rest. auto.
  - apply existsb_exists in H3 as (m & Hm & H3). apply existsb_exists in H3 as (it & Hit & H3).
    exists m, it. split; [exact Hm|]. split; [exact Hit|].
    destruct (item_peer it) as [q|]; [|discriminate]. apply N.eqb_eq in H3. rewrite H3. reflexivity.
Qed.

Definition pool_check (c : cfg) (s : state) (r : rid) : bool :=
  is_stalled c 1 &&
  forallb (fun x => match worker_waits_on (snd x) with Some q => N.eqb q 1 | None => false end) (workers s) &&
  existsb (fun x => N.eqb (fst x) 2 && N.eqb (snd x) r) (tq s) &&
  match loop s with LIdle => true | _ => false end &&
  match mailbox s with [] => true | _ => false end &&
  quiescent c s.

Lemma pool_check_sound c s r : pool_check c s r = true -> pool_blocks_other c s 1 2.
Proof.
  unfold pool_check. intro H.
  apply andb_true_iff in H as [H H6]. apply andb_true_iff in H as [H H5]. apply andb_true_iff in H as [H H4].
  apply andb_true_iff in H as [H H3]. apply andb_true_iff in H as [H1 H2].
  split; [exact H1|]. split; [discriminate|]. split; [|split; [|split; [|split; [|exact H6]]]].
  - rewrite forallb_forall in H2. intros x Hx. specialize (H2 x Hx).
    destruct (worker_waits_on (snd x)) as [q|]; [|discriminate]. apply N.eqb_eq in H2. rewrite H2. reflexivity.
  - apply existsb_exists in H3 as ([q r'] & Hin & Hqr). apply andb_true_iff in Hqr as [A B].
    apply N.eqb_eq in A, B. cbn [fst snd] in A, B. rewrite A in Hin. exists r'. exact Hin.
  - destruct (loop s); [reflexivity | discriminate | discriminate].
  - destruct (mailbox s); [reflexivity | discriminate].
Qed.

Lemma witness_reached (P : state -> Prop) ms :
  P (fst (run_msgs case_fuel wit_cfg (init wit_cfg) ms)) ->
  exists tr s, steps wit_cfg (init wit_cfg) tr s /\ P s.
Proof.
  intro H. exists (snd (run_msgs case_fuel wit_cfg (init wit_cfg) ms)), (fst (run_msgs case_fuel wit_cfg (init wit_cfg) ms)).
  split; [apply run_msgs_reach | exact H].
Qed.

Lemma c25_refuted_newreq : exists tr s, steps wit_cfg (init wit_cfg) tr s /\ loop_blocks_other wit_cfg s 1 2 SNewReq.
Proof. apply (witness_reached _ wit_newreq). apply site_check_sound. vm_compute. reflexivity. Qed.
Lemma c25_refuted_update : exists tr s, steps wit_cfg (init wit_cfg) tr s /\ loop_blocks_other wit_cfg s 1 2 SUpdatePaused.
Proof. apply (witness_reached _ wit_update). apply site_check_sound. vm_compute. reflexivity. Qed.
Lemma c25_refuted_unpause : exists tr s, steps wit_cfg (init wit_cfg) tr s /\ loop_blocks_other wit_cfg s 1 2 SUnpause.
Proof. apply (witness_reached _ wit_unpause). apply site_check_sound. vm_compute. reflexivity. Qed.
Lemma c25_refuted_apiupdate : exists tr s, steps wit_cfg (init wit_cfg) tr s /\ loop_blocks_other wit_cfg s 1 2 SApiUpdate.
Proof. apply (witness_reached _ wit_apiupdate). apply site_check_sound. vm_compute. reflexivity. Qed.

Lemma c25_refuted_pool : exists tr s, steps wit_cfg (init wit_cfg) tr s /\ pool_blocks_other wit_cfg s 1 2.
Proof. apply (witness_reached _ wit_pool). apply (pool_check_sound _ _ 20). vm_compute. reflexivity. Qed.

(* ---------- 7. the requestor: its loop never waits ---------- *)
Lemma q_do_sends_never_waits l : forall a out rest a' out' pc,
  q_do_sends a out l rest = (a', out', pc) -> pc = QRun rest /\ a' = a.
Proof.
  induction l as [|[p r] l IH]; intros a out rest a' out' pc; simpl.
  - intro H; inversion H; subst. auto.
  - (* send_request_size = 0: the allocator is not consulted *)
    change (reserve a p send_request_size) with (a, @None ticket). apply IH.
Qed.

Definition qwaits (s : qstate) : bool := match q_loop s with QWait _ _ _ => true | _ => false end.

Lemma qstep_never_waits s l s' : qstep s l = Some s' -> qwaits s = false -> qwaits s' = false.
Proof.
  destruct l as [m| |o]; simpl.
  - intro H; inversion H; subst. auto.
  - unfold qwaits. destruct (q_loop s) as [|[|it rest]|]; try discriminate.
    + destruct (q_mailbox s); [discriminate|]. intro H; inversion H; subst. reflexivity.
    + intro H; inversion H; subst. reflexivity.
    + destruct (q_do_sends (q_al s) (q_out s) (q_sends it) rest) as [[a' out'] pc] eqn:E.
      apply q_do_sends_never_waits in E as [-> _]. intro H; inversion H; subst. reflexivity.
  - destruct (Alloc.step (q_al s) o) as [[[a' ?] ?] ?]. intro H; inversion H; subst. auto.
Qed.

Lemma c25_requestor mt mp tr s : qsteps (qinit mt mp) tr s -> qwaits s = false.
Proof.
  intro H. assert (G : qwaits (qinit mt mp) = false) by reflexivity. revert G.
  induction H; intro G; [exact G|]. apply IHqsteps. eapply qstep_never_waits; eauto.
Qed.

(* and it always has a next step while there is something to do *)
Lemma c25_requestor_progress s : qwaits s = false -> (q_mailbox s <> [] \/ q_loop s <> QIdle) ->
  exists s', qstep s QLoop = Some s'.
Proof.
  unfold qwaits. intros Hw Hne. simpl. destruct (q_loop s) as [|[|it rest]|]; try discriminate.
  - destruct (q_mailbox s); [destruct Hne; congruence | eauto].
  - eauto.
  - destruct (q_do_sends (q_al s) (q_out s) (q_sends it) rest) as [[a' out'] pc]. eauto.
Qed.
