(* TaskQueueRank.v — progress of the task-queue model when arrivals are finite (C21):
   the peer heap always has a root to present (DefaultPeerComparator is a strict order, so a
   comparator-maximal tracker exists whenever a tracker exists: PopTasks is total), and a ranking
   function over whole runs: no label other than a push increases it, and while a task is queued some
   worker / ticker / completion label that strictly decreases it is enabled. *)
From Coq Require Import List NArith ZArith Bool Arith Lia Permutation.
From GS Require Import Base TaskQueue TaskQueueProofs TaskQueueLive TaskQueueInv.
Import ListNotations.
Open Scope N_scope.

(* ---------- DefaultPeerComparator is a strict (irreflexive, transitive) order ---------- *)
Lemma peer_cmp_spec a b :
  peer_cmp a b = true <->
  npend a <> O /\ (npend b = O \/ (tr_freeze a < tr_freeze b)%nat \/
                  (tr_freeze a = tr_freeze b /\ ((nact a = nact b /\ (npend b < npend a)%nat) \/ (nact a < nact b)%nat))).
Proof.
  unfold peer_cmp.
  destruct (Nat.eqb_spec (npend a) 0); [split; [discriminate | lia]|].
  destruct (Nat.eqb_spec (npend b) 0); [split; [lia | reflexivity]|].
  destruct (Nat.ltb_spec (tr_freeze b) (tr_freeze a)); [split; [discriminate | lia]|].
  destruct (Nat.ltb_spec (tr_freeze a) (tr_freeze b)); [split; [lia | reflexivity]|].
  destruct (Nat.eqb_spec (nact a) (nact b)).
  - destruct (Nat.ltb_spec (npend b) (npend a)); (split; [intro; try discriminate; lia | intro; try reflexivity; exfalso; lia]).
  - destruct (Nat.ltb_spec (nact a) (nact b)); (split; [intro; try discriminate; lia | intro; try reflexivity; exfalso; lia]).
Qed.

Lemma peer_cmp_irrefl a : peer_cmp a a = false.
Proof. destruct (peer_cmp a a) eqn:E; [|reflexivity]. apply peer_cmp_spec in E. lia. Qed.

Lemma peer_cmp_trans a b c : peer_cmp a b = true -> peer_cmp b c = true -> peer_cmp a c = true.
Proof. rewrite !peer_cmp_spec. lia. Qed.

Lemma exists_max (l : trackers) :
  l <> [] -> exists m, In m l /\ forall y, In y l -> peer_cmp (snd y) (snd m) = false.
Proof.
  induction l as [|x r IH]; [congruence|]. intros _. destruct r as [|x2 r2].
  - exists x. split; [now left|]. intros y [<-|[]]. apply peer_cmp_irrefl.
  - destruct IH as (m & Hm & Hmax); [discriminate|].
    destruct (peer_cmp (snd x) (snd m)) eqn:E.
    + exists x. split; [now left|]. intros y [<-|Hy]; [apply peer_cmp_irrefl|].
      destruct (peer_cmp (snd y) (snd x)) eqn:E2; [|reflexivity].
      rewrite <- (Hmax y Hy). symmetry. eapply peer_cmp_trans; eauto.
    + exists m. split; [now right|]. intros y [<-|Hy]; [exact E | now apply Hmax].
Qed.

(* the heap has a root: some tracker is not ranked below any other *)
Theorem exists_top (trk : trackers) : trk <> [] -> NoDup (map fst trk) -> exists p, is_top trk p = true.
Proof.
  intros Hne Hk. destruct (exists_max trk Hne) as ([p t] & Hin & Hmax).
  exists p. unfold is_top. rewrite (in_aget _ _ _ Hk Hin). apply forallb_forall. intros y Hy.
  apply negb_true_iff. exact (Hmax y Hy).
Qed.

(* PopTasks is total: presented with a root it always returns *)
Lemma pop_total cfg trk p : is_top trk p = true -> exists r, pop_tasks cfg trk (Some p) = Some r.
Proof.
  intro H. unfold pop_tasks. rewrite H. unfold is_top in H. destruct (aget p trk) as [t|]; [|discriminate].
  destruct (tr_pop (c_maxpp cfg) t) as [o t']. eauto.
Qed.

(* ---------- sums over trackers ---------- *)
Definition sumf (f : tracker -> nat) (trk : trackers) : nat := fold_right (fun qt acc => (f (snd qt) + acc)%nat) O trk.

Lemma sumf_aput f trk p t : f tr_new = O -> (sumf f (aput p t trk) + f (trk_of trk p) = sumf f trk + f t)%nat.
Proof.
  intro H0. unfold trk_of. induction trk as [|[q u] r IH]; simpl; [lia|].
  destruct (N.eqb_spec p q); simpl; lia.
Qed.
Lemma sumf_adel_le f trk p : (sumf f (adel p trk) <= sumf f trk)%nat.
Proof. unfold adel. induction trk as [|[q u] r IH]; simpl; [lia|]. destruct (negb (q =? p)); simpl; lia. Qed.
Lemma sumf_adel f trk p : NoDup (map fst trk) -> f tr_new = O -> (sumf f (adel p trk) + f (trk_of trk p) = sumf f trk)%nat.
Proof.
  intros Hk H0. unfold trk_of, adel. induction trk as [|[q u] r IH]; simpl; [lia|].
  simpl in Hk. apply NoDup_cons_iff in Hk as [Hnotin Hk']. destruct (N.eqb_spec q p) as [->|Hn]; simpl.
  - rewrite N.eqb_refl.
    assert (E : filter (fun x => negb (fst x =? p)) r = r).
    { apply filter_all. intros [a b] Hab. simpl. destruct (N.eqb_spec a p) as [->|]; [|reflexivity].
      exfalso. apply Hnotin. change p with (fst (p, b)). now apply in_map. }
    rewrite E. lia.
  - destruct (N.eqb_spec p q); [congruence|]. specialize (IH Hk'). lia.
Qed.
Lemma sumf_pos f trk : (0 < sumf f trk)%nat -> exists q t, In (q, t) trk /\ (0 < f t)%nat.
Proof.
  induction trk as [|[q u] r IH]; simpl; intro H; [lia|].
  destruct (f u) eqn:E; [destruct (IH H) as (q' & t & Hi & Hp); exists q', t; auto | exists q, u; split; [now left | lia]].
Qed.
Lemma sumf_zero f trk q t : sumf f trk = O -> In (q, t) trk -> f t = O.
Proof.
  induction trk as [|[q' u] r IH]; simpl; intros H Hin; [contradiction|].
  destruct Hin as [E|Hi]; [inversion E; subst; lia | apply IH; [lia | exact Hi]].
Qed.

Lemma aput_same {V} p (t : V) m : aget p m = Some t -> aput p t m = m.
Proof.
  induction m as [|[q u] r IH]; simpl; [discriminate|].
  destruct (N.eqb_spec p q); intro H; [inversion H; subst; reflexivity | now rewrite IH].
Qed.
Lemma length_aput_some (p : peer) (t t' : tracker) (m : trackers) :
  aget p m = Some t -> @length (peer * tracker) (aput p t' m) = @length (peer * tracker) m.
Proof.
  induction m as [|[q u] r IH]; simpl; [discriminate|].
  destruct (N.eqb_spec p q); intro H; simpl; [reflexivity | now rewrite IH].
Qed.

(* ---------- the ranking function ---------- *)
Definition pending_total (s : state) : nat := sumf npend (st_trk s).
Definition trank (trk : trackers) : nat := (3 * sumf npend trk + sumf tr_freeze trk + length trk)%nat.
Definition wt (x : wstate) : nat := match x with WRunning _ _ => 2%nat | WReady => 1%nat | WWaiting => O end.
Definition ww (ws : list wstate) : nat := fold_right (fun x acc => (wt x + acc)%nat) O ws.
Definition rank (s : state) : nat := (trank (st_trk s) + ww (st_w s) + (if st_sig s then 1 else 0))%nat.

Lemma ww_upd ws w old new : nth_error ws w = Some old -> (ww (upd w new ws) + wt old = ww ws + wt new)%nat.
Proof.
  revert w; induction ws as [|y r IH]; intros [|w]; simpl; intro H; try discriminate.
  - inversion H; subst. lia.
  - specialize (IH _ H). lia.
Qed.

Lemma del_id_shorter l b : In b l -> (length (del_id (t_id b) l) < length l)%nat.
Proof.
  unfold del_id. induction l as [|x r IH]; simpl; intro H; [contradiction|].
  destruct H as [->|H].
  - rewrite N.eqb_refl. simpl. pose proof (filter_length_le (fun t => negb (t_id t =? t_id b)) r). lia.
  - specialize (IH H). destruct (negb (t_id x =? t_id b)); simpl; lia.
Qed.

Lemma del_topic_shorter tp l : has_topic tp l = true -> (length (del_topic tp l) < length l)%nat.
Proof.
  unfold del_topic, has_topic. induction l as [|x r IH]; simpl; intro H; [discriminate|].
  destruct (N.eqb (t_topic x) tp) eqn:E; simpl.
  - pose proof (filter_length_le (fun t => negb (t_topic t =? tp)) r). lia.
  - simpl in H. specialize (IH H). lia.
Qed.

(* PopTasks never raises the tracker part of the rank; handing out a task lowers it by at least 3 *)
Lemma pop_trank cfg trk top trk' o :
  pop_tasks cfg trk top = Some (trk', o) ->
  match o with Some _ => (trank trk' + 3 <= trank trk)%nat | None => (trank trk' <= trank trk)%nat end.
Proof.
  unfold pop_tasks. destruct top as [p|].
  2:{ destruct trk; [|discriminate]. intro H; inversion H; subst. lia. }
  destruct (is_top trk p); [|discriminate].
  destruct (aget p trk) as [t|] eqn:Et; [|discriminate].
  destruct (tr_pop (c_maxpp cfg) t) as [o1 t1] eqn:Ep. intro H; inversion H; subst; clear H.
  pose proof (trk_of_some _ _ _ Et) as Eof.
  destruct (tr_pop_cases _ _ _ _ Ep) as [[-> ->] | (b & -> & Eb & Hfz & Hlim & ->)].
  - destruct (tr_idle t).
    + unfold trank. pose proof (sumf_adel_le npend trk p). pose proof (sumf_adel_le tr_freeze trk p).
      assert (@length (peer * tracker) (adel p trk) <= @length (peer * tracker) trk)%nat by (unfold adel; apply filter_length_le). lia.
    + rewrite (aput_same _ _ _ Et). lia.
  - rewrite tr_idle_false by (simpl; destruct (tr_active t); discriminate).
    unfold trank. rewrite (length_aput_some _ _ _ _ Et).
    match goal with |- context [aput p ?t' trk] => pose proof (sumf_aput npend trk p t' eq_refl) as H1;
                                                    pose proof (sumf_aput tr_freeze trk p t' eq_refl) as H2 end.
    rewrite Eof in H1, H2. unfold npend in *. simpl in H1, H2.
    pose proof (del_id_shorter _ _ (best_in _ _ Eb)). lia.
Qed.

Lemma thaw_le t : (tr_freeze (thaw t) <= tr_freeze t)%nat.
Proof. unfold thaw; cbn [tr_freeze]. lia. Qed.

Lemma sumf_npend_thaw trk : sumf npend (thaw_round trk) = sumf npend trk.
Proof.
  unfold thaw_round. induction trk as [|[q t] r IH]; simpl; [reflexivity|]. rewrite IH.
  destruct (Nat.eqb (tr_freeze t) 0); reflexivity.
Qed.

Lemma sumf_freeze_thaw trk :
  (sumf tr_freeze (thaw_round trk) <= sumf tr_freeze trk)%nat /\
  ((exists q t, In (q, t) trk /\ tr_freeze t <> O) -> (sumf tr_freeze (thaw_round trk) < sumf tr_freeze trk)%nat).
Proof.
  unfold thaw_round. induction trk as [|[q t] r IH]; simpl.
  - split; [lia|]. intros (q & t & [] & _).
  - destruct IH as [IH1 IH2]. destruct (Nat.eqb_spec (tr_freeze t) 0) as [E|E]; simpl.
    + split; [lia|]. intros (q' & t' & [Ei|Hi] & Hnz); [inversion Ei; subst; contradiction|].
      assert (Hlt : (sumf tr_freeze (map (fun qt => (fst qt, if Nat.eqb (tr_freeze (snd qt)) 0 then snd qt else thaw (snd qt))) r) < sumf tr_freeze r)%nat)
        by (apply IH2; eauto).
      lia.
    + pose proof (thaw_decreases t E) as Hd. simpl in Hd. split; [lia|]. intros _. lia.
Qed.

Lemma trank_thaw trk : (trank (thaw_round trk) <= trank trk)%nat /\
  ((exists q t, In (q, t) trk /\ tr_freeze t <> O) -> (trank (thaw_round trk) < trank trk)%nat).
Proof.
  unfold trank. rewrite sumf_npend_thaw. destruct (sumf_freeze_thaw trk) as [H1 H2].
  assert (El : @length (peer * tracker) (thaw_round trk) = @length (peer * tracker) trk) by (unfold thaw_round; apply map_length).
  rewrite El. split; [lia|]. intro Hx. specialize (H2 Hx). lia.
Qed.

Lemma after_pop_rank s w sig r old :
  nth_error (st_w s) w = Some old ->
  (rank (fst (after_pop s w sig r)) + wt old + (if st_sig s then 1 else 0) + trank (st_trk s)
   = rank s + trank (fst r) + (match snd r with Some _ => 2 | None => 0 end) + (if sig then 1 else 0))%nat.
Proof.
  intro Hw. unfold after_pop, rank. destruct (snd r) as [[p x]|]; simpl.
  - pose proof (ww_upd (st_w s) w old (WRunning p x) Hw). simpl in H. lia.
  - pose proof (ww_upd (st_w s) w old WWaiting Hw). simpl in H. lia.
Qed.

Definition is_push (l : label) : bool := match l with LPush _ _ _ => true | _ => false end.

(* (a) no label other than a push raises the rank; a pop at the loop top, a wake-up by the signal and
   a completion strictly lower it *)
Theorem step_rank cfg s l s' e :
  is_push l = false -> step cfg s l = Some (s', e) ->
  (rank s' <= rank s)%nat /\
  (match l with LPop _ _ | LWakeSig _ _ | LDone _ => (rank s' < rank s)%nat | _ => True end).
Proof.
  intros Hl. destruct l; try discriminate; simpl.
  - (* remove *)
    destruct (aget p (st_trk s)) as [t|] eqn:Et; [|intro E; inversion E; subst; split; [lia | exact I]].
    destruct (has_topic tp (tr_pending t)) eqn:Eh; intro E; inversion E; subst; clear E; (split; [|exact I]); [|lia].
    unfold rank, trank; simpl. rewrite (length_aput_some _ _ _ _ Et).
    match goal with |- context [aput p ?t' (st_trk s)] => pose proof (sumf_aput npend (st_trk s) p t' eq_refl) as H1;
                                                         pose proof (sumf_aput tr_freeze (st_trk s) p t' eq_refl) as H2 end.
    rewrite (trk_of_some _ _ _ Et) in H1, H2. unfold npend in *. simpl in H1, H2.
    pose proof (del_topic_shorter _ _ Eh). destruct (c_ignore_freeze cfg); lia.
  - (* pop *)
    destruct (nth_error (st_w s) w) as [[| |]|] eqn:Ew; try discriminate.
    destruct (pop_tasks cfg (st_trk s) top) as [[trk' o]|] eqn:Epop; [|discriminate]. intro E.
    assert (Es : s' = fst (after_pop s w (st_sig s) (trk', o))) by (inversion E as [E1]; rewrite E1; reflexivity).
    pose proof (after_pop_rank s w (st_sig s) (trk', o) WReady Ew) as Hr. rewrite <- Es in Hr. simpl in Hr.
    pose proof (pop_trank _ _ _ _ _ Epop) as Ht. destruct o; lia.
  - destruct (nth_error (st_w s) w) as [[| |]|] eqn:Ew; try discriminate.
    destruct (st_sig s) eqn:Esig; [|discriminate].
    destruct (pop_tasks cfg (st_trk s) top) as [[trk' o]|] eqn:Epop; [|discriminate]. intro E.
    assert (Es : s' = fst (after_pop s w false (trk', o))) by (inversion E as [E1]; rewrite E1; reflexivity).
    pose proof (after_pop_rank s w false (trk', o) WWaiting Ew) as Hr. rewrite <- Es, Esig in Hr. simpl in Hr.
    pose proof (pop_trank _ _ _ _ _ Epop) as Ht. destruct o; lia.
  - destruct (nth_error (st_w s) w) as [[| |]|] eqn:Ew; try discriminate.
    destruct (pop_tasks cfg (thaw_round (st_trk s)) top) as [[trk' o]|] eqn:Epop; [|discriminate]. intro E.
    assert (Es : s' = fst (after_pop s w (st_sig s) (trk', o))) by (inversion E as [E1]; rewrite E1; reflexivity).
    pose proof (after_pop_rank s w (st_sig s) (trk', o) WWaiting Ew) as Hr. rewrite <- Es in Hr. simpl in Hr.
    pose proof (pop_trank _ _ _ _ _ Epop) as Ht. destruct (trank_thaw (st_trk s)) as [Hth _].
    split; [|exact I]. destruct o; lia.
  - (* done *)
    destruct (nth_error (st_w s) w) as [[| |p x]|] eqn:Ew; try discriminate.
    intro E; inversion E; subst; clear E. unfold rank; simpl.
    pose proof (ww_upd (st_w s) w (WRunning p x) WReady Ew) as Hw. simpl in Hw.
    assert (Ht : trank (match aget p (st_trk s) with Some t => aput p (tr_done x t) (st_trk s) | None => st_trk s end) = trank (st_trk s)).
    { destruct (aget p (st_trk s)) as [t|] eqn:Et; [|reflexivity]. unfold trank. rewrite (length_aput_some _ _ _ _ Et).
      pose proof (sumf_aput npend (st_trk s) p (tr_done x t) eq_refl) as H1.
      pose proof (sumf_aput tr_freeze (st_trk s) p (tr_done x t) eq_refl) as H2.
      rewrite (trk_of_some _ _ _ Et) in H1, H2. unfold npend, tr_done in *. simpl in H1, H2. lia. }
    rewrite Ht. lia.
Qed.

(* ---------- (b) while something is queued, a strictly decreasing worker / ticker / completion step is enabled ---------- *)
Definition worker_label (l : label) : bool :=
  match l with LPop _ _ | LWakeTick _ _ | LDone _ => true | _ => false end.

Lemma find_idx_spec {A} (f : A -> bool) l :
  match find_idx f l with
  | Some n => exists x, nth_error l n = Some x /\ f x = true
  | None => forall x, In x l -> f x = false
  end.
Proof.
  induction l as [|y r IH]; simpl; [intros x []|].
  destruct (f y) eqn:E; [exists y; auto|].
  destruct (find_idx f r) as [n|].
  - destruct IH as (x & Hx & Hf). exists x. auto.
  - intros x [<-|Hx]; auto.
Qed.

Lemma pop_pending cfg trk ws nx top trk' o :
  wf trk ws nx -> pop_tasks cfg trk top = Some (trk', o) ->
  (sumf npend trk' + (match o with Some _ => 1 | None => 0 end) = sumf npend trk)%nat.
Proof.
  intros [K P _ _ _]. unfold pop_tasks. destruct top as [p|].
  2:{ destruct trk; [|discriminate]. intro H; inversion H; subst. reflexivity. }
  destruct (is_top trk p); [|discriminate].
  destruct (aget p trk) as [t|] eqn:Et; [|discriminate].
  destruct (tr_pop (c_maxpp cfg) t) as [o1 t1] eqn:Ep. intro H; inversion H; subst; clear H.
  pose proof (trk_of_some _ _ _ Et) as Eof.
  destruct (tr_pop_cases _ _ _ _ Ep) as [[-> ->] | (b & -> & Eb & Hfz & Hlim & ->)].
  - destruct (tr_idle t) eqn:Ei.
    + apply tr_idle_true in Ei as [Ei1 _]. pose proof (sumf_adel npend trk p K eq_refl) as Hs. rewrite Eof in Hs.
      unfold npend in Hs at 2. rewrite Ei1 in Hs. simpl in Hs. lia.
    + rewrite (aput_same _ _ _ Et). lia.
  - rewrite tr_idle_false by (simpl; destruct (tr_active t); discriminate).
    match goal with |- context [aput p ?t' trk] => pose proof (sumf_aput npend trk p t' eq_refl) as H1 end.
    rewrite Eof in H1. destruct (P p) as (_ & Hids & _). unfold pendT, actT in Hids. rewrite Eof, map_app in Hids.
    apply nodup_app_l in Hids. pose proof (del_id_length _ _ Hids (best_in _ _ Eb)) as Hl.
    unfold npend in *. simpl in H1. lia.
Qed.

Lemma after_pop_starts s w sig r :
  length (filter is_start (snd (after_pop s w sig r))) = match snd r with Some _ => 1%nat | None => O end.
Proof. unfold after_pop. destruct (snd r) as [[p x]|]; reflexivity. Qed.

(* a worker / ticker / completion step changes the backlog only by starting a task *)
Theorem step_pending cfg s l s' e :
  wf_s s -> worker_label l = true -> step cfg s l = Some (s', e) ->
  (pending_total s' + length (filter is_start e) = pending_total s)%nat.
Proof.
  intros Hwf Hl. unfold pending_total. destruct l; try discriminate; simpl.
  - destruct (nth_error (st_w s) w) as [[| |]|] eqn:Ew; try discriminate.
    destruct (pop_tasks cfg (st_trk s) top) as [[trk' o]|] eqn:Epop; [|discriminate]. intro E.
    pose proof (pop_pending _ _ _ _ _ _ _ Hwf Epop) as Hp.
    assert (Es : s' = fst (after_pop s w (st_sig s) (trk', o)) /\ e = snd (after_pop s w (st_sig s) (trk', o)))
      by (inversion E as [E1]; rewrite E1; auto).
    destruct Es as [-> ->]. rewrite after_pop_trk, after_pop_starts. simpl. destruct o; lia.
  - destruct (nth_error (st_w s) w) as [[| |]|] eqn:Ew; try discriminate.
    destruct (pop_tasks cfg (thaw_round (st_trk s)) top) as [[trk' o]|] eqn:Epop; [|discriminate]. intro E.
    pose proof (pop_pending _ _ _ _ _ _ _ (wf_thaw _ _ _ Hwf) Epop) as Hp. rewrite sumf_npend_thaw in Hp.
    assert (Es : s' = fst (after_pop s w (st_sig s) (trk', o)) /\ e = snd (after_pop s w (st_sig s) (trk', o)))
      by (inversion E as [E1]; rewrite E1; auto).
    destruct Es as [-> ->]. rewrite after_pop_trk, after_pop_starts. simpl. destruct o; lia.
  - destruct (nth_error (st_w s) w) as [[| |p x]|] eqn:Ew; try discriminate.
    intro E; inversion E; subst; clear E; simpl.
    destruct (aget p (st_trk s)) as [t|] eqn:Et; [|lia].
    pose proof (sumf_aput npend (st_trk s) p (tr_done x t) eq_refl) as H1. rewrite (trk_of_some _ _ _ Et) in H1.
    unfold npend, tr_done in *. simpl in H1. lia.
Qed.

Lemma filter_none {A} (f : A -> bool) l : (forall y, In y l -> f y = false) -> filter f l = [].
Proof.
  induction l as [|x r IH]; simpl; intro H; [reflexivity|]. rewrite (H x) by now left. apply IH. intros y Hy. apply H. now right.
Qed.

Lemma sum_act_sumf trk : sum_act trk = sumf nact trk.
Proof. reflexivity. Qed.

Theorem progress_step cfg s :
  wf_s s -> (0 < length (st_w s))%nat -> (0 < pending_total s)%nat ->
  exists l s' e, worker_label l = true /\ step cfg s l = Some (s', e) /\ (rank s' < rank s)%nat.
Proof.
  intros Hwf HW Hpend. pose proof Hwf as [K P H D C]. unfold pending_total in Hpend.
  assert (Hne : st_trk s <> []) by (intro E; rewrite E in Hpend; simpl in Hpend; lia).
  pose proof (find_idx_spec is_ready (st_w s)) as Hr. destruct (find_idx is_ready (st_w s)) as [w|].
  { (* a worker is at the loop top *)
    destruct Hr as (x & Hw & Hx). destruct x; try discriminate.
    destruct (exists_top _ Hne K) as [p Hp]. destruct (pop_total cfg _ _ Hp) as [r Hpop].
    assert (Est : step cfg s (LPop w (Some p)) = Some (after_pop s w (st_sig s) r)) by (cbn -[pop_tasks after_pop thaw_round]; rewrite Hw, Hpop; reflexivity).
    exists (LPop w (Some p)), (fst (after_pop s w (st_sig s) r)), (snd (after_pop s w (st_sig s) r)).
    split; [reflexivity|]. rewrite <- surjective_pairing. split; [exact Est|].
    rewrite (surjective_pairing (after_pop s w (st_sig s) r)) in Est.
    destruct (step_rank cfg s (LPop w (Some p)) _ _ eq_refl Est) as [_ Hlt]. exact Hlt. }
  pose proof (find_idx_spec is_running (st_w s)) as Hrun. destruct (find_idx is_running (st_w s)) as [w|].
  { (* a task is executing: it completes *)
    destruct Hrun as (x & Hw & Hx). destruct x as [| |p t]; try discriminate.
    assert (exists s' e, step cfg s (LDone w) = Some (s', e)) as (s' & e & Est) by (simpl; rewrite Hw; eauto).
    exists (LDone w), s', e. split; [reflexivity|]. split; [exact Est|].
    destruct (step_rank cfg s (LDone w) _ _ eq_refl Est) as [_ Hlt]. exact Hlt. }
  (* every worker waits: a tick *)
  destruct (nth_error (st_w s) 0) as [x0|] eqn:E0; [|apply nth_error_None in E0; lia].
  assert (Hx0 : x0 = WWaiting).
  { pose proof (nth_error_In _ _ E0) as Hin. specialize (Hr _ Hin). specialize (Hrun _ Hin). destruct x0; simpl in *; congruence. }
  subst x0.
  assert (Hnorun : length (filter is_running (st_w s)) = O).
  { rewrite filter_none; [reflexivity|]. intros y Hy. now apply Hrun. }
  assert (Hne' : thaw_round (st_trk s) <> []) by (unfold thaw_round; destruct (st_trk s); [congruence | discriminate]).
  assert (K' : NoDup (map fst (thaw_round (st_trk s)))) by now rewrite thaw_round_keys.
  destruct (exists_top _ Hne' K') as [p Hp]. destruct (pop_total cfg _ _ Hp) as [[trk' o] Hpop].
  assert (Est : step cfg s (LWakeTick 0 (Some p)) = Some (after_pop s 0 (st_sig s) (trk', o))) by (cbn -[pop_tasks after_pop thaw_round nth_error]; rewrite E0, Hpop; reflexivity).
  exists (LWakeTick 0 (Some p)), (fst (after_pop s 0 (st_sig s) (trk', o))), (snd (after_pop s 0 (st_sig s) (trk', o))).
  split; [reflexivity|]. rewrite <- surjective_pairing. split; [exact Est|].
  pose proof (after_pop_rank s 0 (st_sig s) (trk', o) WWaiting E0) as Hrk. simpl in Hrk.
  pose proof (pop_trank _ _ _ _ _ Hpop) as Ht. destruct (trank_thaw (st_trk s)) as [Hth1 Hth2].
  destruct (Nat.eq_dec (sumf tr_freeze (st_trk s)) 0) as [Hz|Hnz].
  - (* nothing frozen: a queued task of an idle peer is eligible, so the pop hands one out *)
    destruct (sumf_pos npend _ Hpend) as (q & t & Hin & Hnp).
    assert (Hel : eligible (c_maxpp cfg) t).
    { repeat split.
      - unfold npend in Hnp. destruct (tr_pending t); [simpl in Hnp; lia | discriminate].
      - exact (sumf_zero tr_freeze _ _ _ Hz Hin).
      - assert (Hna : nact t = O) by (apply (sumf_zero nact (st_trk s) q t); [rewrite <- sum_act_sumf; lia | exact Hin]).
        destruct (c_maxpp cfg); [now left | right; lia]. }
    assert (Hin' : In (q, t) (thaw_round (st_trk s))) by (apply thaw_round_in; [exact Hin | apply Hel]).
    destruct (pop_takes_one cfg _ p q t Hp Hin' Hel) as (trk2 & x & Hpop2). rewrite Hpop in Hpop2. inversion Hpop2; subst.
    cbv iota in Hrk, Ht. lia.
  - destruct (sumf_pos tr_freeze (st_trk s)) as (q & t & Hin & Hf); [lia|].
    assert (Hlt : (trank (thaw_round (st_trk s)) < trank (st_trk s))%nat) by (apply Hth2; exists q, t; split; [exact Hin | lia]).
    destruct o; cbv iota in Hrk, Ht; lia.
Qed.

(* ---------- (c) hence the backlog can always be worked off, within [rank s] such steps, every queued task
   being started exactly once ---------- *)
Theorem drain cfg : forall n s,
  wf_s s -> (0 < length (st_w s))%nat -> (rank s <= n)%nat ->
  exists ls s' e, forallb worker_label ls = true /\ run cfg s ls = Some (s', e) /\ pending_total s' = O /\
                  (length ls <= n)%nat /\ length (filter is_start e) = pending_total s.
Proof.
  induction n as [|n IH]; intros s Hwf HW Hn.
  - destruct (Nat.eq_dec (pending_total s) 0) as [Hz|Hnz].
    + exists [], s, []. simpl. repeat split; auto; lia.
    + destruct (progress_step cfg s Hwf HW) as (l & s1 & e1 & _ & _ & Hlt); lia.
  - destruct (Nat.eq_dec (pending_total s) 0) as [Hz|Hnz].
    + exists [], s, []. simpl. repeat split; auto; lia.
    + destruct (progress_step cfg s Hwf HW) as (l & s1 & e1 & Hwl & Hst & Hlt); [lia|].
      destruct (IH s1) as (ls & s2 & e2 & Hall & Hrun & Hz2 & Hlen & Hcnt).
      * eapply step_wf; eauto.
      * rewrite (step_workers _ _ _ _ _ Hst). exact HW.
      * lia.
      * exists (l :: ls), s2, (e1 ++ e2). simpl. rewrite Hwl, Hall, Hst, Hrun. repeat split; auto; try lia.
        rewrite filter_app, app_length, Hcnt. pose proof (step_pending _ _ _ _ _ Hwf Hwl Hst). lia.
Qed.
