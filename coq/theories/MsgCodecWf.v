(* MsgCodecWf.v — C12: whatever decodes is structurally well-formed. *)
From Coq Require Import List NArith ZArith Bool String Lia ZifyBool ZifyNat ZifyN Permutation.
From GS Require Import Base Varint VarintProofs Cbor CborProofs MsgCodec MsgCodecProofs.
From GSgen Require Import GenSchema.
Import ListNotations.
Open Scope string_scope.
Open Scope list_scope.
Open Scope N_scope.
Ltac Zify.zify_post_hook ::= Z.div_mod_to_equations.

(* ======================================================================================== *)
(* C12: whatever decodes is structurally well-formed (the semantic part of wf_msg)          *)
(* ======================================================================================== *)

Lemma wrap32_range z : int32_range (wrap32 z).
Proof. unfold int32_range, wrap32. lia. Qed.

Definition ibq_ok (a : ib_request) : Prop :=
  (forall z, ib_pri a = Some z -> int32_range z) /\ (forall v, ib_sel a = Some v -> is_null v = false).
Definition ibs_ok (a : ib_response) : Prop := forall z, is_status a = Some z -> status_defined z = true.

Lemma fold_opt_inv {A B} (P : A -> Prop) (f : A -> B -> option A) l :
  (forall a b a', P a -> f a b = Some a' -> P a') -> forall a r, P a -> fold_opt f l a = Some r -> P r.
Proof.
  intro Hf. induction l as [|b l IH]; intros a r Pa; cbn [fold_opt].
  - intro E; inversion E; subst; exact Pa.
  - destruct (f a b) as [a'|] eqn:E; [|discriminate]. apply IH. eapply Hf; eauto.
Qed.

Lemma ibq_assign_ok a kv a' : ibq_ok a -> ibq_assign a kv = Some a' -> ibq_ok a'.
Proof.
  intros [Hp Hs]. destruct kv as [k v]. unfold ibq_assign.
  destruct (is_key sch_struct_GraphSyncRequest "id" k).
  { destruct v; try discriminate. intro E; inversion E; subst. split; cbn [ib_pri ib_sel]; assumption. }
  destruct (is_key sch_struct_GraphSyncRequest "requestType" k).
  { destruct v; try discriminate. destruct (parse_reqkind s); [|discriminate].
    intro E; inversion E; subst. split; cbn [ib_pri ib_sel]; assumption. }
  destruct (is_key sch_struct_GraphSyncRequest "priority" k).
  { destruct v; try discriminate. intro E; inversion E; subst. split; cbn [ib_pri ib_sel]; [|assumption].
    intros z0 Ez; inversion Ez; subst. apply wrap32_range. }
  destruct (is_key sch_struct_GraphSyncRequest "root" k).
  { destruct v; try discriminate. intro E; inversion E; subst. split; cbn [ib_pri ib_sel]; assumption. }
  destruct (is_key sch_struct_GraphSyncRequest "selector" k).
  { destruct (is_null v) eqn:Nv; [discriminate|]. intro E; inversion E; subst. split; cbn [ib_pri ib_sel]; [assumption|].
    intros v0 Ev; inversion Ev; subst. exact Nv. }
  destruct (is_key sch_struct_GraphSyncRequest "extensions" k); [|discriminate].
  destruct (bind_exts v); [|discriminate]. intro E; inversion E; subst. split; cbn [ib_pri ib_sel]; assumption.
Qed.

Lemma bind_request_ok n q : bind_request n = Some q -> ibq_ok q.
Proof.
  unfold bind_request. destruct n; try discriminate.
  destruct (fold_opt ibq_assign kvs ibq0) as [a|] eqn:E; [|discriminate].
  assert (ibq_ok a).
  { eapply (fold_opt_inv ibq_ok); [|..|exact E]; [intros; eapply ibq_assign_ok; eauto|].
    split; intros ? X; inversion X. }
  destruct (ib_id a); [|discriminate]. destruct (ib_type a); [|discriminate]. intro X; inversion X; subst; assumption.
Qed.

Lemma ibs_assign_ok a kv a' : ibs_ok a -> ibs_assign a kv = Some a' -> ibs_ok a'.
Proof.
  intros Hs. destruct kv as [k v]. unfold ibs_assign.
  destruct (is_key sch_struct_GraphSyncResponse "id" k).
  { destruct v; try discriminate. intro E; inversion E; subst. exact Hs. }
  destruct (is_key sch_struct_GraphSyncResponse "status" k).
  { destruct v; try discriminate. destruct (status_defined z) eqn:D; [|discriminate].
    intro E; inversion E; subst. intros z0 Ez. cbn [is_status] in Ez. inversion Ez; subst. exact D. }
  destruct (is_key sch_struct_GraphSyncResponse "metadata" k).
  { destruct v; try discriminate. destruct (map_opt bind_md l); [|discriminate]. intro E; inversion E; subst. exact Hs. }
  destruct (is_key sch_struct_GraphSyncResponse "extensions" k); [|discriminate].
  destruct (bind_exts v); [|discriminate]. intro E; inversion E; subst. exact Hs.
Qed.

Lemma bind_response_ok n q : bind_response n = Some q -> ibs_ok q.
Proof.
  unfold bind_response. destruct n; try discriminate.
  destruct (fold_opt ibs_assign kvs ibs0) as [a|] eqn:E; [|discriminate].
  assert (ibs_ok a).
  { eapply (fold_opt_inv ibs_ok); [|..|exact E]; [intros; eapply ibs_assign_ok; eauto|].
    intros ? X; inversion X. }
  destruct (is_id a); [|discriminate]. destruct (is_status a); [|discriminate]. intro X; inversion X; subst; assumption.
Qed.

Lemma map_opt_forall {A B} (f : A -> option B) (P : B -> Prop) l r :
  (forall a b, f a = Some b -> P b) -> map_opt f l = Some r -> Forall P r.
Proof.
  intro Hf. revert r. induction l as [|a l IH]; intro r; cbn [map_opt].
  - intro E; inversion E; constructor.
  - destruct (f a) as [b|] eqn:Ea; [|discriminate]. destruct (map_opt f l) as [bs|]; [|discriminate].
    intro E; inversion E; subst. constructor; [eapply Hf; eauto | now apply IH].
Qed.

Lemma request_of_ib_wf q r : ibq_ok q -> request_of_ib q = Some r -> wf_req r.
Proof.
  intros [Hp Hs]. unfold request_of_ib.
  destruct (ib_id q) as [id|]; [|discriminate]. destruct (ib_type q) as [t|]; [|discriminate].
  destruct (blen id =? 16) eqn:L; cbn [negb]; [|discriminate]. apply N.eqb_eq in L.
  assert (R0 : int32_range 0) by (unfold int32_range; lia).
  destruct t; intro X; inversion X; subst; unfold wf_req; cbn [rq_id rq_pri rq_sel rq_kind rq_root rq_ext].
  - split; [exact L|]. split; [destruct (ib_pri q) as [z|]; cbn [odef]; [now apply Hp | exact R0]|].
    split; [destruct (ib_sel q) as [v|]; [now apply Hs | exact I] | exact I].
  - split; [exact L|]. split; [exact R0|]. split; [exact I|]. repeat split; reflexivity.
  - split; [exact L|]. split; [exact R0|]. split; [exact I|]. repeat split; reflexivity.
Qed.

Lemma put_keys {V} (key : V -> bytes) k v (m : list (bytes * V)) :
  Forall (fun kv => fst kv = key (snd kv)) m -> k = key v -> NoDup (map fst m) ->
  Forall (fun kv => fst kv = key (snd kv)) (put k v m) /\ NoDup (map fst (put k v m)) /\
  (forall q, In q (map fst (put k v m)) -> q = k \/ In q (map fst m)).
Proof.
  intros Hk Ek. induction m as [|[q w] m IH]; intro Hnd; cbn [put map fst].
  - repeat split; [repeat constructor; exact Ek | repeat constructor; intros [] | intros q [<-|[]]; now left].
  - inversion Hk as [|? ? Hq Hm]; subst. inversion Hnd as [|? ? Hn Hnd']; subst. cbn [fst snd map] in *.
    destruct (bytes_eqb (key v) q) eqn:E.
    + apply bytes_eqb_eq in E. subst q. cbn [map fst]. repeat split.
      * constructor; [cbn [fst snd] in *; congruence | exact Hm].
      * constructor; assumption.
      * intros q [<-|Hin]; [now left | right; now right].
    + destruct (IH Hm Hnd') as (I1 & I2 & I3). cbn [map fst]. repeat split.
      * constructor; assumption.
      * constructor; [|exact I2]. intro Hin. apply I3 in Hin as [->|Hin]; [|contradiction].
        rewrite bytes_eqb_refl in E. discriminate.
      * intros q' [<-|Hin]; [right; now left|]. apply I3 in Hin as [->|Hin]; [now left | right; now right].
Qed.

Lemma fold_put_keys {A V} (key : V -> bytes) (P : V -> Prop) (Q : A -> Prop) (step : A -> option V) l :
  (forall a v, Q a -> step a = Some v -> P v) -> Forall Q l ->
  forall acc res,
  Forall (fun kv => fst kv = key (snd kv) /\ P (snd kv)) acc -> NoDup (map fst acc) ->
  fold_opt (fun acc a => match step a with Some v => Some (put (key v) v acc) | None => None end) l acc = Some res ->
  Forall (fun kv => fst kv = key (snd kv) /\ P (snd kv)) res /\ NoDup (map fst res).
Proof.
  intros Hs HQ. induction HQ as [|a l Qa _ IH]; intros acc res Hacc Hnd; cbn [fold_opt].
  - intro E; inversion E; subst; split; assumption.
  - destruct (step a) as [v|] eqn:S; [|discriminate]. apply IH.
    + assert (Hk : Forall (fun kv => fst kv = key (snd kv)) acc) by (eapply Forall_impl; [|exact Hacc]; intros ? []; assumption).
      apply put_forall; [exact Hacc|]. split; [reflexivity | eapply Hs; eauto].
    + assert (Hk : Forall (fun kv => fst kv = key (snd kv)) acc) by (eapply Forall_impl; [|exact Hacc]; intros ? []; assumption).
      exact (proj1 (proj2 (put_keys key (key v) v acc Hk eq_refl Hnd))).
Qed.

Lemma put_nodup {V} k (v : V) m : NoDup (map fst m) ->
  NoDup (map fst (put k v m)) /\ (forall q, In q (map fst (put k v m)) -> q = k \/ In q (map fst m)).
Proof.
  induction m as [|[q w] m IH]; intro Hnd; cbn [put map fst].
  - split; [repeat constructor; intros [] | intros q [<-|[]]; now left].
  - inversion Hnd as [|? ? Hn Hnd']; subst. destruct (bytes_eqb k q) eqn:E.
    + apply bytes_eqb_eq in E. subst q. cbn [map fst]. split; [constructor; assumption|].
      intros q [<-|Hin]; [now left | right; now right].
    + destruct (IH Hnd') as (I2 & I3). cbn [map fst]. split.
      * constructor; [|exact I2]. intro Hin. apply I3 in Hin as [->|Hin]; [|contradiction].
        rewrite bytes_eqb_refl in E. discriminate.
      * intros q' [<-|Hin]; [right; now left|]. apply I3 in Hin as [->|Hin]; [now left | right; now right].
Qed.

Lemma fold_put_nodup {A V} (step : A -> option (bytes * V)) l : forall acc res,
  NoDup (map fst acc) ->
  fold_opt (fun acc a => match step a with Some (k, v) => Some (put k v acc) | None => None end) l acc = Some res ->
  NoDup (map fst res).
Proof.
  induction l as [|a l IH]; intros acc res Hnd; cbn [fold_opt].
  - intro E; inversion E; subst; exact Hnd.
  - destruct (step a) as [[k v]|]; [|discriminate]. apply IH. exact (proj1 (put_nodup k v acc Hnd)).
Qed.

Definition wf_decoded (H : hashfn) (m : msg) : Prop :=
  Forall wf_req (m_reqs m) /\ NoDup (map rq_id (m_reqs m)) /\
  Forall wf_rsp (m_rsps m) /\ NoDup (map rs_id (m_rsps m)) /\
  Forall (fun b => exists p, cid_sum H p (snd b) = Some (fst b)) (m_blks m) /\ NoDup (map fst (m_blks m)).

Lemma keyed_nodup {V} (key : V -> bytes) (l : list (bytes * V)) :
  Forall (fun kv => fst kv = key (snd kv)) l -> NoDup (map fst l) -> NoDup (map key (map snd l)).
Proof.
  intros Hk Hnd. rewrite map_map. erewrite map_ext_in; [exact Hnd|].
  intros kv Hin. rewrite Forall_forall in Hk. symmetry. now apply Hk.
Qed.

Lemma bind_root_ok n im : bind_root n = Some im ->
  Forall ibq_ok (odef [] (im_reqs im)) /\ Forall ibs_ok (odef [] (im_rsps im)).
Proof.
  assert (Hm : forall n im, bind_message n = Some im ->
               Forall ibq_ok (odef [] (im_reqs im)) /\ Forall ibs_ok (odef [] (im_rsps im))).
  { clear. intros n im. unfold bind_message. destruct n; try discriminate.
    apply (fold_opt_inv (fun im => Forall ibq_ok (odef [] (im_reqs im)) /\ Forall ibs_ok (odef [] (im_rsps im)))).
    - intros a [k v] a' [Hq Hs]. unfold ibm_assign.
      repeat match goal with |- context [if ?c then _ else _] => destruct c end; try discriminate;
        destruct v; try discriminate.
      + destruct (map_opt bind_request l) as [x|] eqn:E; [|discriminate]. intro X; inversion X; subst. cbn [im_reqs im_rsps odef].
        split; [|exact Hs]. eapply map_opt_forall; [|exact E]. intros; eapply bind_request_ok; eauto.
      + destruct (map_opt bind_response l) as [x|] eqn:E; [|discriminate]. intro X; inversion X; subst. cbn [im_reqs im_rsps odef].
        split; [exact Hq|]. eapply map_opt_forall; [|exact E]. intros; eapply bind_response_ok; eauto.
      + destruct (map_opt bind_block l) as [x|] eqn:E; [|discriminate]. intro X; inversion X; subst. cbn [im_reqs im_rsps odef].
        split; assumption.
    - split; constructor. }
  unfold bind_root. destruct n; try discriminate.
  destruct (fold_opt root_assign kvs None) as [[m|]|] eqn:E; try discriminate.
  intro X; inversion X; subst.
  assert (Hstep : forall (a : option ib_message) (b : bytes * node) (a' : option ib_message),
            match a with Some m => Forall ibq_ok (odef [] (im_reqs m)) /\ Forall ibs_ok (odef [] (im_rsps m)) | None => True end ->
            root_assign a b = Some a' ->
            match a' with Some m => Forall ibq_ok (odef [] (im_reqs m)) /\ Forall ibs_ok (odef [] (im_rsps m)) | None => True end).
  { intros a [k v] a' _. unfold root_assign. destruct (bytes_eqb k k_root || bytes_eqb k (str "GraphSyncMessage")); [|discriminate].
    destruct (bind_message v) as [m'|] eqn:B; [|discriminate]. intro Y; inversion Y; subst. eapply Hm; eauto. }
  exact (fold_opt_inv _ root_assign kvs Hstep None (Some im) I E).
Qed.

(* decode_some_wf, structural part: the semantic clauses of wf_msg hold of everything that decodes
   (not shown: the byte-level / resource clauses, i.e. that re-encoding stays within the limits) *)
Theorem decode_some_wf_partial H f m : from_frame H f = DOk m -> wf_decoded H m.
Proof.
  unfold from_frame. destruct (decode_block f) as [n| |]; try discriminate.
  destruct (bind_root n) as [im|] eqn:B; [|discriminate]. apply bind_root_ok in B as [Bq Bs].
  destruct (from_ipld H im) as [m'|] eqn:E; [|discriminate]. intro X; inversion X; subst m'; clear X.
  pose proof (from_ipld_delivered H im m E) as (_ & _ & Dblk).
  unfold from_ipld in E.
  destruct (fold_opt _ (odef [] (im_reqs im)) []) as [reqs|] eqn:E1; [|discriminate].
  destruct (fold_opt _ (odef [] (im_rsps im)) []) as [rsps|] eqn:E2; [|discriminate].
  destruct (fold_opt _ (odef [] (im_blks im)) []) as [blks|] eqn:E3; [|discriminate].
  inversion E; subst; clear E. cbn [m_blks] in Dblk. unfold wf_decoded; cbn [m_reqs m_rsps m_blks].
  apply (fold_put_keys rq_id wf_req ibq_ok request_of_ib) in E1;
    [|intros; eapply request_of_ib_wf; eauto|exact Bq|constructor|constructor].
  destruct E1 as [K1 N1].
  apply (fold_put_keys rs_id wf_rsp ibs_ok response_of_ib) in E2;
    [| |exact Bs|constructor|constructor].
  2:{ intros q r Hq. unfold response_of_ib.
      destruct (is_id q) as [id|]; [|discriminate]. destruct (is_status q) as [st|] eqn:S; [|discriminate].
      destruct (blen id =? 16) eqn:L; cbn [negb]; [|discriminate]. apply N.eqb_eq in L.
      intro X; inversion X; subst. split; cbn [rs_id rs_status]; [exact L | now apply Hq]. }
  destruct E2 as [K2 N2].
  assert (N3 : NoDup (map fst blks)).
  { erewrite fold_opt_ext in E3.
    - eapply (fold_put_nodup (fun b => match cid_sum H (fst b) (snd b) with Some c => Some (c, snd b) | None => None end)); [|exact E3].
      constructor.
    - intros a b. cbv beta. destruct (cid_sum H (fst b) (snd b)); reflexivity. }
  repeat split.
  - apply Forall_map. eapply Forall_impl; [|exact K1]. intros ? [_ ?]; assumption.
  - apply (keyed_nodup rq_id); [|exact N1]. eapply Forall_impl; [|exact K1]. intros ? [? _]; assumption.
  - apply Forall_map. eapply Forall_impl; [|exact K2]. intros ? [_ ?]; assumption.
  - apply (keyed_nodup rs_id); [|exact N2]. eapply Forall_impl; [|exact K2]. intros ? [? _]; assumption.
  - exact Dblk.
  - exact N3.
Qed.
