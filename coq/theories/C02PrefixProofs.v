(* C02PrefixProofs.v — C02 for requests that go online after a non-empty locally loaded prefix: the quiet
   phase carries a virtual responder position (the links loaded so far = the entries the responder's stream
   starts with), the first local miss takes the executor online (C02Quiet.v), the rest of the plan is the
   online simulation of C02Online.v / C02Chunks.v.  Ends with C02_holds_guarded. *)
From Coq Require Import List Arith NArith Bool Lia ZifyBool ZifyNat ZifyN.
From GS Require Import Base Ltree RecLoader ReqExec RecLoaderProofs C02Online C02Chunks C02Prefix C02Trie C02Replay C02Quiet.
Import ListNotations.
Open Scope N_scope.
Local Arguments N.add : simpl never.

(* ---------- plan order of link paths ---------- *)
Lemma tnodes_paths :
  (forall t, map fst (tnodes t) = tpaths t) /\ (forall l, map fst (inodes l) = ipaths l).
Proof.
  apply (ltree_items_ind (fun t => map fst (tnodes t) = tpaths t) (fun l => map fst (inodes l) = ipaths l)).
  - intros p c body IH. cbn. now rewrite IH.
  - reflexivity.
  - intros v r IH. exact IH.
  - intros t IHt r IHr. cbn. now rewrite map_app, IHt, IHr.
Qed.

Lemma FOP_app {A} (Rr : A -> A -> Prop) a b :
  ForallOrdPairs Rr a -> ForallOrdPairs Rr b -> (forall x y, In x a -> In y b -> Rr x y) -> ForallOrdPairs Rr (a ++ b).
Proof.
  induction a as [|x a IH]; intros Ha Hb Hc; [exact Hb|]. inversion Ha; subst. cbn. constructor.
  - apply Forall_app. split; [assumption|]. apply Forall_forall. intros y Hy. apply Hc; [now left | exact Hy].
  - apply IH; auto. intros x0 y Hx Hy. apply Hc; [now right | exact Hy].
Qed.
Lemma FOP_mid {A} (Rr : A -> A -> Prop) a x b : ForallOrdPairs Rr (a ++ x :: b) -> forall y, In y a -> Rr y x.
Proof.
  induction a as [|z a IH]; intros H y Hy; [contradiction|]. cbn in H. inversion H; subst.
  destruct Hy as [->|Hy]; [|now apply IH].
  match goal with Hf : Forall _ (a ++ x :: b) |- _ => rewrite Forall_forall in Hf; apply Hf end.
  apply in_app_iff. right. now left.
Qed.

Lemma pp_not_prefix_back p q : proper_prefix p q = true -> prefix q p = false.
Proof.
  revert q. induction p as [|x p IH]; intros [|y q] H; cbn in *; try discriminate; try reflexivity.
  apply andb_true_iff in H as [H1 H2]. apply N.eqb_eq in H1. subst. rewrite N.eqb_refl. cbn. now apply IH.
Qed.
Lemma pp_irrefl p : proper_prefix p p = false.
Proof. induction p as [|x p IH]; cbn; [reflexivity|]. now rewrite N.eqb_refl. Qed.

(* no later link path is a prefix of an earlier one *)
Lemma paths_ordered :
  (forall t, wf_tree t = true -> ForallOrdPairs (fun a b => prefix b a = false) (tpaths t)) /\
  (forall l, wf_items l = true -> pairwise_incomparable (child_paths l) = true ->
             ForallOrdPairs (fun a b => prefix b a = false) (ipaths l)).
Proof.
  apply (ltree_items_ind
    (fun t => wf_tree t = true -> ForallOrdPairs (fun a b => prefix b a = false) (tpaths t))
    (fun l => wf_items l = true -> pairwise_incomparable (child_paths l) = true ->
              ForallOrdPairs (fun a b => prefix b a = false) (ipaths l))).
  - intros p c body IH Hw. pose proof (below_parent p c body Hw) as Hb.
    cbn in Hw. apply andb_true_iff in Hw as [Hw Hwi]. apply andb_true_iff in Hw as [_ Hwp].
    cbn [tpaths]. constructor; [|now apply IH].
    eapply Forall_impl; [|exact Hb]. intros q Hq. now apply pp_not_prefix_back.
  - intros _ _. constructor.
  - intros v r IH Hw Hp. cbn in *. now apply IH.
  - intros t IHt r IHr Hw Hp. cbn in Hw. apply andb_true_iff in Hw as [Hwt Hwr].
    cbn in Hp. apply andb_true_iff in Hp as [Hpt Hpr]. cbn [ipaths].
    apply FOP_app; [now apply IHt | now apply IHr |].
    intros n m Hn Hm. destruct (ipaths_children r m Hm) as (t2 & Ht2 & Hq2).
    assert (Hin2 : In (tpath t2) (child_paths r)) by (rewrite child_paths_children; now apply in_map).
    destruct (incomparable_all_in _ _ _ Hpt Hin2) as [P1 P2].
    destruct below_root as [B _].
    pose proof (proj1 (Forall_forall _ _) (B t Hwt) n Hn) as Q1.
    pose proof (proj1 (Forall_forall _ _) (B t2 (wf_items_children r t2 Hwr Ht2)) m Hq2) as Q2.
    cbn beta in Q1, Q2.
    destruct (prefix m n) eqn:Em; [|reflexivity]. exfalso.
    pose proof (prefix_trans _ _ _ Q2 Em) as Q3.
    destruct (prefix_comparable _ _ _ Q1 Q3) as [H|H]; congruence.
Qed.

Lemma earlier_not_below t a p c b :
  wf_tree t = true -> tnodes t = a ++ (p, c) :: b -> forall q' c', In (q', c') a -> proper_prefix p q' = false.
Proof.
  intros Hw Hd q' c' Hin. destruct paths_ordered as [Hp _]. specialize (Hp t Hw).
  rewrite <- (proj1 tnodes_paths), Hd, map_app in Hp. cbn [map fst] in Hp.
  pose proof (FOP_mid _ _ _ _ Hp q' ltac:(apply in_map_iff; exists (q', c'); auto)) as Hf. cbn in Hf.
  destruct (proper_prefix p q') eqn:E; [|reflexivity]. apply proper_prefix_prefix in E. congruence.
Qed.

(* ---------- the plan guard ---------- *)
Lemma pc_eqb_eq a b : pc_eqb a b = true <-> a = b.
Proof.
  destruct a as [p c], b as [q d]. unfold pc_eqb, path_eqb. cbn [fst snd]. rewrite andb_true_iff, N.eqb_eq.
  rewrite (list_eqb_eq N.eqb N.eqb_eq). split; [intros [-> ->]; reflexivity | intro H; inversion H; auto].
Qed.

Lemma trie_ordered_prefix t ns rest :
  trie_ordered t = true -> tnodes t = ns ++ rest -> tlist (trie_of ns) [] = ns.
Proof.
  intros Ho Hd. unfold trie_ordered in Ho. rewrite forallb_forall in Ho.
  specialize (Ho (length ns)). rewrite Hd in Ho.
  assert (Hin : In (length ns) (seq 0 (S (length (ns ++ rest))))).
  { apply in_seq. rewrite app_length. lia. }
  specialize (Ho Hin). rewrite firstn_app, Nat.sub_diag, firstn_all in Ho. cbn [firstn] in Ho. rewrite app_nil_r in Ho.
  unfold pc_list_eqb in Ho. now apply (list_eqb_eq pc_eqb pc_eqb_eq) in Ho.
Qed.

(* ---------- the stream entries of the prefix ---------- *)
Section Entries.
  Variable R : store.

  Lemma existsb_seen_after_mono c its : forall s, existsb (N.eqb c) s = true -> existsb (N.eqb c) (seen_after s its) = true.
  Proof.
    induction its as [|it its IH]; intros s H; [exact H|]. cbn [seen_after].
    destruct (i_act it); apply IH; auto. cbn. now rewrite H, orb_true_r.
  Qed.
  Lemma present_in_seen_after its : forall s it, In it its -> i_act it = Present ->
    existsb (N.eqb (i_link it)) (seen_after s its) = true.
  Proof.
    induction its as [|it0 its IH]; intros s it Hin Ha; [contradiction|]. cbn [seen_after].
    destruct Hin as [->|Hin].
    - rewrite Ha. apply existsb_seen_after_mono. cbn. now rewrite N.eqb_refl.
    - destruct (i_act it0); now apply IH.
  Qed.
  Lemma seen_after_same its : forall s,
    (forall it, In it its -> i_act it = Present -> existsb (N.eqb (i_link it)) s = true) ->
    forall c, existsb (N.eqb c) (seen_after s its) = existsb (N.eqb c) s.
  Proof.
    induction its as [|it its IH]; intros s H c; [reflexivity|]. cbn [seen_after].
    assert (Ht : forall it0, In it0 its -> i_act it0 = Present -> existsb (N.eqb (i_link it0)) s = true)
      by (intros; apply H; auto; now right).
    destruct (i_act it) eqn:Ea; try (now apply IH).
    rewrite IH.
    - cbn. destruct (N.eqb_spec c (i_link it)) as [->|]; [|reflexivity]. cbn. symmetry. apply H; auto. now left.
    - intros it0 Hin Ha0. cbn. rewrite (Ht it0 Hin Ha0). apply orb_true_r.
  Qed.

  Lemma eok_strip its : forall s seen, eok R s its ->
    (forall it, In it its -> i_act it = Present -> existsb (N.eqb (i_link it)) seen = true) ->
    eok R seen (map strip its).
  Proof.
    induction its as [|it its IH]; intros s seen Hok H; [exact I|].
    cbn [map eok strip i_act i_link i_blk]. cbn [eok] in Hok.
    destruct (i_act it) eqn:Ea; try contradiction.
    - destruct Hok as (b & A & _ & C). exists b. split; [exact A|].
      rewrite (H it (or_introl eq_refl) Ea). split; [reflexivity|].
      apply (IH (i_link it :: s)); [exact C|]. intros it0 Hin Ha0. cbn. rewrite (H it0 (or_intror Hin) Ha0). apply orb_true_r.
    - destruct Hok as (A & _ & C). split; [exact A|]. split; [reflexivity|].
      apply (IH s); [exact C|]. intros it0 Hin Ha0. apply H; auto. now right.
  Qed.
  Lemma map_strip_act its it : In it (map strip its) -> exists it0, In it0 its /\ i_link it0 = i_link it /\ i_act it0 = i_act it.
  Proof. intro H. apply in_map_iff in H as (it0 & E & Hin). exists it0. subst it. auto. Qed.

  (* what is in flight when the request goes out with skip = |PN| *)
  Lemma eok_go PN S' : eok R [] (PN ++ S') ->
    eok R (seen_after [] PN) (map strip PN ++ S') /\
    (forall c, existsb (N.eqb c) (seen_after (seen_after [] PN) (map strip PN)) = existsb (N.eqb c) (seen_after [] PN)).
  Proof.
    intro H. destruct (eok_app_inv R _ _ _ H) as [H1 H2].
    assert (Hp : forall it, In it PN -> i_act it = Present -> existsb (N.eqb (i_link it)) (seen_after [] PN) = true)
      by (intros it Hin Ha; now apply present_in_seen_after).
    assert (Hs : forall c, existsb (N.eqb c) (seen_after (seen_after [] PN) (map strip PN)) = existsb (N.eqb c) (seen_after [] PN)).
    { apply seen_after_same. intros it Hin Ha. destruct (map_strip_act _ _ Hin) as (it0 & Hin0 & El & Eac).
      rewrite <- El. apply Hp; congruence. }
    split; [|exact Hs]. apply eok_app; [now apply (eok_strip PN [])|].
    apply (eok_ext R S' (seen_after [] PN)); [|exact H2]. intro c. now rewrite Hs.
  Qed.

  Lemma inv2_ext s1 s2 chunks x : (forall c, existsb (N.eqb c) s1 = existsb (N.eqb c) s2) -> inv2 R s1 chunks x -> inv2 R s2 chunks x.
  Proof.
    intros Hs (A & B & C & D & F). unfold inv2. split; [exact A|]. split; [exact B|]. split; [exact C|]. split; [exact D|].
    now apply (eok_ext R _ s1).
  Qed.
  Lemma onl2_ext s1 s2 x : (forall c, existsb (N.eqb c) s1 = existsb (N.eqb c) s2) -> onl2 R s1 x -> onl2 R s2 x.
  Proof. intros Hs (ch & Hf & Hi). exists ch. split; [exact Hf|]. now apply (inv2_ext s1). Qed.

  Lemma ulast_cases l : forall u0, ulast R u0 l = u0 \/ exists c, In (ulast R u0 l, c) l /\ pres R c = false.
  Proof.
    induction l as [|[q c] l IH]; intro u0; [now left|]. unfold ulast. cbn [fold_left fst snd].
    fold (ulast R (if pres R c then u0 else q) l).
    destruct (IH (if pres R c then u0 else q)) as [E|(c' & Hin & Hp)].
    - rewrite E. destruct (pres R c) eqn:Ep; [now left|]. right. exists c. split; [now left | exact Ep].
    - right. exists c'. split; [now right | exact Hp].
  Qed.
End Entries.

Lemma emit_present R p c body b seen :
  aget c R = Some b ->
  emit_tree R (LNode p c body) seen =
  ({| i_link := c; i_act := Present; i_blk := if negb (existsb (N.eqb c) seen) then Some b else None |}
     :: fst (emit_items R body (c :: seen)), snd (emit_items R body (c :: seen))).
Proof.
  intro H. rewrite emit_tree_eq, H. cbv zeta.
  match goal with |- context [let '(_, _) := ?e in _] => change e with (emit_items R body (c :: seen)) end.
  destruct (emit_items R body (c :: seen)). reflexivity.
Qed.
Lemma emit_missing R p c body seen :
  aget c R = None -> emit_tree R (LNode p c body) seen = ([{| i_link := c; i_act := Missing; i_blk := None |}], seen).
Proof. intro H. now rewrite emit_tree_eq, H. Qed.

Lemma in_seen_after its : forall s c, In c (seen_after s its) ->
  In c s \/ exists it, In it its /\ i_act it = Present /\ i_link it = c.
Proof.
  induction its as [|it its IH]; intros s c H; [now left|]. cbn [seen_after] in H.
  destruct (i_act it) eqn:Ea;
    try (destruct (IH _ _ H) as [H1|(it0 & A & B & C)]; [now left | right; exists it0; split; [now right | auto]]).
  destruct (IH _ _ H) as [[<-|H1]|(it0 & A & B & C)].
  - right. exists it. split; [now left | auto].
  - now left.
  - right. exists it0. split; [now right | auto].
Qed.

Lemma nf_tree_eq L R p c body :
  nf_tree L R (LNode p c body) =
  match aget c L with
  | None => QOnline
  | Some _ => match aget c R with Some _ => nf_items L R body | None => nf_first L body end
  end.
Proof. reflexivity. Qed.
Lemma nf_items_visit L R v r : nf_items L R (IVisit v r) = nf_items L R r.
Proof. reflexivity. Qed.
Lemma nf_items_child L R t r : nf_items L R (IChild t r) = match nf_tree L R t with QAll => nf_items L R r | x => x end.
Proof. reflexivity. Qed.

Section QSim.
  Variable t0 : ltree.
  Variables L R : store.
  Variable sizes : list nat.
  Hypothesis Hag : agree R L.
  Hypothesis Hroot : aget (root_cid t0) R <> None.
  Hypothesis Hord : trie_ordered t0 = true.
  Hypothesis Hwf0 : wf_tree t0 = true.
  Notation E := (exec_ask proper_prefix (honest t0 R sizes) 0).
  Notation F0 := (fst (emit_tree R t0 [])).

  Definition SA := sim_all R (honest t0 R sizes) 0 (onl2 R) mq2
                     (H_local2 R proper_prefix (honest t0 R sizes) 0) (H_head2 R proper_prefix (honest t0 R sizes) 0).

  Definition MF (ns : list (path * cid)) : Prop :=
    forall q c, In (q, c) ns -> pres R c = false -> forall q' c', In (q', c') ns -> proper_prefix q q' = false.
  Definition Mcond (ns : list (path * cid)) (qs : list path) : Prop :=
    forall q c, In (q, c) ns -> pres R c = false -> forall q', In q' qs -> proper_prefix q q' = false.
  (* the virtual responder position: the stream so far = the entries of the links loaded so far *)
  Definition vpos (ns : list (path * cid)) (PN : list item) : Prop :=
    ns <> [] /\ map strip PN = map (ent R) ns /\ MF ns /\
    (forall it, In it PN -> i_act it = Present -> aget (i_link it) L <> None).

  Lemma vpos_covers ns PN : vpos ns PN -> covers L (seen_after [] PN).
  Proof.
    intros (_ & _ & _ & H) c Hc. destruct (in_seen_after PN [] c Hc) as [[]|(it & A & B & C)]. subst c. now apply H.
  Qed.

  Lemma go_pre ns PN rest S' :
    vpos ns PN -> tnodes t0 = ns ++ rest -> F0 = PN ++ S' ->
    eok R (seen_after [] PN) (map strip PN ++ S') /\
    vreplay (trie_of ns) (new_verifier (trie_of ns)) [] (map (ent R) ns ++ S') = Some (VEmpty, ulast R [] ns, S').
  Proof.
    intros (Hne & Hs & Hm & _) Hn HF. split.
    - apply eok_go. rewrite <- HF. apply (proj1 (emit_ok R)).
    - apply replay_own; [exact Hne | apply (trie_ordered_prefix t0 ns rest Hord Hn) | exact Hm].
  Qed.

  Lemma seen_step_ext h s1 s2 : (forall c, existsb (N.eqb c) s1 = existsb (N.eqb c) s2) ->
    forall c, existsb (N.eqb c) (seen_step h s1) = existsb (N.eqb c) (seen_step h s2).
  Proof. intros H c. unfold seen_step. destruct (i_act h); auto. cbn. now rewrite H. Qed.

  Lemma go_T x ns PN rest p c h t :
    qinv L ns x -> vpos ns PN -> tnodes t0 = ns ++ rest -> F0 = PN ++ h :: t -> i_link h = c -> aget c L = None ->
    (ulast R [] ns = [] \/ proper_prefix (ulast R [] ns) p = false) ->
    exists x' a, E x p c = (x', a) /\ onl2 R (seen_step h (seen_after [] PN)) x' /\ mq2 x' = t /\
      unf x' = (if did_follow (i_act h) then [] else p) /\
      match i_blk h with
      | Some b => a = AOk /\ x_store x' = aput c b L /\ x_errs x' = []
      | None => a = ASkip /\ x_store x' = L /\ x_errs x' = [EMissing p c]
      end.
  Proof.
    intros Hx Hv Hn HF Hc HL Hu. destruct (go_pre ns PN rest (h :: t) Hv Hn HF) as [Hok Hrp].
    destruct Hv as (Hne & Hs & Hm & Hcov).
    destruct (q_online_T t0 L R sizes ns PN (h :: t) (seen_after [] PN) (ulast R [] ns) HF Hs Hroot Hok Hrp x p c h t Hx HL eq_refl Hc Hu)
      as (x' & a & E1 & Ho & Hq & Hu' & Hb).
    exists x', a. split; [exact E1|]. split; [|auto].
    apply (onl2_ext R _ _ x' (seen_step_ext h _ _ (proj2 (eok_go R PN (h :: t) ltac:(rewrite <- HF; apply (proj1 (emit_ok R)))))) Ho).
  Qed.

  Lemma go_F x ns PN rest S' p c :
    qinv L ns x -> vpos ns PN -> tnodes t0 = ns ++ rest -> F0 = PN ++ S' -> aget c L = None ->
    ulast R [] ns <> [] -> proper_prefix (ulast R [] ns) p = true ->
    exists x', E x p c = (x', ASkip) /\ onl2 R (seen_after [] PN) x' /\ mq2 x' = S' /\
      unf x' = ulast R [] ns /\ x_store x' = L /\ x_errs x' = [EMissing p c].
  Proof.
    intros Hx Hv Hn HF HL Hu1 Hu2. destruct (go_pre ns PN rest S' Hv Hn HF) as [Hok Hrp].
    destruct Hv as (Hne & Hs & Hm & Hcov).
    destruct (q_online_F t0 L R sizes ns PN S' (seen_after [] PN) (ulast R [] ns) HF Hs Hroot Hok Hrp x p c Hx HL Hu1 Hu2)
      as (x' & E1 & Ho & Hq & Hu' & Hst & Her).
    exists x'. split; [exact E1|]. split; [|auto].
    apply (onl2_ext R _ _ x' (proj2 (eok_go R PN S' ltac:(rewrite <- HF; apply (proj1 (emit_ok R))))) Ho).
  Qed.

  Lemma merrs_visit v o : merrs (OVisit v :: o) = merrs o.
  Proof. reflexivity. Qed.

  (* below a loaded link the responder lacks: the next link is the first local miss (guard), or there is none *)
  Definition SimQF (l : items) : Prop :=
    forall x ns PN restN restS,
      qinv L ns x -> vpos ns PN -> tnodes t0 = ns ++ inodes l ++ restN -> F0 = PN ++ restS ->
      ulast R [] ns <> [] -> wf_items l = true ->
      (forall q, In q (ipaths l) -> proper_prefix (ulast R [] ns) q = true) ->
      let '(x', evs, ok) := run_items E l x in
      let '(st', o) := ref_items R l false L in
      match nf_first L l with
      | QAll => ok = true /\ visits_of evs = ovisits o /\ st' = L /\ merrs o = [] /\ qinv L ns x' /\ inodes l = []
      | QOnline => ok = true /\ visits_of evs = ovisits o /\ onl2 R (seen_after [] PN) x' /\ x_store x' = L /\ st' = L /\
                   mq2 x' = restS /\ x_errs x' = merrs o /\ unf x' = ulast R [] ns
      | QBad => True
      end.

  Lemma simQF_all : forall l, SimQF l.
  Proof.
    induction l as [|v r IH|t r IH]; intros x ns PN restN restS Hx Hv Hn HF Hu Hw Hb.
    - cbn. auto 10.
    - rewrite run_items_visit, ref_items_visit. cbn [nf_first].
      specialize (IH x ns PN restN restS Hx Hv Hn HF Hu Hw Hb).
      destruct (run_items E r x) as [[x2 evs] ok]. destruct (ref_items R r false L) as [st' o].
      destruct (nf_first L r); [| |exact I].
      + destruct IH as (A & B & C & D & F & G). cbn [visits_of ovisits]. rewrite merrs_visit, B. auto 10.
      + destruct IH as (A & B & C & D & F & G & H & I). cbn [visits_of ovisits]. rewrite merrs_visit, B. auto 10.
    - destruct t as [p c body]. cbn [nf_first root_cid].
      destruct (aget c L) as [b0|] eqn:EL.
      + destruct (run_items E (IChild (LNode p c body) r) x) as [[x2 evs] ok].
        destruct (ref_items R (IChild (LNode p c body) r) false L) as [st' o]. exact I.
      + assert (Hbp : proper_prefix (ulast R [] ns) p = true) by (apply Hb; cbn; now left).
        destruct (go_F x ns PN _ restS p c Hx Hv Hn HF EL Hu Hbp) as (x1 & E1 & Ho1 & Hq1 & Hu1 & Hs1 & He1).
        rewrite run_items_child, run_tree_node, E1. rewrite ref_items_child, ref_tree_eq, EL.
        cbn in Hw. apply andb_true_iff in Hw as [_ Hwr].
        destruct SA as [_ Hit]. destruct (Hit r) as [_ HIF].
        assert (Hun : unf x1 <> []) by (rewrite Hu1; exact Hu).
        assert (Hbl : forall q, In q (ipaths r) -> proper_prefix (unf x1) q = true).
        { intros q Hq. rewrite Hu1. apply Hb. cbn. right. apply in_app_iff. now right. }
        specialize (HIF x1 _ Ho1 Hwr Hun Hbl). rewrite Hs1 in HIF.
        destruct (run_items E r x1) as [[x2 e2] ok2]. destruct (ref_items R r false L) as [st2 o2].
        destruct HIF as (A & B & C & D & F & G & H & I).
        cbn [app visits_of ovisits]. rewrite He1 in H. split; [exact A|]. split; [exact I|]. split; [exact B|].
        split; [congruence|]. split; [exact D|]. split; [congruence|]. split; [exact H|]. congruence.
  Qed.

  (* ---------- the quiet phase where the responder's own traversal reaches the position ---------- *)
  Definition SimQT (t : ltree) : Prop :=
    forall x ns PN restN restS,
      qinv L ns x -> vpos ns PN -> tnodes t0 = ns ++ tnodes t ++ restN ->
      F0 = PN ++ fst (emit_tree R t (seen_after [] PN)) ++ restS ->
      wf_tree t = true -> tpath t <> [] -> Mcond ns (tpaths t) ->
      let '(x', evs, ok) := run_tree E t x in
      let '(st', o) := ref_tree R t true L in
      match nf_tree L R t with
      | QAll => ok = true /\ visits_of evs = ovisits o /\ st' = L /\ merrs o = [] /\ qinv L (ns ++ tnodes t) x' /\
                vpos (ns ++ tnodes t) (PN ++ fst (emit_tree R t (seen_after [] PN)))
      | QOnline => ok = true /\ visits_of evs = ovisits o /\ onl2 R (snd (emit_tree R t (seen_after [] PN))) x' /\
                   x_store x' = st' /\ agree R st' /\ covers st' (snd (emit_tree R t (seen_after [] PN))) /\
                   mq2 x' = restS /\ x_errs x' = merrs o /\ (unf x' = [] \/ In (unf x') (tpaths t))
      | QBad => True
      end.
  Definition SimQI (l : items) : Prop :=
    forall x ns PN restN restS,
      qinv L ns x -> vpos ns PN -> tnodes t0 = ns ++ inodes l ++ restN ->
      F0 = PN ++ fst (emit_items R l (seen_after [] PN)) ++ restS ->
      wf_items l = true -> pairwise_incomparable (child_paths l) = true ->
      (forall q, In q (child_paths l) -> q <> []) -> Mcond ns (ipaths l) ->
      let '(x', evs, ok) := run_items E l x in
      let '(st', o) := ref_items R l true L in
      match nf_items L R l with
      | QAll => ok = true /\ visits_of evs = ovisits o /\ st' = L /\ merrs o = [] /\ qinv L (ns ++ inodes l) x' /\
                vpos (ns ++ inodes l) (PN ++ fst (emit_items R l (seen_after [] PN)))
      | QOnline => ok = true /\ visits_of evs = ovisits o /\ onl2 R (snd (emit_items R l (seen_after [] PN))) x' /\
                   x_store x' = st' /\ agree R st' /\ covers st' (snd (emit_items R l (seen_after [] PN))) /\
                   mq2 x' = restS /\ x_errs x' = merrs o /\ (unf x' = [] \/ In (unf x') (ipaths l))
      | QBad => True
      end.

  Lemma vpos_snoc ns PN p c it rest :
    vpos ns PN -> tnodes t0 = ns ++ (p, c) :: rest -> strip it = ent R (p, c) -> i_link it = c ->
    (i_act it = Present -> aget c L <> None) -> Mcond ns [p] ->
    vpos (ns ++ [(p, c)]) (PN ++ [it]).
  Proof.
    intros (Hne & Hs & Hm & Hcov) Hn Hst Hl Hp HM. split; [destruct ns; discriminate|]. split; [|split].
    - rewrite !map_app, Hs. cbn [map]. now rewrite Hst.
    - intros q c1 Hin Hpr q' c' Hin'. apply in_app_iff in Hin as [Hin|[Hin|[]]]; apply in_app_iff in Hin' as [Hin'|[Hin'|[]]].
      + apply (Hm q c1 Hin Hpr q' c' Hin').
      + injection Hin' as <- <-. apply (HM q c1 Hin Hpr). now left.
      + injection Hin as <- <-. apply (earlier_not_below t0 ns p c rest Hwf0 Hn q' c' Hin').
      + injection Hin as <- <-. injection Hin' as <- <-. apply pp_irrefl.
    - intros it0 Hin Ha. apply in_app_iff in Hin as [Hin|[<-|[]]]; [now apply Hcov|]. rewrite Hl. now apply Hp.
  Qed.

  Lemma seen_after_snoc PN it : seen_after [] (PN ++ [it]) = seen_step it (seen_after [] PN).
  Proof. rewrite seen_after_app. unfold seen_step. cbn [seen_after]. destruct (i_act it); reflexivity. Qed.

  Lemma covers_notin s c : covers L s -> aget c L = None -> existsb (N.eqb c) s = false.
  Proof.
    intros Hc Hn. destruct (existsb (N.eqb c) s) eqn:Ex; [|reflexivity]. apply existsb_eqb_in' in Ex. now apply Hc in Ex.
  Qed.

  Lemma ulast_Mcond ns p qs : Mcond ns qs -> In p qs -> ulast R [] ns = [] \/ proper_prefix (ulast R [] ns) p = false.
  Proof.
    intros HM Hin. destruct (ulast_cases R ns []) as [Ez|(c' & Hc' & Hp')]; [now left | right].
    apply (HM _ c' Hc' Hp' p Hin).
  Qed.

  Lemma wf_node_parts p c body :
    wf_tree (LNode p c body) = true ->
    wf_items body = true /\ pairwise_incomparable (child_paths body) = true /\ (forall q, In q (child_paths body) -> q <> []).
  Proof.
    intro Hw. cbn in Hw. apply andb_true_iff in Hw as [Hw Hwi]. apply andb_true_iff in Hw as [Hwb Hwp].
    split; [exact Hwi|]. split; [exact Hwp|].
    intros q Hin. rewrite forallb_forall in Hwb. specialize (Hwb q Hin). intro Hz. subst q. now rewrite proper_prefix_nil_r in Hwb.
  Qed.

  (* the first local miss is at a link the responder's traversal reaches and the responder holds *)
  Lemma node_miss_present p c body b : aget c L = None -> aget c R = Some b -> SimQT (LNode p c body).
  Proof.
    intros EL ER x ns PN restN restS Hx Hv Hn HF Hw Hp HM. rewrite run_tree_node, ref_tree_eq, EL, ER.
    rewrite nf_tree_eq, EL. rewrite (emit_present R p c body b _ ER) in HF |- *. cbn [fst snd] in HF |- *.
    pose proof (vpos_covers ns PN Hv) as Hcov.
    rewrite (covers_notin _ c Hcov EL) in HF. cbn [negb] in HF.
    set (seenN := seen_after [] PN) in *.
    destruct (go_T x ns PN _ p c _ (fst (emit_items R body (c :: seenN)) ++ restS) Hx Hv Hn HF eq_refl EL
                (ulast_Mcond ns p _ HM (or_introl eq_refl))) as (x1 & a & E1 & Ho1 & Hq1 & Hu1 & Hb).
    cbn [i_blk i_act did_follow] in Hu1, Hb. destruct Hb as (-> & Hst & Her). rewrite E1.
    unfold seen_step in Ho1. cbn [i_act i_link] in Ho1. fold seenN in Ho1.
    destruct (wf_node_parts p c body Hw) as (Hwi & Hwp & Hnn).
    destruct SA as [_ Hit]. destruct (Hit body) as [HIT _].
    assert (Ha1 : agree R (x_store x1)) by (rewrite Hst; now apply agree_aput).
    assert (Hc1 : covers (x_store x1) (c :: seenN)) by (rewrite Hst; now apply covers_aput).
    specialize (HIT x1 (c :: seenN) restS Ho1 Ha1 Hc1 Hwi Hwp Hnn Hq1 (or_introl Hu1)). rewrite Hst in HIT.
    destruct (run_items E body x1) as [[x2 evs] ok]. destruct (ref_items R body true (aput c b L)) as [st' o].
    destruct HIT as (A & B & C & D & F & G & H & I & J).
    split; [exact A|]. split; [exact I|]. split; [exact B|]. split; [exact C|]. split; [exact D|]. split; [exact F|].
    split; [exact G|]. split; [rewrite H, Her; reflexivity|].
    destruct J as [J|[J|J]]; [left; congruence | left; exact J | right; cbn; now right].
  Qed.

  (* ... and the responder lacks it too *)
  Lemma node_miss_missing p c body : aget c L = None -> aget c R = None -> SimQT (LNode p c body).
  Proof.
    intros EL ER x ns PN restN restS Hx Hv Hn HF Hw Hp HM. rewrite run_tree_node, ref_tree_eq, EL, ER.
    rewrite nf_tree_eq, EL. rewrite (emit_missing R p c body _ ER) in HF |- *. cbn [fst snd app] in HF |- *.
    pose proof (vpos_covers ns PN Hv) as Hcov.
    destruct (go_T x ns PN _ p c _ restS Hx Hv Hn HF eq_refl EL (ulast_Mcond ns p _ HM (or_introl eq_refl)))
      as (x1 & a & E1 & Ho1 & Hq1 & Hu1 & Hb).
    cbn [i_blk i_act did_follow] in Hu1, Hb. destruct Hb as (-> & Hst & Her). rewrite E1.
    unfold seen_step in Ho1. cbn [i_act] in Ho1.
    cbn [visits_of ovisits]. rewrite Hst. repeat split; auto.
    right. rewrite Hu1. cbn. now left.
  Qed.

  Lemma visits_load p c a evs : visits_of (ELoad p c a :: evs) = visits_of evs.
  Proof. reflexivity. Qed.

  (* a link both hold: loaded locally, the responder's entry for it is Present *)
  Lemma node_hit_present p c body b0 b :
    aget c L = Some b0 -> aget c R = Some b -> SimQI body -> SimQT (LNode p c body).
  Proof.
    intros EL ER IH x ns PN restN restS Hx Hv Hn HF Hw Hp HM.
    assert (Eb : b0 = b) by (apply (Hag c b0 b EL ER)). subst b0.
    rewrite run_tree_node, ref_tree_eq, EL, ER. rewrite nf_tree_eq, EL, ER.
    rewrite (emit_present R p c body b _ ER) in HF |- *. cbn [fst snd] in HF |- *.
    rewrite (aput_same c b L EL).
    destruct (q_hit t0 L R sizes ns x p c b Hx EL) as (x1 & E1 & Hx1). rewrite E1.
    set (seenN := seen_after [] PN) in *.
    set (it := {| i_link := c; i_act := Present; i_blk := if negb (existsb (N.eqb c) seenN) then Some b else None |}) in *.
    cbn [tnodes app] in Hn.
    assert (Hv1 : vpos (ns ++ [(p, c)]) (PN ++ [it])).
    { apply (vpos_snoc ns PN p c it (inodes body ++ restN) Hv Hn); [| reflexivity | intros _; rewrite EL; discriminate |].
      - unfold strip, ent, pres. cbn [snd i_link i_act it]. now rewrite ER.
      - intros q c1 Hin Hpr q' [<-|[]]. apply (HM q c1 Hin Hpr). cbn. now left. }
    assert (Hse : seen_after [] (PN ++ [it]) = c :: seenN) by (rewrite seen_after_snoc; reflexivity).
    destruct (wf_node_parts p c body Hw) as (Hwi & Hwp & Hnn).
    assert (Hn1 : tnodes t0 = (ns ++ [(p, c)]) ++ inodes body ++ restN) by (rewrite <- app_assoc; exact Hn).
    assert (HF1 : F0 = (PN ++ [it]) ++ fst (emit_items R body (seen_after [] (PN ++ [it]))) ++ restS).
    { rewrite Hse, <- app_assoc. exact HF. }
    assert (HM1 : Mcond (ns ++ [(p, c)]) (ipaths body)).
    { intros q c1 Hin Hpr q' Hq'. apply in_app_iff in Hin as [Hin|[Hin|[]]].
      - apply (HM q c1 Hin Hpr). cbn. now right.
      - injection Hin as <- <-. unfold pres in Hpr. rewrite ER in Hpr. discriminate. }
    specialize (IH x1 (ns ++ [(p, c)]) (PN ++ [it]) restN restS Hx1 Hv1 Hn1 HF1 Hwi Hwp Hnn HM1).
    rewrite Hse in IH.
    destruct (run_items E body x1) as [[x2 evs] ok]. destruct (ref_items R body true L) as [st' o].
    destruct (nf_items L R body); [| |exact I].
    - destruct IH as (A & B & C & D & F & G). rewrite visits_load.
      rewrite <- app_assoc in F, G. rewrite <- app_assoc in G. cbn [app] in F, G. auto 10.
    - destruct IH as (A & B & C & D & F & G & H & I & J). rewrite visits_load.
      split; [exact A|]. split; [exact B|]. split; [exact C|]. split; [exact D|]. split; [exact F|]. split; [exact G|].
      split; [exact H|]. split; [exact I|]. destruct J as [J|J]; [now left | right; cbn; now right].
  Qed.

  (* a link only the requestor holds: the responder's entry is Missing, nothing below it is in the stream *)
  Lemma node_hit_missing p c body b0 :
    aget c L = Some b0 -> aget c R = None -> SimQT (LNode p c body).
  Proof.
    intros EL ER x ns PN restN restS Hx Hv Hn HF Hw Hp HM.
    rewrite run_tree_node, ref_tree_eq, EL, ER. rewrite nf_tree_eq, EL, ER.
    rewrite (emit_missing R p c body _ ER) in HF |- *. cbn [fst snd] in HF |- *.
    destruct (q_hit t0 L R sizes ns x p c b0 Hx EL) as (x1 & E1 & Hx1). rewrite E1.
    set (seenN := seen_after [] PN) in *.
    set (it := {| i_link := c; i_act := Missing; i_blk := None |}) in *.
    cbn [tnodes app] in Hn. cbn [tpath] in Hp.
    assert (Hv1 : vpos (ns ++ [(p, c)]) (PN ++ [it])).
    { apply (vpos_snoc ns PN p c it (inodes body ++ restN) Hv Hn); [| reflexivity | intro Hx0; discriminate |].
      - unfold strip, ent, pres. cbn [snd i_link i_act it]. now rewrite ER.
      - intros q c1 Hin Hpr q' [<-|[]]. apply (HM q c1 Hin Hpr). cbn. now left. }
    assert (Hse : seen_after [] (PN ++ [it]) = seenN) by (rewrite seen_after_snoc; reflexivity).
    assert (Hul : ulast R [] (ns ++ [(p, c)]) = p).
    { rewrite ulast_app. unfold ulast at 1. cbn [fold_left snd fst]. unfold pres. now rewrite ER. }
    destruct (wf_node_parts p c body Hw) as (Hwi & Hwp & Hnn).
    assert (Hn1 : tnodes t0 = (ns ++ [(p, c)]) ++ inodes body ++ restN) by (rewrite <- app_assoc; exact Hn).
    assert (HF1 : F0 = (PN ++ [it]) ++ restS) by (rewrite <- app_assoc; exact HF).
    assert (Hu : ulast R [] (ns ++ [(p, c)]) <> []) by (rewrite Hul; exact Hp).
    assert (Hb : forall q, In q (ipaths body) -> proper_prefix (ulast R [] (ns ++ [(p, c)])) q = true).
    { rewrite Hul. intros q Hq. pose proof (below_parent p c body Hw) as Hf. rewrite Forall_forall in Hf. now apply Hf. }
    pose proof (simQF_all body x1 (ns ++ [(p, c)]) (PN ++ [it]) restN restS Hx1 Hv1 Hn1 HF1 Hu Hwi Hb) as HQ.
    rewrite Hse, Hul in HQ.
    destruct (run_items E body x1) as [[x2 evs] ok]. destruct (ref_items R body false L) as [st' o].
    destruct (nf_first L body); [| |exact I].
    - destruct HQ as (A & B & C & D & F & G). rewrite visits_load. cbn [tnodes]. rewrite G. auto 10.
    - destruct HQ as (A & B & C & D & F & G & H & I). rewrite visits_load.
      split; [exact A|]. split; [exact B|]. split; [exact C|]. split; [congruence|]. split; [rewrite F; exact Hag|].
      split; [rewrite F; apply (vpos_covers ns PN Hv)|]. split; [exact G|]. split; [exact H|]. right. rewrite I. cbn. now left.
  Qed.

  Lemma simQI_nil : SimQI INil.
  Proof.
    intros x ns PN restN restS Hx Hv Hn HF _ _ _ _. cbn. rewrite !app_nil_r. auto 10.
  Qed.

  Lemma simQI_visit v r : SimQI r -> SimQI (IVisit v r).
  Proof.
    intros IH x ns PN restN restS Hx Hv Hn HF Hw Hpw Hnn HM. rewrite run_items_visit, ref_items_visit, nf_items_visit. cbn [inodes].
    rewrite emit_items_visit in *.
    specialize (IH x ns PN restN restS Hx Hv Hn HF Hw Hpw Hnn HM).
    destruct (run_items E r x) as [[x2 evs] ok]. destruct (ref_items R r true L) as [st' o].
    destruct (nf_items L R r); [| |exact I].
    - destruct IH as (A & B & C & D & F & G). cbn [visits_of ovisits]. rewrite merrs_visit, B. auto 10.
    - destruct IH as (A & B & C & D & F & G & H & I & J). cbn [visits_of ovisits]. rewrite merrs_visit, B. auto 12.
  Qed.

  Lemma sibling_sep t r n m :
    wf_tree t = true -> wf_items r = true -> incomparable_all (tpath t) (child_paths r) = true ->
    In n (tpaths t) -> In m (ipaths r) -> proper_prefix n m = false.
  Proof.
    intros Hwt Hwr Hpt Hn Hm. destruct (ipaths_children r m Hm) as (t2 & Ht2 & Hq2).
    assert (Hin2 : In (tpath t2) (child_paths r)) by (rewrite child_paths_children; now apply in_map).
    destruct (incomparable_all_in _ _ _ Hpt Hin2) as [P1 P2].
    apply (later_sibling_not_below t t2 n m Hwt (wf_items_children r t2 Hwr Ht2) P1 P2 Hn Hq2).
  Qed.

  Lemma simQI_child t r : SimQT t -> SimQI r -> SimQI (IChild t r).
  Proof.
    intros IHt IHr x ns PN restN restS Hx Hv Hn HF Hw Hpw Hnn HM. rewrite run_items_child, ref_items_child, nf_items_child.
    rewrite emit_items_child in HF |- *. set (seenN := seen_after [] PN) in *.
    pose proof (proj2 (proj1 (emit_ok R) t seenN)) as Hs1.
    destruct (emit_tree R t seenN) as [a s1] eqn:Ea. destruct (emit_items R r s1) as [b s2] eqn:Eb. cbn [fst snd] in *.
    cbn in Hw. apply andb_true_iff in Hw as [Hwt Hwr].
    cbn in Hpw. apply andb_true_iff in Hpw as [Hpt Hpr].
    assert (Hnt : tpath t <> []) by (apply Hnn; cbn; now left).
    assert (Hnr : forall q, In q (child_paths r) -> q <> []) by (intros q Hq; apply Hnn; cbn; now right).
    cbn [inodes] in Hn. rewrite <- app_assoc in Hn. rewrite <- app_assoc in HF.
    assert (HMt : Mcond ns (tpaths t)).
    { intros q c1 Hin Hpr' q' Hq'. apply (HM q c1 Hin Hpr'). cbn. apply in_app_iff. now left. }
    specialize (IHt x ns PN (inodes r ++ restN) (b ++ restS) Hx Hv Hn). fold seenN in IHt. rewrite Ea in IHt. cbn [fst snd] in IHt.
    specialize (IHt HF Hwt Hnt HMt).
    destruct (run_tree E t x) as [[x1 e1] ok1]. destruct (ref_tree R t true L) as [st1 o1].
    destruct (nf_tree L R t) eqn:Enf.
    - (* the whole subtree was loaded locally *)
      destruct IHt as (A & B & C & D & F & G). subst ok1 st1.
      assert (Hse : seen_after [] (PN ++ a) = s1) by (rewrite seen_after_app; fold seenN; now symmetry).
      assert (Hn2 : tnodes t0 = (ns ++ tnodes t) ++ inodes r ++ restN) by (rewrite <- app_assoc; exact Hn).
      assert (HF2 : F0 = (PN ++ a) ++ fst (emit_items R r (seen_after [] (PN ++ a))) ++ restS).
      { rewrite Hse, Eb, <- app_assoc. exact HF. }
      assert (HMr : Mcond (ns ++ tnodes t) (ipaths r)).
      { intros q c1 Hin Hpr' q' Hq'. apply in_app_iff in Hin as [Hin|Hin].
        - apply (HM q c1 Hin Hpr'). cbn. apply in_app_iff. now right.
        - apply (sibling_sep t r q q' Hwt Hwr Hpt); [|exact Hq'].
          rewrite <- (proj1 tnodes_paths). apply in_map_iff. exists (q, c1). auto. }
      specialize (IHr x1 (ns ++ tnodes t) (PN ++ a) restN restS F G Hn2 HF2 Hwr Hpr Hnr HMr). rewrite Hse, Eb in IHr. cbn [fst snd] in IHr.
      destruct (run_items E r x1) as [[x2 e2] ok2]. destruct (ref_items R r true L) as [st2 o2].
      destruct (nf_items L R r); [| |exact I].
      + destruct IHr as (A2 & B2 & C2 & D2 & F2 & G2).
        rewrite visits_of_app, ovisits_app, merrs_app, B, B2, D, D2. cbn [inodes].
        rewrite <- !app_assoc in F2. rewrite <- !app_assoc in G2. auto 10.
      + destruct IHr as (A2 & B2 & C2 & D2 & F2 & G2 & H2 & I2 & J2).
        rewrite visits_of_app, ovisits_app, merrs_app, B, B2, D. cbn [app].
        split; [exact A2|]. split; [reflexivity|]. split; [exact C2|]. split; [exact D2|]. split; [exact F2|]. split; [exact G2|].
        split; [exact H2|]. split; [exact I2|]. destruct J2 as [J2|J2]; [now left | right; cbn; apply in_app_iff; now right].
    - (* the request went online inside the subtree: the rest is the online simulation *)
      destruct IHt as (A & B & C & D & F & G & H & I & J). subst ok1.
      destruct SA as [_ Hit]. destruct (Hit r) as [HIT _].
      assert (Hu1 : unf x1 = [] \/ forall q, In q (ipaths r) -> proper_prefix (unf x1) q = false).
      { destruct J as [J|J]; [now left | right]. intros q Hq. apply (sibling_sep t r (unf x1) q Hwt Hwr Hpt J Hq). }
      rewrite <- D in F, G.
      assert (Hq1 : mq2 x1 = fst (emit_items R r s1) ++ restS) by (rewrite Eb; exact H).
      specialize (HIT x1 s1 restS C F G Hwr Hpr Hnr Hq1 Hu1). rewrite Eb in HIT. cbn [fst snd] in HIT. rewrite D in HIT.
      destruct (run_items E r x1) as [[x2 e2] ok2]. destruct (ref_items R r true st1) as [st2 o2].
      destruct HIT as (A2 & B2 & C2 & D2 & F2 & G2 & H2 & I2 & J2).
      rewrite visits_of_app, ovisits_app, merrs_app, B, I2.
      split; [exact A2|]. split; [reflexivity|]. split; [exact B2|]. split; [exact C2|]. split; [exact D2|]. split; [exact F2|].
      split; [exact G2|]. split; [rewrite H2, I; reflexivity|].
      destruct J2 as [J2|[J2|J2]].
      + rewrite J2. destruct J as [J|J]; [now left | right; cbn; apply in_app_iff; now left].
      + now left.
      + right. cbn. apply in_app_iff. now right.
    - destruct ok1; [destruct (run_items E r x1) as [[x2 e2] ok2]|]; destruct (ref_items R r true st1) as [st2 o2]; exact I.
  Qed.

  Theorem simQ_all : (forall t, SimQT t) /\ (forall l, SimQI l).
  Proof.
    apply (ltree_items_ind SimQT SimQI).
    - intros p c body IH. destruct (aget c L) as [b0|] eqn:EL; destruct (aget c R) as [b|] eqn:ER.
      + now apply (node_hit_present p c body b0 b).
      + now apply (node_hit_missing p c body b0).
      + now apply (node_miss_present p c body b).
      + now apply node_miss_missing.
    - apply simQI_nil.
    - intros v r IH. now apply simQI_visit.
    - intros t IHt r IHr. now apply simQI_child.
  Qed.
End QSim.

(* C02 for a single request, every plan / stores / chunking / delivery schedule, guarded by: the responder
   holds the root (else finding C02-F2), the plan's record order is its traversal order (trie_ordered; true of
   real traversals), and not finding C02-F1 (no_F1). *)
Theorem c02_holds_scan t L R sizes sched :
  wf_plan t = true -> agree R L -> aget (root_cid t) R <> None ->
  trie_ordered t = true -> no_F1_scan t L R = true ->
  model_outcome t L R sizes sched = ref_outcome t L R.
Proof.
  intros Hwf Hag HR Hord HF1.
  destruct (aget (root_cid t) L) as [b0|] eqn:HL; [|now apply (c02_online_chunks R t L sizes sched)].
  destruct t as [p c body]. cbn [root_cid] in HL, HR.
  unfold wf_plan in Hwf. cbn [tpath] in Hwf. destruct p as [|s p]; [|discriminate].
  destruct (aget c R) as [b|] eqn:ER; [|congruence].
  assert (Eb : b0 = b) by (apply (Hag c b0 b HL ER)). subst b0.
  unfold no_F1_scan in HF1. rewrite nf_tree_eq, HL, ER in HF1.
  unfold model_outcome, ref_outcome, run_request. rewrite run_tree_node, ref_tree_eq, HL, ER, (aput_same c b L HL).
  set (t0 := LNode [] c body) in *.
  assert (Hx0 : qinv L [] (x_init L [] sched)) by (unfold qinv, x_init; cbn; auto 12).
  destruct (q_hit t0 L R sizes [] _ [] c b Hx0 HL) as (x1 & E1 & Hx1). rewrite E1. cbn [app] in Hx1.
  set (it0 := {| i_link := c; i_act := Present; i_blk := Some b |}).
  assert (Hv1 : vpos L R [([], c)] [it0]).
  { unfold vpos. split; [discriminate|]. split; [|split].
    - unfold strip, ent, pres. cbn. now rewrite ER.
    - intros q c1 [Hin|[]] Hpr. injection Hin as <- <-. unfold pres in Hpr. rewrite ER in Hpr. discriminate.
    - intros it [<-|[]] _. cbn. rewrite HL. discriminate. }
  destruct (wf_node_parts [] c body Hwf) as (Hwi & Hwp & Hnn).
  assert (Hn : tnodes t0 = [([], c)] ++ inodes body ++ []) by (cbn; now rewrite app_nil_r).
  assert (HF : fst (emit_tree R t0 []) = [it0] ++ fst (emit_items R body (seen_after [] [it0])) ++ []).
  { unfold t0. rewrite (emit_present R [] c body b [] ER). cbn. now rewrite app_nil_r. }
  assert (HM : Mcond R [([], c)] (ipaths body)).
  { intros q c1 [Hin|[]] Hpr. injection Hin as <- <-. unfold pres in Hpr. rewrite ER in Hpr. discriminate. }
  destruct (simQ_all t0 L R sizes Hag ltac:(cbn; congruence) Hord Hwf) as [_ HQI].
  specialize (HQI body x1 [([], c)] [it0] [] [] Hx1 Hv1 Hn HF Hwi Hwp Hnn HM).
  destruct (run_items (exec_ask proper_prefix (honest t0 R sizes) 0) body x1) as [[x2 evs] ok].
  destruct (ref_items R body true L) as [st' o].
  unfold outcome_of, final_errs. cbn [fst snd o_visits o_missing o_other_errs o_store o_complete]. rewrite visits_load.
  destruct (nf_items L R body); [| |discriminate].
  - destruct HQI as (A & B & C & D & F & G). subst ok st'.
    destruct F as (_ & Hcan & _ & Hst & Her & _). rewrite Hcan, Her, Hst, B.
    assert (Hom : omissing o = []) by (unfold merrs in D; now apply map_eq_nil in D). rewrite Hom. reflexivity.
  - destruct HQI as (A & B & C & D & F & G & H & I & J). subst ok.
    destruct C as (ch & _ & (_ & Hcan & _)). rewrite Hcan, I, B, D.
    rewrite missing_of_merrs, length_merrs. f_equal. lia.
Qed.

(* ---------- everything the traversal reaches is held locally: nothing is sent ---------- *)
Section AllLocal.
  Variable t0 : ltree.
  Variables L R : store.
  Variable sizes : list nat.
  Hypothesis Hag : agree R L.
  Notation E := (exec_ask proper_prefix (honest t0 R sizes) 0).

  Definition SimLT (t : ltree) : Prop :=
    forall x ns here, qinv L ns x -> all_local_tree L t = true ->
      let '(x', evs, ok) := run_tree E t x in
      let '(st', o) := ref_tree R t here L in
      ok = true /\ visits_of evs = ovisits o /\ st' = L /\ merrs o = [] /\ qinv L (ns ++ tnodes t) x'.
  Definition SimLI (l : items) : Prop :=
    forall x ns here, qinv L ns x -> all_local_items L l = true ->
      let '(x', evs, ok) := run_items E l x in
      let '(st', o) := ref_items R l here L in
      ok = true /\ visits_of evs = ovisits o /\ st' = L /\ merrs o = [] /\ qinv L (ns ++ inodes l) x'.

  Lemma simL_all : (forall t, SimLT t) /\ (forall l, SimLI l).
  Proof.
    apply (ltree_items_ind SimLT SimLI).
    - intros p c body IH x ns here Hx Hl. cbn [all_local_tree] in Hl.
      destruct (aget c L) as [b0|] eqn:EL; [|discriminate].
      destruct (q_hit t0 L R sizes ns x p c b0 Hx EL) as (x1 & E1 & Hx1).
      rewrite run_tree_node, ref_tree_eq, EL, E1. cbn [tnodes].
      assert (Hgo : forall h, let '(x', evs, ok) := run_items E body x1 in
                              let '(st', o) := ref_items R body h L in
                              ok = true /\ visits_of (ELoad p c AOk :: evs) = ovisits o /\ st' = L /\ merrs o = [] /\
                              qinv L (ns ++ (p, c) :: inodes body) x').
      { intro h. specialize (IH x1 (ns ++ [(p, c)]) h Hx1 Hl).
        destruct (run_items E body x1) as [[x2 evs] ok]. destruct (ref_items R body h L) as [st' o].
        rewrite <- app_assoc in IH. exact IH. }
      destruct here; [destruct (aget c R) as [b|] eqn:ER|].
      + assert (Eb : b0 = b) by (apply (Hag c b0 b EL ER)). subst b0. rewrite (aput_same c b L EL).
        specialize (Hgo true). destruct (run_items E body x1) as [[x2 evs] ok]. destruct (ref_items R body true L) as [st' o]. exact Hgo.
      + specialize (Hgo false). destruct (run_items E body x1) as [[x2 evs] ok]. destruct (ref_items R body false L) as [st' o]. exact Hgo.
      + specialize (Hgo false). destruct (run_items E body x1) as [[x2 evs] ok]. destruct (ref_items R body false L) as [st' o]. exact Hgo.
    - intros x ns here Hx _. cbn. rewrite app_nil_r. auto 10.
    - intros v r IH x ns here Hx Hl. rewrite run_items_visit, ref_items_visit. specialize (IH x ns here Hx Hl).
      destruct (run_items E r x) as [[x2 evs] ok]. destruct (ref_items R r here L) as [st' o].
      destruct IH as (A & B & C & D & F). cbn [visits_of ovisits inodes]. rewrite merrs_visit, B. auto 10.
    - intros t IHt r IHr x ns here Hx Hl. cbn [all_local_items] in Hl. apply andb_true_iff in Hl as [Hlt Hlr].
      rewrite run_items_child, ref_items_child. specialize (IHt x ns here Hx Hlt).
      destruct (run_tree E t x) as [[x1 e1] ok1]. destruct (ref_tree R t here L) as [st1 o1].
      destruct IHt as (A & B & C & D & F). subst ok1 st1. specialize (IHr x1 (ns ++ tnodes t) here F Hlr).
      destruct (run_items E r x1) as [[x2 e2] ok2]. destruct (ref_items R r here L) as [st2 o2].
      destruct IHr as (A2 & B2 & C2 & D2 & F2).
      rewrite visits_of_app, ovisits_app, merrs_app, B, B2, D, D2. cbn [inodes]. rewrite <- app_assoc in F2. auto 10.
  Qed.
End AllLocal.

Theorem c02_all_local t L R sizes sched :
  agree R L -> all_local_tree L t = true -> model_outcome t L R sizes sched = ref_outcome t L R.
Proof.
  intros Hag Hl. unfold model_outcome, ref_outcome, run_request.
  assert (Hx0 : qinv L [] (x_init L [] sched)) by (unfold qinv, x_init; cbn; auto 12).
  destruct (simL_all t L R sizes Hag) as [HT _]. specialize (HT t _ [] true Hx0 Hl).
  destruct (run_tree (exec_ask proper_prefix (honest t R sizes) 0) t (x_init L [] sched)) as [[x2 evs] ok].
  destruct (ref_tree R t true L) as [st' o].
  destruct HT as (A & B & C & D & F). subst ok st'.
  unfold outcome_of, final_errs. cbn [fst snd o_visits o_missing o_other_errs o_store o_complete].
  destruct F as (_ & Hcan & _ & Hst & Her & _). rewrite Hcan, Her, Hst, B.
  assert (Hom : omissing o = []) by (unfold merrs in D; now apply map_eq_nil in D). rewrite Hom. reflexivity.
Qed.

(* C02 for a single request, with the guard that is exactly the complement of the driver's F1 tag *)
Theorem c02_holds_guarded t L R sizes sched :
  wf_plan t = true -> agree R L -> aget (root_cid t) R <> None ->
  trie_ordered t = true -> no_F1 t L R = true ->
  model_outcome t L R sizes sched = ref_outcome t L R.
Proof.
  intros Hwf Hag HR Hord HF1. unfold no_F1 in HF1. apply orb_true_iff in HF1 as [Hl|Hs].
  - now apply c02_all_local.
  - now apply c02_holds_scan.
Qed.
