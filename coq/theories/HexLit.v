(* HexLit.v — compact byte-string literals for the generated cases files only (no theorem depends on
   this file): hb n [w1; w2; ...] is the byte string of length n whose bytes are packed big-endian,
   seven per primitive 63-bit integer literal (the last word holds the remaining n mod 7, or 7, bytes).
   Coq parses `0x...%uint63` literals about twenty times faster than string literals. *)
From Coq Require Import List NArith ZArith Uint63.
From GS Require Import Varint.
Import ListNotations.

Fixpoint bits_N (k : nat) (i : int) : N :=
  match k with O => 0%N | S k' => ((if is_even i then 0 else 1) + 2 * bits_N k' (i >> 1)%uint63)%N end.
Definition word_bytes (n : nat) (w : int) : bytes :=
  (fix go (k : nat) (w : int) (acc : bytes) : bytes :=
     match k with O => acc | S k' => go k' (w >> 8)%uint63 (bits_N 8 (w land 255)%uint63 :: acc) end) n w [].
Fixpoint hb (n : nat) (ws : list int) : bytes :=
  match ws with
  | [] => []
  | w :: r => if (n <=? 7)%nat then word_bytes n w else word_bytes 7 w ++ hb (n - 7) r
  end.

(* a run of one byte (nesting bombs, padded block data) *)
Definition rep (n : N) (b : N) : bytes := N.iter n (cons b) [].

Example hb_ex : hb 9 [0x01020304050607%uint63; 0x0809%uint63] = [1; 2; 3; 4; 5; 6; 7; 8; 9]%N.
Proof. vm_compute. reflexivity. Qed.
Example hb_ex0 : hb 0 [] = []. Proof. reflexivity. Qed.
Example hb_ex2 : hb 2 [0x00ff%uint63] = [0; 255]%N. Proof. vm_compute. reflexivity. Qed.
Example hb_ex3 : hb 8 [0xfffefdfcfbfaf9%uint63; 0x80%uint63] = [255; 254; 253; 252; 251; 250; 249; 128]%N.
Proof. vm_compute. reflexivity. Qed.
