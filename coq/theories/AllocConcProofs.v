(* AllocConcProofs.v — concurrent callers of the allocator (extends C13, C14): proofs about AllocConc.v.
   (a) soundness of the acceptor: an accepted grouped history is explained by a linearisation;
   (b) every state reachable through groups is a state reachable by a plain op list, hence satisfies
       the C13 limits invariant and the C14 no-lost-wake-up invariant;
   (c) completeness of the merge-free acceptor: every linearised model run is accepted. *)
From Coq Require Import List NArith Bool Lia Permutation.
From GS Require Import Base Alloc AllocProofs AllocConc.
Import ListNotations.
Open Scope N_scope.

(* ---------- permutations ---------- *)
Lemma inserts_perm {A} (x : A) l b : In b (inserts x l) -> Permutation b (x :: l).
Proof.
  revert b; induction l as [|y r IH]; intros b H; simpl in H.
  - destruct H as [<-|[]]. apply Permutation_refl.
  - destruct H as [<-|H]; [apply Permutation_refl|].
    apply in_map_iff in H as (b' & <- & Hb'). apply IH in Hb'.
    eapply Permutation_trans; [apply perm_skip, Hb' | apply perm_swap].
Qed.

Lemma perms_perm {A} (l b : list A) : In b (perms l) -> Permutation b l.
Proof.
  revert b; induction l as [|x r IH]; intros b H; simpl in H.
  - destruct H as [<-|[]]. constructor.
  - apply in_flat_map in H as (b' & Hb' & Hb). apply inserts_perm in Hb. apply IH in Hb'.
    eapply Permutation_trans; [exact Hb | apply perm_skip, Hb'].
Qed.

Lemma inserts_mid {A} (x : A) b1 b2 : In (b1 ++ x :: b2) (inserts x (b1 ++ b2)).
Proof.
  induction b1 as [|y b1 IH]; simpl.
  - destruct b2; simpl; auto.
  - right. apply in_map_iff. eauto.
Qed.

Lemma perms_complete {A} (l : list A) : forall b, Permutation b l -> In b (perms l).
Proof.
  induction l as [|x r IH]; intros b H; simpl.
  - apply Permutation_sym, Permutation_nil in H. subst. now left.
  - assert (Hx : In x b) by (eapply Permutation_in; [apply Permutation_sym, H | now left]).
    apply in_split in Hx as (b1 & b2 & ->).
    apply Permutation_sym, Permutation_cons_app_inv, Permutation_sym in H.
    apply in_flat_map. exists (b1 ++ b2). split; [now apply IH | apply inserts_mid].
Qed.

(* ---------- boolean equalities ---------- *)
Lemma out_eqb_eq a b : out_eqb a b = true <-> a = b.
Proof.
  destruct a, b; simpl; split; intro H; try discriminate;
    try (apply N.eqb_eq in H; now subst); try (inversion H; apply N.eqb_refl).
Qed.

Lemma obs_eqb_eq a b : obs_eqb a b = true <-> a = b.
Proof.
  unfold obs_eqb. split.
  - intro H. repeat (apply andb_true_iff in H as [H ?]).
    apply (list_eqb_eq out_eqb out_eqb_eq) in H.
    apply (list_eqb_eq N.eqb N.eqb_eq) in H0.
    apply N.eqb_eq in H1, H2, H3. apply Bool.eqb_prop in H4.
    destruct a, b; simpl in *. now subst.
  - intros <-. repeat (apply andb_true_iff; split);
      try apply N.eqb_refl; try apply Bool.eqb_reflx;
      [apply (list_eqb_eq out_eqb out_eqb_eq) | apply (list_eqb_eq N.eqb N.eqb_eq)]; reflexivity.
Qed.

Lemma bool_eqb_eq x y : Bool.eqb x y = true <-> x = y.
Proof. split; [apply Bool.eqb_prop | intros <-; apply Bool.eqb_reflx]. Qed.

Lemma gobs_eqb_eq a b : gobs_eqb a b = true <-> a = b.
Proof.
  unfold gobs_eqb. rewrite andb_true_iff, obs_eqb_eq, (list_eqb_eq Bool.eqb bool_eqb_eq).
  destruct a, b; simpl. split; [intros [-> ->]; reflexivity | intro H; inversion H; auto].
Qed.

Lemma dedup_incl univ l c : In c (dedup univ l) -> In c l.
Proof.
  induction l as [|x r IH]; simpl; [auto|].
  destruct (existsb (cand_eqb univ x) (dedup univ r)); simpl; intuition.
Qed.

(* ---------- a block is a plain run of Alloc.step ---------- *)
Lemma final_app a : forall s b, final s (a ++ b) = final (final s a) b.
Proof.
  induction a as [|o a IH]; intros s b; simpl; [reflexivity|].
  destruct (step s o) as [[[s1 outs] err] ok]. apply IH.
Qed.

Lemma run_ok_app univ a : forall s b,
  snd (run univ s (a ++ b)) = snd (run univ s a) && snd (run univ (final s a) b).
Proof.
  induction a as [|o a IH]; intros s b; simpl; [reflexivity|].
  destruct (step s o) as [[[s1 outs] err] ok] eqn:Es.
  specialize (IH s1 b).
  destruct (run univ s1 (a ++ b)) as [o1 k1]. destruct (run univ s1 a) as [o2 k2].
  simpl in *. rewrite IH. now rewrite andb_assoc.
Qed.

Lemma run_block_final univ b : forall s r s' r' outs errs ok,
  run_block s r b = (s', r', outs, errs, ok) ->
  final s (map t_op b) = s' /\ snd (run univ s (map t_op b)) = ok.
Proof.
  induction b as [|t b IH]; intros s r s' r' outs errs ok H; simpl in H.
  - inversion H; subst. auto.
  - simpl. destruct (step s (t_op t)) as [[[s1 outs1] err1] ok1] eqn:Es.
    destruct (run_block s1 _ b) as [[[[s2 r2] outs2] errs2] ok2] eqn:Eb.
    inversion H; subst. destruct (IH _ _ _ _ _ _ _ Eb) as [A B]. split; [exact A|].
    destruct (run univ s1 (map t_op b)) as [o1 k1]. simpl in *. now subst.
Qed.

Lemma tag_ops os : forall i nt, map t_op (tag i nt os) = os.
Proof. induction os as [|o r IH]; intros i nt; simpl; [reflexivity | now rewrite IH]. Qed.

Lemma tag_length os : forall i nt, length (tag i nt os) = length os.
Proof. induction os as [|o r IH]; intros i nt; simpl; [reflexivity | now rewrite IH]. Qed.

(* ---------- linearised runs of a grouped script ---------- *)
(* [glin univ s r nt script obsl lin sf]: from state s (renaming r, nt harness tickets issued) the
   grouped script can produce the observations obsl: the calls of each step are run, one after the
   other by Alloc.step, in SOME order b (a permutation of the step's calls); lin is the resulting plain
   op list and sf the final state. *)
Inductive glin (univ : list peer) : st -> rmap -> ticket -> list gstep -> list gobs -> list op -> st -> Prop :=
| gl_nil s r nt : glin univ s r nt [] [] [] s
| gl_cons s r nt g script b s' r' outs errs obsl lin sf :
    Permutation b (tag 0 nt (g_ops g)) ->
    run_block s r b = (s', r', outs, errs, true) ->
    glin univ s' r' (nt + n_allocs (g_ops g)) script obsl lin sf ->
    glin univ s r nt (g :: script)
         (gobserve univ s' r' outs errs (length (g_ops g)) :: obsl)
         (map t_op b ++ lin) sf.

(* lin is obtained from the script by choosing a permutation for each step *)
Definition linearises (script : list gstep) (lin : list op) : Prop :=
  exists blocks, Forall2 (fun g b => Permutation b (g_ops g)) script blocks /\ lin = concat blocks.

Lemma glin_linearises univ s r nt script obsl lin sf :
  glin univ s r nt script obsl lin sf ->
  linearises script lin /\ final s lin = sf /\ snd (run univ s lin) = true /\ length obsl = length script.
Proof.
  induction 1 as [|s r nt g script b s' r' outs errs obsl lin sf Hp Hb _ IH].
  - split; [exists []; split; [constructor | reflexivity] | auto].
  - destruct IH as ((blocks & HF & ->) & Hfin & Hok & Hlen).
    destruct (run_block_final univ _ _ _ _ _ _ _ _ Hb) as [Hf Hk].
    split; [|split; [|split]].
    + exists (map t_op b :: blocks). split; [|reflexivity]. constructor; [|exact HF].
      rewrite <- (tag_ops (g_ops g) 0 nt). now apply Permutation_map.
    + rewrite final_app, Hf. exact Hfin.
    + rewrite run_ok_app, Hk, Hf, Hok. reflexivity.
    + simpl. now rewrite Hlen.
Qed.

(* ---------- (a) soundness of the acceptor ---------- *)
Lemma acc_with_sound dd univ (Hdd : forall l c, In c (dd l) -> In c l) :
  forall script obsl cs nt, acc_with dd univ cs nt script obsl = true ->
  exists c lin sf, In c cs /\ glin univ (fst c) (snd c) nt script obsl lin sf.
Proof.
  induction script as [|g script IH]; intros obsl cs nt H; simpl in H.
  - destruct obsl; [|discriminate]. destruct cs as [|c cs]; [discriminate|].
    exists c, [], (fst c). split; [now left | constructor].
  - destruct obsl as [|ob obsl]; [discriminate|].
    destruct (dd (flat_map (adv univ nt g ob) cs)) as [|c0 l0] eqn:Ed; [discriminate|].
    destruct (IH _ _ _ H) as (c' & lin & sf & Hin & HG).
    rewrite <- Ed in Hin. apply Hdd in Hin.
    apply in_flat_map in Hin as (c & Hc & Hadv).
    unfold adv in Hadv. apply in_flat_map in Hadv as (b & Hb & Hx).
    destruct (run_block (fst c) (snd c) b) as [[[[s' r'] outs] errs] ok] eqn:Eb.
    destruct (ok && gobs_eqb (gobserve univ s' r' outs errs (length (g_ops g))) ob) eqn:Ec; [|destruct Hx].
    destruct Hx as [<-|[]]. apply andb_true_iff in Ec as [-> Eo]. apply gobs_eqb_eq in Eo. subst ob.
    exists c, (map t_op b ++ lin), sf. split; [exact Hc|].
    econstructor; [apply perms_perm, Hb | exact Eb | exact HG].
Qed.

Lemma acc_sound univ mt mp script obsl :
  acc univ [(init mt mp, [])] 0 script obsl = true ->
  exists lin sf, glin univ (init mt mp) [] 0 script obsl lin sf.
Proof.
  intro H. apply (acc_with_sound (dedup univ) univ (dedup_incl univ)) in H
    as (c & lin & sf & [<-|[]] & HG). eauto.
Qed.

(* ---------- (b) states reachable through groups ---------- *)
(* steps: one call, or the calls of a group in any order; states in the middle of a group included *)
Inductive greach (mt mp : N) : st -> Prop :=
| gr_init : greach mt mp (init mt mp)
| gr_step s g b pre suf : greach mt mp s -> Permutation b (g_ops g) -> b = pre ++ suf ->
                          greach mt mp (final s pre).

Lemma greach_plain mt mp s : greach mt mp s -> exists ops, s = final (init mt mp) ops.
Proof.
  induction 1 as [|s g b pre suf _ (ops & ->) _ _].
  - exists []. reflexivity.
  - exists (ops ++ pre). now rewrite final_app.
Qed.

Lemma greach_limits mt mp s : greach mt mp s ->
  total s <= mt /\ (forall p, alloc_of s p <= mp) /\ total s = psum (peers s).
Proof. intro H. destruct (greach_plain _ _ _ H) as (ops & ->). apply c13_limits. Qed.

Lemma greach_stable mt mp s : greach mt mp s -> StableSt s.
Proof. intro H. destruct (greach_plain _ _ _ H) as (ops & ->). apply c14_stable. Qed.

Lemma glin_greach univ mt mp : forall s r nt script obsl lin sf,
  glin univ s r nt script obsl lin sf -> greach mt mp s -> greach mt mp sf.
Proof.
  induction 1 as [|s r nt g script b s' r' outs errs obsl lin sf Hp Hb _ IH]; intro HR; [exact HR|].
  apply IH. destruct (run_block_final univ _ _ _ _ _ _ _ _ Hb) as [<- _].
  apply (gr_step mt mp s g (map t_op b) (map t_op b) []); [exact HR | | now rewrite app_nil_r].
  rewrite <- (tag_ops (g_ops g) 0 nt). now apply Permutation_map.
Qed.

(* accepted history: explained by a linearisation whose final state obeys both invariants *)
Lemma acc_explained univ mt mp script obsl :
  acc univ [(init mt mp, [])] 0 script obsl = true ->
  exists lin, linearises script lin /\
    glin univ (init mt mp) [] 0 script obsl lin (final (init mt mp) lin) /\
    let s := final (init mt mp) lin in
    total s <= mt /\ (forall p, alloc_of s p <= mp) /\ total s = psum (peers s) /\ StableSt s.
Proof.
  intro H. apply acc_sound in H as (lin & sf & HG).
  destruct (glin_linearises _ _ _ _ _ _ _ _ HG) as (HL & Hf & _). subst sf.
  exists lin. split; [exact HL|]. split; [exact HG|].
  destruct (c13_limits mt mp lin) as (A & B & C). pose proof (c14_stable mt mp lin). auto.
Qed.

(* ---------- (c) completeness of the merge-free acceptor ---------- *)
Lemma gobs_eqb_refl a : gobs_eqb a a = true.
Proof. now apply gobs_eqb_eq. Qed.

Lemma acc_nd_complete univ : forall s r nt script obsl lin sf,
  glin univ s r nt script obsl lin sf ->
  forall cs, In (s, r) cs -> acc_nd univ cs nt script obsl = true.
Proof.
  induction 1 as [|s r nt g script b s' r' outs errs obsl lin sf Hp Hb _ IH]; intros cs Hin.
  - simpl. destruct cs; [destruct Hin | reflexivity].
  - unfold acc_nd in *. simpl.
    assert (Hnew : In (s', r') (flat_map (adv univ nt g (gobserve univ s' r' outs errs (length (g_ops g)))) cs)).
    { apply in_flat_map. exists (s, r). split; [exact Hin|].
      unfold adv. apply in_flat_map. exists b. split; [now apply perms_complete|].
      simpl. rewrite Hb. rewrite gobs_eqb_refl. simpl. now left. }
    destruct (flat_map (adv univ nt g (gobserve univ s' r' outs errs (length (g_ops g)))) cs)
      as [|c0 l0] eqn:Ef; [destruct Hnew|]. apply IH. exact Hnew.
Qed.

(* the model's own run of a grouped script (groups in script order) is a linearised run ... *)
Lemma grun_glin univ mt mp : forall script pre r nt,
  exists lin sf, glin univ (final (init mt mp) pre) r nt script
                      (grun univ (final (init mt mp) pre) r nt script) lin sf.
Proof.
  induction script as [|g script IH]; intros pre r nt; simpl.
  - eexists _, _. constructor.
  - destruct (run_block (final (init mt mp) pre) r (tag 0 nt (g_ops g)))
      as [[[[s' r'] outs] errs] ok] eqn:Eb.
    destruct (run_block_final univ _ _ _ _ _ _ _ _ Eb) as [Hf Hk].
    rewrite tag_ops in Hf, Hk.
    assert (ok = true) as ->.
    { pose proof (proj2 (c13_monitor mt mp univ (pre ++ g_ops g))) as Hok.
      rewrite run_ok_app in Hok. apply andb_true_iff in Hok as [_ Hok]. congruence. }
    rewrite <- Hf, <- final_app.
    destruct (IH (pre ++ g_ops g) r' (nt + n_allocs (g_ops g))) as (lin & sf & HG).
    exists (map t_op (tag 0 nt (g_ops g)) ++ lin), sf.
    econstructor; [apply Permutation_refl | | exact HG].
    rewrite final_app, Hf. exact Eb.
Qed.

(* ... and is therefore accepted *)
Lemma grun_accepted univ mt mp script :
  acc_nd univ [(init mt mp, [])] 0 script (grun univ (init mt mp) [] 0 script) = true.
Proof.
  destruct (grun_glin univ mt mp script [] [] 0) as (lin & sf & HG). simpl in HG.
  eapply acc_nd_complete; [exact HG | now left].
Qed.
