(* C06Trie.v — the Verifier's replay over a traversal record that contains FAILED loads (succ = false) and loads
   below links the responder lacks (what the record looks like when a paused request goes online again in the
   middle of a traversal): the replay consumes exactly the responder's entries for the links it can reach —
   a link, then (unless the responder lacks it) the links recorded below it — and ends done.  Generalises
   C02Trie.tw_own / replay_own (records of successful local loads only). *)
From Coq Require Import List NArith Bool Lia.
From GS Require Import Base Ltree RecLoader ReqExec RecLoaderProofs C02Online C02Chunks C02Prefix C02Trie.
Import ListNotations.
Open Scope N_scope.

(* every leaf of the record has a link (RecordNextStep never leaves an empty leaf) *)
Inductive twf : trec -> Prop :=
| twf_node l s kids : (l <> None \/ kids <> []) -> Forall (fun sk => twf (snd sk)) kids -> twf (TRec l s kids).

Lemma record_step_twf : forall p c ok t, (twf t \/ t = trec_empty) -> twf (record_step p c ok t).
Proof.
  induction p as [|sg p IH]; intros c ok t Ht.
  - cbn [record_step]. constructor; [left; discriminate|].
    destruct Ht as [Ht | ->]; [inversion Ht; subst; assumption | constructor].
  - cbn [record_step]. constructor.
    + right. apply tsw_kids_nonempty.
    + assert (HF : Forall (fun sk : seg * trec => twf (snd sk)) (t_kids t)).
      { destruct Ht as [Ht | ->]; [inversion Ht; subst; assumption | constructor]. }
      clear Ht. induction (t_kids t) as [|[s k] r IHr]; cbn [upd_kids].
      * constructor; [|constructor]. cbn [snd]. apply IH. now right.
      * inversion HF; subst. destruct (N.eqb s sg).
        -- constructor; [|assumption]. cbn [snd] in *. apply IH. now left.
        -- constructor; [assumption|]. now apply IHr.
Qed.

Section Walk2.
  Variable T : trec.

  Lemma kids_walk2 t idx :
    node_at T idx = Some t ->
    forall ks j u its u' r,
      skipn j (t_kids t) = ks ->
      Forall (fun sk : seg * trec =>
        forall idx pth u its u' r, node_at T idx = Some (snd sk) -> segs_at T idx = pth -> twf (snd sk) ->
          tw (snd sk) pth u its = Some (u', r) ->
          vreplay T (VAt (idx ++ descend_from (snd sk))) u its = vreplay T (pop_rev T (rev idx)) u' r) ks ->
      Forall (fun sk => twf (snd sk)) ks ->
      tw_kids ks (segs_at T idx) u its = Some (u', r) ->
      match ks with
      | [] => True
      | (_, k) :: _ => vreplay T (VAt (idx ++ j :: descend_from k)) u its = vreplay T (pop_rev T (rev idx)) u' r
      end.
  Proof.
    intros Hn. induction ks as [|[s k] ks IH]; intros j u its u' r Hsk HF Hw Ht; [exact I|].
    destruct (nth_error_skipn _ _ _ _ Hsk) as [Hnth Hsk'].
    cbn [tw_kids] in Ht. destruct (tw k (segs_at T idx ++ [s]) u its) as [[u1 r1]|] eqn:Ek; [|discriminate].
    apply Forall_cons_iff in HF as [HF1 HF2]. apply Forall_cons_iff in Hw as [Hw1 Hw2]. cbn [snd] in HF1, Hw1.
    assert (Hn' : node_at T (idx ++ [j]) = Some k) by (rewrite node_at_app, Hn, Hnth; reflexivity).
    assert (Hs' : segs_at T (idx ++ [j]) = segs_at T idx ++ [s]) by (apply (segs_at_app T idx j t s k Hn Hnth)).
    specialize (HF1 (idx ++ [j]) (segs_at T idx ++ [s]) u its u1 r1 Hn' Hs' Hw1 Ek).
    rewrite <- app_assoc in HF1. cbn [app] in HF1. rewrite HF1.
    rewrite rev_app_distr. cbn [rev app pop_rev]. rewrite rev_involutive, Hn.
    destruct ks as [|[s2 k2] ks'].
    - cbn [tw_kids] in Ht. inversion Ht; subst. rewrite (nth_error_skipn_nil _ _ Hsk'). reflexivity.
    - destruct (nth_error_skipn _ _ _ _ Hsk') as [Hnth2 _]. rewrite Hnth2.
      apply (IH (S j) u1 r1 u' r Hsk' HF2 Hw2 Ht).
  Qed.

  (* C02Trie.sub_walk without the assumption that recorded loads succeeded *)
  Lemma sub_walk2 : forall t idx pth u its u' r,
    node_at T idx = Some t -> segs_at T idx = pth -> twf t ->
    tw t pth u its = Some (u', r) ->
    vreplay T (VAt (idx ++ descend_from t)) u its = vreplay T (pop_rev T (rev idx)) u' r.
  Proof.
    induction t as [lnk succ kids IHk] using trec_ind2. intros idx pth u its u' r Hn Hs Hw Ht. subst pth.
    inversion Hw as [l0 s0 k0 Hne Hwk]; subst. rewrite tw_eq in Ht.
    destruct lnk as [l|].
    - destruct its as [|h r0]; [discriminate|].
      destruct (N.eqb l (i_link h) && (succ || negb (did_follow (i_act h)))) eqn:Ec; [|discriminate].
      apply andb_true_iff in Ec as [Ec1 Ec2]. apply N.eqb_eq in Ec1.
      cbn [descend_from]. rewrite app_nil_r. cbn [vreplay].
      rewrite (vdone_tip T idx _ Hn) by (cbn; discriminate).
      unfold verify_next. rewrite (vdone_tip T idx _ Hn) by (cbn; discriminate). rewrite Hn. cbn [t_lnk t_succ].
      rewrite Ec1, N.eqb_refl. cbn [negb andb].
      assert (Echk : negb succ && did_follow (i_act h) = false) by (destruct succ, (did_follow (i_act h)); cbn in *; congruence).
      rewrite Echk.
      unfold next_link. rewrite Hn. cbn [t_kids].
      destruct (did_follow (i_act h)) eqn:Ef.
      + destruct kids as [|[s1 k1] kids'].
        * cbn [tw_kids] in Ht. inversion Ht; subst. reflexivity.
        * apply (kids_walk2 _ idx Hn ((s1, k1) :: kids') 0%nat u r0 u' r eq_refl IHk Hwk Ht).
      + inversion Ht; subst.
        assert (Ev : vpath T (VAt idx) = segs_at T idx).
        { unfold vpath. now rewrite (vdone_tip T idx _ Hn) by (cbn; discriminate). }
        rewrite Ev. destruct kids as [|[s1 k1] kids']; reflexivity.
    - destruct kids as [|[s1 k1] kids']; [destruct Hne as [Hne|Hne]; congruence|].
      cbn [descend_from].
      apply (kids_walk2 _ idx Hn ((s1, k1) :: kids') 0%nat u its u' r eq_refl IHk Hwk Ht).
  Qed.
End Walk2.

Section Vis.
  Variable R : store.

  (* the links the replay reaches: nothing below a link the responder lacks *)
  Fixpoint vlist (t : trec) (pth : path) : list (path * cid) :=
    match t with
    | TRec lnk _ kids =>
        let below := (fix go (ks : list (seg * trec)) : list (path * cid) :=
                        match ks with [] => [] | (s, k) :: r => vlist k (pth ++ [s]) ++ go r end) kids in
        match lnk with
        | Some l => (pth, l) :: (if pres R l then below else [])
        | None => below
        end
    end.
  Fixpoint vlist_kids (ks : list (seg * trec)) (pth : path) : list (path * cid) :=
    match ks with [] => [] | (s, k) :: r => vlist k (pth ++ [s]) ++ vlist_kids r pth end.
  Lemma vlist_eq lnk succ kids pth :
    vlist (TRec lnk succ kids) pth =
    match lnk with
    | Some l => (pth, l) :: (if pres R l then vlist_kids kids pth else [])
    | None => vlist_kids kids pth
    end.
  Proof.
    assert (E : (fix go (ks : list (seg * trec)) : list (path * cid) :=
                   match ks with [] => [] | (s, k) :: r => vlist k (pth ++ [s]) ++ go r end) kids = vlist_kids kids pth).
    { induction kids as [|[s k] r IH]; [reflexivity|]. cbn [vlist_kids]. now rewrite IH. }
    cbn [vlist]. rewrite E. reflexivity.
  Qed.

  (* a reachable link the responder holds was loaded successfully (else it would have been fetched) *)
  Inductive reach_ok : trec -> Prop :=
  | reach_node l s kids :
      (forall c, l = Some c -> pres R c = true -> s = true /\ Forall (fun sk => reach_ok (snd sk)) kids) ->
      (l = None -> Forall (fun sk => reach_ok (snd sk)) kids) ->
      reach_ok (TRec l s kids).

  Lemma tw_vis : forall t pth u rest, reach_ok t ->
    tw t pth u (map (ent R) (vlist t pth) ++ rest) = Some (ulast R u (vlist t pth), rest).
  Proof.
    induction t as [lnk succ kids IHk] using trec_ind2. intros pth u rest Hr.
    inversion Hr as [l1 s1 k1 Hlnk Hnone]; subst.
    assert (K : forall ks u rest, Forall (fun sk : seg * trec => forall pth u rest, reach_ok (snd sk) ->
                   tw (snd sk) pth u (map (ent R) (vlist (snd sk) pth) ++ rest) = Some (ulast R u (vlist (snd sk) pth), rest)) ks ->
                 Forall (fun sk => reach_ok (snd sk)) ks ->
                 tw_kids ks pth u (map (ent R) (vlist_kids ks pth) ++ rest) = Some (ulast R u (vlist_kids ks pth), rest)).
    { induction ks as [|[s k] ks IH]; intros u0 rest0 HF HM; [reflexivity|].
      apply Forall_cons_iff in HF as [HF1 HF2]. apply Forall_cons_iff in HM as [HM1 HM2]. cbn [snd] in *.
      cbn [vlist_kids tw_kids]. rewrite map_app, <- app_assoc, (HF1 (pth ++ [s]) u0 _ HM1), ulast_app. now apply IH. }
    rewrite vlist_eq, tw_eq. destruct lnk as [l|].
    - cbn [app map ent snd fst i_link i_act]. rewrite N.eqb_refl.
      destruct (pres R l) eqn:Ep; cbn [did_follow].
      + destruct (Hlnk l eq_refl Ep) as [-> Hk]. cbn [orb andb].
        rewrite (K kids u rest IHk Hk). unfold ulast at 2. cbn [fold_left snd fst]. rewrite Ep. reflexivity.
      + rewrite orb_true_r. cbn [andb map app]. unfold ulast. cbn [fold_left snd fst]. now rewrite Ep.
    - apply (K kids u rest IHk (Hnone eq_refl)).
  Qed.

  (* the replay over any record: exactly the reachable links' entries are consumed *)
  Theorem replay_vis T : twf T -> reach_ok T ->
    forall u rest,
      vreplay T (new_verifier T) u (map (ent R) (vlist T []) ++ rest) = Some (VEmpty, ulast R u (vlist T []), rest).
  Proof.
    intros Hw Hr u rest. pose proof (tw_vis T [] u rest Hr) as Ht. unfold new_verifier.
    pose proof (sub_walk2 T T [] [] u _ _ _ eq_refl eq_refl Hw Ht) as Hs.
    cbn [app rev pop_rev] in Hs. rewrite Hs. apply vreplay_vempty.
  Qed.
End Vis.
