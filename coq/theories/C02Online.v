(* C02Online.v — C02 for requests that go online at the root (the requestor lacks the root, the responder has
   it) with the whole response in one message: the outcome is the reference's, for every well-formed plan,
   stores and schedule.  (Part of the way to C02_holds; see design.d/C02.md.) *)
From Coq Require Import List NArith Bool Lia.
From GS Require Import Base Ltree RecLoader ReqExec RecLoaderProofs.
From GS Require Traffic TrafficProofs.
Import ListNotations.
Open Scope N_scope.
Local Arguments N.add : simpl never.

(* ------------------------------------------------------------------------------------------------
   1. the honest responder's stream by direct recursion over the plan (skip = 0)
   ------------------------------------------------------------------------------------------------ *)
Section Emit.
  Variable R : store.
  Fixpoint emit_tree (t : ltree) (seen : list cid) : list item * list cid :=
    match t with
    | LNode p c body =>
        match aget c R with
        | Some b =>
            let it := {| i_link := c; i_act := Present; i_blk := if negb (existsb (N.eqb c) seen) then Some b else None |} in
            let '(its, seen') := emit_items body (c :: seen) in (it :: its, seen')
        | None => ([{| i_link := c; i_act := Missing; i_blk := None |}], seen)
        end
    end
  with emit_items (l : items) (seen : list cid) : list item * list cid :=
    match l with
    | INil => ([], seen)
    | IVisit _ rest => emit_items rest seen
    | IChild t rest =>
        let '(a, s1) := emit_tree t seen in
        let '(b, s2) := emit_items rest s1 in (a ++ b, s2)
    end.

  Lemma emit_tree_eq p c body seen :
    emit_tree (LNode p c body) seen =
    match aget c R with
    | Some b =>
        let it := {| i_link := c; i_act := Present; i_blk := if negb (existsb (N.eqb c) seen) then Some b else None |} in
        let '(its, seen') := emit_items body (c :: seen) in (it :: its, seen')
    | None => ([{| i_link := c; i_act := Missing; i_blk := None |}], seen)
    end.
  Proof. reflexivity. Qed.
  Lemma emit_items_nil seen : emit_items INil seen = ([], seen).
  Proof. reflexivity. Qed.
  Lemma emit_items_visit v rest seen : emit_items (IVisit v rest) seen = emit_items rest seen.
  Proof. reflexivity. Qed.
  Lemma emit_items_child t rest seen :
    emit_items (IChild t rest) seen =
    let '(a, s1) := emit_tree t seen in let '(b, s2) := emit_items rest s1 in (a ++ b, s2).
  Proof. reflexivity. Qed.

  Lemma resp_run :
    (forall t s, let '(s', _, ok) := run_tree (resp_ask R 0) t s in
                 let '(its, seen') := emit_tree t (rs_seen s) in
                 ok = true /\ rs_out s' = rev its ++ rs_out s /\ rs_seen s' = seen') /\
    (forall l s, let '(s', _, ok) := run_items (resp_ask R 0) l s in
                 let '(its, seen') := emit_items l (rs_seen s) in
                 ok = true /\ rs_out s' = rev its ++ rs_out s /\ rs_seen s' = seen').
  Proof.
    apply (ltree_items_ind
      (fun t => forall s, let '(s', _, ok) := run_tree (resp_ask R 0) t s in
                 let '(its, seen') := emit_tree t (rs_seen s) in
                 ok = true /\ rs_out s' = rev its ++ rs_out s /\ rs_seen s' = seen')
      (fun l => forall s, let '(s', _, ok) := run_items (resp_ask R 0) l s in
                 let '(its, seen') := emit_items l (rs_seen s) in
                 ok = true /\ rs_out s' = rev its ++ rs_out s /\ rs_seen s' = seen')).
    - intros p c body IH s. rewrite run_tree_node. unfold resp_ask at 1. rewrite emit_tree_eq.
      destruct (aget c R) as [b|] eqn:Eg.
      + assert (E0 : (0 <? rs_count s + 1) = true) by (apply N.ltb_lt; lia). rewrite E0. cbn [andb].
        match goal with |- context [run_items _ body ?s1] => specialize (IH s1); destruct (run_items (resp_ask R 0) body s1) as [[s2 evs] ok] end.
        cbn [rs_seen] in IH. destruct (emit_items body (c :: rs_seen s)) as [its seen'].
        destruct IH as (A & B & C). repeat split; auto. rewrite B. cbn [rs_out rev]. rewrite <- app_assoc. reflexivity.
      + cbn. repeat split; auto.
    - intro s. cbn. auto.
    - intros v rest IH s. rewrite run_items_visit. specialize (IH s). rewrite emit_items_visit.
      destruct (run_items (resp_ask R 0) rest s) as [[s2 evs] ok]. exact IH.
    - intros t IHt rest IHr s. rewrite run_items_child. specialize (IHt s). rewrite emit_items_child.
      destruct (run_tree (resp_ask R 0) t s) as [[s1 e1] ok1]. destruct (emit_tree t (rs_seen s)) as [a sa].
      destruct IHt as (A & B & C). subst ok1. specialize (IHr s1). rewrite C in IHr.
      destruct (run_items (resp_ask R 0) rest s1) as [[s2 e2] ok2]. destruct (emit_items rest sa) as [b sb].
      destruct IHr as (A2 & B2 & C2). repeat split; auto. rewrite B2, B, rev_app_distr, app_assoc. reflexivity.
  Qed.

  Lemma resp_items_emit t : resp_items t R 0 = fst (emit_tree t []).
  Proof.
    unfold resp_items. destruct resp_run as [H _]. specialize (H t {| rs_count := 0; rs_seen := []; rs_out := [] |}).
    destruct (run_tree (resp_ask R 0) t _) as [[s' evs] ok]. cbn [rs_seen] in H.
    destruct (emit_tree t []) as [its seen']. destruct H as (_ & B & _). cbn [fst]. rewrite B. cbn [rs_out].
    rewrite app_nil_r. apply rev_involutive.
  Qed.
End Emit.

(* ------------------------------------------------------------------------------------------------
   2. shape of the honest stream; IngestResponse reproduces it from one message
   ------------------------------------------------------------------------------------------------ *)
Section Shape.
  Variable R : store.
  Fixpoint eok (seen : list cid) (its : list item) : Prop :=
    match its with
    | [] => True
    | it :: r =>
        match i_act it with
        | Present => exists b, aget (i_link it) R = Some b /\
                       i_blk it = (if negb (existsb (N.eqb (i_link it)) seen) then Some b else None) /\
                       eok (i_link it :: seen) r
        | Missing => aget (i_link it) R = None /\ i_blk it = None /\ eok seen r
        | _ => False
        end
    end.
  Fixpoint seen_after (seen : list cid) (its : list item) : list cid :=
    match its with
    | [] => seen
    | it :: r => match i_act it with Present => seen_after (i_link it :: seen) r | _ => seen_after seen r end
    end.
  Lemma seen_after_app seen a b : seen_after seen (a ++ b) = seen_after (seen_after seen a) b.
  Proof. revert seen. induction a as [|it a IH]; intro seen; simpl; [reflexivity|]. destruct (i_act it); apply IH. Qed.
  Lemma eok_app seen a b : eok seen a -> eok (seen_after seen a) b -> eok seen (a ++ b).
  Proof.
    revert seen. induction a as [|it a IH]; intros seen Ha Hb; simpl in *; [exact Hb|].
    destruct (i_act it); try contradiction.
    - destruct Ha as (b0 & E1 & E2 & Ha). exists b0. repeat split; auto.
    - destruct Ha as (E1 & E2 & Ha). repeat split; auto.
  Qed.
  Lemma eok_app_inv seen a b : eok seen (a ++ b) -> eok seen a /\ eok (seen_after seen a) b.
  Proof.
    revert seen. induction a as [|it a IH]; intros seen H; simpl in *; [split; [exact I | exact H]|].
    destruct (i_act it); try contradiction.
    - destruct H as (b0 & E1 & E2 & H). destruct (IH _ H) as [H1 H2]. split; [|exact H2]. exists b0. auto.
    - destruct H as (E1 & E2 & H). destruct (IH _ H) as [H1 H2]. split; [|exact H2]. auto.
  Qed.

  Lemma emit_ok :
    (forall t seen, eok seen (fst (emit_tree R t seen)) /\ snd (emit_tree R t seen) = seen_after seen (fst (emit_tree R t seen))) /\
    (forall l seen, eok seen (fst (emit_items R l seen)) /\ snd (emit_items R l seen) = seen_after seen (fst (emit_items R l seen))).
  Proof.
    apply (ltree_items_ind
      (fun t => forall seen, eok seen (fst (emit_tree R t seen)) /\ snd (emit_tree R t seen) = seen_after seen (fst (emit_tree R t seen)))
      (fun l => forall seen, eok seen (fst (emit_items R l seen)) /\ snd (emit_items R l seen) = seen_after seen (fst (emit_items R l seen)))).
    - intros p c body IH seen. rewrite emit_tree_eq. destruct (aget c R) as [b|] eqn:Eg.
      + specialize (IH (c :: seen)). destruct (emit_items R body (c :: seen)) as [its s']. cbn [fst snd] in *.
        destruct IH as [A B]. split; [|exact B]. cbn [eok i_act i_link i_blk]. exists b. auto.
      + cbn. auto.
    - intro seen. cbn. auto.
    - intros v rest IH seen. rewrite emit_items_visit. apply IH.
    - intros t IHt rest IHr seen. rewrite emit_items_child. specialize (IHt seen).
      destruct (emit_tree R t seen) as [a s1]. cbn [fst snd] in IHt. destruct IHt as [A B]. subst s1.
      specialize (IHr (seen_after seen a)). destruct (emit_items R rest (seen_after seen a)) as [b s2].
      cbn [fst snd] in *. destruct IHr as [A2 B2]. split; [now apply eok_app | now rewrite seen_after_app].
  Qed.

  Definition blocks_of (its : list item) : list (cid * block) :=
    flat_map (fun it => match i_blk it with Some b => [(i_link it, b)] | None => [] end) its.
  Definition md_list (its : list item) : list (cid * action) := map (fun it => (i_link it, i_act it)) its.

  Lemma aget_of_in (m : list (cid * block)) c b :
    (forall k v, In (k, v) m -> aget k R = Some v) -> In (c, b) m -> aget c m = Some b.
  Proof.
    induction m as [|[q w] m IH]; intros H Hin; simpl in *; [contradiction|].
    destruct (N.eqb_spec c q) as [->|Hn].
    - assert (E1 : aget q R = Some w) by (apply H; now left).
      assert (E2 : aget q R = Some b) by (apply H; exact Hin). congruence.
    - destruct Hin as [E|Hin]; [inversion E; congruence|]. apply IH; auto.
  Qed.

  Lemma ingest_gen blocks seen suf :
    (forall k v, In (k, v) blocks -> aget k R = Some v) ->
    incl (blocks_of suf) blocks -> eok seen suf ->
    ingest_items (md_list suf) blocks seen = suf.
  Proof.
    intros HB. revert seen. induction suf as [|[l a bo] suf IH]; intros seen Hi Hok; [reflexivity|].
    cbn [md_list map i_link i_act ingest_items]. cbn [eok i_act i_link i_blk] in Hok.
    assert (Hi' : incl (blocks_of suf) blocks).
    { intros x Hx. apply Hi. unfold blocks_of. cbn [flat_map]. apply in_app_iff. right. exact Hx. }
    destruct a; try contradiction.
    - destruct Hok as (b & E1 & E2 & Hok). cbn [i_blk] in E2.
      destruct (existsb (N.eqb l) seen) eqn:Es; cbn [negb] in E2; subst bo.
      + f_equal. apply (IH seen Hi'). 
        (* the seen set with l added again behaves as seen *)
        clear -Hok Es. revert Hok. generalize suf. clear suf.
        assert (Hs : forall its s1 s2, (forall c, existsb (N.eqb c) s1 = existsb (N.eqb c) s2) -> eok s1 its -> eok s2 its).
        { induction its as [|it its IHi]; intros s1 s2 Hs H; simpl in *; [exact I|].
          destruct (i_act it); try contradiction.
          - destruct H as (b0 & A & B & C). exists b0. rewrite <- Hs. repeat split; auto.
            apply (IHi (i_link it :: s1)); [|exact C]. intro c. simpl. now rewrite Hs.
          - destruct H as (A & B & C). repeat split; auto. now apply (IHi s1). }
        intros suf H. apply (Hs suf (l :: seen) seen); [|exact H].
        intro c. simpl. destruct (N.eqb_spec c l) as [->|]; [now rewrite Es | reflexivity].
      + assert (Ein : In (l, b) blocks).
        { apply Hi. unfold blocks_of. cbn [flat_map i_blk i_link]. now left. }
        rewrite (aget_of_in blocks l b HB Ein). f_equal. apply (IH (l :: seen) Hi' Hok).
    - destruct Hok as (E1 & E2 & Hok). cbn [i_blk] in E2. subst bo. f_equal. apply (IH seen Hi' Hok).
  Qed.

  Lemma blocks_of_R its seen : eok seen its -> forall k v, In (k, v) (blocks_of its) -> aget k R = Some v.
  Proof.
    revert seen. induction its as [|it its IH]; intros seen H k v Hin; simpl in *; [contradiction|].
    apply in_app_iff in Hin. destruct (i_act it) eqn:Ea; try contradiction.
    - destruct H as (b & A & B & C). destruct Hin as [Hin|Hin]; [|eapply IH; eauto].
      rewrite B in Hin. destruct (negb _); simpl in Hin; [|contradiction].
      destruct Hin as [E|[]]. inversion E; subst. exact A.
    - destruct H as (A & B & C). destruct Hin as [Hin|Hin]; [|eapply IH; eauto].
      rewrite B in Hin. contradiction.
  Qed.

  (* Lemma 1: one IngestResponse call on a whole honest response yields exactly its items *)
  Lemma ingest_honest its : eok [] its -> ingest_items (md_list its) (blocks_of its) [] = its.
  Proof.
    intro H. apply ingest_gen; [apply (blocks_of_R its [] H) | apply incl_refl | exact H].
  Qed.
End Shape.

(* ------------------------------------------------------------------------------------------------
   3. one load of the executor once the whole response is queued (online phase, nothing left to deliver)
   ------------------------------------------------------------------------------------------------ *)
Section Step.
  Variable below : path -> path -> bool.

  (* the loader: response closed, queue intact, no verification pending *)
  Definition lonl (r : rl) : Prop :=
    r_open r = false /\ q_detached (r_q r) = false /\
    (q_items (r_q r) = [] \/ r_verifier r = None \/
     (r_verifier r = Some (VAt []) /\ t_lnk (r_record r) = None /\ r_last r = None)).

  Lemma bro_start_lonl r : lonl r -> lonl (bro_start r) /\ r_q (bro_start r) = r_q r /\ r_unfollowed (bro_start r) = r_unfollowed r.
  Proof.
    intros (Ho & Hd & Hv). unfold bro_start. destruct (r_last r) as [a|] eqn:El.
    - split; [|split; reflexivity]. unfold lonl. simpl. split; [exact Ho|]. split; [exact Hd|].
      destruct Hv as [Hv|[Hv|(Hv & _ & Hl)]]; [left; exact Hv | right; left; exact Hv | congruence].
    - split; [|split; reflexivity]. unfold lonl. split; [exact Ho|]. split; [exact Hd|].
      destruct Hv as [Hv|[Hv|(Hv & Hl & _)]]; [left; exact Hv | right; left; exact Hv | right; right; auto].
  Qed.

  (* the outcome of the wait: nothing queued => offline; else data *)
  Lemma wait_onl_empty r : lonl r -> q_items (r_q r) = [] -> wait_remote r = (set_q r (r_q r), WOffline).
  Proof. intros (Ho & _ & _) Hq. unfold wait_remote. rewrite Hq. simpl. now rewrite Ho. Qed.

  Lemma wait_onl_data r h t :
    lonl r -> q_items (r_q r) = h :: t ->
    exists r1, wait_remote r = (r1, WHasData) /\ r_verifier r1 = None /\ r_q r1 = r_q r /\
               r_open r1 = false /\ r_unfollowed r1 = r_unfollowed r /\ r_record r1 = r_record r /\ r_last r1 = r_last r.
  Proof.
    intros (Ho & Hd & Hv) Hq. unfold wait_remote. rewrite Hq. simpl.
    destruct Hv as [Hv|[Hv|(Hv & Hl & _)]]; [congruence | |].
    - rewrite Hv. eexists. split; [reflexivity|]. simpl. repeat split; auto.
    - rewrite Hv. unfold vdone. rewrite Hl. eexists. split; [reflexivity|]. simpl. repeat split; auto.
  Qed.

  (* S1: nothing queued: the load is local *)
  Lemma bro_try_empty r st p c :
    lonl r -> q_items (r_q r) = [] ->
    exists r', bro_try below r st p c = (r', st, Some (load_local st p c)) /\
               lonl r' /\ q_items (r_q r') = [] /\ r_unfollowed r' = r_unfollowed r.
  Proof.
    intros Hl Hq. unfold bro_try, bro_inner. rewrite (wait_onl_empty r Hl Hq).
    eexists. split; [reflexivity|]. destruct Hl as (Ho & Hd & _). unfold lonl. simpl. repeat split; auto.
  Qed.

  (* S2: still below the link the responder did not follow: local, nothing consumed *)
  Lemma bro_try_below r st p c h t :
    lonl r -> q_items (r_q r) = h :: t -> r_unfollowed r <> [] -> below (r_unfollowed r) p = true ->
    exists r', bro_try below r st p c = (r', st, Some (load_local st p c)) /\
               lonl r' /\ q_items (r_q r') = h :: t /\ r_unfollowed r' = r_unfollowed r.
  Proof.
    intros Hl Hq Hu Hb. destruct (wait_onl_data r h t Hl Hq) as (r1 & Ew & Hv1 & Hq1 & Ho1 & Hu1 & _).
    unfold bro_try, bro_inner. rewrite Ew. unfold still_unfollowed. rewrite Hu1.
    destruct (r_unfollowed r) as [|a l] eqn:Eu; [congruence|]. rewrite Hb.
    eexists. split; [reflexivity|]. destruct Hl as (_ & Hd & _). unfold lonl. simpl. rewrite Hq1.
    repeat split; auto.
  Qed.

  (* S3/S4: the head of the queue is consumed *)
  Lemma bro_try_head r st p c h t :
    lonl r -> q_items (r_q r) = h :: t -> (r_unfollowed r = [] \/ below (r_unfollowed r) p = false) ->
    i_link h = c ->
    exists r' st' res, bro_try below r st p c = (r', st', Some res) /\
      lonl r' /\ q_items (r_q r') = t /\
      r_unfollowed r' = (if did_follow (i_act h) then [] else p) /\
      match i_blk h with
      | Some b => st' = aput c b st /\ res = RData b false
      | None => st' = st /\ res = load_local st p c
      end.
  Proof.
    intros Hl Hq Hu Hc. destruct (wait_onl_data r h t Hl Hq) as (r1 & Ew & Hv1 & Hq1 & Ho1 & Hu1 & _).
    destruct Hl as (_ & Hd & _).
    unfold bro_try, bro_inner. rewrite Ew.
    assert (Es : exists r2, still_unfollowed below r1 p = (r2, false) /\ r_unfollowed r2 = [] /\ r_q r2 = r_q r1 /\
                            r_open r2 = false /\ r_verifier r2 = None).
    { unfold still_unfollowed. rewrite Hu1. destruct (r_unfollowed r) as [|a l] eqn:Eu.
      - exists r1. repeat split; auto; congruence.
      - destruct Hu as [Hu|Hu]; [discriminate|]. rewrite Hu. eexists. split; [reflexivity|]. simpl. repeat split; auto; congruence. }
    destruct Es as (r2 & Es & Hu2 & Hq2 & Ho2 & Hv2). rewrite Es.
    unfold load_remote, rq_consume. rewrite Hq2, Hq1, Hq. rewrite Hc, N.eqb_refl. cbn [negb].
    unfold record_remote.
    destruct (i_blk h) as [b|] eqn:Eb; destruct (did_follow (i_act h)) eqn:Ed;
      (eexists; eexists; eexists; split; [reflexivity|]; unfold lonl; simpl;
       rewrite ?Ho2, ?Hv2, ?Hu2; repeat split; auto; destruct t; auto).
  Qed.
End Step.

Section ExecStep.
  Variable below : path -> path -> bool.
  Variable responder : N -> list msg.
  Variable dnsfb : N.

  Definition onl (x : xstate) : Prop :=
    x_sent x = true /\ x_cancelled x = false /\ x_feed x = [] /\ lonl (x_rl x).

  Definition ans_of (res : lresult) : ans :=
    match res with
    | RData _ _ => AOk
    | RErr (EMissing _ _) _ => ASkip
    | RErr e _ => AErr (ErrOther (err_code e))
    end.
  Definition errs_of (res : lresult) : list lerror := match res with RErr e _ => [e] | _ => [] end.

  Lemma deliver_n_nofeed n x : x_feed x = [] -> deliver_n n x = x.
  Proof. intro H. destruct n; simpl; [reflexivity | now rewrite H]. Qed.

  Lemma exec_onl_gen x p c r' st' res :
    onl x -> bro_try below (bro_start (x_rl x)) (x_store x) p c = (r', st', Some res) -> lonl r' ->
    exists x', exec_ask below responder dnsfb x p c = (x', ans_of res) /\ onl x' /\
               x_rl x' = r' /\ x_store x' = st' /\ x_errs x' = x_errs x ++ errs_of res.
  Proof.
    intros (Hs & Hc & Hf & Hl) Et (Hl1 & Hl2 & Hl3). unfold exec_ask, load_call.
    destruct (pop_sched x) as [n x0] eqn:Ep.
    assert (H0 : x_sent x0 = true /\ x_cancelled x0 = false /\ x_feed x0 = [] /\ x_rl x0 = x_rl x /\
                 x_store x0 = x_store x /\ x_errs x0 = x_errs x).
    { unfold pop_sched in Ep. destruct (x_sched x); inversion Ep; subst; simpl; auto 10. }
    destruct H0 as (Hs0 & Hc0 & Hf0 & Hr0 & Hst0 & He0).
    rewrite (deliver_n_nofeed n x0 Hf0). cbn [x_with_rl x_feed]. rewrite Hf0.
    cbn [load_wait x_rl x_store x_with_rl]. rewrite Hr0, Hst0, Et.
    destruct res as [b l|e l].
    - (* data *)
      destruct l; simpl; rewrite ?Hs0; simpl;
        (eexists; split; [reflexivity|]); unfold onl, lonl; simpl; rewrite ?Hs0, ?Hc0, ?He0; repeat split; auto;
        try (symmetry; apply app_nil_r).
    - destruct e; simpl; rewrite ?Hs0; simpl; rewrite ?Hc0; simpl;
        (eexists; split; [reflexivity|]); unfold onl, lonl; simpl; rewrite ?Hs0, ?Hc0, ?He0; repeat split; auto.
  Qed.
End ExecStep.

(* ------------------------------------------------------------------------------------------------
   4. the two kinds of executor steps in the online phase, in terms of queue / path tracker / store / errors
   ------------------------------------------------------------------------------------------------ *)
Section Steps.
  Variable below : path -> path -> bool.
  Variable responder : N -> list msg.
  Variable dnsfb : N.

  Definition stq (x : xstate) : list item := q_items (r_q (x_rl x)).
  Definition unf (x : xstate) : path := r_unfollowed (x_rl x).
  Definition local_ans (st : store) (c : cid) : ans := match aget c st with Some _ => AOk | None => ASkip end.
  Definition local_errs (st : store) (p : path) (c : cid) : list lerror :=
    match aget c st with Some _ => [] | None => [EMissing p c] end.

  Lemma load_local_ans st p c : ans_of (load_local st p c) = local_ans st c /\ errs_of (load_local st p c) = local_errs st p c.
  Proof. unfold load_local, local_ans, local_errs. destruct (aget c st); split; reflexivity. Qed.

  (* a load answered from the local store alone: nothing queued, or below the link the responder did not follow *)
  Lemma exec_local_step x p c :
    onl x -> (stq x = [] \/ (unf x <> [] /\ below (unf x) p = true)) ->
    exists x', exec_ask below responder dnsfb x p c = (x', local_ans (x_store x) c) /\ onl x' /\
               stq x' = stq x /\ unf x' = unf x /\ x_store x' = x_store x /\
               x_errs x' = x_errs x ++ local_errs (x_store x) p c.
  Proof.
    intros Hx Hc. pose proof Hx as (_ & _ & _ & Hl).
    destruct (bro_start_lonl (x_rl x) Hl) as (Hl1 & Hq1 & Hu1).
    unfold stq, unf in *.
    destruct (q_items (r_q (x_rl x))) as [|h t] eqn:Eq.
    - destruct (bro_try_empty below (bro_start (x_rl x)) (x_store x) p c Hl1) as (r' & Et & Hl' & Hq' & Hu').
      { now rewrite Hq1. }
      destruct (exec_onl_gen below responder dnsfb x p c _ _ _ Hx Et Hl') as (x' & E & Hx' & Er & Es & Ee).
      destruct (load_local_ans (x_store x) p c) as [A1 A2]. rewrite A1 in E. rewrite A2 in Ee.
      exists x'. rewrite Er. split; [exact E|]. split; [exact Hx'|]. repeat split; auto; congruence.
    - destruct Hc as [Hc|[Hc1 Hc2]]; [discriminate|].
      destruct (bro_try_below below (bro_start (x_rl x)) (x_store x) p c h t Hl1) as (r' & Et & Hl' & Hq' & Hu').
      { now rewrite Hq1. } { now rewrite Hu1. } { now rewrite Hu1. }
      destruct (exec_onl_gen below responder dnsfb x p c _ _ _ Hx Et Hl') as (x' & E & Hx' & Er & Es & Ee).
      destruct (load_local_ans (x_store x) p c) as [A1 A2]. rewrite A1 in E. rewrite A2 in Ee.
      exists x'. rewrite Er. split; [exact E|]. split; [exact Hx'|]. repeat split; auto; congruence.
  Qed.

  (* a load that consumes the head of the queue *)
  Lemma exec_head_step x p c h t :
    onl x -> stq x = h :: t -> (unf x = [] \/ below (unf x) p = false) -> i_link h = c ->
    exists x' a, exec_ask below responder dnsfb x p c = (x', a) /\ onl x' /\ stq x' = t /\
      unf x' = (if did_follow (i_act h) then [] else p) /\
      match i_blk h with
      | Some b => a = AOk /\ x_store x' = aput c b (x_store x) /\ x_errs x' = x_errs x
      | None => a = local_ans (x_store x) c /\ x_store x' = x_store x /\ x_errs x' = x_errs x ++ local_errs (x_store x) p c
      end.
  Proof.
    intros Hx Hq Hu Hc. pose proof Hx as (_ & _ & _ & Hl).
    destruct (bro_start_lonl (x_rl x) Hl) as (Hl1 & Hq1 & Hu1). unfold stq, unf in *.
    destruct (bro_try_head below (bro_start (x_rl x)) (x_store x) p c h t Hl1) as (r' & st' & res & Et & Hl' & Hq' & Hu' & Hb).
    { now rewrite Hq1. } { now rewrite Hu1. } { exact Hc. }
    destruct (exec_onl_gen below responder dnsfb x p c _ _ _ Hx Et Hl') as (x' & E & Hx' & Er & Es & Ee).
    exists x', (ans_of res). rewrite Er. split; [exact E|]. split; [exact Hx'|]. split; [exact Hq'|]. split; [exact Hu'|].
    destruct (i_blk h) as [b|].
    - destruct Hb as [-> ->]. simpl in *. rewrite app_nil_r in Ee. auto.
    - destruct Hb as [-> ->]. destruct (load_local_ans (x_store x) p c) as [A1 A2]. rewrite A1. rewrite A2 in Ee. auto.
  Qed.
End Steps.

(* ------------------------------------------------------------------------------------------------
   5. the simulation with the reference over the plan
   ------------------------------------------------------------------------------------------------ *)
Lemma ref_tree_eq R p c body here st :
  ref_tree R (LNode p c body) here st =
  match aget c st, (if here then aget c R else None) with
  | _, Some b => let '(st', o) := ref_items R body true (aput c b st) in (st', o)
  | Some _, None => ref_items R body false st
  | None, None => (st, [OMissing p c])
  end.
Proof. reflexivity. Qed.
Lemma ref_items_nil R here st : ref_items R INil here st = (st, []).
Proof. reflexivity. Qed.
Lemma ref_items_visit R v rest here st :
  ref_items R (IVisit v rest) here st = let '(st', o) := ref_items R rest here st in (st', OVisit v :: o).
Proof. reflexivity. Qed.
Lemma ref_items_child R t rest here st :
  ref_items R (IChild t rest) here st =
  let '(st1, o1) := ref_tree R t here st in let '(st2, o2) := ref_items R rest here st1 in (st2, o1 ++ o2).
Proof. reflexivity. Qed.

Definition merrs (o : list oev) : list lerror := map (fun pc => EMissing (fst pc) (snd pc)) (omissing o).
Lemma ovisits_app a b : ovisits (a ++ b) = ovisits a ++ ovisits b.
Proof. induction a as [|[v|p c] a IH]; simpl; congruence. Qed.
Lemma omissing_app a b : omissing (a ++ b) = omissing a ++ omissing b.
Proof. induction a as [|[v|p c] a IH]; simpl; congruence. Qed.
Lemma merrs_app a b : merrs (a ++ b) = merrs a ++ merrs b.
Proof. unfold merrs. now rewrite omissing_app, map_app. Qed.
Lemma visits_of_app a b : visits_of (a ++ b) = visits_of a ++ visits_of b.
Proof. induction a as [|[p c x|v] a IH]; simpl; congruence. Qed.

Lemma aput_same {V} c (b : V) st : aget c st = Some b -> aput c b st = st.
Proof.
  induction st as [|[q w] st IH]; simpl; [discriminate|].
  destruct (N.eqb_spec c q) as [->|Hn]; intro H; [inversion H; reflexivity | now rewrite IH].
Qed.

(* children of an item list *)
Fixpoint children (l : items) : list ltree :=
  match l with INil => [] | IVisit _ r => children r | IChild t r => t :: children r end.
Lemma child_paths_children l : child_paths l = map tpath (children l).
Proof. induction l as [|v r IH|t r IH]; simpl; congruence. Qed.
Lemma ipaths_children l q : In q (ipaths l) -> exists t, In t (children l) /\ In q (tpaths t).
Proof.
  induction l as [|v r IH|t r IH]; simpl; intro H; [contradiction | auto |].
  apply in_app_iff in H as [H|H]; [exists t; auto|]. destruct (IH H) as (t2 & A & B). exists t2. auto.
Qed.
Lemma wf_items_children l t : wf_items l = true -> In t (children l) -> wf_tree t = true.
Proof.
  induction l as [|v r IH|t0 r IH]; simpl; intros H Hin; [contradiction | auto |].
  apply andb_true_iff in H as [H1 H2]. destruct Hin as [->|Hin]; auto.
Qed.
Lemma incomparable_all_in q qs q2 :
  incomparable_all q qs = true -> In q2 qs -> prefix q q2 = false /\ prefix q2 q = false.
Proof.
  induction qs as [|a qs IH]; simpl; intros H Hin; [contradiction|].
  apply andb_true_iff in H as [H H3]. apply andb_true_iff in H as [H1 H2].
  destruct Hin as [->|Hin]; [|auto]. split; [now apply negb_true_iff in H1 | now apply negb_true_iff in H2].
Qed.
Lemma proper_prefix_nil_r a : proper_prefix a [] = false.
Proof. destruct a; reflexivity. Qed.

Ltac conj := repeat match goal with |- _ /\ _ => split end.

Section Sim.
  Variable R : store.
  Variable responder : N -> list msg.
  Variable dnsfb : N.
  Notation E := (exec_ask proper_prefix responder dnsfb).

  (* the stream interface of the simulation: an invariant of the executor state (relative to the links the
     responder has sent with their blocks so far), the not yet consumed part of the response, and the two
     kinds of load steps *)
  Variable Inv : list cid -> xstate -> Prop.
  Variable mq : xstate -> list item.
  Definition seen_step (h : item) (seen : list cid) : list cid :=
    match i_act h with Present => i_link h :: seen | _ => seen end.
  Hypothesis H_local : forall seen x p c,
    Inv seen x -> (mq x = [] \/ (unf x <> [] /\ proper_prefix (unf x) p = true)) ->
    exists x', E x p c = (x', local_ans (x_store x) c) /\ Inv seen x' /\
               mq x' = mq x /\ unf x' = unf x /\ x_store x' = x_store x /\
               x_errs x' = x_errs x ++ local_errs (x_store x) p c.
  Hypothesis H_head : forall seen x p c h t,
    Inv seen x -> mq x = h :: t -> (unf x = [] \/ proper_prefix (unf x) p = false) -> i_link h = c ->
    exists x' a, E x p c = (x', a) /\ Inv (seen_step h seen) x' /\ mq x' = t /\
      unf x' = (if did_follow (i_act h) then [] else p) /\
      match i_blk h with
      | Some b => a = AOk /\ x_store x' = aput c b (x_store x) /\ x_errs x' = x_errs x
      | None => a = local_ans (x_store x) c /\ x_store x' = x_store x /\ x_errs x' = x_errs x ++ local_errs (x_store x) p c
      end.

  Definition agree (st : store) : Prop := forall c b b', aget c st = Some b -> aget c R = Some b' -> b = b'.
  Definition covers (st : store) (seen : list cid) : Prop := forall c, In c seen -> aget c st <> None.

  Lemma agree_aput st c b : agree st -> aget c R = Some b -> agree (aput c b st).
  Proof.
    intros Ha Hb c' b1 b2 H1 H2. destruct (N.eqb_spec c c') as [->|Hn].
    - rewrite aget_aput_eq in H1. congruence.
    - rewrite aget_aput_neq in H1 by exact Hn. eauto.
  Qed.
  Lemma covers_aput st seen c b : covers st seen -> covers (aput c b st) (c :: seen).
  Proof.
    intros Hc c' [->|Hin].
    - rewrite aget_aput_eq. discriminate.
    - destruct (N.eqb_spec c c') as [->|Hn]; [rewrite aget_aput_eq; discriminate|].
      rewrite aget_aput_neq by exact Hn. now apply Hc.
  Qed.
  Lemma covers_mono st seen c : covers st seen -> aget c st <> None -> covers st (c :: seen).
  Proof. intros Hc H c' [->|Hin]; auto. Qed.

  (* here = true *)
  Definition SimT (t : ltree) : Prop :=
    forall x seen rest,
      Inv seen x -> agree (x_store x) -> covers (x_store x) seen -> wf_tree t = true ->
      (tpath t <> [] \/ aget (root_cid t) R <> None) ->
      mq x = fst (emit_tree R t seen) ++ rest ->
      (unf x = [] \/ forall q, In q (tpaths t) -> proper_prefix (unf x) q = false) ->
      let '(x', evs, ok) := run_tree E t x in
      let '(st', o) := ref_tree R t true (x_store x) in
      ok = true /\ Inv (snd (emit_tree R t seen)) x' /\ x_store x' = st' /\ agree st' /\ covers st' (snd (emit_tree R t seen)) /\
      mq x' = rest /\ x_errs x' = x_errs x ++ merrs o /\ visits_of evs = ovisits o /\
      (unf x' = [] \/ In (unf x') (tpaths t)).
  (* here = false: below a link the responder did not follow *)
  Definition SimF (t : ltree) : Prop :=
    forall x seen,
      Inv seen x -> wf_tree t = true -> unf x <> [] ->
      (forall q, In q (tpaths t) -> proper_prefix (unf x) q = true) ->
      let '(x', evs, ok) := run_tree E t x in
      let '(st', o) := ref_tree R t false (x_store x) in
      ok = true /\ Inv seen x' /\ x_store x' = st' /\ st' = x_store x /\ mq x' = mq x /\ unf x' = unf x /\
      x_errs x' = x_errs x ++ merrs o /\ visits_of evs = ovisits o.
  Definition SimIT (l : items) : Prop :=
    forall x seen rest,
      Inv seen x -> agree (x_store x) -> covers (x_store x) seen -> wf_items l = true ->
      pairwise_incomparable (child_paths l) = true ->
      (forall q, In q (child_paths l) -> q <> []) ->
      mq x = fst (emit_items R l seen) ++ rest ->
      (unf x = [] \/ forall q, In q (ipaths l) -> proper_prefix (unf x) q = false) ->
      let '(x', evs, ok) := run_items E l x in
      let '(st', o) := ref_items R l true (x_store x) in
      ok = true /\ Inv (snd (emit_items R l seen)) x' /\ x_store x' = st' /\ agree st' /\ covers st' (snd (emit_items R l seen)) /\
      mq x' = rest /\ x_errs x' = x_errs x ++ merrs o /\ visits_of evs = ovisits o /\
      (unf x' = unf x \/ unf x' = [] \/ In (unf x') (ipaths l)).
  Definition SimIF (l : items) : Prop :=
    forall x seen,
      Inv seen x -> wf_items l = true -> unf x <> [] ->
      (forall q, In q (ipaths l) -> proper_prefix (unf x) q = true) ->
      let '(x', evs, ok) := run_items E l x in
      let '(st', o) := ref_items R l false (x_store x) in
      ok = true /\ Inv seen x' /\ x_store x' = st' /\ st' = x_store x /\ mq x' = mq x /\ unf x' = unf x /\
      x_errs x' = x_errs x ++ merrs o /\ visits_of evs = ovisits o.

  Lemma simF_node p c body : SimIF body -> SimF (LNode p c body).
  Proof.
    intros IH x seen Hx Hw Hu Hb. rewrite run_tree_node, ref_tree_eq.
    destruct (H_local seen x p c Hx) as (x1 & E1 & Hx1 & Hq1 & Hu1 & Hs1 & He1).
    { right. split; [exact Hu|]. apply Hb. simpl. now left. }
    rewrite E1. unfold local_ans, local_errs in *.
    destruct (aget c (x_store x)) as [b|] eqn:Eg.
    - simpl in Hw. apply andb_true_iff in Hw as [_ Hwi].
      specialize (IH x1 seen Hx1 Hwi). rewrite Hu1 in IH. specialize (IH Hu).
      assert (Hb' : forall q, In q (ipaths body) -> proper_prefix (unf x) q = true).
      { intros q Hq. apply Hb. simpl. now right. }
      specialize (IH Hb'). rewrite Hs1 in IH.
      destruct (run_items E body x1) as [[x2 evs] ok]. destruct (ref_items R body false (x_store x)) as [st' o].
      destruct IH as (A & B & C & D & F & G & H & I).
      rewrite app_nil_r in He1. conj; auto; try congruence.
    - cbn. rewrite He1. conj; auto.
  Qed.

  Lemma simIF_nil : SimIF INil.
  Proof. intros x seen Hx _ _ _. cbn. rewrite app_nil_r. conj; auto. Qed.

  Lemma simIF_visit v rest : SimIF rest -> SimIF (IVisit v rest).
  Proof.
    intros IH x seen Hx Hw Hu Hb. rewrite run_items_visit, ref_items_visit.
    specialize (IH x seen Hx Hw Hu Hb).
    destruct (run_items E rest x) as [[x2 evs] ok]. destruct (ref_items R rest false (x_store x)) as [st' o].
    destruct IH as (A & B & C & D & F & G & H & I). conj; auto. simpl. now rewrite I.
  Qed.

  Lemma simIF_child t rest : SimF t -> SimIF rest -> SimIF (IChild t rest).
  Proof.
    intros IHt IHr x seen Hx Hw Hu Hb. rewrite run_items_child, ref_items_child.
    simpl in Hw. apply andb_true_iff in Hw as [Hwt Hwr].
    assert (Hbt : forall q, In q (tpaths t) -> proper_prefix (unf x) q = true).
    { intros q Hq. apply Hb. simpl. apply in_app_iff. now left. }
    specialize (IHt x seen Hx Hwt Hu Hbt).
    destruct (run_tree E t x) as [[x1 e1] ok1]. destruct (ref_tree R t false (x_store x)) as [st1 o1].
    destruct IHt as (A & B & C & D & F & G & H & I). subst ok1. rewrite D in C |- *. clear D st1.
    assert (Hbr : forall q, In q (ipaths rest) -> proper_prefix (unf x1) q = true).
    { intros q Hq. rewrite G. apply Hb. simpl. apply in_app_iff. now right. }
    assert (Hu1 : unf x1 <> []) by (rewrite G; exact Hu).
    specialize (IHr x1 seen B Hwr Hu1 Hbr). rewrite C in IHr.
    destruct (run_items E rest x1) as [[x2 e2] ok2]. destruct (ref_items R rest false (x_store x)) as [st2 o2].
    destruct IHr as (A2 & B2 & C2 & D2 & F2 & G2 & H2 & I2).
    conj; auto; try congruence.
    - rewrite H2, H, merrs_app, app_assoc. reflexivity.
    - rewrite visits_of_app, ovisits_app. congruence.
  Qed.

  Lemma simIT_nil : SimIT INil.
  Proof.
    intros x seen rest Hx Ha Hc _ _ _ Hq _. cbn in *. rewrite app_nil_r. conj; auto.
  Qed.

  Lemma simIT_visit v rest : SimIT rest -> SimIT (IVisit v rest).
  Proof.
    intros IH x seen rest0 Hx Ha Hc Hw Hp Hn Hq Hu. rewrite run_items_visit, ref_items_visit.
    rewrite emit_items_visit in *. specialize (IH x seen rest0 Hx Ha Hc Hw Hp Hn Hq Hu).
    destruct (run_items E rest x) as [[x2 evs] ok]. destruct (ref_items R rest true (x_store x)) as [st' o].
    destruct IH as (A & B & C & D & F & G & H & I & J). conj; auto. simpl. now rewrite I.
  Qed.

  Lemma simIT_child t rest : SimT t -> SimIT rest -> SimIT (IChild t rest).
  Proof.
    intros IHt IHr x seen rest0 Hx Ha Hc Hw Hp Hn Hq Hu. rewrite run_items_child, ref_items_child.
    rewrite emit_items_child in *.
    destruct (emit_tree R t seen) as [a s1] eqn:Ea. destruct (emit_items R rest s1) as [b s2] eqn:Eb.
    cbn [fst snd] in *. rewrite <- app_assoc in Hq.
    simpl in Hw. apply andb_true_iff in Hw as [Hwt Hwr].
    simpl in Hp. apply andb_true_iff in Hp as [Hpt Hpr].
    assert (Hnt : tpath t <> []) by (apply Hn; simpl; now left).
    assert (Hut : unf x = [] \/ forall q, In q (tpaths t) -> proper_prefix (unf x) q = false).
    { destruct Hu as [Hu|Hu]; [now left | right]. intros q Hin. apply Hu. simpl. apply in_app_iff. now left. }
    specialize (IHt x seen (b ++ rest0) Hx Ha Hc Hwt (or_introl Hnt)). rewrite Ea in IHt. cbn [fst snd] in IHt.
    specialize (IHt Hq Hut).
    destruct (run_tree E t x) as [[x1 e1] ok1]. destruct (ref_tree R t true (x_store x)) as [st1 o1].
    destruct IHt as (A & B & C & D & F & G & H & I & J). subst ok1.
    assert (Hu1 : unf x1 = [] \/ forall q, In q (ipaths rest) -> proper_prefix (unf x1) q = false).
    { destruct J as [J|J]; [now left | right]. intros q Hin.
      destruct (ipaths_children rest q Hin) as (t2 & Ht2 & Hq2).
      assert (Hin2 : In (tpath t2) (child_paths rest)) by (rewrite child_paths_children; now apply in_map).
      destruct (incomparable_all_in _ _ _ Hpt Hin2) as [P1 P2].
      apply (later_sibling_not_below t t2 (unf x1) q Hwt (wf_items_children rest t2 Hwr Ht2) P1 P2 J Hq2). }
    assert (Hn1 : forall q, In q (child_paths rest) -> q <> []) by (intros q Hin; apply Hn; simpl; now right).
    rewrite <- C in *.
    specialize (IHr x1 s1 rest0 B D F Hwr Hpr Hn1). rewrite Eb in IHr. cbn [fst snd] in IHr.
    specialize (IHr G Hu1).
    destruct (run_items E rest x1) as [[x2 e2] ok2]. destruct (ref_items R rest true (x_store x1)) as [st2 o2].
    destruct IHr as (A2 & B2 & C2 & D2 & F2 & G2 & H2 & I2 & J2).
    conj; auto.
    - rewrite H2, H, merrs_app, app_assoc. reflexivity.
    - rewrite visits_of_app, ovisits_app. congruence.
    - destruct J2 as [J2|[J2|J2]].
      + rewrite J2. destruct J as [J|J]; [right; left; exact J | right; right; simpl; apply in_app_iff; now left].
      + right; left; exact J2.
      + right; right; simpl; apply in_app_iff; now right.
  Qed.

  Lemma simT_node p c body : SimIT body -> SimIF body -> SimT (LNode p c body).
  Proof.
    intros IHT IHF x seen rest Hx Ha Hc Hw Hroot Hq Hu. rewrite run_tree_node, ref_tree_eq. rewrite emit_tree_eq in *.
    pose proof Hw as Hw0. simpl in Hw. apply andb_true_iff in Hw as [Hw Hwi]. apply andb_true_iff in Hw as [Hwb Hwp].
    assert (Hup : unf x = [] \/ proper_prefix (unf x) p = false).
    { destruct Hu as [Hu|Hu]; [now left | right; apply Hu; simpl; now left]. }
    destruct (aget c R) as [b|] eqn:Er.
    - (* the responder has the block *)
      destruct (emit_items R body (c :: seen)) as [its seen'] eqn:Ee. cbn [fst snd] in *. simpl in Hq.
      destruct (H_head seen x p c _ _ Hx Hq Hup eq_refl) as (x1 & a & E1 & Hx1 & Hq1 & Hu1 & Hb).
      unfold seen_step in Hx1. cbn [i_act i_link did_follow i_blk] in Hx1, Hu1, Hb.
      assert (Hs : a = AOk /\ x_store x1 = aput c b (x_store x) /\ x_errs x1 = x_errs x).
      { destruct (existsb (N.eqb c) seen) eqn:Es; cbn [negb] in Hb.
        - destruct Hb as (-> & Hst & Her). apply existsb_eqb_in' in Es.
          unfold local_ans, local_errs in *. destruct (aget c (x_store x)) as [b0|] eqn:Eg; [|exfalso; now apply (Hc c Es)].
          rewrite (Ha c b0 b Eg Er) in Eg. rewrite (aput_same c b _ Eg). rewrite app_nil_r in Her. auto.
        - exact Hb. }
      destruct Hs as (-> & Hst & Her). rewrite E1.
      assert (Ha1 : agree (x_store x1)) by (rewrite Hst; now apply agree_aput).
      assert (Hc1 : covers (x_store x1) (c :: seen)) by (rewrite Hst; now apply covers_aput).
      assert (Hn : forall q, In q (child_paths body) -> q <> []).
      { intros q Hin. rewrite forallb_forall in Hwb. specialize (Hwb q Hin). intro Hz. subst q. now rewrite proper_prefix_nil_r in Hwb. }
      specialize (IHT x1 (c :: seen) rest Hx1 Ha1 Hc1 Hwi Hwp Hn). rewrite Ee in IHT. cbn [fst snd] in IHT.
      specialize (IHT Hq1 (or_introl Hu1)). rewrite Hst in IHT.
      destruct (run_items E body x1) as [[x2 evs] ok]. destruct (ref_items R body true (aput c b (x_store x))) as [st' o].
      destruct IHT as (A & B & C & D & F & G & H & I & J).
      destruct (aget c (x_store x));
        (conj; auto; try congruence;
         destruct J as [J|[J|J]]; [left; congruence | left; exact J | right; simpl; now right]).
    - (* the responder lacks the block: only the local store can supply it and everything below *)
      assert (Hp : p <> []) by (destruct Hroot as [Hroot|Hroot]; [exact Hroot | exfalso; now apply Hroot]).
      cbn [fst snd] in *. simpl in Hq.
      destruct (H_head seen x p c _ _ Hx Hq Hup eq_refl) as (x1 & a & E1 & Hx1 & Hq1 & Hu1 & Hb).
      unfold seen_step in Hx1. cbn [i_act i_link did_follow i_blk] in Hx1, Hu1, Hb. destruct Hb as (-> & Hst & Her). rewrite E1.
      unfold local_ans, local_errs in *. destruct (aget c (x_store x)) as [b0|] eqn:Eg.
      + assert (Hbl : forall q, In q (ipaths body) -> proper_prefix (unf x1) q = true).
        { rewrite Hu1. intros q Hin. pose proof (below_parent p c body Hw0) as Hf. rewrite Forall_forall in Hf. now apply Hf. }
        assert (Hun : unf x1 <> []) by (rewrite Hu1; exact Hp).
        specialize (IHF x1 seen Hx1 Hwi Hun Hbl). rewrite Hst in IHF.
        destruct (run_items E body x1) as [[x2 evs] ok]. destruct (ref_items R body false (x_store x)) as [st' o].
        destruct IHF as (A & B & C & D & F & G & H & I). rewrite app_nil_r in Her.
        conj; auto; try congruence.
        * rewrite D. exact Ha.
        * rewrite D. exact Hc.
        * right. rewrite G, Hu1. simpl. now left.
      + cbn. conj; auto; try congruence; try (right; rewrite Hu1; simpl; now left).
  Qed.

  Theorem sim_all : (forall t, SimT t /\ SimF t) /\ (forall l, SimIT l /\ SimIF l).
  Proof.
    apply (ltree_items_ind (fun t => SimT t /\ SimF t) (fun l => SimIT l /\ SimIF l)).
    - intros p c body [A B]. split; [now apply simT_node | now apply simF_node].
    - split; [apply simIT_nil | apply simIF_nil].
    - intros v rest [A B]. split; [now apply simIT_visit | now apply simIF_visit].
    - intros t [A B] rest [C D]. split; [now apply simIT_child | now apply simIF_child].
  Qed.
End Sim.

(* ------------------------------------------------------------------------------------------------
   6. going online at the root, the whole response arriving in one message
   ------------------------------------------------------------------------------------------------ *)
Section First.
  Variable R : store.

  Lemma set_q_id r : set_q r (r_q r) = r.
  Proof. destruct r; reflexivity. Qed.
  Lemma bro_start_nolast r : r_last r = None -> bro_start r = r.
  Proof. intro H. unfold bro_start. now rewrite H. Qed.

  (* the loader after the one message has been processed *)
  Definition delivered (its : list item) (r : rl) : rl :=
    set_online false (ingest (md_list its) (blocks_of its) r).

  Lemma process_one its x :
    process_msg (msg_of its StOk) x =
    {| x_rl := delivered its (x_rl x); x_store := x_store x; x_sent := x_sent x; x_nblocks := x_nblocks x;
       x_cancelled := x_cancelled x || false; x_errs := x_errs x; x_feed := x_feed x; x_sched := x_sched x;
       x_log := XDeliver (msg_of its StOk) :: x_log x |}.
  Proof. reflexivity. Qed.

  Lemma delivered_props its r :
    eok R [] its -> its <> [] -> r_open r = true -> q_items (r_q r) = [] -> q_detached (r_q r) = false ->
    let r' := delivered its r in
    r_open r' = false /\ q_items (r_q r') = its /\ q_detached (r_q r') = false /\
    r_verifier r' = r_verifier r /\ r_record r' = r_record r /\ r_last r' = r_last r /\ r_unfollowed r' = r_unfollowed r.
  Proof.
    intros Hok Hne Ho Hq Hd. unfold delivered, ingest.
    destruct its as [|it its]; [congruence|]. cbn [md_list map]. rewrite Ho.
    change ((i_link it, i_act it) :: map (fun it0 : item => (i_link it0, i_act it0)) its) with (md_list (it :: its)).
    rewrite (ingest_honest R (it :: its) Hok). unfold rq_enqueue. rewrite Hq. simpl. repeat split; auto.
  Qed.

  Section Deliver.
    Variable below : path -> path -> bool.
    (* a load call while the single message is still undelivered: it is delivered before or during the call *)
    Lemma load_call_deliver1 x p c its r' st' res :
      x_feed x = [msg_of its StOk] -> r_open (x_rl x) = true -> q_items (r_q (x_rl x)) = [] ->
      r_last (x_rl x) = None -> eok R [] its -> its <> [] -> q_detached (r_q (x_rl x)) = false ->
      bro_try below (delivered its (x_rl x)) (x_store x) p c = (r', st', Some res) ->
      exists x', load_call below x p c = (x', Some res) /\ x_rl x' = r' /\ x_store x' = st' /\
                 x_sent x' = x_sent x /\ x_cancelled x' = x_cancelled x /\ x_feed x' = [] /\ x_errs x' = x_errs x.
    Proof.
      intros Hf Ho Hq Hl Hok Hne Hd Et. unfold load_call.
      destruct (pop_sched x) as [n x0] eqn:Ep.
      assert (H0 : x_rl x0 = x_rl x /\ x_store x0 = x_store x /\ x_sent x0 = x_sent x /\ x_cancelled x0 = x_cancelled x /\
                   x_feed x0 = x_feed x /\ x_errs x0 = x_errs x).
      { unfold pop_sched in Ep. destruct (x_sched x); inversion Ep; subst; simpl; auto 10. }
      destruct H0 as (Er & Es & Ese & Ec & Ef & Ee).
      rewrite <- Er in Ho, Hq, Hl, Hd, Et. rewrite <- Es in Et. rewrite <- Ef in Hf.
      rewrite <- Ese, <- Ec, <- Ee. clear Ep Er Es Ese Ec Ef Ee x. rename x0 into x.
      destruct (delivered_props its (x_rl x) Hok Hne Ho Hq Hd) as (D1 & D2 & D3 & D4 & D5 & D6 & D7).
      destruct x as [rl0 st0 sent0 nb0 canc0 errs0 feed0 sched0 log0]. cbn [x_rl x_store x_feed x_sent x_cancelled x_errs] in *.
      subst feed0.
      assert (Eb : bro_try below rl0 st0 p c = (rl0, st0, None)).
      { unfold bro_try, bro_inner, wait_remote. rewrite Hq. simpl. rewrite Ho, set_q_id. reflexivity. }
      destruct n as [|n].
      - (* delivered while the load waits *)
        cbn [deliver_n x_with_rl x_feed x_rl x_store]. rewrite (bro_start_nolast _ Hl).
        cbn [load_wait x_with_rl x_rl x_store]. rewrite Eb. rewrite process_one.
        cbn [x_with_feed x_with_rl x_rl x_store load_wait]. rewrite Et.
        destruct res as [b [|]|e l]; (eexists; split; [reflexivity|]); simpl; rewrite ?orb_false_r; auto 10.
      - (* delivered before the load starts *)
        cbn [deliver_n x_feed]. rewrite process_one. cbn [x_with_feed x_rl x_store x_feed].
        rewrite (deliver_n_nofeed n) by reflexivity.
        cbn [x_with_rl x_feed x_rl x_store]. rewrite (bro_start_nolast (delivered its rl0)) by (rewrite D6; exact Hl).
        cbn [load_wait x_with_rl x_rl x_store]. rewrite Et.
        destruct res as [b [|]|e l]; (eexists; split; [reflexivity|]); simpl; rewrite ?orb_false_r; auto 10.
    Qed.
  End Deliver.
End First.

Section Top.
  Variable R : store.

  Lemma missing_of_merrs o : missing_of (merrs o) = omissing o.
  Proof. unfold merrs. induction (omissing o) as [|[p c] l IH]; simpl; congruence. Qed.
  Lemma length_merrs o : length (merrs o) = length (omissing o).
  Proof. unfold merrs. apply map_length. Qed.

  Lemma emit_root_present p c body b seen :
    aget c R = Some b ->
    fst (emit_tree R (LNode p c body) seen) =
    {| i_link := c; i_act := Present; i_blk := if negb (existsb (N.eqb c) seen) then Some b else None |}
      :: fst (emit_items R body (c :: seen)).
  Proof.
    intro H. rewrite emit_tree_eq, H. cbv zeta.
    match goal with |- context [let '(_, _) := ?e in _] => change e with (emit_items R body (c :: seen)) end.
    destruct (emit_items R body (c :: seen)). reflexivity.
  Qed.

  (* the first load: local miss at the root, online, the response arrives, the root block is taken from it *)
  Lemma first_step p c body L sched b :
    aget c L = None -> aget c R = Some b ->
    let t := LNode p c body in
    let its := fst (emit_items R body [c]) in
    exists x1, exec_ask proper_prefix (honest t R []) 0 (x_init L [] sched) p c = (x1, AOk) /\
               onl x1 /\ stq x1 = its /\ unf x1 = [] /\ x_store x1 = aput c b L /\ x_errs x1 = [].
  Proof.
    intros HL HR t its.
    set (ra := {| r_open := false; r_q := rq_empty; r_verifier := None; r_record := trec_empty;
                  r_last := Some {| a_path := p; a_link := c; a_ok := false; a_remote := false |}; r_unfollowed := [] |}).
    assert (Ea : bro_try proper_prefix rl_new L p c = (ra, L, Some (RErr (EMissing p c) true))).
    { unfold bro_try, bro_inner, wait_remote, load_local. simpl. rewrite HL. reflexivity. }
    (* the stream *)
    assert (Est : honest t R [] 0 = [msg_of (fst (emit_tree R t [])) StOk]).
    { unfold honest, mk_msgs, resp_status. cbn [root_cid t]. rewrite HR. now rewrite resp_items_emit. }
    assert (Eem : fst (emit_tree R t []) = {| i_link := c; i_act := Present; i_blk := Some b |} :: its).
    { unfold t, its. now rewrite (emit_root_present p c body b [] HR). }
    set (full := fst (emit_tree R t [])) in *.
    assert (Hok : eok R [] full) by (unfold full; apply (proj1 (emit_ok R))).
    assert (Hne : full <> []) by (rewrite Eem; discriminate).
    (* the loader when the retry starts *)
    set (rb := set_last (set_online true ra) None).
    assert (Hrb : r_open rb = true /\ q_items (r_q rb) = [] /\ r_last rb = None /\ q_detached (r_q rb) = false) by (cbn; auto).
    destruct Hrb as (Hb1 & Hb2 & Hb3 & Hb4).
    destruct (delivered_props R full rb Hok Hne Hb1 Hb2 Hb4) as (D1 & D2 & D3 & D4 & D5 & D6 & D7).
    assert (Hlon : lonl (delivered full rb)).
    { unfold lonl. split; [exact D1|]. split; [exact D3|]. right. right. rewrite D4, D5, D6. cbn. auto. }
    destruct (bro_try_head proper_prefix (delivered full rb) L p c {| i_link := c; i_act := Present; i_blk := Some b |} its Hlon) as (r' & st' & res & Et & Hl' & Hq' & Hu' & Hbk).
    { rewrite D2. exact Eem. } { left. rewrite D7. reflexivity. } { reflexivity. }
    cbn [i_blk i_act did_follow] in Hu', Hbk. destruct Hbk as [-> ->].
    (* assemble exec_ask *)
    unfold exec_ask, load_call at 1. unfold pop_sched, x_init. cbn [x_sched].
    assert (Estage : forall sch n,
      load_wait proper_prefix (x_feed (x_with_rl (deliver_n n {| x_rl := rl_new; x_store := L; x_sent := false; x_nblocks := 0; x_cancelled := false; x_errs := []; x_feed := []; x_sched := sch; x_log := [] |})
                                                  (bro_start (x_rl (deliver_n n {| x_rl := rl_new; x_store := L; x_sent := false; x_nblocks := 0; x_cancelled := false; x_errs := []; x_feed := []; x_sched := sch; x_log := [] |})))
                                                  (x_store (deliver_n n {| x_rl := rl_new; x_store := L; x_sent := false; x_nblocks := 0; x_cancelled := false; x_errs := []; x_feed := []; x_sched := sch; x_log := [] |}))))
                (x_with_rl (deliver_n n {| x_rl := rl_new; x_store := L; x_sent := false; x_nblocks := 0; x_cancelled := false; x_errs := []; x_feed := []; x_sched := sch; x_log := [] |})
                           (bro_start (x_rl (deliver_n n {| x_rl := rl_new; x_store := L; x_sent := false; x_nblocks := 0; x_cancelled := false; x_errs := []; x_feed := []; x_sched := sch; x_log := [] |})))
                           (x_store (deliver_n n {| x_rl := rl_new; x_store := L; x_sent := false; x_nblocks := 0; x_cancelled := false; x_errs := []; x_feed := []; x_sched := sch; x_log := [] |}))) p c =
      ({| x_rl := ra; x_store := L; x_sent := false; x_nblocks := 0; x_cancelled := false; x_errs := []; x_feed := []; x_sched := sch; x_log := [] |},
       Some (RErr (EMissing p c) true))).
    { intros sch n. rewrite deliver_n_nofeed by reflexivity. cbn [x_with_rl x_feed x_rl x_store load_wait].
      change (bro_start rl_new) with rl_new. rewrite Ea. reflexivity. }
    assert (Estage' : exists sch,
      (let '(n, x0) := match sched with [] => (0%nat, {| x_rl := rl_new; x_store := L; x_sent := false; x_nblocks := 0; x_cancelled := false; x_errs := []; x_feed := []; x_sched := sched; x_log := [] |})
                                       | n :: s => (n, {| x_rl := rl_new; x_store := L; x_sent := false; x_nblocks := 0; x_cancelled := false; x_errs := []; x_feed := []; x_sched := s; x_log := [] |}) end in
       load_wait proper_prefix (x_feed (x_with_rl (deliver_n n x0) (bro_start (x_rl (deliver_n n x0))) (x_store (deliver_n n x0))))
                 (x_with_rl (deliver_n n x0) (bro_start (x_rl (deliver_n n x0))) (x_store (deliver_n n x0))) p c) =
      ({| x_rl := ra; x_store := L; x_sent := false; x_nblocks := 0; x_cancelled := false; x_errs := []; x_feed := []; x_sched := sch; x_log := [] |},
       Some (RErr (EMissing p c) true))).
    { destruct sched as [|n s]; eexists; apply Estage. }
    destruct Estage' as (sch & Es). cbn [x_rl x_store x_sent x_nblocks x_cancelled x_errs x_feed x_sched x_log] in Es |- *.
    rewrite Es. cbn [x_sent x_cancelled]. unfold retry_call, go_online, retry_prepare.
    cbn [x_rl x_store x_sent x_nblocks x_cancelled x_errs x_feed x_sched x_log set_online r_open r_last andb negb ra set_verifier set_q a_remote a_path a_link x_with_rl].
    change (N.max 0 0) with 0. rewrite Est. cbn [app].
    match goal with |- context [load_call proper_prefix ?xx p c] => set (x1 := xx) end.
    assert (P1 : x_feed x1 = [msg_of full StOk]) by reflexivity.
    assert (Prl : x_rl x1 = rb) by reflexivity.
    assert (Pst : x_store x1 = L) by reflexivity.
    assert (P2 : r_open (x_rl x1) = true) by (rewrite Prl; exact Hb1).
    assert (P3 : q_items (r_q (x_rl x1)) = []) by (rewrite Prl; exact Hb2).
    assert (P4 : r_last (x_rl x1) = None) by (rewrite Prl; exact Hb3).
    assert (P5 : q_detached (r_q (x_rl x1)) = false) by (rewrite Prl; exact Hb4).
    assert (P6 : bro_try proper_prefix (delivered full (x_rl x1)) (x_store x1) p c = (r', aput c b L, Some (RData b false)))
      by (rewrite Prl, Pst; exact Et).
    destruct (load_call_deliver1 R proper_prefix x1 p c full r' (aput c b L) (RData b false) P1 P2 P3 P4 Hok Hne P5 P6)
      as (x2 & E2 & F1 & F2 & F3 & F4 & F5 & F6).
    rewrite E2. eexists. split; [reflexivity|].
    unfold onl, stq, unf. cbn [x_sent x_cancelled x_feed x_rl x_store x_errs x_logged].
    rewrite F1, F2, F3, F4, F5, F6. unfold x1. cbn. destruct Hl' as (L1 & L2 & L3). repeat split; auto.
  Qed.
End Top.

(* C02 for requests that go online at the root, the response in one message: for every well-formed plan,
   every requestor store lacking the root, every responder store holding it (the two agreeing on the bytes of
   common CIDs) and every schedule, the outcome is the reference's. *)
Theorem c02_online_onemsg t L R sched :
  wf_plan t = true -> agree R L ->
  aget (root_cid t) L = None -> aget (root_cid t) R <> None ->
  model_outcome t L R [] sched = ref_outcome t L R.
Proof.
  destruct t as [p c body]. intros Hwf Hag HL HR. cbn [root_cid] in HL, HR.
  unfold wf_plan in Hwf. cbn [tpath] in Hwf. destruct p as [|s p]; [|discriminate].
  destruct (aget c R) as [b|] eqn:ER; [|congruence]. clear HR.
  unfold model_outcome, ref_outcome, run_request. rewrite run_tree_node, ref_tree_eq, HL, ER.
  destruct (first_step R [] c body L sched b HL ER) as (x1 & E1 & Hx1 & Hq1 & Hu1 & Hs1 & He1).
  cbv zeta in E1. rewrite E1.
  pose proof Hwf as Hw0. simpl in Hwf. apply andb_true_iff in Hwf as [Hw Hwi]. apply andb_true_iff in Hw as [Hwb Hwp].
  assert (Hn : forall q, In q (child_paths body) -> q <> []).
  { intros q Hin. rewrite forallb_forall in Hwb. specialize (Hwb q Hin). intro Hz. subst q. discriminate. }
  destruct (sim_all R (honest (LNode [] c body) R []) 0 (fun _ x => onl x) stq
              (fun _ x p0 c0 H => exec_local_step proper_prefix (honest (LNode [] c body) R []) 0 x p0 c0 H)
              (fun _ x p0 c0 h t H => exec_head_step proper_prefix (honest (LNode [] c body) R []) 0 x p0 c0 h t H)) as [_ Hit].
  destruct (Hit body) as [HIT _].
  assert (Ha1 : agree R (x_store x1)) by (rewrite Hs1; now apply agree_aput).
  assert (Hc1 : covers (x_store x1) [c]).
  { rewrite Hs1. apply covers_aput. intros c' []. }
  assert (Hq1' : stq x1 = fst (emit_items R body [c]) ++ []) by (now rewrite app_nil_r).
  specialize (HIT x1 [c] [] Hx1 Ha1 Hc1 Hwi Hwp Hn Hq1' (or_introl Hu1)). rewrite Hs1 in HIT.
  destruct (run_items (exec_ask proper_prefix (honest (LNode [] c body) R []) 0) body x1) as [[x2 evs] ok].
  destruct (ref_items R body true (aput c b L)) as [st' o].
  destruct HIT as (A & B & C & D & F & G & H & I & J). subst ok.
  destruct B as (_ & Hcan & _ & _).
  unfold outcome_of, final_errs. cbn [fst snd o_visits o_missing o_other_errs o_store o_complete]. rewrite Hcan.
  rewrite H, He1. cbn [app visits_of]. rewrite missing_of_merrs, I, C, length_merrs.
  f_equal. apply N.add_0_r || lia.
Qed.
