(* TaskQueueLive.v — the liveness half of C21 over the model in TaskQueue.v:
   the starvation schedule (fairness "even while other peers keep submitting" is false), and progress
   when arrivals are finite. *)
From Coq Require Import List NArith ZArith Bool Arith Lia.
From GS Require Import Base TaskQueue TaskQueueProofs.
Import ListNotations.
Open Scope N_scope.

(* ---------- generic facts ---------- *)
Lemma run_app cfg l1 : forall l2 s s1 e1 s2 e2,
  run cfg s l1 = Some (s1, e1) -> run cfg s1 l2 = Some (s2, e2) -> run cfg s (l1 ++ l2) = Some (s2, e1 ++ e2).
Proof.
  induction l1 as [|l l1 IH]; simpl; intros l2 s s1 e1 s2 e2 H1 H2.
  - inversion H1; subst. exact H2.
  - destruct (step cfg s l) as [[sa ea]|]; [|discriminate].
    destruct (run cfg sa l1) as [[sb eb]|] eqn:E; [|discriminate]. inversion H1; subst.
    rewrite (IH _ _ _ _ _ _ E H2). now rewrite app_assoc.
Qed.

Lemma aput_aput {V} k (v1 v2 : V) m : aput k v2 (aput k v1 m) = aput k v2 m.
Proof.
  induction m as [|[q w] m IH]; simpl.
  - now rewrite N.eqb_refl.
  - destruct (N.eqb_spec k q); simpl.
    + subst. now rewrite N.eqb_refl.
    + destruct (N.eqb_spec k q); [contradiction|]. now rewrite IH.
Qed.

Lemma Forall_aput {V} (P : N * V -> Prop) k v m : Forall P m -> P (k, v) -> Forall P (aput k v m).
Proof.
  induction m as [|[q w] m IH]; simpl; intros H Hp.
  - constructor; auto.
  - inversion H; subst. destruct (N.eqb_spec k q).
    + subst. constructor; auto.
    + constructor; auto.
Qed.

Lemma upd_upd {A} n (x y : A) l : upd n y (upd n x l) = upd n y l.
Proof. revert n; induction l as [|z l IH]; intros [|n]; simpl; auto. now rewrite IH. Qed.

Lemma best_some l : l <> [] -> exists b, best l = Some b.
Proof.
  destruct l as [|x r]; [congruence|]. intros _. simpl. destruct (best r) as [y|]; [|eauto].
  destruct (better y x); eauto.
Qed.

Lemma best_in l b : best l = Some b -> In b l.
Proof.
  revert b; induction l as [|x r IH]; simpl; intros b H; [discriminate|].
  destruct (best r) as [y|].
  - destruct (better y x); inversion H; subst; [right; now apply IH | now left].
  - inversion H; now left.
Qed.

Lemma filter_all {A} (f : A -> bool) l : (forall y, In y l -> f y = true) -> filter f l = l.
Proof.
  induction l as [|x r IH]; simpl; intro H; [reflexivity|].
  rewrite (H x) by now left. f_equal. apply IH. intros y Hy. apply H. now right.
Qed.

Lemma del_id_length l b :
  NoDup (map t_id l) -> In b l -> S (length (del_id (t_id b) l)) = length l.
Proof.
  induction l as [|x r IH]; simpl; intros Hn Hin; [contradiction|].
  inversion Hn; subst. destruct Hin as [->|Hin].
  - rewrite N.eqb_refl. simpl. f_equal.
    assert (E : del_id (t_id b) r = r).
    { unfold del_id. apply filter_all. intros y Hy.
      destruct (N.eqb_spec (t_id y) (t_id b)) as [E|]; [|reflexivity].
      exfalso. apply H1. rewrite <- E. now apply in_map. }
    fold (del_id (t_id b) r). now rewrite E.
  - destruct (N.eqb_spec (t_id x) (t_id b)) as [E|E]; simpl.
    + exfalso. apply H1. rewrite E. now apply in_map.
    + f_equal. fold (del_id (t_id b) r). now apply IH.
Qed.

Lemma del_id_nodup l i : NoDup (map t_id l) -> NoDup (map t_id (del_id i l)).
Proof.
  induction l as [|x r IH]; simpl; intro H; [constructor|]. inversion H; subst.
  destruct (negb (t_id x =? i)); simpl; [|now apply IH].
  constructor; [|now apply IH]. intro Hin. apply H2. apply in_map_iff in Hin as (y & Ey & Hy).
  apply filter_In in Hy as [Hy _]. rewrite <- Ey. now apply in_map.
Qed.

Lemma del_id_in l i y : In y (del_id i l) -> In y l.
Proof. unfold del_id. intro H. now apply filter_In in H as [H _]. Qed.

Lemma has_topic_false tp l : Forall (fun x => t_topic x < tp) l -> has_topic tp l = false.
Proof.
  unfold has_topic. induction l as [|x r IH]; simpl; intro H; [reflexivity|]. inversion H; subst.
  destruct (N.eqb_spec (t_topic x) tp); [lia|]. simpl. now apply IH.
Qed.

Lemma peer_cmp_false a b :
  npend b <> O -> tr_freeze a = tr_freeze b ->
  ((nact a = nact b /\ (npend a <= npend b)%nat) \/ (nact b < nact a)%nat) ->
  peer_cmp a b = false.
Proof.
  intros Hb Hf Hc. unfold peer_cmp.
  destruct (Nat.eqb_spec (npend a) 0); [reflexivity|].
  destruct (Nat.eqb_spec (npend b) 0); [contradiction|].
  rewrite Hf. rewrite Nat.ltb_irrefl.
  destruct (Nat.eqb_spec (nact a) (nact b)).
  - apply Nat.ltb_ge. destruct Hc as [[_ H]|H]; lia.
  - apply Nat.ltb_ge. destruct Hc as [[H _]|H]; lia.
Qed.

Lemma maxcheck_zero m : negb (Nat.eqb m 0) && Nat.leb m 0 = false.
Proof. destruct m; reflexivity. Qed.

(* ============================================================================================ *)
(* The starvation schedule.  [V] is the light peer: one request queued, nothing active, not frozen —
   so nothing but the peer ordering keeps it from running.  Every other tracker belongs to a peer
   that has exactly one task executing (on its own worker) and at least two queued; every worker is
   busy with such a task.  Topics below [B] and identities below [st_next] are the used ones. *)
Definition victim_ok (t : tracker) : Prop :=
  exists v, t = {| tr_pending := [v]; tr_active := []; tr_freeze := 0 |}.
Definition flooder_ok (B nx : N) (t : tracker) : Prop :=
  tr_freeze t = O /\ (2 <= npend t)%nat /\ nact t = 1%nat /\ NoDup (map t_id (tr_pending t)) /\
  Forall (fun x => t_topic x < B /\ t_id x < nx) (tr_pending t ++ tr_active t).

Record Starve (V : peer) (B : N) (s : state) : Prop := {
  sv_victim : exists tv, aget V (st_trk s) = Some tv;
  sv_trk : Forall (fun qt => (fst qt = V /\ victim_ok (snd qt)) \/ (fst qt <> V /\ flooder_ok B (st_next s) (snd qt)))
                  (st_trk s);
  sv_some : (0 < length (st_w s))%nat;
  sv_busy : forall j x, nth_error (st_w s) j = Some x ->
              exists p t tr, x = WRunning p t /\ p <> V /\ aget p (st_trk s) = Some tr /\ tr_active tr = [t];
  sv_distinct : forall i j p t p' t', i <> j -> nth_error (st_w s) i = Some (WRunning p t) ->
                  nth_error (st_w s) j = Some (WRunning p' t') -> p <> p'
}.

Lemma flooder_ok_mono B nx B' nx' t : B <= B' -> nx <= nx' -> flooder_ok B nx t -> flooder_ok B' nx' t.
Proof.
  intros HB Hn (H1 & H2 & H3 & H4 & H5). repeat split; auto.
  eapply Forall_impl; [|exact H5]. simpl. intros x [Ha Hb]. lia.
Qed.

(* One round: the peer [f] whose task runs on worker [w] submits one more request (fresh topic [B]),
   its running task completes, and the freed worker pops — presented with [f]'s tracker, which the
   comparator ranks first — the next task of [f].  The light peer's request is not touched. *)
Definition round (w : nat) (f : peer) (B : N) : list label := [LPush f B 0%Z; LDone w; LPop w (Some f)].

Lemma starve_round cfg V B s w f x :
  Starve V B s -> nth_error (st_w s) w = Some (WRunning f x) ->
  exists s' b,
    run cfg s (round w f B) = Some (s', [EPush f B; EDone f (t_topic x); EStart f (t_topic b)]) /\
    Starve V (B + 1) s' /\ aget V (st_trk s') = aget V (st_trk s) /\ length (st_w s') = length (st_w s).
Proof.
  intros St Hw.
  destruct (sv_busy _ _ _ St _ _ Hw) as (p & t & tf & Ex & HfV & Hf & Hact). inversion Ex; subst p t; clear Ex.
  pose proof (sv_trk _ _ _ St) as Htrk.
  assert (Hfl : flooder_ok B (st_next s) tf).
  { apply aget_in in Hf. rewrite Forall_forall in Htrk. destruct (Htrk _ Hf) as [[E _]|[_ H]]; [simpl in E; contradiction | exact H]. }
  destruct Hfl as (Hfz & Hnp & Hna & Hnd & Hbd).
  apply Forall_app in Hbd as [Hbp Hba].
  assert (Hwlt : (w < length (st_w s))%nat) by (apply nth_error_Some; congruence).
  (* step 1: push *)
  set (nw := {| t_id := st_next s; t_topic := B; t_prio := 0%Z |}).
  set (tf1 := {| tr_pending := tr_pending tf ++ [nw]; tr_active := tr_active tf; tr_freeze := tr_freeze tf |}).
  assert (Epush : tr_push (st_next s) B 0%Z tf = (tf1, true)).
  { unfold tr_push. rewrite has_topic_false by (eapply Forall_impl; [|exact Hba]; simpl; tauto).
    rewrite has_topic_false by (eapply Forall_impl; [|exact Hbp]; simpl; tauto). reflexivity. }
  (* step 2: done *)
  set (tf2 := {| tr_pending := tr_pending tf ++ [nw]; tr_active := []; tr_freeze := tr_freeze tf |}).
  assert (Edone : tr_done x tf1 = tf2).
  { unfold tr_done, tf1, tf2; simpl. rewrite Hact. simpl. now rewrite N.eqb_refl. }
  (* step 3: pop *)
  destruct (best_some (tr_pending tf ++ [nw])) as [b Eb]; [intro HH; apply app_eq_nil in HH as [_ HH]; discriminate|].
  pose proof (best_in _ _ Eb) as Hbin.
  set (tf3 := {| tr_pending := del_id (t_id b) (tr_pending tf ++ [nw]); tr_active := [b]; tr_freeze := tr_freeze tf |}).
  assert (Epop : tr_pop (c_maxpp cfg) tf2 = (Some b, tf3)).
  { unfold tr_pop, tf3. simpl. rewrite Eb. rewrite Hfz. simpl. unfold nact; simpl. rewrite maxcheck_zero. reflexivity. }
  set (trk2 := aput f tf2 (st_trk s)).
  assert (Etop : is_top trk2 f = true).
  { unfold is_top, trk2. rewrite aget_aput_eq. apply forallb_forall. intros [q tq] Hq. simpl.
    apply negb_true_iff.
    assert (HF : Forall (fun qt => (fst qt = V /\ victim_ok (snd qt)) \/ (fst qt <> V /\ flooder_ok B (st_next s) (snd qt)) \/ snd qt = tf2)
                        (aput f tf2 (st_trk s))).
    { apply Forall_aput; [|right; right; reflexivity]. eapply Forall_impl; [|exact Htrk]. simpl. tauto. }
    rewrite Forall_forall in HF. specialize (HF _ Hq). simpl in HF.
    assert (Hn2 : npend tf2 = S (npend tf)) by (unfold npend, tf2; simpl; rewrite app_length; simpl; lia).
    destruct HF as [[_ [v ->]] | [[_ (Gz & Gp & Ga & _)] | ->]].
    - apply peer_cmp_false; [lia | simpl; now rewrite Hfz |]. left. unfold nact, npend; simpl. unfold npend in Hn2. simpl in Hn2. split; [reflexivity|].
      fold (npend tf2). lia.
    - apply peer_cmp_false; [lia | simpl; now rewrite Gz, Hfz |]. right. rewrite Ga. unfold nact; simpl. lia.
    - apply peer_cmp_false; [lia | reflexivity |]. left. split; [reflexivity | lia]. }
  exists {| st_trk := aput f tf3 trk2; st_next := st_next s + 1; st_sig := true;
            st_w := upd w (WRunning f b) (upd w WReady (st_w s));
            gh_created := gh_created s ++ [(f, st_next s)]; gh_removed := gh_removed s;
            gh_started := gh_started s ++ [(f, t_id b)]; gh_done := gh_done s ++ [(f, t_id x)] |}, b.
  split; [|split; [|split]].
  - unfold round, run. unfold step at 1. rewrite Hf, Epush. cbn [st_trk st_next st_sig st_w gh_created gh_removed gh_started gh_done].
    unfold step at 1. cbn [st_trk st_next st_sig st_w gh_created gh_removed gh_started gh_done].
    rewrite Hw. rewrite aget_aput_eq. rewrite Edone. rewrite aput_aput. fold trk2.
    unfold step at 1. cbn [st_trk st_next st_sig st_w gh_created gh_removed gh_started gh_done].
    rewrite nth_error_upd_eq by exact Hwlt.
    unfold pop_tasks. rewrite Etop. unfold trk2 at 1. rewrite aget_aput_eq. rewrite Epop.
    replace (tr_idle tf3) with false by (unfold tr_idle, tf3; simpl; destruct (del_id _ _); reflexivity).
    unfold after_pop. cbn [fst snd st_trk st_next st_sig st_w gh_created gh_removed gh_started gh_done].
    reflexivity.
  - (* the invariant again *)
    assert (Hlen3 : S (npend tf3) = S (npend tf)).
    { unfold npend, tf3; simpl. rewrite del_id_length; [rewrite app_length; simpl; lia | | exact Hbin].
      rewrite map_app. simpl. apply NoDup_app_iff_disj; [exact Hnd | constructor; [intros []|constructor] |].
      intros i Hi [<-|[]]. apply in_map_iff in Hi as (y & Ey & Hy). rewrite Forall_forall in Hbp.
      destruct (Hbp _ Hy) as [_ Hlt]. simpl in Ey. lia. }
    assert (Hall : Forall (fun y => t_topic y < B + 1 /\ t_id y < st_next s + 1) (tr_pending tf ++ [nw])).
    { apply Forall_app; split.
      - eapply Forall_impl; [|exact Hbp]. simpl. intros y [? ?]; lia.
      - constructor; [simpl; lia | constructor]. }
    assert (Hfl3 : flooder_ok (B + 1) (st_next s + 1) tf3).
    { repeat split.
      - exact Hfz.
      - lia.
      - apply del_id_nodup. rewrite map_app. simpl. apply NoDup_app_iff_disj; [exact Hnd | constructor; [intros []|constructor] |].
        intros i Hi [<-|[]]. apply in_map_iff in Hi as (y & Ey & Hy). rewrite Forall_forall in Hbp.
        destruct (Hbp _ Hy) as [_ Hlt]. simpl in Ey. lia.
      - simpl. apply Forall_app; split.
        + rewrite Forall_forall in Hall |- *. intros y Hy. apply Hall. eapply del_id_in; eauto.
        + rewrite Forall_forall in Hall. constructor; [now apply Hall | constructor]. }
    unfold trk2. rewrite aput_aput.
    constructor; cbn [st_trk st_next st_sig st_w].
    + rewrite aget_aput_neq by exact HfV. exact (sv_victim _ _ _ St).
    + apply Forall_aput; [|right; split; [exact HfV | exact Hfl3]].
      eapply Forall_impl; [|exact Htrk]. simpl. intros qt [H|[H1 H2]]; [left; exact H | right; split; [exact H1|]].
      eapply flooder_ok_mono; [| |exact H2]; lia.
    + rewrite !upd_length. exact (sv_some _ _ _ St).
    + intros j y Hj. rewrite upd_upd in Hj. destruct (Nat.eq_dec w j) as [<-|Hne].
      * rewrite nth_error_upd_eq in Hj by exact Hwlt. inversion Hj; subst y.
        exists f, b, tf3. repeat split; auto. apply aget_aput_eq.
      * rewrite nth_error_upd_neq in Hj by exact Hne.
        destruct (sv_busy _ _ _ St _ _ Hj) as (p & t & tr & -> & HpV & Hp & Hpa).
        exists p, t, tr. repeat split; auto.
        rewrite aget_aput_neq; [exact Hp|]. intro E; subst p.
        exact (sv_distinct _ _ _ St w j f x f t Hne Hw Hj eq_refl).
    + intros i j p t p' t' Hij Hi Hj. rewrite upd_upd in Hi, Hj.
      destruct (Nat.eq_dec w i) as [<-|Hwi]; destruct (Nat.eq_dec w j) as [<-|Hwj]; try congruence.
      * rewrite nth_error_upd_eq in Hi by exact Hwlt. rewrite nth_error_upd_neq in Hj by exact Hwj.
        inversion Hi; subst p t. exact (sv_distinct _ _ _ St w j f x p' t' Hwj Hw Hj).
      * rewrite nth_error_upd_eq in Hj by exact Hwlt. rewrite nth_error_upd_neq in Hi by exact Hwi.
        inversion Hj; subst p' t'. intro E; subst p.
        exact (sv_distinct _ _ _ St w i f x f t Hwi Hw Hi eq_refl).
      * rewrite nth_error_upd_neq in Hi by exact Hwi. rewrite nth_error_upd_neq in Hj by exact Hwj.
        exact (sv_distinct _ _ _ St i j p t p' t' Hij Hi Hj).
  - cbn [st_trk]. unfold trk2. rewrite aput_aput. now rewrite aget_aput_neq by exact HfV.
  - cbn [st_w]. now rewrite !upd_length.
Qed.

(* Any number of rounds: the schedule can be continued for ever; the light peer's request stays
   queued, its tracker untouched, while [n] other tasks are started on freed workers. *)
Definition is_start (e : event) : bool := match e with EStart _ _ => true | _ => false end.
Definition touches (V : peer) (e : event) : bool :=
  match e with EPush p _ | ERemove p _ | EStart p _ | EDone p _ => N.eqb p V end.

Theorem starvation cfg V : forall n B s,
  Starve V B s ->
  exists ls s' evs,
    run cfg s ls = Some (s', evs) /\ Starve V (B + N.of_nat n) s' /\
    aget V (st_trk s') = aget V (st_trk s) /\
    length (filter is_start evs) = n /\ forallb (fun e => negb (touches V e)) evs = true /\
    Forall (fun l => match l with LPush p _ _ => p <> V | LRemove _ _ => False | _ => True end) ls.
Proof.
  induction n as [|n IH]; intros B s St.
  - exists [], s, []. simpl. rewrite N.add_0_r.
    split; [reflexivity|]. split; [exact St|]. split; [reflexivity|]. split; [reflexivity|]. split; [reflexivity | constructor].
  - destruct (nth_error (st_w s) 0) as [x0|] eqn:E0.
    2:{ apply nth_error_None in E0. pose proof (sv_some _ _ _ St). lia. }
    destruct (sv_busy _ _ _ St _ _ E0) as (f & x & tr & -> & HfV & _ & _).
    destruct (starve_round cfg V B s 0%nat f x St E0) as (s1 & b & R1 & St1 & EV1 & _).
    destruct (IH (B + 1) s1 St1) as (ls & s2 & evs & R2 & St2 & EV2 & Hc & Ht & Hl).
    exists (round 0 f B ++ ls), s2, ([EPush f B; EDone f (t_topic x); EStart f (t_topic b)] ++ evs).
    split; [eapply run_app; eauto|]. split; [|split; [|split; [|split]]].
    + replace (B + N.of_nat (S n)) with (B + 1 + N.of_nat n) by lia. exact St2.
    + congruence.
    + simpl. now rewrite Hc.
    + simpl. apply N.eqb_neq in HfV. rewrite HfV. simpl. exact Ht.
    + unfold round. simpl. repeat constructor; auto.
Qed.

(* ---------- the schedule is reachable: one worker, any configuration ---------- *)
(* the worker finds the queue empty and waits; peer 1 submits request 1 (the signal wakes the worker,
   which starts it) and two more; then the light peer 2 submits its only request *)
Definition prefix1 : list label :=
  [LPop 0 None; LPush 1 1 0%Z; LWakeSig 0 (Some 1); LPush 1 2 0%Z; LPush 1 3 0%Z; LPush 2 1 0%Z].

Definition not_served (V : peer) (e : event) : bool :=
  match e with EStart p _ | ERemove p _ => negb (N.eqb p V) | _ => true end.

Lemma reach1 cfg :
  exists s evs v, run cfg (init 1) prefix1 = Some (s, evs) /\ Starve 2 4 s /\
    existsb (fun e => match e with EPush 2 1 => true | _ => false end) evs = true /\
    forallb (not_served 2) evs = true /\ length (filter is_start evs) = 1%nat /\
    aget 2 (st_trk s) = Some {| tr_pending := [v]; tr_active := []; tr_freeze := 0 |} /\ t_topic v = 1.
Proof.
  destruct cfg as [m ig].
  assert (R : exists s evs, run {| c_maxpp := m; c_ignore_freeze := ig |} (init 1) prefix1 = Some (s, evs) /\
              s = {| st_trk := [(1, {| tr_pending := [ {| t_id := 1; t_topic := 2; t_prio := 0 |}; {| t_id := 2; t_topic := 3; t_prio := 0 |} ];
                                     tr_active := [ {| t_id := 0; t_topic := 1; t_prio := 0 |} ]; tr_freeze := 0 |});
                                 (2, {| tr_pending := [ {| t_id := 3; t_topic := 1; t_prio := 0 |} ]; tr_active := []; tr_freeze := 0 |})];
                     st_next := 4; st_sig := true; st_w := [WRunning 1 {| t_id := 0; t_topic := 1; t_prio := 0 |}];
                     gh_created := [(1, 0); (1, 1); (1, 2); (2, 3)]; gh_removed := []; gh_started := [(1, 0)]; gh_done := [] |} /\
              evs = [EPush 1 1; EStart 1 1; EPush 1 2; EPush 1 3; EPush 2 1]).
  { destruct m as [|m]; eexists; eexists; (split; [vm_compute; reflexivity | split; reflexivity]). }
  destruct R as (s & evs & R & -> & ->).
  eexists; eexists; exists {| t_id := 3; t_topic := 1; t_prio := 0 |}.
  split; [exact R|]. split; [|repeat split].
  constructor; cbn [st_trk st_next st_w].
  - eexists; reflexivity.
  - constructor; [|constructor; [|constructor]].
    + right. split; [simpl; discriminate|]. unfold flooder_ok, npend, nact; simpl.
      split; [reflexivity|]. split; [lia|]. split; [reflexivity|].
      split; [repeat constructor; simpl; intuition discriminate | repeat constructor; simpl; lia].
    + left. split; [reflexivity|]. eexists; reflexivity.
  - simpl; lia.
  - intros [|j] x H; simpl in H.
    + inversion H; subst. do 3 eexists. split; [reflexivity|]. split; [discriminate|]. split; reflexivity.
    + destruct j; discriminate.
  - intros [|i] [|j] p t p' t' Hij Hi Hj; simpl in Hi, Hj; try congruence; try (destruct i; discriminate); destruct j; discriminate.
Qed.

(* C21's fairness clause is false of the model: for every configuration there are runs of any length
   in which the light peer's request was submitted, is never removed and never executed, stays
   queued with its peer neither frozen nor at its limit (nothing active), while the single worker
   becomes free and starts another task [n] more times. *)
Theorem refuted cfg n :
  exists ls s evs v,
    run cfg (init 1) ls = Some (s, evs) /\
    existsb (fun e => match e with EPush 2 1 => true | _ => false end) evs = true /\
    forallb (not_served 2) evs = true /\
    (n < length (filter is_start evs))%nat /\
    aget 2 (st_trk s) = Some {| tr_pending := [v]; tr_active := []; tr_freeze := 0 |} /\ t_topic v = 1 /\
    Forall (fun l => match l with LRemove _ _ => False | _ => True end) ls.
Proof.
  destruct (reach1 cfg) as (s0 & e0 & v & R0 & St0 & Hp & Hs0 & Hc0 & Hv & Hvt).
  destruct (starvation cfg 2 n 4 s0 St0) as (ls & s1 & e1 & R1 & _ & HV & Hc1 & Ht1 & Hl1).
  exists (prefix1 ++ ls), s1, (e0 ++ e1), v.
  split; [eapply run_app; eauto|]. split; [|split; [|split; [|split; [|split]]]].
  - rewrite existsb_app, Hp. reflexivity.
  - rewrite forallb_app, Hs0. simpl. rewrite forallb_forall in Ht1 |- *. intros e He. specialize (Ht1 e He).
    destruct e; simpl in *; auto.
  - rewrite filter_app, app_length, Hc0, Hc1. lia.
  - now rewrite HV.
  - exact Hvt.
  - apply Forall_app; split.
    + unfold prefix1. repeat constructor.
    + eapply Forall_impl; [|exact Hl1]. intros [] H; auto.
Qed.

(* ============================================================================================ *)
(* Progress, part 1 (no stuck worker).  A tracker is eligible when it has a queued task, is not
   frozen and is below the per-peer maximum.  Whatever tracker the heap presents (any tracker that no
   other one strictly precedes), if SOME tracker is eligible then the presented one is eligible too,
   so the pop hands out a task: a free worker never comes back empty-handed while an eligible
   request is queued. *)
Definition eligible (maxpp : nat) (t : tracker) : Prop :=
  tr_pending t <> [] /\ tr_freeze t = O /\ (maxpp = O \/ (nact t < maxpp)%nat).

Lemma top_eligible maxpp a b : eligible maxpp a -> peer_cmp a b = false -> eligible maxpp b.
Proof.
  intros (Hp & Hf & Hm). unfold peer_cmp.
  assert (Ha : npend a <> O) by (unfold npend; destruct (tr_pending a); [congruence | simpl; lia]).
  destruct (Nat.eqb_spec (npend a) 0); [contradiction|].
  destruct (Nat.eqb_spec (npend b) 0); [discriminate|].
  rewrite Hf. replace (Nat.ltb (tr_freeze b) 0) with false by (symmetry; apply Nat.ltb_ge; lia).
  destruct (Nat.ltb_spec 0 (tr_freeze b)) as [Hlt0|Hge0]; [discriminate|].
  assert (Hb : tr_pending b <> []) by (intro E; unfold npend in *; rewrite E in *; simpl in *; lia).
  destruct (Nat.eqb_spec (nact a) (nact b)) as [E|E]; intro Hr.
  - repeat split; [exact Hb | lia | destruct Hm; [now left | right; lia]].
  - apply Nat.ltb_ge in Hr. repeat split; [exact Hb | lia | destruct Hm; [now left | right; lia]].
Qed.

Lemma tr_pop_eligible maxpp t : eligible maxpp t -> exists b t', tr_pop maxpp t = (Some b, t').
Proof.
  intros (Hp & Hf & Hm). destruct (best_some _ Hp) as [b Eb]. unfold tr_pop. rewrite Eb, Hf. simpl.
  destruct Hm as [->|Hlt]; [simpl; eauto|].
  replace (Nat.leb maxpp (nact t)) with false by (symmetry; apply Nat.leb_gt; exact Hlt).
  rewrite andb_false_r. eauto.
Qed.

Theorem pop_takes_one cfg trk p q tq :
  is_top trk p = true -> In (q, tq) trk -> eligible (c_maxpp cfg) tq ->
  exists trk' x, pop_tasks cfg trk (Some p) = Some (trk', Some (p, x)).
Proof.
  intros Htop Hin Hel. unfold pop_tasks. rewrite Htop. unfold is_top in Htop.
  destruct (aget p trk) as [tp|]; [|discriminate].
  rewrite forallb_forall in Htop. specialize (Htop _ Hin). simpl in Htop. apply negb_true_iff in Htop.
  destruct (tr_pop_eligible _ _ (top_eligible _ _ _ Hel Htop)) as (b & t' & E). rewrite E. eauto.
Qed.

(* the same at the level of the worker loop: a worker at the loop top, and a waiting worker that
   receives a tick, start a task whenever an eligible request is queued *)
Lemma thaw_round_in trk q tq : In (q, tq) trk -> tr_freeze tq = O -> In (q, tq) (thaw_round trk).
Proof.
  intros Hin Hf. unfold thaw_round. apply in_map_iff. exists (q, tq). split; [|exact Hin]. simpl. now rewrite Hf.
Qed.

Theorem no_stuck_pop cfg s w top q tq :
  nth_error (st_w s) w = Some WReady -> In (q, tq) (st_trk s) -> eligible (c_maxpp cfg) tq ->
  top <> None -> (forall p, top = Some p -> is_top (st_trk s) p = true) ->
  exists s' p tp, step cfg s (LPop w top) = Some (s', [EStart p tp]).
Proof.
  intros Hw Hin Hel Hn Htop. destruct top as [p|]; [|congruence]. cbn -[pop_tasks after_pop]. rewrite Hw.
  destruct (pop_takes_one cfg _ p q tq (Htop p eq_refl) Hin Hel) as (trk' & x & E). rewrite E.
  unfold after_pop. simpl. eauto.
Qed.

Theorem no_stuck_tick cfg s w top q tq :
  nth_error (st_w s) w = Some WWaiting -> In (q, tq) (st_trk s) -> eligible (c_maxpp cfg) tq ->
  top <> None -> (forall p, top = Some p -> is_top (thaw_round (st_trk s)) p = true) ->
  exists s' p tp, step cfg s (LWakeTick w top) = Some (s', [EStart p tp]).
Proof.
  intros Hw Hin Hel Hn Htop. destruct top as [p|]; [|congruence]. cbn -[pop_tasks after_pop thaw_round]. rewrite Hw.
  assert (Hin' : In (q, tq) (thaw_round (st_trk s))) by (apply thaw_round_in; [exact Hin | apply Hel]).
  destruct (pop_takes_one cfg _ p q tq (Htop p eq_refl) Hin' Hel) as (trk' & x & E). rewrite E.
  unfold after_pop. simpl. eauto.
Qed.

(* a tick brings every frozen tracker strictly closer to being thawed *)
Lemma thaw_decreases t : tr_freeze t <> O -> (tr_freeze (thaw t) < tr_freeze t)%nat.
Proof.
  unfold thaw; cbn [tr_freeze]. intro H.
  destruct (tr_freeze t) as [|f]; [congruence|].
  assert (Hd : (1 <= Nat.div (S f + 1) 2)%nat).
  { change 1%nat with (Nat.div 2 2) at 1. apply Nat.div_le_mono; lia. }
  remember (Nat.div (S f + 1) 2) as d eqn:Ed. clear Ed. lia.
Qed.
