(* ResponderPauseCheck.v — the responder pause model against the driver's responder-pause cases
   (PauseExec.rpcase, driver rpause of d_loader): metadata and blocks on the wire, and whether the RequestPaused
   status was seen.  Definitions only. *)
From Coq Require Import List NArith Bool.
From GS Require Import Base Ltree RecLoader ReqExec PauseExec.
From GS Require Responder ResponderPause.
Import ListNotations.
Open Scope N_scope.

Definition md_bool (e : cid * action) : cid * bool := (fst e, match snd e with Present => true | _ => false end).
(* The case term does not say how the pause was requested: [rp_block] = k > 0 is a hook pause at block k
   (compared in full); with [rp_block] = 0 the pause, if one was seen, came through the API at a point the term
   does not record: then only the stream (metadata, blocks), which must not depend on it, is compared. *)
Definition rpcase_model_ok (c : rpcase) : bool :=
  let ms := ResponderPause.rp_model (rp_plan c) (rp_R c) (if rp_paused_seen c then rp_block c else 0) in
  list_eqb Responder.pair_eqb (flat_map Responder.wm_md ms) (map md_bool (rp_md c)) &&
  (* (the blocks of one wire message are a map: compared as a set) *)
  list_eqb N.eqb (fold_right insert_sorted [] (flat_map Responder.wm_blocks ms)) (fold_right insert_sorted [] (rp_blocks c)) &&
  (N.eqb (rp_block c) 0 || negb (rp_paused_seen c) ||
   existsb (fun m => N.eqb (Responder.wm_status m) ResponderPause.st_paused) ms).
