(* MsgQueue16Proofs.v — C16: every attachment present when its message is extracted (or drained) gets exactly
   one terminal report and then its close; nothing else; at quiescence nothing is pending. *)
From Coq Require Import List NArith Bool Lia Arith PeanoNat.
From GS Require Import Base MsgQueue MsgQueueProofs MsgQueue16.
Import ListNotations.
Open Scope N_scope.
Local Arguments N.add : simpl never.
Local Arguments N.sub : simpl never.

(* ---------- lists of strictly increasing topics within [lo, hi) ---------- *)
Fixpoint incr (lo hi : N) (l : list N) : Prop :=
  match l with [] => lo <= hi | t :: r => lo <= t /\ incr (t + 1) hi r end.

Lemma incr_le lo hi l : incr lo hi l -> lo <= hi.
Proof. revert lo; induction l as [|t l IH]; intros lo H; simpl in H; [exact H|]. destruct H as [A B]. apply IH in B. lia. Qed.
Lemma incr_weaken lo lo' hi l : lo' <= lo -> incr lo hi l -> incr lo' hi l.
Proof. destruct l; simpl; intros; [lia | intuition lia]. Qed.
Lemma incr_in lo hi l t : incr lo hi l -> In t l -> lo <= t /\ t < hi.
Proof.
  revert lo; induction l as [|x l IH]; intros lo H Hin; [contradiction|]. simpl in H. destruct H as [A B].
  destruct Hin as [->|Hin]; [apply incr_le in B; lia | destruct (IH _ B Hin); lia].
Qed.
Lemma incr_snoc lo hi l : incr lo hi l -> incr lo (hi + 1) (l ++ [hi]).
Proof. revert lo; induction l as [|x l IH]; intros lo H; simpl in *; [lia|]. destruct H; split; auto. Qed.
Lemma incr_hi lo hi hi' l : hi <= hi' -> incr lo hi l -> incr lo hi' l.
Proof. revert lo; induction l as [|x l IH]; intros lo Hh H; simpl in *; [lia|]. destruct H; split; eauto. Qed.

Definition topics (bs : list bld) : list N := map b_topic bs.
Definition qlowb (bs : list bld) (nt : N) : N := match bs with b :: _ => b_topic b | [] => nt end.

Lemma incr_qlow lo nt bs : incr lo nt (topics bs) -> lo <= qlowb bs nt /\ qlowb bs nt <= nt.
Proof. destruct bs as [|b bs]; simpl; [lia|]. intros [A B]. apply incr_le in B. lia. Qed.
Lemma incr_in_b lo nt bs b : incr lo nt (topics bs) -> In b bs -> qlowb bs nt <= b_topic b /\ b_topic b < nt.
Proof.
  intros H Hin. destruct bs as [|b0 bs]; [contradiction|]. simpl. destruct Hin as [->|Hin].
  - simpl in H. destruct H as [_ H]. apply incr_le in H. lia.
  - simpl in H. destruct H as [_ H]. assert (In (b_topic b) (topics bs)) by now apply in_map.
    destruct (incr_in _ _ _ _ H H0). lia.
Qed.

Lemma incr_filter_map lo hi (f : bld -> bool) (g : bld -> bld) bs :
  (forall b, b_topic (g b) = b_topic b) -> incr lo hi (topics bs) -> incr lo hi (topics (filter f (map g bs))).
Proof.
  intro Hg. revert lo. induction bs as [|b bs IH]; intros lo H; simpl in *; [exact H|]. destruct H as [A B].
  destruct (f (g b)); simpl.
  - rewrite Hg. split; [exact A | apply IH, B].
  - apply IH. eapply incr_weaken; [|exact B]. lia.
Qed.

Lemma skip_empty_incr lo hi bs : incr lo hi (topics bs) -> incr lo hi (topics (skip_empty bs)).
Proof.
  revert lo. induction bs as [|b bs IH]; intros lo H; simpl in *; [exact H|]. destruct H as [A B].
  destruct (bld_empty b); [apply IH; eapply incr_weaken; [|exact B]; lia | simpl; auto].
Qed.
Lemma skip_empty_in b bs : In b (skip_empty bs) -> In b bs.
Proof. induction bs as [|x bs IH]; simpl; [auto|]. destruct (bld_empty x); [right; auto | auto]. Qed.
Lemma skip_empty_keeps b bs : In b bs -> bld_empty b = false -> In b (skip_empty bs).
Proof.
  induction bs as [|x bs IH]; simpl; [auto|]. intros [->|Hin] He.
  - rewrite He. now left.
  - destruct (bld_empty x); [auto | now right].
Qed.
Lemma skip_empty_qlow lo nt bs : incr lo nt (topics bs) -> qlowb bs nt <= qlowb (skip_empty bs) nt.
Proof.
  intro H. destruct bs as [|b bs]; [simpl; lia|].
  pose proof (skip_empty_incr _ _ _ H) as H1. simpl in H. destruct H as [_ H].
  simpl skip_empty. destruct (bld_empty b); [|simpl; lia].
  apply skip_empty_incr in H. apply incr_qlow in H. simpl. lia.
Qed.

(* ---------- projections of the event history ---------- *)
Lemma proj_app r t E1 E2 : proj r t (E1 ++ E2) = proj r t E1 ++ proj r t E2.
Proof. unfold proj. now rewrite filter_app, map_app. Qed.

Lemma mem_req_in r l : mem_req r l = true <-> In r l.
Proof. apply existsb_eqb_in'. Qed.
Lemma mem_req_false r l : mem_req r l = false <-> ~ In r l.
Proof. rewrite <- mem_req_in. destruct (mem_req r l); split; intro; congruence. Qed.

Lemma filter_eq_nodup {B} (g : req -> B) r l : NoDup l ->
  map g (filter (fun x => N.eqb x r) l) = if mem_req r l then [g r] else [].
Proof.
  induction l as [|x l IH]; intro H; [reflexivity|]. inversion H as [|? ? Hn Hd]; subst.
  simpl. unfold mem_req in *. simpl. rewrite (N.eqb_sym r x). destruct (N.eqb_spec x r) as [->|Hne]; simpl.
  - rewrite IH by assumption. destruct (existsb (N.eqb r) l) eqn:E; [|reflexivity].
    apply existsb_eqb_in' in E. contradiction.
  - apply IH; assumption.
Qed.

Lemma proj_evs (f : req -> N -> qev) kf b r t :
  (forall r' t', ev_req (f r' t') = r' /\ ev_topic (f r' t') = t' /\ ev_kind (f r' t') = kf) ->
  NoDup (subs_of b) ->
  proj r t (evs f b) = if N.eqb t (b_topic b) && mem_req r (subs_of b) then [kf] else [].
Proof.
  intros Hf Hn. unfold proj, evs.
  assert (E : forall l, map ev_kind (filter (fun e => N.eqb (ev_req e) r && N.eqb (ev_topic e) t) (map (fun r' => f r' (b_topic b)) l)) =
                        if N.eqb t (b_topic b) then map (fun _ => kf) (filter (fun x => N.eqb x r) l) else []).
  { induction l as [|x l IH]; simpl; [destruct (N.eqb t (b_topic b)); reflexivity|].
    destruct (Hf x (b_topic b)) as (A & B & C). rewrite A, B, (N.eqb_sym (b_topic b) t).
    destruct (N.eqb t (b_topic b)); [|rewrite andb_false_r; exact IH].
    rewrite andb_true_r. destruct (N.eqb x r); simpl; [rewrite C, IH; reflexivity | exact IH]. }
  rewrite E. destruct (N.eqb t (b_topic b)); [|reflexivity].
  cbn [andb]. apply (filter_eq_nodup (fun _ => kf) r _ Hn).
Qed.

Lemma evq_ok : forall r' t', ev_req (EvQueued r' t') = r' /\ ev_topic (EvQueued r' t') = t' /\ ev_kind (EvQueued r' t') = 0.
Proof. intros; repeat split. Qed.
Lemma evs_ok : forall r' t', ev_req (EvSent r' t') = r' /\ ev_topic (EvSent r' t') = t' /\ ev_kind (EvSent r' t') = 1.
Proof. intros; repeat split. Qed.
Lemma eve_ok : forall r' t', ev_req (EvError r' t') = r' /\ ev_topic (EvError r' t') = t' /\ ev_kind (EvError r' t') = 2.
Proof. intros; repeat split. Qed.
Lemma evc_ok : forall r' t', ev_req (EvClosed r' t') = r' /\ ev_topic (EvClosed r' t') = t' /\ ev_kind (EvClosed r' t') = 3.
Proof. intros; repeat split. Qed.

(* ---------- the invariant ---------- *)
(* [p]: the message the goroutine holds outside the queue (extracted and in flight, or taken by the drain)
   together with what its subscribers have been told so far: [0] (announced) or [] (drain) *)
Definition pend := option (bld * list N).
Definition plo (p : pend) : N := match p with Some (b, _) => b_topic b + 1 | None => 0 end.
Definition k0_ok (k : list N) : Prop := k = [] \/ k = [0].

Record Inv (p : pend) (bs : list bld) (nt : N) (cl : list req) (E : list qev) (A : list att) : Prop := {
  i_incr : incr (plo p) nt (topics bs);
  i_nd : Forall (fun b => NoDup (subs_of b)) bs;
  i_ndp : forall b k, p = Some (b, k) -> NoDup (subs_of b) /\ k0_ok k;
  i_e1 : forall r t, qlowb bs nt <= t -> proj r t E = [];
  i_e2 : forall b k, p = Some (b, k) -> forall r, proj r (b_topic b) E = if mem_req r (subs_of b) then k else [];
  i_e3 : forall r t, t < qlowb bs nt -> (forall b k, p = Some (b, k) -> t <> b_topic b) ->
           proj r t E = [] \/ Complete (proj r t E);
  i_a1 : forall b r, In b bs -> In r (subs_of b) -> exists c, In (r, (b_topic b, c)) A;
  i_a1p : forall b k r, p = Some (b, k) -> In r (subs_of b) -> exists c, In (r, (b_topic b, c)) A;
  i_a2 : forall r t, proj r t E <> [] -> exists c, In (r, (t, c)) A;
  i_a3 : forall r t, In (r, (t, true)) A ->
      (exists b, In b bs /\ b_topic b = t /\ In r (subs_of b) /\ aget r (b_resp b) <> None)
   \/ (exists b k, p = Some (b, k) /\ b_topic b = t /\ In r (subs_of b))
   \/ Complete (proj r t E)
   \/ (mem_req r cl = true /\ exists t', t' < t /\ In (EvError r t') E);
  i_a4 : forall r t c, In (r, (t, c)) A -> t < nt
}.

Definition InvS (p : pend) (s : mq) (E : list qev) (A : list att) : Prop :=
  Inv p (builders s) (next_topic s) (closed s) E A.

Lemma inv_new : Inv None [] 0 [] [] [].
Proof.
  constructor; simpl; try (intros; contradiction); try (intros; discriminate); try constructor; try lia; auto.
Qed.

Lemma complete_not_k0 k : Complete k -> k0_ok k -> False.
Proof. intros [->|[->| ->]] [H|H]; discriminate. Qed.

(* ---------- the builder's own operations ---------- *)
Lemma apply_op_subs r b o : b_subs (apply_op r b o) = b_subs b.
Proof. destruct o as [l size has|size|c]; reflexivity. Qed.
Lemma apply_op_topic r b o : b_topic (apply_op r b o) = b_topic b.
Proof. destruct o as [l size has|size|c]; reflexivity. Qed.
Lemma fold_apply_subs r ops : forall b, b_subs (fold_left (apply_op r) ops b) = b_subs b.
Proof. induction ops as [|o ops IH]; intro b; simpl; [reflexivity | rewrite IH; apply apply_op_subs]. Qed.
Lemma fold_apply_topic r ops : forall b, b_topic (fold_left (apply_op r) ops b) = b_topic b.
Proof. induction ops as [|o ops IH]; intro b; simpl; [reflexivity | rewrite IH; apply apply_op_topic]. Qed.
Lemma build_ops_topic r ops b : b_topic (build_ops r ops b) = b_topic b.
Proof. unfold build_ops. simpl. apply fold_apply_topic. Qed.
Lemma build_ops_subs r ops b : subs_of (build_ops r ops b) = map fst (aput r tt (b_subs b)).
Proof. unfold subs_of, build_ops. simpl. now rewrite fold_apply_subs. Qed.
Lemma build_ops_subs_in r ops b r' : In r' (subs_of (build_ops r ops b)) <-> In r' (subs_of b) \/ r' = r.
Proof.
  rewrite build_ops_subs, keys_aput. unfold subs_of.
  match goal with |- context [if ?c then _ else _] => destruct c eqn:E end.
  - apply existsb_eqb_in' in E. split; [intro H; left; exact H | intros [H| ->]; [exact H | exact E]].
  - rewrite in_app_iff. simpl. split; [intros [H|[H|[]]]; [left; exact H | right; symmetry; exact H] | intros [H| ->]; [left; exact H | right; left; reflexivity]].
Qed.

Lemma apply_op_resp_mono r b o r' : aget r' (b_resp b) <> None -> aget r' (b_resp (apply_op r b o)) <> None.
Proof.
  intro H. destruct o as [l size has|size|c]; simpl.
  - destruct (N.eq_dec r r') as [->|Hne]; [rewrite aget_aput_eq; discriminate | rewrite aget_aput_neq; auto].
  - destruct (aget r (b_resp b)) eqn:E; [exact H|].
    destruct (N.eq_dec r r') as [->|Hne]; [rewrite aget_aput_eq; discriminate | rewrite aget_aput_neq; auto].
  - destruct (aget r (b_resp b)) eqn:E; [exact H|].
    destruct (N.eq_dec r r') as [->|Hne]; [rewrite aget_aput_eq; discriminate | rewrite aget_aput_neq; auto].
Qed.
Lemma apply_op_resp_self r b o : aget r (b_resp (apply_op r b o)) <> None.
Proof.
  destruct o as [l size has|size|c]; simpl.
  - rewrite aget_aput_eq; discriminate.
  - destruct (aget r (b_resp b)) eqn:E; [rewrite E; discriminate | rewrite aget_aput_eq; discriminate].
  - destruct (aget r (b_resp b)) eqn:E; [rewrite E; discriminate | rewrite aget_aput_eq; discriminate].
Qed.
Lemma fold_apply_resp_mono r ops r' : forall b, aget r' (b_resp b) <> None -> aget r' (b_resp (fold_left (apply_op r) ops b)) <> None.
Proof. induction ops as [|o ops IH]; intros b H; simpl; [exact H | apply IH, apply_op_resp_mono, H]. Qed.
Lemma build_ops_resp_mono r ops b r' : aget r' (b_resp b) <> None -> aget r' (b_resp (build_ops r ops b)) <> None.
Proof. unfold build_ops. simpl. apply fold_apply_resp_mono. Qed.
Lemma build_ops_resp_self r ops b : has_ops ops = true -> aget r (b_resp (build_ops r ops b)) <> None.
Proof.
  unfold build_ops. simpl. destruct ops as [|o ops]; [discriminate|]. intros _. simpl.
  apply fold_apply_resp_mono, apply_op_resp_self.
Qed.

(* updating the last builder *)
Lemma upd_last_topics f bs : (forall b, b_topic (f b) = b_topic b) -> topics (upd_last f bs) = topics bs.
Proof.
  intro Hf. induction bs as [|b bs IH]; [reflexivity|]. destruct bs as [|b2 bs]; [simpl; now rewrite Hf|].
  change (topics (upd_last f (b :: b2 :: bs))) with (b_topic b :: topics (upd_last f (b2 :: bs))). rewrite IH. reflexivity.
Qed.
Lemma upd_last_in f bs b : In b (upd_last f bs) ->
  (In b bs /\ last_opt bs <> Some b) \/ (exists l, last_opt bs = Some l /\ b = f l) \/ In b bs.
Proof.
  induction bs as [|x bs IH]; [contradiction|]. destruct bs as [|b2 bs].
  - simpl. intros [<-|[]]. right. left. eauto.
  - change (upd_last f (x :: b2 :: bs)) with (x :: upd_last f (b2 :: bs)).
    change (last_opt (x :: b2 :: bs)) with (last_opt (b2 :: bs)). intros [<-|Hin].
    + right. right. now left.
    + destruct (IH Hin) as [[A B]|[(l & A & B)|A]].
      * right. right. now right.
      * right. left. eauto.
      * right. right. now right.
Qed.
Lemma upd_last_in' f bs b : In b (upd_last f bs) -> In b bs \/ exists l, last_opt bs = Some l /\ b = f l.
Proof. intro H. destruct (upd_last_in f bs b H) as [[A _]|[B|A]]; auto. Qed.
Lemma last_opt_in bs l : last_opt bs = Some l -> In l bs.
Proof.
  induction bs as [|x bs IH]; [discriminate|]. destruct bs as [|b2 bs].
  - intro E. inversion E. now left.
  - change (last_opt (x :: b2 :: bs)) with (last_opt (b2 :: bs)). intro E. right. auto.
Qed.
(* every old builder is still there, possibly updated *)
Lemma upd_last_old f bs b : In b bs -> In b (upd_last f bs) \/ (last_opt bs = Some b /\ In (f b) (upd_last f bs)).
Proof.
  induction bs as [|x bs IH]; [contradiction|]. destruct bs as [|b2 bs].
  - simpl. intros [->|[]]. right. split; [reflexivity | now left].
  - change (upd_last f (x :: b2 :: bs)) with (x :: upd_last f (b2 :: bs)).
    change (last_opt (x :: b2 :: bs)) with (last_opt (b2 :: bs)). intros [->|Hin]; [left; now left|].
    destruct (IH Hin) as [A|[A B]]; [left; now right | right; split; [exact A | now right]].
Qed.
Lemma upd_last_last_in f bs l : last_opt bs = Some l -> In (f l) (upd_last f bs).
Proof.
  induction bs as [|x bs IH]; [discriminate|]. destruct bs as [|b2 bs].
  - intro E. inversion E. now left.
  - change (upd_last f (x :: b2 :: bs)) with (x :: upd_last f (b2 :: bs)).
    change (last_opt (x :: b2 :: bs)) with (last_opt (b2 :: bs)). intro E. right. auto.
Qed.
Lemma upd_last_qlow f bs nt : (forall b, b_topic (f b) = b_topic b) -> qlowb (upd_last f bs) nt = qlowb bs nt.
Proof.
  intro Hf. destruct bs as [|b bs]; [reflexivity|]. destruct bs as [|b2 bs]; [simpl; apply Hf | reflexivity].
Qed.

(* ---------- a transaction ---------- *)
Lemma qlowb_snoc bs nt x : b_topic x = nt -> qlowb (bs ++ [x]) (nt + 1) = qlowb bs nt.
Proof. intro H. destruct bs; simpl; auto. Qed.

Lemma inv_add_new p bs nt cl E A : Inv p bs nt cl E A -> Inv p (bs ++ [bld_new nt]) (nt + 1) cl E A.
Proof.
  intros [Hincr Hnd Hndp He1 He2 He3 Ha1 Ha1p Ha2 Ha3 Ha4]. constructor.
  - unfold topics. rewrite map_app. simpl. apply incr_snoc, Hincr.
  - apply Forall_app. split; [exact Hnd | constructor; [constructor | constructor]].
  - exact Hndp.
  - intros r t. rewrite qlowb_snoc by reflexivity. apply He1.
  - exact He2.
  - intros r t. rewrite qlowb_snoc by reflexivity. apply He3.
  - intros b r Hin Hr. apply in_app_or in Hin. destruct Hin as [Hin|[<-|[]]]; [eauto | contradiction].
  - exact Ha1p.
  - exact Ha2.
  - intros r t Hin. destruct (Ha3 r t Hin) as [(b & B1 & B2)|H]; [left; exists b; split; [apply in_or_app; now left | exact B2] | right; exact H].
  - intros r t c Hin. specialize (Ha4 r t c Hin). lia.
Qed.

Lemma inv_upd_last p bs nt cl E A r ops l : Inv p bs nt cl E A -> last_opt bs = Some l ->
  Inv p (upd_last (build_ops r ops) bs) nt cl E (A ++ [(r, (b_topic l, has_ops ops))]).
Proof.
  intros [Hincr Hnd Hndp He1 He2 He3 Ha1 Ha1p Ha2 Ha3 Ha4] Hl.
  pose proof (build_ops_topic r ops) as Ht.
  constructor.
  - rewrite upd_last_topics by exact Ht. exact Hincr.
  - apply upd_last_forall; [|exact Hnd]. intros b Hb. rewrite build_ops_subs. apply nodup_aput. exact Hb.
  - exact Hndp.
  - intros r' t. rewrite upd_last_qlow by exact Ht. apply He1.
  - exact He2.
  - intros r' t. rewrite upd_last_qlow by exact Ht. apply He3.
  - intros b r' Hin Hr. destruct (upd_last_in' _ _ _ Hin) as [Hb|(l' & El & ->)].
    + destruct (Ha1 b r' Hb Hr) as [c Hc]. exists c. apply in_or_app. now left.
    + rewrite Hl in El. inversion El; subst l'. rewrite Ht. apply build_ops_subs_in in Hr. destruct Hr as [Hr| ->].
      * destruct (Ha1 l r' (last_opt_in _ _ Hl) Hr) as [c Hc]. exists c. apply in_or_app. now left.
      * exists (has_ops ops). apply in_or_app. right. now left.
  - intros b k r' Hp Hr. destruct (Ha1p b k r' Hp Hr) as [c Hc]. exists c. apply in_or_app. now left.
  - intros r' t Hne. destruct (Ha2 r' t Hne) as [c Hc]. exists c. apply in_or_app. now left.
  - intros r' t Hin. apply in_app_or in Hin. destruct Hin as [Hin|[Heq|[]]].
    + destruct (Ha3 r' t Hin) as [(b & B1 & B2 & B3 & B4)|H]; [|right; exact H]. left.
      destruct (upd_last_old (build_ops r ops) bs b B1) as [Hb|[_ Hb]].
      * exists b. auto.
      * exists (build_ops r ops b). rewrite Ht. repeat split; auto.
        -- apply build_ops_subs_in. now left.
        -- apply build_ops_resp_mono, B4.
    + inversion Heq; subst r' t. left. exists (build_ops r ops l). rewrite Ht. repeat split.
      * apply upd_last_last_in, Hl.
      * apply build_ops_subs_in. now right.
      * apply build_ops_resp_self. congruence.
  - intros r' t c Hin. apply in_app_or in Hin. destruct Hin as [Hin|[Heq|[]]]; [eauto|].
    inversion Heq; subst. destruct (incr_in_b _ _ _ _ Hincr (last_opt_in _ _ Hl)). assumption.
Qed.

Definition attach_build (s : mq) (r : req) (ops : list top) : option att :=
  if mem_req r (closed s) || done s then None
  else Some (r, (last_topic (fst (do_build s r ops)), has_ops ops)).

Lemma do_build_inv p s r ops E A : InvS p s E A ->
  InvS p (fst (do_build s r ops)) E (A ++ opt_list (attach_build s r ops)) /\ snd (do_build s r ops) = out_nil.
Proof.
  unfold InvS, attach_build, last_topic. intro H. unfold do_build.
  destruct (mem_req r (closed s)); [simpl; rewrite app_nil_r; auto|].
  destruct (done s); [simpl; rewrite app_nil_r; auto|]. cbn [orb].
  set (need_new := match last_opt (builders s) with
                   | None => true
                   | Some last => if ops_size ops =? 0 then false else max_block_size <? b_blk last + ops_size ops end).
  assert (Hbs : let bsnt := if need_new then (builders s ++ [bld_new (next_topic s)], next_topic s + 1) else (builders s, next_topic s) in
                Inv p (fst bsnt) (snd bsnt) (closed s) E A /\ exists l, last_opt (fst bsnt) = Some l).
  { destruct need_new eqn:En; cbn [fst snd].
    - split; [apply inv_add_new, H | eexists; apply last_opt_snoc].
    - split; [exact H|]. unfold need_new in En. destruct (last_opt (builders s)) as [l|]; [eauto | discriminate]. }
  destruct (if need_new then (builders s ++ [bld_new (next_topic s)], next_topic s + 1) else (builders s, next_topic s)) as [bs nt].
  cbn [fst snd] in Hbs. destruct Hbs as (HI & l & Hl).
  destruct (upd_last_sum (build_ops r ops) bs l Hl) as [_ Hlast].
  cbn [fst snd builders next_topic closed]. rewrite Hlast. rewrite build_ops_topic. cbn [opt_list].
  split; [apply inv_upd_last; assumption | reflexivity].
Qed.

(* ---------- reporting the message held outside the queue ---------- *)
Lemma proj_final (f : req -> N -> qev) kf b r t E :
  (forall r' t', ev_req (f r' t') = r' /\ ev_topic (f r' t') = t' /\ ev_kind (f r' t') = kf) ->
  NoDup (subs_of b) ->
  proj r t (E ++ evs f b ++ evs EvClosed b) =
  proj r t E ++ (if N.eqb t (b_topic b) && mem_req r (subs_of b) then [kf; 3] else []).
Proof.
  intros Hf Hn. rewrite !proj_app, (proj_evs f kf b r t Hf Hn), (proj_evs EvClosed 3 b r t evc_ok Hn).
  destruct (N.eqb t (b_topic b) && mem_req r (subs_of b)); reflexivity.
Qed.

Lemma complete_final k kf : k0_ok k -> (kf = 1 /\ k = [0]) \/ kf = 2 -> Complete (k ++ [kf; 3]).
Proof. intros [->| ->] [[-> Hk]| ->]; try discriminate; unfold Complete; simpl; auto. Qed.

(* common part of publishSent / publishError: the topic of the pending message gets its terminal report and
   its close; the queued builders become [bs'] (unchanged, or scrubbed) *)
Lemma inv_report (f : req -> N -> qev) kf b k bs bs' nt cl cl' E A :
  (forall r' t', ev_req (f r' t') = r' /\ ev_topic (f r' t') = t' /\ ev_kind (f r' t') = kf) ->
  ((kf = 1 /\ k = [0]) \/ kf = 2) ->
  Inv (Some (b, k)) bs nt cl E A ->
  incr (b_topic b + 1) nt (topics bs') ->
  Forall (fun b => NoDup (subs_of b)) bs' ->
  (forall x r, In x bs' -> In r (subs_of x) -> exists y, In y bs /\ b_topic y = b_topic x /\ In r (subs_of y)) ->
  qlowb bs nt <= qlowb bs' nt ->
  (forall r t, In (r, (t, true)) A ->
     (exists y, In y bs /\ b_topic y = t /\ In r (subs_of y) /\ aget r (b_resp y) <> None) ->
     (exists x, In x bs' /\ b_topic x = t /\ In r (subs_of x) /\ aget r (b_resp x) <> None) \/
     (kf = 2 /\ mem_req r cl' = true /\ In r (subs_of b))) ->
  (forall r, mem_req r cl = true -> mem_req r cl' = true) ->
  Inv None bs' nt cl' (E ++ evs f b ++ evs EvClosed b) A.
Proof.
  intros Hf Hkf [Hincr Hnd Hndp He1 He2 He3 Ha1 Ha1p Ha2 Ha3 Ha4] Hincr' Hnd' Hsub Hq Hkeep Hcl.
  destruct (Hndp b k eq_refl) as [Hnb Hk].
  pose proof (incr_qlow _ _ _ Hincr) as [Hlo _]. cbn [plo] in Hlo.
  assert (Hp : forall r t, proj r t (E ++ evs f b ++ evs EvClosed b) =
                           proj r t E ++ (if N.eqb t (b_topic b) && mem_req r (subs_of b) then [kf; 3] else []))
    by (intros; apply proj_final; assumption).
  constructor.
  - eapply incr_weaken; [|exact Hincr']. cbn [plo]. lia.
  - exact Hnd'.
  - intros; discriminate.
  - intros r t Ht. rewrite Hp, He1 by lia. destruct (N.eqb_spec t (b_topic b)); [lia | reflexivity].
  - intros; discriminate.
  - intros r t Ht _. rewrite Hp. destruct (N.eqb_spec t (b_topic b)) as [->|Hne]; cbn [andb].
    + rewrite (He2 b k eq_refl r). destruct (mem_req r (subs_of b)); [right; apply complete_final; assumption | left; reflexivity].
    + rewrite app_nil_r. destruct (N.lt_ge_cases t (qlowb bs nt)) as [Hlt|Hge].
      * apply He3; [exact Hlt|]. intros b0 k0 Heq. inversion Heq; subst. exact Hne.
      * left. apply He1, Hge.
  - intros x r Hin Hr. destruct (Hsub x r Hin Hr) as (y & Y1 & Y2 & Y3). rewrite <- Y2. eauto.
  - intros; discriminate.
  - intros r t Hne. rewrite Hp in Hne. destruct (N.eq_dec t (b_topic b)) as [Heq|Hn].
    + subst t. destruct (mem_req r (subs_of b)) eqn:Em.
      * apply (Ha1p b k r eq_refl). apply mem_req_in, Em.
      * rewrite andb_false_r, app_nil_r in Hne. apply Ha2, Hne.
    + apply N.eqb_neq in Hn. rewrite Hn in Hne. cbn [andb] in Hne. rewrite app_nil_r in Hne. apply Ha2, Hne.
  - intros r t Hin. destruct (Ha3 r t Hin) as [Hq1|[(b0 & k0 & Heq & B2 & B3)|[Hc|(Hc1 & t' & Hc2 & Hc3)]]].
    + destruct (Hkeep r t Hin Hq1) as [Hx|(Hx0 & Hx1 & Hx2)]; [left; exact Hx|].
      right. right. right. split; [exact Hx1|]. exists (b_topic b). split.
      * destruct Hq1 as (y & Y1 & Y2 & _). destruct (incr_in_b _ _ _ _ Hincr Y1). lia.
      * apply in_or_app. right. apply in_or_app. left.
        assert (Hin2 : In (f r (b_topic b)) (evs f b)) by (unfold evs; apply in_map with (f := fun r' => f r' (b_topic b)); exact Hx2).
        assert (Hfe : f r (b_topic b) = EvError r (b_topic b)).
        { destruct (Hf r (b_topic b)) as (F1 & F2 & F3). rewrite Hx0 in F3.
          destruct (f r (b_topic b)); cbn in F1, F2, F3; subst; try discriminate. reflexivity. }
        rewrite <- Hfe. exact Hin2.
    + inversion Heq; subst b0 k0. right. right. left. rewrite Hp, <- B2, N.eqb_refl. cbn [andb].
      rewrite (He2 b k eq_refl r). apply mem_req_in in B3. rewrite B3. apply complete_final; assumption.
    + right. right. left. rewrite Hp. destruct (N.eq_dec t (b_topic b)) as [Heq|Hn];
        [|apply N.eqb_neq in Hn; rewrite Hn; cbn [andb]; rewrite app_nil_r; exact Hc].
      exfalso. subst t. rewrite (He2 b k eq_refl r) in Hc. destruct (mem_req r (subs_of b)); [exact (complete_not_k0 _ Hc Hk) | destruct Hc as [H|[H|H]]; discriminate].
    + right. right. right. split; [apply Hcl, Hc1|]. exists t'. split; [exact Hc2 | apply in_or_app; now left].
  - exact Ha4.
Qed.

Lemma inv_sent b bs nt cl E A : Inv (Some (b, [0])) bs nt cl E A ->
  Inv None bs nt cl (E ++ evs EvSent b ++ evs EvClosed b) A.
Proof.
  intro H. apply (inv_report EvSent 1 b [0] bs bs nt cl cl E A evs_ok); auto.
  - exact (i_incr _ _ _ _ _ _ H).
  - exact (i_nd _ _ _ _ _ _ H).
  - intros x r Hin Hr. eauto.
  - lia.
Qed.

(* scrubbing *)
Lemma map_fst_filter {V} (g : N -> bool) (m : list (N * V)) : map fst (filter (fun x => g (fst x)) m) = filter g (map fst m).
Proof. induction m as [|[k v] m IH]; simpl; [reflexivity|]. destruct (g k); simpl; now rewrite IH. Qed.
Lemma aget_filter_key {V} (g : N -> bool) k (m : list (N * V)) : aget k (filter (fun x => g (fst x)) m) = if g k then aget k m else None.
Proof.
  induction m as [|[q v] m IH]; simpl; [destruct (g k); reflexivity|].
  destruct (g q) eqn:Eq; simpl.
  - destruct (N.eqb_spec k q) as [->|Hne]; [now rewrite Eq | exact IH].
  - destruct (N.eqb_spec k q) as [->|Hne]; [rewrite Eq in *; exact IH | exact IH].
Qed.
Lemma scrub_topic rs x : b_topic (fst (scrub_bld rs x)) = b_topic x.
Proof. reflexivity. Qed.
Lemma scrub_subs rs x : subs_of (fst (scrub_bld rs x)) = filter (fun r => negb (mem_req r rs)) (subs_of x).
Proof. unfold subs_of, scrub_bld. cbn [fst b_subs]. apply (map_fst_filter (fun r => negb (mem_req r rs))). Qed.
Lemma scrub_resp rs x r : aget r (b_resp (fst (scrub_bld rs x))) = if negb (mem_req r rs) then aget r (b_resp x) else None.
Proof. unfold scrub_bld. cbn [fst b_resp]. apply (aget_filter_key (fun r => negb (mem_req r rs))). Qed.
Lemma aget_not_nil {V} k (m : list (N * V)) : aget k m <> None -> m <> [].
Proof. destruct m; [intro H; now contradiction H | discriminate]. Qed.

Lemma mem_req_app r a b : mem_req r (a ++ b) = mem_req r a || mem_req r b.
Proof. unfold mem_req. apply existsb_app. Qed.

Definition scrubbed_builders (rs : list req) (bs : list bld) : list bld :=
  filter (fun x => negb (bld_empty x)) (map fst (map (scrub_bld rs) bs)).

Lemma scrubbed_in rs bs x : In x (scrubbed_builders rs bs) -> exists y, In y bs /\ x = fst (scrub_bld rs y).
Proof.
  unfold scrubbed_builders. intro H. apply filter_In in H as [H _]. rewrite map_map in H.
  apply in_map_iff in H as (y & Ey & Hy). eauto.
Qed.

Lemma inv_error b k bs nt cl E A : Inv (Some (b, k)) bs nt cl E A ->
  Inv None (scrubbed_builders (subs_of b) bs) nt (cl ++ subs_of b) (E ++ evs EvError b ++ evs EvClosed b) A.
Proof.
  intro H. set (rs := subs_of b).
  pose proof (i_incr _ _ _ _ _ _ H) as Hincr. cbn [plo] in Hincr.
  assert (Hincr' : incr (b_topic b + 1) nt (topics (scrubbed_builders rs bs))).
  { unfold scrubbed_builders. rewrite map_map. apply incr_filter_map; [intro; apply scrub_topic | exact Hincr]. }
  apply (inv_report EvError 2 b k bs (scrubbed_builders rs bs) nt cl (cl ++ rs) E A eve_ok); auto.
  - apply Forall_forall. intros x Hx. apply scrubbed_in in Hx as (y & Hy & ->). rewrite scrub_subs.
    apply NoDup_filter. pose proof (i_nd _ _ _ _ _ _ H) as Hnd. rewrite Forall_forall in Hnd. apply Hnd, Hy.
  - intros x r Hx Hr. apply scrubbed_in in Hx as (y & Hy & ->). rewrite scrub_subs in Hr. apply filter_In in Hr as [Hr _].
    exists y. rewrite scrub_topic. auto.
  - destruct (scrubbed_builders rs bs) as [|x l] eqn:Es.
    + apply (incr_qlow _ _ _ Hincr).
    + assert (Hx : In x (scrubbed_builders rs bs)) by (rewrite Es; now left).
      apply scrubbed_in in Hx as (y & Hy & ->). cbn [qlowb]. rewrite scrub_topic. apply (incr_in_b _ _ _ _ Hincr Hy).
  - intros r t Hin (y & Y1 & Y2 & Y3 & Y4). destruct (mem_req r rs) eqn:Em.
    + right. split; [reflexivity|]. split; [|apply mem_req_in, Em].
      rewrite mem_req_app, Em. apply orb_true_r.
    + left. exists (fst (scrub_bld rs y)).
      assert (Hresp : aget r (b_resp (fst (scrub_bld rs y))) <> None) by (rewrite scrub_resp, Em; exact Y4).
      split; [|split; [exact Y2 | split; [|exact Hresp]]].
      * unfold scrubbed_builders. apply filter_In. split; [rewrite map_map; apply in_map with (f := fun z => fst (scrub_bld rs z)); exact Y1|].
        rewrite not_empty_of_resp; [reflexivity|]. apply (aget_not_nil r), Hresp.
      * rewrite scrub_subs. apply filter_In. split; [exact Y3 | rewrite Em; reflexivity].
  - intros r Hr. rewrite mem_req_app, Hr. reflexivity.
Qed.

(* ---------- taking a message off the queue ---------- *)
Lemma inv_skip bs nt cl E A : Inv None bs nt cl E A -> Inv None (skip_empty bs) nt cl E A.
Proof.
  intros [Hincr Hnd Hndp He1 He2 He3 Ha1 Ha1p Ha2 Ha3 Ha4].
  pose proof (skip_empty_qlow _ _ _ Hincr) as Hq.
  constructor.
  - apply skip_empty_incr, Hincr.
  - apply Forall_forall. intros x Hx. rewrite Forall_forall in Hnd. apply Hnd, skip_empty_in, Hx.
  - exact Hndp.
  - intros r t Ht. apply He1. lia.
  - exact He2.
  - intros r t Ht Hp. destruct (N.lt_ge_cases t (qlowb bs nt)) as [Hlt|Hge]; [apply He3; assumption | left; apply He1, Hge].
  - intros b r Hin. apply Ha1, skip_empty_in, Hin.
  - exact Ha1p.
  - exact Ha2.
  - intros r t Hin. destruct (Ha3 r t Hin) as [(b & B1 & B2 & B3 & B4)|Hr]; [left | right; exact Hr].
    exists b. repeat split; auto. apply skip_empty_keeps; [exact B1|]. apply not_empty_of_resp, (aget_not_nil r), B4.
  - exact Ha4.
Qed.

Lemma inv_take b rest nt cl E A : Inv None (b :: rest) nt cl E A -> Inv (Some (b, [])) rest nt cl E A.
Proof.
  intros [Hincr Hnd Hndp He1 He2 He3 Ha1 Ha1p Ha2 Ha3 Ha4].
  simpl in Hincr. destruct Hincr as [_ Hincr]. pose proof (incr_qlow _ _ _ Hincr) as [Hq _].
  inversion Hnd as [|? ? Hb Hnd']; subst.
  constructor.
  - exact Hincr.
  - exact Hnd'.
  - intros b0 k0 Heq. inversion Heq; subst. split; [exact Hb | now left].
  - intros r t Ht. apply He1. cbn [qlowb]. lia.
  - intros b0 k0 Heq r. inversion Heq; subst. rewrite He1 by (cbn [qlowb]; lia). destruct (mem_req r (subs_of b0)); reflexivity.
  - intros r t Ht Hp. destruct (N.lt_ge_cases t (b_topic b)) as [Hlt|Hge].
    + apply He3; [exact Hlt | intros; discriminate].
    + left. apply He1. exact Hge.
  - intros x r Hin. apply Ha1. now right.
  - intros b0 k0 r Heq. inversion Heq; subst. apply Ha1. now left.
  - exact Ha2.
  - intros r t Hin. destruct (Ha3 r t Hin) as [(x & B1 & B2 & B3 & B4)|[(b0 & k0 & Heq & _)|Hr]]; [|discriminate | right; right; exact Hr].
    destruct B1 as [<-|B1]; [right; left; exists b, []; auto | left; exists x; auto].
  - exact Ha4.
Qed.

Lemma inv_announce b bs nt cl E A : Inv (Some (b, [])) bs nt cl E A -> Inv (Some (b, [0])) bs nt cl (E ++ evs EvQueued b) A.
Proof.
  intros [Hincr Hnd Hndp He1 He2 He3 Ha1 Ha1p Ha2 Ha3 Ha4].
  destruct (Hndp b [] eq_refl) as [Hnb _]. pose proof (incr_qlow _ _ _ Hincr) as [Hq _]. cbn [plo] in Hq.
  assert (Hp : forall r t, proj r t (E ++ evs EvQueued b) = proj r t E ++ (if N.eqb t (b_topic b) && mem_req r (subs_of b) then [0] else []))
    by (intros; rewrite proj_app, (proj_evs EvQueued 0 b r t evq_ok Hnb); reflexivity).
  constructor.
  - exact Hincr.
  - exact Hnd.
  - intros b0 k0 Heq. inversion Heq; subst. split; [exact Hnb | now right].
  - intros r t Ht. rewrite Hp, He1 by exact Ht. destruct (N.eqb_spec t (b_topic b)); [lia | reflexivity].
  - intros b0 k0 Heq r. inversion Heq; subst b0 k0. rewrite Hp, (He2 b [] eq_refl r), N.eqb_refl. cbn [andb].
    destruct (mem_req r (subs_of b)); reflexivity.
  - intros r t Ht Hpn. rewrite Hp. assert (Hne : t <> b_topic b) by (apply (Hpn b [0]); reflexivity).
    apply N.eqb_neq in Hne. rewrite Hne. cbn [andb]. rewrite app_nil_r. apply He3; [exact Ht|].
    intros b0 k0 Heq. inversion Heq; subst. apply N.eqb_neq, Hne.
  - exact Ha1.
  - intros b0 k0 r Heq. inversion Heq; subst. apply (Ha1p b0 [] r eq_refl).
  - intros r t Hne. rewrite Hp in Hne. destruct (N.eq_dec t (b_topic b)) as [Heq|Hn].
    + subst t. destruct (mem_req r (subs_of b)) eqn:Em.
      * apply (Ha1p b [] r eq_refl). apply mem_req_in, Em.
      * rewrite andb_false_r, app_nil_r in Hne. apply Ha2, Hne.
    + apply N.eqb_neq in Hn. rewrite Hn in Hne. cbn [andb] in Hne. rewrite app_nil_r in Hne. apply Ha2, Hne.
  - intros r t Hin. destruct (Ha3 r t Hin) as [Hq1|[(b0 & k0 & Heq & B2 & B3)|[Hc|(Hc1 & t' & Hc2 & Hc3)]]].
    + left. exact Hq1.
    + inversion Heq; subst b0 k0. right. left. exists b, [0]. auto.
    + right. right. left. rewrite Hp. destruct (N.eq_dec t (b_topic b)) as [Heq|Hn];
        [|apply N.eqb_neq in Hn; rewrite Hn; cbn [andb]; rewrite app_nil_r; exact Hc].
      exfalso. subst t. rewrite (He2 b [] eq_refl r) in Hc. destruct (mem_req r (subs_of b)); destruct Hc as [H|[H|H]]; discriminate.
    + right. right. right. split; [exact Hc1|]. exists t'. split; [exact Hc2 | apply in_or_app; now left].
  - exact Ha4.
Qed.

(* ---------- the model's functions ---------- *)
Definition pend_of (s : mq) : pend :=
  match ph s with PConnect b _ _ | PSend b _ => Some (b, [0]) | _ => None end.

Lemma invS_fields p s s' E A : builders s' = builders s -> next_topic s' = next_topic s -> closed s' = closed s ->
  InvS p s E A -> InvS p s' E A.
Proof. unfold InvS. intros -> -> ->. auto. Qed.

Lemma publish_sent_inv s b E A : InvS (Some (b, [0])) s E A ->
  InvS None (fst (publish_sent s b)) (E ++ q_events (snd (publish_sent s b))) A.
Proof. unfold InvS, publish_sent. cbn. apply inv_sent. Qed.

Lemma publish_error_inv s b k E A : InvS (Some (b, k)) s E A ->
  InvS None (fst (publish_error s b)) (E ++ q_events (snd (publish_error s b))) A.
Proof. unfold InvS, publish_error. cbn [fst snd set_fields builders next_topic closed q_events]. apply inv_error. Qed.

Lemma publish_sent_nt s b : next_topic (fst (publish_sent s b)) = next_topic s. Proof. reflexivity. Qed.
Lemma publish_error_nt s b : next_topic (fst (publish_error s b)) = next_topic s. Proof. reflexivity. Qed.

Local Opaque publish_error publish_sent.

Lemma ev_out_app a b : q_events (out_app a b) = q_events a ++ q_events b.
Proof. reflexivity. Qed.

Lemma drain_inv : forall fuel s acc E0 A, InvS None s (E0 ++ q_events acc) A ->
  InvS None (fst (drain fuel s acc)) (E0 ++ q_events (snd (drain fuel s acc))) A.
Proof.
  induction fuel as [|f IH]; intros s acc E0 A H; [exact H|]. cbn [drain].
  pose proof (inv_skip _ _ _ _ _ H) as Hs.
  destruct (skip_empty (builders s)) as [|b rest] eqn:Es.
  - exact Hs.
  - apply inv_take in Hs.
    set (s1 := set_fields s rest (alloc s) (has_sender s) (work s) (done s) (ph s) (closed s)).
    assert (H1 : InvS (Some (b, [])) s1 (E0 ++ q_events acc) A) by exact Hs.
    pose proof (publish_error_inv s1 b [] _ _ H1) as H2.
    destruct (publish_error s1 b) as [s2 o]. cbn [fst snd] in H2.
    apply IH. rewrite ev_out_app, app_assoc. exact H2.
Qed.

Lemma run_loop_inv : forall fuel s acc E0 A, InvS None s (E0 ++ q_events acc) A -> ph s = PIdle ->
  InvS (pend_of (fst (run_loop fuel s acc))) (fst (run_loop fuel s acc)) (E0 ++ q_events (snd (run_loop fuel s acc))) A.
Proof.
  induction fuel as [|f IH]; intros s acc E0 A H Hp; [cbn; unfold pend_of; rewrite Hp; exact H|].
  cbn [run_loop]. destruct (work s), (done s).
  - exact H.
  - pose proof (inv_skip _ _ _ _ _ H) as Hs.
    destruct (skip_empty (builders s)) as [|b rest] eqn:Es.
    + apply IH; [exact Hs | reflexivity].
    + apply inv_take, inv_announce in Hs.
      destruct (has_sender s); cbn [fst snd pend_of ph set_fields]; rewrite ev_out_app, app_assoc; exact Hs.
  - pose proof (drain_inv (S (length (builders s))) s acc E0 A H) as Hd.
    destruct (drain (S (length (builders s))) s acc) as [s1 o]. exact Hd.
  - exact H.
Qed.

Lemma pend_idle s : ph s = PIdle -> pend_of s = None.
Proof. unfold pend_of. now intros ->. Qed.

Local Opaque run_loop drain do_build.

Lemma attach16_build s r ops : attach16 s (L16 (LBuild r ops)) = attach_build s r ops.
Proof. reflexivity. Qed.
Lemma attach16_buildshut s r ops : attach16 s (LBuildShut r ops) = attach_build s r ops.
Proof. reflexivity. Qed.

Lemma do_build_pend s r ops : pend_of (fst (do_build s r ops)) = pend_of s.
Proof. unfold pend_of. now rewrite do_build_ph. Qed.

Lemma qstep_inv s l E A : InvS (pend_of s) s E A ->
  InvS (pend_of (fst (qstep s l))) (fst (qstep s l)) (E ++ q_events (snd (qstep s l))) (A ++ opt_list (attach16 s (L16 l))).
Proof.
  intro H. destruct l as [r ops|ok| |tw]; unfold qstep.
  - (* build *)
    rewrite attach16_build. pose proof (do_build_inv _ s r ops E A H) as [H1 Ho]. pose proof (do_build_pend s r ops) as Hpe.
    destruct (do_build s r ops) as [s1 o]. cbn [fst snd] in *. subst o.
    destruct (ph s1) eqn:Ep; try (cbn [fst snd out_nil q_events]; rewrite app_nil_r, Hpe; exact H1).
    rewrite <- Hpe, (pend_idle s1 Ep) in H1.
    apply (run_loop_inv _ s1 out_nil E); [cbn; rewrite app_nil_r; exact H1 | exact Ep].
  - (* network outcome *)
    cbn [attach16 build_of opt_list]. rewrite app_nil_r.
    unfold pend_of in H. destruct (ph s) as [|b i initial|b i| |] eqn:Ep;
      try (cbn [fst snd out_nil q_events]; rewrite app_nil_r; unfold pend_of; rewrite Ep; exact H).
    + destruct ok.
      * destruct initial; [cbn; rewrite app_nil_r; exact H|].
        destruct (Nat.ltb (S i) max_retries); [cbn; rewrite app_nil_r; exact H|].
        set (s0 := set_fields s (builders s) (alloc s) true (work s) (done s) PIdle (closed s)).
        pose proof (publish_error_inv s0 b [0] E A H) as H1. pose proof (publish_error_ph s0 b) as [Hp _].
        destruct (publish_error s0 b) as [s1 o]. cbn [fst snd] in *. apply run_loop_inv; [exact H1 | exact Hp].
      * set (s0 := set_fields s (builders s) (alloc s) false (work s) (done s) PIdle (closed s)).
        pose proof (publish_error_inv s0 b [0] E A H) as H1.
        destruct (publish_error s0 b) as [s1 o]. cbn [fst snd] in *. apply run_loop_inv; [exact H1 | reflexivity].
    + destruct ok.
      * set (s0 := set_fields s (builders s) (alloc s) true (work s) (done s) PIdle (closed s)).
        pose proof (publish_sent_inv s0 b E A H) as H1. pose proof (publish_sent_ph s0 b) as Hp.
        destruct (publish_sent s0 b) as [s1 o]. cbn [fst snd] in *. apply run_loop_inv; [exact H1 | exact Hp].
      * destruct (done s) eqn:Ed.
        -- set (s0 := set_fields s (builders s) (alloc s) false (work s) true PIdle (closed s)).
           pose proof (publish_error_inv s0 b [0] E A H) as H1. pose proof (publish_error_ph s0 b) as [Hp _].
           destruct (publish_error s0 b) as [s1 o]. cbn [fst snd] in *. apply run_loop_inv; [exact H1 | exact Hp].
        -- cbn. rewrite app_nil_r. exact H.
  - (* shutdown *)
    cbn [attach16 build_of opt_list]. rewrite app_nil_r.
    destruct (ph s) eqn:Ep; try (cbn [fst snd out_nil q_events]; rewrite app_nil_r; unfold pend_of in *; cbn [ph set_fields]; rewrite Ep in *; exact H).
    rewrite (pend_idle s Ep) in H. apply (run_loop_inv _ _ out_nil E); [cbn; rewrite app_nil_r; exact H | reflexivity].
  - (* select choice *)
    cbn [attach16 build_of opt_list]. rewrite app_nil_r.
    destruct (ph s) eqn:Ep; try (cbn [fst snd out_nil q_events]; rewrite app_nil_r; exact H).
    unfold pend_of in H. rewrite Ep in H. destruct tw.
    + set (s1 := set_fields s (builders s) (alloc s) (has_sender s) true false PIdle (closed s)).
      assert (H1 : InvS None s1 (E ++ q_events out_nil) A) by (cbn; rewrite app_nil_r; exact H).
      pose proof (run_loop_inv 1 s1 out_nil E A H1 eq_refl) as H2.
      destruct (run_loop 1 s1 out_nil) as [s2 o]. cbn [fst snd] in H2.
      set (s3 := set_fields s2 (builders s2) (alloc s2) (has_sender s2) (work s2) true (ph s2) (closed s2)).
      assert (H3 : InvS (pend_of s3) s3 (E ++ q_events o) A) by exact H2.
      destruct (ph s3) eqn:Ep3; try exact H3.
      rewrite (pend_idle s3 Ep3) in H3. apply run_loop_inv; [exact H3 | exact Ep3].
    + set (s1 := set_fields s (builders s) (alloc s) (has_sender s) false true PIdle (closed s)).
      assert (H1 : InvS None s1 (E ++ q_events out_nil) A) by (cbn; rewrite app_nil_r; exact H).
      pose proof (drain_inv (S (length (builders s1))) s1 out_nil E A H1) as H2.
      destruct (drain (S (length (builders s1))) s1 out_nil) as [s2 o]. exact H2.
Qed.


(* ---------- a build whose callback finds the stream closed ---------- *)
Lemma do_touch_ph s size : ph (do_touch s size) = ph s.
Proof. unfold do_touch. destruct (done s); reflexivity. Qed.
Lemma do_touch_inv p s size E A : InvS p s E A -> InvS p (do_touch s size) E A.
Proof.
  unfold InvS, do_touch. intro H. destruct (done s); [exact H|].
  destruct (match last_opt (builders s) with Some last => if size =? 0 then false else max_block_size <? b_blk last + size | None => true end);
    cbn [builders next_topic closed]; [apply inv_add_new, H | exact H].
Qed.
Lemma do_touch_cinv s size : CInv s -> AccInvS (do_touch s size) /\ QInv (do_touch s size).
Proof.
  intro HC. unfold do_touch. destruct (done s) eqn:Ed; [destruct HC as [HA [HQ _]]; split; assumption|].
  destruct HC as [[HF Ha] [HQ _]].
  set (need_new := match last_opt (builders s) with Some last => if size =? 0 then false else max_block_size <? b_blk last + size | None => true end).
  destruct need_new eqn:En.
  - split.
    + split; cbn [builders alloc ph MsgQueue.done].
      * apply Forall_app. split; [exact HF | constructor; [split; simpl; [lia | reflexivity] | constructor]].
      * rewrite qsum_app. cbn [qsum fold_right bld_new b_blk]. destruct (ph s); try lia; try (destruct Ha as [Hb Ha]; split; [exact Hb | lia]).
        destruct Ha as (_ & Hd & _). congruence.
    + unfold QInv. cbn [work builders]. rewrite last_opt_snoc. cbn [bld_empty bld_new b_blocks b_resp]. intro Hw.
      apply Forall_app. split; [apply HQ, Hw | constructor; [reflexivity | constructor]].
  - split; [split; [exact HF|]; cbn [ph alloc builders MsgQueue.done]; destruct (ph s); try exact Ha; destruct Ha as (_ & Hd & _); congruence|].
    unfold QInv. cbn [work builders].
    destruct (last_opt (builders s)) as [l|]; [|exact HQ]. destruct (bld_empty l); [exact HQ | discriminate].
Qed.

Lemma set_done_pend s : pend_of (set_done s) = pend_of s.
Proof. reflexivity. Qed.

Lemma qstep16_inv s l E A : InvS (pend_of s) s E A ->
  InvS (pend_of (fst (qstep16 s l))) (fst (qstep16 s l)) (E ++ q_events (snd (qstep16 s l))) (A ++ opt_list (attach16 s l)).
Proof.
  intro H. destruct l as [l|r ops|sz]; [apply qstep_inv, H| |].
  2:{ unfold qstep16. cbn [attach16 build_of opt_list]. rewrite app_nil_r.
      pose proof (do_touch_inv _ s sz E A H) as H1. pose proof (do_touch_ph s sz) as Hp.
      assert (Hpe : pend_of (do_touch s sz) = pend_of s) by (unfold pend_of; now rewrite Hp).
      rewrite <- Hpe in H1. destruct (ph (do_touch s sz)) eqn:Ep; try (cbn [fst snd out_nil q_events]; rewrite app_nil_r; exact H1).
      rewrite (pend_idle _ Ep) in H1. apply (run_loop_inv _ _ out_nil E); [cbn; rewrite app_nil_r; exact H1 | exact Ep]. }
  unfold qstep16. rewrite attach16_buildshut.
  pose proof (do_build_inv _ s r ops E A H) as [H1 Ho]. pose proof (do_build_pend s r ops) as Hpe.
  destruct (do_build s r ops) as [s1 o]. cbn [fst snd] in *. subst o. rewrite <- Hpe in H1.
  destruct (ph s1) eqn:Ep; try (cbn [fst snd out_nil q_events]; rewrite app_nil_r, set_done_pend; exact H1).
  set (s2 := set_fields s1 (builders s1) (alloc s1) (has_sender s1) true true PSelect (closed s1)).
  assert (H2 : InvS (pend_of s2) s2 E (A ++ opt_list (attach_build s r ops))) by (rewrite (pend_idle s1 Ep) in H1; exact H1).
  pose proof (qstep_inv s2 (LPick false) _ _ H2) as H3. cbn [attach16 build_of opt_list] in H3. rewrite app_nil_r in H3.
  destruct (qstep s2 (LPick false)) as [s3 o3]. cbn [fst snd] in *. exact H3.
Qed.

Lemma qstep16_cinv s l : CInv s -> CInv (fst (qstep16 s l)).
Proof.
  intros [HA HP]. destruct l as [l|r ops|sz]; [apply qstep_cinv; split; assumption| |].
  2:{ unfold qstep16. destruct (do_touch_cinv s sz (conj HA HP)) as [HA1 HQ1].
      destruct (ph (do_touch s sz)) eqn:Ep; try (cbn [fst]; split; [exact HA1 | split; [exact HQ1 | rewrite Ep; discriminate]]).
      split; [apply run_loop_from; assumption | apply parked_loop, HQ1]. }
  unfold qstep16. pose proof (do_build_acc s r ops HA) as [HA1 Hp1]. destruct HP as [HQ HPi].
  pose proof (do_build_q s r ops HQ) as HQ1.
  destruct (do_build s r ops) as [s1 o]. cbn [fst] in *.
  destruct (ph s1) eqn:Ep.
  - set (s2 := set_fields s1 (builders s1) (alloc s1) (has_sender s1) true true PSelect (closed s1)).
    assert (H2 : CInv s2).
    { destruct HA1 as [HF Ha]. rewrite Ep in Ha. split; [split; [exact HF | exact Ha]|].
      split; [intro Hw; discriminate Hw | intro Hx; discriminate Hx]. }
    pose proof (qstep_cinv s2 (LPick false) H2) as H3. destruct (qstep s2 (LPick false)) as [s3 o3]. exact H3.
  - split; [apply acc_set_done, HA1 | split; [exact HQ1 | cbn; rewrite Ep; discriminate]].
  - split; [apply acc_set_done, HA1 | split; [exact HQ1 | cbn; rewrite Ep; discriminate]].
  - split; [apply acc_set_done, HA1 | split; [exact HQ1 | cbn; rewrite Ep; discriminate]].
  - split; [apply acc_set_done, HA1 | split; [exact HQ1 | cbn; rewrite Ep; discriminate]].
Qed.

(* the harness step: the label, then the select choices it made visible *)
Lemma qstep_h_inv s l h E A : InvS (pend_of s) s E A ->
  InvS (pend_of (fst (qstep_h s l h))) (fst (qstep_h s l h)) (E ++ q_events (snd (qstep_h s l h))) (A ++ opt_list (attach16 s (L16 l))).
Proof.
  intro H. unfold qstep_h. pose proof (qstep_inv s l E A H) as H1. destruct (qstep s l) as [s1 o1]. cbn [fst snd] in H1.
  destruct (ph s1) eqn:Ep1; try exact H1.
  pose proof (qstep_inv s1 (LPick h) _ _ H1) as H2. cbn [attach16 build_of opt_list] in H2. rewrite app_nil_r in H2.
  destruct (qstep s1 (LPick h)) as [s2 o2]. cbn [fst snd] in H2.
  destruct (ph s2) eqn:Ep2; try (cbn [fst snd]; rewrite ev_out_app, app_assoc; exact H2).
  pose proof (qstep_inv s2 (LPick h) _ _ H2) as H3. cbn [attach16 build_of opt_list] in H3. rewrite app_nil_r in H3.
  destruct (qstep s2 (LPick h)) as [s3 o3]. cbn [fst snd] in *. rewrite !ev_out_app, !app_assoc. exact H3.
Qed.

Lemma qstep16_h_inv s l h E A : InvS (pend_of s) s E A ->
  InvS (pend_of (fst (qstep16_h s l h))) (fst (qstep16_h s l h)) (E ++ q_events (snd (qstep16_h s l h))) (A ++ opt_list (attach16 s l)).
Proof. destruct l as [l|r ops|sz]; [apply qstep_h_inv | apply (qstep16_inv s (LBuildShut r ops)) | apply (qstep16_inv s (LBuildClosed sz))]. Qed.

Lemma qstep16_h_cinv s l h : CInv s -> CInv (fst (qstep16_h s l h)).
Proof. destruct l as [l|r ops|sz]; [apply qstep_h_cinv | apply (qstep16_cinv s (LBuildShut r ops)) | apply (qstep16_cinv s (LBuildClosed sz))]. Qed.

(* ---------- histories ---------- *)
Definition GInv (g : g16) : Prop := InvS (pend_of (g_s g)) (g_s g) (g_ev g) (g_att g) /\ CInv (g_s g).

Lemma ginv_new : GInv g_new.
Proof. split; [exact inv_new | exact cinv_new]. Qed.
Lemma gstep_ginv g l : GInv g -> GInv (gstep g l).
Proof. intros [H C]. split; [apply qstep16_inv, H | apply qstep16_cinv, C]. Qed.
Lemma gstep_h_ginv g lh : GInv g -> GInv (gstep_h g lh).
Proof. intros [H C]. destruct lh as [l h]. split; [apply qstep16_h_inv, H | apply qstep16_h_cinv, C]. Qed.

Lemma fold_ginv {L} (step : g16 -> L -> g16) : (forall g l, GInv g -> GInv (step g l)) ->
  forall ls g, GInv g -> GInv (fold_left step ls g).
Proof. intros Hs. induction ls as [|l ls IH]; intros g H; [exact H | apply IH, Hs, H]. Qed.
Lemma grun_ginv ls : GInv (grun ls).
Proof. apply fold_ginv; [exact gstep_ginv | exact ginv_new]. Qed.
Lemma grun_h_ginv ls : GInv (grun_h ls).
Proof. apply fold_ginv; [exact gstep_h_ginv | exact ginv_new]. Qed.

(* ---------- what the invariant says ---------- *)
Lemma quiescent_pend s : quiescent s -> pend_of s = None.
Proof. unfold pend_of. intros [-> | ->]; reflexivity. Qed.

(* safety: at every parked state, what one party has been told about one message is nothing, the
   announcement alone (only for the message in flight), or one complete report sequence *)
Lemma ginv_safety g : GInv g -> forall r t,
  proj r t (g_ev g) = [] \/ Complete (proj r t (g_ev g)) \/
  (proj r t (g_ev g) = [0] /\ exists b, pend_of (g_s g) = Some (b, [0]) /\ b_topic b = t /\ In r (subs_of b)).
Proof.
  intros [H _] r t. unfold InvS in H. destruct (pend_of (g_s g)) as [[b k]|] eqn:Ep.
  - assert (Hk : k = [0]) by (unfold pend_of in Ep; destruct (ph (g_s g)); inversion Ep; reflexivity). subst k.
    destruct (N.eq_dec t (b_topic b)) as [->|Hne].
    + rewrite (i_e2 _ _ _ _ _ _ H b [0] eq_refl r). destruct (mem_req r (subs_of b)) eqn:Em; [|now left].
      right. right. split; [reflexivity|]. exists b. split; [reflexivity|]. split; [reflexivity | apply mem_req_in, Em].
    + destruct (N.lt_ge_cases t (qlowb (builders (g_s g)) (next_topic (g_s g)))) as [Hlt|Hge].
      * destruct (i_e3 _ _ _ _ _ _ H r t Hlt) as [H0|H0]; [intros b0 k0 Heq; inversion Heq; subst; exact Hne | now left | right; now left].
      * left. apply (i_e1 _ _ _ _ _ _ H), Hge.
  - destruct (N.lt_ge_cases t (qlowb (builders (g_s g)) (next_topic (g_s g)))) as [Hlt|Hge].
    + destruct (i_e3 _ _ _ _ _ _ H r t Hlt) as [H0|H0]; [intros; discriminate | now left | right; now left].
    + left. apply (i_e1 _ _ _ _ _ _ H), Hge.
Qed.

(* reports only go to parties that attached themselves *)
Lemma ginv_attached g : GInv g -> forall r t, proj r t (g_ev g) <> [] -> exists c, In (r, (t, c)) (g_att g).
Proof. intros [H _]. exact (i_a2 _ _ _ _ _ _ H). Qed.

Lemma all_empty_in bs b : AllEmpty bs -> In b bs -> bld_empty b = true.
Proof. unfold AllEmpty. rewrite Forall_forall. auto. Qed.

(* completeness: when the goroutine is idle or has exited, every attachment made by a transaction with
   operations has its complete report — or its party was told that an earlier message failed *)
Lemma ginv_complete g : GInv g -> quiescent (g_s g) -> forall r t, In (r, (t, true)) (g_att g) ->
  Complete (proj r t (g_ev g)) \/
  (mem_req r (closed (g_s g)) = true /\ exists t', t' < t /\ In (EvError r t') (g_ev g)).
Proof.
  intros [H C] Hq r t Hin. unfold InvS in H. rewrite (quiescent_pend _ Hq) in H.
  destruct (i_a3 _ _ _ _ _ _ H r t Hin) as [(b & B1 & B2 & B3 & B4)|[(b & k & Heq & _)|[Hc|Hs]]]; [|discriminate | now left | now right].
  exfalso. destruct (cinv_accounting _ C) as (_ & Hi & He).
  assert (Hne : bld_empty b = false) by (apply not_empty_of_resp, (aget_not_nil r), B4).
  destruct Hq as [Hq|Hq].
  - destruct (Hi Hq) as [_ HE]. rewrite (all_empty_in _ _ HE B1) in Hne. discriminate.
  - destruct (He Hq) as [_ HE]. rewrite HE in B1. contradiction.
Qed.

(* ---------- the theorems of props/C16.v ---------- *)
Theorem c16_safety : forall ls r t,
  let g := grun ls in
  proj r t (g_ev g) = [] \/ Complete (proj r t (g_ev g)) \/
  (proj r t (g_ev g) = [0] /\ exists b, pend_of (g_s g) = Some (b, [0]) /\ b_topic b = t /\ In r (subs_of b)).
Proof. intros ls r t. exact (ginv_safety _ (grun_ginv ls) r t). Qed.

Theorem c16_only_attached : forall ls r t,
  proj r t (g_ev (grun ls)) <> [] -> exists c, In (r, (t, c)) (g_att (grun ls)).
Proof. intros ls. exact (ginv_attached _ (grun_ginv ls)). Qed.

Theorem c16_complete : forall ls r t,
  let g := grun ls in
  quiescent (g_s g) ->
  (In (r, (t, true)) (g_att g) ->
     Complete (proj r t (g_ev g)) \/
     (mem_req r (closed (g_s g)) = true /\ exists t', t' < t /\ In (EvError r t') (g_ev g))) /\
  AllEmpty (builders (g_s g)).
Proof.
  intros ls r t g Hq. subst g. split; [apply (ginv_complete _ (grun_ginv ls) Hq)|].
  destruct (grun_ginv ls) as [_ C]. destruct (cinv_accounting _ C) as (_ & Hi & He).
  destruct Hq as [Hq|Hq]; [apply (Hi Hq) | destruct (He Hq) as [_ HE]; rewrite HE; constructor].
Qed.

Lemma publish_sent_builders s b : builders (fst (publish_sent s b)) = builders s.
Proof. Local Transparent publish_sent. reflexivity. Local Opaque publish_sent. Qed.

(* ---------- progress: every pending non-environment label decreases the ranking ---------- *)
Local Transparent run_loop.

Definition RInv (s : mq) : Prop :=
  match ph s with
  | PSend _ i => (i < max_retries)%nat
  | PConnect _ i false => (i < max_retries)%nat
  | _ => True
  end.

Lemma rank_quiet s : ph s = PIdle \/ ph s = PExited -> rank s = O.
Proof. unfold rank. intros [-> | ->]; reflexivity. Qed.

Lemma run_loop_rank : forall fuel s acc, ph s = PIdle ->
  (rank (fst (run_loop fuel s acc)) <= rank_unit * length (builders s) + (rank_unit - 1))%nat /\ RInv (fst (run_loop fuel s acc)).
Proof.
  induction fuel as [|f IH]; intros s acc Hp.
  - cbn [run_loop fst]. rewrite rank_quiet by auto. unfold RInv. rewrite Hp. split; [lia | exact I].
  - cbn [run_loop]. destruct (work s), (done s).
    + cbn [fst]. unfold rank, RInv. cbn [ph set_fields builders]. split; [lia | exact I].
    + pose proof (skip_empty_len (builders s)) as Hl. destruct (skip_empty (builders s)) as [|b rest] eqn:Es.
      * destruct (IH (set_fields s [] (alloc s) (has_sender s) false false PIdle (closed s)) acc eq_refl) as [A B].
        split; [|exact B]. cbn [builders set_fields length] in A. unfold rank_unit in *. lia.
      * cbn [length] in Hl. destruct (has_sender s); cbn [fst]; unfold rank, RInv, rank_unit, max_retries; cbn [ph set_fields builders]; split; lia.
    + destruct (drain (S (length (builders s))) s acc) as [s1 o]. cbn [fst]. unfold rank, RInv. cbn [ph set_fields]. split; [lia | exact I].
    + cbn [fst]. unfold rank, RInv. cbn [ph set_fields]. split; [lia | exact I].
Qed.

Lemma run_loop_exit f s acc : work s = false -> done s = true -> ph (fst (run_loop (S f) s acc)) = PExited.
Proof. intros Hw Hd. cbn [run_loop]. rewrite Hw, Hd. destruct (drain _ s acc) as [s1 o]. reflexivity. Qed.

Local Opaque run_loop.

Lemma rinv_ph s s' : ph s' = ph s -> RInv s -> RInv s'.
Proof. unfold RInv. now intros ->. Qed.

Lemma qstep_rinv s l : RInv s -> RInv (fst (qstep s l)).
Proof.
  intro H. destruct l as [r ops|ok| |tw]; unfold qstep.
  - pose proof (do_build_ph s r ops) as Hp. destruct (do_build s r ops) as [s1 o]. cbn [fst] in *.
    assert (HR1 : RInv s1) by (eapply rinv_ph; [exact Hp | exact H]).
    destruct (ph s1) eqn:Ep; try exact HR1. apply run_loop_rank, Ep.
  - unfold RInv in H. destruct (ph s) as [|b i initial|b i| |] eqn:Ep; try (cbn [fst]; unfold RInv; rewrite Ep; exact H).
    + destruct ok.
      * destruct initial; [unfold RInv; cbn; unfold max_retries; lia|].
        destruct (Nat.ltb (S i) max_retries) eqn:El; [unfold RInv; cbn; apply Nat.ltb_lt, El|].
        pose proof (publish_error_ph (set_fields s (builders s) (alloc s) true (work s) (done s) PIdle (closed s)) b) as [Hp _].
        destruct (publish_error _ b) as [s1 o]. cbn [fst] in *. apply run_loop_rank, Hp.
      * pose proof (publish_error_ph (set_fields s (builders s) (alloc s) false (work s) (done s) PIdle (closed s)) b) as [Hp _].
        destruct (publish_error _ b) as [s1 o]. cbn [fst] in *. apply run_loop_rank. reflexivity.
    + destruct ok.
      * pose proof (publish_sent_ph (set_fields s (builders s) (alloc s) true (work s) (done s) PIdle (closed s)) b) as Hp.
        destruct (publish_sent _ b) as [s1 o]. cbn [fst] in *. apply run_loop_rank, Hp.
      * destruct (done s).
        -- pose proof (publish_error_ph (set_fields s (builders s) (alloc s) false (work s) true PIdle (closed s)) b) as [Hp _].
           destruct (publish_error _ b) as [s1 o]. cbn [fst] in *. apply run_loop_rank, Hp.
        -- unfold RInv. cbn. exact H.
  - assert (HR1 : RInv (set_fields s (builders s) (alloc s) (has_sender s) (work s) true (ph s) (closed s))) by (eapply rinv_ph; [|exact H]; reflexivity).
    destruct (ph s) eqn:Ep; try exact HR1. apply run_loop_rank. reflexivity.
  - destruct (ph s) eqn:Ep; try exact H. destruct tw.
    + set (s1 := set_fields s (builders s) (alloc s) (has_sender s) true false PIdle (closed s)).
      pose proof (run_loop_rank 1 s1 out_nil eq_refl) as [_ H2]. destruct (run_loop 1 s1 out_nil) as [s2 o]. cbn [fst] in H2.
      set (s3 := set_fields s2 (builders s2) (alloc s2) (has_sender s2) (work s2) true (ph s2) (closed s2)).
      assert (HR3 : RInv s3) by (eapply rinv_ph; [|exact H2]; reflexivity).
      destruct (ph s3) eqn:Ep3; try exact HR3. apply run_loop_rank, Ep3.
    + destruct (drain _ _ out_nil) as [s2 o]. cbn [fst]. unfold RInv. cbn. exact I.
Qed.

Lemma qstep16_rinv s l : RInv s -> RInv (fst (qstep16 s l)).
Proof.
  intro H. destruct l as [l|r ops|sz]; [apply qstep_rinv, H| |].
  2:{ unfold qstep16. pose proof (do_touch_ph s sz) as Hp.
      assert (HR1 : RInv (do_touch s sz)) by (eapply rinv_ph; [exact Hp | exact H]).
      destruct (ph (do_touch s sz)) eqn:Ep; try exact HR1. apply run_loop_rank, Ep. }
  unfold qstep16.
  pose proof (do_build_ph s r ops) as Hp. destruct (do_build s r ops) as [s1 o]. cbn [fst] in *.
  assert (HR1 : RInv (set_done s1)) by (eapply rinv_ph; [|exact H]; cbn; exact Hp).
  destruct (ph s1) eqn:Ep; try exact HR1.
  set (s2 := set_fields s1 (builders s1) (alloc s1) (has_sender s1) true true PSelect (closed s1)).
  pose proof (qstep_rinv s2 (LPick false) I) as H3. destruct (qstep s2 (LPick false)) as [s3 o3]. exact H3.
Qed.

Lemma grun_rinv ls : RInv (g_s (grun ls)).
Proof.
  unfold grun. assert (H : forall g, RInv (g_s g) -> RInv (g_s (fold_left gstep ls g))).
  { induction ls as [|l ls IH]; intros g Hg; [exact Hg|]. cbn [fold_left]. apply IH. cbn [gstep g_s]. apply qstep16_rinv, Hg. }
  apply H. exact I.
Qed.

Lemma rank_decreases s : RInv s ->
  (ph s = PSelect -> forall tw, (rank (fst (qstep s (LPick tw))) < rank s)%nat) /\
  ((exists b i x, ph s = PConnect b i x) \/ (exists b i, ph s = PSend b i) -> forall ok, (rank (fst (qstep s (LNet ok))) < rank s)%nat).
Proof.
  intro HR. split.
  - intros Ep tw. unfold qstep. rewrite Ep. destruct tw.
    + set (s1 := set_fields s (builders s) (alloc s) (has_sender s) true false PIdle (closed s)).
      assert (H2 : (rank (fst (run_loop 1 s1 out_nil)) <= rank_unit * length (builders s) + (rank_unit - 2))%nat /\
                   (ph (fst (run_loop 1 s1 out_nil)) = PIdle -> work (fst (run_loop 1 s1 out_nil)) = false)).
      { Local Transparent run_loop. cbn [run_loop s1 set_fields work done builders].
        pose proof (skip_empty_len (builders s)) as Hl. destruct (skip_empty (builders s)) as [|b rest] eqn:Es.
        - cbn. split; [unfold rank_unit, max_retries; lia | reflexivity].
        - cbn [length] in Hl. destruct (has_sender s1); cbn [fst]; unfold rank, rank_unit, max_retries; cbn [ph set_fields builders]; (split; [lia | discriminate]).
        Local Opaque run_loop. }
      destruct (run_loop 1 s1 out_nil) as [s2 o]. cbn [fst] in H2. destruct H2 as [H2 H2i].
      set (s3 := set_fields s2 (builders s2) (alloc s2) (has_sender s2) (work s2) true (ph s2) (closed s2)).
      assert (Hr3 : rank s3 = rank s2) by reflexivity.
      unfold rank at 2. rewrite Ep. destruct (ph s3) eqn:Ep3; cbn [fst]; try (rewrite Hr3; unfold rank_unit, max_retries in *; lia).
      assert (Hx : ph (fst (run_loop (loop_fuel s3) s3 o)) = PExited) by (apply run_loop_exit; [apply H2i, Ep3 | reflexivity]).
      rewrite rank_quiet by (right; exact Hx). unfold rank_unit, max_retries. lia.
    + destruct (drain _ _ out_nil) as [s2 o]. cbn [fst]. unfold rank. cbn [ph set_fields]. rewrite Ep. unfold rank_unit, max_retries. lia.
  - intros Hph ok. unfold qstep. unfold RInv in HR. destruct Hph as [(b & i & x & Ep)|(b & i & Ep)]; rewrite Ep in *.
    + destruct ok.
      * destruct x; [unfold rank; rewrite Ep; cbn [fst ph set_fields builders]; unfold rank_unit, max_retries; lia|].
        destruct (Nat.ltb (S i) max_retries) eqn:El.
        -- apply Nat.ltb_lt in El. unfold rank; rewrite Ep; cbn [fst ph set_fields builders]. unfold rank_unit, max_retries in *. lia.
        -- set (s0 := set_fields s (builders s) (alloc s) true (work s) (done s) PIdle (closed s)).
           pose proof (publish_error_ph s0 b) as [Hp _]. pose proof (publish_error_len s0 b) as Hl.
           destruct (publish_error s0 b) as [s1 o]. cbn [fst] in *. destruct (run_loop_rank (loop_fuel s1) s1 o Hp) as [A _].
           unfold rank at 2. rewrite Ep. cbn [s0 builders set_fields] in Hl. unfold rank_unit, max_retries in *. lia.
      * set (s0 := set_fields s (builders s) (alloc s) false (work s) (done s) PIdle (closed s)).
        pose proof (publish_error_len s0 b) as Hl.
        destruct (publish_error s0 b) as [s1 o]. cbn [fst] in *.
        set (s2 := set_fields s1 (builders s1) (alloc s1) false (work s1) (if x then true else done s1) PIdle (closed s1)).
        destruct (run_loop_rank (loop_fuel s2) s2 o eq_refl) as [A _]. cbn [s2 builders set_fields] in A.
        unfold rank at 2. rewrite Ep. cbn [s0 builders set_fields] in Hl. destruct x; unfold rank_unit, max_retries in *; lia.
    + destruct ok.
      * set (s0 := set_fields s (builders s) (alloc s) true (work s) (done s) PIdle (closed s)).
        pose proof (publish_sent_ph s0 b) as Hp.
        pose proof (publish_sent_builders s0 b) as Hl. cbn [s0 builders set_fields] in Hl.
        destruct (publish_sent s0 b) as [s1 o]. cbn [fst] in *. destruct (run_loop_rank (loop_fuel s1) s1 o Hp) as [A _].
        rewrite Hl in A. unfold rank at 2. rewrite Ep. unfold rank_unit, max_retries in *. lia.
      * destruct (done s).
        -- set (s0 := set_fields s (builders s) (alloc s) false (work s) true PIdle (closed s)).
           pose proof (publish_error_ph s0 b) as [Hp _]. pose proof (publish_error_len s0 b) as Hl.
           destruct (publish_error s0 b) as [s1 o]. cbn [fst] in *. destruct (run_loop_rank (loop_fuel s1) s1 o Hp) as [A _].
           unfold rank at 2. rewrite Ep. cbn [s0 builders set_fields] in Hl. unfold rank_unit, max_retries in *. lia.
        -- unfold rank; rewrite Ep; cbn [fst ph set_fields builders]. unfold rank_unit, max_retries in *. lia.
Qed.

(* in every reachable state that is not quiescent a non-environment label is pending — the network call
   returning (either way) or the select choice — and taking it decreases the ranking *)
Theorem c16_progress : forall ls, let s := g_s (grun ls) in
  ~ quiescent s ->
  (ph s = PSelect /\ forall tw, (rank (fst (qstep16 s (L16 (LPick tw)))) < rank s)%nat) \/
  (((exists b i x, ph s = PConnect b i x) \/ (exists b i, ph s = PSend b i)) /\
   forall ok, (rank (fst (qstep16 s (L16 (LNet ok)))) < rank s)%nat).
Proof.
  intros ls s Hq. destruct (rank_decreases s (grun_rinv ls)) as [A B]. unfold quiescent in Hq.
  destruct (ph s) as [|b i x|b i| |] eqn:Ep.
  - exfalso. apply Hq. now left.
  - right. split; [left; eauto | apply B; left; eauto].
  - right. split; [right; eauto | apply B; right; eauto].
  - left. split; [reflexivity | apply A; reflexivity].
  - exfalso. apply Hq. now right.
Qed.

(* ---------- the executable monitor accepts every model history ---------- *)
Definition q_end (s : mq) (ls : list (qlabel16 * bool)) : mq :=
  fold_left (fun s lh => fst (qstep16_h s (fst lh) (snd lh))) ls s.

Lemma q_run16_snoc univ : forall ls s l h,
  q_run16 univ s (ls ++ [(l, h)]) =
  q_run16 univ s ls ++ [(q_observe univ (fst (qstep16_h (q_end s ls) l h)) (snd (qstep16_h (q_end s ls) l h)),
                         attach16 (q_end s ls) l)].
Proof.
  induction ls as [|[l0 h0] ls IH]; intros s l h.
  - cbn [q_run16 app q_end fold_left]. destruct (qstep16_h s l h); reflexivity.
  - cbn [q_run16 app]. unfold q_end. cbn [fold_left fst snd]. destruct (qstep16_h s l0 h0) as [s' o] eqn:E. cbn [fst].
    fold (q_end s' ls). rewrite IH. reflexivity.
Qed.

Lemma g_s_fold : forall ls g, g_s (fold_left gstep_h ls g) = q_end (g_s g) ls.
Proof. induction ls as [|[l h] ls IH]; intro g; [reflexivity|]. cbn [fold_left]. rewrite IH. reflexivity. Qed.
Lemma grun_h_snoc ls x : grun_h (ls ++ [x]) = gstep_h (grun_h ls) x.
Proof. unfold grun_h. rewrite fold_left_app. reflexivity. Qed.
Lemma g_s_grun_h ls : g_s (grun_h ls) = q_end mq_new ls.
Proof. unfold grun_h. rewrite g_s_fold. reflexivity. Qed.

Definition atts_r (r : req) (A : list att) : list (N * bool) :=
  flat_map (fun a => if N.eqb (fst a) r then [snd a] else []) A.

Lemma events_for_app r E1 E2 : events_for r (E1 ++ E2) = events_for r E1 ++ events_for r E2.
Proof. unfold events_for. now rewrite filter_app, map_app. Qed.
Lemma nth_events_snoc i l o : nth_events i (l ++ [o]) = nth_events i l ++ nth i (qo_events o) [].
Proof. unfold nth_events. rewrite flat_map_app. cbn. now rewrite app_nil_r. Qed.
Lemma atts_of_snoc r l a : atts_of r (l ++ [a]) = atts_of r l ++ atts_r r (opt_list a).
Proof.
  unfold atts_of, atts_r. rewrite flat_map_app. f_equal. destruct a as [[r' x]|]; cbn; [|reflexivity].
  destruct (N.eqb r' r); reflexivity.
Qed.
Lemma atts_r_app r A B : atts_r r (A ++ B) = atts_r r A ++ atts_r r B.
Proof. unfold atts_r. apply flat_map_app. Qed.
Lemma atts_r_in r t c A : In (t, c) (atts_r r A) <-> In (r, (t, c)) A.
Proof.
  unfold atts_r. rewrite in_flat_map. split.
  - intros ([r' x] & Hin & Hx). cbn in Hx. destruct (N.eqb_spec r' r) as [->|]; [|contradiction]. destruct Hx as [<-|[]]. exact Hin.
  - intro Hin. exists (r, (t, c)). split; [exact Hin|]. cbn. rewrite N.eqb_refl. now left.
Qed.

Lemma nth_map_univ {B} (f : req -> list B) univ i : (i < length univ)%nat -> nth i (map f univ) [] = f (nth i univ 0).
Proof. intro Hi. rewrite (nth_indep _ [] (f 0)) by (rewrite map_length; exact Hi). apply map_nth. Qed.

Lemma run16_ghost univ ls :
  let run := q_run16 univ mq_new ls in
  (forall i, (i < length univ)%nat -> nth_events i (map fst run) = events_for (nth i univ 0) (g_ev (grun_h ls))) /\
  (forall r, atts_of r (map snd run) = atts_r r (g_att (grun_h ls))).
Proof.
  induction ls as [|[l h] ls IH] using rev_ind; [split; reflexivity|].
  destruct IH as [IH1 IH2]. cbn zeta. rewrite q_run16_snoc, !map_app, grun_h_snoc. cbn [map fst snd].
  unfold gstep_h. cbn [g_ev g_att fst snd]. rewrite <- g_s_grun_h. split.
  - intros i Hi. rewrite nth_events_snoc, IH1, events_for_app by exact Hi. f_equal.
    unfold q_observe. cbn [qo_events]. apply nth_map_univ, Hi.
  - intro r. rewrite atts_of_snoc, IH2, atts_r_app. reflexivity.
Qed.

Lemma last_obs univ ls :
  let o := last (map fst (q_run16 univ mq_new ls)) obs_dflt in
  qo_phase o = phase_code (ph (g_s (grun_h ls))) /\
  qo_nonempty o = N.of_nat (length (filter (fun b => negb (bld_empty b)) (builders (g_s (grun_h ls))))).
Proof.
  destruct ls as [|[l h] ls _] using rev_ind; [split; reflexivity|].
  cbn zeta. rewrite q_run16_snoc, map_app. cbn [map]. rewrite last_last, grun_h_snoc. cbn [fst]. unfold gstep_h. cbn [g_s fst snd].
  rewrite <- g_s_grun_h. split; reflexivity.
Qed.

Definition quiet_b (s : mq) : bool := N.eqb (phase_code (ph s)) 0 || N.eqb (phase_code (ph s)) 4.
Lemma quiet_b_true s : quiet_b s = true -> quiescent s.
Proof. unfold quiet_b, quiescent. destruct (ph s); cbn; intro H; try discriminate; auto. Qed.
Lemma pend_not_quiet s b k : pend_of s = Some (b, k) -> quiet_b s = false.
Proof. unfold pend_of, quiet_b. destruct (ph s); cbn; intro H; try discriminate; reflexivity. Qed.

Lemma projk_events_for r t E : projk t (events_for r E) = proj r t E.
Proof.
  unfold projk, events_for, proj. induction E as [|e E IH]; [reflexivity|]. cbn [filter].
  destruct (N.eqb (ev_req e) r); cbn [andb map filter]; [|exact IH].
  assert (Hs : snd (ev_code e) = ev_topic e) by (destruct e; reflexivity). rewrite Hs.
  destruct (N.eqb (ev_topic e) t); cbn [map]; [unfold ev_kind; f_equal; exact IH | exact IH].
Qed.
Lemma proj_in r E e : In e E -> ev_req e = r -> proj r (ev_topic e) E <> [].
Proof.
  intros Hin Hr. unfold proj. intro Hn. apply map_eq_nil in Hn.
  assert (Hf : In e (filter (fun e0 => N.eqb (ev_req e0) r && N.eqb (ev_topic e0) (ev_topic e)) E))
    by (apply filter_In; split; [exact Hin | rewrite Hr, !N.eqb_refl; reflexivity]).
  rewrite Hn in Hf. contradiction.
Qed.
Lemma complete_k_ok k : Complete k -> complete_k k = true.
Proof. intros [->|[->| ->]]; reflexivity. Qed.
Lemma shape_complete q k : Complete k -> shape_k q k = true.
Proof. intros [->|[->| ->]]; reflexivity. Qed.

Lemma mon_req_ok g r : GInv g -> mon16_req (quiet_b (g_s g)) (events_for r (g_ev g)) (atts_r r (g_att g)) = true.
Proof.
  intro H. unfold mon16_req. apply andb_true_iff. split; [apply andb_true_iff; split|].
  - apply forallb_forall. intros e He. unfold events_for in He. apply in_map_iff in He as (ev & <- & Hev).
    apply filter_In in Hev as [Hin Hr]. apply N.eqb_eq in Hr.
    destruct (ginv_attached g H r (ev_topic ev) (proj_in r _ ev Hin Hr)) as [c Hc].
    apply existsb_exists. exists (ev_topic ev, c). split; [apply atts_r_in, Hc|]. cbn [fst].
    assert (Hs : snd (ev_code ev) = ev_topic ev) by (destruct ev; reflexivity). rewrite Hs. apply N.eqb_refl.
  - apply forallb_forall. intros [t c] _. cbn [fst]. rewrite projk_events_for.
    destruct (ginv_safety g H r t) as [->|[Hc|(-> & b & Hp & _)]]; [reflexivity | apply shape_complete, Hc|].
    rewrite (pend_not_quiet _ _ _ Hp). reflexivity.
  - destruct (quiet_b (g_s g)) eqn:Eq; [|reflexivity]. apply forallb_forall. intros [t c] Hin. cbn [fst snd].
    destruct c; [|reflexivity]. cbn [negb orb]. apply atts_r_in in Hin. rewrite projk_events_for.
    destruct (ginv_complete g H (quiet_b_true _ Eq) r t Hin) as [Hc|(_ & t' & Hlt & Hev)].
    + rewrite (complete_k_ok _ Hc). reflexivity.
    + apply orb_true_iff. right. unfold excused. apply existsb_exists. exists (2, t'). split.
      * unfold events_for. apply in_map_iff. exists (EvError r t'). split; [reflexivity|].
        apply filter_In. split; [exact Hev | cbn; apply N.eqb_refl].
      * cbn [fst snd]. rewrite N.eqb_refl. apply N.ltb_lt, Hlt.
Qed.

Lemma all_empty_filter bs : AllEmpty bs -> filter (fun b => negb (bld_empty b)) bs = [].
Proof. induction 1 as [|b bs Hb _ IH]; [reflexivity|]. cbn. rewrite Hb. exact IH. Qed.

Theorem c16_monitor : forall univ ls,
  mon16_hist univ (map fst (q_run16 univ mq_new ls)) (map snd (q_run16 univ mq_new ls)) = true.
Proof.
  intros univ ls. pose proof (grun_h_ginv ls) as HG. destruct (run16_ghost univ ls) as [M1 M2]. destruct (last_obs univ ls) as [L1 L2].
  unfold mon16_hist.
  assert (Hq : last_phase_quiet (map fst (q_run16 univ mq_new ls)) = quiet_b (g_s (grun_h ls))) by (unfold last_phase_quiet, quiet_b; rewrite L1; reflexivity).
  rewrite Hq. apply andb_true_iff. split.
  - apply forallb_forall. intros i Hi. apply in_seq in Hi. rewrite M1 by lia. rewrite M2. apply mon_req_ok, HG.
  - destruct (quiet_b (g_s (grun_h ls))) eqn:Eq; [|reflexivity]. unfold last_nonempty0. rewrite L2.
    destruct HG as [_ C]. destruct (cinv_accounting _ C) as (_ & Hi & He).
    destruct (quiet_b_true _ Eq) as [Hp|Hp].
    + destruct (Hi Hp) as [_ HE]. rewrite (all_empty_filter _ HE). reflexivity.
    + destruct (He Hp) as [_ HE]. rewrite HE. reflexivity.
Qed.
