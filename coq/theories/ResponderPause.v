(* ResponderPause.v — C06, responder side: the responder model of Responder.v (C03) extended with pausing a
   response through the API (ResponseManager.PauseResponse -> pauseRequest: a signal the executor consumes in
   checkForUpdates at its next block) or from the outgoing-block hook (ProcessBlockHooks -> ErrPaused), and
   unpausing it (unpauseRequest: the task is queued again and continues on the same traverser).
   queryexecutor.go sendResponse: the signal is consumed INSIDE the block's transaction, the block is still
   sent ("we continue processing _this_ block"), rb.PauseRequest() adds the RequestPaused status to the same
   transaction, ErrPaused ends runTraversal; the hook runs only for a block that was really sent
   (BlockSize() > 0).  finishTask parks the response (state Paused); no link-tracker call is made.
   A pause at the last block leaves the closing transaction to the task run that follows the unpause.
   Definitions only. *)
From Coq Require Import List NArith Bool.
From GS Require Import Base Ltree LinkTracker Responder.
Import ListNotations.
Open Scope N_scope.

Definition st_paused : N := 15.           (* graphsync.RequestPaused *)

Record pinf := {
  pi_signal : bool;        (* a value is waiting in signals.PauseSignal (capacity 1) *)
  pi_paused : bool;        (* state == Paused: no task queued *)
  pi_hook : list N;        (* the outgoing-block hook pauses at these block counts (blocks really sent, from 1) *)
  pi_nsent : N;            (* blocks sent so far *)
  pi_finpending : bool     (* paused at the last link: the closing transaction is still to come *)
}.
Definition pinf_init (hook : list N) : pinf :=
  {| pi_signal := false; pi_paused := false; pi_hook := hook; pi_nsent := 0; pi_finpending := false |}.

Inductive pact := PA (a : sact) | PPause (r : req) | PUnpause (r : req).

Definition set_status (st : N) (m : wmsg) : wmsg :=
  {| wm_req := wm_req m; wm_md := wm_md m; wm_blocks := wm_blocks m; wm_idx := wm_idx m; wm_status := st |}.
Definition has_block (m : wmsg) : bool := match wm_blocks m with [] => false | _ => true end.

Definition psim_step (s : plt) (sts : list rst) (pis : list (req * pinf)) (a : pact)
  : plt * list rst * list (req * pinf) * list wmsg :=
  match a with
  | PPause r =>
      match aget r pis with
      | Some pi =>
          if pi_paused pi then (s, sts, pis, [])        (* "request is already paused" *)
          else (s, sts, aput r {| pi_signal := true; pi_paused := false; pi_hook := pi_hook pi; pi_nsent := pi_nsent pi;
                                  pi_finpending := pi_finpending pi |} pis, [])
      | None => (s, sts, pis, [])
      end
  | PUnpause r =>
      match aget r pis, rst_find r sts with
      | Some pi, Some x =>
          if pi_paused pi then
            let pi' := {| pi_signal := pi_signal pi; pi_paused := false; pi_hook := pi_hook pi; pi_nsent := pi_nsent pi;
                          pi_finpending := false |} in
            if pi_finpending pi then
              let '(s', out, _) := lstep s (LFinish r) in (s', sts, aput r pi' pis, msg_of (rs_fs x) (LFinish r) out)
            else (s, sts, aput r pi' pis, [])
          else (s, sts, pis, [])                         (* "request is not paused" *)
      | _, _ => (s, sts, pis, [])
      end
  | PA (SStart r) => let '(s', sts', ms) := sim_step s sts (SStart r) in (s', sts', pis, ms)
  (* Responder.v's request-hook pause (C03's SStartPaused / SUnpause) is a different mechanism from the block-hook
     and API pauses modelled here; schedules of this model do not use it *)
  | PA (SStartPaused _) | PA (SUnpause _) => (s, sts, pis, [])
  | PA (SStep r) =>
      match aget r pis, rst_find r sts with
      | Some pi, Some x =>
          if pi_paused pi || negb (rs_started x) then (s, sts, pis, []) else
          match rs_steps x with
          | [] => (s, sts, pis, [])
          | None :: _ => let '(s', sts', ms) := sim_step s sts (SStep r) in (s', sts', pis, ms)   (* hard load error: no SendResponse *)
          | Some (c, h) :: rest =>
              let '(s1, out, _) := lstep s (LRecord r c h) in
              let m1 := msg_of (rs_fs x) (LRecord r c h) out in
              let sent := existsb has_block m1 in
              let n' := pi_nsent pi + (if sent then 1 else 0) in
              let pause := pi_signal pi || (sent && existsb (N.eqb n') (pi_hook pi)) in
              let x' := {| rs_q := rs_q x; rs_started := true; rs_steps := rest; rs_fs := rs_fs x |} in
              if pause then
                (s1, rst_put x' sts,
                 aput r {| pi_signal := false; pi_paused := true; pi_hook := pi_hook pi; pi_nsent := n';
                           pi_finpending := match rest with [] => true | _ => false end |} pis,
                 map (set_status st_paused) m1)
              else
                let '(s2, m2) :=
                  match rest with
                  | [] => let '(s', out2, _) := lstep s1 (LFinish r) in (s', msg_of (rs_fs x) (LFinish r) out2)
                  | _ => (s1, [])
                  end in
                (s2, rst_put x' sts,
                 aput r {| pi_signal := false; pi_paused := false; pi_hook := pi_hook pi; pi_nsent := n';
                           pi_finpending := false |} pis, m1 ++ m2)
          end
      | _, _ => (s, sts, pis, [])
      end
  end.

Fixpoint psim (s : plt) (sts : list rst) (pis : list (req * pinf)) (sched : list pact) : list (pact * list wmsg) :=
  match sched with
  | [] => []
  | a :: r => let '(s', sts', pis', ms) := psim_step s sts pis a in (a, ms) :: psim s' sts' pis' r
  end.

(* the pause status is a status of the exchange, not of the stream: read it as "in progress" *)
Definition norm_status (m : wmsg) : wmsg := if N.eqb (wm_status m) st_paused then set_status st_partial_response m else m.
Definition flat (tl : list (pact * list wmsg)) : list wmsg := flat_map snd tl.
Definition flat0 (tl : list (sact * list wmsg)) : list wmsg := flat_map snd tl.

(* ---- correspondence with the driver's responder-pause cases (PauseExec.rpcase: one request, the hook pauses
   at block k, Unpause as soon as the paused status was seen): the model is run with "step, then unpause" ---- *)
Definition store_fun (held : list cid) : cid -> sres := fun c => if existsb (N.eqb c) held then RPresent else RMissing.
Definition rp_sched (n : nat) : list pact := PA (SStart 1) :: flat_map (fun _ => [PA (SStep 1); PUnpause 1]) (seq 0 n).
Definition rp_model (t : ltree) (held : list cid) (k : N) : list wmsg :=
  let q := {| rq_id := 1; rq_plan := t; rq_dedup := None; rq_ignore := None; rq_skip := None |} in
  let x := rst_init true (store_fun held) q in
  flat (psim plt_new [x] [(1, pinf_init (if N.eqb k 0 then [] else [k]))] (rp_sched (length (rs_steps x)))).
