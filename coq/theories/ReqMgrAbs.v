(* ReqMgrAbs.v — data abstraction of the request-manager LTS (ReqMgr.v): the control state of one request
   with every unbounded datum reduced to what the code branches on.  No proofs here.

   Abstracted: the mailbox keeps only the messages the system itself produces (GetTask, Release, the
   collector's cancel) in order — messages of the environment (responses, API cancel, pause, unpause) may
   be handled at any time the loop is idle; counters (remote queue, response buffer, visits left) become
   "positive?" bits; the traversal plan disappears (the traverser may go on or finish at any point); errors
   become kinds (status n0 / other status / ...); the error buffer becomes a multiset of kinds.
   Where the concrete step reads a datum that is gone, the abstract step reads an oracle [orc]; the
   simulation lemma (ReqMgrAbsProofs.v) instantiates it from the concrete state. *)
From Coq Require Import List NArith Bool Arith.
From GS Require Import Base ReqMgr.
Import ListNotations.

Inductive ek := KCC | KStat | KStatO | KHook | KMiss | KHard.
Record aentry := { ae_state : rstate; ae_terr : option ek; ae_started : bool }.
Inductive imsg := IGetTask | IRelease (p : bool) | ICancel.
Inductive imq := QNil | QCons (m : imsg) (q : imq).
Fixpoint qsnoc (q : imq) (m : imsg) : imq := match q with QNil => QCons m QNil | QCons x r => QCons x (qsnoc r m) end.
Inductive alpc := ALIdle | ALTermSend (k : ek) (rel : bool) | ALShutdown (rel : bool).
Inductive axpc :=
| AXIdle | AXPopped | AXAwaitTask | AXTop (sent : bool) | AXLoad (sent : bool) | AXLocal (consumed sent : bool)
| AXGoOnline (consumed : bool) | AXSendErr (k : ek) (sent : bool) | AXHooks (ok sent : bool) | AXFin (w : option ek)
| AXFinSend (k : ek) | AXRelease (p : bool) | AXAwaitDone.
Inductive atrav := ATNone | ATLoader | ATRun (pos : bool) | ATDone (f : bool).
Record aeb := { b_cc : nat; b_stat : nat; b_so : nat; b_hook : nat; b_other : bool }.

Record ast := mkA {
  a_ent : option aentry; a_mb : imq; a_lpc : alpc; a_tq : bool; a_xpc : axpc; a_trav : atrav;
  a_rq : bool; a_ropen : bool; a_ptok : bool; a_rctx : bool; a_tctx : bool; a_cctx : bool; a_iclosed : bool;
  a_rc : rc_pc; a_rbuf : bool; a_ec : ec_pc; a_eb : aeb }.

Definition eb0 : aeb := Build_aeb 0 0 0 0 false.
Definition ainit : ast :=
  mkA (Some (Build_aentry Queued None false)) QNil ALIdle true AXIdle ATNone false false false
      false false false false (RCRun true) false (ECRun true) eb0.

Definition t_ent v a := mkA v (a_mb a) (a_lpc a) (a_tq a) (a_xpc a) (a_trav a) (a_rq a) (a_ropen a) (a_ptok a) (a_rctx a) (a_tctx a) (a_cctx a) (a_iclosed a) (a_rc a) (a_rbuf a) (a_ec a) (a_eb a).
Definition t_mb v a := mkA (a_ent a) v (a_lpc a) (a_tq a) (a_xpc a) (a_trav a) (a_rq a) (a_ropen a) (a_ptok a) (a_rctx a) (a_tctx a) (a_cctx a) (a_iclosed a) (a_rc a) (a_rbuf a) (a_ec a) (a_eb a).
Definition t_lpc v a := mkA (a_ent a) (a_mb a) v (a_tq a) (a_xpc a) (a_trav a) (a_rq a) (a_ropen a) (a_ptok a) (a_rctx a) (a_tctx a) (a_cctx a) (a_iclosed a) (a_rc a) (a_rbuf a) (a_ec a) (a_eb a).
Definition t_tq v a := mkA (a_ent a) (a_mb a) (a_lpc a) v (a_xpc a) (a_trav a) (a_rq a) (a_ropen a) (a_ptok a) (a_rctx a) (a_tctx a) (a_cctx a) (a_iclosed a) (a_rc a) (a_rbuf a) (a_ec a) (a_eb a).
Definition t_xpc v a := mkA (a_ent a) (a_mb a) (a_lpc a) (a_tq a) v (a_trav a) (a_rq a) (a_ropen a) (a_ptok a) (a_rctx a) (a_tctx a) (a_cctx a) (a_iclosed a) (a_rc a) (a_rbuf a) (a_ec a) (a_eb a).
Definition t_trav v a := mkA (a_ent a) (a_mb a) (a_lpc a) (a_tq a) (a_xpc a) v (a_rq a) (a_ropen a) (a_ptok a) (a_rctx a) (a_tctx a) (a_cctx a) (a_iclosed a) (a_rc a) (a_rbuf a) (a_ec a) (a_eb a).
Definition t_rq v a := mkA (a_ent a) (a_mb a) (a_lpc a) (a_tq a) (a_xpc a) (a_trav a) v (a_ropen a) (a_ptok a) (a_rctx a) (a_tctx a) (a_cctx a) (a_iclosed a) (a_rc a) (a_rbuf a) (a_ec a) (a_eb a).
Definition t_ropen v a := mkA (a_ent a) (a_mb a) (a_lpc a) (a_tq a) (a_xpc a) (a_trav a) (a_rq a) v (a_ptok a) (a_rctx a) (a_tctx a) (a_cctx a) (a_iclosed a) (a_rc a) (a_rbuf a) (a_ec a) (a_eb a).
Definition t_ptok v a := mkA (a_ent a) (a_mb a) (a_lpc a) (a_tq a) (a_xpc a) (a_trav a) (a_rq a) (a_ropen a) v (a_rctx a) (a_tctx a) (a_cctx a) (a_iclosed a) (a_rc a) (a_rbuf a) (a_ec a) (a_eb a).
Definition t_rctx v a := mkA (a_ent a) (a_mb a) (a_lpc a) (a_tq a) (a_xpc a) (a_trav a) (a_rq a) (a_ropen a) (a_ptok a) v (a_tctx a) (a_cctx a) (a_iclosed a) (a_rc a) (a_rbuf a) (a_ec a) (a_eb a).
Definition t_tctx v a := mkA (a_ent a) (a_mb a) (a_lpc a) (a_tq a) (a_xpc a) (a_trav a) (a_rq a) (a_ropen a) (a_ptok a) (a_rctx a) v (a_cctx a) (a_iclosed a) (a_rc a) (a_rbuf a) (a_ec a) (a_eb a).
Definition t_cctx v a := mkA (a_ent a) (a_mb a) (a_lpc a) (a_tq a) (a_xpc a) (a_trav a) (a_rq a) (a_ropen a) (a_ptok a) (a_rctx a) (a_tctx a) v (a_iclosed a) (a_rc a) (a_rbuf a) (a_ec a) (a_eb a).
Definition t_iclosed v a := mkA (a_ent a) (a_mb a) (a_lpc a) (a_tq a) (a_xpc a) (a_trav a) (a_rq a) (a_ropen a) (a_ptok a) (a_rctx a) (a_tctx a) (a_cctx a) v (a_rc a) (a_rbuf a) (a_ec a) (a_eb a).
Definition t_rc v a := mkA (a_ent a) (a_mb a) (a_lpc a) (a_tq a) (a_xpc a) (a_trav a) (a_rq a) (a_ropen a) (a_ptok a) (a_rctx a) (a_tctx a) (a_cctx a) (a_iclosed a) v (a_rbuf a) (a_ec a) (a_eb a).
Definition t_rbuf v a := mkA (a_ent a) (a_mb a) (a_lpc a) (a_tq a) (a_xpc a) (a_trav a) (a_rq a) (a_ropen a) (a_ptok a) (a_rctx a) (a_tctx a) (a_cctx a) (a_iclosed a) (a_rc a) v (a_ec a) (a_eb a).
Definition t_ec v a := mkA (a_ent a) (a_mb a) (a_lpc a) (a_tq a) (a_xpc a) (a_trav a) (a_rq a) (a_ropen a) (a_ptok a) (a_rctx a) (a_tctx a) (a_cctx a) (a_iclosed a) (a_rc a) (a_rbuf a) v (a_eb a).
Definition t_eb v a := mkA (a_ent a) (a_mb a) (a_lpc a) (a_tq a) (a_xpc a) (a_trav a) (a_rq a) (a_ropen a) (a_ptok a) (a_rctx a) (a_tctx a) (a_cctx a) (a_iclosed a) (a_rc a) (a_rbuf a) (a_ec a) v.

(* ---------- events, oracle, moves ---------- *)
Inductive aev := AESend (m : outmsg) | AEDelivP | AEDelivE (k : ek) | AECloseP | AECloseE.
Record orc := { o_more : bool; o_b2 : bool; o_k : ek }.
Inductive asc := APartial | ASucc | AFailN | AFailO.
Inductive amsg := AMCancelApi | AMResp (sc : asc) (items : bool) (hookerr : bool) | AMPause | AMUnpause.
Inductive amove := AM (l : label) (o : orc) | AMEnv (m : amsg).

(* ---------- error buffer as a multiset of kinds ---------- *)
Definition eb_add (k : ek) (b : aeb) : aeb :=
  match k with
  | KCC => Build_aeb (S (b_cc b)) (b_stat b) (b_so b) (b_hook b) (b_other b)
  | KStat => Build_aeb (b_cc b) (S (b_stat b)) (b_so b) (b_hook b) (b_other b)
  | KStatO => Build_aeb (b_cc b) (b_stat b) (S (b_so b)) (b_hook b) (b_other b)
  | KHook => Build_aeb (b_cc b) (b_stat b) (b_so b) (S (b_hook b)) (b_other b)
  | KMiss | KHard => Build_aeb (b_cc b) (b_stat b) (b_so b) (b_hook b) true
  end.
(* remove one element of kind k; for the uncounted kinds [more] says whether one of them remains *)
Definition eb_pop (k : ek) (more : bool) (b : aeb) : option aeb :=
  match k with
  | KCC => match b_cc b with S n => Some (Build_aeb n (b_stat b) (b_so b) (b_hook b) (b_other b)) | O => None end
  | KStat => match b_stat b with S n => Some (Build_aeb (b_cc b) n (b_so b) (b_hook b) (b_other b)) | O => None end
  | KStatO => match b_so b with S n => Some (Build_aeb (b_cc b) (b_stat b) n (b_hook b) (b_other b)) | O => None end
  | KHook => match b_hook b with S n => Some (Build_aeb (b_cc b) (b_stat b) (b_so b) n (b_other b)) | O => None end
  | KMiss | KHard => if b_other b then Some (Build_aeb (b_cc b) (b_stat b) (b_so b) (b_hook b) more) else None
  end.
Definition eb_empty (b : aeb) : bool :=
  match b_cc b, b_stat b, b_so b, b_hook b with O, O, O, O => negb (b_other b) | _, _, _, _ => false end.

Section WithNk.
Variable nk : ek -> ek.   (* kind normaliser: identity, or the collapse to {KMiss, KHard} *)

(* ---------- collectors ---------- *)
Definition a_rc_norm (a : ast) : ast * list aev :=
  match a_rc a with
  | RCRun false => if a_rbuf a then (a, []) else (t_rc RCExit a, [AECloseP])
  | RCDrain true false false => (t_rbuf false (t_rc RCExit a), [AECloseP])
  | _ => (a, [])
  end.
Definition a_ec_norm (a : ast) : ast * list aev :=
  match a_ec a with
  | ECRun false => if eb_empty (a_eb a) then (t_ec ECExit a, [AECloseE]) else (a, [])
  | _ => (a, [])
  end.
Definition a_with_norm (r : ast * list aev) : ast * list aev :=
  let (a1, e1) := r in let (a2, e2) := a_rc_norm a1 in let (a3, e3) := a_ec_norm a2 in (a3, e1 ++ e2 ++ e3).

(* ---------- loop ---------- *)
Definition a_term3 (rel : bool) (a : ast) : ast :=
  let a := t_iclosed true (t_lpc ALIdle a) in if rel then t_xpc AXIdle a else a.
Definition a_term2 (started rel : bool) (a : ast) : ast :=
  let a := t_rq false (t_rctx true (t_ent None a)) in
  if started then t_lpc (ALShutdown rel) (t_tctx true a) else a_term3 rel a.
Definition a_terminate (e : aentry) (rel : bool) (a : ast) : ast :=
  match ae_terr e with
  | Some x => t_lpc (ALTermSend x rel) a
  | None => a_term2 (ae_started e) rel a
  end.
Definition a_coe (e : aentry) (eo : option ek) (a : ast) : ast :=
  let e' := Build_aentry (ae_state e) (match ae_terr e with None => eo | Some x => Some x end) (ae_started e) in
  let a := t_ent (Some e') a in
  match ae_state e with
  | Running => t_ropen false (t_rctx true a)
  | _ => a_terminate e' false a
  end.

Definition a_handle_env (m : amsg) (a : ast) : ast * list aev :=
  match m, a_ent a with
  | AMCancelApi, None => (a, [])
  | AMCancelApi, Some e => (a_coe e (Some (nk KCC)) a, [AESend OCancel])
  | AMResp sc items hookerr, None => (a, [])
  | AMResp sc items hookerr, Some e =>
      if hookerr then (a_coe e (Some (nk KHook)) a, [AESend OCancel])
      else
        let a1 := if ae_started e && a_ropen a then t_rq (a_rq a || items) a else a in
        match sc with
        | APartial => (a1, [])
        | ASucc => (if ae_started e then t_ropen false a1 else a1, [])
        | AFailN | AFailO =>
            let a2 := a_coe e (Some (nk (match sc with AFailN => KStat | _ => KStatO end))) a1 in
            (match a_ent a2 with
             | Some e2 => if ae_started e2 then t_ropen false a2 else a2
             | None => a2 end, [])
        end
  | AMPause, None => (a, [])
  | AMPause, Some e => match ae_state e with Paused => (a, []) | _ => (t_ptok true a, []) end
  | AMUnpause, None => (a, [])
  | AMUnpause, Some e =>
      match ae_state e with
      | Paused => (t_tq true (t_ent (Some (Build_aentry Queued (ae_terr e) (ae_started e))) a), [])
      | _ => (a, [])
      end
  end.

Definition a_handle_int (m : imsg) (a : ast) : option (ast * list aev) :=
  match m, a_ent a with
  | ICancel, None => Some (a, [])
  | ICancel, Some e => Some (a_coe e None a, [AESend OCancel])
  | IGetTask, None => match a_xpc a with AXAwaitTask => Some (t_xpc AXIdle a, []) | _ => None end
  | IGetTask, Some e =>
      match a_xpc a with
      | AXAwaitTask =>
          let a1 := if ae_started e then a else t_rq false (t_ropen false (t_tctx false (t_trav (ATRun false) a))) in
          Some (t_xpc (AXTop false) (t_ent (Some (Build_aentry Running (ae_terr e) true)) a1), [])
      | _ => None
      end
  | IRelease p, None => match a_xpc a with AXAwaitDone => Some (t_xpc AXIdle a, []) | _ => None end
  | IRelease p, Some e =>
      match a_xpc a with
      | AXAwaitDone =>
          if p && negb (a_rctx a) then Some (t_xpc AXIdle (t_ent (Some (Build_aentry Paused (ae_terr e) (ae_started e))) a), [])
          else Some (a_terminate e true a, [])
      | _ => None
      end
  end.

(* ---------- channels ---------- *)
Definition a_recv_err (d : edst) (k : ek) (a : ast) : option ast :=
  match d with
  | DstEC => match a_ec a with ECRun true => Some (t_eb (eb_add k (a_eb a)) a) | _ => None end
  | DstRC => match a_rc a with RCDrain _ _ true => Some a | _ => None end
  end.
Definition a_recv_visit (d : edst) (a : ast) : option ast :=
  match d with
  | DstEC => match a_rc a with RCRun true => Some (t_rbuf true a) | _ => None end
  | DstRC => match a_rc a with RCDrain _ true _ => Some a | _ => None end
  end.

(* ---------- executor ---------- *)
Definition a_after_err (k : ek) (sent : bool) (a : ast) : ast := t_xpc (AXSendErr k sent) a.
Definition a_trav_ok (o : orc) (a : ast) : ast := t_trav (ATRun (o_b2 o)) a.
(* o_more = the skipped load is the root *)
Definition a_trav_skip (o : orc) (a : ast) : ast :=
  if o_more o then t_trav (ATDone true) a else t_trav (ATRun (o_b2 o)) a.

Definition a_exec_step (c : lchoice) (o : orc) (a : ast) : option (ast * list aev) :=
  let hasq := a_rq a in
  let dec := t_rq (o_more o) a in
  match a_xpc a with
  | AXPopped => Some (t_xpc AXAwaitTask (t_mb (qsnoc (a_mb a) IGetTask) a), [])
  | AXTop sent =>
      match a_trav a with
      | ATLoader => Some (t_xpc (AXLoad sent) a, [])
      | ATDone false => Some (t_xpc (AXRelease false) a, [])
      | ATDone true => Some (t_xpc (AXFin (Some (nk KHard))) a, [])
      | _ => None
      end
  | AXLoad sent =>
      match c with
      | CConsume => if hasq then Some (dec, []) else None
      | CRemOk => if hasq then Some (t_xpc (AXHooks true sent) (a_trav_ok o dec), []) else None
      | CRemHard => if hasq then Some (a_after_err (nk KHard) sent dec, []) else None
      | CRemMiss => if hasq then Some (t_xpc (AXLocal true sent) dec, []) else None
      | CLoc => if hasq || negb (a_ropen a) then Some (t_xpc (AXLocal false sent) a, []) else None
      | _ => None
      end
  | AXLocal consumed sent =>
      match c with
      | CLocOk => Some (t_xpc (AXHooks true sent) (a_trav_ok o a), [])
      | CLocMiss => if sent then Some (a_after_err (nk KMiss) sent a, [])
                    else Some (t_xpc (AXGoOnline consumed) a, [])
      | _ => None
      end
  | AXGoOnline consumed =>
      if a_rctx a then Some (t_xpc (AXRelease false) (t_rq false a), [])
      else Some (t_xpc (AXLoad true) (t_ropen true (t_rq false a)), [AESend ONew])
  | AXSendErr k sent => if a_rctx a then Some (t_xpc (AXRelease false) a, []) else None
  | AXHooks ok sent =>
      let hookerr := ok && match c with CHookErr => true | _ => false end in
      let tok := a_ptok a in
      let a1 := t_ptok false a in
      if hookerr then Some (t_xpc (AXFin (Some (nk KHook))) a1, [])
      else if tok then Some (t_xpc (AXFin None) a1, [])
      else Some (t_xpc (AXTop sent) a1, [])
  | AXFin w =>
      let a1 := t_ropen false a in
      match w with
      | None => Some (t_xpc (AXRelease true) a1, [AESend OCancel])
      | Some k => Some (t_xpc (AXFinSend k) a1, [AESend OCancel])
      end
  | AXFinSend k => if a_rctx a then Some (t_xpc (AXRelease false) a, []) else None
  | AXRelease p => Some (t_xpc AXAwaitDone (t_mb (qsnoc (a_mb a) (IRelease p)) a), [])
  | AXIdle | AXAwaitTask | AXAwaitDone => None
  end.

Definition a_send_err (src : esrc) (o : orc) (a : ast) : option (ek * ast) :=
  match src with
  | SrcExec =>
      match a_xpc a with
      | AXSendErr k sent =>
          Some (k, t_xpc (AXHooks false sent)
                     (match k with KMiss => a_trav_skip o a | _ => t_trav (ATDone true) a end))
      | _ => None
      end
  | SrcFin => match a_xpc a with AXFinSend k => Some (k, t_xpc (AXRelease false) a) | _ => None end
  | SrcLoop =>
      match a_lpc a, a_ent a with
      | ALTermSend k rel, Some en => Some (k, a_term2 (ae_started en) rel a)
      | _, _ => None
      end
  end.

(* ---------- the abstract step ---------- *)
Definition a_step_raw (a : ast) (l : label) (o : orc) : option (ast * list aev) :=
  match l with
  | LEnvResp _ | LEnvApiCancel | LEnvPause | LEnvUnpause | LEnvSendFail => Some (a, [])
  | LEnvCtxCancel => Some (t_cctx true a, [])
  | LCallerRecvP =>
      match a_rc a, a_rbuf a with
      | RCRun _, true => Some (t_rbuf (o_more o) a, [AEDelivP])
      | _, _ => None
      end
  | LCallerRecvE =>
      match a_ec a with
      | ECRun _ => match eb_pop (o_k o) (o_more o) (a_eb a) with
                   | Some b => Some (t_eb b a, [AEDelivE (o_k o)])
                   | None => None end
      | ECSendCC true => Some (t_ec (ECRun false) a, [AEDelivE (nk KCC)])
      | ECSendCC false => Some (t_eb eb0 (t_ec ECExit a), [AEDelivE (nk KCC); AECloseE])
      | ECExit => None
      end
  | LLoop =>
      match a_lpc a with
      | ALIdle => match a_mb a with
                  | QCons m r => a_handle_int m (t_mb r a)
                  | QNil => None
                  end
      | ALShutdown rel => match a_trav a with ATDone _ => Some (a_term3 rel a, []) | _ => None end
      | ALTermSend _ _ => None
      end
  | LWorker =>
      match a_tq a, a_xpc a with
      | true, AXIdle => Some (t_xpc AXPopped (t_tq false a), [])
      | _, _ => None
      end
  | LExec c => a_exec_step c o a
  | LTrav c d =>
      if a_tctx a then
        match a_trav a with
        | ATLoader | ATRun _ => Some (t_trav (ATDone true) a, [])
        | _ => None
        end
      else
        match a_trav a, c with
        | ATRun true, TCVisit =>
            match a_recv_visit d a with Some a1 => Some (t_trav (ATRun (o_b2 o)) a1, []) | None => None end
        | ATRun false, TCNext => Some (t_trav (if o_more o then ATLoader else ATDone false) a, [])
        | ATRun _, TCFail => Some (t_trav (ATDone true) a, [])
        | _, _ => None
        end
  | LErr src d =>
      match a_send_err src o a with
      | Some (k, a1) => match a_recv_err d k a1 with Some a2 => Some (a2, []) | None => None end
      | None => None
      end
  | LRC c =>
      match a_rc a, c with
      | RCRun true, RCtx => if a_cctx a then Some (t_rc (RCDrain false true true) a, []) else None
      | RCRun false, RCtx => if a_cctx a then Some (t_rbuf false (t_rc RCExit a), [AECloseP]) else None
      | RCRun true, RSeeClosedP => if a_iclosed a then Some (t_rc (RCRun false) a, []) else None
      | RCDrain false x y, RSendCancel => Some (t_rc (RCDrain true x y) (t_mb (qsnoc (a_mb a) ICancel) a), [])
      | RCDrain x true y, RSeeClosedP => if a_iclosed a then Some (t_rc (RCDrain x false y) a, []) else None
      | RCDrain x y true, RSeeClosedE => if a_iclosed a then Some (t_rc (RCDrain x y false) a, []) else None
      | _, _ => None
      end
  | LEC c =>
      match a_ec a, c with
      | ECRun _, ECtx => if a_cctx a then Some (t_ec (ECSendCC false) a, []) else None
      | ECRun true, ESeeClosed =>
          if a_iclosed a then Some (t_ec (if a_cctx a then ECSendCC true else ECRun false) a, []) else None
      | _, _ => None
      end
  end.

Definition a_step (a : ast) (mv : amove) : option (ast * list aev) :=
  match mv with
  | AM l o => match a_step_raw a l o with Some r => Some (a_with_norm r) | None => None end
  | AMEnv m => match a_lpc a with
               | ALIdle => Some (a_with_norm (a_handle_env m a))
               | _ => None
               end
  end.

End WithNk.

(* ---------- all moves (finite) ---------- *)
Definition kinds : list ek := [KCC; KStat; KStatO; KHook; KMiss; KHard].
Definition orcs4 : list orc := [Build_orc false false KCC; Build_orc false true KCC; Build_orc true false KCC; Build_orc true true KCC].
Definition orcsE : list orc := flat_map (fun k => [Build_orc false false k; Build_orc true false k]) kinds.
Definition labs4 : list label :=
  [LEnvCtxCancel; LCallerRecvP; LLoop; LWorker;
   LExec CConsume; LExec CRemOk; LExec CRemHard; LExec CRemMiss; LExec CLoc; LExec CLocOk; LExec CLocMiss; LExec CHookErr;
   LTrav TCVisit DstEC; LTrav TCVisit DstRC; LTrav TCNext DstEC; LTrav TCNext DstRC; LTrav TCFail DstEC; LTrav TCFail DstRC;
   LErr SrcExec DstEC; LErr SrcExec DstRC; LErr SrcFin DstEC; LErr SrcFin DstRC; LErr SrcLoop DstEC; LErr SrcLoop DstRC;
   LRC RCtx; LRC RSeeClosedP; LRC RSeeClosedE; LRC RSendCancel; LEC ECtx; LEC ESeeClosed].
Definition amsgs : list amsg :=
  [AMCancelApi; AMPause; AMUnpause] ++
  flat_map (fun sc => flat_map (fun i => [AMResp sc i false; AMResp sc i true]) [false; true]) [APartial; ASucc; AFailN; AFailO].
Definition all_moves : list amove :=
  flat_map (fun l => map (AM l) orcs4) labs4 ++ map (AM LCallerRecvE) orcsE ++ map AMEnv amsgs.
(* for the collapsed system only the kinds KMiss / KHard occur *)
Definition orcsE_c : list orc := flat_map (fun k => [Build_orc false false k; Build_orc true false k]) [KMiss; KHard].
Definition moves_c : list amove :=
  flat_map (fun l => map (AM l) orcs4) labs4 ++ map (AM LCallerRecvE) orcsE_c ++ map AMEnv amsgs.

Definition nk_id (k : ek) : ek := k.
Definition nk_c (k : ek) : ek := match k with KMiss => KMiss | _ => KHard end.
Definition a_succs (nk : ek -> ek) (moves : list amove) (a : ast) : list ast :=
  flat_map (fun mv => match a_step nk a mv with Some (a', _) => [a'] | None => [] end) moves.
